// Package elv runs Elvish code in-process for the property checks.
package elv

import (
	"context"
	"fmt"
	"strings"

	"src.elv.sh/pkg/eval"
	"src.elv.sh/pkg/eval/vals"
	"src.elv.sh/pkg/mods"
	"src.elv.sh/pkg/parse"
)

// New returns a fresh interpreter with the standard library modules.
func New() *eval.Evaler {
	ev := eval.NewEvaler()
	mods.AddTo(ev)
	return ev
}

// Result is the outcome of one evaluation.
type Result struct {
	Values []any  // values written to the value output
	Bytes  []byte // bytes written to stdout
	ErrOut []byte // bytes written to stderr
	Err    error  // parse error, compilation error or exception (nil = ok)
}

// Run evaluates code on ev with captured outputs.
func Run(ev *eval.Evaler, code string) Result { return RunCtx(ev, code, nil, nil) }

// RunCtx is Run with an interrupt context and an optional global namespace.
func RunCtx(ev *eval.Evaler, code string, ctx context.Context, global *eval.Ns) Result {
	out, collect, err := eval.CapturePort()
	if err != nil {
		return Result{Err: fmt.Errorf("harness: cannot create capture port: %w", err)}
	}
	errPort, collectErr, err := eval.CapturePort()
	if err != nil {
		collect()
		return Result{Err: fmt.Errorf("harness: cannot create capture port: %w", err)}
	}
	cfg := eval.EvalCfg{Ports: []*eval.Port{nil, out, errPort}, Interrupts: ctx, Global: global}
	evalErr := ev.Eval(parse.Source{Name: "[verif]", Code: code}, cfg)
	values, bytes := collect()
	_, ebytes := collectErr()
	return Result{Values: values, Bytes: bytes, ErrOut: ebytes, Err: evalErr}
}

// Reason returns the reason of an exception, or nil if err is not an exception.
func Reason(err error) error {
	if exc, ok := err.(eval.Exception); ok {
		return exc.Reason()
	}
	return nil
}

// IsException reports whether err is an Elvish exception (as opposed to a
// parse or compilation error).
func IsException(err error) bool {
	_, ok := err.(eval.Exception)
	return ok
}

// IsParseError reports whether err is a parse error.
func IsParseError(err error) bool { return err != nil && len(parse.UnpackErrors(err)) > 0 }

// IsCompileError reports whether err is a compilation error.
func IsCompileError(err error) bool { return err != nil && len(eval.UnpackCompilationErrors(err)) > 0 }

// Reprs renders values with repr, for messages.
func Reprs(values []any) string {
	var parts []string
	for _, v := range values {
		parts = append(parts, vals.ReprPlain(v))
	}
	return "[" + strings.Join(parts, " ") + "]"
}

// AddGoFns installs Go functions as builtins (visible as commands name~).
func AddGoFns(ev *eval.Evaler, fns map[string]any) {
	ev.ExtendBuiltin(eval.BuildNs().AddGoFns(fns))
}
