// Package gen holds the generators shared between properties. Every random
// choice is drawn from rapid so that cases shrink and replay.
package gen

import (
	"math"
	"math/big"
	"strings"
	"unicode/utf8"

	"pgregory.net/rapid"
	"verif/vs"
)

// Atoms is the hostile alphabet: Elvish metacharacters, whitespace, control
// bytes, multi-byte and astral characters, combining marks, U+FFFD, and bytes
// that are not valid UTF-8.
var Atoms = []string{
	"a", "b", "c", "A", "x", "z", "0", "1", "9", "_",
	"'", "\"", "$", "*", "?", "(", ")", "[", "]", "{", "}", "|", "&", ";", "<", ">", "^", "#", "~", "\\", "=", ",", "@", "%", "+", "!", ":", "/", ".", "-",
	" ", "\t", "\r", "\n", "\x00", "\x7f", "\x01", "\x1b", "\x08",
	"é", "世", "界", "́", "​", "�", "\U0001F600", "\U000E0001", " ", " ",
	"\x80", "\xc0", "\xff", "\xe4\xb8", "\xf0\x9f",
	"ab", "bA", // collide under DJB
	"..", "~", "-", "--", "&k", "num", "0x",
}

// ValidAtoms is Atoms restricted to valid UTF-8.
var ValidAtoms = func() []string {
	var out []string
	for _, a := range Atoms {
		if utf8.ValidString(a) {
			out = append(out, a)
		}
	}
	return out
}()

// PrintableAtoms has no control characters and no invalid bytes.
var PrintableAtoms = func() []string {
	var out []string
	for _, a := range ValidAtoms {
		ok := true
		for _, r := range a {
			if r < 0x20 || r == 0x7f || r == 0x2028 || r == 0x200b || r == 0xE0001 {
				ok = false
			}
		}
		if ok {
			out = append(out, a)
		}
	}
	return out
}()

func fromAtoms(t *rapid.T, label string, atoms []string, maxAtoms int) string {
	n := rapid.IntRange(0, maxAtoms).Draw(t, label+"#")
	var sb strings.Builder
	for i := 0; i < n; i++ {
		sb.WriteString(rapid.SampledFrom(atoms).Draw(t, label))
	}
	return sb.String()
}

// Str draws an arbitrary byte string (may be invalid UTF-8) of up to maxAtoms atoms.
func Str(t *rapid.T, label string, maxAtoms int) vs.B {
	if rapid.IntRange(0, 9).Draw(t, label+"?raw") == 0 {
		return vs.B(rapid.SliceOfN(rapid.Byte(), 0, maxAtoms).Draw(t, label+"raw"))
	}
	return vs.B(fromAtoms(t, label, Atoms, maxAtoms))
}

// ValidStr draws a valid UTF-8 string.
func ValidStr(t *rapid.T, label string, maxAtoms int) string {
	return fromAtoms(t, label, ValidAtoms, maxAtoms)
}

// PrintableStr draws printable valid UTF-8 without control characters.
func PrintableStr(t *rapid.T, label string, maxAtoms int) string {
	return fromAtoms(t, label, PrintableAtoms, maxAtoms)
}

// Word draws a short bareword-safe identifier.
func Word(t *rapid.T, label string) string {
	return rapid.StringMatching(`[a-z][a-z0-9]{0,5}`).Draw(t, label)
}

// ---------------------------------------------------------------------------
// numbers

// Num is a JSON-friendly typed number: Kind is "int", "bigint", "rat" or
// "float"; Text is the decimal / "a/b" text for exact kinds and the hex bit
// pattern for floats.
type Num struct {
	Kind string `json:"kind"`
	Text string `json:"text"`
}

var interestingInts = []int64{0, 1, -1, 2, -2, 3, 7, 10, 31, 32, 33, 100, 255, 1 << 31, -(1 << 31), 1<<31 - 1, 1 << 32, 1 << 53, 1<<53 + 1, 1<<53 - 1, -(1 << 53), -(1<<53 + 1),
	math.MaxInt64, math.MaxInt64 - 1, math.MinInt64, math.MinInt64 + 1, 1 << 62}

var interestingBig = []string{"9223372036854775808", "-9223372036854775809", "18446744073709551616", "-18446744073709551616",
	"1000000000000000000000000000000", "-1000000000000000000000000000000", "9223372036854775809", "340282366920938463463374607431768211456"}

var interestingFloatBits = []uint64{0, 1 << 63, 0x3ff0000000000000, 0xbff0000000000000, 0x7ff0000000000000, 0xfff0000000000000, 0x7ff8000000000001,
	1, 0x000fffffffffffff, 0x0010000000000000, 0x7fefffffffffffff, 0x4340000000000000, 0x4340000000000001, 0x433fffffffffffff, 0x43e0000000000000, 0xc3e0000000000000,
	0x3fe0000000000000, 0x3ff8000000000000, 0x4004000000000000, 0xbfe0000000000000, 0x3fb999999999999a, 0x41dfffffffc00000}

// Int draws a machine-int-range integer.
func Int(t *rapid.T, label string) int64 {
	switch rapid.IntRange(0, 3).Draw(t, label+"?") {
	case 0:
		return rapid.SampledFrom(interestingInts).Draw(t, label)
	case 1:
		return int64(rapid.IntRange(-20, 20).Draw(t, label))
	case 2:
		return rapid.Int64().Draw(t, label)
	default:
		return rapid.SampledFrom(interestingInts).Draw(t, label) + int64(rapid.IntRange(-2, 2).Draw(t, label+"d"))
	}
}

// BigInt draws an integer outside the int64 range.
func BigInt(t *rapid.T, label string) *big.Int {
	b, _ := new(big.Int).SetString(rapid.SampledFrom(interestingBig).Draw(t, label), 10)
	d := int64(rapid.IntRange(0, 3).Draw(t, label+"d"))
	if b.Sign() < 0 {
		d = -d
	}
	b.Add(b, big.NewInt(d))
	if rapid.IntRange(0, 3).Draw(t, label+"?mul") == 0 {
		b.Mul(b, big.NewInt(int64(rapid.IntRange(2, 1000).Draw(t, label+"mul"))))
	}
	return b
}

// Rat draws a non-integer rational in lowest terms.
func Rat(t *rapid.T, label string) *big.Rat {
	for {
		var num, den *big.Int
		if rapid.IntRange(0, 3).Draw(t, label+"?big") == 0 {
			num = BigInt(t, label+"n")
		} else {
			num = big.NewInt(Int(t, label+"n"))
		}
		switch rapid.IntRange(0, 3).Draw(t, label+"?den") {
		case 0:
			den = big.NewInt(int64(rapid.SampledFrom([]int{2, 3, 4, 5, 7, 8, 10, 16, 100, 1 << 20}).Draw(t, label+"den")))
		case 1:
			den = BigInt(t, label+"den")
			den.Abs(den)
		default:
			den = big.NewInt(int64(rapid.IntRange(2, 1000).Draw(t, label+"den")))
		}
		r := new(big.Rat).SetFrac(num, den)
		if !r.IsInt() {
			return r
		}
		// make it a non-integer deterministically
		r.Add(r, big.NewRat(1, 3))
		if !r.IsInt() {
			return r
		}
	}
}

// Float draws a float64 from interesting bit patterns and random bits.
func Float(t *rapid.T, label string) float64 {
	switch rapid.IntRange(0, 3).Draw(t, label+"?") {
	case 0:
		return math.Float64frombits(rapid.SampledFrom(interestingFloatBits).Draw(t, label))
	case 1:
		return math.Float64frombits(rapid.Uint64().Draw(t, label))
	case 2:
		return float64(rapid.IntRange(-1000, 1000).Draw(t, label)) / float64(rapid.SampledFrom([]int{1, 2, 4, 8, 10, 3}).Draw(t, label+"d"))
	default:
		return math.Float64frombits(rapid.SampledFrom(interestingFloatBits).Draw(t, label) + uint64(rapid.IntRange(0, 2).Draw(t, label+"ulp")))
	}
}

// Number draws a typed number; kinds is a subset of "ibrf" (int, bigint, rat, float).
func Number(t *rapid.T, label string, kinds string) Num {
	k := kinds[rapid.IntRange(0, len(kinds)-1).Draw(t, label+"kind")]
	switch k {
	case 'i':
		return Num{"int", big.NewInt(Int(t, label)).String()}
	case 'b':
		return Num{"bigint", BigInt(t, label).String()}
	case 'r':
		return Num{"rat", Rat(t, label).String()}
	default:
		return FloatNum(Float(t, label))
	}
}

// FloatNum wraps a float64.
func FloatNum(f float64) Num {
	return Num{"float", "0x" + bigHex(math.Float64bits(f))}
}

func bigHex(u uint64) string { return new(big.Int).SetUint64(u).Text(16) }

// Value converts n to the Go representation Elvish uses: int, *big.Int,
// *big.Rat or float64.
func (n Num) Value() any {
	switch n.Kind {
	case "int":
		b, _ := new(big.Int).SetString(n.Text, 10)
		return int(b.Int64())
	case "bigint":
		b, _ := new(big.Int).SetString(n.Text, 10)
		return b
	case "rat":
		r, _ := new(big.Rat).SetString(n.Text)
		return r
	default:
		b, _ := new(big.Int).SetString(strings.TrimPrefix(n.Text, "0x"), 16)
		return math.Float64frombits(b.Uint64())
	}
}

// Exact returns the exact rational value of an exact number, or nil for floats.
func (n Num) Exact() *big.Rat {
	switch n.Kind {
	case "int", "bigint", "rat":
		r, _ := new(big.Rat).SetString(n.Text)
		return r
	}
	return nil
}

// IsFloat reports whether n is inexact.
func (n Num) IsFloat() bool { return n.Kind == "float" }

// Float returns the float64 of a float Num.
func (n Num) Float() float64 { return n.Value().(float64) }
