package gen

import (
	"fmt"
	"math"
	"math/big"
	"sort"
	"strings"

	"pgregory.net/rapid"
	"src.elv.sh/pkg/eval/vals"
	"src.elv.sh/pkg/persistent/hashmap"
	"verif/vs"
)

// V is a JSON-friendly mirror of an Elvish data value (nil, bool, string,
// typed number, list, map). The oracle works on V, never on vals.Equal.
type V struct {
	K string `json:"k"` // nil bool str num list map
	B bool   `json:"b,omitempty"`
	S vs.B   `json:"s,omitempty"`
	N *Num   `json:"n,omitempty"`
	L []V    `json:"l,omitempty"`
	M []KV   `json:"m,omitempty"` // in insertion order; keys pairwise distinct
}

// KV is a map entry.
type KV struct {
	Key V `json:"key"`
	Val V `json:"val"`
}

// ValOpts configures Val.
type ValOpts struct {
	Depth     int    // maximum nesting depth
	Width     int    // maximum container width
	NumKinds  string // subset of "ibrf"; "" = no numbers
	NoNaN     bool   // never generate NaN
	ValidOnly bool   // strings are valid UTF-8
}

// Val draws a value.
func Val(t *rapid.T, label string, o ValOpts) V {
	kinds := []string{"str", "str", "nil", "bool"}
	if o.NumKinds != "" {
		kinds = append(kinds, "num", "num")
	}
	if o.Depth > 0 {
		kinds = append(kinds, "list", "list", "map", "map")
	}
	switch rapid.SampledFrom(kinds).Draw(t, label+"k") {
	case "nil":
		return V{K: "nil"}
	case "bool":
		return V{K: "bool", B: rapid.Bool().Draw(t, label+"b")}
	case "str":
		if o.ValidOnly {
			return V{K: "str", S: vs.B(ValidStr(t, label+"s", 4))}
		}
		return V{K: "str", S: Str(t, label+"s", 4)}
	case "num":
		n := Number(t, label+"n", o.NumKinds)
		if o.NoNaN && n.IsFloat() && math.IsNaN(n.Float()) {
			n = FloatNum(1.5)
		}
		return V{K: "num", N: &n}
	case "list":
		sub := o
		sub.Depth--
		n := rapid.IntRange(0, o.Width).Draw(t, label+"#")
		v := V{K: "list"}
		for i := 0; i < n; i++ {
			v.L = append(v.L, Val(t, label+"e", sub))
		}
		return v
	default:
		sub := o
		sub.Depth--
		ksub := sub
		ksub.NoNaN = true
		n := rapid.IntRange(0, o.Width).Draw(t, label+"#")
		v := V{K: "map"}
		seen := map[string]bool{}
		for i := 0; i < n; i++ {
			k := Val(t, label+"mk", ksub)
			c := k.Canon()
			if seen[c] {
				continue
			}
			seen[c] = true
			v.M = append(v.M, KV{k, Val(t, label+"mv", sub)})
		}
		return v
	}
}

// Canon is a canonical text of the value under Elvish equality: two V are eq
// in Elvish iff their Canon texts are equal (NaN is never eq to itself and is
// given a text anyway; callers that need eq-reflexivity exclude NaN).
func (v V) Canon() string {
	switch v.K {
	case "nil":
		return "nil"
	case "bool":
		return fmt.Sprintf("bool:%v", v.B)
	case "str":
		return fmt.Sprintf("str:%q", string(v.S))
	case "num":
		if v.N.IsFloat() {
			f := v.N.Float()
			if f == 0 {
				return "float:0"
			}
			if math.IsNaN(f) {
				return "float:NaN"
			}
			return fmt.Sprintf("float:%x", math.Float64bits(f))
		}
		// int, bigint and rat never hold the same value when canonical
		return "exact:" + v.N.Exact().RatString()
	case "list":
		var parts []string
		for _, e := range v.L {
			parts = append(parts, e.Canon())
		}
		return "[" + strings.Join(parts, " ") + "]"
	default:
		var parts []string
		for _, kv := range v.M {
			parts = append(parts, kv.Key.Canon()+"="+kv.Val.Canon())
		}
		sort.Strings(parts)
		return "{" + strings.Join(parts, " ") + "}"
	}
}

// HasNaN reports whether v contains a NaN anywhere.
func (v V) HasNaN() bool {
	switch v.K {
	case "num":
		return v.N.IsFloat() && math.IsNaN(v.N.Float())
	case "list":
		for _, e := range v.L {
			if e.HasNaN() {
				return true
			}
		}
	case "map":
		for _, kv := range v.M {
			if kv.Key.HasNaN() || kv.Val.HasNaN() {
				return true
			}
		}
	}
	return false
}

// Depth returns the nesting depth (scalars 0).
func (v V) Depth() int {
	d := 0
	for _, e := range v.L {
		if x := e.Depth() + 1; x > d {
			d = x
		}
	}
	for _, kv := range v.M {
		if x := kv.Key.Depth() + 1; x > d {
			d = x
		}
		if x := kv.Val.Depth() + 1; x > d {
			d = x
		}
	}
	if (v.K == "list" || v.K == "map") && d == 0 {
		d = 1
	}
	return d
}

// Elvish builds the Elvish value; maps are built by assoc in the order of M.
func (v V) Elvish() any {
	switch v.K {
	case "nil":
		return nil
	case "bool":
		return v.B
	case "str":
		return string(v.S)
	case "num":
		return v.N.Value()
	case "list":
		l := vals.EmptyList
		for _, e := range v.L {
			l = l.Conj(e.Elvish())
		}
		return l
	default:
		var m hashmap.Map = vals.EmptyMap
		for _, kv := range v.M {
			m = m.Assoc(kv.Key.Elvish(), kv.Val.Elvish())
		}
		return m
	}
}

// Same compares an Elvish value with the mirror, type-exactly: the four number
// representations are distinguished, floats are compared by bits except that
// any NaN matches any NaN.
func (v V) Same(x any) error {
	switch v.K {
	case "nil":
		if x != nil {
			return fmt.Errorf("want $nil, got %T %v", x, x)
		}
	case "bool":
		if b, ok := x.(bool); !ok || b != v.B {
			return fmt.Errorf("want bool %v, got %T %v", v.B, x, x)
		}
	case "str":
		if s, ok := x.(string); !ok || s != string(v.S) {
			return fmt.Errorf("want string %q, got %T %q", string(v.S), x, x)
		}
	case "num":
		return SameNum(v.N.Value(), x)
	case "list":
		l, ok := x.(vals.List)
		if !ok {
			return fmt.Errorf("want list, got %T", x)
		}
		if l.Len() != len(v.L) {
			return fmt.Errorf("want list of %d, got %d", len(v.L), l.Len())
		}
		i := 0
		for it := l.Iterator(); it.HasElem(); it.Next() {
			if err := v.L[i].Same(it.Elem()); err != nil {
				return fmt.Errorf("[%d]: %w", i, err)
			}
			i++
		}
	default:
		m, ok := x.(vals.Map)
		if !ok {
			return fmt.Errorf("want map, got %T", x)
		}
		if m.Len() != len(v.M) {
			return fmt.Errorf("want map of %d, got %d", len(v.M), m.Len())
		}
		// match entries by canonical key text, computed on the mirror side
		for it := m.Iterator(); it.HasElem(); it.Next() {
			k, val := it.Elem()
			found := false
			for _, kv := range v.M {
				if kv.Key.Same(k) == nil {
					if err := kv.Val.Same(val); err != nil {
						return fmt.Errorf("value of key %s: %w", kv.Key.Canon(), err)
					}
					found = true
					break
				}
			}
			if !found {
				return fmt.Errorf("map has unexpected key %s", vals.ReprPlain(k))
			}
		}
	}
	return nil
}

// SameNum compares two Go number values type-exactly.
func SameNum(want, got any) error {
	switch w := want.(type) {
	case int:
		if g, ok := got.(int); !ok || g != w {
			return fmt.Errorf("want int %d, got %T %v", w, got, got)
		}
	case *big.Int:
		if g, ok := got.(*big.Int); !ok || g.Cmp(w) != 0 {
			return fmt.Errorf("want big.Int %v, got %T %v", w, got, got)
		}
	case *big.Rat:
		if g, ok := got.(*big.Rat); !ok || g.Cmp(w) != 0 {
			return fmt.Errorf("want big.Rat %v, got %T %v", w, got, got)
		}
	case float64:
		g, ok := got.(float64)
		if !ok {
			return fmt.Errorf("want float64 %v, got %T %v", w, got, got)
		}
		if math.IsNaN(w) && math.IsNaN(g) {
			return nil
		}
		if math.Float64bits(w) != math.Float64bits(g) {
			return fmt.Errorf("want float64 %v (bits %x), got %v (bits %x)", w, math.Float64bits(w), g, math.Float64bits(g))
		}
	default:
		return fmt.Errorf("not a number: %T", want)
	}
	return nil
}

// Shuffled returns a copy of a map value with its entries (recursively) in a
// permuted insertion order chosen by perm seeds drawn from rapid.
func (v V) Shuffled(t *rapid.T, label string) V {
	out := v
	switch v.K {
	case "list":
		out.L = nil
		for _, e := range v.L {
			out.L = append(out.L, e.Shuffled(t, label))
		}
	case "map":
		out.M = nil
		idx := rapid.Permutation(indices(len(v.M))).Draw(t, label+"perm")
		for _, i := range idx {
			out.M = append(out.M, KV{v.M[i].Key.Shuffled(t, label), v.M[i].Val.Shuffled(t, label)})
		}
	}
	return out
}

func indices(n int) []int {
	out := make([]int, n)
	for i := range out {
		out[i] = i
	}
	return out
}
