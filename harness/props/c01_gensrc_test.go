package props

// Grammar-based generator of syntactically valid Elvish source text.
//
// Written from the grammar in website/ref/language.md and the EBNF comments of
// pkg/parse/parse.go. Programs are *constructed* valid (nothing is filtered):
// every construct is emitted with the separators the grammar requires. It
// covers every Primary type (bareword, single/double quoted, variable,
// wildcard, tilde, exception capture, output capture, list, lambda, map,
// braced), compounds of several primaries, indexing, redirections, options,
// pipelines, background '&', comments, line continuations, CR / CRLF / LF / ';'
// separators, lambdas with signatures, and the special-form shapes (if, for,
// try, fn, var, set ...), which are ordinary forms for the parser.
//
// Reuse: c01SrcProgram(t, c01SrcDefault) returns one program; the config
// narrows the alphabet (ASCII only, safe command heads) for users that want to
// evaluate the result.

import (
	"strings"

	"pgregory.net/rapid"
)

// c01SrcCfg configures the generator.
type c01SrcCfg struct {
	MaxDepth     int      // nesting depth of chunks / lists / captures (default 4)
	MaxPipelines int      // pipelines per top-level chunk (default 4)
	ASCIIOnly    bool     // no multi-byte characters
	Heads        []string // when non-empty, simple command heads are drawn from this list only
	NoSpecial    bool     // do not emit the special-form templates (if/for/try/fn/var/...)
	NoCR         bool     // use only LF as newline
	MaxPrimaries int      // size budget: after this many primaries only one-letter barewords are emitted (default 40)
}

var c01SrcDefault = c01SrcCfg{MaxDepth: 4, MaxPipelines: 4}

// expression contexts (mirror of the documented bareword rules)
const (
	c01SrcNormal = iota
	c01SrcCmd
	c01SrcLHS
	c01SrcBraced
)

type c01SrcG struct {
	t     *rapid.T
	cfg   c01SrcCfg
	feats map[string]bool
	budget int
}

// c01SrcProgram draws one syntactically valid program.
func c01SrcProgram(t *rapid.T, cfg c01SrcCfg) string {
	s, _ := c01SrcProgramFeats(t, cfg)
	return s
}

// c01SrcProgramFeats also returns the set of grammar features used.
func c01SrcProgramFeats(t *rapid.T, cfg c01SrcCfg) (string, map[string]bool) {
	if cfg.MaxDepth == 0 {
		cfg.MaxDepth = 4
	}
	if cfg.MaxPipelines == 0 {
		cfg.MaxPipelines = 4
	}
	if cfg.MaxPrimaries == 0 {
		cfg.MaxPrimaries = 40
	}
	g := &c01SrcG{t: t, cfg: cfg, feats: map[string]bool{}, budget: cfg.MaxPrimaries}
	return g.chunk(cfg.MaxDepth, true), g.feats
}

// u draws a nearly uniform 64-bit value. rapid's integer generators are
// heavily biased towards small values (a 4% branch written as
// IntRange(0,99) < 4 is taken 30% of the time), which would make the stated
// weights of the grammar meaningless; mixing a raw draw restores them. The mix
// maps 0 to 0, so shrinking still moves towards the first alternative, the
// lower bound and "false".
func (g *c01SrcG) u() uint64 { return c01SrcU64(g.t) }

// c01SrcU64 is the nearly uniform 64-bit draw described above.
func c01SrcU64(t *rapid.T) uint64 {
	x := rapid.Uint64().Draw(t, "u")
	x ^= x >> 30
	x *= 0xbf58476d1ce4e5b9
	x ^= x >> 27
	x *= 0x94d049bb133111eb
	x ^= x >> 31
	return x
}

// c01SrcUniform draws a nearly uniform integer in [0,n); it shrinks towards 0.
func c01SrcUniform(t *rapid.T, n int) int { return int(c01SrcU64(t) % uint64(n)) }
func (g *c01SrcG) n(max int) int           { return int(g.u() % uint64(max+1)) }
func (g *c01SrcG) rng(lo, hi int) int      { return lo + int(g.u()%uint64(hi-lo+1)) }
func (g *c01SrcG) pct(p int) bool          { return int(g.u()%100) > 99-p }
func (g *c01SrcG) pick(xs []string) string { return xs[g.u()%uint64(len(xs))] }
func (g *c01SrcG) feat(f string)           { g.feats[f] = true }

func (g *c01SrcG) nl() string {
	if g.cfg.NoCR {
		return "\n"
	}
	switch g.n(9) {
	case 0:
		g.feat("crlf")
		return "\r\n"
	case 1:
		g.feat("cr")
		return "\r"
	}
	return "\n"
}

var c01SrcWordsASCII = []string{"a", "b", "x", "foo", "bar", "k", "v", "e", "fd", "lorem", "x-y", "a_b", "ns:name", "f~", "a.b", "./p/q", "/usr/bin", "a\\b", "%1", "+x", "!", "@rest", "1", "42", "0x1F", "1.5", "-3", "1e3", "1/2", "+inf", "a:b:", "-", "--flag", "..", "0..3", "..=2"}
var c01SrcWordsUni = []string{"é", "世界", "naïve", "λx", "\U0001F600", "á"}

var c01SrcHeads = []string{"echo", "put", "nop", "a", "f", "ls", "e:cat", "x:y~", "./run", "+", "-", "*", "/", "%", "<", "<=", "==", "!=", ">", ">=", "<s", "a^b", "a<b", "x*y", "to-string", "é", "a^"}

func (g *c01SrcG) bareChars(ctx int) []string {
	cs := []string{"a", "b", "z", "Q", "0", "7", "-", "_", ":", "~", ".", "/", "\\", "@", "%", "+", "!"}
	if ctx != c01SrcLHS {
		cs = append(cs, "=")
	}
	if ctx != c01SrcBraced {
		cs = append(cs, ",")
	}
	if ctx == c01SrcCmd {
		cs = append(cs, "<", ">", "*", "^")
	}
	if !g.cfg.ASCIIOnly {
		cs = append(cs, "é", "世", "\U0001F600")
	}
	return cs
}

func (g *c01SrcG) bareword(ctx int) string {
	g.feat("bareword")
	if g.pct(60) {
		if !g.cfg.ASCIIOnly && g.pct(15) {
			g.feat("multibyte")
			return g.pick(c01SrcWordsUni)
		}
		w := g.pick(c01SrcWordsASCII)
		if ctx == c01SrcLHS && strings.Contains(w, "=") {
			return "k"
		}
		return w
	}
	cs := g.bareChars(ctx)
	var sb strings.Builder
	for i, n := 0, g.rng(1, 5); i < n; i++ {
		c := g.pick(cs)
		if i == 0 && c == "^" {
			// A command may contain '^' but where whitespace is being skipped a
			// leading "^<newline>" would be read as a line continuation.
			c = "a^"
		}
		sb.WriteString(c)
	}
	return sb.String()
}

// text for quoted strings and comments
func (g *c01SrcG) freeText(max int, exclude string) string {
	atoms := []string{"a", "b", " ", "x y", "$", "*", "?", "(", ")", "[", "]", "{", "}", "|", "&", ";", "<", ">", "^", "#", "~", "=", ",", "'", "\"", "\\", "\t", "0", "-"}
	if !g.cfg.ASCIIOnly {
		atoms = append(atoms, "é", "世", "\U0001F600", "́", "​")
	}
	var sb strings.Builder
	for i, n := 0, g.n(max); i < n; i++ {
		a := g.pick(atoms)
		if strings.ContainsAny(a, exclude) {
			continue
		}
		if len(a) > 1 && a[0] >= 0x80 {
			g.feat("multibyte")
		}
		sb.WriteString(a)
	}
	return sb.String()
}

func (g *c01SrcG) single() string {
	g.feat("single-quoted")
	var sb strings.Builder
	sb.WriteByte('\'')
	for i, n := 0, g.n(3); i < n; i++ {
		switch g.n(5) {
		case 0:
			sb.WriteString("''")
		case 1:
			g.feat("newline-in-string")
			sb.WriteString(g.nl())
		default:
			sb.WriteString(g.freeText(3, "'"))
		}
	}
	sb.WriteByte('\'')
	return sb.String()
}

var c01SrcEscapes = []string{`\n`, `\t`, `\\`, `\"`, `\a`, `\b`, `\f`, `\r`, `\v`, `\e`, `\x41`, `\x00`, `\xff`, `\xE4`, `é`, `和`, `�`, `\U0001F600`, `\U0002CE23`, `\101`, `\000`, `\377`, `\c?`, `\c@`, `\cA`, `\cZ`, `\c[`, `\c]`, `\c^`, `\c_`, `\^I`, `\^[`, `\^?`, `\c\`}

func (g *c01SrcG) double() string {
	g.feat("double-quoted")
	var sb strings.Builder
	sb.WriteByte('"')
	for i, n := 0, g.n(4); i < n; i++ {
		switch g.n(5) {
		case 0, 1:
			g.feat("escape")
			sb.WriteString(g.pick(c01SrcEscapes))
		case 2:
			g.feat("newline-in-string")
			sb.WriteString(g.nl())
		default:
			sb.WriteString(g.freeText(3, "\"\\"))
		}
	}
	sb.WriteByte('"')
	return sb.String()
}

var c01SrcVarNames = []string{"x", "foo", "a-b", "a_b", "ns:x", "e:ls~", "f~", "E:PATH", "-x", "_", "0", "a:b:c", "x~y", "pid", "nil", "true", "args", "edit:prompt"}

func (g *c01SrcG) variable() string {
	g.feat("variable")
	switch g.n(9) {
	case 0:
		g.feat("variable-quoted")
		return "$" + g.single()
	case 1:
		g.feat("variable-quoted")
		return "$" + g.double()
	case 2:
		g.feat("variable-explode")
		return "$@" + g.pick(c01SrcVarNames)
	case 3:
		if !g.cfg.ASCIIOnly {
			g.feat("multibyte")
			return "$" + g.pick([]string{"é", "世界", "λ-x"})
		}
	}
	return "$" + g.pick(c01SrcVarNames)
}

// wsnl is whitespace that may contain newlines and comments (inside [], {|..|},
// braced lists, after '|' and after '=' of a map pair).
func (g *c01SrcG) wsnl(required bool) string {
	var sb strings.Builder
	lo := 0
	if required {
		lo = 1
	}
	for i, n := 0, g.rng(lo, 2); i < n; i++ {
		switch g.n(9) {
		case 0:
			sb.WriteString(g.nl())
		case 1:
			sb.WriteString("\t")
		case 2:
			g.feat("comment")
			// a comment must be preceded by whitespace in some contexts and
			// always runs to the end of the line
			sb.WriteString(" #" + g.freeText(3, "") + g.nl())
		case 3:
			sb.WriteString(g.nl() + "  ")
		case 4:
			g.feat("continuation")
			sb.WriteString(" ^" + g.nl())
		default:
			sb.WriteString(" ")
		}
	}
	return sb.String()
}

// ws is inline whitespace between the parts of a form: spaces, tabs and line
// continuations.
func (g *c01SrcG) ws() string {
	switch g.n(11) {
	case 0:
		return "  "
	case 1:
		return "\t"
	case 2:
		g.feat("continuation")
		return " ^" + g.nl()
	case 3:
		g.feat("continuation")
		return " ^" + g.nl() + "  "
	}
	return " "
}

func (g *c01SrcG) array(depth int) string {
	var sb strings.Builder
	sb.WriteString(g.wsnl(false))
	for i, n := 0, g.n(3); i < n; i++ {
		sb.WriteString(g.compound(depth-1, c01SrcNormal))
		if i < n-1 {
			sb.WriteString(g.wsnl(true))
		} else {
			sb.WriteString(g.wsnl(false))
		}
	}
	return sb.String()
}

func (g *c01SrcG) list(depth int) string {
	g.feat("list")
	return "[" + g.array(depth) + "]"
}

func (g *c01SrcG) mapPair(depth int, inForm bool) string {
	var sb strings.Builder
	sb.WriteString("&")
	sb.WriteString(g.compound(depth-1, c01SrcLHS))
	if g.pct(80) {
		sb.WriteString("=")
		if g.pct(15) {
			g.feat("space-after-=")
			sb.WriteString(g.wsnl(false))
		}
		// In a form the spaces and newlines after '=' belong to the pair, so an
		// empty value there would swallow the following line; only map
		// literals get empty values.
		if inForm || g.pct(90) {
			sb.WriteString(g.compound(depth-1, c01SrcNormal))
		} else {
			g.feat("empty-map-value")
		}
	} else {
		g.feat("map-key-only")
	}
	return sb.String()
}

func (g *c01SrcG) mapLit(depth int) string {
	g.feat("map")
	if g.pct(15) {
		g.feat("empty-map")
		return "[" + g.wsnl(false) + "&" + g.wsnl(false) + "]"
	}
	var sb strings.Builder
	sb.WriteString("[")
	sb.WriteString(g.wsnl(false))
	for i, n := 0, g.rng(1, 3); i < n; i++ {
		sb.WriteString(g.mapPair(depth, false))
		if i < n-1 {
			sb.WriteString(g.wsnl(true))
		} else {
			sb.WriteString(g.wsnl(false))
		}
	}
	sb.WriteString("]")
	return sb.String()
}

func (g *c01SrcG) lambda(depth int) string {
	g.feat("lambda")
	var sb strings.Builder
	sb.WriteString("{")
	if g.pct(50) {
		// signature
		g.feat("lambda-signature")
		if g.pct(30) {
			sb.WriteString(g.pick([]string{" ", "\n", " \n "}))
		}
		sb.WriteString("|")
		sb.WriteString(g.wsnl(false))
		for i, n := 0, g.n(3); i < n; i++ {
			switch g.n(5) {
			case 0:
				g.feat("lambda-option")
				sb.WriteString("&" + g.pick([]string{"k", "opt", "a-b"}) + "=" + g.compound(depth-1, c01SrcNormal))
			case 1:
				sb.WriteString("@" + g.pick([]string{"rest", "a"}))
			default:
				sb.WriteString(g.pick([]string{"a", "b", "x", "x-y", "f~"}))
			}
			if i < n-1 {
				sb.WriteString(g.wsnl(true))
			} else {
				sb.WriteString(g.wsnl(false))
			}
		}
		sb.WriteString("|")
	} else {
		sb.WriteString(g.pick([]string{" ", " ", g.nl(), ";", "\t", " " + g.nl() + "  "}))
	}
	sb.WriteString(g.chunk(depth-1, false))
	sb.WriteString("}")
	return sb.String()
}

func (g *c01SrcG) braced(depth int) string {
	g.feat("braced")
	var sb strings.Builder
	sb.WriteString("{")
	n := g.rng(1, 4)
	for i := 0; i < n; i++ {
		empty := g.pct(12)
		if i == 0 && empty && n == 1 {
			// "{}" is a braced list with one empty element
			g.feat("braced-empty")
		}
		if !empty {
			sb.WriteString(g.compound(depth-1, c01SrcBraced))
		}
		if i < n-1 {
			sep := g.pick([]string{",", ",", ", ", " ,", " , ", ",\n", "\n,", ",\t"})
			if !empty && g.pct(15) {
				// elements may be separated by whitespace alone
				sep = g.pick([]string{" ", "\n", "  "})
				g.feat("braced-space-sep")
			}
			if i == 0 && empty && (sep[0] == ' ' || sep[0] == '\n') {
				// "{ " would start a lambda
				sep = ","
			}
			sb.WriteString(sep)
		}
	}
	sb.WriteString("}")
	return sb.String()
}

func (g *c01SrcG) capture(depth int, exc bool) string {
	if exc {
		g.feat("exception-capture")
		return "?(" + g.chunk(depth-1, false) + ")"
	}
	g.feat("output-capture")
	return "(" + g.chunk(depth-1, false) + ")"
}

func (g *c01SrcG) wildcard() string {
	g.feat("wildcard")
	w := g.pick([]string{"*", "**", "?", "*", "**"})
	if g.pct(25) {
		g.feat("wildcard-modifier")
		w += g.pick([]string{"[set:ab]", "[type:dir]", "[nomatch-ok]", "[match-hidden][digit]", "[range:a-z]", "[but:.]"})
	}
	return w
}

// primary emits one primary expression. first says whether it starts its
// compound (list and map literals are only valid there: after another primary
// '[' starts an index).
func (g *c01SrcG) primary(depth, ctx int, first bool) string {
	g.budget--
	if g.budget < 0 {
		// size budget exhausted: the shortest primary that is valid in every context
		return g.pick([]string{"a", "b", "x", "1"})
	}
	k := g.n(99)
	if depth <= 0 {
		k = k % 52 // leaves only
	}
	switch {
	case k < 26:
		return g.bareword(ctx)
	case k < 33:
		return g.single()
	case k < 40:
		return g.double()
	case k < 48:
		return g.variable()
	case k < 52:
		return g.wildcard()
	case k < 60:
		return g.capture(depth, false)
	case k < 64:
		return g.capture(depth, true)
	case k < 74:
		if first {
			return g.list(depth)
		}
		return g.bareword(ctx)
	case k < 82:
		if first {
			return g.mapLit(depth)
		}
		return g.single()
	case k < 91:
		return g.lambda(depth)
	default:
		return g.braced(depth)
	}
}

// compound emits a non-empty compound expression for the given context.
func (g *c01SrcG) compound(depth, ctx int) string {
	var sb strings.Builder
	first := true
	if g.pct(4) {
		g.feat("tilde")
		sb.WriteString("~")
		first = false
		if g.pct(50) {
			sb.WriteString(g.pick([]string{"/foo", "user", "user/x", "/"}))
		}
		if g.pct(70) {
			return sb.String()
		}
	}
	n := 1
	if g.pct(18) {
		n = g.rng(2, 3)
		g.feat("multi-primary-compound")
	}
	for i := 0; i < n; i++ {
		sb.WriteString(g.primary(depth, ctx, first))
		first = false
		if g.pct(12) {
			g.feat("indexing")
			for j, m := 0, g.rng(1, 2); j < m; j++ {
				if depth <= 0 {
					sb.WriteString(g.pick([]string{"[0]", "[]", "[k]", "[1..2]", "[ -1 ]", "[a b]", "[\n0\n]"}))
				} else {
					sb.WriteString("[" + g.array(depth) + "]")
				}
			}
		}
	}
	return sb.String()
}

func (g *c01SrcG) redir(depth int) string {
	g.feat("redir")
	var sb strings.Builder
	if g.pct(40) {
		g.feat("redir-left-fd")
		sb.WriteString(g.pick([]string{"0", "1", "2", "3", "$fd", "stderr", "10", "'2'"}))
	}
	sb.WriteString(g.pick([]string{"<", ">", ">>", "<>", ">"}))
	if g.pct(25) {
		sb.WriteString(g.pick([]string{" ", "  ", "\t", " ^\n"}))
	}
	if g.pct(35) {
		g.feat("redir-fd-dup")
		sb.WriteString("&")
		sb.WriteString(g.pick([]string{"1", "2", "-", "$fd", "stdout", "0"}))
	} else {
		sb.WriteString(g.compound(depth-1, c01SrcNormal))
	}
	return sb.String()
}

func (g *c01SrcG) head(depth int) string {
	if len(g.cfg.Heads) > 0 {
		return g.pick(g.cfg.Heads)
	}
	switch g.n(9) {
	case 0:
		return g.compound(depth-1, c01SrcCmd)
	case 1:
		return g.bareword(c01SrcCmd)
	}
	h := g.pick(c01SrcHeads)
	if g.cfg.ASCIIOnly && h[0] >= 0x80 {
		return "echo"
	}
	return h
}

// form emits one ordinary form: head, arguments, options and redirections.
func (g *c01SrcG) form(depth int) string {
	if !g.cfg.NoSpecial && depth > 0 && g.pct(15) {
		return g.special(depth)
	}
	var sb strings.Builder
	sb.WriteString(g.head(depth))
	for i, n := 0, g.n(4); i < n && g.budget > 0; i++ {
		sb.WriteString(g.ws())
		switch k := g.n(9); {
		case k == 0:
			g.feat("option")
			sb.WriteString(g.mapPair(depth, true))
		case k <= 2:
			sb.WriteString(g.redir(depth))
		default:
			sb.WriteString(g.compound(depth-1, c01SrcNormal))
		}
	}
	if g.pct(10) {
		sb.WriteString(g.pick([]string{" ", "\t", "  "}))
	}
	return sb.String()
}

// special emits the shapes of the special forms; to the parser they are
// ordinary forms whose arguments happen to be lambdas.
func (g *c01SrcG) special(depth int) string {
	g.feat("special-form")
	d := depth - 1
	c := func() string { return g.compound(d, c01SrcNormal) }
	switch g.n(9) {
	case 0:
		s := "if " + c() + " " + g.lambda(d)
		if g.pct(40) {
			s += " elif " + c() + " " + g.lambda(d)
		}
		if g.pct(50) {
			s += " else " + g.lambda(d)
		}
		return s
	case 1:
		return "for x " + c() + " " + g.lambda(d)
	case 2:
		s := "try " + g.lambda(d)
		if g.pct(60) {
			s += " catch e " + g.lambda(d)
		}
		if g.pct(40) {
			s += " finally " + g.lambda(d)
		}
		return s
	case 3:
		return "fn " + g.pick([]string{"f", "g", "a-b"}) + " " + g.lambda(d)
	case 4:
		return "var " + g.pick([]string{"x", "a b", "@xs", "f~"}) + " = " + c()
	case 5:
		return "set " + g.pick([]string{"x", "a[0]", "m[k][j]", "@xs", "x y"}) + " = " + c()
	case 6:
		return "while " + c() + " " + g.lambda(d)
	case 7:
		return g.pick([]string{"and", "or", "coalesce"}) + " " + c() + " " + c()
	case 8:
		return "tmp x = " + c()
	}
	return "del " + g.pick([]string{"x", "a[0]"})
}

func (g *c01SrcG) pipeline(depth int) string {
	var sb strings.Builder
	n := 1
	if g.pct(25) {
		n = g.rng(2, 3)
		g.feat("pipeline")
	}
	for i := 0; i < n; i++ {
		sb.WriteString(g.form(depth))
		if i < n-1 {
			sb.WriteString(g.pick([]string{"|", " | ", " |", "| ", " |" + g.nl() + "  ", "| #c" + g.nl(), " |" + g.nl()}))
		}
	}
	if g.pct(10) {
		g.feat("background")
		sb.WriteString(g.pick([]string{"&", " &", " & ", " &\t"}))
	}
	return sb.String()
}

// sep emits a pipeline separator (at least one of LF, CR, ';'), optionally
// with whitespace and comments around it.
func (g *c01SrcG) sep() string {
	switch g.n(11) {
	case 0:
		return ";"
	case 1:
		return "; "
	case 2:
		return " ;" + g.nl()
	case 3:
		g.feat("comment")
		return " # " + g.freeText(4, "") + g.nl()
	case 4:
		g.feat("comment")
		return "#" + g.freeText(2, "") + g.nl()
	case 5:
		return g.nl() + g.nl()
	case 6:
		return g.nl() + "  "
	}
	return g.nl()
}

// chunk emits a sequence of pipelines. top says this is the whole program (a
// trailing comment may then run to the end of the text).
func (g *c01SrcG) chunk(depth int, top bool) string {
	var sb strings.Builder
	if g.pct(15) {
		sb.WriteString(g.pick([]string{" ", "\n", "  ", ";", "\t"}))
	}
	if g.pct(8) {
		g.feat("comment")
		sb.WriteString("# " + g.freeText(3, "") + g.nl())
	}
	n := 0
	switch {
	case depth <= 0:
		n = 0
		if g.pct(60) {
			n = 1
		}
	case top:
		n = g.rng(1, g.cfg.MaxPipelines)
	default:
		n = g.n(2)
	}
	if depth <= 0 && n == 1 {
		// at the depth limit only a flat form
		sb.WriteString(g.pick(c01SrcHeads[:6]) + " " + g.bareword(c01SrcNormal))
	} else {
		for i := 0; i < n; i++ {
			sb.WriteString(g.pipeline(depth))
			if g.budget <= 0 {
				break
			}
			if i < n-1 {
				sb.WriteString(g.sep())
			}
		}
	}
	switch g.n(9) {
	case 0:
		sb.WriteString(g.sep())
	case 1:
		sb.WriteString(" ")
	case 2:
		if top {
			g.feat("comment")
			g.feat("comment-at-eof")
			sb.WriteString(" # " + g.freeText(3, ""))
		}
	}
	return sb.String()
}
