package props

// C01 Parsing is total and lossless for every source text.
//
// Oracle (independent of the parser): the parse tree is walked through the
// public accessors and compared with the *source text itself*: every node's
// range lies in the source, its text is the source slice of its range, its
// children carry it as parent, start where it starts, end where it ends and
// are contiguous; the leaves, concatenated, give back the source up to the
// root's end, and the root ends at the end of the source unless a parse error
// is reported exactly where it stopped (mechanism "trailing unparsed text is
// reported"). Totality = the call returns (watchdog) without panicking, and
// every error range lies in the source.
//
// Sub-checks: C01/bytes (uniform random bytes and hostile atoms),
// C01/grammar (programs of the grammar generator, plus wrapped in deep
// nesting), C01/mutated (byte-level mutations of grammar programs:
// truncation, metacharacter / invalid UTF-8 insertion, deletion, duplication,
// splicing).

import (
	"fmt"
	"strings"
	"time"
	"unicode/utf8"

	"pgregory.net/rapid"
	"src.elv.sh/pkg/parse"
	"verif/gen"
	"verif/vs"
)

type c01Case struct {
	Kind string `json:"kind"`
	Src  vs.B   `json:"src"`
}

type c01TreeInfo struct {
	nodes, leaves, depth, errors int
	types                        map[string]bool
}

// c01CheckSource is the whole C01 oracle for one source text.
func c01CheckSource(src string, info *c01TreeInfo) error {
	tree, err := parse.Parse(parse.Source{Name: "[verif]", Code: src}, parse.Config{})
	errs := parse.UnpackErrors(err)
	if err != nil && len(errs) == 0 {
		return fmt.Errorf("Parse(%q) returned an error that is not a parse error: %v", src, err)
	}
	for i, e := range errs {
		r := e.Range()
		if r.From < 0 || r.From > r.To || r.To > len(src) {
			return fmt.Errorf("Parse(%q): error %d %q has range [%d,%d] outside the source of length %d", src, i, e.Message, r.From, r.To, len(src))
		}
		if e.Partial && r.From != len(src) {
			return fmt.Errorf("Parse(%q): error %d %q is marked partial but starts at %d, not at the end %d", src, i, e.Message, r.From, len(src))
		}
	}
	if info != nil {
		info.errors = len(errs)
	}
	root := tree.Root
	if root == nil {
		return fmt.Errorf("Parse(%q) returned no tree", src)
	}
	if p := parse.Parent(root); p != nil {
		return fmt.Errorf("Parse(%q): root has a parent", src)
	}
	if root.Range().From != 0 {
		return fmt.Errorf("Parse(%q): root starts at %d, want 0", src, root.Range().From)
	}
	var leaves strings.Builder
	budget := 64*len(src) + 1024 // a tree over n bytes cannot need more nodes than this unless it is cyclic
	var walk func(n parse.Node, depth int) error
	walk = func(n parse.Node, depth int) error {
		budget--
		if budget < 0 {
			return fmt.Errorf("Parse(%q): tree has more than %d nodes (cycle?)", src, 64*len(src)+1024)
		}
		if info != nil {
			info.nodes++
			if depth > info.depth {
				info.depth = depth
			}
			if p, ok := n.(*parse.Primary); ok {
				info.types[p.Type.String()] = true
			}
		}
		r := n.Range()
		if r.From < 0 || r.From > r.To || r.To > len(src) {
			return fmt.Errorf("Parse(%q): node %T has range [%d,%d] outside the source of length %d", src, n, r.From, r.To, len(src))
		}
		if got := parse.SourceText(n); got != src[r.From:r.To] {
			return fmt.Errorf("Parse(%q): node %T [%d,%d] has text %q, the source slice is %q", src, n, r.From, r.To, got, src[r.From:r.To])
		}
		ch := parse.Children(n)
		if len(ch) == 0 {
			if info != nil {
				info.leaves++
			}
			leaves.WriteString(parse.SourceText(n))
			return nil
		}
		pos := r.From
		for i, c := range ch {
			if c == nil {
				return fmt.Errorf("Parse(%q): node %T [%d,%d] has a nil child %d", src, n, r.From, r.To, i)
			}
			if parse.Parent(c) != n {
				return fmt.Errorf("Parse(%q): child %d (%T) of %T [%d,%d] does not have it as parent", src, i, c, n, r.From, r.To)
			}
			cr := c.Range()
			if cr.From != pos {
				return fmt.Errorf("Parse(%q): children of %T [%d,%d] do not tile it: child %d (%T) covers [%d,%d], expected to start at %d", src, n, r.From, r.To, i, c, cr.From, cr.To, pos)
			}
			if err := walk(c, depth+1); err != nil {
				return err
			}
			pos = cr.To
		}
		if pos != r.To {
			return fmt.Errorf("Parse(%q): children of %T [%d,%d] end at %d, not at its end", src, n, r.From, r.To, pos)
		}
		return nil
	}
	if err := walk(root, 1); err != nil {
		return err
	}
	end := root.Range().To
	if got := leaves.String(); got != src[:end] {
		return fmt.Errorf("Parse(%q): leaves concatenate to %q, want %q", src, got, src[:end])
	}
	if end != len(src) {
		reported := false
		for _, e := range errs {
			if e.Range().From == end {
				reported = true
			}
		}
		if !reported {
			return fmt.Errorf("Parse(%q): tree covers only [0,%d] of %d bytes and no error is reported at %d (errors: %v)", src, end, len(src), end, err)
		}
	}
	return nil
}

func c01Check(c c01Case) error { return c01CheckSource(string(c.Src), nil) }

func c01Class(c c01Case) (string, bool) {
	info := &c01TreeInfo{types: map[string]bool{}}
	func() {
		defer func() { recover() }()
		c01CheckSource(string(c.Src), info)
	}()
	cls := c.Kind
	switch {
	case info.errors > 0 && info.depth >= 6:
		cls += "/errors+deep"
	case info.errors > 0:
		cls += "/errors"
	case info.depth >= 6:
		cls += "/clean-deep"
	default:
		cls += "/clean-shallow"
	}
	return cls, info.errors > 0 || info.depth >= 4
}

// ---- generators -------------------------------------------------------------

var c01Meta = []string{"'", "\"", "$", "*", "?", "(", ")", "[", "]", "{", "}", "|", "&", ";", "<", ">", "^", "#", "~", "\\", "=", ",", "@",
	" ", "\t", "\r", "\n", "\r\n", "^\n", "\x00", "\x7f", "?(", "$'", "$\"", "\\x", "\\c", "\\u12", "\\7", "\\400", "&k=", ">&", "{|", "[&",
	"\x80", "\xc0", "\xff", "\xe4\xb8", "\xf0\x9f", "\xed\xa0\x80", "\xef\xbf\xbd", "é", "世", "\U0001F600", "a", "0",
	"\ufeff", "\xef\xbb", "\u2028", "\u0085", "\\U", "\\u", "\\^", "D800", "110000", "FFFF"}

// c01Lead are atoms put in front of a source now and then: a byte order mark, NUL, a lone
// continuation byte, a shebang, blank lines - things whose handling is special only at offset 0.
var c01Lead = []string{"\ufeff", "\ufeff\ufeff", "\xef\xbb", "\xbf", "\x00", "#!/bin/elvish\n", "\n\n", "\r\n", " ", "\t", "^\n", "\ufffe", "\u200b"}

func c01WithLead(t *rapid.T, s string) string {
	if rapid.IntRange(0, 19).Draw(t, "lead") == 0 {
		return rapid.SampledFrom(c01Lead).Draw(t, "leadatom") + s
	}
	return s
}

// c01EscapeValues are the code points whose spelling in \x, \u, \U and octal escapes sits
// on a boundary: surrogates, the last code point and the first value after it, values that
// overflow int32, NUL, DEL, and the byte / rune split at 0x80 and 0x100.
var c01EscapeValues = []uint64{0, 1, 0x7f, 0x80, 0xff, 0x100, 0x7ff, 0x800, 0xd7ff, 0xd800, 0xdbff, 0xdc00, 0xdfff, 0xe000, 0xfffd, 0xfffe, 0xffff,
	0x10000, 0x10ffff, 0x110000, 0x1fffff, 0x7fffffff, 0x80000000, 0xffffffff, 0xd800000, 0x11000000}

// c01EscapeString builds (a prefix of) a double-quoted string out of escape sequences that
// are complete, cut short at any digit, or carry out-of-range values.
func c01EscapeString(t *rapid.T) string {
	var sb strings.Builder
	sb.WriteString(rapid.SampledFrom([]string{"", "", "", "$", "a", " ", "e ", "a=", "put ", "\n", "$x["}).Draw(t, "pre"))
	sb.WriteByte('"')
	for i, n := 0, rapid.IntRange(1, 4).Draw(t, "nesc"); i < n; i++ {
		v := rapid.SampledFrom(c01EscapeValues).Draw(t, "v")
		if rapid.IntRange(0, 3).Draw(t, "rnd") == 0 {
			v = rapid.Uint64Range(0, 0xffffffff).Draw(t, "vr")
		}
		var esc string
		switch rapid.IntRange(0, 6).Draw(t, "kind") {
		case 0:
			esc = fmt.Sprintf("\\x%02X", v&0xff)
		case 1:
			esc = fmt.Sprintf("\\u%04x", v&0xffff)
		case 2, 3:
			esc = fmt.Sprintf("\\U%08X", v&0xffffffff)
		case 4:
			esc = fmt.Sprintf("\\%03o", v&0x1ff)
		case 5:
			esc = "\\c" + string(rune(0x3f+v%0x22))
		default:
			esc = "\\" + rapid.SampledFrom([]string{"^", "^@", "^?", "^_", "^`", "a", "e", "z", "\\", "\"", "\n", "8", "x", "u", "U", "\xff", "é"}).Draw(t, "misc")
		}
		switch rapid.IntRange(0, 3).Draw(t, "cut") {
		case 0: // cut short
			esc = esc[:rapid.IntRange(1, len(esc)).Draw(t, "at")]
		case 1: // drop leading zeros of the digits: "\UD800"
			if len(esc) > 2 {
				d := strings.TrimLeft(esc[2:], "0")
				esc = esc[:2] + d
			}
		}
		sb.WriteString(esc)
		if rapid.IntRange(0, 4).Draw(t, "fill") == 0 {
			sb.WriteString(rapid.SampledFrom([]string{"g", " ", "\n", "é", "\xff", "0", "F"}).Draw(t, "filler"))
		}
	}
	if rapid.IntRange(0, 2).Draw(t, "close") > 0 {
		sb.WriteByte('"')
		sb.WriteString(rapid.SampledFrom([]string{"", "", " b", "]", "\n"}).Draw(t, "post"))
	}
	return sb.String()
}

func c01GenBytes(t *rapid.T) c01Case {
	switch rapid.IntRange(0, 4).Draw(t, "mode") {
	case 0:
		return c01Case{"bytes/uniform", vs.B(c01WithLead(t, string(rapid.SliceOfN(rapid.Byte(), 0, 64).Draw(t, "b"))))}
	case 1:
		return c01Case{"bytes/atoms", vs.B(c01WithLead(t, string(gen.Str(t, "s", 24))))}
	case 2:
		return c01Case{"bytes/escapes", vs.B(c01EscapeString(t))}
	default:
		var sb strings.Builder
		for i, n := 0, rapid.IntRange(0, 24).Draw(t, "n"); i < n; i++ {
			sb.WriteString(rapid.SampledFrom(c01Meta).Draw(t, "m"))
		}
		return c01Case{"bytes/meta", vs.B(c01WithLead(t, sb.String()))}
	}
}

func c01GenGrammar(t *rapid.T) c01Case {
	src := c01SrcProgram(t, c01SrcDefault)
	kind := "grammar"
	if rapid.IntRange(0, 9).Draw(t, "wrap") == 0 {
		// deep nesting: the program inside k levels of brackets
		k := rapid.IntRange(1, 40).Draw(t, "k")
		open, close := "", ""
		for i := 0; i < k; i++ {
			switch rapid.IntRange(0, 4).Draw(t, "w") {
			case 0:
				open, close = open+"put (", ")"+close
			case 1:
				open, close = open+"{ ", " }"+close
			case 2:
				open, close = open+"x ?(", ")"+close
			case 3:
				open, close = open+"e [", "]"+close
			default:
				open, close = open+"f {|a| ", "\n}"+close
			}
		}
		if strings.Contains(open, "[") {
			// inside a list only compounds are allowed: use the program as a lambda body
			src = "{ " + src + "\n}"
		}
		src = open + src + "\n" + close
		kind = "grammar/nested"
	}
	return c01Case{kind, vs.B(c01WithLead(t, src))}
}

// c01Mutate applies 1..4 byte-level mutations.
func c01Mutate(t *rapid.T, s string, other string) string {
	b := []byte(s)
	pos := func() int { return rapid.IntRange(0, len(b)).Draw(t, "pos") }
	for i, n := 0, rapid.IntRange(1, 4).Draw(t, "nmut"); i < n; i++ {
		switch rapid.IntRange(0, 7).Draw(t, "mut") {
		case 0: // truncate
			b = b[:pos()]
		case 1, 2: // insert a metacharacter / invalid UTF-8
			p := pos()
			ins := rapid.SampledFrom(c01Meta).Draw(t, "ins")
			b = append(b[:p:p], append([]byte(ins), b[p:]...)...)
		case 3: // delete a span
			p := pos()
			q := p + rapid.IntRange(0, 6).Draw(t, "len")
			if q > len(b) {
				q = len(b)
			}
			b = append(b[:p:p], b[q:]...)
		case 4: // duplicate a span
			p := pos()
			q := p + rapid.IntRange(1, 12).Draw(t, "len")
			if q > len(b) {
				q = len(b)
			}
			b = append(b[:q:q], append(append([]byte(nil), b[p:q]...), b[q:]...)...)
		case 5: // overwrite one byte
			if len(b) > 0 {
				p := rapid.IntRange(0, len(b)-1).Draw(t, "pos")
				b[p] = rapid.Byte().Draw(t, "byte")
			}
		case 6: // splice: head of this, tail of another program
			p := pos()
			q := rapid.IntRange(0, len(other)).Draw(t, "opos")
			b = append(b[:p:p], other[q:]...)
		default: // cut the head off
			b = b[pos():]
		}
	}
	if len(b) > 600 {
		b = b[:600]
	}
	return string(b)
}

func c01GenMutated(t *rapid.T) c01Case {
	cfg := c01SrcCfg{MaxDepth: 3, MaxPipelines: 3, MaxPrimaries: 25}
	src := c01SrcProgram(t, cfg)
	other := c01SrcProgram(t, c01SrcCfg{MaxDepth: 2, MaxPipelines: 2, MaxPrimaries: 10})
	m := c01WithLead(t, c01Mutate(t, src, other))
	kind := "mutated/utf8"
	if !utf8.ValidString(m) {
		kind = "mutated/invalid-utf8"
	}
	return c01Case{kind, vs.B(m)}
}

func init() {
	known := []vs.Known[c01Case]{
		{Key: "C01:redir-left-fd-sourcetext", Case: c01Case{"known", "echo 2>&1"}},
	}
	vs.Register(vs.Prop[c01Case]{
		Name:  "C01/bytes",
		Rule:  "byte strings: uniformly random bytes (<=64), hostile-atom strings (gen.Str, <=24 atoms), strings of parser metacharacters, escape fragments and invalid UTF-8 (<=24 atoms), and double-quoted strings of 1..4 numeric/control escapes with boundary values (surrogates, >U+10FFFF, int32 overflow) that are complete, cut short or without leading zeros; 5% get a leading BOM/NUL/shebang/blank atom; oracle: tree walk against the source text; non-trivial = at least one parse error or tree depth >= 4",
		Gen:   c01GenBytes,
		Check: c01Check,
		Class: c01Class,
		Quick: 20000, Thorough: 150000, FuzzSecs: 60,
		Timeout: 20 * time.Second,
		Known:   known,
	})
	vs.Register(vs.Prop[c01Case]{
		Name:  "C01/grammar",
		Rule:  "programs from the grammar generator (every primary type, compounds, indexing, redirections, pipelines, background, comments, continuations, CR/CRLF), 10% wrapped in 1..40 levels of nesting; non-trivial = tree depth >= 4 (all) ",
		Gen:   c01GenGrammar,
		Check: c01Check,
		Class: c01Class,
		Quick: 5000, Thorough: 60000,
		Timeout: 20 * time.Second,
	})
	vs.Register(vs.Prop[c01Case]{
		Name:  "C01/mutated",
		Rule:  "grammar programs after 1..4 byte-level mutations (truncate at any byte, insert metacharacter / escape fragment / invalid UTF-8, delete span, duplicate span, overwrite byte, splice with another program, drop head); non-trivial = at least one parse error or depth >= 4",
		Gen:   c01GenMutated,
		Check: c01Check,
		Class: c01Class,
		Quick: 8000, Thorough: 80000, FuzzSecs: 60,
		Timeout: 20 * time.Second,
	})
}
