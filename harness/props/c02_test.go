package props

// C02 Errors in prefixes of valid programs are partial, so the REPL keeps reading.
//
// Domain: programs that parse without error — constructed by the grammar
// generator (C02/prefixes) or obtained by rune-level mutation of such programs
// and kept when they still parse cleanly (C02/mutated-valid, the "valid
// programs found by fuzzing" of the quantifier); all valid UTF-8. For each
// program every prefix cut at a rune boundary is examined.
//
// Oracle, per prefix p:
//   1. every parse error of p is marked Partial;
//   2. every error marked Partial starts at len(p);
//   3. the editor's Enter decision (edit.VerifIsSyntaxComplete, the function
//      smart-enter consults) is "insert a newline" exactly when p has a parse
//      error, i.e. it agrees with the partial flag.
// (2) is also asserted on arbitrary inputs by C01.

import (
	"fmt"
	"sync"
	"time"
	"unicode/utf8"

	"pgregory.net/rapid"
	"src.elv.sh/pkg/edit"
	"src.elv.sh/pkg/parse"
	"verif/vs"
)

type c02Case struct {
	Kind string `json:"kind"`
	Src  string `json:"src"`
}

func c02Errors(code string) []*parse.Error {
	_, err := parse.Parse(parse.Source{Name: "[verif]", Code: code}, parse.Config{})
	return parse.UnpackErrors(err)
}

type c02Info struct {
	valid                   bool
	prefixes, partialPrefix int
}

func c02Run(c c02Case, info *c02Info) error {
	src := c.Src
	if !utf8.ValidString(src) {
		return nil // outside the domain (rune boundaries are undefined)
	}
	if errs := c02Errors(src); len(errs) > 0 {
		return nil // not a valid program: outside the domain
	}
	if info != nil {
		info.valid = true
	}
	// The whole program is complete: Enter submits it.
	if !edit.VerifIsSyntaxComplete(src) {
		return fmt.Errorf("valid program %q: Enter inserts a newline although the program parses without error", src)
	}
	for i := range src { // i runs over rune boundaries; i == 0 is the empty prefix
		prefix := src[:i]
		errs := c02Errors(prefix)
		hasErr := len(errs) > 0
		for _, e := range errs {
			if !e.Partial {
				return fmt.Errorf("prefix %q of valid program %q has a non-partial parse error: %s at [%d,%d]", prefix, src, e.Message, e.Range().From, e.Range().To)
			}
			if e.Range().From != len(prefix) {
				return fmt.Errorf("prefix %q of valid program %q: partial error %q starts at %d, not at the end %d", prefix, src, e.Message, e.Range().From, len(prefix))
			}
		}
		complete := edit.VerifIsSyntaxComplete(prefix)
		if hasErr && complete {
			return fmt.Errorf("prefix %q of valid program %q has partial error %q but Enter submits the code instead of inserting a newline", prefix, src, errs[0].Message)
		}
		if !hasErr && !complete {
			return fmt.Errorf("prefix %q of valid program %q parses without error but Enter inserts a newline", prefix, src)
		}
		if info != nil {
			info.prefixes++
			if hasErr {
				info.partialPrefix++
			}
		}
	}
	return nil
}

// c02Memo keeps the outcome of the last case: the framework calls Class and
// then Check on the same case, and a case costs O(n) parses.
var c02Memo struct {
	sync.Mutex
	ok   bool
	c    c02Case
	info c02Info
	err  error
}

func c02Check(c c02Case) error {
	c02Memo.Lock()
	if c02Memo.ok && c02Memo.c == c {
		err := c02Memo.err
		c02Memo.Unlock()
		return err
	}
	c02Memo.Unlock()
	return c02Run(c, nil)
}

func c02Class(c c02Case) (string, bool) {
	var info c02Info
	func() {
		defer func() { recover() }()
		err := c02Run(c, &info)
		c02Memo.Lock()
		c02Memo.ok, c02Memo.c, c02Memo.info, c02Memo.err = true, c, info, err
		c02Memo.Unlock()
	}()
	if !info.valid {
		return c.Kind + "/not-valid(outside domain)", false
	}
	switch {
	case info.partialPrefix == 0:
		return c.Kind + "/no-partial-prefix", false
	case info.partialPrefix*4 >= info.prefixes:
		return c.Kind + "/partial>=25%", true
	}
	return c.Kind + "/partial<25%", true
}

var c02Atoms = []string{"'", "\"", "$", "*", "?", "(", ")", "[", "]", "{", "}", "|", "&", ";", "<", ">", "^", "#", "~", "\\", "=", ",", "@",
	" ", "\t", "\r", "\n", "^\n", "?(", "$'", "\\x41", "\\cA", "&k=", ">&", "{|", "[&", "é", "世", "a", "0", "''", "\"\"", "()", "[]", "{ }", "\\\\", "\\\""}

// c02MutateValid applies 1..2 rune-level mutations that keep the text valid UTF-8.
func c02MutateValid(t *rapid.T, s string) string {
	r := []rune(s)
	pos := func() int { return rapid.IntRange(0, len(r)).Draw(t, "pos") }
	for i, n := 0, rapid.IntRange(1, 2).Draw(t, "nmut"); i < n; i++ {
		switch rapid.IntRange(0, 4).Draw(t, "mut") {
		case 0, 1:
			p := pos()
			ins := []rune(rapid.SampledFrom(c02Atoms).Draw(t, "ins"))
			r = append(r[:p:p], append(ins, r[p:]...)...)
		case 2:
			p := pos()
			q := p + rapid.IntRange(1, 3).Draw(t, "len")
			if q > len(r) {
				q = len(r)
			}
			r = append(r[:p:p], r[q:]...)
		case 3:
			p := pos()
			q := p + rapid.IntRange(1, 8).Draw(t, "len")
			if q > len(r) {
				q = len(r)
			}
			r = append(r[:q:q], append(append([]rune(nil), r[p:q]...), r[q:]...)...)
		default:
			// swap two adjacent runes
			if len(r) >= 2 {
				p := rapid.IntRange(0, len(r)-2).Draw(t, "pos")
				r[p], r[p+1] = r[p+1], r[p]
			}
		}
	}
	return string(r)
}

func init() {
	vs.Register(vs.Prop[c02Case]{
		Name: "C02/prefixes",
		Rule: "valid programs constructed by the grammar generator (depth <= 3, <= 3 pipelines; every primary type, quoting with escapes, redirections, continuations, comments, CR/CRLF, multibyte), all prefixes at rune boundaries; a generated program that does not parse cleanly is outside the domain and shown in the histogram; non-trivial = at least one prefix has a (partial) parse error",
		Gen: func(t *rapid.T) c02Case {
			return c02Case{"grammar", c01SrcProgram(t, c01SrcCfg{MaxDepth: 3, MaxPipelines: 3, MaxPrimaries: 12})}
		},
		Check: c02Check,
		Class: c02Class,
		Quick: 1000, Thorough: 20000,
		Timeout: 30 * time.Second,
	})
	vs.Register(vs.Prop[c02Case]{
		Name: "C02/mutated-valid",
		Rule: "grammar programs (depth <= 2) after 1..2 rune-level mutations (insert metacharacter or fragment, delete, duplicate, swap) that still parse cleanly — valid programs outside the generator's grammar; mutants with parse errors are outside the domain (class not-valid); non-trivial = at least one prefix has a parse error",
		Gen: func(t *rapid.T) c02Case {
			src := c01SrcProgram(t, c01SrcCfg{MaxDepth: 2, MaxPipelines: 2, MaxPrimaries: 8})
			return c02Case{"mutated", c02MutateValid(t, src)}
		},
		Check: c02Check,
		Class: c02Class,
		Quick: 1500, Thorough: 30000,
		Timeout: 30 * time.Second,
	})
}
