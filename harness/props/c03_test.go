package props

// C03 Quoted strings evaluate back to the exact original string.
//
// Oracle = the inverse direction: quote s, then parse the quoted text with the
// real parser and evaluate it with the real interpreter, and compare with s.
//
//   C03/general   parse.Quote and parse.QuoteAs(s, Bareword|SingleQuoted|DoubleQuoted):
//                 `put Q` parses without error into one form with exactly one
//                 argument that is one string primary whose text is Q and whose
//                 value is s (and, for QuoteAs, whose type is the type QuoteAs
//                 reports); evaluating it outputs exactly [s]; evaluating
//                 `put [&Q=v]` outputs one map whose only key is the string s.
//   C03/command   parse.QuoteCommandName: `Q payload` parses into one form whose
//                 head is one string primary with text Q and value s; it is a
//                 literal head (PurelyEvalCompound gives s); and, whenever a
//                 command named s can be defined as a function (s has no ':',
//                 does not start with '@', is not a special form), evaluating
//                 `Q payload` calls exactly the function named s, once.
//   C03/variable  parse.QuoteVariableName: `put $Q` parses without error and the
//                 argument is one Variable primary with text $Q and name s.

import (
	"fmt"
	"strings"
	"sync"
	"time"
	"unicode/utf8"

	"pgregory.net/rapid"
	"src.elv.sh/pkg/eval"
	"src.elv.sh/pkg/eval/vals"
	"src.elv.sh/pkg/parse"
	"src.elv.sh/pkg/persistent/hashmap"
	"verif/elv"
	"verif/gen"
	"verif/vs"
)

type c03Case struct {
	S vs.B `json:"s"`
}

var c03Special = []string{"", "~", "~a", "~/x", "a~", "a", "a b", "'", "''", "\"", "\\", "\\n", "$x", "*", "?", "a*b", "<", ">", ">>", "a<b", "^", "a^", "^a", "=", "a=b", ",", "a,b", "{a,b}", "[a]", "(a)", "#a", "a#", "&", "a&b", "|", ";",
	"\n", "\r", "\t", " ", "\x00", "\x7f", "\x1b[0m", "é", " ", "​", "�", "\U0001F600", "\U000E0001", "\xff", "a\xffb", "\xe4\xb8", "\xed\xa0\x80", "\xc0\x80",
	"if", "var", "set", "fn", "and", "pragma", "use", "e:ls", "ns:f", ":", "@", "@a", "a@", "%", "-", "--", "1", "0x10", "1/2", "+inf", ".", "..", "a/b", "/", "\\x41", "\"a\"", "'a'", "$'a'", "a''b", "a\"b"}

func c03GenS(t *rapid.T) c03Case {
	switch rapid.IntRange(0, 9).Draw(t, "mode") {
	case 0:
		return c03Case{vs.B(rapid.SampledFrom(c03Special).Draw(t, "special"))}
	case 1:
		// a special string with a hostile suffix / prefix
		a := rapid.SampledFrom(c03Special).Draw(t, "special")
		b := string(gen.Str(t, "s", 3))
		if rapid.Bool().Draw(t, "pre") {
			return c03Case{vs.B(b + a)}
		}
		return c03Case{vs.B(a + b)}
	case 2:
		return c03Case{vs.B(gen.PrintableStr(t, "s", 8))}
	case 3:
		return c03Case{vs.B(rapid.SliceOfN(rapid.Byte(), 0, 24).Draw(t, "raw"))}
	default:
		return c03Case{gen.Str(t, "s", 12)}
	}
}

func c03ClassOf(s string) (string, bool) {
	q, typ := parse.QuoteAs(s, parse.Bareword)
	_ = q
	cls := strings.ToLower(typ.String())
	if !utf8.ValidString(s) {
		cls += "/invalid-utf8"
	} else if strings.IndexFunc(s, func(r rune) bool { return r < 0x20 || r == 0x7f }) >= 0 {
		cls += "/control"
	}
	return cls, typ != parse.Bareword
}

func c03Class(c c03Case) (string, bool) { return c03ClassOf(string(c.S)) }

// c03ParseOne parses code and returns its only form.
func c03ParseOne(code string, what string) (*parse.Form, error) {
	tree, err := parse.Parse(parse.Source{Name: "[verif]", Code: code}, parse.Config{})
	if err != nil {
		return nil, fmt.Errorf("%s: %q does not parse: %v", what, code, err)
	}
	if len(tree.Root.Pipelines) != 1 || len(tree.Root.Pipelines[0].Forms) != 1 {
		return nil, fmt.Errorf("%s: %q parses into %d pipelines, want one form", what, code, len(tree.Root.Pipelines))
	}
	return tree.Root.Pipelines[0].Forms[0], nil
}

// c03StringWord checks that cn is a single string primary with text q and value s.
func c03StringWord(cn *parse.Compound, q, s, what, code string) (*parse.Primary, error) {
	if cn == nil || len(cn.Indexings) != 1 || len(cn.Indexings[0].Indices) != 0 {
		return nil, fmt.Errorf("%s: in %q the quoted text %q is not a single word (compound %q)", what, code, q, parse.SourceText(cn))
	}
	p := cn.Indexings[0].Head
	if parse.SourceText(cn) != q || parse.SourceText(p) != q {
		return nil, fmt.Errorf("%s: in %q the word is %q, want the whole quoted text %q", what, code, parse.SourceText(cn), q)
	}
	switch p.Type {
	case parse.Bareword, parse.SingleQuoted, parse.DoubleQuoted:
	default:
		return nil, fmt.Errorf("%s: in %q the quoted text %q parses as %v, not as a string", what, code, q, p.Type)
	}
	if p.Value != s {
		return nil, fmt.Errorf("%s: quoted text %q parses to the string %q, want %q", what, q, p.Value, s)
	}
	return p, nil
}

var (
	c03EvOnce sync.Once
	c03Ev     *eval.Evaler
)

func c03Evaler() *eval.Evaler {
	c03EvOnce.Do(func() { c03Ev = elv.New() })
	return c03Ev
}

func c03CheckGeneral(c c03Case) error {
	s := string(c.S)
	type form struct {
		what string
		q    string
		typ  parse.PrimaryType
		has  bool
	}
	var forms []form
	forms = append(forms, form{"Quote", parse.Quote(s), 0, false})
	for _, want := range []parse.PrimaryType{parse.Bareword, parse.SingleQuoted, parse.DoubleQuoted} {
		q, typ := parse.QuoteAs(s, want)
		forms = append(forms, form{"QuoteAs(" + want.String() + ")", q, typ, true})
	}
	ev := c03Evaler()
	seen := map[string]bool{}
	for _, f := range forms {
		what := fmt.Sprintf("%s(%q)", f.what, s)
		// as an argument
		code := "put " + f.q
		fm, err := c03ParseOne(code, what)
		if err != nil {
			return err
		}
		if len(fm.Args) != 1 || len(fm.Opts) != 0 || len(fm.Redirs) != 0 || parse.SourceText(fm.Head) != "put" {
			return fmt.Errorf("%s: %q parses into %d arguments, %d options, %d redirections; want exactly one argument", what, code, len(fm.Args), len(fm.Opts), len(fm.Redirs))
		}
		p, err := c03StringWord(fm.Args[0], f.q, s, what, code)
		if err != nil {
			return err
		}
		if f.has && p.Type != f.typ {
			return fmt.Errorf("%s = %q reports quoting %v but the text parses as %v", what, f.q, f.typ, p.Type)
		}
		if seen[f.q] {
			continue // same text already evaluated
		}
		seen[f.q] = true
		res := elv.Run(ev, code)
		if res.Err != nil {
			return fmt.Errorf("%s: evaluating %q fails: %v", what, code, res.Err)
		}
		if len(res.Values) != 1 || res.Values[0] != any(s) || len(res.Bytes) != 0 {
			return fmt.Errorf("%s: %q evaluates to %s (bytes %q), want exactly the string %q", what, code, elv.Reprs(res.Values), res.Bytes, s)
		}
		// as a map key
		code = "put [&" + f.q + "=v]"
		res = elv.Run(ev, code)
		if res.Err != nil {
			return fmt.Errorf("%s: evaluating %q fails: %v", what, code, res.Err)
		}
		if len(res.Values) != 1 {
			return fmt.Errorf("%s: %q evaluates to %s, want one map", what, code, elv.Reprs(res.Values))
		}
		m, ok := res.Values[0].(hashmap.Map)
		if !ok || m.Len() != 1 {
			return fmt.Errorf("%s: %q evaluates to %s, want a map with one key", what, code, elv.Reprs(res.Values))
		}
		it := m.Iterator()
		k, v := it.Elem()
		if k != any(s) || v != any("v") {
			return fmt.Errorf("%s: %q evaluates to a map with key %s value %s, want key %q value v", what, code, vals.ReprPlain(k), vals.ReprPlain(v), s)
		}
	}
	return nil
}

func c03CheckCommand(c c03Case) error {
	s := string(c.S)
	q := parse.QuoteCommandName(s)
	what := fmt.Sprintf("QuoteCommandName(%q)", s)
	code := q + " payload"
	fm, err := c03ParseOne(code, what)
	if err != nil {
		return err
	}
	if len(fm.Args) != 1 || parse.SourceText(fm.Args[0]) != "payload" || len(fm.Opts) != 0 || len(fm.Redirs) != 0 {
		return fmt.Errorf("%s: %q does not parse into the command followed by the single argument payload (%d args, %d opts, %d redirs)", what, code, len(fm.Args), len(fm.Opts), len(fm.Redirs))
	}
	if _, err := c03StringWord(fm.Head, q, s, what, code); err != nil {
		return err
	}
	ev := c03Evaler()
	if got, ok := ev.PurelyEvalCompound(fm.Head); !ok || got != s {
		return fmt.Errorf("%s: the head of %q evaluates to %q, %v; want %q", what, code, got, ok, s)
	}
	if strings.Contains(s, ":") || strings.HasPrefix(s, "@") || eval.IsBuiltinSpecial[s] {
		// A qualified name, a sigil or a special form: no function of exactly
		// this name can be defined in a flat namespace. Parsing and literal
		// evaluation above is all that is checked.
		return nil
	}
	calls := 0
	var gotArgs []any
	ns := eval.BuildNs().AddGoFn(s, func(args ...any) {
		calls++
		gotArgs = args
	}).Ns()
	// The pragma turns an unresolved command into a compilation error instead
	// of an attempt to run an external program.
	full := "pragma unknown-command = disallow\n" + code
	res := elv.RunCtx(ev, full, nil, ns)
	if res.Err != nil {
		return fmt.Errorf("%s: with a function named %q defined, evaluating %q fails: %v", what, s, code, res.Err)
	}
	if calls != 1 || len(gotArgs) != 1 || gotArgs[0] != any("payload") {
		return fmt.Errorf("%s: evaluating %q called the function named %q %d times with %s, want once with payload", what, code, s, calls, elv.Reprs(gotArgs))
	}
	return nil
}

func c03CheckVariable(c c03Case) error {
	s := string(c.S)
	q := parse.QuoteVariableName(s)
	what := fmt.Sprintf("QuoteVariableName(%q)", s)
	code := "put $" + q
	fm, err := c03ParseOne(code, what)
	if err != nil {
		return err
	}
	if len(fm.Args) != 1 || len(fm.Opts) != 0 || len(fm.Redirs) != 0 {
		return fmt.Errorf("%s: %q parses into %d arguments, want one", what, code, len(fm.Args))
	}
	cn := fm.Args[0]
	if len(cn.Indexings) != 1 || len(cn.Indexings[0].Indices) != 0 {
		return fmt.Errorf("%s: in %q the text $%s is not a single variable use", what, code, q)
	}
	p := cn.Indexings[0].Head
	if p.Type != parse.Variable {
		return fmt.Errorf("%s: in %q the text $%s parses as %v, want a variable", what, code, q, p.Type)
	}
	if parse.SourceText(p) != "$"+q {
		return fmt.Errorf("%s: in %q the variable is %q, want the whole text $%s", what, code, parse.SourceText(p), q)
	}
	if p.Value != s {
		return fmt.Errorf("%s: $%s parses as a variable named %q, want %q", what, q, p.Value, s)
	}
	return nil
}

func init() {
	vs.Register(vs.Prop[c03Case]{
		Name:  "C03/general",
		Rule:  "strings of <= 12 hostile atoms (metacharacters, whitespace, quotes, backslash, tilde, control bytes, high code points, invalid UTF-8), raw random bytes <= 24, printable strings, and a table of special strings with hostile prefix/suffix; Quote and QuoteAs x3, as argument and as map key, parsed and evaluated; non-trivial = s is not a bareword",
		Gen:   c03GenS,
		Check: c03CheckGeneral,
		Class: c03Class,
		Quick: 6000, Thorough: 80000, FuzzSecs: 45,
		Timeout: 20 * time.Second,
	})
	vs.Register(vs.Prop[c03Case]{
		Name:  "C03/command",
		Rule:  "same strings; QuoteCommandName in command position: parsed, literal head evaluation, and (for names without ':', leading '@' or special-form meaning) a function of that name is defined and must be the one called; non-trivial = s is not a strict bareword",
		Gen:   c03GenS,
		Check: c03CheckCommand,
		Class: func(c c03Case) (string, bool) {
			s := string(c.S)
			cls, nt := c03ClassOf(s)
			if strings.Contains(s, ":") || strings.HasPrefix(s, "@") || eval.IsBuiltinSpecial[s] {
				return cls + "/parse-only", nt
			}
			return cls + "/called", nt
		},
		Quick: 6000, Thorough: 80000,
		Timeout: 20 * time.Second,
	})
	vs.Register(vs.Prop[c03Case]{
		Name:  "C03/variable",
		Rule:  "same strings; QuoteVariableName after $ must parse as one variable primary with that name; non-trivial = s is not a strict bareword",
		Gen:   c03GenS,
		Check: c03CheckVariable,
		Class: c03Class,
		Quick: 8000, Thorough: 100000,
		Timeout: 20 * time.Second,
	})
}
