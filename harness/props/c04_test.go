package props

// C04 repr output evaluates back to an equal value.
//
// One sub-check, C04/roundtrip. A case is a data value (mirror gen.V) plus
// alternative builds of the same value: every map rebuilt with its entries in
// other insertion orders (the first alternative reverses every map, the others
// are random shuffles) and optionally with junk keys - including keys whose
// hash collides with a real key - inserted and removed again.
//
// Oracle:
//   (a) for indent in {plain, 0, 3}: evaluating "put "+Repr(x, indent) outputs
//       exactly one value; converted back to a mirror it must equal the
//       original under the documented eq (same type; numbers: same exactness
//       and value, canonical representation, NaN~NaN), vals.Equal(x, w) and
//       the builtin `eq $x <text>` must say true when no NaN is involved; the
//       builtins repr / pprint print exactly these texts;
//   (b) Repr of every alternative build is string-identical at all three indents.

import (
	"fmt"
	"math"
	"math/big"
	"strings"
	"sync"
	"unicode"
	"unicode/utf8"

	"pgregory.net/rapid"
	"src.elv.sh/pkg/eval"
	"src.elv.sh/pkg/eval/vals"
	"src.elv.sh/pkg/eval/vars"
	"src.elv.sh/pkg/parse"
	"src.elv.sh/pkg/persistent/hashmap"
	"verif/elv"
	"verif/gen"
	"verif/vs"
)

type c04Case struct {
	V     gen.V   `json:"v"`
	Alts  []gen.V `json:"alts"`
	Churn []int   `json:"churn"` // per alternative: junk keys inserted into and removed from every map while building
}

var (
	c04EvOnce sync.Once
	c04Ev     *eval.Evaler
)

func c04Evaler() *eval.Evaler {
	c04EvOnce.Do(func() { c04Ev = elv.New() })
	return c04Ev
}

// ---- building -----------------------------------------------------------------

// c04Collider returns a string with the same DJB hash as s (different bytes),
// or "" if there is none of the simple form.
func c04Collider(s string) string {
	if len(s) < 2 {
		return ""
	}
	b := []byte(s)
	i := len(b) - 2
	if b[i] < 0xff && b[i+1] >= 33 {
		b[i]++
		b[i+1] -= 33
		return string(b)
	}
	if b[i] > 0 && b[i+1] <= 255-33 {
		b[i]--
		b[i+1] += 33
		return string(b)
	}
	return ""
}

// c04Build builds the Elvish value of v; every map is built by Assoc in the
// order of M, with churn junk keys inserted first/in between and dissoc'ed at
// the end.
func c04Build(v gen.V, churn int) any {
	switch v.K {
	case "list":
		l := vals.EmptyList
		for _, e := range v.L {
			l = l.Conj(c04Build(e, churn))
		}
		return l
	case "map":
		real := map[string]bool{}
		for _, kv := range v.M {
			real[kv.Key.Canon()] = true
		}
		var junk []any
		addJunk := func(k gen.V) {
			if !real[k.Canon()] {
				real[k.Canon()] = true
				junk = append(junk, k.Elvish())
			}
		}
		if churn > 0 {
			for i := 0; i < churn; i++ {
				addJunk(gen.V{K: "str", S: vs.B(fmt.Sprintf("\x00junk%d", i))})
				n := gen.Num{Kind: "int", Text: fmt.Sprint(1000003 + i)}
				addJunk(gen.V{K: "num", N: &n})
			}
			for _, kv := range v.M {
				// a key that collides with a real key, of the same shape
				addJunk(c04CollidingKey(kv.Key))
			}
		}
		var m hashmap.Map = vals.EmptyMap
		ji := 0
		for i, kv := range v.M {
			if ji < len(junk) && i%2 == 0 {
				m = m.Assoc(junk[ji], "junk")
				ji++
			}
			m = m.Assoc(c04Build(kv.Key, churn), c04Build(kv.Val, churn))
		}
		for ; ji < len(junk); ji++ {
			m = m.Assoc(junk[ji], "junk")
		}
		for _, j := range junk {
			m = m.Dissoc(j)
		}
		return m
	}
	return v.Elvish()
}

// c04CollidingKey maps every string inside k to its DJB collider; the result
// has the same hash as k (strings, lists and maps hash structurally).
func c04CollidingKey(k gen.V) gen.V {
	out := k
	switch k.K {
	case "str":
		if c := c04Collider(string(k.S)); c != "" {
			out.S = vs.B(c)
		}
	case "list":
		out.L = nil
		for _, e := range k.L {
			out.L = append(out.L, c04CollidingKey(e))
		}
	case "map":
		out.M = nil
		seen := map[string]bool{}
		for _, kv := range k.M {
			nk := c04CollidingKey(kv.Key)
			if seen[nk.Canon()] {
				nk = kv.Key
			}
			seen[nk.Canon()] = true
			out.M = append(out.M, gen.KV{Key: nk, Val: kv.Val})
		}
	}
	return out
}

// c04EvalValues evaluates code and returns the values it outputs (byte output
// is discarded; no pipe is needed for the top-level port).
func c04EvalValues(code string, ns *eval.Ns) ([]any, error) {
	ch := make(chan any, 64)
	var out []any
	done := make(chan struct{})
	go func() {
		for v := range ch {
			out = append(out, v)
		}
		close(done)
	}()
	err := c04Evaler().Eval(parse.Source{Name: "[verif]", Code: code},
		eval.EvalCfg{Ports: []*eval.Port{nil, {File: eval.DevNull, Chan: ch}, nil}, Global: ns})
	close(ch)
	<-done
	return out, err
}

// ---- reading back: Elvish value -> mirror ---------------------------------------

func c04Mirror(x any) (gen.V, error) {
	switch x := x.(type) {
	case nil:
		return gen.V{K: "nil"}, nil
	case bool:
		return gen.V{K: "bool", B: x}, nil
	case string:
		return gen.V{K: "str", S: vs.B(x)}, nil
	case int:
		n := gen.Num{Kind: "int", Text: fmt.Sprint(x)}
		return gen.V{K: "num", N: &n}, nil
	case *big.Int:
		if x.IsInt64() {
			return gen.V{}, fmt.Errorf("number %v is a *big.Int although it fits in int (not canonical)", x)
		}
		n := gen.Num{Kind: "bigint", Text: x.String()}
		return gen.V{K: "num", N: &n}, nil
	case *big.Rat:
		if x.IsInt() {
			return gen.V{}, fmt.Errorf("number %v is a *big.Rat although it is an integer (not canonical)", x)
		}
		n := gen.Num{Kind: "rat", Text: x.String()}
		return gen.V{K: "num", N: &n}, nil
	case float64:
		n := gen.FloatNum(x)
		return gen.V{K: "num", N: &n}, nil
	case vals.List:
		out := gen.V{K: "list"}
		for it := x.Iterator(); it.HasElem(); it.Next() {
			e, err := c04Mirror(it.Elem())
			if err != nil {
				return gen.V{}, err
			}
			out.L = append(out.L, e)
		}
		return out, nil
	case vals.Map:
		out := gen.V{K: "map"}
		for it := x.Iterator(); it.HasElem(); it.Next() {
			k, v := it.Elem()
			mk, err := c04Mirror(k)
			if err != nil {
				return gen.V{}, err
			}
			mv, err := c04Mirror(v)
			if err != nil {
				return gen.V{}, err
			}
			out.M = append(out.M, gen.KV{Key: mk, Val: mv})
		}
		if len(out.M) != x.Len() {
			return gen.V{}, fmt.Errorf("map iterates %d entries but Len()=%d", len(out.M), x.Len())
		}
		return out, nil
	}
	return gen.V{}, fmt.Errorf("unexpected %T", x)
}

// c04Eq is the documented eq on mirrors, with NaN treated as equal to NaN (the
// statement: "NaN reads back as NaN").
func c04Eq(a, b gen.V) error {
	if a.K != b.K {
		return fmt.Errorf("want %s, got %s", a.K, b.K)
	}
	switch a.K {
	case "bool":
		if a.B != b.B {
			return fmt.Errorf("want %v, got %v", a.B, b.B)
		}
	case "str":
		if a.S != b.S {
			return fmt.Errorf("want string %q, got %q", string(a.S), string(b.S))
		}
	case "num":
		if a.N.IsFloat() != b.N.IsFloat() {
			return fmt.Errorf("exactness changed: want %s %s, got %s %s", a.N.Kind, a.N.Text, b.N.Kind, b.N.Text)
		}
		if a.N.IsFloat() {
			fa, fb := a.N.Float(), b.N.Float()
			if math.IsNaN(fa) && math.IsNaN(fb) {
				return nil
			}
			if fa != fb { // ±0 are eq
				return fmt.Errorf("want float %v, got %v", fa, fb)
			}
			return nil
		}
		if a.N.Kind != b.N.Kind || a.N.Exact().Cmp(b.N.Exact()) != 0 {
			return fmt.Errorf("want %s %s, got %s %s", a.N.Kind, a.N.Text, b.N.Kind, b.N.Text)
		}
	case "list":
		if len(a.L) != len(b.L) {
			return fmt.Errorf("want list of %d, got %d", len(a.L), len(b.L))
		}
		for i := range a.L {
			if err := c04Eq(a.L[i], b.L[i]); err != nil {
				return fmt.Errorf("[%d]: %w", i, err)
			}
		}
	case "map":
		if len(a.M) != len(b.M) {
			return fmt.Errorf("want map of %d, got %d", len(a.M), len(b.M))
		}
		used := make([]bool, len(b.M))
		for _, kv := range a.M {
			found := false
			for j, kw := range b.M {
				if !used[j] && c04Eq(kv.Key, kw.Key) == nil {
					if err := c04Eq(kv.Val, kw.Val); err != nil {
						return fmt.Errorf("value at key %s: %w", kv.Key.Canon(), err)
					}
					used[j], found = true, true
					break
				}
			}
			if !found {
				return fmt.Errorf("key %s missing", kv.Key.Canon())
			}
		}
	}
	return nil
}

// ---- the oracle -----------------------------------------------------------------

var c04Indents = []int{math.MinInt, 0, 3}

func c04IndentName(i int) string {
	if i < 0 {
		return "plain"
	}
	return fmt.Sprintf("indent %d", i)
}

func c04Check(c c04Case) error {
	x := c04Build(c.V, 0)
	hasNaN := c.V.HasNaN()
	texts := make([]string, len(c04Indents))
	for i, indent := range c04Indents {
		texts[i] = vals.Repr(x, indent)
	}
	// One evaluation for the three texts (every "(num ..)" in the text costs an
	// output capture, so the texts are not evaluated more often than needed).
	values, err := c04EvalValues("put "+strings.Join(texts, " "), nil)
	if err != nil || len(values) != len(texts) {
		// find the culprit for the message
		for i, indent := range c04Indents {
			vs1, err1 := c04EvalValues("put "+texts[i], nil)
			if err1 != nil {
				return fmt.Errorf("repr (%s) of %s = %q: must evaluate, got error %v", c04IndentName(indent), c04Clip(c.V.Canon(), 300), c04Clip(texts[i], 600), err1)
			}
			if len(vs1) != 1 {
				return fmt.Errorf("repr (%s) of %s = %q: must evaluate to one value, got %d", c04IndentName(indent), c04Clip(c.V.Canon(), 300), c04Clip(texts[i], 600), len(vs1))
			}
		}
		return fmt.Errorf("`put <plain> <indent 0> <indent 3>` of %s: error %v, %d values", c04Clip(c.V.Canon(), 300), err, len(values))
	}
	for i, indent := range c04Indents {
		what := fmt.Sprintf("repr (%s) of %s = %q", c04IndentName(indent), c04Clip(c.V.Canon(), 300), c04Clip(texts[i], 600))
		w := values[i]
		mw, err := c04Mirror(w)
		if err != nil {
			return fmt.Errorf("%s: read back: %v", what, err)
		}
		if err := c04Eq(c.V, mw); err != nil {
			return fmt.Errorf("%s: evaluates to a value that is not eq to the original: %v", what, err)
		}
		if !hasNaN {
			if !vals.Equal(x, w) || !vals.Equal(w, x) {
				return fmt.Errorf("%s: vals.Equal(original, read back)=%v, (read back, original)=%v", what, vals.Equal(x, w), vals.Equal(w, x))
			}
		}
	}
	// builtins: repr / pprint print these texts, eq agrees.
	ns := eval.BuildNs().AddVar("x", vars.NewReadOnly(x)).AddVar("a", vars.NewReadOnly(values[0])).
		AddVar("b", vars.NewReadOnly(values[1])).AddVar("c", vars.NewReadOnly(values[2])).Ns()
	r := elv.RunCtx(c04Evaler(), "repr $x; pprint $x; put (eq $x $a $b $c)", nil, ns)
	if r.Err != nil {
		return fmt.Errorf("`repr $x; pprint $x; eq $x ...` failed: %v", r.Err)
	}
	if want := texts[0] + "\n" + texts[1] + "\n"; string(r.Bytes) != want {
		return fmt.Errorf("builtins repr/pprint print %q, vals.Repr gives %q", c04Clip(string(r.Bytes), 400), c04Clip(want, 400))
	}
	if len(r.Values) != 1 || r.Values[0] != !hasNaN {
		return fmt.Errorf("`eq $x <read back plain> <indent 0> <indent 3>` must output %v, got %s; repr=%q", !hasNaN, elv.Reprs(r.Values), c04Clip(texts[0], 600))
	}
	// (b) order independence
	for ai, alt := range c.Alts {
		churn := 0
		if ai < len(c.Churn) {
			churn = c.Churn[ai]
		}
		if alt.Canon() != c.V.Canon() {
			return fmt.Errorf("harness: alternative %d is not the same value", ai)
		}
		y := c04Build(alt, churn)
		for i, indent := range c04Indents {
			if got := vals.Repr(y, indent); got != texts[i] {
				return fmt.Errorf("printed form must not depend on insertion order: repr (%s) of the same contents built in another order (alternative %d, churn %d) differs:\n first: %q\n other: %q", c04IndentName(indent), ai, churn, c04Clip(texts[i], 800), c04Clip(got, 800))
			}
		}
	}
	return nil
}

func c04Clip(s string, n int) string {
	if len(s) > n {
		return s[:n] + "…"
	}
	return s
}

// ---- generator ------------------------------------------------------------------

func c04Str(s string) gen.V { return gen.V{K: "str", S: vs.B(s)} }

func c04MapOf(kvs ...gen.V) gen.V {
	out := gen.V{K: "map"}
	seen := map[string]bool{}
	for i := 0; i+1 < len(kvs); i += 2 {
		c := kvs[i].Canon()
		if seen[c] || kvs[i].HasNaN() {
			continue
		}
		seen[c] = true
		out.M = append(out.M, gen.KV{Key: kvs[i], Val: kvs[i+1]})
	}
	return out
}

// c04CollidingStrings draws 2..3 distinct strings with the same DJB hash.
func c04CollidingStrings(t *rapid.T) []string {
	if rapid.IntRange(0, 2).Draw(t, "abBA") == 0 {
		return []string{"ab", "bA"}
	}
	pre := gen.ValidStr(t, "pre", 2)
	suf := gen.ValidStr(t, "suf", 2)
	c1 := byte(rapid.IntRange('a', 'w').Draw(t, "c1"))
	c2 := byte(rapid.IntRange('b', 'z').Draw(t, "c2"))
	out := []string{pre + string([]byte{c1, c2}) + suf, pre + string([]byte{c1 + 1, c2 - 33}) + suf}
	if rapid.Bool().Draw(t, "three") {
		out = append(out, pre+string([]byte{c1 + 2, c2 - 66})+suf)
	}
	return out
}

// c04CollisionMap draws a map whose keys are pairwise not ordered by the total
// order (maps, or lists of maps) and have identical hashes.
func c04CollisionMap(t *rapid.T, o gen.ValOpts) gen.V {
	ss := c04CollidingStrings(t)
	shape := rapid.IntRange(0, 5).Draw(t, "shape")
	small := gen.ValOpts{Depth: 1, Width: 3, NumKinds: "ibrf"}
	fixedVal := gen.Val(t, "cv", small)
	fixedKey := gen.Val(t, "ck", gen.ValOpts{Depth: 0, NumKinds: "ibrf", NoNaN: true})
	wrap := func(s string) gen.V {
		switch shape {
		case 0: // [&S=x]
			return c04MapOf(c04Str(s), fixedVal)
		case 1: // [&k=S]
			return c04MapOf(fixedKey, c04Str(s))
		case 2: // [[&S=x]]
			return gen.V{K: "list", L: []gen.V{c04MapOf(c04Str(s), fixedVal)}}
		case 3: // [&[S]=x]
			return c04MapOf(gen.V{K: "list", L: []gen.V{c04Str(s)}}, fixedVal)
		case 4: // [&[&S=1]=x]
			return c04MapOf(c04MapOf(c04Str(s), fixedVal), fixedVal)
		default: // [x [&S=x] S]
			return gen.V{K: "list", L: []gen.V{fixedKey, c04MapOf(c04Str(s), c04Str(s)), c04Str(s)}}
		}
	}
	var kvs []gen.V
	for _, s := range ss {
		kvs = append(kvs, wrap(s), gen.Val(t, "val", small))
	}
	// a few more ordinary entries around them
	n := rapid.IntRange(0, 4).Draw(t, "extra")
	for i := 0; i < n; i++ {
		ko := small
		ko.NoNaN = true
		kvs = append(kvs, gen.Val(t, "ek", ko), gen.Val(t, "ev", small))
	}
	// random initial order
	idx := rapid.Permutation(c04Indices(len(kvs) / 2)).Draw(t, "perm")
	var sh []gen.V
	for _, i := range idx {
		sh = append(sh, kvs[2*i], kvs[2*i+1])
	}
	return c04MapOf(sh...)
}

func c04Indices(n int) []int {
	out := make([]int, n)
	for i := range out {
		out[i] = i
	}
	return out
}

// c04SameNumberMap draws a map keyed by one mathematical value in several
// representations (not eq to each other, but equal under the total order) and
// neighbours of it.
func c04SameNumberMap(t *rapid.T) gen.V {
	base := rapid.SampledFrom([]int64{0, 1, -1, 2, 10, 1 << 31, 1 << 53, -(1 << 53), 1<<53 + 2, 1 << 62}).Draw(t, "base")
	var kvs []gen.V
	add := func(n gen.Num) {
		nn := n
		kvs = append(kvs, gen.V{K: "num", N: &nn}, gen.Val(t, "nv", gen.ValOpts{Depth: 1, Width: 2, NumKinds: "if"}))
	}
	add(gen.Num{Kind: "int", Text: fmt.Sprint(base)})
	add(gen.FloatNum(float64(base)))
	if rapid.Bool().Draw(t, "str") {
		kvs = append(kvs, c04Str(fmt.Sprint(base)), c04Str("string key"))
	}
	if rapid.Bool().Draw(t, "next") {
		add(gen.Num{Kind: "int", Text: fmt.Sprint(base + 1)})
		add(gen.FloatNum(math.Nextafter(float64(base), math.Inf(1))))
	}
	if rapid.Bool().Draw(t, "half") {
		add(gen.Num{Kind: "rat", Text: new(big.Rat).Add(big.NewRat(base, 1), big.NewRat(1, 2)).String()})
		add(gen.FloatNum(float64(base) + 0.5))
	}
	if base == 0 && rapid.Bool().Draw(t, "negzero") {
		kvs[2] = gen.V{K: "num", N: func() *gen.Num { n := gen.FloatNum(math.Copysign(0, -1)); return &n }()}
	}
	wrapList := rapid.Bool().Draw(t, "inlist")
	if wrapList {
		for i := 0; i < len(kvs); i += 2 {
			kvs[i] = gen.V{K: "list", L: []gen.V{kvs[i]}}
		}
	}
	idx := rapid.Permutation(c04Indices(len(kvs) / 2)).Draw(t, "perm")
	var sh []gen.V
	for _, i := range idx {
		sh = append(sh, kvs[2*i], kvs[2*i+1])
	}
	return c04MapOf(sh...)
}

// c04Reversed reverses the insertion order of every map in v.
func c04Reversed(v gen.V) gen.V {
	out := v
	switch v.K {
	case "list":
		out.L = nil
		for _, e := range v.L {
			out.L = append(out.L, c04Reversed(e))
		}
	case "map":
		out.M = nil
		for i := len(v.M) - 1; i >= 0; i-- {
			out.M = append(out.M, gen.KV{Key: c04Reversed(v.M[i].Key), Val: c04Reversed(v.M[i].Val)})
		}
	}
	return out
}

func c04Gen(t *rapid.T) c04Case {
	o := gen.ValOpts{
		Depth:    rapid.SampledFrom([]int{1, 2, 2, 3, 3, 4, 5}).Draw(t, "depth"),
		Width:    rapid.SampledFrom([]int{2, 3, 4, 8}).Draw(t, "width"),
		NumKinds: "ibrf",
	}
	ko := o
	ko.NoNaN = true
	var v gen.V
	switch rapid.IntRange(0, 7).Draw(t, "top") {
	case 0, 1:
		v = gen.Val(t, "v", o)
	case 2:
		v = gen.V{K: "list", L: []gen.V{gen.Val(t, "v", o), gen.Val(t, "w", o)}}
	case 3:
		v = c04MapOf(gen.Val(t, "k1", ko), gen.Val(t, "v1", o), gen.Val(t, "k2", ko), gen.Val(t, "v2", o), gen.Val(t, "k3", ko), gen.Val(t, "v3", o))
	case 4:
		v = c04CollisionMap(t, o)
	case 5: // collision map nested as a value and as a key
		cm := c04CollisionMap(t, o)
		cm2 := c04CollisionMap(t, o)
		v = c04MapOf(gen.Val(t, "k1", ko), cm, cm2, gen.Val(t, "v2", o), c04Str("list"), gen.V{K: "list", L: []gen.V{cm, gen.Val(t, "le", o)}})
	case 6:
		v = c04SameNumberMap(t)
	default:
		v = gen.V{K: "list", L: []gen.V{c04SameNumberMap(t), c04CollisionMap(t, o), gen.Val(t, "v", o)}}
	}
	c := c04Case{V: v}
	c.Alts = append(c.Alts, c04Reversed(v))
	c.Churn = append(c.Churn, rapid.IntRange(0, 2).Draw(t, "churn0"))
	n := rapid.IntRange(0, 2).Draw(t, "nalts")
	for i := 0; i < n; i++ {
		c.Alts = append(c.Alts, v.Shuffled(t, fmt.Sprintf("alt%d", i)))
		c.Churn = append(c.Churn, rapid.IntRange(0, 3).Draw(t, "churn"))
	}
	return c
}

// ---- classification ---------------------------------------------------------------

func c04IsBareword(s string) bool {
	// conservative: plain ASCII letters, digits and a few safe punctuation marks
	if s == "" {
		return false
	}
	for _, r := range s {
		if r == utf8.RuneError || !(unicode.IsLetter(r) || unicode.IsDigit(r) || strings.ContainsRune("-_:%+,./@!", r)) {
			return false
		}
	}
	return true
}

type c04Info struct {
	maps, quoted, nums, tieKeys, multiline int
}

func c04Scan(v gen.V, in *c04Info) {
	switch v.K {
	case "str":
		if !c04IsBareword(string(v.S)) {
			in.quoted++
		}
		if strings.ContainsAny(string(v.S), "\n\t") {
			in.multiline++
		}
	case "num":
		in.nums++
	case "list":
		for _, e := range v.L {
			c04Scan(e, in)
		}
	case "map":
		in.maps++
		nonOrdered := 0
		for _, kv := range v.M {
			if kv.Key.K == "map" || (kv.Key.K == "list" && strings.Contains(kv.Key.Canon(), "{")) {
				nonOrdered++
			}
			c04Scan(kv.Key, in)
			c04Scan(kv.Val, in)
		}
		if nonOrdered >= 2 {
			in.tieKeys++
		}
	}
}

func c04Class(c c04Case) (string, bool) {
	var in c04Info
	c04Scan(c.V, &in)
	d := c.V.Depth()
	nt := d >= 2 && (in.maps > 0 || in.quoted > 0)
	var cl string
	switch {
	case d == 0:
		cl = "scalar"
	case d == 1:
		cl = "flat"
	default:
		cl = fmt.Sprintf("depth%d", d)
		if d > 4 {
			cl = "depth5+"
		}
	}
	if in.tieKeys > 0 {
		cl += "+tie-keys"
	}
	if c.V.HasNaN() {
		cl += "+nan"
	}
	return cl, nt
}

func init() {
	vs.Register(vs.Prop[c04Case]{
		Name: "C04/roundtrip",
		Rule: "nested data values (gen.Val: $nil, bools, hostile byte strings, all four number representations incl. ±0.0 ±Inf NaN 2^63 boundaries big rationals; depth ≤5, width ≤8) plus constructed maps whose keys are not ordered by the total order and have identical hashes (maps / lists of maps over DJB-colliding strings) and maps keyed by one number in several representations; every map also rebuilt in reversed and shuffled insertion order and with junk (incl. hash-colliding) keys inserted and removed. repr at plain/indent 0/indent 3 must evaluate (`put <text>`) to one value eq to the original (mirror comparison: same types, same exactness, canonical representation, NaN~NaN; vals.Equal and builtin eq when NaN-free) and be string-identical across builds. Non-trivial = depth ≥2 and contains a map or a non-bareword string",
		Gen:   c04Gen,
		Check: c04Check,
		Class: c04Class,
		Quick: 2500, Thorough: 30000,
		Known: []vs.Known[c04Case]{{Key: "C04:repr-order-colliding-map-keys", Case: c04Case{
			V:     c04MapOf(c04MapOf(c04Str("ab"), c04Str("x")), c04Str("1"), c04MapOf(c04Str("bA"), c04Str("x")), c04Str("2")),
			Alts:  []gen.V{c04MapOf(c04MapOf(c04Str("bA"), c04Str("x")), c04Str("2"), c04MapOf(c04Str("ab"), c04Str("x")), c04Str("1"))},
			Churn: []int{0},
		}}},
	})
}
