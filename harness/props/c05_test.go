package props

// C05 Typed numbers survive to-string/num and every documented literal parses.
//
// Sub-checks:
//   C05/roundtrip  typed number x (all four representations) -> to-string -> num
//                  gives the same representation and value (floats bit-identical,
//                  NaN stays NaN), through vals.ToString/ParseNum and through the
//                  builtins `num (to-string $x)`.
//   C05/literals   a literal generated from the documented grammar
//                  (language.md "Number") -> num. Oracle: the harness's own
//                  parser of that grammar gives the exact rational value; integer
//                  and rational syntaxes must produce the canonical exact number,
//                  float syntaxes a float64 that no neighbour beats (ties to even).
//   C05/nonnumbers strings outside every number syntax -> ParseNum is nil and the
//                  builtin raises an exception.

import (
	"fmt"
	"math"
	"math/big"
	"strings"
	"sync"

	"pgregory.net/rapid"
	"src.elv.sh/pkg/eval"
	"src.elv.sh/pkg/eval/vals"
	"src.elv.sh/pkg/eval/vars"
	"verif/elv"
	"verif/gen"
	"verif/vs"
)

var (
	c05EvOnce sync.Once
	c05Ev     *eval.Evaler
)

func c05Evaler() *eval.Evaler {
	c05EvOnce.Do(func() { c05Ev = elv.New() })
	return c05Ev
}

// c05RunWith evaluates code with the variable $x bound to x.
func c05RunWith(x any, code string) elv.Result {
	ns := eval.BuildNs().AddVar("x", vars.NewReadOnly(x)).Ns()
	return elv.RunCtx(c05Evaler(), code, nil, ns)
}

// ---- C05/roundtrip ------------------------------------------------------------

type c05RT struct {
	X gen.Num `json:"x"`
}

func c05NumClass(n gen.Num) string {
	switch n.Kind {
	case "float":
		f := n.Float()
		switch {
		case math.IsNaN(f):
			return "float/nan"
		case math.IsInf(f, 0):
			return "float/inf"
		case f == 0:
			return "float/zero"
		case math.Abs(f) < 0x1p-1022:
			return "float/subnormal"
		case f == math.Trunc(f):
			return "float/integral"
		}
		return "float/fraction"
	case "int":
		r := n.Exact()
		if r.Num().BitLen() >= 62 {
			return "int/near-limit"
		}
		return "int"
	}
	return n.Kind
}

func c05CheckRT(c c05RT) error {
	x := c.X.Value()
	// The case must be canonical itself (generator contract).
	if err := c05Canonical(x); err != nil {
		return fmt.Errorf("harness: generated number not canonical: %v", err)
	}
	s := vals.ToString(x)
	back := vals.ParseNum(s)
	if back == nil {
		return fmt.Errorf("num of to-string must give back the number: to-string(%s %s)=%q, which ParseNum rejects", c.X.Kind, c.X.Text, s)
	}
	if err := gen.SameNum(x, back); err != nil {
		return fmt.Errorf("num of to-string must give back the same number: %s %s -> %q -> %v", c.X.Kind, c.X.Text, s, err)
	}
	// The same through the builtins.
	r := c05RunWith(x, "var s = (to-string $x); put $s (num $s) (eq $x (num $s))")
	if r.Err != nil {
		return fmt.Errorf("`num (to-string $x)` must succeed for %s %s: %v", c.X.Kind, c.X.Text, r.Err)
	}
	if len(r.Values) != 3 {
		return fmt.Errorf("`put $s (num $s) (eq ..)` gave %d values for %s %s", len(r.Values), c.X.Kind, c.X.Text)
	}
	if bs, ok := r.Values[0].(string); !ok || bs != s {
		return fmt.Errorf("to-string builtin gave %v, vals.ToString gave %q (%s %s)", r.Values[0], s, c.X.Kind, c.X.Text)
	}
	if err := gen.SameNum(x, r.Values[1]); err != nil {
		return fmt.Errorf("builtin `num (to-string $x)` must give back the same number: %s %s -> %q -> %v", c.X.Kind, c.X.Text, s, err)
	}
	isNaN := c.X.IsFloat() && math.IsNaN(c.X.Float())
	if eqv, ok := r.Values[2].(bool); !ok || eqv != !isNaN {
		return fmt.Errorf("`eq $x (num (to-string $x))` = %v for %s %s (string %q), want %v", r.Values[2], c.X.Kind, c.X.Text, s, !isNaN)
	}
	return nil
}

// c05Canonical checks the "single unique representation" rule of num.go.
func c05Canonical(x any) error {
	switch x := x.(type) {
	case int, float64:
		return nil
	case *big.Int:
		if x.IsInt64() {
			return fmt.Errorf("*big.Int %v fits in int", x)
		}
		return nil
	case *big.Rat:
		if x.IsInt() {
			return fmt.Errorf("*big.Rat %v is an integer", x)
		}
		return nil
	}
	return fmt.Errorf("%T is not a number", x)
}

// extra numbers that the shared generator does not reach often: long decimal
// expansions and powers of two/ten near the printing-format switch points.
func c05GenNum(t *rapid.T) gen.Num {
	switch rapid.IntRange(0, 9).Draw(t, "src") {
	case 0: // floats around the fixed/scientific switch of formatFloat64
		m := rapid.Int64Range(1, 999999).Draw(t, "m")
		e := rapid.IntRange(-12, 25).Draw(t, "e")
		f := float64(m) * math.Pow(10, float64(e))
		if rapid.Bool().Draw(t, "neg") {
			f = -f
		}
		return gen.FloatNum(f)
	case 1: // powers of two, exact and as floats
		k := rapid.IntRange(0, 1100).Draw(t, "k")
		if rapid.Bool().Draw(t, "asfloat") {
			return gen.FloatNum(math.Ldexp(1, k-550))
		}
		b := new(big.Int).Lsh(big.NewInt(1), uint(k%200))
		b.Add(b, big.NewInt(int64(rapid.IntRange(-1, 1).Draw(t, "d"))))
		if rapid.Bool().Draw(t, "neg") {
			b.Neg(b)
		}
		return c05ExactNum(new(big.Rat).SetInt(b))
	case 2: // random big rationals
		nb := rapid.SliceOfN(rapid.Byte(), 1, 40).Draw(t, "nb")
		db := rapid.SliceOfN(rapid.Byte(), 1, 40).Draw(t, "db")
		n := new(big.Int).SetBytes(nb)
		d := new(big.Int).SetBytes(db)
		if d.Sign() == 0 {
			d.SetInt64(7)
		}
		if rapid.Bool().Draw(t, "neg") {
			n.Neg(n)
		}
		return c05ExactNum(new(big.Rat).SetFrac(n, d))
	}
	return gen.Number(t, "x", "ibrf")
}

// c05ExactNum wraps an exact rational in its canonical representation.
func c05ExactNum(r *big.Rat) gen.Num {
	if r.IsInt() {
		if r.Num().IsInt64() {
			return gen.Num{Kind: "int", Text: r.Num().String()}
		}
		return gen.Num{Kind: "bigint", Text: r.Num().String()}
	}
	return gen.Num{Kind: "rat", Text: r.String()}
}

// ---- the documented literal grammar: generator and independent parser ---------

type c05Lit struct {
	Text vs.B   `json:"text"`
	Syn  string `json:"syn"` // int | rat | float | special
}

// c05Digits draws n digits of the base; first controls whether the first digit may be 0.
func c05Digits(t *rapid.T, label string, base, n int, nonzeroFirst bool) string {
	const all = "0123456789abcdef"
	var sb strings.Builder
	for i := 0; i < n; i++ {
		lo := 0
		if i == 0 && nonzeroFirst {
			lo = 1
		}
		d := rapid.IntRange(lo, base-1).Draw(t, label)
		if rapid.IntRange(0, 3).Draw(t, label+"edge") == 0 {
			// bias to boundary digits
			d = []int{lo, base - 1, base - 1, lo}[rapid.IntRange(0, 3).Draw(t, label+"which")]
		}
		sb.WriteByte(all[d])
	}
	return sb.String()
}

// c05Underscore inserts single underscores between digits.
func c05Underscore(t *rapid.T, label, digits string) string {
	if len(digits) < 2 || rapid.IntRange(0, 2).Draw(t, label+"?us") != 0 {
		return digits
	}
	var sb strings.Builder
	for i := 0; i < len(digits); i++ {
		if i > 0 && rapid.IntRange(0, 3).Draw(t, label+"us") == 0 {
			sb.WriteByte('_')
		}
		sb.WriteByte(digits[i])
	}
	return sb.String()
}

func c05RandCase(t *rapid.T, label, s string) string {
	mode := rapid.IntRange(0, 3).Draw(t, label+"case")
	switch mode {
	case 0:
		return s
	case 1:
		return strings.ToUpper(s)
	case 2:
		return strings.ToLower(s)
	}
	b := []byte(s)
	for i, ch := range b {
		if (ch >= 'a' && ch <= 'z' || ch >= 'A' && ch <= 'Z') && rapid.Bool().Draw(t, label+"flip") {
			b[i] = ch ^ 0x20
		}
	}
	return string(b)
}

var c05IntEdges = []string{"0", "1", "9223372036854775807", "9223372036854775808", "9223372036854775806", "18446744073709551615", "18446744073709551616",
	"4294967296", "2147483648", "9007199254740993", "10000000000000000000", "99999999999999999999999999999999"}

// c05GenUInt draws an unsigned integer literal in one of the four documented bases.
func c05GenUInt(t *rapid.T, label string) string {
	base := rapid.SampledFrom([]int{10, 10, 10, 16, 8, 2}).Draw(t, label+"base")
	var mag string
	if rapid.IntRange(0, 4).Draw(t, label+"?edge") == 0 {
		b, _ := new(big.Int).SetString(rapid.SampledFrom(c05IntEdges).Draw(t, label+"edge"), 10)
		mag = b.Text(base)
	} else {
		maxd := map[int]int{10: 25, 16: 20, 8: 26, 2: 70}[base]
		n := rapid.IntRange(1, maxd).Draw(t, label+"n")
		if base == 10 {
			if n == 1 {
				mag = c05Digits(t, label+"d", base, 1, false)
			} else {
				mag = c05Digits(t, label+"d", base, n, true)
			}
		} else {
			mag = c05Digits(t, label+"d", base, n, false)
		}
	}
	mag = c05Underscore(t, label, mag)
	prefix := map[int]string{10: "", 16: "0x", 8: "0o", 2: "0b"}[base]
	return prefix + mag
}

func c05GenSign(t *rapid.T, label string) string {
	if rapid.IntRange(0, 2).Draw(t, label) == 0 {
		return "-"
	}
	return ""
}

func c05GenDecInt(t *rapid.T, label string, maxd int) string {
	n := rapid.IntRange(1, maxd).Draw(t, label+"n")
	if n == 1 {
		return c05Digits(t, label+"d", 10, 1, false)
	}
	return c05Underscore(t, label, c05Digits(t, label+"d", 10, n, true))
}

var c05ExpEdges = []int{0, 1, -1, 15, 16, 17, 20, 21, 22, 23, 307, 308, -307, -308, -322, -323, -324, -325, -340, 290, -5, -6, -7}

func c05GenFloatLit(t *rapid.T) string {
	sign := c05GenSign(t, "sign")
	switch rapid.IntRange(0, 5).Draw(t, "fkind") {
	case 0, 1: // digits.digits with optional exponent
		ip := c05GenDecInt(t, "ip", 22)
		fp := c05Underscore(t, "fp", c05Digits(t, "fpd", 10, rapid.IntRange(1, 25).Draw(t, "fpn"), false))
		s := sign + ip + "." + fp
		if rapid.Bool().Draw(t, "?exp") {
			s += c05GenExp(t, len(ip))
		}
		return s
	case 2: // integer mantissa with exponent
		ip := c05GenDecInt(t, "ip", 22)
		return sign + ip + c05GenExp(t, len(ip))
	case 3: // exact halfway point between two adjacent doubles, or just beside it
		f := math.Abs(gen.Float(t, "hf"))
		if math.IsNaN(f) || math.IsInf(f, 0) || f > 0x1p80 || f < 0x1p-60 {
			f = float64(rapid.Int64Range(1<<52, 1<<54).Draw(t, "hm"))
			if rapid.Bool().Draw(t, "hsmall") {
				f = math.Ldexp(f, -rapid.IntRange(40, 70).Draw(t, "hsh"))
			}
		}
		lo := new(big.Rat).SetFloat64(f)
		hi := new(big.Rat).SetFloat64(math.Nextafter(f, math.Inf(1)))
		mid := new(big.Rat).Add(lo, hi)
		mid.Quo(mid, big.NewRat(2, 1))
		dec := c05ExactDecimal(mid)
		if !strings.Contains(dec, ".") {
			dec += ".0"
		}
		switch rapid.IntRange(0, 2).Draw(t, "hside") {
		case 1: // just above
			dec += "0000000000000000000001"
		case 2: // just below: decrement the last digit (it is never 0 for a dyadic expansion with a fraction, but be safe)
			b := []byte(dec)
			i := len(b) - 1
			for i >= 0 && (b[i] == '0' || b[i] == '.') {
				i--
			}
			if i >= 0 {
				b[i]--
				rest := b[i+1:]
				for j := range rest {
					if rest[j] == '0' {
						rest[j] = '9'
					}
				}
				dec = string(b) + "9999999999999999999999"
			}
		}
		for len(dec) > 1 && dec[0] == '0' && dec[1] != '.' {
			dec = dec[1:] // a borrow must not leave a leading zero
		}
		return sign + dec
	case 4: // long mantissa (more digits than a double holds)
		ip := c05GenDecInt(t, "ip", 45)
		fp := c05Digits(t, "fpd", 10, rapid.IntRange(1, 45).Draw(t, "fpn"), false)
		return sign + ip + "." + fp
	default: // small integers written as floats
		return sign + fmt.Sprintf("%d.%d", rapid.IntRange(0, 1000).Draw(t, "si"), rapid.IntRange(0, 99).Draw(t, "sf"))
	}
}

// c05GenExp draws an exponent part that keeps the value inside the finite
// double range for a mantissa with ipLen integer digits (checked again in Check).
func c05GenExp(t *rapid.T, ipLen int) string {
	var e int
	if rapid.Bool().Draw(t, "?eedge") {
		e = rapid.SampledFrom(c05ExpEdges).Draw(t, "eedge") - (ipLen - 1)*rapid.IntRange(0, 1).Draw(t, "eadj")
	} else {
		e = rapid.IntRange(-345, 300).Draw(t, "e")
	}
	es := fmt.Sprintf("%d", e)
	if e >= 0 {
		switch rapid.IntRange(0, 2).Draw(t, "eplus") {
		case 0:
			es = "+" + es
		case 1:
			if e < 10 {
				es = "0" + es // the form to-string itself prints: 1e+06 / 1e-07
			}
		}
	} else if e > -10 && rapid.Bool().Draw(t, "ezero") {
		es = fmt.Sprintf("-0%d", -e)
	}
	if len(es) >= 2 && es[len(es)-2] >= '0' && es[len(es)-2] <= '9' && rapid.IntRange(0, 9).Draw(t, "eus") == 0 {
		es = es[:len(es)-1] + "_" + es[len(es)-1:]
	}
	return c05RandCase(t, "e", "e") + es
}

// c05ExactDecimal prints a dyadic rational exactly in decimal.
func c05ExactDecimal(r *big.Rat) string {
	// the denominator is a power of two: 2^k digits after the point suffice
	k := r.Denom().BitLen() - 1
	return strings.TrimRight(strings.TrimRight(r.FloatString(k), "0"), ".")
}

func c05GenLit(t *rapid.T) c05Lit {
	switch rapid.IntRange(0, 9).Draw(t, "syn") {
	case 0, 1, 2:
		return c05Lit{Syn: "int", Text: vs.B(c05RandCase(t, "c", c05GenSign(t, "sign")+c05GenUInt(t, "i")))}
	case 3, 4:
		num := c05GenSign(t, "sign") + c05GenUInt(t, "n")
		den := c05GenUInt(t, "d")
		if v, err := c05ParseInt(den); err != nil || v.Sign() == 0 {
			den = "7"
		}
		if rapid.IntRange(0, 3).Draw(t, "?mult") == 0 {
			// make numerator a multiple of the denominator now and then: must normalise to an integer
			d, _ := c05ParseInt(den)
			k := rapid.Int64Range(-1000, 1000).Draw(t, "mult")
			num = new(big.Int).Mul(d, big.NewInt(k)).String()
		}
		return c05Lit{Syn: "rat", Text: vs.B(c05RandCase(t, "c", num+"/"+den))}
	case 5, 6, 7, 8:
		return c05Lit{Syn: "float", Text: vs.B(c05RandCase(t, "c", c05GenFloatLit(t)))}
	default:
		s := rapid.SampledFrom([]string{"Inf", "+Inf", "-Inf", "NaN"}).Draw(t, "special")
		return c05Lit{Syn: "special", Text: vs.B(c05RandCase(t, "c", s))}
	}
}

// ---- independent parser of the documented grammar -----------------------------

// c05StripUnderscores removes underscores that sit between two digits (of the
// given base) and reports an error for any other underscore.
func c05StripUnderscores(s string, base int) (string, error) {
	isDigit := func(c byte) bool {
		c |= 0x20
		v := -1
		switch {
		case c >= '0' && c <= '9':
			v = int(c - '0')
		case c >= 'a' && c <= 'f':
			v = int(c-'a') + 10
		}
		return v >= 0 && v < base
	}
	var sb strings.Builder
	for i := 0; i < len(s); i++ {
		if s[i] == '_' {
			if i == 0 || i == len(s)-1 || !isDigit(s[i-1]) || !isDigit(s[i+1]) {
				return "", fmt.Errorf("misplaced underscore")
			}
			continue
		}
		if !isDigit(s[i]) {
			return "", fmt.Errorf("bad digit %q", s[i])
		}
		sb.WriteByte(s[i])
	}
	if sb.Len() == 0 {
		return "", fmt.Errorf("no digits")
	}
	return sb.String(), nil
}

// c05ParseUInt parses an unsigned integer literal of the documented grammar.
func c05ParseUInt(s string) (*big.Int, error) {
	base := 10
	body := s
	if len(s) >= 2 && s[0] == '0' {
		switch s[1] | 0x20 {
		case 'x':
			base, body = 16, s[2:]
		case 'o':
			base, body = 8, s[2:]
		case 'b':
			base, body = 2, s[2:]
		}
	}
	digits, err := c05StripUnderscores(body, base)
	if err != nil {
		return nil, err
	}
	if base == 10 && len(digits) > 1 && digits[0] == '0' {
		return nil, fmt.Errorf("leading zero (octal for now): outside the checked grammar")
	}
	// accumulate by hand: value = value*base + digit
	v := new(big.Int)
	bb := big.NewInt(int64(base))
	for i := 0; i < len(digits); i++ {
		c := digits[i] | 0x20
		d := int64(c - '0')
		if c >= 'a' {
			d = int64(c-'a') + 10
		}
		v.Mul(v, bb)
		v.Add(v, big.NewInt(d))
	}
	return v, nil
}

func c05ParseInt(s string) (*big.Int, error) {
	neg := false
	if strings.HasPrefix(s, "-") {
		neg, s = true, s[1:]
	}
	v, err := c05ParseUInt(s)
	if err != nil {
		return nil, err
	}
	if neg {
		v.Neg(v)
	}
	return v, nil
}

// c05ParseFloatLit returns the exact value of a decimal/scientific literal and
// whether it carries a minus sign.
func c05ParseFloatLit(s string) (*big.Rat, bool, error) {
	neg := false
	if strings.HasPrefix(s, "-") {
		neg, s = true, s[1:]
	}
	mant, exp := s, ""
	if i := strings.IndexAny(s, "eE"); i >= 0 {
		mant, exp = s[:i], s[i+1:]
		if exp == "" {
			return nil, false, fmt.Errorf("empty exponent")
		}
	} else if !strings.Contains(s, ".") {
		return nil, false, fmt.Errorf("neither point nor exponent")
	}
	ip, fp := mant, ""
	if i := strings.IndexByte(mant, '.'); i >= 0 {
		ip, fp = mant[:i], mant[i+1:]
		if fp == "" {
			return nil, false, fmt.Errorf("no digits after the point")
		}
	}
	ipd, err := c05StripUnderscores(ip, 10)
	if err != nil {
		return nil, false, err
	}
	if len(ipd) > 1 && ipd[0] == '0' {
		return nil, false, fmt.Errorf("leading zero")
	}
	fpd := ""
	if fp != "" {
		if fpd, err = c05StripUnderscores(fp, 10); err != nil {
			return nil, false, err
		}
	}
	e := 0
	if exp != "" {
		eneg := false
		switch exp[0] {
		case '+':
			exp = exp[1:]
		case '-':
			eneg, exp = true, exp[1:]
		}
		ed, err := c05StripUnderscores(exp, 10)
		if err != nil {
			return nil, false, err
		}
		if len(ed) > 6 {
			return nil, false, fmt.Errorf("exponent too long")
		}
		for i := 0; i < len(ed); i++ {
			e = e*10 + int(ed[i]-'0')
		}
		if eneg {
			e = -e
		}
	}
	m := new(big.Int)
	ten := big.NewInt(10)
	for _, c := range []byte(ipd + fpd) {
		m.Mul(m, ten)
		m.Add(m, big.NewInt(int64(c-'0')))
	}
	e -= len(fpd)
	r := new(big.Rat).SetInt(m)
	p := new(big.Int).Exp(ten, big.NewInt(int64(c05Abs(e))), nil)
	if e >= 0 {
		r.Mul(r, new(big.Rat).SetInt(p))
	} else {
		r.Quo(r, new(big.Rat).SetInt(p))
	}
	if neg {
		r.Neg(r)
	}
	return r, neg, nil
}

func c05Abs(x int) int {
	if x < 0 {
		return -x
	}
	return x
}

// c05FloatExact is the exact value of a finite double, with ±Inf standing for ±2^1024.
func c05FloatExact(f float64) *big.Rat {
	if math.IsInf(f, 0) {
		r := new(big.Rat).SetInt(new(big.Int).Lsh(big.NewInt(1), 1024))
		if f < 0 {
			r.Neg(r)
		}
		return r
	}
	return new(big.Rat).SetFloat64(f)
}

var c05MaxFinite = new(big.Rat).SetFloat64(math.MaxFloat64)

// c05CorrectlyRounded says whether f is a correct round-to-nearest-even result
// for the exact value r (|r| <= MaxFloat64 assumed).
func c05CorrectlyRounded(r *big.Rat, f float64) error {
	if math.IsNaN(f) || math.IsInf(f, 0) {
		return fmt.Errorf("result %v is not finite", f)
	}
	dist := func(g float64) *big.Rat {
		d := new(big.Rat).Sub(r, c05FloatExact(g))
		return d.Abs(d)
	}
	d0 := dist(f)
	for _, g := range []float64{math.Nextafter(f, math.Inf(-1)), math.Nextafter(f, math.Inf(1))} {
		switch d0.Cmp(dist(g)) {
		case 1:
			return fmt.Errorf("%v (bits %x) is not nearest: neighbour %v is closer", f, math.Float64bits(f), g)
		case 0:
			if d0.Sign() != 0 && math.Float64bits(f)&1 != 0 {
				return fmt.Errorf("%v (bits %x) is a tie not rounded to even", f, math.Float64bits(f))
			}
		}
	}
	return nil
}

// c05Expect computes what num must produce for a literal of the documented
// grammar: (exact canonical value, nil) for integer/rational syntaxes, or a
// validity predicate for floats. skip != "" means the literal is outside the
// checked domain.
func c05CheckLit(c c05Lit) (skip string, err error) {
	text := string(c.Text)
	got := vals.ParseNum(text)
	r := c05RunWith(text, "num $x")
	describe := func() string { return fmt.Sprintf("num %q (%s syntax)", text, c.Syn) }
	var want any      // exact expected value, or nil
	var wantR *big.Rat // exact value of a float literal
	wantNeg := false
	switch c.Syn {
	case "int":
		v, perr := c05ParseInt(text)
		if perr != nil {
			return "", fmt.Errorf("harness: generated int literal %q not in grammar: %v", text, perr)
		}
		want = c05ExactNum(new(big.Rat).SetInt(v)).Value()
	case "rat":
		i := strings.IndexByte(text, '/')
		n, perr := c05ParseInt(text[:i])
		if perr != nil {
			return "", fmt.Errorf("harness: generated numerator %q not in grammar: %v", text, perr)
		}
		d, perr := c05ParseUInt(text[i+1:])
		if perr != nil || d.Sign() == 0 {
			return "", fmt.Errorf("harness: generated denominator %q not in grammar: %v", text, perr)
		}
		// reduce by hand with gcd so that the expected value does not come from big.Rat's own normalisation only
		g := new(big.Int).GCD(nil, nil, new(big.Int).Abs(n), d)
		if g.Sign() != 0 {
			n = new(big.Int).Quo(n, g)
			d = new(big.Int).Quo(d, g)
		}
		if d.Cmp(big.NewInt(1)) == 0 {
			want = c05ExactNum(new(big.Rat).SetInt(n)).Value()
		} else {
			want = new(big.Rat).SetFrac(n, d)
		}
	case "float":
		var perr error
		wantR, wantNeg, perr = c05ParseFloatLit(text)
		if perr != nil {
			return "", fmt.Errorf("harness: generated float literal %q not in grammar: %v", text, perr)
		}
		if new(big.Rat).Abs(wantR).Cmp(c05MaxFinite) > 0 {
			return "float literal beyond the finite double range (UNSPEC)", nil
		}
	case "special":
		low := strings.ToLower(text)
		switch low {
		case "inf", "+inf":
			want = math.Inf(1)
		case "-inf":
			want = math.Inf(-1)
		case "nan":
			want = math.NaN()
		default:
			return "", fmt.Errorf("harness: bad special %q", text)
		}
	}
	for i, g := range []any{got, nil} {
		via := "vals.ParseNum"
		if i == 1 {
			via = "builtin num"
			if r.Err != nil {
				return "", fmt.Errorf("%s must succeed, got %v", describe(), r.Err)
			}
			if len(r.Values) != 1 {
				return "", fmt.Errorf("%s output %d values", describe(), len(r.Values))
			}
			g = r.Values[0]
		} else if g == nil {
			return "", fmt.Errorf("%s must be accepted: ParseNum returned nil", describe())
		}
		if want != nil {
			if err := gen.SameNum(want, g); err != nil {
				return "", fmt.Errorf("%s via %s: %v", describe(), via, err)
			}
			continue
		}
		f, ok := g.(float64)
		if !ok {
			return "", fmt.Errorf("%s via %s: float syntax must give an inexact number, got %T %v", describe(), via, g, g)
		}
		if err := c05CorrectlyRounded(wantR, f); err != nil {
			return "", fmt.Errorf("%s via %s is not the correctly rounded value of the literal: %v", describe(), via, err)
		}
		if f == 0 && math.Signbit(f) != wantNeg {
			return "", fmt.Errorf("%s via %s: zero result has signbit %v, literal sign negative=%v", describe(), via, math.Signbit(f), wantNeg)
		}
	}
	return "", nil
}

func c05LitClass(c c05Lit) (string, bool) {
	text := string(c.Text)
	cl := c.Syn
	if strings.Contains(text, "_") {
		cl += "+us"
	}
	if text != strings.ToLower(text) {
		cl += "+upper"
	}
	if c.Syn == "float" {
		if r, _, err := c05ParseFloatLit(text); err == nil {
			a := new(big.Rat).Abs(r)
			switch {
			case a.Cmp(c05MaxFinite) > 0:
				cl = "float/overflow(excluded)"
			case a.Sign() != 0 && a.Cmp(new(big.Rat).SetFloat64(0x1p-1022)) < 0:
				cl += "/subnormal-or-underflow"
			}
		}
	}
	return cl, true
}

// ---- C05/nonnumbers ------------------------------------------------------------

type c05Bad struct {
	Text vs.B `json:"text"`
	How  string `json:"how"`
}

var c05FixedBad = []string{"", " ", "_", "-", "+", ".", "e", "E", "/", "x", "0x", "0X", "0b", "0o", "0x_", "1__0", "_1", "1_", "-_1", "1_.5", "1._5", "1_e5", "1e_5", "1e5_",
	"1/0", "0/0", "-3/0", "1/0x0", "1/0b0", "1/", "/2", "1//2", "1/2/3", "0b2", "0b12", "0o8", "0o78", "0xg", "0x1g", "1.2.3", "1..2", "1e", "1e+", "1e-", "e5", "1e5.5", "1e5e5",
	"abc", "num", "ten", "1a", "a1", "1 ", " 1", "1\n", "\t1", "1 2", "--1", "-+1", "+-1", "1-", "1+", "1,5", "1,000", "１", "١", "0x1.8", "1/2.5e", "Inf1", "NaN1", "xInf", "nanx", "in", "na", "infinit", "i", "n",
	"$1", "(num 1)", "1;", "#1", "1#", "0x-1", "0b-1", "1e 5", "1 e5", "1. 5", "1 /2", "1/ 2", "1_/2", "1/_2", "½", "1’000", "1'000", "0b", "0o", "true", "$true", "nil"}

func c05GenBad(t *rapid.T) c05Bad {
	switch rapid.IntRange(0, 3).Draw(t, "how") {
	case 0:
		return c05Bad{Text: vs.B(rapid.SampledFrom(c05FixedBad).Draw(t, "fixed")), How: "fixed"}
	case 1: // a valid literal with a character inserted that no number syntax uses
		lit := string(c05GenLit(t).Text)
		pos := rapid.IntRange(0, len(lit)).Draw(t, "pos")
		ch := rapid.SampledFrom([]string{"q", "z", "w", "k", " ", "$", "#", ",", ":", "\x00", "\n", "é", "g", "Z", "\xff", "~", "*"}).Draw(t, "ch")
		return c05Bad{Text: vs.B(lit[:pos] + ch + lit[pos:]), How: "insert " + fmt.Sprintf("%q", ch)}
	case 2: // an underscore that is not between two digits (and not right after a base prefix, which Go's syntax allows)
		lit := string(c05GenLit(t).Text)
		var cand []int
		for i := 0; i <= len(lit); i++ {
			leftDigit := i > 0 && c05IsHexDigit(lit[i-1])
			rightDigit := i < len(lit) && c05IsHexDigit(lit[i])
			afterPrefix := i > 0 && strings.IndexByte("xXoObB", lit[i-1]) >= 0
			if !(leftDigit && rightDigit) && !afterPrefix {
				cand = append(cand, i)
			}
		}
		pos := cand[rapid.IntRange(0, len(cand)-1).Draw(t, "pos")]
		return c05Bad{Text: vs.B(lit[:pos] + "_" + lit[pos:]), How: "underscore"}
	default: // words
		w := gen.Word(t, "word")
		if w == "inf" || w == "nan" {
			w = "q" + w
		}
		return c05Bad{Text: vs.B(w), How: "word"}
	}
}

func c05IsHexDigit(c byte) bool {
	c |= 0x20
	return c >= '0' && c <= '9' || c >= 'a' && c <= 'f'
}

func c05CheckBad(c c05Bad) error {
	text := string(c.Text)
	if got := vals.ParseNum(text); got != nil {
		return fmt.Errorf("%q is not a number in any documented syntax, but ParseNum gave %T %v", text, got, got)
	}
	r := c05RunWith(text, "num $x")
	if r.Err == nil {
		return fmt.Errorf("`num %q` must raise an exception, output %s", text, elv.Reprs(r.Values))
	}
	if !elv.IsException(r.Err) {
		return fmt.Errorf("`num %q` must raise an Elvish exception, got %T %v", text, r.Err, r.Err)
	}
	return nil
}

func init() {
	vs.Register(vs.Prop[c05RT]{
		Name: "C05/roundtrip",
		Rule: "typed numbers of all four representations (gen.Num: random float64 bit patterns, ±0, subnormals, ±Inf, NaN, machine-int and big-int boundaries, big rationals; plus floats m·10^e around the fixed/scientific switch of the printer, powers of two, random 1..40-byte rationals); to-string then num must give the same representation, exact value / bit pattern (NaN: any NaN), via vals and via the builtins; every case is non-trivial",
		Gen:  func(t *rapid.T) c05RT { return c05RT{X: c05GenNum(t)} },
		Check: c05CheckRT,
		Class: func(c c05RT) (string, bool) { return c05NumClass(c.X), true },
		Quick: 12000, Thorough: 150000,
	})
	vs.Register(vs.Prop[c05Lit]{
		Name: "C05/literals",
		Rule: "literals generated from the grammar of language.md#number: [-]decimal without leading zeros | 0x/0o/0b integers | int/uint rationals with each side in any integer syntax | digits.digits[e[±]digits] and digits e[±]digits floats (incl. exact halfway points between adjacent doubles ± a tiny amount, >17-digit mantissas, exponents at the overflow/subnormal edges) | Inf, +Inf, -Inf, NaN; random letter case, single underscores between digits. Expected value from the harness's own digit-by-digit parser; floats validated by a nearest/ties-to-even predicate on exact rationals. Excluded (UNSPEC): float literals above MaxFloat64, leading '+', leading zeros, '.5', '5.', hex floats, 'infinity'",
		Gen:  c05GenLit,
		Check: func(c c05Lit) error {
			skip, err := c05CheckLit(c)
			if skip != "" {
				vs.Excluded(skip)
			}
			return err
		},
		Class: c05LitClass,
		Quick: 15000, Thorough: 200000, FuzzSecs: 45,
	})
	vs.Register(vs.Prop[c05Bad]{
		Name: "C05/nonnumbers",
		Rule: "strings outside every number syntax: a fixed list (empty, lone signs/prefixes, misplaced/double underscores, zero denominators, digits out of base, stray whitespace, words, two signs), valid literals with a foreign character inserted or an underscore not between digits, random words; ParseNum must return nil and `num` must raise an exception",
		Gen:  c05GenBad,
		Check: c05CheckBad,
		Class: func(c c05Bad) (string, bool) {
			h := c.How
			if i := strings.IndexByte(h, ' '); i > 0 {
				h = h[:i]
			}
			return h, true
		},
		Quick: 4000, Thorough: 40000,
	})
}
