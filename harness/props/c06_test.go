package props

// C06 Lists are immutable sequences that behave like arrays at every length.
//
// Oracle: a plain Go slice per version. Two sub-checks:
//   C06/lengths  enumerates every length 0..L, reached by Conj from empty and by
//                Pop from L, and applies every operation at that length;
//   C06/history  random operation histories over a pool of persistent versions,
//                every kept version re-checked against its slice after every step.

import (
	"fmt"

	"pgregory.net/rapid"
	"src.elv.sh/pkg/eval/vals"
	"src.elv.sh/pkg/persistent/vector"
	"verif/vs"
)

// ---- shared comparison helpers ------------------------------------------------

func c06Same(v vector.Vector, m []int, what string) error {
	if v == nil {
		return fmt.Errorf("%s: vector is nil, model has %d elements", what, len(m))
	}
	if v.Len() != len(m) {
		return fmt.Errorf("%s: Len()=%d, model %d", what, v.Len(), len(m))
	}
	for i, want := range m {
		got, ok := v.Index(i)
		if !ok || got != any(want) {
			return fmt.Errorf("%s: Index(%d)=%v,%v want %d", what, i, got, ok, want)
		}
	}
	i := 0
	for it := v.Iterator(); it.HasElem(); it.Next() {
		if i >= len(m) {
			return fmt.Errorf("%s: iterator yields more than %d elements", what, len(m))
		}
		if it.Elem() != any(m[i]) {
			return fmt.Errorf("%s: iterator element %d = %v want %d", what, i, it.Elem(), m[i])
		}
		i++
	}
	if i != len(m) {
		return fmt.Errorf("%s: iterator yields %d elements, want %d", what, i, len(m))
	}
	for _, bad := range []int{-1, len(m), len(m) + 1, -len(m) - 1} {
		if got, ok := v.Index(bad); ok {
			return fmt.Errorf("%s: Index(%d) out of range accepted, gave %v", what, bad, got)
		}
	}
	return nil
}

// c06Sub applies SubVector to both and compares, including rejection.
func c06Sub(v vector.Vector, m []int, i, j int, what string) (vector.Vector, []int, error) {
	got := v.SubVector(i, j)
	valid := 0 <= i && i <= j && j <= len(m)
	if !valid {
		if got != nil {
			return nil, nil, fmt.Errorf("%s: SubVector(%d,%d) of length %d accepted (Len=%d), must be rejected", what, i, j, len(m), got.Len())
		}
		return nil, nil, nil
	}
	if got == nil {
		return nil, nil, fmt.Errorf("%s: SubVector(%d,%d) of length %d rejected", what, i, j, len(m))
	}
	mm := append([]int(nil), m[i:j]...)
	if err := c06Same(got, mm, fmt.Sprintf("%s.SubVector(%d,%d)", what, i, j)); err != nil {
		return nil, nil, err
	}
	return got, mm, nil
}

func c06Assoc(v vector.Vector, m []int, i, val int, what string) (vector.Vector, []int, error) {
	got := v.Assoc(i, val)
	if i < 0 || i > len(m) {
		if got != nil {
			return nil, nil, fmt.Errorf("%s: Assoc(%d) of length %d accepted, must be rejected", what, i, len(m))
		}
		return nil, nil, nil
	}
	if got == nil {
		return nil, nil, fmt.Errorf("%s: Assoc(%d) of length %d rejected", what, i, len(m))
	}
	mm := append([]int(nil), m...)
	if i == len(m) {
		mm = append(mm, val)
	} else {
		mm[i] = val
	}
	return got, mm, nil
}

func c06Pop(v vector.Vector, m []int, what string) (vector.Vector, []int, error) {
	got := v.Pop()
	if len(m) == 0 {
		if got != nil {
			return nil, nil, fmt.Errorf("%s: Pop of empty accepted", what)
		}
		return nil, nil, nil
	}
	if got == nil {
		return nil, nil, fmt.Errorf("%s: Pop of length %d rejected", what, len(m))
	}
	return got, append([]int(nil), m[:len(m)-1]...), nil
}

// boundary positions relevant for a length n
func c06Positions(n int) []int {
	set := map[int]bool{}
	add := func(i int) { set[i] = true }
	for _, i := range []int{-2, -1, 0, 1, 30, 31, 32, 33, 34, 63, 64, 65, 1023, 1024, 1025, 1055, 1056, 1057, 32767, 32768, 32799, 32800, 32801,
		n / 2, n - 33, n - 32, n - 2, n - 1, n, n + 1, n + 2, ((n - 1) / 32) * 32, ((n-1)/32)*32 - 1} {
		add(i)
	}
	var out []int
	for i := range set {
		if i >= -2 && i <= n+2 {
			out = append(out, i)
		}
	}
	// deterministic order
	for i := 1; i < len(out); i++ {
		for j := i; j > 0 && out[j] < out[j-1]; j-- {
			out[j], out[j-1] = out[j-1], out[j]
		}
	}
	return out
}

// ---- C06/lengths --------------------------------------------------------------

type c06Len struct {
	N   int    `json:"n"`
	Dir string `json:"dir"` // "conj": reached by appending from empty; "pop": reached by popping from Top
	Top int    `json:"top"`
}

var c06Memo struct {
	dir string
	top int
	v   vector.Vector
	m   []int
}

func c06Build(c c06Len) (vector.Vector, []int) {
	mm := &c06Memo
	if mm.v != nil && mm.dir == c.Dir && mm.top == c.Top {
		if c.Dir == "conj" && len(mm.m) == c.N-1 {
			mm.v = mm.v.Conj(c.N - 1)
			mm.m = append(mm.m, c.N-1)
			return mm.v, mm.m
		}
		if c.Dir == "pop" && len(mm.m) == c.N+1 {
			mm.v = mm.v.Pop()
			mm.m = mm.m[:c.N]
			return mm.v, mm.m
		}
	}
	v := vector.Empty
	var m []int
	upto := c.N
	if c.Dir == "pop" {
		upto = c.Top
	}
	for i := 0; i < upto; i++ {
		v = v.Conj(i)
		m = append(m, i)
	}
	for len(m) > c.N {
		v = v.Pop()
		m = m[:len(m)-1]
	}
	mm.dir, mm.top, mm.v, mm.m = c.Dir, c.Top, v, m
	return v, m
}

func c06CheckLen(c c06Len) error {
	v, m := c06Build(c)
	if v == nil {
		return fmt.Errorf("building length %d (%s) gave nil", c.N, c.Dir)
	}
	what := fmt.Sprintf("len %d via %s", c.N, c.Dir)
	if err := c06Same(v, m, what); err != nil {
		return err
	}
	n := len(m)
	pos := c06Positions(n)
	for _, i := range pos {
		w, wm, err := c06Assoc(v, m, i, -7, what)
		if err != nil {
			return err
		}
		if w != nil {
			if err := c06Same(w, wm, fmt.Sprintf("%s.Assoc(%d)", what, i)); err != nil {
				return err
			}
		}
	}
	// Conj and Pop results, and that they leave v alone.
	w := v.Conj(-9)
	if err := c06Same(w, append(append([]int(nil), m...), -9), what+".Conj"); err != nil {
		return err
	}
	p, pm, err := c06Pop(v, m, what)
	if err != nil {
		return err
	}
	if p != nil {
		if err := c06Same(p, pm, what+".Pop"); err != nil {
			return err
		}
		// pop then conj: different tail sharing must not disturb anything
		if err := c06Same(p.Conj(-3), append(append([]int(nil), pm...), -3), what+".Pop.Conj"); err != nil {
			return err
		}
	}
	for _, i := range pos {
		for _, j := range pos {
			s, sm, err := c06Sub(v, m, i, j, what)
			if err != nil {
				return err
			}
			if s == nil {
				continue
			}
			// slices of slices at a few positions, including out-of-range ones
			k := len(sm)
			for _, ij := range [][2]int{{0, k}, {0, k + 1}, {-1, k}, {1, k - 1}, {k, k}, {k / 2, k}, {0, k / 2}, {k, k + 1}, {1, 0}} {
				ss, ssm, err := c06Sub(s, sm, ij[0], ij[1], fmt.Sprintf("%s.SubVector(%d,%d)", what, i, j))
				if err != nil {
					return err
				}
				if ss != nil && k < 80 {
					if _, _, err := c06Assoc(ss, ssm, len(ssm)/2, -5, "subsub"); err != nil {
						return err
					}
				}
			}
			if k > 0 && (j == n || i == 0 || k < 40) {
				// operations on the slice
				for _, ai := range []int{-1, 0, k - 1, k, k + 1} {
					a, am, err := c06Assoc(s, sm, ai, -11, fmt.Sprintf("%s.SubVector(%d,%d)", what, i, j))
					if err != nil {
						return err
					}
					if a != nil {
						if err := c06Same(a, am, fmt.Sprintf("%s.SubVector(%d,%d).Assoc(%d)", what, i, j, ai)); err != nil {
							return err
						}
					}
				}
				sp, spm, err := c06Pop(s, sm, "slice")
				if err != nil {
					return err
				}
				if sp != nil {
					if err := c06Same(sp, spm, fmt.Sprintf("%s.SubVector(%d,%d).Pop", what, i, j)); err != nil {
						return err
					}
				}
				if err := c06Same(s.Conj(-13), append(append([]int(nil), sm...), -13), fmt.Sprintf("%s.SubVector(%d,%d).Conj", what, i, j)); err != nil {
					return err
				}
			}
		}
	}
	// v itself must be unchanged by everything above.
	if err := c06Same(v, m, what+" after operations"); err != nil {
		return err
	}
	// The same through the value protocol used by the language.
	if vals.Len(v) != n {
		return fmt.Errorf("%s: vals.Len=%d", what, vals.Len(v))
	}
	for _, i := range pos {
		got, err := vals.Index(v, i)
		if 0 <= i && i < n {
			if err != nil || got != any(m[i]) {
				return fmt.Errorf("%s: vals.Index(%d)=%v,%v want %d", what, i, got, err, m[i])
			}
		} else if i >= n && err == nil {
			return fmt.Errorf("%s: vals.Index(%d) accepted out of range", what, i)
		}
		if i >= 0 && i <= n {
			got, err := vals.Index(v, fmt.Sprintf("%d..", i))
			if err != nil {
				return fmt.Errorf("%s: vals.Index(%d..) error %v", what, i, err)
			}
			if err := c06Same(got.(vector.Vector), m[i:], fmt.Sprintf("%s[%d..]", what, i)); err != nil {
				return err
			}
		}
	}
	cnt := 0
	var iterErr error
	vals.Iterate(v, func(x any) bool {
		if cnt >= n || x != any(m[cnt]) {
			iterErr = fmt.Errorf("%s: vals.Iterate element %d = %v", what, cnt, x)
			return false
		}
		cnt++
		return true
	})
	if iterErr != nil {
		return iterErr
	}
	if cnt != n {
		return fmt.Errorf("%s: vals.Iterate yields %d", what, cnt)
	}
	return nil
}

func c06Boundary(n int) bool {
	r := n % 32
	return r <= 2 || r >= 30 || (n >= 1054 && n <= 1059) || (n >= 32798 && n <= 32803)
}

func init() {
	vs.Register(vs.Prop[c06Len]{
		Name: "C06/lengths",
		Rule: "every length n in 0..1100 (tree heights 0-2; thorough: 0..2200 and 32700..32900, the window where the tree reaches height 3), reached by Conj from empty and by Pop from the top of the range; at each n every operation (Len, Index, iterator, Assoc, Conj, Pop, SubVector, slices of slices, vals.Index/Len/Iterate) at boundary positions incl. out-of-range; a case is one (n, direction); non-trivial = n>=1; class 'boundary' = n within 2 of a tail/leaf/height boundary",
		Enum: func(tier string, yield func(c06Len) bool) {
			ranges := [][2]int{{0, 1100}}
			if tier == "thorough" {
				// all lengths through height 2, and the window around the
				// length where the tree reaches height 3 (32 800)
				ranges = [][2]int{{0, 2200}, {32700, 32900}}
			}
			for _, r := range ranges {
				for n := r[0]; n <= r[1]; n++ {
					if !yield(c06Len{N: n, Dir: "conj"}) {
						return
					}
				}
				for n := r[1]; n >= r[0]; n-- {
					if !yield(c06Len{N: n, Dir: "pop", Top: r[1]}) {
						return
					}
				}
			}
		},
		Check: c06CheckLen,
		Class: func(c c06Len) (string, bool) {
			if c06Boundary(c.N) {
				return c.Dir + "/boundary", c.N >= 1
			}
			return c.Dir + "/interior", c.N >= 1
		},
		Timeout: 0,
	})
}

// ---- C06/history --------------------------------------------------------------

type c06Op struct {
	K   string `json:"k"`   // conj, conjn, pop, popn, assoc, sub, index
	Src int    `json:"src"` // version selector (mod pool size)
	A   int    `json:"a"`   // position selector / count
	B   int    `json:"b"`
}

type c06Hist struct {
	Base int     `json:"base"`
	Ops  []c06Op `json:"ops"`
}

var c06Bases = []int{0, 0, 1, 2, 31, 32, 33, 34, 63, 64, 65, 96, 97, 1023, 1024, 1025, 1055, 1056, 1057, 1058, 1088, 1089}
var c06BasesThorough = []int{32767, 32768, 32799, 32800, 32801, 32802, 32832, 32833}

// position selector -> concrete position for a length n
func c06Pos(sel, n int) int {
	cands := []int{0, n - 1, n, n / 2, 31, 32, 33, n - 32, n - 33, 1024, 1056, -1, n + 1, n + 2, -2, 1, n - 2}
	if sel < 0 {
		sel = -sel
	}
	if sel < len(cands) {
		return cands[sel]
	}
	if n == 0 {
		return 0
	}
	return (sel * 7919) % (n + 1)
}

func c06GenHist(t *rapid.T) c06Hist {
	bases := c06Bases
	if vs.Tier() == "thorough" {
		bases = append(append([]int(nil), c06Bases...), c06BasesThorough...)
	}
	h := c06Hist{Base: rapid.SampledFrom(bases).Draw(t, "base")}
	kinds := []string{"conj", "conj", "conjn", "pop", "pop", "popn", "assoc", "assoc", "sub", "sub", "sub", "index"}
	n := rapid.IntRange(1, 40).Draw(t, "nops")
	for i := 0; i < n; i++ {
		h.Ops = append(h.Ops, c06Op{
			K:   rapid.SampledFrom(kinds).Draw(t, "k"),
			Src: rapid.IntRange(0, 15).Draw(t, "src"),
			A:   rapid.IntRange(0, 40).Draw(t, "a"),
			B:   rapid.IntRange(0, 40).Draw(t, "b"),
		})
	}
	return h
}

type c06Ver struct {
	v     vector.Vector
	m     []int
	slice int // 0 = plain vector, 1 = slice, 2 = slice of slice
}

func c06Run(h c06Hist, info *struct{ cross, subsub bool }) error {
	v := vector.Empty
	var m []int
	for i := 0; i < h.Base; i++ {
		v = v.Conj(i)
		m = append(m, i)
	}
	pool := []c06Ver{{v, m, 0}}
	next := 1 << 20
	heightOf := func(n int) int {
		switch {
		case n <= 32+32:
			return 0
		case n <= 32*32+32:
			return 1
		case n <= 32*32*32+32:
			return 2
		}
		return 3
	}
	for step, op := range h.Ops {
		src := pool[op.Src%len(pool)]
		n := len(src.m)
		what := fmt.Sprintf("step %d %s on version %d (len %d)", step, op.K, op.Src%len(pool), n)
		var nv vector.Vector
		var nm []int
		var err error
		depth := src.slice
		switch op.K {
		case "conj":
			next++
			nv, nm = src.v.Conj(next), append(append([]int(nil), src.m...), next)
		case "conjn":
			nv, nm = src.v, append([]int(nil), src.m...)
			for k := 0; k <= op.A; k++ {
				next++
				nv = nv.Conj(next)
				nm = append(nm, next)
			}
		case "pop":
			nv, nm, err = c06Pop(src.v, src.m, what)
		case "popn":
			nv, nm = src.v, append([]int(nil), src.m...)
			for k := 0; k <= op.A && nv != nil && len(nm) > 0; k++ {
				nv, nm, err = c06Pop(nv, nm, what)
				if err != nil {
					return err
				}
			}
			if len(nm) == 0 && nv == nil {
				nv = nil
			}
		case "assoc":
			next++
			nv, nm, err = c06Assoc(src.v, src.m, c06Pos(op.A, n), next, what)
		case "sub":
			nv, nm, err = c06Sub(src.v, src.m, c06Pos(op.A, n), c06Pos(op.B, n), what)
			if nv != nil {
				depth = src.slice + 1
				if depth >= 2 && info != nil {
					info.subsub = true
				}
			}
		case "index":
			i := c06Pos(op.A, n)
			got, ok := src.v.Index(i)
			if 0 <= i && i < n {
				if !ok || got != any(src.m[i]) {
					return fmt.Errorf("%s: Index(%d)=%v,%v want %d", what, i, got, ok, src.m[i])
				}
			} else if ok {
				return fmt.Errorf("%s: Index(%d) out of range accepted", what, i)
			}
		}
		if err != nil {
			return err
		}
		if nv != nil {
			if info != nil && heightOf(len(nm)) != heightOf(n) {
				info.cross = true
			}
			if len(pool) < 12 {
				pool = append(pool, c06Ver{nv, nm, depth})
			} else {
				pool[1+(step%11)] = c06Ver{nv, nm, depth}
			}
		}
		// every kept version must still equal its model
		for i, ver := range pool {
			if err := c06Same(ver.v, ver.m, fmt.Sprintf("after %s: version %d", what, i)); err != nil {
				return err
			}
		}
	}
	return nil
}

func init() {
	vs.Register(vs.Prop[c06Hist]{
		Name: "C06/history",
		Rule: "random histories (1..40 ops: conj, conj×k, pop, pop×k, assoc, subvector, index; positions from a boundary-biased selector incl. out-of-range) over a pool of ≤12 persistent versions starting from a base length near a tree boundary; all kept versions compared with their Go slices after every step; non-trivial = history crosses a tree-height boundary or takes a slice of a slice",
		Gen:  c06GenHist,
		Check: func(h c06Hist) error {
			return c06Run(h, nil)
		},
		Class: func(h c06Hist) (string, bool) {
			var info struct{ cross, subsub bool }
			c06Run(h, &info)
			switch {
			case info.cross && info.subsub:
				return "cross+subsub", true
			case info.cross:
				return "cross-height", true
			case info.subsub:
				return "slice-of-slice", true
			}
			return "plain", false
		},
		Quick: 300, Thorough: 2000, FuzzSecs: 45,
		Known: []vs.Known[c06Hist]{{Key: "C06:subvector-of-subvector-unchecked", Case: c06Hist{Base: 5, Ops: []c06Op{
			{K: "sub", Src: 0, A: 16, B: 2}, // [1..5]
			{K: "sub", Src: 1, A: 0, B: 13}, // (0, n+2) of the slice: must be rejected
			{K: "sub", Src: 1, A: 11, B: 15}, // (-1, 1)
		}}}},
	})
}
