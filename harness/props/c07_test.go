package props

// C07 Maps are immutable dictionaries, including under hash collisions.
//
// Oracle: a plain Go array id -> value per version (the reference dictionary).
// Keys come from a universe whose 32-bit hashes are chosen by the generator so
// that they share the low 0..32 bits: "fan" groups (17..32 keys below one trie
// node: bitmap node -> array node, and back when drained to <= 8), "coll" groups
// (identical hashes: collision nodes, also below fan nodes), "near" groups (keys
// whose hashes first differ at bit k for every k in 0..31) and the nil key.
//
//   C07/history  hashmap.New(eq, hash) with keys {id,h}; the hash function is the
//                generated table.
//   C07/vals     the same histories on vals.EmptyMap through vals.Assoc / Dissoc /
//                Index / HasKey / Len / IterateKeys / Equal; keys are machine ints
//                a<<32|b (hash 33*a+b, so any hash and any number of full
//                collisions can be produced) and $nil.

import (
	"fmt"
	"sort"
	"strings"

	"pgregory.net/rapid"
	"src.elv.sh/pkg/eval/vals"
	"src.elv.sh/pkg/persistent/hashmap"
	"verif/vs"
)

type c07Op struct {
	K   string `json:"k"`   // fill drain assoc dissoc replace dissocpresent dissocabsent get
	Src int    `json:"src"` // 0 = newest version, s>0 = snapshot (s-1) mod #snapshots
	G   int    `json:"g"`   // group selector (fill, drain)
	A   int    `json:"a"`   // key selector / start offset
	B   int    `json:"b"`   // stride selector / number of keys that remain
}

type c07Case struct {
	Hashes []uint32 `json:"hashes"` // hash of key id i
	Groups [][]int  `json:"groups"` // key ids per group
	Ops    []c07Op  `json:"ops"`
}

const c07Absent = -1 << 60

// c07K is the key type of the raw backend. eq looks only at id, hash only at h.
// Both panic on a nil key: the map must keep the nil key out of the trie.
type c07K struct {
	id int
	h  uint32
}

func c07Eq(a, b any) bool  { return a.(c07K).id == b.(c07K).id }
func c07Hash(k any) uint32 { return k.(c07K).h }

func c07Mask(d int) uint32 {
	if 5*d >= 32 {
		return 0xffffffff
	}
	return 1<<(5*uint(d)) - 1
}

// ---- backends -------------------------------------------------------------------

type c07Backend struct {
	name    string
	empty   func() hashmap.Map
	key     func(c *c07Case, id int) any // id >= 0
	assoc   func(m hashmap.Map, k, v any) (hashmap.Map, error)
	dissoc  func(m hashmap.Map, k any) (hashmap.Map, error)
	index   func(m hashmap.Map, k any) (any, bool, error)
	length  func(m hashmap.Map) int
	iterate func(m hashmap.Map, f func(k, v any) error) error
}

var c07Raw = c07Backend{
	name:   "hashmap",
	empty:  func() hashmap.Map { return hashmap.New(c07Eq, c07Hash) },
	key:    func(c *c07Case, id int) any { return c07K{id, c.Hashes[id]} },
	assoc:  func(m hashmap.Map, k, v any) (hashmap.Map, error) { return m.Assoc(k, v), nil },
	dissoc: func(m hashmap.Map, k any) (hashmap.Map, error) { return m.Dissoc(k), nil },
	index: func(m hashmap.Map, k any) (any, bool, error) {
		v, ok := m.Index(k)
		if ok != hashmap.HasKey(m, k) {
			return v, ok, fmt.Errorf("Index says found=%v, HasKey says %v", ok, !ok)
		}
		return v, ok, nil
	},
	length: func(m hashmap.Map) int { return m.Len() },
	iterate: func(m hashmap.Map, f func(k, v any) error) error {
		for it := m.Iterator(); it.HasElem(); it.Next() {
			k, v := it.Elem()
			if err := f(k, v); err != nil {
				return err
			}
		}
		return nil
	},
}

// c07IntKey gives the ord-th machine int a<<32|b whose hash 33*a+b is Hashes[id].
func c07IntKey(c *c07Case, id int) any {
	h := c.Hashes[id]
	ord := 0
	for j := 0; j < id; j++ {
		if c.Hashes[j] == h {
			ord++
		}
	}
	lo := h - 33*uint32(ord)
	return int(int64(ord)<<32 | int64(lo))
}

var c07Vals = c07Backend{
	name:  "vals",
	empty: func() hashmap.Map { return vals.EmptyMap },
	key:   c07IntKey,
	assoc: func(m hashmap.Map, k, v any) (hashmap.Map, error) {
		r, err := vals.Assoc(m, k, v)
		if err != nil {
			return nil, fmt.Errorf("vals.Assoc error %v", err)
		}
		mm, ok := r.(hashmap.Map)
		if !ok {
			return nil, fmt.Errorf("vals.Assoc returned %T", r)
		}
		return mm, nil
	},
	dissoc: func(m hashmap.Map, k any) (hashmap.Map, error) {
		mm, ok := vals.Dissoc(m, k).(hashmap.Map)
		if !ok {
			return nil, fmt.Errorf("vals.Dissoc did not return a map")
		}
		return mm, nil
	},
	index: func(m hashmap.Map, k any) (any, bool, error) {
		v, err := vals.Index(m, k)
		ok := err == nil
		if ok != vals.HasKey(m, k) {
			return v, ok, fmt.Errorf("vals.Index says found=%v, vals.HasKey says %v", ok, !ok)
		}
		return v, ok, nil
	},
	length: func(m hashmap.Map) int { return vals.Len(m) },
	iterate: func(m hashmap.Map, f func(k, v any) error) error {
		var keys []any
		if err := vals.IterateKeys(m, func(k any) bool { keys = append(keys, k); return true }); err != nil {
			return err
		}
		i := 0
		for it := m.Iterator(); it.HasElem(); it.Next() {
			k, v := it.Elem()
			if i >= len(keys) || keys[i] != k {
				return fmt.Errorf("vals.IterateKeys and Iterator disagree at position %d", i)
			}
			i++
			if err := f(k, v); err != nil {
				return err
			}
		}
		if i != len(keys) {
			return fmt.Errorf("vals.IterateKeys yields %d keys, Iterator %d", len(keys), i)
		}
		return nil
	},
}

// ---- one version and its reference dictionary -----------------------------------

type c07Ver struct {
	m     hashmap.Map
	model []int // slot id+1 (slot 0 = nil key) -> value or c07Absent
	n     int
	arr   map[[2]uint32]bool // trie nodes (depth, prefix) that are array nodes in this lineage
}

type c07Info struct {
	array, pack, coll bool
	packDepth         int
}

func (v *c07Ver) clone() *c07Ver {
	w := &c07Ver{m: v.m, model: append([]int(nil), v.model...), n: v.n, arr: map[[2]uint32]bool{}}
	for k := range v.arr {
		w.arr[k] = true
	}
	return w
}

// c07ChunkStats: number of distinct level-d chunks among the present keys with
// prefix_d(h), and whether a present key other than skip shares prefix_{d+1}(h).
func c07ChunkStats(c *c07Case, v *c07Ver, h uint32, d int, skip int) (distinct int, shared bool) {
	var seen uint32
	md, md1 := c07Mask(d), c07Mask(d+1)
	for id, hh := range c.Hashes {
		if v.model[id+1] == c07Absent || hh&md != h&md {
			continue
		}
		seen |= 1 << ((hh >> (5 * uint(d))) & 31)
		if id != skip && hh&md1 == h&md1 {
			shared = true
		}
	}
	for ; seen != 0; seen &= seen - 1 {
		distinct++
	}
	return
}

// c07TrackAssoc / c07TrackDissoc follow the node transitions described in
// hashmap.go (a bitmap node with 16 entries unpacks on the 17th child; an array
// node packs when a child disappears while it has <= 8) only to classify
// histories, never to judge. v is the version before the operation.
func c07TrackAssoc(c *c07Case, v *c07Ver, id int, info *c07Info) {
	h := c.Hashes[id]
	for d := 0; d <= 6; d++ {
		distinct, shared := c07ChunkStats(c, v, h, d, id)
		if !shared {
			node := [2]uint32{uint32(d), h & c07Mask(d)}
			if !v.arr[node] && distinct >= 16 {
				v.arr[node] = true
				info.array = true
			}
			return
		}
	}
	info.coll = true // all 32 bits shared with another present key
}

func c07TrackDissoc(c *c07Case, v *c07Ver, id int, info *c07Info) {
	h := c.Hashes[id]
	for d := 0; d <= 6; d++ {
		distinct, shared := c07ChunkStats(c, v, h, d, id)
		if !shared {
			node := [2]uint32{uint32(d), h & c07Mask(d)}
			if v.arr[node] && distinct <= 8 {
				delete(v.arr, node)
				info.pack = true
				if d > info.packDepth {
					info.packDepth = d
				}
			}
			return
		}
	}
}

func c07KeyName(c *c07Case, id int) string {
	if id < 0 {
		return "nil"
	}
	return fmt.Sprintf("#%d(hash %08x)", id, c.Hashes[id])
}

// ---- running a history ----------------------------------------------------------

type c07State struct {
	be     *c07Backend // nil: replay only the reference dictionary (classification)
	c      *c07Case
	info   *c07Info
	keyOf  []any       // slot id+1 -> key
	idOf   map[any]int // key -> id (nil key: -1)
	stamp  []int
	gen    int
	recent []*c07Ver // the last 4 versions
	snaps  []*c07Ver // versions at the end of operations
	next   int
}

func (s *c07State) checkIter(v *c07Ver, what string) error {
	be, c := s.be, s.c
	if got := be.length(v.m); got != v.n {
		return fmt.Errorf("%s: Len()=%d, reference dictionary has %d entries", what, got, v.n)
	}
	s.gen++
	cnt := 0
	err := be.iterate(v.m, func(k, val any) error {
		id, ok := s.idOf[k]
		if !ok {
			return fmt.Errorf("%s: iteration yields a key that was never inserted: %v", what, k)
		}
		if s.stamp[id+1] == s.gen {
			return fmt.Errorf("%s: iteration yields key %s twice", what, c07KeyName(c, id))
		}
		s.stamp[id+1] = s.gen
		want := v.model[id+1]
		if want == c07Absent {
			return fmt.Errorf("%s: iteration yields key %s, absent in the reference", what, c07KeyName(c, id))
		}
		if val != any(want) {
			return fmt.Errorf("%s: iteration yields %s=%v, reference has %d", what, c07KeyName(c, id), val, want)
		}
		cnt++
		if cnt > v.n {
			return fmt.Errorf("%s: iteration yields more than %d entries", what, v.n)
		}
		return nil
	})
	if err != nil {
		return err
	}
	if cnt != v.n {
		return fmt.Errorf("%s: iteration yields %d entries, reference has %d", what, cnt, v.n)
	}
	return nil
}

func (s *c07State) checkLookups(v *c07Ver, what string) error {
	for id := -1; id < len(s.c.Hashes); id++ {
		got, ok, err := s.be.index(v.m, s.keyOf[id+1])
		if err != nil {
			return fmt.Errorf("%s: key %s: %v", what, c07KeyName(s.c, id), err)
		}
		want := v.model[id+1]
		if want == c07Absent {
			if ok {
				return fmt.Errorf("%s: lookup of absent key %s found %v", what, c07KeyName(s.c, id), got)
			}
			continue
		}
		if !ok {
			return fmt.Errorf("%s: lookup of present key %s (value %d) found nothing", what, c07KeyName(s.c, id), want)
		}
		if got != any(want) {
			return fmt.Errorf("%s: lookup of key %s gave %v, reference has %d", what, c07KeyName(s.c, id), got, want)
		}
	}
	return nil
}

func (s *c07State) checkKept(what string, full bool) error {
	if s.be == nil {
		return nil
	}
	seen := map[*c07Ver]bool{}
	for li, list := range [][]*c07Ver{s.recent, s.snaps} {
		for i, v := range list {
			if seen[v] {
				continue
			}
			seen[v] = true
			w := fmt.Sprintf("%s: earlier version %d/%d (%d entries)", what, li, i, v.n)
			if err := s.checkIter(v, w); err != nil {
				return err
			}
			if full {
				if err := s.checkLookups(v, w); err != nil {
					return err
				}
			}
		}
	}
	return nil
}

// prim performs one insertion or removal on src and returns the new version.
func (s *c07State) prim(src *c07Ver, del bool, id int, what string) (*c07Ver, error) {
	c := s.c
	nv := src.clone()
	present := src.model[id+1] != c07Absent
	if del {
		what += ": dissoc " + c07KeyName(c, id)
		if id >= 0 && present {
			c07TrackDissoc(c, nv, id, s.info)
		}
		if present {
			nv.model[id+1] = c07Absent
			nv.n--
		}
	} else {
		what += ": assoc " + c07KeyName(c, id)
		if id >= 0 && !present {
			c07TrackAssoc(c, nv, id, s.info)
		}
		s.next++
		if !present {
			nv.n++
		}
		nv.model[id+1] = s.next
	}
	if s.be != nil {
		var err error
		if del {
			nv.m, err = s.be.dissoc(src.m, s.keyOf[id+1])
		} else {
			nv.m, err = s.be.assoc(src.m, s.keyOf[id+1], s.next)
		}
		if err != nil {
			return nil, fmt.Errorf("%s: %v", what, err)
		}
		if nv.m == nil {
			return nil, fmt.Errorf("%s: result is nil", what)
		}
		if err := s.checkIter(nv, what+": result"); err != nil {
			return nil, err
		}
		if err := s.checkLookups(nv, what+": result"); err != nil {
			return nil, err
		}
	}
	s.recent = append(s.recent, nv)
	if len(s.recent) > 4 {
		s.recent = s.recent[1:]
	}
	// earlier versions must be unchanged: size and entries after every step,
	// every lookup as well at the end of each operation
	if err := s.checkKept("after "+what, false); err != nil {
		return nil, err
	}
	return nv, nil
}

func c07Present(v *c07Ver, want bool) []int {
	var ids []int
	for slot, val := range v.model {
		if (val != c07Absent) == want {
			ids = append(ids, slot-1)
		}
	}
	return ids
}

func c07Gcd(a, b int) int {
	for b != 0 {
		a, b = b, a%b
	}
	return a
}

// c07Run replays the history. be == nil replays only the reference dictionary
// and the node-kind tracker (used for classification).
func c07Run(be *c07Backend, c c07Case, info *c07Info) error {
	if len(c.Hashes) == 0 {
		return nil
	}
	if info == nil {
		info = &c07Info{}
	}
	s := &c07State{be: be, c: &c, info: info, idOf: map[any]int{}}
	s.keyOf = make([]any, len(c.Hashes)+1)
	s.stamp = make([]int, len(c.Hashes)+1)
	s.idOf[nil] = -1
	for id := range c.Hashes {
		var k any = id
		if be != nil {
			k = be.key(&c, id)
		}
		if _, dup := s.idOf[k]; dup {
			return fmt.Errorf("harness: duplicate key for id %d", id)
		}
		s.keyOf[id+1] = k
		s.idOf[k] = id
	}
	first := &c07Ver{model: make([]int, len(c.Hashes)+1), arr: map[[2]uint32]bool{}}
	for i := range first.model {
		first.model[i] = c07Absent
	}
	if be != nil {
		first.m = be.empty()
	}
	s.recent = []*c07Ver{first}
	s.snaps = []*c07Ver{first}
	nslots := len(c.Hashes) + 1

	for i, op := range c.Ops {
		src := s.recent[len(s.recent)-1]
		if op.Src > 0 {
			src = s.snaps[(op.Src-1)%len(s.snaps)]
		}
		what := fmt.Sprintf("op %d (%s)", i, op.K)
		v := src
		var err error
		switch op.K {
		case "fill", "fillpart", "drain":
			if len(c.Groups) == 0 {
				continue
			}
			g := c.Groups[op.G%len(c.Groups)]
			m := len(g)
			if m == 0 {
				continue
			}
			if op.K == "fillpart" {
				// only the first few keys of the group, one at a time (so that
				// slices inside nodes are grown step by step and may have spare
				// capacity when a later fork adds to them)
				n := 1 + op.B%m
				for j := 0; j < n && err == nil; j++ {
					v, err = s.prim(v, false, g[(op.A+j)%m], what)
				}
			} else if op.K == "fill" {
				stride := 1 + op.B%m
				for c07Gcd(stride, m) != 1 {
					stride++
				}
				for j := 0; j < m && err == nil; j++ {
					v, err = s.prim(v, false, g[(op.A+j*stride)%m], what)
				}
			} else {
				remain := 0
				for _, id := range g {
					if v.model[id+1] != c07Absent {
						remain++
					}
				}
				keep := op.B % 10
				for j := 0; j < m && remain > keep && err == nil; j++ {
					id := g[(op.A+j)%m]
					if v.model[id+1] == c07Absent {
						continue
					}
					v, err = s.prim(v, true, id, what)
					remain--
				}
			}
		case "fork", "forkdel":
			// two different additions (or removals) applied to the SAME
			// version: neither result may disturb the other or the source
			// (nodes must never share mutable backing storage)
			del := op.K == "forkdel"
			var ids []int
			if len(c.Groups) > 0 {
				for _, id := range c.Groups[op.G%len(c.Groups)] {
					if (src.model[id+1] != c07Absent) == del {
						ids = append(ids, id)
					}
				}
			}
			if len(ids) < 2 {
				ids = c07Present(src, del)
			}
			if len(ids) >= 2 {
				i1 := op.A % len(ids)
				i2 := (i1 + 1 + op.B%(len(ids)-1)) % len(ids)
				var a *c07Ver
				a, err = s.prim(src, del, ids[i1], what)
				if err == nil {
					v, err = s.prim(src, del, ids[i2], what)
				}
				if err == nil && a != src && len(s.snaps) < 8 {
					s.snaps = append(s.snaps, a)
				}
			}
		case "assoc":
			v, err = s.prim(v, false, op.A%nslots-1, what)
		case "dissoc":
			v, err = s.prim(v, true, op.A%nslots-1, what)
		case "replace", "dissocpresent":
			if ids := c07Present(v, true); len(ids) > 0 {
				v, err = s.prim(v, op.K != "replace", ids[op.A%len(ids)], what)
			}
		case "dissocabsent":
			if ids := c07Present(v, false); len(ids) > 0 {
				v, err = s.prim(v, true, ids[op.A%len(ids)], what)
			}
		}
		if err != nil {
			return err
		}
		if v != src {
			if len(s.snaps) < 8 {
				s.snaps = append(s.snaps, v)
			} else {
				s.snaps[1+i%7] = v
			}
		}
		if err := s.checkKept("after "+what, true); err != nil {
			return err
		}
		if be != nil && be.name == "vals" && v.n <= 64 {
			// a map built afresh from the reference dictionary must be Equal
			var fresh hashmap.Map = vals.EmptyMap
			for id := len(c.Hashes) - 1; id >= -1; id-- {
				if v.model[id+1] != c07Absent {
					fresh = fresh.Assoc(s.keyOf[id+1], v.model[id+1])
				}
			}
			if !vals.Equal(v.m, fresh) || !vals.Equal(fresh, v.m) {
				return fmt.Errorf("%s: result is not vals.Equal to a map built afresh from the reference dictionary (%d entries)", what, v.n)
			}
		}
	}
	return nil
}

// ---- generator ------------------------------------------------------------------

func c07Range(n int) []int {
	out := make([]int, n)
	for i := range out {
		out[i] = i
	}
	return out
}

func c07Gen(t *rapid.T) c07Case {
	var c c07Case
	nb := rapid.IntRange(1, 2).Draw(t, "nbases")
	bases := make([]uint32, nb)
	for i := range bases {
		bases[i] = rapid.Uint32().Draw(t, "base")
	}
	add := func(h uint32) int {
		c.Hashes = append(c.Hashes, h)
		return len(c.Hashes) - 1
	}
	ng := rapid.IntRange(1, 5).Draw(t, "ngroups")
	kinds := []string{"fan", "fan", "fan", "coll", "coll", "near", "rand"}
	for gi := 0; gi < ng && len(c.Hashes) < 110; gi++ {
		base := bases[rapid.IntRange(0, nb-1).Draw(t, "whichbase")]
		kind := rapid.SampledFrom(kinds).Draw(t, "gkind")
		if gi == 0 {
			kind = "fan"
		}
		var g []int
		switch kind {
		case "fan":
			d := rapid.SampledFrom([]int{0, 0, 1, 1, 2, 3, 4, 5, 6}).Draw(t, "depth")
			maxc, m := 32, 4
			if d == 6 {
				maxc = 4 // only bits 30..31 are left
			} else {
				m = rapid.IntRange(17, 32).Draw(t, "fanout")
			}
			perm := rapid.Permutation(c07Range(maxc)).Draw(t, "chunks")
			hiMode := rapid.IntRange(0, 2).Draw(t, "himode")
			for j := 0; j < m; j++ {
				h := base&c07Mask(d) | uint32(perm[j])<<(5*uint(d))
				if d < 6 {
					switch hiMode {
					case 0: // high bits follow the base: groups of the same base nest
						h |= base &^ c07Mask(d+1)
					case 1:
						h |= rapid.Uint32().Draw(t, "hi") &^ c07Mask(d+1)
					}
				}
				g = append(g, add(h))
			}
		case "coll":
			// identical hashes; with "under", the hash of an earlier key, so that
			// the collision node sits below an existing (array) node
			h := base
			if len(c.Hashes) > 0 && rapid.Bool().Draw(t, "under") {
				h = c.Hashes[rapid.IntRange(0, len(c.Hashes)-1).Draw(t, "like")]
			}
			m := rapid.IntRange(2, 9).Draw(t, "ncoll")
			for j := 0; j < m; j++ {
				g = append(g, add(h))
			}
			// siblings that reach the collision node with a different hash
			for j := rapid.IntRange(0, 3).Draw(t, "nsib"); j > 0; j-- {
				g = append(g, add(h^1<<uint(rapid.SampledFrom([]int{5, 9, 10, 14, 15, 20, 24, 25, 29, 30, 31}).Draw(t, "sibbit"))))
			}
		case "near":
			// hashes that agree with the base on exactly the low k bits
			m := rapid.IntRange(2, 8).Draw(t, "nnear")
			g = append(g, add(base))
			for j := 0; j < m; j++ {
				k := rapid.IntRange(0, 31).Draw(t, "k")
				h := base ^ 1<<uint(k)
				if k < 31 && rapid.Bool().Draw(t, "scramble") {
					h ^= rapid.Uint32().Draw(t, "hi") &^ (1<<uint(k+1) - 1)
				}
				g = append(g, add(h))
			}
		default:
			m := rapid.IntRange(1, 12).Draw(t, "nrand")
			for j := 0; j < m; j++ {
				g = append(g, add(rapid.Uint32().Draw(t, "h")))
			}
		}
		c.Groups = append(c.Groups, g)
	}
	nops := rapid.IntRange(2, 14).Draw(t, "nops")
	opk := []string{"fill", "fill", "fill", "drain", "drain", "drain", "drain", "assoc", "assoc", "replace", "dissocpresent", "dissocabsent", "dissoc", "fork", "fork", "forkdel", "fillpart", "fillpart"}
	for i := 0; i < nops; i++ {
		op := c07Op{
			K:   rapid.SampledFrom(opk).Draw(t, "op"),
			Src: rapid.SampledFrom([]int{0, 0, 0, 0, 0, 0, 1, 2, 3, 5, 8}).Draw(t, "src"),
			G:   rapid.IntRange(0, 4).Draw(t, "g"),
			A:   rapid.IntRange(0, 120).Draw(t, "a"),
			B:   rapid.IntRange(0, 40).Draw(t, "b"),
		}
		if i == 0 {
			op.K, op.G = "fill", 0
		}
		if (op.K == "assoc" || op.K == "dissoc") && rapid.IntRange(0, 3).Draw(t, "nilkey") == 0 {
			op.A = 0 // slot 0: the nil key
		}
		c.Ops = append(c.Ops, op)
	}
	return c
}

func c07Class(c c07Case) (string, bool) {
	var info c07Info
	c07Run(nil, c, &info)
	var parts []string
	if info.pack {
		switch {
		case info.packDepth == 0:
			parts = append(parts, "pack@0")
		case info.packDepth <= 2:
			parts = append(parts, "pack@1-2")
		default:
			parts = append(parts, "pack@3-5")
		}
	} else if info.array {
		parts = append(parts, "array")
	}
	if info.coll {
		parts = append(parts, "coll")
	}
	for _, op := range c.Ops {
		if (op.K == "assoc" || op.K == "dissoc") && len(c.Hashes) > 0 && op.A%(len(c.Hashes)+1) == 0 {
			parts = append(parts, "nil")
			break
		}
	}
	if len(parts) == 0 {
		return "plain", false
	}
	sort.Strings(parts)
	return strings.Join(parts, "+"), info.pack || info.coll
}

const c07Rule = "histories of 2..14 operations (fill a key group in a strided order, drain a group down to 0..9 keys, assoc, replace a present key, dissoc of a present / absent / arbitrary key) on a universe of <=~110 keys with generated hashes: fan groups of 17..32 keys below one trie node at depth 0..5 (4 at depth 6), groups of 2..5 fully colliding keys (also below fan nodes), keys agreeing with a base hash on exactly the low k bits for k in 0..31, random hashes, and the nil key; each operation starts from the newest or an older kept version; after every single insertion/removal the result is compared entry by entry (iteration: each entry exactly once, Len exact) and lookup by lookup (every key of the universe, present or absent) with the reference dictionary, and all kept versions (last 4 + up to 8 snapshots) are re-iterated, with all lookups repeated at the end of each operation; non-trivial = an array node is packed back into a bitmap node or a full-hash collision exists (computed from the hashes)"

func init() {
	vs.Register(vs.Prop[c07Case]{
		Name: "C07/history", Rule: "hashmap.New(eq, hash) with the generated hash table; " + c07Rule,
		Gen:   c07Gen,
		Check: func(c c07Case) error { return c07Run(&c07Raw, c, nil) },
		Class: c07Class,
		Quick: 1000, Thorough: 15000,
	})
	vs.Register(vs.Prop[c07Case]{
		Name: "C07/vals", Rule: "vals.EmptyMap with machine-int keys a<<32|b (hash 33a+b) and $nil through vals.Assoc/Dissoc/Index/HasKey/Len/IterateKeys/Equal; " + c07Rule,
		Gen:   c07Gen,
		Check: func(c c07Case) error { return c07Run(&c07Vals, c, nil) },
		Class: c07Class,
		Quick: 400, Thorough: 6000,
	})
}
