package props

// C08 Values that are eq are the same map key.
//
// One sub-check, C08/pairs. A case describes how to build two values a and b
// that the documentation says are eq but that are constructed differently, a
// map size and a filler seed. The oracle builds a map that holds a, the 32
// "hash neighbours" of a (machine ints in [0,2^32) hash to themselves, so the
// key int(Hash(a) xor 1<<k) shares every hash bit with a except bit k and forces
// the trie to separate them at the level that uses bit k) and N other entries,
// and requires, whenever eq(a,b) holds:
//   Hash(a) == Hash(b); b is found and indexes a's value; assoc of b replaces
//   (Len unchanged, a's value changed); dissoc of b removes a; no map built on
//   the way holds two keys that are eq to each other; the same with the roles
//   of a and b swapped and through the builtins has-key / index / assoc / dissoc.

import (
	"fmt"
	"math"
	"os"
	"sync"

	"pgregory.net/rapid"
	"src.elv.sh/pkg/cli"
	"src.elv.sh/pkg/edit"
	"src.elv.sh/pkg/eval"
	"src.elv.sh/pkg/eval/vals"
	"src.elv.sh/pkg/eval/vars"
	"src.elv.sh/pkg/parse"
	"src.elv.sh/pkg/persistent/hashmap"
	"src.elv.sh/pkg/ui"
	"verif/elv"
	"verif/gen"
	"verif/vs"
)

type c08Case struct {
	Kind string `json:"kind"` // src | data | fieldmap | key
	// src: Elvish code that outputs the two values.
	Src string `json:"src,omitempty"`
	// data: a mirror and how the second build differs.
	V    gen.V  `json:"v,omitempty"`
	Mode string `json:"mode,omitempty"` // rebuild | reparse | zeroflip
	// key: two key spellings for ui.ParseKey
	KeyA string `json:"keya,omitempty"`
	KeyB string `json:"keyb,omitempty"`
	// Wrap puts both values into the same container shape.
	Wrap string `json:"wrap,omitempty"` // "" | list | mapval | mapkey | nested
	N     int    `json:"n"`     // number of filler entries
	Seed  uint64 `json:"seed"`  // filler seed
	Order int    `json:"order"` // 0: a first; 1: a last; 2: a in the middle
}

var (
	c08Once sync.Once
	c08Ev   *eval.Evaler
)

func c08Evaler() *eval.Evaler {
	c08Once.Do(func() {
		c08Ev = elv.New()
		// the edit: module gives access to edit:key and edit:complex-candidate values
		devnull, err := os.OpenFile(os.DevNull, os.O_RDWR, 0)
		if err == nil {
			ed := edit.NewEditor(cli.NewTTY(devnull, devnull), c08Ev, nil)
			c08Ev.ExtendBuiltin(eval.BuildNs().AddNs("edit", ed))
		}
	})
	return c08Ev
}

func c08EvalValues(code string, ns *eval.Ns) ([]any, error) {
	ch := make(chan any, 64)
	var out []any
	done := make(chan struct{})
	go func() {
		for v := range ch {
			out = append(out, v)
		}
		close(done)
	}()
	err := c08Evaler().Eval(parse.Source{Name: "[verif]", Code: code},
		eval.EvalCfg{Ports: []*eval.Port{nil, {File: eval.DevNull, Chan: ch}, nil}, Global: ns})
	close(ch)
	<-done
	return out, err
}

// c08FM is a field map: Elvish sees it as a map with keys foo and bar-baz.
type c08FM struct {
	Foo    string
	BarBaz any
}

// ---- small mirror helpers ------------------------------------------------------------

func c08Str(s string) gen.V { return gen.V{K: "str", S: vs.B(s)} }

func c08MapOf(kvs ...gen.V) gen.V {
	out := gen.V{K: "map"}
	seen := map[string]bool{}
	for i := 0; i+1 < len(kvs); i += 2 {
		c := kvs[i].Canon()
		if seen[c] || kvs[i].HasNaN() {
			continue
		}
		seen[c] = true
		out.M = append(out.M, gen.KV{Key: kvs[i], Val: kvs[i+1]})
	}
	return out
}

// c08CollidingKey maps the strings inside k to strings with the same DJB hash
// (last two bytes (c1,c2) -> (c1+1,c2-33)); the result hashes like k.
func c08CollidingKey(k gen.V) gen.V {
	out := k
	switch k.K {
	case "str":
		b := []byte(k.S)
		if i := len(b) - 2; i >= 0 {
			if b[i] < 0xff && b[i+1] >= 33 {
				b[i]++
				b[i+1] -= 33
				out.S = vs.B(b)
			} else if b[i] > 0 && b[i+1] <= 255-33 {
				b[i]--
				b[i+1] += 33
				out.S = vs.B(b)
			}
		}
	case "list":
		out.L = nil
		for _, e := range k.L {
			out.L = append(out.L, c08CollidingKey(e))
		}
	case "map":
		out.M = nil
		seen := map[string]bool{}
		for _, kv := range k.M {
			nk := c08CollidingKey(kv.Key)
			if seen[nk.Canon()] {
				nk = kv.Key
			}
			seen[nk.Canon()] = true
			out.M = append(out.M, gen.KV{Key: nk, Val: kv.Val})
		}
	}
	return out
}

// ---- building the pair ----------------------------------------------------------

// c08Rebuild builds v again in a different way: lists as a slice of a longer
// list grown and popped, maps in reverse insertion order with junk (including
// hash-colliding) keys inserted and removed.
func c08Rebuild(v gen.V) any {
	switch v.K {
	case "list":
		l := vals.EmptyList.Conj("junk-front")
		for _, e := range v.L {
			l = l.Conj(c08Rebuild(e))
		}
		l = l.Conj("junk-back").Conj("junk-back2").Pop()
		return l.SubVector(1, 1+len(v.L))
	case "map":
		real := map[string]bool{}
		for _, kv := range v.M {
			real[kv.Key.Canon()] = true
		}
		var m hashmap.Map = vals.EmptyMap
		var junk []any
		for i := len(v.M) - 1; i >= 0; i-- {
			kv := v.M[i]
			if ck := c08CollidingKey(kv.Key); !real[ck.Canon()] {
				real[ck.Canon()] = true
				j := ck.Elvish()
				junk = append(junk, j)
				m = m.Assoc(j, "junk")
			}
			m = m.Assoc(c08Rebuild(kv.Key), "overwritten")
			m = m.Assoc(c08Rebuild(kv.Key), c08Rebuild(kv.Val))
		}
		for _, j := range junk {
			m = m.Dissoc(j)
		}
		return m
	}
	return v.Elvish()
}

// c08ZeroFlip is v with the sign of every floating-point zero flipped.
func c08ZeroFlip(v gen.V) gen.V {
	out := v
	switch v.K {
	case "num":
		if v.N.IsFloat() && v.N.Float() == 0 {
			n := gen.FloatNum(0)
			if !math.Signbit(v.N.Float()) {
				n = gen.FloatNum(math.Copysign(0, -1))
			}
			out.N = &n
		}
	case "list":
		out.L = nil
		for _, e := range v.L {
			out.L = append(out.L, c08ZeroFlip(e))
		}
	case "map":
		out.M = nil
		for _, kv := range v.M {
			out.M = append(out.M, gen.KV{Key: c08ZeroFlip(kv.Key), Val: c08ZeroFlip(kv.Val)})
		}
	}
	return out
}

func c08Wrap(x any, wrap string) any {
	switch wrap {
	case "list":
		return vals.MakeList("head", x)
	case "mapval":
		return vals.MakeMap("k", x, "other", "v")
	case "mapkey":
		return vals.MakeMap(x, "v", "other", "w")
	case "nested":
		return vals.MakeList(vals.MakeMap(vals.MakeList(x), vals.MakeList(x, x)))
	}
	return x
}

// c08Build returns a, b and a short description.
func c08Build(c c08Case) (a, b any, desc string, err error) {
	switch c.Kind {
	case "src":
		vs2, err := c08EvalValues(c.Src, nil)
		if err != nil {
			return nil, nil, "", fmt.Errorf("harness: %q failed: %v", c.Src, err)
		}
		if len(vs2) != 2 {
			return nil, nil, "", fmt.Errorf("harness: %q output %d values", c.Src, len(vs2))
		}
		a, b, desc = vs2[0], vs2[1], c.Src
	case "data":
		a = c.V.Elvish()
		switch c.Mode {
		case "rebuild":
			b = c08Rebuild(c.V)
		case "zeroflip":
			b = c08Rebuild(c08ZeroFlip(c.V))
		default: // reparse: evaluate the printed form
			vs2, err := c08EvalValues("put "+vals.ReprPlain(a), nil)
			if err != nil || len(vs2) != 1 {
				return nil, nil, "", fmt.Errorf("harness: cannot evaluate repr %q: %v", vals.ReprPlain(a), err)
			}
			b = vs2[0]
		}
		desc = c.Mode + " of " + vals.ReprPlain(a)
	case "fieldmap":
		val := c.V.Elvish()
		fm := c08FM{Foo: c.KeyA, BarBaz: val}
		switch c.Mode {
		case "map-first":
			a, b = vals.MakeMap("bar-baz", c08Rebuild(c.V), "foo", c.KeyA), fm
		case "struct-struct":
			a, b = fm, c08FM{Foo: c.KeyA + "", BarBaz: c08Rebuild(c.V)}
		default:
			a, b = fm, vals.MakeMap("foo", c.KeyA, "bar-baz", c08Rebuild(c.V))
		}
		desc = "field map / map " + vals.ReprPlain(a)
	case "key":
		ka, err := ui.ParseKey(c.KeyA)
		if err != nil {
			return nil, nil, "", fmt.Errorf("harness: ParseKey(%q): %v", c.KeyA, err)
		}
		var kb ui.Key
		if c.KeyB == "" {
			kb = ui.K(ka.Rune, ka.Mod)
		} else if kb, err = ui.ParseKey(c.KeyB); err != nil {
			return nil, nil, "", fmt.Errorf("harness: ParseKey(%q): %v", c.KeyB, err)
		}
		a, b, desc = ka, kb, fmt.Sprintf("keys %q %q", c.KeyA, c.KeyB)
	default:
		return nil, nil, "", fmt.Errorf("harness: unknown kind %q", c.Kind)
	}
	return c08Wrap(a, c.Wrap), c08Wrap(b, c.Wrap), desc, nil
}

// ---- fillers -----------------------------------------------------------------------

type c08Rng struct{ s uint64 }

func (r *c08Rng) next() uint64 { // splitmix64
	r.s += 0x9e3779b97f4a7c15
	z := r.s
	z = (z ^ (z >> 30)) * 0xbf58476d1ce4e5b9
	z = (z ^ (z >> 27)) * 0x94d049bb133111eb
	return z ^ (z >> 31)
}

// c08Filler returns the i-th filler key: never eq to a data value the generator
// can produce as a or b (strings carry the prefix "\x01f", lists start with it,
// ints have bit 44 set and floats are 2^80 + ...; generated numbers stay below
// 2^44 or are from fixed lists checked against in Check).
func c08Filler(r *c08Rng, i int) any {
	x := r.next()
	switch x % 10 {
	case 0, 1:
		return fmt.Sprintf("\x01f%d-%x", i, x>>40)
	case 2:
		return vals.MakeList("\x01f", int(x>>40))
	case 3:
		return math.Ldexp(1, 80) * float64(1+(x>>12)%(1<<40))
	default:
		// machine int with a random low word: the hash is 33*hi + lo, i.e. spread over all trie positions
		return int(1<<44 | (x>>20)&0xffffffff | ((x>>8)&0x3)<<32)
	}
}

// ---- the oracle --------------------------------------------------------------------------

func c08CountEq(m vals.Map, k any) (int, error) {
	n, total := 0, 0
	for it := m.Iterator(); it.HasElem(); it.Next() {
		key, _ := it.Elem()
		total++
		if vals.Equal(key, k) {
			n++
		}
	}
	if total != m.Len() {
		return n, fmt.Errorf("map iterates %d entries but Len()=%d", total, m.Len())
	}
	return n, nil
}

func c08Check(c c08Case) error {
	a, b, desc, err := c08Build(c)
	if err != nil {
		return err
	}
	if !vals.Equal(a, b) {
		return nil // precondition of the property not met (counted by Class as "not-eq")
	}
	ctx := fmt.Sprintf("a, b = %s (a=%s b=%s), wrap %q", c08Clip(desc, 300), c08Clip(vals.ReprPlain(a), 200), c08Clip(vals.ReprPlain(b), 200), c.Wrap)
	ha, hb := vals.Hash(a), vals.Hash(b)
	if ha != hb {
		return fmt.Errorf("eq values must hash identically: Hash(a)=%#x Hash(b)=%#x; %s", ha, hb, ctx)
	}
	if !vals.Equal(b, a) {
		return fmt.Errorf("eq(a,b) but not eq(b,a), so the two cannot be one map key: %s", ctx)
	}
	// The map: a, the 32 hash neighbours, N fillers; a is inserted first, last or in the middle.
	var keys []any
	for k := 0; k < 32; k++ {
		keys = append(keys, int(ha^(1<<uint(k))))
	}
	// keys whose hash is exactly Hash(a): ints hi<<32|lo hash to 33*hi+lo, so
	// the key under test sits in a collision node with up to 3 others
	// (verified with vals.Hash; if the int hash ever changes they are just fillers)
	var colliders []any
	for hi := 1; hi <= 3; hi++ {
		k := int(uint64(hi)<<32 | uint64(ha-uint32(33*hi)))
		if vals.Hash(k) == ha && !vals.Equal(k, a) {
			colliders = append(colliders, k)
			keys = append(keys, k)
		}
	}
	rng := &c08Rng{s: c.Seed}
	for i := 0; i < c.N; i++ {
		keys = append(keys, c08Filler(rng, i))
	}
	// deterministic shuffle of neighbours and fillers
	for i := len(keys) - 1; i > 0; i-- {
		j := int(rng.next() % uint64(i+1))
		keys[i], keys[j] = keys[j], keys[i]
	}
	pos := 0
	switch c.Order {
	case 1:
		pos = len(keys)
	case 2:
		pos = len(keys) / 2
	}
	build := func(first any) (vals.Map, int, error) {
		var m vals.Map = vals.EmptyMap
		want := 0
		ins := func(k, v any) error {
			had := m.Len()
			_, present := m.Index(k)
			m = m.Assoc(k, v)
			if !present {
				want++
			}
			if m.Len() != want {
				return fmt.Errorf("after inserting key %s (present before: %v) Len went from %d to %d, expected %d", vals.ReprPlain(k), present, had, m.Len(), want)
			}
			return nil
		}
		for i, k := range keys {
			if i == pos {
				if err := ins(first, "A"); err != nil {
					return nil, 0, err
				}
			}
			if vals.Equal(k, a) || vals.Equal(k, b) {
				continue // cannot happen by construction; never let a filler stand in for the key under test
			}
			if err := ins(k, i); err != nil {
				return nil, 0, err
			}
		}
		if pos >= len(keys) {
			if err := ins(first, "A"); err != nil {
				return nil, 0, err
			}
		}
		return m, want, nil
	}
	var base vals.Map
	baseSize := 0
	for round, xy := range [][2]any{{a, b}, {b, a}} {
		x, y := xy[0], xy[1]
		who := "map holds a, looked up with b"
		if round == 1 {
			who = "map holds b, looked up with a"
		}
		var m vals.Map
		var size int
		if round == 0 || c.N <= 40 {
			if m, size, err = build(x); err != nil {
				return fmt.Errorf("%s: %v; %s", who, err, ctx)
			}
			base, baseSize = m, size
		} else {
			// large maps are not built twice: take a out of the first map and put b in
			m, size = base.Dissoc(a).Assoc(b, "A"), baseSize
			if m.Len() != size {
				return fmt.Errorf("%s: dissoc a then assoc b changes Len from %d to %d; %s", who, size, m.Len(), ctx)
			}
		}
		where := fmt.Sprintf("%s (map of %d entries: the key, 32 hash neighbours, up to 3 fully colliding ints, %d fillers; key inserted at position %d)", who, size, c.N, pos)
		if got, ok := m.Index(x); !ok || got != "A" {
			return fmt.Errorf("%s: the key itself is not found (%v, %v); %s", where, got, ok, ctx)
		}
		if got, ok := m.Index(y); !ok || got != "A" {
			return fmt.Errorf("%s: eq key must be found with the same value: Index = (%v, %v), want (A, true); %s", where, got, ok, ctx)
		}
		if !vals.HasKey(m, y) {
			return fmt.Errorf("%s: vals.HasKey false for an eq key; %s", where, ctx)
		}
		if got, err := vals.Index(m, y); err != nil || got != "A" {
			return fmt.Errorf("%s: vals.Index = (%v, %v), want A; %s", where, got, err, ctx)
		}
		m1 := m.Assoc(y, "B")
		if m1.Len() != size {
			return fmt.Errorf("%s: assoc of an eq key must replace: Len %d -> %d; %s", where, size, m1.Len(), ctx)
		}
		if got, ok := m1.Index(x); !ok || got != "B" {
			return fmt.Errorf("%s: after assoc of the eq key the original key indexes (%v, %v), want (B, true); %s", where, got, ok, ctx)
		}
		for _, mm := range []vals.Map{m, m1} {
			n, err := c08CountEq(mm, x)
			if err != nil {
				return fmt.Errorf("%s: %v; %s", where, err, ctx)
			}
			if n != 1 {
				return fmt.Errorf("%s: the map holds %d keys eq to the key, want exactly 1; %s", where, n, ctx)
			}
		}
		m2 := m.Dissoc(y)
		if m2.Len() != size-1 {
			return fmt.Errorf("%s: dissoc of an eq key must remove the entry: Len %d -> %d; %s", where, size, m2.Len(), ctx)
		}
		if _, ok := m2.Index(x); ok {
			return fmt.Errorf("%s: after dissoc of the eq key the original key is still found; %s", where, ctx)
		}
		if n, _ := c08CountEq(m2, x); n != 0 {
			return fmt.Errorf("%s: after dissoc the map still holds %d keys eq to the key; %s", where, n, ctx)
		}
		// assoc and dissoc of the eq key must not have disturbed the map they were applied to
		if m.Len() != size {
			return fmt.Errorf("%s: the original map's Len changed from %d to %d after assoc/dissoc of the eq key on it; %s", where, size, m.Len(), ctx)
		}
		if got, ok := m.Index(x); !ok || got != "A" {
			return fmt.Errorf("%s: the original map lost or changed the key (%v, %v) after assoc/dissoc of the eq key produced new maps; %s", where, got, ok, ctx)
		}
		if n, _ := c08CountEq(m, x); n != 1 {
			return fmt.Errorf("%s: the original map holds %d keys eq to the key after assoc/dissoc produced new maps, want 1; %s", where, n, ctx)
		}
		for _, ck := range colliders {
			for mi, mm := range []vals.Map{m, m1, m2} {
				if _, ok := mm.Index(ck); !ok {
					return fmt.Errorf("%s: fully colliding key %v lost (map %d of original/assoc/dissoc); %s", where, ck, mi, ctx)
				}
				if n, _ := c08CountEq(mm, ck); n != 1 {
					return fmt.Errorf("%s: fully colliding key %v occurs %d times (map %d of original/assoc/dissoc); %s", where, ck, n, mi, ctx)
				}
			}
		}
		// neighbours must all still be there and distinct from the key
		for k := 0; k < 32; k++ {
			nb := int(ha ^ (1 << uint(k)))
			if _, ok := m1.Index(nb); !ok {
				return fmt.Errorf("%s: hash neighbour %d (bit %d) lost after assoc of the eq key; %s", where, nb, k, ctx)
			}
			if _, ok := m2.Index(nb); !ok {
				return fmt.Errorf("%s: hash neighbour %d (bit %d) lost after dissoc of the eq key; %s", where, nb, k, ctx)
			}
		}
		if round == 0 {
			// the same through the builtins
			ns := eval.BuildNs().AddVar("m", vars.NewReadOnly(m)).AddVar("x", vars.NewReadOnly(x)).AddVar("y", vars.NewReadOnly(y)).Ns()
			out, err := c08EvalValues(`eq $x $y; has-key $m $y; put $m[$y]; var m1 = (assoc $m $y B); count $m1; put $m1[$x]; var m2 = (dissoc $m $y); count $m2; has-key $m2 $x`, ns)
			if err != nil {
				return fmt.Errorf("%s: builtins failed: %v; %s", where, err, ctx)
			}
			want := []any{true, true, "A", size, "B", size - 1, false}
			if len(out) != len(want) {
				return fmt.Errorf("%s: builtins output %s; %s", where, elv.Reprs(out), ctx)
			}
			names := []string{"eq $x $y", "has-key $m $y", "$m[$y]", "count (assoc $m $y B)", "(assoc $m $y B)[$x]", "count (dissoc $m $y)", "has-key (dissoc $m $y) $x"}
			for i := range want {
				if out[i] != want[i] {
					return fmt.Errorf("%s: builtin %s = %v, want %v; %s", where, names[i], out[i], want[i], ctx)
				}
			}
		}
	}
	return nil
}

func c08Clip(s string, n int) string {
	if len(s) > n {
		return s[:n] + "…"
	}
	return s
}

// ---- generator -----------------------------------------------------------------------------

var c08Sources = []string{
	// functions, namespaces, exceptions by identity
	`put $put~ $put~`,
	`var f = {|x| put $x }; put $f $f`,
	`var n = (ns [&a=1]); put $n $n`,
	`var e = ?(fail x); put $e $e`,
	`put $ok $ok`,
	`put (external ls) $e:ls~`,
	`put (external a/b) (external a/b)`,
	// editor values
	`put (edit:key Ctrl-a) (edit:key Ctrl-A)`,
	`put (edit:key Tab) (edit:key Ctrl-I)`,
	`put (edit:key "\t") (edit:key Tab)`,
	`put (edit:key Alt-x) (edit:key Alt+x)`,
	`put (edit:complex-candidate stem &code-suffix=x &display=d) (edit:complex-candidate stem &code-suffix=x &display=(styled d))`,
	`put (edit:complex-candidate ab) (edit:complex-candidate ab &code-suffix='' &display=(styled ''))`,
	`put (styled a red) (styled a red)`,
	`put (styled-segment a &bold) (styled-segment a &bold)`,
	// numbers from different operations
	`put (num 0.0) (num -0.0)`,
	`put (num -0.0) (* -1 (num 0.0))`,
	`put (+ 0.1 0.2) (num 0.30000000000000004)`,
	`put (/ 1 3) (num 2/6)`,
	`put (/ 6 3) (num 2)`,
	`put (* 4294967296 4294967296) (num 18446744073709551616)`,
	`put (exact-num 0.5) (num 1/2)`,
	`put (- 9223372036854775808 1) (num 9223372036854775807)`,
	`put (+ 9223372036854775807 1) (num 9223372036854775808)`,
	`put (- 0 9223372036854775808) (num -9223372036854775808)`,
	`put (- (* 4294967296 4294967296) (* 4294967296 4294967296)) (num 0)`,
	`put (+ 1/3 2/3) (num 1)`,
	`put (* 1/3 3/7) (num 1/7)`,
	`put (/ 18446744073709551616 36893488147419103232) (num 1/2)`,
	`put (+ 36893488147419103232/3 1/3) (/ 36893488147419103233 3)`,
	`put (inexact-num 1/2) (num 0.5)`,
	`put (num 1e3) (num 1000.0)`,
	`put (num 0x10) (num 16)`,
	`put (- (num Inf)) (num -Inf)`,
	`put (+ 4294967295 1) (num 4294967296)`,
	`put (- 0 1) (num -1)`,
	`put (num 1_000) (* 10 100)`,
	// lists and maps built differently
	`put [a b c] [x a b c y][1..4]`,
	`put [a b] [(put a b)]`,
	`put [a b c] (conj [a] b c)`,
	`put [] [a][1..]`,
	`put [&a=1 &b=2] (assoc [&b=2] a 1)`,
	`put (dissoc [&a=1 &b=2] b) [&a=1]`,
	`put [&] (dissoc [&a=1] a)`,
	`put (make-map [[a 1] [b 2]]) [&b=2 &a=1]`,
	`put [&ab=1 &bA=2] [&bA=2 &ab=1]`,
	`put [&[&ab=x]=1 &[&bA=x]=2] [&[&bA=x]=2 &[&ab=x]=1]`,
	`put [&k=(num 0.0)] [&k=(num -0.0)]`,
	`put [(num -0.0)] [(num 0.0)]`,
	`put [&(num 0.0)=v] [&(num -0.0)=v]`,
	`put [&[(num 0.0)]=v &x=[&(num -0.0)=(num 0.0)]] [&x=[&(num 0.0)=(num -0.0)] &[(num -0.0)]=v]`,
	`put [(num 1) (num 1.0) (num 1/2)] [(+ 0 1) (+ 0.5 0.5) (/ 2 4)]`,
	// strings
	`put abc a''bc`,
	`put "" ''`,
	`put "\xff\x00" "\xff"''"\x00"`,
	`put $nil $nil`,
	`put $true (eq a a)`,
}

// near misses: documented as NOT eq. The property is conditional on what eq
// reports, so these are vacuous unless eq is looser than documented - and then
// the two values must still be one map key.
var c08NearMisses = []string{
	`put (num 1) (num 1.0)`,
	`put (num 0) (num 0.0)`,
	`put (num 0) (num -0.0)`,
	`put 1 (num 1)`,
	`put 1.0 (num 1.0)`,
	`put (num 1/2) (num 0.5)`,
	`put (num 18446744073709551616) (num 18446744073709551616.0)`,
	`put (num 9007199254740993) (num 9007199254740992.0)`,
	`put [(num 1)] [(num 1.0)]`,
	`put [&a=(num 1)] [&a=(num 1.0)]`,
	`put [&(num 1)=a] [&(num 1.0)=a]`,
	`put a A`,
	`put {|x| } {|x| }`,
	`put (ns [&]) (ns [&])`,
	`put ?(fail x) ?(fail x)`,
	`put (edit:key a) (edit:key A)`,
	`put (edit:key Alt-a) (edit:key Ctrl-a)`,
	`put (edit:complex-candidate a) (edit:complex-candidate a &display=b)`,
	`put (external ls) ls`,
	`put $true true`,
	`put $nil ''`,
	`put [] [&]`,
	`put [a] [a '']`,
	`put [&a=1] [&a=1 &b=$nil]`,
	`put (num NaN) (num NaN)`,
	`put [(num NaN)] [(num NaN)]`,
	// NaNs with different sign and payload bits (parsed: 0x7ff8000000000001, arithmetic: 0xfff8.. or 0x7ff8..0)
	`put (num NaN) (- (num Inf) (num Inf))`,
	`put (num NaN) (* (num Inf) (num 0.0))`,
	`put (- (num Inf) (num Inf)) (+ (num Inf) (num -Inf))`,
	`put (- (num Inf) (num Inf)) (* (num -Inf) (num 0.0))`,
	`put [(num NaN)] [(- (num Inf) (num Inf))]`,
	`put [&k=(num NaN)] [&k=(* (num 0.0) (num Inf))]`,
}

var c08KeySpecs = [][2]string{{"Ctrl-a", "Ctrl-A"}, {"Ctrl-a", ""}, {"a", ""}, {"Enter", "Ctrl-J"}, {"Tab", "Ctrl-i"}, {"Alt-x", "Alt+x"}, {"Ctrl-Alt-Shift-F1", "Shift-Alt-Ctrl-F1"},
	{"\x1b", "Ctrl-["}, {"Meta-Up", "A-Up"}, {"M-x", "Alt-x"}, {"C-a", "Ctrl-A"}, {"Ctrl-?", ""}, {"Backspace", ""}, {"Default", ""}, {"Alt-Enter", "Alt-Ctrl-j"}}

func c08Gen(t *rapid.T) c08Case {
	var c c08Case
	switch rapid.IntRange(0, 9).Draw(t, "kind") {
	case 0, 1, 2:
		c.Kind = "src"
		if rapid.IntRange(0, 5).Draw(t, "?near") == 0 {
			c.Src = rapid.SampledFrom(c08NearMisses).Draw(t, "near")
		} else {
			c.Src = rapid.SampledFrom(c08Sources).Draw(t, "src")
		}
	case 3:
		c.Kind = "key"
		k := rapid.SampledFrom(c08KeySpecs).Draw(t, "key")
		c.KeyA, c.KeyB = k[0], k[1]
	case 4:
		c.Kind = "fieldmap"
		c.KeyA = gen.ValidStr(t, "foo", 3)
		c.V = gen.Val(t, "v", gen.ValOpts{Depth: 2, Width: 3, NumKinds: "ibrf", NoNaN: true})
		c.Mode = rapid.SampledFrom([]string{"struct-first", "map-first", "struct-struct"}).Draw(t, "mode")
	default:
		c.Kind = "data"
		o := gen.ValOpts{Depth: rapid.IntRange(0, 3).Draw(t, "depth"), Width: rapid.SampledFrom([]int{2, 3, 5}).Draw(t, "width"), NumKinds: "ibrf", NoNaN: true}
		c.V = gen.Val(t, "v", o)
		if rapid.IntRange(0, 2).Draw(t, "?zero") == 0 {
			// make sure floating-point zeros occur: wrap with zeros in several positions
			z := gen.FloatNum(0)
			if rapid.Bool().Draw(t, "neg") {
				z = gen.FloatNum(math.Copysign(0, -1))
			}
			zv := gen.V{K: "num", N: &z}
			switch rapid.IntRange(0, 3).Draw(t, "zpos") {
			case 0:
				c.V = zv
			case 1:
				c.V = gen.V{K: "list", L: []gen.V{c.V, zv}}
			case 2:
				c.V = c08MapOf(zv, c.V, c08Str("z"), zv)
			default:
				c.V = c08MapOf(gen.V{K: "list", L: []gen.V{zv}}, gen.V{K: "list", L: []gen.V{c.V, zv}})
			}
		}
		c.Mode = rapid.SampledFrom([]string{"rebuild", "rebuild", "zeroflip", "zeroflip", "reparse"}).Draw(t, "mode")
	}
	c.Wrap = rapid.SampledFrom([]string{"", "", "", "list", "mapval", "mapkey", "nested"}).Draw(t, "wrap")
	switch rapid.IntRange(0, 5).Draw(t, "size") {
	case 0:
		c.N = 0
	case 1, 2:
		c.N = rapid.IntRange(1, 40).Draw(t, "n")
	case 3, 4:
		c.N = rapid.IntRange(41, 400).Draw(t, "n")
	default:
		c.N = rapid.IntRange(401, 2000).Draw(t, "n")
	}
	c.Seed = rapid.Uint64().Draw(t, "seed")
	c.Order = rapid.IntRange(0, 2).Draw(t, "order")
	return c
}

func c08Class(c c08Case) (string, bool) {
	a, b, _, err := c08Build(c)
	if err != nil {
		return "build-error", true
	}
	if !vals.Equal(a, b) {
		return c.Kind + "/not-eq(vacuous)", false
	}
	cl := c.Kind
	if c.Kind == "data" {
		cl += "/" + c.Mode
	}
	if c.Wrap != "" {
		cl += "+wrapped"
	}
	// pointer-identical pairs (functions by identity, same string) are trivial
	same := false
	func() {
		defer func() { recover() }() // uncomparable dynamic types
		same = a == b
	}()
	switch c.Kind {
	case "data", "fieldmap":
		same = false
	}
	if same && c.Wrap == "" {
		return cl + "/identical", false
	}
	return cl, true
}

func init() {
	vs.Register(vs.Prop[c08Case]{
		Name: "C08/pairs",
		Rule: "pairs (a,b) that are eq but built differently: 57 Elvish expressions (plus 26 near misses that are documented as not eq, vacuous unless eq is looser than documented) (functions, namespaces, exceptions by identity; external commands; edit:key and edit:complex-candidate values; styled text; ±0.0; integers, big integers and rationals from arithmetic vs from num; lists from slicing/conj/output capture; maps from assoc/dissoc/make-map/other insertion order incl. hash-colliding keys), generated data values (gen.Val depth ≤3, with ±0.0 planted) rebuilt by slicing and reverse insertion with colliding junk keys, with every float zero's sign flipped, or re-read from their repr; field-map structs vs maps; ui.Key from different spellings; optionally wrapped in a list / map value / map key / nested container. Each pair is used as a key in a map with the 32 hash-neighbour ints of Hash(a) and 0..2000 fillers (ints with random low word, strings, floats, lists), key inserted first / last / in the middle, both roles. Non-trivial = eq holds and the two values are not the very same object",
		Gen:   c08Gen,
		Check: c08Check,
		Class: c08Class,
		Quick: 2500, Thorough: 30000,
		Known: []vs.Known[c08Case]{{Key: "C08:negative-zero-hash", Case: c08Case{Kind: "src", Src: `put (num 0.0) (num -0.0)`, N: 1, Seed: 1}}},
	})
}
