package props

// C09 eq is an equivalence and compare is a consistent total preorder.
//
// One sub-check, C09/triples. A case is a triple of values (mirror gen.V, with
// the extra kind "fn" for functions by identity) drawn as a cluster: a base
// value and two variations of it (same value in another number representation,
// neighbours of 2^53 / 2^63, ±0, NaN, ±Inf, strings sharing a prefix, lists and
// maps differing in one place, maps in another insertion order, ...).
//
// Oracle, applied to two observation channels (vals.Equal/Cmp/CmpTotal directly
// and the builtins eq / compare / compare &total called from Elvish code):
//   * laws on the observed 3x3 matrices: eq reflexive (exactly when the value
//     holds no NaN), symmetric, transitive; compare antisymmetric, 0 for eq
//     values, transitive (and comparability propagates along chains);
//     compare &total never fails, antisymmetric, transitive, equal to compare
//     wherever compare is defined;
//   * agreement with an independent model written from builtin_fn_pred.d.elv:
//     eq = same type and value (exact vs inexact numbers distinct, NaN != NaN);
//     compare = booleans false<true, numbers by exact rational value with NaN
//     equal to NaN and below everything, strings bytewise, lists
//     lexicographic, otherwise 0 if eq and "uncomparable" if not; total =
//     values grouped by type (type order unspecified: learned once from
//     representatives and required to be a strict order that every pair obeys).

import (
	"bytes"
	"fmt"
	"math"
	"math/big"
	"sync"

	"pgregory.net/rapid"
	"src.elv.sh/pkg/eval"
	"src.elv.sh/pkg/eval/vals"
	"src.elv.sh/pkg/persistent/hashmap"
	"verif/elv"
	"verif/gen"
	"verif/vs"
)

const c09Key = "C09:mixed-exact-inexact-precision"

type c09Case struct {
	V [3]gen.V `json:"v"`
}

// ---- functions by identity ------------------------------------------------------

var (
	c09Once  sync.Once
	c09Ev    *eval.Evaler
	c09Fns   map[string]any
	c09Probe any // closure {|v0 v1 v2| ...} that prints the 27 builtin results
)

var c09FnNames = []string{"closure0", "closure1", "closure2", "builtin:put", "builtin:each"}

func c09Init() {
	c09Once.Do(func() {
		c09Ev = elv.New()
		c09Fns = map[string]any{}
		r := elv.Run(c09Ev, "put {|x| put $x } {|x| put $x } { } $put~ $each~")
		if r.Err != nil || len(r.Values) != 5 {
			panic(fmt.Sprintf("harness: cannot build functions: %v", r.Err))
		}
		for i, n := range c09FnNames {
			c09Fns[n] = r.Values[i]
		}
		r = elv.Run(c09Ev, `put {|v0 v1 v2|
  var vs = [$v0 $v1 $v2]
  for x $vs { for y $vs {
    eq $x $y
    try { compare $x $y } catch { put unc }
    compare &total $x $y
  } }
}`)
		if r.Err != nil || len(r.Values) != 1 {
			panic(fmt.Sprintf("harness: cannot build probe: %v", r.Err))
		}
		c09Probe = r.Values[0]
	})
}

func c09Fn(name string) gen.V { return gen.V{K: "fn", S: vs.B(name)} }

// c09Build builds the Elvish value (gen.V.Elvish plus functions).
func c09Build(v gen.V) any {
	switch v.K {
	case "fn":
		c09Init()
		f, ok := c09Fns[string(v.S)]
		if !ok {
			panic("harness: unknown function " + string(v.S))
		}
		return f
	case "list":
		l := vals.EmptyList
		for _, e := range v.L {
			l = l.Conj(c09Build(e))
		}
		return l
	case "map":
		var m hashmap.Map = vals.EmptyMap
		for _, kv := range v.M {
			m = m.Assoc(c09Build(kv.Key), c09Build(kv.Val))
		}
		return m
	}
	return v.Elvish()
}

func c09Text(v gen.V) string {
	switch v.K {
	case "fn":
		return "<" + string(v.S) + ">"
	case "list":
		var b bytes.Buffer
		b.WriteString("[")
		for i, e := range v.L {
			if i > 0 {
				b.WriteString(" ")
			}
			b.WriteString(c09Text(e))
		}
		b.WriteString("]")
		return b.String()
	case "map":
		var b bytes.Buffer
		b.WriteString("[&")
		for i, kv := range v.M {
			if i > 0 {
				b.WriteString(" &")
			}
			b.WriteString(c09Text(kv.Key) + "=" + c09Text(kv.Val))
		}
		b.WriteString("]")
		return b.String()
	case "num":
		if v.N.IsFloat() {
			return fmt.Sprintf("float(%v)", v.N.Float())
		}
		return v.N.Kind + "(" + v.N.Text + ")"
	case "str":
		return fmt.Sprintf("%q", string(v.S))
	case "bool":
		return fmt.Sprintf("$%v", v.B)
	}
	return "$nil"
}

// ---- the model -------------------------------------------------------------------

func c09HasNaN(v gen.V) bool { return v.HasNaN() }

func c09ModelEq(a, b gen.V) bool {
	if a.K != b.K {
		return false
	}
	switch a.K {
	case "nil":
		return true
	case "bool":
		return a.B == b.B
	case "str", "fn":
		return a.S == b.S
	case "num":
		if a.N.IsFloat() != b.N.IsFloat() {
			return false
		}
		if a.N.IsFloat() {
			return a.N.Float() == b.N.Float() // NaN != NaN, -0 == 0
		}
		return a.N.Exact().Cmp(b.N.Exact()) == 0
	case "list":
		if len(a.L) != len(b.L) {
			return false
		}
		for i := range a.L {
			if !c09ModelEq(a.L[i], b.L[i]) {
				return false
			}
		}
		return true
	case "map":
		if len(a.M) != len(b.M) {
			return false
		}
		for _, kv := range a.M {
			found := false
			for _, kw := range b.M {
				if c09ModelEq(kv.Key, kw.Key) {
					found = c09ModelEq(kv.Val, kw.Val)
					break
				}
			}
			if !found {
				return false
			}
		}
		return true
	}
	return false
}

// c09NumCmp orders numbers by mathematical value; NaN equals NaN and is below
// everything else.
func c09NumCmp(a, b gen.Num) int {
	rank := func(n gen.Num) (int, *big.Rat) { // -2 NaN, -1 -Inf, 0 finite, 1 +Inf
		if n.IsFloat() {
			f := n.Float()
			switch {
			case math.IsNaN(f):
				return -2, nil
			case math.IsInf(f, -1):
				return -1, nil
			case math.IsInf(f, 1):
				return 1, nil
			}
			return 0, new(big.Rat).SetFloat64(f)
		}
		return 0, n.Exact()
	}
	ra, va := rank(a)
	rb, vb := rank(b)
	if ra != rb {
		if ra < rb {
			return -1
		}
		return 1
	}
	if ra != 0 {
		return 0
	}
	return va.Cmp(vb)
}

const c09Unc = 2

// c09ModelCmp is the documented compare: -1, 0, 1 or c09Unc.
func c09ModelCmp(a, b gen.V) int {
	if a.K == b.K {
		switch a.K {
		case "bool":
			switch {
			case a.B == b.B:
				return 0
			case !a.B:
				return -1
			}
			return 1
		case "num":
			return c09NumCmp(*a.N, *b.N)
		case "str":
			return bytes.Compare([]byte(a.S), []byte(b.S))
		case "list":
			for i := 0; i < len(a.L) && i < len(b.L); i++ {
				if o := c09ModelCmp(a.L[i], b.L[i]); o != 0 {
					return o
				}
			}
			return c09Sign(len(a.L) - len(b.L))
		}
	}
	if c09ModelEq(a, b) {
		return 0
	}
	return c09Unc
}

func c09Sign(x int) int {
	switch {
	case x < 0:
		return -1
	case x > 0:
		return 1
	}
	return 0
}

// type classes of the artificial total order. Closures and builtin functions
// are both of kind "fn"; the reference does not say whether they count as one
// type, so their mutual order is learned like that of any two types but may be 0.
func c09Type(v gen.V) string {
	if v.K == "fn" {
		if len(v.S) > 7 && string(v.S[:8]) == "builtin:" {
			return "builtin"
		}
		return "closure"
	}
	return v.K
}

var c09Types = []string{"nil", "bool", "num", "str", "list", "map", "closure", "builtin"}

var (
	c09TableOnce sync.Once
	c09Table     map[[2]string]int
	c09TableErr  error
)

func c09Ord(o vals.Ordering) int {
	switch o {
	case vals.CmpLess:
		return -1
	case vals.CmpEqual:
		return 0
	case vals.CmpMore:
		return 1
	}
	return c09Unc
}

// c09TypeTable learns the (unspecified but fixed) order of the types from one
// representative per type and checks that it is a strict total order on the
// data types.
func c09TypeTable() (map[[2]string]int, error) {
	c09TableOnce.Do(func() {
		one := gen.Num{Kind: "int", Text: "1"}
		reps := map[string]gen.V{
			"nil": {K: "nil"}, "bool": {K: "bool", B: true}, "num": {K: "num", N: &one}, "str": {K: "str", S: "s"},
			"list": {K: "list"}, "map": {K: "map"}, "closure": c09Fn("closure0"), "builtin": c09Fn("builtin:put"),
		}
		c09Table = map[[2]string]int{}
		for _, ta := range c09Types {
			for _, tb := range c09Types {
				c09Table[[2]string{ta, tb}] = c09Ord(vals.CmpTotal(c09Build(reps[ta]), c09Build(reps[tb])))
			}
		}
		for _, ta := range c09Types {
			for _, tb := range c09Types {
				s := c09Table[[2]string{ta, tb}]
				if s == c09Unc {
					c09TableErr = fmt.Errorf("compare &total of a %s and a %s is not defined", ta, tb)
					return
				}
				if s != -c09Table[[2]string{tb, ta}] {
					c09TableErr = fmt.Errorf("type order not antisymmetric for %s, %s", ta, tb)
					return
				}
				fnPair := (ta == "closure" || ta == "builtin") && (tb == "closure" || tb == "builtin")
				if (s == 0) != (ta == tb) && !fnPair {
					c09TableErr = fmt.Errorf("compare &total of a %s and a %s gives %d: different types must not compare equal, same types must", ta, tb, s)
					return
				}
				for _, tc := range c09Types {
					if s <= 0 && c09Table[[2]string{tb, tc}] <= 0 && c09Table[[2]string{ta, tc}] > 0 {
						c09TableErr = fmt.Errorf("type order not transitive: %s <= %s <= %s but %s > %s", ta, tb, tc, ta, tc)
						return
					}
				}
			}
		}
	})
	return c09Table, c09TableErr
}

// c09ModelTotal is the documented compare &total given the learned type order.
func c09ModelTotal(a, b gen.V, table map[[2]string]int) int {
	ta, tb := c09Type(a), c09Type(b)
	if ta != tb {
		return table[[2]string{ta, tb}]
	}
	switch a.K {
	case "bool", "num", "str":
		return c09ModelCmp(a, b)
	case "list":
		for i := 0; i < len(a.L) && i < len(b.L); i++ {
			if o := c09ModelTotal(a.L[i], b.L[i], table); o != 0 {
				return o
			}
		}
		return c09Sign(len(a.L) - len(b.L))
	}
	return 0 // nil, maps, functions of one type: same type, not ordered
}

// ---- the known open finding: lossy float unification --------------------------------

// c09FloatSafe says whether converting the exact number to float64 the way
// compare does (vals.ConvertToFloat64: nearest double; integers outside the
// int64 range become ±Inf, as documented for inexact-num) keeps its value.
func c09FloatSafe(n gen.Num) bool {
	r := n.Exact()
	if r == nil {
		return true
	}
	if r.IsInt() {
		if !r.Num().IsInt64() {
			return false
		}
		f := float64(r.Num().Int64())
		return new(big.Rat).SetFloat64(f).Cmp(r) == 0
	}
	_, exact := r.Float64()
	return exact
}

// c09Scan collects whether v holds floats and float-unsafe exact numbers.
func c09Scan(v gen.V, floats, unsafe *int) {
	switch v.K {
	case "num":
		if v.N.IsFloat() {
			*floats++
		} else if !c09FloatSafe(*v.N) {
			*unsafe++
		}
	case "list":
		for _, e := range v.L {
			c09Scan(e, floats, unsafe)
		}
	case "map":
		for _, kv := range v.M {
			c09Scan(kv.Key, floats, unsafe)
			c09Scan(kv.Val, floats, unsafe)
		}
	}
}

// c09InKnownShape: the triple mixes an inexact number with an exact number that
// the float unification cannot represent.
func c09InKnownShape(c c09Case) bool {
	var f, u int
	for _, v := range c.V {
		c09Scan(v, &f, &u)
	}
	return f > 0 && u > 0
}

// c09MakeSafe replaces every float-unsafe exact number by a float-safe one near
// it (the exact value of the nearest double when that is an int64, else ±2^62).
func c09MakeSafe(v gen.V) gen.V {
	out := v
	switch v.K {
	case "num":
		if !v.N.IsFloat() && !c09FloatSafe(*v.N) {
			r := v.N.Exact()
			f, _ := r.Float64()
			var n gen.Num
			if nr := new(big.Rat).SetFloat64(f); nr != nil && !math.IsInf(f, 0) && (!nr.IsInt() || nr.Num().IsInt64()) {
				n = c09ExactNum(nr)
			} else {
				n = gen.Num{Kind: "int", Text: "4611686018427387904"}
				if r.Sign() < 0 {
					n.Text = "-" + n.Text
				}
			}
			out.N = &n
		}
	case "list":
		out.L = nil
		for _, e := range v.L {
			out.L = append(out.L, c09MakeSafe(e))
		}
	case "map":
		out.M = nil
		seen := map[string]bool{}
		for _, kv := range v.M {
			k := c09MakeSafe(kv.Key)
			if seen[k.Canon()] {
				continue
			}
			seen[k.Canon()] = true
			out.M = append(out.M, gen.KV{Key: k, Val: c09MakeSafe(kv.Val)})
		}
	}
	return out
}

// ---- the oracle ----------------------------------------------------------------------

type c09Obs struct {
	eq    [3][3]bool
	cmp   [3][3]int // -1 0 1 or c09Unc
	total [3][3]int
}

func c09Direct(x [3]any) c09Obs {
	var o c09Obs
	for i := 0; i < 3; i++ {
		for j := 0; j < 3; j++ {
			o.eq[i][j] = vals.Equal(x[i], x[j])
			o.cmp[i][j] = c09Ord(vals.Cmp(x[i], x[j]))
			o.total[i][j] = c09Ord(vals.CmpTotal(x[i], x[j]))
		}
	}
	return o
}

func c09Builtins(x [3]any) (c09Obs, error) {
	c09Init()
	var o c09Obs
	ch := make(chan any, 64)
	var out []any
	done := make(chan struct{})
	go func() {
		for v := range ch {
			out = append(out, v)
		}
		close(done)
	}()
	err := c09Ev.Call(c09Probe.(eval.Callable), eval.CallCfg{Args: []any{x[0], x[1], x[2]}},
		eval.EvalCfg{Ports: []*eval.Port{nil, {File: eval.DevNull, Chan: ch}, nil}})
	close(ch)
	<-done
	if err != nil {
		return o, fmt.Errorf("eq / compare / compare &total raised: %v", err)
	}
	if len(out) != 27 {
		return o, fmt.Errorf("probe printed %d values, want 27", len(out))
	}
	toInt := func(v any) (int, error) {
		switch v := v.(type) {
		case int:
			if v < -1 || v > 1 {
				return 0, fmt.Errorf("compare output %d", v)
			}
			return v, nil
		case string:
			if v == "unc" {
				return c09Unc, nil
			}
		}
		return 0, fmt.Errorf("compare output %T %v", v, v)
	}
	k := 0
	for i := 0; i < 3; i++ {
		for j := 0; j < 3; j++ {
			b, ok := out[k].(bool)
			if !ok {
				return o, fmt.Errorf("eq output %T %v", out[k], out[k])
			}
			o.eq[i][j] = b
			var err error
			if o.cmp[i][j], err = toInt(out[k+1]); err != nil {
				return o, err
			}
			if o.total[i][j], err = toInt(out[k+2]); err != nil {
				return o, err
			}
			k += 3
		}
	}
	return o, nil
}

// c09Lazy is a message part that is only rendered when an error is reported.
type c09Lazy func() string

func (l c09Lazy) String() string { return l() }

func c09CmpName(o int) string {
	if o == c09Unc {
		return "uncomparable"
	}
	return fmt.Sprint(o)
}

// c09Laws checks the observed matrices against the laws and the model.
func c09Laws(c c09Case, o c09Obs, via string, table map[[2]string]int) error {
	name := func(i int) string { return c09Text(c.V[i]) }
	pair := func(i, j int) c09Lazy {
		return func() string { return fmt.Sprintf("a=%s b=%s", name(i), name(j)) }
	}
	for i := 0; i < 3; i++ {
		want := !c09HasNaN(c.V[i])
		if o.eq[i][i] != want {
			return fmt.Errorf("%s: eq must be reflexive exactly for NaN-free values: eq(a,a)=%v want %v for a=%s", via, o.eq[i][i], want, name(i))
		}
		if o.total[i][i] != 0 {
			return fmt.Errorf("%s: compare &total a a = %s for a=%s", via, c09CmpName(o.total[i][i]), name(i))
		}
	}
	for i := 0; i < 3; i++ {
		for j := 0; j < 3; j++ {
			// model
			if want := c09ModelEq(c.V[i], c.V[j]); o.eq[i][j] != want {
				return fmt.Errorf("%s: eq a b = %v, documented (same type and value) %v; %s", via, o.eq[i][j], want, pair(i, j))
			}
			if want := c09ModelCmp(c.V[i], c.V[j]); o.cmp[i][j] != want {
				return fmt.Errorf("%s: compare a b = %s, documented order gives %s; %s", via, c09CmpName(o.cmp[i][j]), c09CmpName(want), pair(i, j))
			}
			if o.total[i][j] == c09Unc {
				return fmt.Errorf("%s: compare &total a b failed; %s", via, pair(i, j))
			}
			if want := c09ModelTotal(c.V[i], c.V[j], table); o.total[i][j] != want {
				return fmt.Errorf("%s: compare &total a b = %s, documented (group by type, compare within comparable types) %s; %s", via, c09CmpName(o.total[i][j]), c09CmpName(want), pair(i, j))
			}
			// laws on pairs
			if o.eq[i][j] != o.eq[j][i] {
				return fmt.Errorf("%s: eq not symmetric: eq(a,b)=%v eq(b,a)=%v; %s", via, o.eq[i][j], o.eq[j][i], pair(i, j))
			}
			if o.eq[i][j] && o.cmp[i][j] != 0 {
				return fmt.Errorf("%s: eq values must compare 0, got %s; %s", via, c09CmpName(o.cmp[i][j]), pair(i, j))
			}
			if (o.cmp[i][j] == c09Unc) != (o.cmp[j][i] == c09Unc) || (o.cmp[i][j] != c09Unc && o.cmp[i][j] != -o.cmp[j][i]) {
				return fmt.Errorf("%s: compare not antisymmetric: compare(a,b)=%s compare(b,a)=%s; %s", via, c09CmpName(o.cmp[i][j]), c09CmpName(o.cmp[j][i]), pair(i, j))
			}
			if o.total[i][j] != -o.total[j][i] {
				return fmt.Errorf("%s: compare &total not antisymmetric: (a,b)=%d (b,a)=%d; %s", via, o.total[i][j], o.total[j][i], pair(i, j))
			}
			if o.cmp[i][j] != c09Unc && o.total[i][j] != o.cmp[i][j] {
				return fmt.Errorf("%s: compare &total must agree with compare where it is defined: total=%d compare=%d; %s", via, o.total[i][j], o.cmp[i][j], pair(i, j))
			}
		}
	}
	for i := 0; i < 3; i++ {
		for j := 0; j < 3; j++ {
			for k := 0; k < 3; k++ {
				tri := c09Lazy(func() string { return fmt.Sprintf("a=%s b=%s c=%s", name(i), name(j), name(k)) })
				if o.eq[i][j] && o.eq[j][k] && !o.eq[i][k] {
					return fmt.Errorf("%s: eq not transitive: eq(a,b) eq(b,c) but not eq(a,c); %s", via, tri)
				}
				ab, bc, ac := o.cmp[i][j], o.cmp[j][k], o.cmp[i][k]
				if ab != c09Unc && bc != c09Unc && ab <= 0 && bc <= 0 {
					want := -1
					if ab == 0 && bc == 0 {
						want = 0
					}
					if ac != want {
						return fmt.Errorf("%s: compare not transitive: compare(a,b)=%d compare(b,c)=%d but compare(a,c)=%s; %s", via, ab, bc, c09CmpName(ac), tri)
					}
				}
				tab, tbc, tac := o.total[i][j], o.total[j][k], o.total[i][k]
				if tab <= 0 && tbc <= 0 {
					want := -1
					if tab == 0 && tbc == 0 {
						want = 0
					}
					if tac != want {
						return fmt.Errorf("%s: compare &total not transitive: (a,b)=%d (b,c)=%d but (a,c)=%d; %s", via, tab, tbc, tac, tri)
					}
				}
			}
		}
	}
	return nil
}

func c09Check(c c09Case) error {
	table, err := c09TypeTable()
	if err != nil {
		return fmt.Errorf("order of types under compare &total: %v", err)
	}
	var x [3]any
	for i := range x {
		x[i] = c09Build(c.V[i])
	}
	if err := c09Laws(c, c09Direct(x), "vals.Equal/Cmp/CmpTotal", table); err != nil {
		return err
	}
	ob, err := c09Builtins(x)
	if err != nil {
		return fmt.Errorf("builtins on a=%s b=%s c=%s: %v", c09Text(c.V[0]), c09Text(c.V[1]), c09Text(c.V[2]), err)
	}
	return c09Laws(c, ob, "builtins eq/compare", table)
}

// ---- generator -------------------------------------------------------------------------

func c09ExactNum(r *big.Rat) gen.Num {
	if r.IsInt() {
		if r.Num().IsInt64() {
			return gen.Num{Kind: "int", Text: r.Num().String()}
		}
		return gen.Num{Kind: "bigint", Text: r.Num().String()}
	}
	return gen.Num{Kind: "rat", Text: r.String()}
}

func c09Indices(n int) []int {
	out := make([]int, n)
	for i := range out {
		out[i] = i
	}
	return out
}

func c09NumV(n gen.Num) gen.V { nn := n; return gen.V{K: "num", N: &nn} }

func c09Int(s string) gen.Num { return gen.Num{Kind: "int", Text: s} }

// clusters of numbers that sit on precision limits: the same value in several
// representations and its neighbours.
var c09NumClusters = [][]gen.Num{
	{c09Int("0"), gen.FloatNum(0), gen.FloatNum(math.Copysign(0, -1)), gen.FloatNum(5e-324), gen.FloatNum(-5e-324), {Kind: "rat", Text: "1/100000000000000000000000000000000000000"}, {Kind: "rat", Text: "-1/3"}},
	{c09Int("1"), gen.FloatNum(1), gen.FloatNum(math.Nextafter(1, 2)), gen.FloatNum(math.Nextafter(1, 0)), {Kind: "rat", Text: "4503599627370497/4503599627370496"}, {Kind: "rat", Text: "9007199254740993/9007199254740992"}, c09Int("2")},
	{{Kind: "rat", Text: "1/2"}, gen.FloatNum(0.5), {Kind: "rat", Text: "1/3"}, gen.FloatNum(1.0 / 3), {Kind: "rat", Text: "6004799503160661/18014398509481984"}, {Kind: "rat", Text: "1/10"}, gen.FloatNum(0.1), {Kind: "rat", Text: "3602879701896397/36028797018963968"}},
	{c09Int("9007199254740992"), c09Int("9007199254740993"), c09Int("9007199254740994"), c09Int("9007199254740991"), gen.FloatNum(9007199254740992), gen.FloatNum(9007199254740994), gen.FloatNum(9007199254740991), {Kind: "rat", Text: "18014398509481985/2"}},
	{c09Int("-9007199254740992"), c09Int("-9007199254740993"), c09Int("-9007199254740994"), gen.FloatNum(-9007199254740992), gen.FloatNum(-9007199254740994)},
	{c09Int("9223372036854775807"), c09Int("9223372036854775806"), {Kind: "bigint", Text: "9223372036854775808"}, {Kind: "bigint", Text: "9223372036854775809"}, gen.FloatNum(9223372036854775808), gen.FloatNum(math.Nextafter(9223372036854775808, 0)), gen.FloatNum(math.Nextafter(9223372036854775808, math.Inf(1))), c09Int("9223372036854774784")},
	{c09Int("-9223372036854775808"), c09Int("-9223372036854775807"), {Kind: "bigint", Text: "-9223372036854775809"}, gen.FloatNum(-9223372036854775808), gen.FloatNum(math.Nextafter(-9223372036854775808, math.Inf(-1)))},
	{{Kind: "bigint", Text: "18446744073709551616"}, {Kind: "bigint", Text: "18446744073709551617"}, gen.FloatNum(18446744073709551616), gen.FloatNum(1e30), {Kind: "bigint", Text: "1000000000000000000000000000000"}, gen.FloatNum(math.MaxFloat64), gen.FloatNum(math.Inf(1))},
	{gen.FloatNum(math.NaN()), gen.FloatNum(math.Inf(-1)), gen.FloatNum(math.Inf(1)), gen.FloatNum(-math.MaxFloat64), {Kind: "bigint", Text: "-1000000000000000000000000000000"}, c09Int("-9223372036854775808"), c09Int("0")},
	{c09Int("4611686018427387904"), gen.FloatNum(4611686018427387904), c09Int("4611686018427387905"), c09Int("4611686018427388416"), gen.FloatNum(math.Nextafter(4611686018427387904, math.Inf(1))), c09Int("4611686018427388928")},
}

var c09StrTails = []string{"", "a", "b", "\x00", "\xff", "\x80", "é", "e", "z", "~", "0", "10", "9", " ", "A", "\U0001F600", "\xe4\xb8"}

func c09GenNum(t *rapid.T, label string) gen.Num {
	if rapid.IntRange(0, 2).Draw(t, label+"?cl") > 0 {
		cl := rapid.SampledFrom(c09NumClusters).Draw(t, label+"cl")
		return rapid.SampledFrom(cl).Draw(t, label+"m")
	}
	return gen.Number(t, label, "ibrf")
}

// c09VaryNum returns a number close to n: the same value in another
// representation when there is one, or a neighbour.
func c09VaryNum(t *rapid.T, label string, n gen.Num) gen.Num {
	// stay inside the cluster if n is in one
	for _, cl := range c09NumClusters {
		for _, m := range cl {
			if m == n && rapid.Bool().Draw(t, label+"?incl") {
				return rapid.SampledFrom(cl).Draw(t, label+"clm")
			}
		}
	}
	if n.IsFloat() {
		f := n.Float()
		switch rapid.IntRange(0, 6).Draw(t, label+"fv") {
		case 0:
			return n
		case 1:
			return gen.FloatNum(math.Nextafter(f, math.Inf(1)))
		case 2:
			return gen.FloatNum(math.Nextafter(f, math.Inf(-1)))
		case 3:
			return gen.FloatNum(-f)
		case 4:
			return gen.FloatNum(math.NaN())
		default: // the exact number with the same value, when there is one
			if r := new(big.Rat).SetFloat64(f); !math.IsNaN(f) && !math.IsInf(f, 0) && r != nil && r.Denom().BitLen() < 200 {
				return c09ExactNum(r)
			}
			return gen.FloatNum(0)
		}
	}
	r := n.Exact()
	switch rapid.IntRange(0, 6).Draw(t, label+"ev") {
	case 0:
		return n
	case 1:
		return c09ExactNum(new(big.Rat).Add(r, big.NewRat(1, 1)))
	case 2:
		return c09ExactNum(new(big.Rat).Sub(r, big.NewRat(1, 1)))
	case 3:
		tiny, _ := new(big.Rat).SetString("1/1000000000000000000000000000000000000000")
		return c09ExactNum(new(big.Rat).Add(r, tiny))
	case 4:
		return c09ExactNum(new(big.Rat).Neg(r))
	default: // the nearest float
		f, _ := r.Float64()
		return gen.FloatNum(f)
	}
}

func c09GenFn(t *rapid.T, label string) gen.V {
	return c09Fn(rapid.SampledFrom(c09FnNames).Draw(t, label))
}

// c09GenVal draws a value (like gen.Val plus functions and clustered numbers).
func c09GenVal(t *rapid.T, label string, depth int) gen.V {
	kinds := []string{"num", "num", "num", "num", "num", "str", "str", "str", "bool", "nil", "fn"}
	if depth > 0 {
		kinds = append(kinds, "list", "list", "list", "list", "map", "map")
	}
	switch rapid.SampledFrom(kinds).Draw(t, label+"k") {
	case "num":
		return c09NumV(c09GenNum(t, label+"n"))
	case "str":
		if rapid.Bool().Draw(t, label+"?short") {
			return gen.V{K: "str", S: vs.B(rapid.SampledFrom(c09StrTails).Draw(t, label+"s"))}
		}
		return gen.V{K: "str", S: gen.Str(t, label+"s", 3)}
	case "bool":
		return gen.V{K: "bool", B: rapid.Bool().Draw(t, label+"b")}
	case "nil":
		return gen.V{K: "nil"}
	case "fn":
		return c09GenFn(t, label+"f")
	case "list":
		n := rapid.IntRange(0, 3).Draw(t, label+"#")
		v := gen.V{K: "list"}
		for i := 0; i < n; i++ {
			v.L = append(v.L, c09GenVal(t, label+"e", depth-1))
		}
		return v
	default:
		n := rapid.IntRange(0, 3).Draw(t, label+"#")
		v := gen.V{K: "map"}
		seen := map[string]bool{}
		for i := 0; i < n; i++ {
			k := c09GenKey(t, label+"mk")
			if seen[k.Canon()] {
				continue
			}
			seen[k.Canon()] = true
			v.M = append(v.M, gen.KV{Key: k, Val: c09GenVal(t, label+"mv", depth-1)})
		}
		return v
	}
}

// map keys: NaN-free data values (no functions: gen.V.Canon does not know them).
func c09GenKey(t *rapid.T, label string) gen.V {
	switch rapid.IntRange(0, 3).Draw(t, label+"k") {
	case 0:
		n := c09GenNum(t, label+"n")
		if n.IsFloat() && math.IsNaN(n.Float()) {
			n = gen.FloatNum(1.5)
		}
		return c09NumV(n)
	case 1:
		return gen.V{K: "list", L: []gen.V{{K: "str", S: vs.B(rapid.SampledFrom(c09StrTails).Draw(t, label+"ls"))}}}
	default:
		return gen.V{K: "str", S: vs.B(rapid.SampledFrom(c09StrTails).Draw(t, label+"s"))}
	}
}

// c09Vary returns a value near v: eq to it, or differing in one place.
func c09Vary(t *rapid.T, label string, v gen.V, depth int) gen.V {
	if rapid.IntRange(0, 11).Draw(t, label+"?other") == 0 {
		return c09GenVal(t, label+"o", 1)
	}
	switch v.K {
	case "num":
		return c09NumV(c09VaryNum(t, label+"n", *v.N))
	case "str":
		s := string(v.S)
		switch rapid.IntRange(0, 4).Draw(t, label+"sv") {
		case 0:
			return v
		case 1:
			return gen.V{K: "str", S: vs.B(s + rapid.SampledFrom(c09StrTails).Draw(t, label+"tail"))}
		case 2:
			if len(s) > 0 {
				return gen.V{K: "str", S: vs.B(s[:len(s)-1])}
			}
			return gen.V{K: "str", S: "\x00"}
		case 3:
			if len(s) > 0 {
				b := []byte(s)
				b[len(b)-1] += byte(rapid.SampledFrom([]int{1, 255, 128}).Draw(t, label+"d"))
				return gen.V{K: "str", S: vs.B(b)}
			}
			return gen.V{K: "str", S: "a"}
		default:
			return gen.V{K: "str", S: vs.B(rapid.SampledFrom(c09StrTails).Draw(t, label+"tail") + s)}
		}
	case "bool":
		return gen.V{K: "bool", B: rapid.Bool().Draw(t, label+"b")}
	case "fn":
		return c09GenFn(t, label+"f")
	case "list":
		out := gen.V{K: "list", L: append([]gen.V(nil), v.L...)}
		switch rapid.IntRange(0, 5).Draw(t, label+"lv") {
		case 0:
			return out
		case 1:
			out.L = append(out.L, c09GenVal(t, label+"app", 0))
		case 2:
			if len(out.L) > 0 {
				out.L = out.L[:len(out.L)-1]
			}
		default:
			if len(out.L) > 0 {
				i := rapid.IntRange(0, len(out.L)-1).Draw(t, label+"i")
				out.L[i] = c09Vary(t, label+"e", out.L[i], depth+1)
			} else {
				out.L = append(out.L, c09GenVal(t, label+"app", 0))
			}
		}
		return out
	case "map":
		out := gen.V{K: "map", M: append([]gen.KV(nil), v.M...)}
		switch rapid.IntRange(0, 4).Draw(t, label+"mv") {
		case 0, 1: // same contents, other insertion order
			idx := rapid.Permutation(c09Indices(len(out.M))).Draw(t, label+"perm")
			out.M = nil
			for _, i := range idx {
				out.M = append(out.M, v.M[i])
			}
		case 2:
			if len(out.M) > 0 {
				i := rapid.IntRange(0, len(out.M)-1).Draw(t, label+"i")
				out.M[i] = gen.KV{Key: out.M[i].Key, Val: c09Vary(t, label+"e", out.M[i].Val, depth+1)}
			}
		case 3:
			if len(out.M) > 0 {
				out.M = out.M[1:]
			}
		default:
			k := c09GenKey(t, label+"nk")
			dup := false
			for _, kv := range out.M {
				if kv.Key.Canon() == k.Canon() {
					dup = true
				}
			}
			if !dup {
				out.M = append(out.M, gen.KV{Key: k, Val: c09GenVal(t, label+"nv", 0)})
			}
		}
		return out
	}
	return v
}

func c09Gen(t *rapid.T) c09Case {
	var c c09Case
	base := c09GenVal(t, "base", rapid.SampledFrom([]int{0, 1, 1, 2}).Draw(t, "depth"))
	second := c09Vary(t, "v1", base, 0)
	from := base
	if rapid.Bool().Draw(t, "chain") {
		from = second
	}
	third := c09Vary(t, "v2", from, 0)
	perm := rapid.Permutation([]int{0, 1, 2}).Draw(t, "order")
	for i, v := range []gen.V{base, second, third} {
		c.V[perm[i]] = v
	}
	if vs.KnownOpen(c09Key) && c09InKnownShape(c) {
		vs.Excluded(c09Key + ": triple mixes an inexact number with an exact number that float64 unification cannot hold; exact numbers replaced by float-safe neighbours")
		for i := range c.V {
			c.V[i] = c09MakeSafe(c.V[i])
		}
	}
	return c
}

// ---- classification -----------------------------------------------------------------------

func c09Reprs(v gen.V, set map[string]bool, nested *bool, depth int) {
	switch v.K {
	case "num":
		set[v.N.Kind] = true
	case "list":
		if depth > 0 || len(v.L) > 0 {
			*nested = true
		}
		for _, e := range v.L {
			c09Reprs(e, set, nested, depth+1)
		}
	case "map":
		*nested = true
		for _, kv := range v.M {
			c09Reprs(kv.Key, set, nested, depth+1)
			c09Reprs(kv.Val, set, nested, depth+1)
		}
	}
}

func c09Class(c c09Case) (string, bool) {
	reprs := map[string]bool{}
	nested := false
	kinds := map[string]bool{}
	nan := false
	for _, v := range c.V {
		c09Reprs(v, reprs, &nested, 0)
		kinds[c09Type(v)] = true
		nan = nan || v.HasNaN()
	}
	var cl string
	switch {
	case len(kinds) > 1:
		cl = "mixed-types"
	case kinds["num"]:
		cl = "num"
	default:
		for k := range kinds {
			cl = k
		}
	}
	mixedExact := reprs["float"] && (reprs["int"] || reprs["bigint"] || reprs["rat"])
	switch {
	case mixedExact:
		cl += "/exact+inexact"
	case len(reprs) >= 2:
		cl += "/2+repr"
	}
	if nan {
		cl += "+nan"
	}
	return cl, len(reprs) >= 2 || nested
}

func init() {
	vs.Register(vs.Prop[c09Case]{
		Name: "C09/triples",
		Rule: "triples drawn as clusters: a base value (booleans, $nil, hostile byte strings, numbers in all four representations biased to clusters around 0, 1, 1/2, 1/3, ±2^53, ±2^63, 2^62, 2^64, 1e30, ±Inf, NaN, ±0, nested lists, maps, closures and builtin functions) and two variations of it (same number in another representation, ±1, ±1ulp, ±1e-39, negation, NaN; strings sharing a prefix incl. invalid UTF-8; lists/maps changed in one place, maps re-inserted in another order; occasionally an unrelated value). All 9 ordered pairs and 27 ordered triples are checked for the equivalence/preorder laws and against a model of the documented eq / compare / compare &total, through vals.* and through the builtins. Non-trivial = at least two number representations or a nested container. While the open finding C09:mixed-exact-inexact-precision stands, triples mixing an inexact number with an exact number that float64 cannot hold have those exact numbers replaced (counted in excluded)",
		Gen:   c09Gen,
		Check: c09Check,
		Class: c09Class,
		Quick: 20000, Thorough: 300000,
		Known: []vs.Known[c09Case]{
			{Key: c09Key, Case: c09Case{V: [3]gen.V{c09NumV(c09Int("9007199254740993")), c09NumV(gen.FloatNum(9007199254740992)), c09NumV(c09Int("9007199254740992"))}}},
			{Key: c09Key, Case: c09Case{V: [3]gen.V{c09NumV(gen.Num{Kind: "bigint", Text: "18446744073709551616"}), c09NumV(gen.FloatNum(1e30)), c09NumV(c09Int("1"))}}},
		},
	})
}
