package props

// C10 order outputs a stable sorted permutation of its input.
//
// Everything runs through the real evaluator (elv.Run): `order OPTIONS (c10-in)`
// or `c10-feed | order OPTIONS`, where c10-in / c10-feed are harness builtins
// that hand over the generated values, and &key / &less-than are Elvish closures
// or harness Go callbacks (which count their calls and can throw at a chosen
// call, or output the wrong number / kind of values).
//
// Oracle: c10Cmp, an independent comparator written from the doc of `compare`
// (booleans false<true; numbers numerically with NaN equal to NaN and below
// everything; strings bytewise; lists lexicographically; other values only
// equal-or-uncomparable; with &total different types are ordered by the type
// order, which is learned once from `compare &total` on six representative
// values because it is documented as unspecified but consistent). For a total
// preorder the stable sorted permutation is unique, so the check is: the output
// consists of exactly the input objects (identity, not equality), adjacent
// outputs are never descending (ascending with &reverse), and adjacent
// equal-comparing outputs are in input order (also with &reverse). order must
// throw and output nothing when: a callback throws or misbehaves, both &total
// and &less-than are given, or (default comparator) the values fall into
// several groups with no comparable pair across groups (then every sorting
// procedure has to compare an uncomparable pair).
//
// UNSPEC / accepted both ways:
//   * inputs whose comparability graph is connected but incomplete (nested
//     uncomparable elements behind differing heads): exception without output,
//     or any permutation of the input;
//   * sequences mixing inexact numbers with exact numbers that are not exactly
//     representable as float64, or with integers beyond int64 (which the
//     documented conversion turns into ±Inf), are not judged: the conversion to
//     float64 makes "numerically" ambiguous there (see C09). They are counted as
//     excluded; the dedicated number profiles never produce them.

import (
	"fmt"
	"math"
	"math/big"
	"strconv"
	"strings"
	"sync"

	"pgregory.net/rapid"
	"src.elv.sh/pkg/eval"
	"src.elv.sh/pkg/eval/vals"
	"verif/elv"
	"verif/gen"
	"verif/vs"
)

// ---- case -----------------------------------------------------------------------

type c10Case struct {
	Profile string  `json:"profile"` // how Elems were generated (for the histogram only)
	Elems   []gen.V `json:"elems"`
	Rev     int     `json:"rev"`  // 0 no option, 1 &reverse, 2 &reverse=$true, 3 &reverse=$false
	Key     string  `json:"key"`  // "", elv-first, go-first, go-ident
	Cmp     string  `json:"cmp"`  // "", total, elv-default, elv-total, go:total, go:desc, go:const, go:mod, both
	Pipe    bool    `json:"pipe"` // inputs from the pipeline instead of an argument
	FailIn  string  `json:"failin"`
	FailAt  int     `json:"failat"` // the FailAt-th call of the FailIn callback throws (1-based)
	Bad     string  `json:"bad"`    // key-none key-two less-none less-two less-nonbool
	Late    int     `json:"late"`   // the throwing call first outputs: 0 nothing, 1 its proper single result, 2 two values
}

// ---- the independent comparator ---------------------------------------------------

func c10Kind(v any) string {
	switch v.(type) {
	case nil:
		return "nil"
	case bool:
		return "bool"
	case int, *big.Int, *big.Rat, float64:
		return "num"
	case string:
		return "str"
	case vals.List:
		return "list"
	case vals.Map:
		return "map"
	}
	return "other"
}

func c10Rat(x any) *big.Rat {
	switch x := x.(type) {
	case int:
		return new(big.Rat).SetInt64(int64(x))
	case *big.Int:
		return new(big.Rat).SetInt(x)
	case *big.Rat:
		return x
	}
	return nil
}

func c10Sign(x int) int {
	switch {
	case x < 0:
		return -1
	case x > 0:
		return 1
	}
	return 0
}

func c10CmpNum(a, b any) int {
	fa, af := a.(float64)
	fb, bf := b.(float64)
	switch {
	case af && bf:
		switch {
		case math.IsNaN(fa) && math.IsNaN(fb):
			return 0
		case math.IsNaN(fa):
			return -1
		case math.IsNaN(fb):
			return 1
		case fa < fb:
			return -1
		case fa > fb:
			return 1
		}
		return 0
	case !af && !bf:
		return c10Rat(a).Cmp(c10Rat(b))
	case af:
		return -c10CmpNum(b, a)
	}
	// a exact, b inexact
	// (cases where a is not exactly representable as float64 are not judged, see c10ScanNums)
	ra := c10Rat(a)
	switch {
	case math.IsNaN(fb):
		return 1
	case math.IsInf(fb, 1):
		return -1
	case math.IsInf(fb, -1):
		return 1
	}
	return ra.Cmp(new(big.Rat).SetFloat64(fb))
}

// c10Eq is Elvish equality written independently (type-exact on numbers).
func c10Eq(a, b any) bool {
	switch a := a.(type) {
	case nil:
		return b == nil
	case bool:
		y, ok := b.(bool)
		return ok && a == y
	case string:
		y, ok := b.(string)
		return ok && a == y
	case int:
		y, ok := b.(int)
		return ok && a == y
	case *big.Int:
		y, ok := b.(*big.Int)
		return ok && a.Cmp(y) == 0
	case *big.Rat:
		y, ok := b.(*big.Rat)
		return ok && a.Cmp(y) == 0
	case float64:
		y, ok := b.(float64)
		return ok && a == y
	case vals.List:
		y, ok := b.(vals.List)
		if !ok || a.Len() != y.Len() {
			return false
		}
		ia, ib := a.Iterator(), y.Iterator()
		for ia.HasElem() && ib.HasElem() {
			if !c10Eq(ia.Elem(), ib.Elem()) {
				return false
			}
			ia.Next()
			ib.Next()
		}
		return true
	case vals.Map:
		y, ok := b.(vals.Map)
		if !ok || a.Len() != y.Len() {
			return false
		}
		for ia := a.Iterator(); ia.HasElem(); ia.Next() {
			ka, va := ia.Elem()
			found := false
			for ib := y.Iterator(); ib.HasElem(); ib.Next() {
				kb, vb := ib.Elem()
				if c10Eq(ka, kb) {
					found = c10Eq(va, vb)
					break
				}
			}
			if !found {
				return false
			}
		}
		return true
	}
	return false
}

// c10Cmp returns (-1|0|1, true) or (0, false) when a and b are uncomparable.
func c10Cmp(a, b any, total bool, rank map[string]int) (int, bool) {
	ka, kb := c10Kind(a), c10Kind(b)
	if ka != kb {
		if total {
			return c10Sign(rank[ka] - rank[kb]), true
		}
		return 0, false
	}
	switch ka {
	case "nil":
		return 0, true
	case "bool":
		x, y := a.(bool), b.(bool)
		switch {
		case x == y:
			return 0, true
		case !x:
			return -1, true
		}
		return 1, true
	case "num":
		return c10CmpNum(a, b), true
	case "str":
		return strings.Compare(a.(string), b.(string)), true
	case "list":
		x, y := a.(vals.List), b.(vals.List)
		ix, iy := x.Iterator(), y.Iterator()
		for ix.HasElem() && iy.HasElem() {
			o, ok := c10Cmp(ix.Elem(), iy.Elem(), total, rank)
			if !ok {
				return 0, false
			}
			if o != 0 {
				return o, true
			}
			ix.Next()
			iy.Next()
		}
		return c10Sign(x.Len() - y.Len()), true
	}
	// unordered types: equal values compare 0; with &total same type compares 0
	if total || c10Eq(a, b) {
		return 0, true
	}
	return 0, false
}

// ---- the shared evaluator and its harness builtins ------------------------------

type c10State struct {
	c         c10Case
	vals      []any
	keyCalls  int
	lessCalls int
	threw     bool // a harness callback returned its error
	rank      map[string]int
}

var (
	c10Once sync.Once
	c10Ev   *eval.Evaler
	c10Cur  *c10State
	c10Rank map[string]int
	c10Init error
)

const c10Marker = "c10 callback failure"

type c10Failure struct{ where string }

func (e c10Failure) Error() string { return c10Marker + " in " + e.where }

func c10TagIndex(v any) int {
	l, ok := v.(vals.List)
	if !ok || l.Len() != 2 {
		return -1
	}
	t, _ := l.Index(1)
	s, ok := t.(string)
	if !ok || !strings.HasPrefix(s, "t") {
		return -1
	}
	n, err := strconv.Atoi(s[1:])
	if err != nil {
		return -1
	}
	return n
}

// c10GoLess is the meaning of the go:* comparators (also used by the oracle).
func c10GoLess(mode string, a, b any, rank map[string]int) int {
	switch mode {
	case "go:total":
		o, _ := c10Cmp(a, b, true, rank)
		return o
	case "go:desc":
		o, _ := c10Cmp(a, b, true, rank)
		return -o
	case "go:mod":
		return c10Sign((c10TagIndex(a)+3)%3 - (c10TagIndex(b)+3)%3)
	}
	return 0 // go:const: nothing is less than anything
}

func c10Setup() {
	c10Ev = elv.New()
	elv.AddGoFns(c10Ev, map[string]any{
		"c10-in": func() any {
			l := vals.EmptyList
			for _, v := range c10Cur.vals {
				l = l.Conj(v)
			}
			return l
		},
		"c10-feed": func(fm *eval.Frame) error {
			out := fm.ValueOutput()
			for _, v := range c10Cur.vals {
				if err := out.Put(v); err != nil {
					return err
				}
			}
			return nil
		},
		"c10-key": func(fm *eval.Frame, v any) error {
			s := c10Cur
			s.keyCalls++
			out := fm.ValueOutput()
			if s.c.FailIn == "key" && s.keyCalls == s.c.FailAt {
				s.threw = true
				for i := 0; i < s.c.Late; i++ {
					out.Put(v)
				}
				return c10Failure{"&key"}
			}
			switch s.c.Bad {
			case "key-none":
				return nil
			case "key-two":
				out.Put(v)
			}
			if s.c.Key == "go-first" {
				k, err := vals.Index(v, 0)
				if err != nil {
					return err
				}
				return out.Put(k)
			}
			return out.Put(v)
		},
		"c10-less": func(fm *eval.Frame, a, b any) error {
			s := c10Cur
			s.lessCalls++
			out := fm.ValueOutput()
			res := c10GoLess(s.c.Cmp, a, b, s.rank) < 0
			if s.c.FailIn == "less" && s.lessCalls == s.c.FailAt {
				s.threw = true
				for i := 0; i < s.c.Late; i++ {
					out.Put(res)
				}
				return c10Failure{"&less-than"}
			}
			switch s.c.Bad {
			case "less-none":
				return nil
			case "less-two":
				out.Put(res)
			case "less-nonbool":
				if res {
					return out.Put("true")
				}
				return out.Put(0)
			}
			return out.Put(res)
		},
	})
	// The order of types under &total is unspecified but consistent: learn it.
	reps := []struct{ kind, src string }{{"nil", "$nil"}, {"bool", "$true"}, {"num", "(num 1)"}, {"str", "a"}, {"list", "[a]"}, {"map", "[&a=b]"}}
	wins := map[string]int{}
	for _, x := range reps {
		for _, y := range reps {
			if x.kind == y.kind {
				continue
			}
			r := elv.Run(c10Ev, "compare &total "+x.src+" "+y.src)
			if r.Err != nil || len(r.Values) != 1 {
				c10Init = fmt.Errorf("compare &total %s %s: %v %s", x.src, y.src, r.Err, elv.Reprs(r.Values))
				return
			}
			switch r.Values[0] {
			case 1:
				wins[x.kind]++
			case -1:
			default:
				c10Init = fmt.Errorf("compare &total %s %s = %s, want -1 or 1 for different types", x.src, y.src, elv.Reprs(r.Values))
				return
			}
		}
	}
	c10Rank = map[string]int{}
	seen := map[int]bool{}
	for _, x := range reps {
		if seen[wins[x.kind]] {
			c10Init = fmt.Errorf("compare &total does not order the types nil/bool/num/str/list/map linearly: wins %v", wins)
			return
		}
		seen[wins[x.kind]] = true
		c10Rank[x.kind] = wins[x.kind]
	}
}

// ---- building the command ---------------------------------------------------------

func (c c10Case) command() string {
	var sb strings.Builder
	if c.Pipe {
		sb.WriteString("c10-feed | ")
	}
	sb.WriteString("order")
	switch c.Rev {
	case 1:
		sb.WriteString(" &reverse")
	case 2:
		sb.WriteString(" &reverse=$true")
	case 3:
		sb.WriteString(" &reverse=$false")
	}
	switch c.Key {
	case "elv-first":
		sb.WriteString(" &key={|l| put $l[0] }")
	case "go-first", "go-ident":
		sb.WriteString(" &key=$c10-key~")
	}
	switch c.Cmp {
	case "total":
		sb.WriteString(" &total")
	case "elv-default":
		sb.WriteString(" &less-than={|a b| == -1 (compare $a $b) }")
	case "elv-total":
		sb.WriteString(" &less-than={|a b| == -1 (compare &total=$true $a $b) }")
	case "both":
		sb.WriteString(" &total=$true &less-than=$c10-less~")
	case "":
	default:
		sb.WriteString(" &less-than=$c10-less~")
	}
	if !c.Pipe {
		sb.WriteString(" (c10-in)")
	}
	return sb.String()
}

func (c c10Case) reverse() bool { return c.Rev == 1 || c.Rev == 2 }

// ---- the check --------------------------------------------------------------------

func c10Ident(a, b any) bool {
	fa, ok1 := a.(float64)
	fb, ok2 := b.(float64)
	if ok1 || ok2 {
		return ok1 && ok2 && math.Float64bits(fa) == math.Float64bits(fb)
	}
	return a == b // strings, ints, bools by value; lists, maps, big numbers by pointer
}

type c10Verdict struct {
	outcome string // sorted | throws | either
	why     string
}

// c10Expected decides what the reference requires for this case; keys are the
// values the comparator sees. It does not look at order's result.
func c10Expected(s *c10State, keys []any) c10Verdict {
	c := s.c
	n := len(s.vals)
	if c.Cmp == "both" {
		return c10Verdict{"throws", "&total together with &less-than is an error"}
	}
	if c.Key == "go-first" || c.Key == "go-ident" {
		if n > 0 && (c.Bad == "key-none" || c.Bad == "key-two") {
			return c10Verdict{"throws", "the &key callback does not output exactly one value"}
		}
		if c.FailIn == "key" && c.FailAt >= 1 && c.FailAt <= n {
			return c10Verdict{"throws", fmt.Sprintf("the &key callback throws at call %d of %d", c.FailAt, n)}
		}
	}
	if n < 2 {
		return c10Verdict{"sorted", "fewer than two values"}
	}
	if strings.HasPrefix(c.Cmp, "go:") {
		if strings.HasPrefix(c.Bad, "less-") {
			return c10Verdict{"throws", "the &less-than callback does not output exactly one boolean"}
		}
		if s.threw {
			return c10Verdict{"throws", fmt.Sprintf("the &less-than callback threw at call %d", c.FailAt)}
		}
		return c10Verdict{"sorted", ""}
	}
	if c.Cmp == "total" || c.Cmp == "elv-total" {
		return c10Verdict{"sorted", ""}
	}
	// default comparator (or its documented &less-than equivalent)
	allScalar := true
	k0 := c10Kind(keys[0])
	for _, k := range keys {
		if kk := c10Kind(k); kk != k0 || (kk != "bool" && kk != "num" && kk != "str" && kk != "nil") {
			allScalar = false
			break
		}
	}
	if allScalar {
		return c10Verdict{"sorted", ""}
	}
	// union-find over comparable pairs
	parent := make([]int, n)
	for i := range parent {
		parent[i] = i
	}
	var find func(int) int
	find = func(i int) int {
		for parent[i] != i {
			parent[i] = parent[parent[i]]
			i = parent[i]
		}
		return i
	}
	complete := true
	for i := 0; i < n; i++ {
		for j := i + 1; j < n; j++ {
			if _, ok := c10Cmp(keys[i], keys[j], false, s.rank); ok {
				parent[find(i)] = find(j)
			} else {
				complete = false
			}
		}
	}
	if complete {
		return c10Verdict{"sorted", ""}
	}
	for i := 1; i < n; i++ {
		if find(i) != find(0) {
			return c10Verdict{"throws", "the values form groups without any comparable pair across them"}
		}
	}
	return c10Verdict{"either", "some pairs are uncomparable but the comparable pairs connect all values"}
}

func c10Check(c c10Case) error {
	c10Once.Do(c10Setup)
	if c10Init != nil {
		return c10Init
	}
	s := &c10State{c: c, rank: c10Rank}
	for _, e := range c.Elems {
		s.vals = append(s.vals, e.Elvish())
	}
	n := len(s.vals)
	// keys as the comparator sees them
	keys := s.vals
	if c.Key == "elv-first" || c.Key == "go-first" {
		keys = make([]any, n)
		for i, v := range s.vals {
			l, ok := v.(vals.List)
			if !ok || l.Len() == 0 {
				return nil // generator always supplies pairs here
			}
			keys[i], _ = l.Index(0)
		}
	}
	c10Cur = s
	cmd := c.command()
	res := elv.Run(c10Ev, cmd)
	c10Cur = nil
	if res.Err != nil && !elv.IsException(res.Err) {
		return fmt.Errorf("harness: %q does not compile: %v", cmd, res.Err)
	}
	want := c10Expected(s, keys)
	show := func() string {
		var parts []string
		for i, v := range s.vals {
			if i >= 24 {
				parts = append(parts, "…")
				break
			}
			parts = append(parts, vals.ReprPlain(v))
		}
		return fmt.Sprintf("%s on %d values [%s]", cmd, n, strings.Join(parts, " "))
	}
	// the comparator of this case
	cmp := func(a, b any) int {
		switch {
		case strings.HasPrefix(c.Cmp, "go:"):
			return c10GoLess(c.Cmp, a, b, s.rank)
		case c.Cmp == "total" || c.Cmp == "elv-total":
			o, _ := c10Cmp(a, b, true, s.rank)
			return o
		}
		o, _ := c10Cmp(a, b, false, s.rank)
		return o
	}
	if want.outcome != "throws" {
		var anyFloat, anyWide bool
		for _, k := range keys {
			c10ScanNums(k, &anyFloat, &anyWide)
		}
		if anyFloat && anyWide {
			// not judged: "numerically" is ambiguous when an exact number that
			// float64 cannot hold meets an inexact one
			vs.Excluded("mixed exact/inexact numbers beyond float64 precision")
			return nil
		}
	}
	threw := res.Err != nil
	if threw {
		if len(res.Values) != 0 || len(res.Bytes) != 0 {
			return fmt.Errorf("%s: threw (%v) after outputting %d values: %s", show(), res.Err, len(res.Values), elv.Reprs(res.Values))
		}
		if want.outcome == "sorted" {
			return fmt.Errorf("%s: all values are mutually comparable and no callback fails, but order threw: %v", show(), res.Err)
		}
		if s.threw {
			if r := elv.Reason(res.Err); r == nil || !strings.Contains(r.Error(), c10Marker) {
				return fmt.Errorf("%s: the callback's exception was not rethrown, got: %v", show(), res.Err)
			}
		}
		return nil
	}
	if want.outcome == "throws" {
		return fmt.Errorf("%s: must throw without output (%s), but output %d values: %s", show(), want.why, len(res.Values), elv.Reprs(res.Values))
	}
	if len(res.Bytes) != 0 {
		return fmt.Errorf("%s: wrote bytes %q", show(), res.Bytes)
	}
	if (c.Key == "go-first" || c.Key == "go-ident") && s.keyCalls != n {
		return fmt.Errorf("%s: &key callback called %d times for %d values", show(), s.keyCalls, n)
	}
	// permutation of the input objects; pos[k] = input index of output k
	if len(res.Values) != n {
		return fmt.Errorf("%s: %d values in, %d values out: %s", show(), n, len(res.Values), elv.Reprs(res.Values))
	}
	used := make([]bool, n)
	pos := make([]int, n)
	for k, o := range res.Values {
		found := -1
		for i := 0; i < n; i++ {
			if !used[i] && c10Ident(s.vals[i], o) {
				found = i
				break
			}
		}
		if found < 0 {
			return fmt.Errorf("%s: output %d (%s) is not one of the (remaining) input values; output %s", show(), k, vals.ReprPlain(o), elv.Reprs(res.Values))
		}
		used[found] = true
		pos[k] = found
	}
	if want.outcome == "either" {
		return nil
	}
	for k := 0; k+1 < n; k++ {
		o := cmp(keys[pos[k]], keys[pos[k+1]])
		if c.reverse() {
			o = -o
		}
		if o > 0 {
			return fmt.Errorf("%s: output %d (%s) comes before output %d (%s) although it sorts after it; output %s", show(), k, vals.ReprPlain(res.Values[k]), k+1, vals.ReprPlain(res.Values[k+1]), elv.Reprs(res.Values))
		}
		if o == 0 && pos[k] > pos[k+1] {
			return fmt.Errorf("%s: not stable: outputs %d and %d compare equal but were inputs %d and %d (%s, %s); output %s", show(), k, k+1, pos[k], pos[k+1], vals.ReprPlain(res.Values[k]), vals.ReprPlain(res.Values[k+1]), elv.Reprs(res.Values))
		}
	}
	return nil
}

// c10ScanNums notes whether v contains floats and exact numbers that float64 cannot hold.
func c10ScanNums(v any, anyFloat, anyWide *bool) {
	switch v := v.(type) {
	case float64:
		*anyFloat = true
	case *big.Int:
		// integers beyond int64 become ±Inf when they meet an inexact number
		// (documented for inexact-num: "may be converted to an infinite value")
		*anyWide = true
	case int, *big.Rat:
		if f, exact := c10Rat(v).Float64(); !exact || math.IsInf(f, 0) {
			*anyWide = true
		}
	case vals.List:
		for it := v.Iterator(); it.HasElem(); it.Next() {
			c10ScanNums(it.Elem(), anyFloat, anyWide)
		}
	}
}

// ---- generator ----------------------------------------------------------------------

func c10Num(kind, text string) gen.V { return gen.V{K: "num", N: &gen.Num{Kind: kind, Text: text}} }
func c10Str(s string) gen.V          { return gen.V{K: "str", S: vs.B(s)} }

// c10Pool draws a pool of scalars that are mutually comparable.
func c10Pool(t *rapid.T, kind string) []gen.V {
	k := rapid.IntRange(1, 6).Draw(t, "poolsize")
	var pool []gen.V
	for i := 0; i < k; i++ {
		switch kind {
		case "str":
			switch rapid.IntRange(0, 3).Draw(t, "strkind") {
			case 0:
				pool = append(pool, gen.V{K: "str", S: gen.Str(t, "s", 3)})
			case 1:
				pool = append(pool, c10Str(rapid.SampledFrom([]string{"", "a", "ab", "abc", "b", "B", "10", "9", "é", "z", "a\x00", "\xff", "\xc3"}).Draw(t, "s")))
			default:
				pool = append(pool, c10Str(rapid.StringMatching(`[ab]{0,3}`).Draw(t, "s")))
			}
		case "exact":
			n := gen.Number(t, "n", "iiibr")
			pool = append(pool, gen.V{K: "num", N: &n})
		case "float":
			n := gen.Number(t, "n", "f")
			pool = append(pool, gen.V{K: "num", N: &n})
		case "mixed":
			// the same small values in several representations; all exactly representable
			v := rapid.IntRange(-4, 4).Draw(t, "v")
			half := rapid.Bool().Draw(t, "half")
			switch rapid.IntRange(0, 2).Draw(t, "repr") {
			case 0:
				if half {
					pool = append(pool, c10Num("rat", fmt.Sprintf("%d/2", 2*v+1)))
				} else {
					pool = append(pool, c10Num("int", strconv.Itoa(v)))
				}
			default:
				f := float64(v)
				if half {
					f += 0.5
				}
				if f == 0 && rapid.Bool().Draw(t, "negzero") {
					f = math.Copysign(0, -1)
				}
				pool = append(pool, gen.V{K: "num", N: func() *gen.Num { x := gen.FloatNum(f); return &x }()})
			}
			if rapid.IntRange(0, 9).Draw(t, "special") == 0 {
				x := gen.FloatNum(rapid.SampledFrom([]float64{math.NaN(), math.Inf(1), math.Inf(-1), 1 << 53}).Draw(t, "sp"))
				pool = append(pool, gen.V{K: "num", N: &x})
			}
		case "bool":
			pool = append(pool, gen.V{K: "bool", B: rapid.Bool().Draw(t, "b")})
		}
	}
	return pool
}

// (rapid prefers the front of a SampledFrom list)
var c10Lens = []int{13, 21, 2, 12, 20, 40, 3, 22, 5, 11, 14, 19, 64, 100, 25, 33, 41, 7, 4, 150, 300, 1, 0}

func c10Gen(t *rapid.T, failing bool) c10Case {
	var c c10Case
	profiles := []string{"str", "exact", "float", "mixed", "bool", "pairs", "pairs", "lists", "eqmaps", "nils", "kinds", "partial"}
	c.Profile = rapid.SampledFrom(profiles).Draw(t, "profile")
	n := rapid.SampledFrom(c10Lens).Draw(t, "n")
	scalarKinds := []string{"str", "exact", "float", "mixed", "bool"}
	pick := func(pool []gen.V) gen.V { return pool[rapid.IntRange(0, len(pool)-1).Draw(t, "pick")] }
	switch c.Profile {
	case "str", "exact", "float", "mixed", "bool":
		pool := c10Pool(t, c.Profile)
		for i := 0; i < n; i++ {
			c.Elems = append(c.Elems, pick(pool))
		}
	case "pairs":
		pool := c10Pool(t, rapid.SampledFrom(scalarKinds).Draw(t, "keykind"))
		for i := 0; i < n; i++ {
			c.Elems = append(c.Elems, gen.V{K: "list", L: []gen.V{pick(pool), c10Str("t" + strconv.Itoa(i))}})
		}
	case "lists":
		if n > 64 {
			n = 64
		}
		pool := c10Pool(t, rapid.SampledFrom(scalarKinds).Draw(t, "elemkind"))
		for i := 0; i < n; i++ {
			l := gen.V{K: "list"}
			for j := rapid.IntRange(0, 3).Draw(t, "len"); j > 0; j-- {
				l.L = append(l.L, pick(pool))
			}
			if rapid.IntRange(0, 5).Draw(t, "nest") == 0 {
				l.L = append(l.L, gen.V{K: "list", L: []gen.V{pick(pool)}})
				l.L[0], l.L[len(l.L)-1] = l.L[len(l.L)-1], l.L[0]
				// nested list first: comparable only with other lists that start with a list
				l = gen.V{K: "list", L: []gen.V{{K: "list", L: l.L[1:]}}}
			}
			c.Elems = append(c.Elems, l)
		}
	case "eqmaps":
		if n > 40 {
			n = 40
		}
		m := gen.V{K: "map", M: []gen.KV{{Key: c10Str("k"), Val: c10Str("v")}, {Key: c10Num("int", "1"), Val: gen.V{K: "list"}}}}
		for i := 0; i < n; i++ {
			c.Elems = append(c.Elems, m)
		}
	case "nils":
		for i := 0; i < n; i++ {
			c.Elems = append(c.Elems, gen.V{K: "nil"})
		}
	case "kinds":
		// several types: uncomparable without &total
		if n > 64 {
			n = 64
		}
		var pools [][]gen.V
		for _, k := range scalarKinds {
			if rapid.Bool().Draw(t, "use"+k) {
				pools = append(pools, c10Pool(t, k))
			}
		}
		pools = append(pools, []gen.V{{K: "nil"}},
			[]gen.V{{K: "map"}, {K: "map", M: []gen.KV{{Key: c10Str("a"), Val: c10Str("b")}}}},
			[]gen.V{{K: "list"}, {K: "list", L: []gen.V{c10Str("a")}}, {K: "list", L: []gen.V{c10Num("int", "1")}}})
		for i := 0; i < n; i++ {
			c.Elems = append(c.Elems, pick(pools[rapid.IntRange(0, len(pools)-1).Draw(t, "pool")]))
		}
	case "partial":
		// lists [head tail]: heads mostly differ (comparable), equal heads expose tails of different types
		if n > 40 {
			n = 40
		}
		heads := c10Pool(t, "str")
		tails := []gen.V{c10Str("x"), c10Num("int", "1"), {K: "nil"}, c10Str("y")}
		for i := 0; i < n; i++ {
			c.Elems = append(c.Elems, gen.V{K: "list", L: []gen.V{pick(heads), pick(tails)}})
		}
	}
	c.Rev = rapid.SampledFrom([]int{0, 0, 1, 1, 2, 3}).Draw(t, "rev")
	c.Pipe = rapid.IntRange(0, 3).Draw(t, "pipe") == 0
	if c.Profile == "pairs" {
		c.Key = rapid.SampledFrom([]string{"elv-first", "elv-first", "go-first", ""}).Draw(t, "key")
	} else if rapid.IntRange(0, 5).Draw(t, "identkey") == 0 {
		c.Key = "go-ident"
	}
	cmps := []string{"", "", "", "total", "total", "elv-default", "elv-total", "go:total", "go:desc", "go:const"}
	if c.Profile == "pairs" && c.Key == "" {
		cmps = []string{"go:mod", "go:mod", "go:mod", "", "total", "elv-default", "go:desc", "go:const"}
	}
	c.Cmp = rapid.SampledFrom(cmps).Draw(t, "cmp")
	if n > 100 && strings.HasPrefix(c.Cmp, "elv-") {
		c.Cmp = "go:total" // keep the number of interpreted callback calls moderate
	}
	if failing {
		switch rapid.IntRange(0, 9).Draw(t, "failure") {
		case 0:
			c.Cmp = "both"
		case 1, 2:
			if c.Key == "" || c.Key == "elv-first" {
				c.Key = "go-ident"
				if c.Profile == "pairs" {
					c.Key = "go-first"
				}
			}
			c.FailIn = "key"
			c.FailAt = rapid.IntRange(1, n+1).Draw(t, "failat")
			if rapid.Bool().Draw(t, "lastcall") {
				c.FailAt = n
			}
		case 3:
			if c.Key == "" || c.Key == "elv-first" {
				c.Key = "go-ident"
				if c.Profile == "pairs" {
					c.Key = "go-first"
				}
			}
			c.Bad = rapid.SampledFrom([]string{"key-none", "key-two"}).Draw(t, "bad")
		case 4:
			if !strings.HasPrefix(c.Cmp, "go:") {
				c.Cmp = "go:total"
			}
			c.Bad = rapid.SampledFrom([]string{"less-none", "less-two", "less-nonbool"}).Draw(t, "bad")
		default:
			if !strings.HasPrefix(c.Cmp, "go:") {
				c.Cmp = rapid.SampledFrom([]string{"go:total", "go:desc", "go:const"}).Draw(t, "gocmp")
			}
			c.FailIn = "less"
			// 1..n-1 is reached by every sorting procedure; beyond that it depends
			c.FailAt = rapid.IntRange(1, 3*n+2).Draw(t, "failat")
			if rapid.Bool().Draw(t, "early") && n > 1 {
				c.FailAt = rapid.IntRange(1, n-1).Draw(t, "failat1")
			}
		}
		if c.FailIn != "" {
			// a callback that throws after it has already output its result
			c.Late = rapid.SampledFrom([]int{0, 0, 1, 1, 2}).Draw(t, "late")
		}
	}
	return c
}

func c10ClassOf(c c10Case) (string, bool) {
	c10Once.Do(c10Setup)
	if c10Init != nil {
		return "init-failed", true
	}
	n := len(c.Elems)
	size := "n<2"
	switch {
	case n >= 21:
		size = "n>20"
	case n >= 13:
		size = "n13-20"
	case n >= 2:
		size = "n2-12"
	}
	mode := "default"
	switch {
	case c.Cmp == "both":
		mode = "both"
	case c.FailIn != "":
		mode = "throwing-" + c.FailIn
		if c.Late > 0 {
			mode += "-after-output"
		}
	case c.Bad != "":
		mode = "bad-" + c.Bad
	case c.Cmp != "":
		mode = c.Cmp
	}
	if c.Key != "" {
		mode += "+key"
	}
	if c.reverse() {
		mode += "+rev"
	}
	// expected outcome, computed from the case alone (a throwing &less-than call
	// beyond the n-1 comparisons every procedure needs may or may not be reached)
	s := &c10State{c: c, rank: c10Rank}
	for _, e := range c.Elems {
		s.vals = append(s.vals, e.Elvish())
	}
	keys := s.vals
	if c.Key == "elv-first" || c.Key == "go-first" {
		keys = nil
		for _, v := range s.vals {
			k, _ := vals.Index(v, 0)
			keys = append(keys, k)
		}
	}
	s.threw = c.FailIn == "less" && c.FailAt >= 1 && c.FailAt <= n-1
	out := c10Expected(s, keys).outcome
	if c.FailIn == "less" && !s.threw && out == "sorted" && n >= 2 {
		out = "late-throw"
	}
	return c.Profile + "/" + mode + "/" + size + "/" + out, n >= 2
}

func init() {
	vs.Register(vs.Prop[c10Case]{
		Name: "C10/sorted",
		Rule: "sequences of length 0..300 (biased to 0-3, 11-14, 19-22 around the insertion-sort block of sort.Stable, and 40+) drawn with repetition from a pool of 1..6 values: strings (arbitrary bytes), exact numbers (int, big int, rational), floats (NaN, ±0, ±Inf), the same small numbers as int/rational/float (compare equal, distinguishable), booleans, [key tag] pairs with unique tags, lists (prefixes, nested), equal maps, nils, several types at once, [head tail] lists with uncomparable tails; options &reverse (3 spellings), &key (Elvish closure or Go callback), &total, &less-than as the documented Elvish equivalent of the default / &total comparator or a Go callback implementing total, descending, constant and tag-mod-3 orders; inputs as argument or from the pipeline; non-trivial = at least 2 values",
		Gen:   func(t *rapid.T) c10Case { return c10Gen(t, false) },
		Check: c10Check,
		Class: c10ClassOf,
		Quick: 1200, Thorough: 20000,
	})
	vs.Register(vs.Prop[c10Case]{
		Name: "C10/failure",
		Rule: "the same sequences and options with one failure injected: the &key or &less-than Go callback throws at a chosen call, before or after it has output its result (key: call 1..n+1; less-than: call 1..3n+2, half of them within the n-1 calls every sorting procedure needs), outputs no value / two values / a non-boolean, or &total is combined with &less-than; order must throw the callback's exception and output nothing, unless the failing call is never reached, in which case the result must be the stable sorted permutation; non-trivial = at least 2 values",
		Gen:   func(t *rapid.T) c10Case { return c10Gen(t, true) },
		Check: c10Check,
		Class: c10ClassOf,
		Quick: 500, Thorough: 8000,
	})
}
