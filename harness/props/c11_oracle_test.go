package props

// Oracle and evaluator plumbing shared by C11 (exact arithmetic) and C12
// (inexact arithmetic). The reference model is written from
// pkg/eval/builtin_fn_num.d.elv, pkg/mods/math/math.d.elv and the "Number"
// section of website/ref/language.md. It uses math/big only (no vals.*
// arithmetic, no big.Int.Exp, no big.Rat.Float64/SetFloat64).

import (
	"fmt"
	"math"
	"math/big"
	"strconv"
	"strings"
	"sync"

	"src.elv.sh/pkg/eval"
	"src.elv.sh/pkg/eval/vars"
	"src.elv.sh/pkg/parse"
	"verif/elv"
	"verif/gen"
)

// c11Call is one command invocation; it is the case type of every C11/C12 sub-check.
type c11Call struct {
	Cmd  string    `json:"cmd"`            // "+", "math:floor", "range", ...
	Args []gen.Num `json:"args"`           // positional arguments
	Step *gen.Num  `json:"step,omitempty"` // range &step
}

func (c c11Call) String() string {
	var sb strings.Builder
	sb.WriteString(c.Cmd)
	if c.Step != nil {
		sb.WriteString(" &step=" + c11NumText(*c.Step))
	}
	for _, a := range c.Args {
		sb.WriteString(" " + c11NumText(a))
	}
	return c11Short(sb.String())
}

func c11Short(s string) string {
	if len(s) > 600 {
		return s[:300] + "…" + s[len(s)-200:]
	}
	return s
}

// c11NumText is the string representation of a number as documented in
// language.md#number: decimal integer, a/b, or a float with a decimal point or
// exponent (so that it cannot be read as an integer), +Inf, -Inf, NaN.
func c11NumText(n gen.Num) string {
	if !n.IsFloat() {
		return n.Text
	}
	f := n.Float()
	switch {
	case c12IsNaN(f):
		return "NaN"
	case c12IsInf(f) && c12Neg(f):
		return "-Inf"
	case c12IsInf(f):
		return "+Inf"
	}
	s := strconv.FormatFloat(f, 'g', -1, 64)
	if !strings.ContainsAny(s, ".e") {
		s += ".0"
	}
	return s
}

var (
	c11MaxInt = big.NewInt(int64(math.MaxInt))
	c11MinInt = big.NewInt(int64(math.MinInt))
)

func c11FitsInt(z *big.Int) bool { return z.Cmp(c11MinInt) >= 0 && z.Cmp(c11MaxInt) <= 0 }

// c11NumOf wraps an exact value as a canonical gen.Num.
func c11NumOf(r *big.Rat) gen.Num {
	switch {
	case !r.IsInt():
		return gen.Num{Kind: "rat", Text: r.String()}
	case c11FitsInt(r.Num()):
		return gen.Num{Kind: "int", Text: r.Num().String()}
	}
	return gen.Num{Kind: "bigint", Text: r.Num().String()}
}

func c11IntNum(i int64) gen.Num { return c11NumOf(new(big.Rat).SetInt64(i)) }

func c11IsExactZero(n gen.Num) bool { return !n.IsFloat() && n.Exact().Sign() == 0 }

func c11IsExactInt(n gen.Num) bool { return !n.IsFloat() && n.Exact().IsInt() }

// c12Conv is the documented conversion of a number to floating point.
func c12Conv(n gen.Num) float64 {
	switch {
	case n.IsFloat():
		return n.Float()
	case n.Exact().IsInt():
		return c12ConvInt(n.Exact().Num())
	}
	return c12RoundRat(n.Exact())
}

// ---- expected outcome ------------------------------------------------------------

type c11Val struct {
	r *big.Rat // exact value, nil for an inexact one
	f float64
}

func (v c11Val) String() string {
	if v.r != nil {
		return "exact " + c11Short(v.r.RatString())
	}
	return fmt.Sprintf("float %v (bits %#x)", v.f, math.Float64bits(v.f))
}

type c11Want struct {
	exc    bool     // an exception is required
	either bool     // UNSPEC: an exception or vals are both accepted
	vals   []c11Val // required outputs
	rule   string   // which documented rule decided
}

func c11One(r *big.Rat, rule string) c11Want { return c11Want{vals: []c11Val{{r: r}}, rule: rule} }
func c11Float(f float64, rule string) c11Want {
	return c11Want{vals: []c11Val{{f: f}}, rule: rule}
}
func c11Exc(rule string) c11Want { return c11Want{exc: true, rule: rule} }

// c11RoundExact: the five integer-valued rounding functions on an exact rational.
func c11RoundExact(name string, r *big.Rat) *big.Int {
	num, den := r.Num(), r.Denom() // den > 0
	q, rem := new(big.Int).QuoRem(num, den, new(big.Int)) // truncated; rem has the sign of num
	one := big.NewInt(1)
	switch name {
	case "trunc":
		return q
	case "floor":
		if rem.Sign() < 0 {
			q.Sub(q, one)
		}
		return q
	case "ceil":
		if rem.Sign() > 0 {
			q.Add(q, one)
		}
		return q
	case "round", "round-to-even":
		twice := new(big.Int).Abs(rem)
		twice.Lsh(twice, 1)
		away := false
		switch twice.Cmp(den) {
		case 1:
			away = true
		case 0:
			away = name == "round" || q.Bit(0) == 1
		}
		if away {
			if r.Sign() < 0 {
				q.Sub(q, one)
			} else {
				q.Add(q, one)
			}
		}
		return q
	}
	panic("harness: c11RoundExact " + name)
}

// c11PowExact: base^e for a rational base and an integer exponent by repeated
// multiplication. ok=false means there is no exact result (0 to a negative power).
func c11PowExact(base *big.Rat, e *big.Int) (res *big.Rat, ok bool, err error) {
	one := big.NewRat(1, 1)
	if base.Sign() == 0 {
		switch e.Sign() {
		case -1:
			return nil, false, nil
		case 0:
			return one, true, nil
		}
		return new(big.Rat), true, nil
	}
	if new(big.Rat).Abs(base).Cmp(one) == 0 {
		if base.Sign() < 0 && e.Bit(0) == 1 {
			return big.NewRat(-1, 1), true, nil
		}
		return one, true, nil
	}
	if !e.IsInt64() || e.Int64() > 64 || e.Int64() < -64 {
		return nil, false, fmt.Errorf("harness: exponent %s outside the bounded domain", e)
	}
	n := e.Int64()
	b := new(big.Rat).Set(base)
	if n < 0 {
		n = -n
		b.Inv(b)
	}
	res = big.NewRat(1, 1)
	for i := int64(0); i < n; i++ {
		res.Mul(res, b)
	}
	return res, true, nil
}

const c11MaxRange = 1000

// c11MaxOutputs bounds what is kept of the value output of one call.
const c11MaxOutputs = 5000

// c11Expect computes the documented outcome of a call.
func c11Expect(c c11Call) (c11Want, error) {
	args := c.Args
	anyFloat := false
	for _, a := range args {
		if a.IsFloat() {
			anyFloat = true
		}
	}
	floats := func() []float64 {
		out := make([]float64, len(args))
		for i, a := range args {
			out[i] = c12Conv(a)
		}
		return out
	}
	fold := func(rule string) (c11Want, error) {
		f, err := c12Fold(c.Cmd, floats())
		if err != nil {
			return c11Want{}, err
		}
		return c11Float(f, rule), nil
	}
	switch c.Cmd {
	case "+":
		if anyFloat {
			return fold("IEEE sum folded from 0")
		}
		acc := new(big.Rat)
		for _, a := range args {
			acc.Add(acc, a.Exact())
		}
		return c11One(acc, "exact sum"), nil
	case "-":
		if len(args) == 0 {
			return c11Exc("- needs at least one argument"), nil
		}
		if anyFloat {
			return fold("IEEE difference folded from the first argument")
		}
		acc := new(big.Rat).Set(args[0].Exact())
		if len(args) == 1 {
			return c11One(acc.Neg(acc), "exact negation"), nil
		}
		for _, a := range args[1:] {
			acc.Sub(acc, a.Exact())
		}
		return c11One(acc, "exact difference"), nil
	case "*":
		zero, inf := false, false
		for _, a := range args {
			if c11IsExactZero(a) {
				zero = true
			}
			if a.IsFloat() && c12IsInf(a.Float()) {
				inf = true
			}
		}
		if zero && !inf {
			return c11One(new(big.Rat), "exact-zero rule of *"), nil
		}
		if anyFloat {
			return fold("IEEE product folded from 1")
		}
		acc := big.NewRat(1, 1)
		for _, a := range args {
			acc.Mul(acc, a.Exact())
		}
		return c11One(acc, "exact product"), nil
	case "/":
		if len(args) == 0 {
			return c11Want{}, fmt.Errorf("harness: / without arguments is cd /")
		}
		for _, a := range args[1:] {
			if c11IsExactZero(a) {
				return c11Exc("division by exact zero"), nil
			}
		}
		if c11IsExactZero(args[0]) {
			if len(args) == 1 {
				// UNSPEC: "/ $y is equivalent to / 1 $y" (exception) versus
				// "when $x-num is exact 0 and no $y-num is exact 0, the result is exact 0".
				return c11Want{either: true, vals: []c11Val{{r: new(big.Rat)}}, rule: "UNSPEC single-argument / 0"}, nil
			}
			return c11One(new(big.Rat), "exact-zero rule of /"), nil
		}
		if anyFloat {
			return fold("IEEE quotient folded from the first argument")
		}
		acc := new(big.Rat).Set(args[0].Exact())
		if len(args) == 1 {
			return c11One(acc.Inv(acc), "exact reciprocal"), nil
		}
		for _, a := range args[1:] {
			acc.Quo(acc, a.Exact())
		}
		return c11One(acc, "exact quotient"), nil
	case "%":
		if len(args) != 2 {
			return c11Want{}, fmt.Errorf("harness: %% with %d arguments", len(args))
		}
		if !c11IsExactInt(args[0]) || !c11IsExactInt(args[1]) {
			return c11Exc("% on something that is not an exact integer"), nil
		}
		a, b := args[0].Exact().Num(), args[1].Exact().Num()
		if b.Sign() == 0 {
			return c11Exc("% by zero"), nil
		}
		// remainder with the sign of a: a - b*trunc(a/b)
		q := c11RoundExact("trunc", new(big.Rat).SetFrac(a, b))
		rem := new(big.Int).Sub(a, q.Mul(q, b))
		return c11One(new(big.Rat).SetInt(rem), "remainder with the sign of the dividend"), nil
	case "range":
		if anyFloat || (c.Step != nil && c.Step.IsFloat()) {
			return c11Want{}, fmt.Errorf("harness: inexact range is outside C11")
		}
		var start, end *big.Rat
		switch len(args) {
		case 1:
			start, end = new(big.Rat), args[0].Exact()
		case 2:
			start, end = args[0].Exact(), args[1].Exact()
		default:
			return c11Want{}, fmt.Errorf("harness: range with %d arguments", len(args))
		}
		up := start.Cmp(end) <= 0
		var step *big.Rat
		switch {
		case c.Step != nil:
			step = c.Step.Exact()
			if step.Sign() == 0 {
				if start.Cmp(end) == 0 {
					// the documentation only rules out a negative (positive) step
					return c11Want{either: true, rule: "UNSPEC zero step on an empty range"}, nil
				}
				return c11Exc("zero step never reaches the end"), nil
			}
			if up != (step.Sign() > 0) {
				return c11Exc("step of the wrong sign"), nil
			}
		case up:
			step = big.NewRat(1, 1)
		default:
			step = big.NewRat(-1, 1)
		}
		w := c11Want{rule: "exact range"}
		for cur := new(big.Rat).Set(start); (up && cur.Cmp(end) < 0) || (!up && cur.Cmp(end) > 0); cur = new(big.Rat).Add(cur, step) {
			if len(w.vals) > c11MaxRange {
				return c11Want{}, fmt.Errorf("harness: range of more than %d elements", c11MaxRange)
			}
			w.vals = append(w.vals, c11Val{r: cur})
		}
		return w, nil
	case "math:abs", "math:ceil", "math:floor", "math:round", "math:round-to-even", "math:trunc":
		if len(args) != 1 {
			return c11Want{}, fmt.Errorf("harness: %s with %d arguments", c.Cmd, len(args))
		}
		name := strings.TrimPrefix(c.Cmd, "math:")
		if anyFloat {
			return c11Float(c12RoundFn(name, args[0].Float()), "IEEE "+name), nil
		}
		r := args[0].Exact()
		if name == "abs" {
			return c11One(new(big.Rat).Abs(r), "exact abs"), nil
		}
		return c11One(new(big.Rat).SetInt(c11RoundExact(name, r)), "exact "+name), nil
	case "math:min", "math:max":
		if anyFloat {
			return c11Want{}, fmt.Errorf("harness: inexact %s is outside C11/C12", c.Cmd)
		}
		if len(args) == 0 {
			return c11Exc(c.Cmd + " needs at least one argument"), nil
		}
		best := args[0].Exact()
		for _, a := range args[1:] {
			if d := a.Exact().Cmp(best); (c.Cmd == "math:max" && d > 0) || (c.Cmd == "math:min" && d < 0) {
				best = a.Exact()
			}
		}
		return c11One(best, "exact "+c.Cmd), nil
	case "math:pow":
		if len(args) != 2 || anyFloat || !c11IsExactInt(args[1]) {
			return c11Want{}, fmt.Errorf("harness: math:pow outside the exact domain")
		}
		base, e := args[0].Exact(), args[1].Exact().Num()
		res, ok, err := c11PowExact(base, e)
		if err != nil {
			return c11Want{}, err
		}
		if !ok {
			return c11Exc("zero to a negative power"), nil
		}
		if base.Sign() == 0 && e.Sign() == 0 {
			// the documentation does not say what 0^0 is
			return c11Want{either: true, vals: []c11Val{{r: res}}, rule: "UNSPEC 0^0"}, nil
		}
		return c11One(res, "exact power"), nil
	case "inexact-num":
		if len(args) != 1 {
			return c11Want{}, fmt.Errorf("harness: inexact-num with %d arguments", len(args))
		}
		return c11Float(c12Conv(args[0]), "documented conversion to floating point"), nil
	case "exact-num":
		if len(args) != 1 {
			return c11Want{}, fmt.Errorf("harness: exact-num with %d arguments", len(args))
		}
		if !anyFloat {
			return c11One(args[0].Exact(), "exact-num of an exact number"), nil
		}
		f := args[0].Float()
		if c12IsNaN(f) || c12IsInf(f) {
			return c11Exc("exact-num of infinity or NaN"), nil
		}
		return c11One(c12Exact(f), "exact binary value of a finite float"), nil
	}
	return c11Want{}, fmt.Errorf("harness: unknown command %q", c.Cmd)
}

// ---- evaluation through the real evaluator -----------------------------------------

var c11Evaler = sync.OnceValue(elv.New)

// c11Modes: "var" passes typed numbers (variables holding int, *big.Int,
// *big.Rat, float64), "str" passes their string representations.
var c11Modes = []string{"var", "str"}

func c11Eval(c c11Call, mode string) (elv.Result, string) {
	var sb strings.Builder
	sb.WriteString("use math; " + c.Cmd)
	nb := eval.BuildNs()
	put := func(name string, n gen.Num) {
		if mode == "var" {
			nb.AddVar(name, vars.FromInit(n.Value()))
			sb.WriteString("$" + name)
		} else {
			sb.WriteString("'" + c11NumText(n) + "'")
		}
	}
	if c.Step != nil {
		sb.WriteString(" &step=")
		put("step", *c.Step)
	}
	for i, a := range c.Args {
		sb.WriteString(" ")
		put("a"+strconv.Itoa(i), a)
	}
	if c.Cmd == "range" {
		// A range that never stops is cut off by the reader going away, so a
		// runaway loop shows up as a wrong output instead of a hang.
		nb.AddGoFn("c11-take", c11Take)
		sb.WriteString(" | c11-take " + strconv.Itoa(c11MaxOutputs))
	}
	code := sb.String()
	return c11Run(code, nb.Ns()), code
}

// c11Take copies up to n values and returns without draining its input, which
// tells the writer that its reader is gone.
func c11Take(fm *eval.Frame, n int) error {
	out, in := fm.ValueOutput(), fm.InputChan()
	for i := 0; i < n; i++ {
		v, ok := <-in
		if !ok {
			return nil
		}
		if err := out.Put(v); err != nil {
			return err
		}
	}
	return nil
}

// c11Run is elv.RunCtx without the two OS pipes per evaluation: the value
// output is a channel drained by a collector goroutine, byte output and stderr
// go to /dev/null (none of the commands under test writes bytes).
func c11Run(code string, global *eval.Ns) elv.Result {
	ch := make(chan any, 64)
	done := make(chan struct{})
	var values []any
	go func() {
		defer close(done)
		for v := range ch {
			if len(values) <= c11MaxOutputs { // a runaway producer is drained but not stored
				values = append(values, v)
			}
		}
	}()
	out := &eval.Port{File: eval.DevNull, Chan: ch}
	err := c11Evaler().Eval(parse.Source{Name: "[verif]", Code: code},
		eval.EvalCfg{Ports: []*eval.Port{nil, out, nil}, Global: global})
	close(ch)
	<-done
	return elv.Result{Values: values, Err: err}
}

// c11SameVal checks value and canonical Go representation.
func c11SameVal(got any, w c11Val) error {
	if w.r == nil {
		g, ok := got.(float64)
		if !ok {
			return fmt.Errorf("got %T %s, want the inexact number %v", got, c11Short(fmt.Sprint(got)), w.f)
		}
		if !c12SameFloat(g, w.f) {
			return fmt.Errorf("got float %v (bits %#x), want %v (bits %#x)", g, math.Float64bits(g), w.f, math.Float64bits(w.f))
		}
		return nil
	}
	want := c11Short(w.r.RatString())
	switch g := got.(type) {
	case int:
		if !w.r.IsInt() || w.r.Num().Cmp(big.NewInt(int64(g))) != 0 {
			return fmt.Errorf("got int %d, want exact %s", g, want)
		}
	case *big.Int:
		if g == nil {
			return fmt.Errorf("got nil *big.Int, want exact %s", want)
		}
		if !w.r.IsInt() || w.r.Num().Cmp(g) != 0 {
			return fmt.Errorf("got big integer %s, want exact %s", c11Short(g.String()), want)
		}
		if c11FitsInt(g) {
			return fmt.Errorf("not canonical: got *big.Int %s, which fits a machine integer", g)
		}
	case *big.Rat:
		if g == nil {
			return fmt.Errorf("got nil *big.Rat, want exact %s", want)
		}
		if g.Cmp(w.r) != 0 {
			return fmt.Errorf("got rational %s, want exact %s", c11Short(g.String()), want)
		}
		if g.IsInt() {
			return fmt.Errorf("not canonical: got *big.Rat %s, which is an integer", c11Short(g.String()))
		}
		if g.Num().Cmp(w.r.Num()) != 0 || g.Denom().Cmp(w.r.Denom()) != 0 {
			return fmt.Errorf("not canonical: got *big.Rat %s/%s, not in lowest terms", c11Short(g.Num().String()), c11Short(g.Denom().String()))
		}
	case float64:
		return fmt.Errorf("got inexact %v, want exact %s", g, want)
	default:
		return fmt.Errorf("got %T %s, want exact %s", got, c11Short(fmt.Sprint(got)), want)
	}
	return nil
}

func c11Compare(w c11Want, res elv.Result) error {
	if res.Err != nil {
		if !elv.IsException(res.Err) {
			return fmt.Errorf("harness: not an exception: %v", res.Err)
		}
		if !w.exc && !w.either {
			return fmt.Errorf("raised %q, want %s", c11Short(elv.Reason(res.Err).Error()), c11Vals(w.vals))
		}
		if len(res.Values) != 0 {
			return fmt.Errorf("raised %q after writing %d values", c11Short(elv.Reason(res.Err).Error()), len(res.Values))
		}
		return nil
	}
	if w.exc {
		return fmt.Errorf("output %s, want an exception", c11Short(elv.Reprs(res.Values)))
	}
	if len(res.Values) != len(w.vals) {
		return fmt.Errorf("output %d values %s, want %d: %s", len(res.Values), c11Short(elv.Reprs(res.Values)), len(w.vals), c11Vals(w.vals))
	}
	for i, v := range res.Values {
		if err := c11SameVal(v, w.vals[i]); err != nil {
			if len(w.vals) > 1 {
				return fmt.Errorf("value #%d: %v", i, err)
			}
			return err
		}
	}
	return nil
}

func c11Vals(vs []c11Val) string {
	var parts []string
	for i, v := range vs {
		if i == 6 {
			parts = append(parts, fmt.Sprintf("… (%d values)", len(vs)))
			break
		}
		parts = append(parts, v.String())
	}
	return "[" + strings.Join(parts, ", ") + "]"
}

// c11Check is the Check function of every C11/C12 sub-check: the call is made
// once with typed numbers and once with string representations.
func c11Check(c c11Call) error {
	w, err := c11Expect(c)
	if err != nil {
		return err
	}
	for _, mode := range c11Modes {
		res, code := c11Eval(c, mode)
		if err := c11Compare(w, res); err != nil {
			return fmt.Errorf("%s: %v (rule: %s; arguments passed as %s: %s)", c, err, w.rule, mode, c11Short(code))
		}
	}
	return nil
}

// c11Kind names the representation of an expected outcome for the histograms.
func c11Kind(w c11Want) string {
	switch {
	case w.either:
		return "unspec"
	case w.exc:
		return "exception"
	case len(w.vals) == 0:
		return "nothing"
	}
	v := w.vals[0]
	if v.r == nil {
		f := v.f
		switch {
		case c12IsNaN(f):
			return "NaN"
		case c12IsInf(f):
			return "Inf"
		case c12IsZero(f):
			if c12Neg(f) {
				return "-0.0"
			}
			return "+0.0"
		case math.Float64bits(f)&0x7ff0000000000000 == 0:
			return "subnormal"
		}
		return "float"
	}
	switch {
	case !v.r.IsInt():
		return "rat"
	case c11FitsInt(v.r.Num()):
		return "int"
	}
	return "bigint"
}
