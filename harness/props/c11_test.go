package props

// C11 Exact arithmetic is mathematically exact and canonical.
//
// Every sub-check draws a command and its arguments, computes the documented
// outcome with an independent rational-arithmetic model (c11_oracle_test.go)
// and makes the call through the real evaluator, once with typed numbers and
// once with their string representations. The Go type of every output is
// checked for canonical form (int / *big.Int outside the machine range /
// *big.Rat in lowest terms that is not an integer).
//
//   C11/arith   + - * /  with 0..6 exact arguments (/ : 1..6)
//   C11/zero    the exact-zero rules of * and / with inexact arguments present
//   C11/rem     %
//   C11/range   range with 1 or 2 arguments and &step, spans <= 200 elements
//   C11/round   math:abs ceil floor round round-to-even trunc
//   C11/minmax  math:min math:max
//   C11/pow     math:pow with an integer exponent, |e| <= 64

import (
	"math"
	"math/big"
	"strings"
	"time"

	"pgregory.net/rapid"
	"verif/gen"
	"verif/vs"
)

// c11Exact draws an exact number: machine ints (boundary biased), big ints and
// non-integer rationals.
func c11Exact(t *rapid.T, label string) gen.Num {
	return gen.Number(t, label, "iiiiibbrrr")
}

// c11Frac draws a small fraction in (-1, 1), often a tie.
func c11Frac(t *rapid.T, label string) *big.Rat {
	fr := [][2]int64{{1, 2}, {1, 2}, {-1, 2}, {-1, 2}, {1, 3}, {-1, 3}, {2, 3}, {-2, 3}, {1, 4}, {3, 4}, {-3, 4}, {499, 1000}, {501, 1000}, {-501, 1000}, {1, 1 << 40}, {-1, 1 << 40}}
	p := rapid.SampledFrom(fr).Draw(t, label)
	return big.NewRat(p[0], p[1])
}

// c11Integer draws an exact integer, machine or big.
func c11Integer(t *rapid.T, label string) *big.Int {
	if rapid.IntRange(0, 3).Draw(t, label+"?big") == 0 {
		return gen.BigInt(t, label)
	}
	return big.NewInt(gen.Int(t, label))
}

func c11Class(c c11Call) (string, bool) {
	w, err := c11Expect(c)
	if err != nil {
		return "harness-error", true
	}
	return c.Cmd + "→" + c11Kind(w), true
}

func c11HasByte(s string, b byte) bool { return strings.IndexByte(s, b) >= 0 }

// c11Reps summarises the argument representations, e.g. "ibr".
func c11Reps(args []gen.Num) string {
	var i, b, r, f bool
	for _, a := range args {
		switch a.Kind {
		case "int":
			i = true
		case "bigint":
			b = true
		case "rat":
			r = true
		default:
			f = true
		}
	}
	s := ""
	for _, p := range []struct {
		on bool
		c  string
	}{{i, "i"}, {b, "b"}, {r, "r"}, {f, "f"}} {
		if p.on {
			s += p.c
		}
	}
	return s
}

// ---- C11/arith ------------------------------------------------------------------

func c11GenArith(t *rapid.T) c11Call {
	c := c11Call{Cmd: rapid.SampledFrom([]string{"+", "-", "*", "/"}).Draw(t, "cmd")}
	lo := 0
	if c.Cmd == "/" {
		lo = 1 // "/" without arguments is "cd /", not arithmetic
	}
	// Machine-int boundary shape: a running value of +-1 or +-2 meets an int at
	// the edge of the machine range (and the other way round), the combinations
	// where hand-written overflow checks of a fast path are usually blind.
	if rapid.IntRange(0, 3).Draw(t, "?boundary-shape") == 0 {
		units := []int64{1, -1, -1, 1, 2, -2, 0}
		bounds := []int64{math.MinInt64, math.MaxInt64, math.MinInt64 + 1, math.MaxInt64 - 1, 1 << 62, -(1 << 62),
			1 << 31, -(1 << 31), 1 << 32, 3037000500, -3037000500, 3037000499, math.MinInt64 / 2, math.MaxInt64/2 + 1}
		nu := rapid.IntRange(0, 2).Draw(t, "nunits")
		for i := 0; i < nu; i++ {
			c.Args = append(c.Args, c11IntNum(rapid.SampledFrom(units[:6]).Draw(t, "unit")))
		}
		nb := rapid.IntRange(1, 2).Draw(t, "nbounds")
		for i := 0; i < nb; i++ {
			c.Args = append(c.Args, c11IntNum(rapid.SampledFrom(bounds).Draw(t, "bound")))
		}
		if rapid.Bool().Draw(t, "?tail") {
			c.Args = append(c.Args, c11IntNum(rapid.SampledFrom(units).Draw(t, "tailunit")))
		}
		if c.Cmd == "/" {
			for i := 1; i < len(c.Args); i++ {
				if c.Args[i].Text == "0" {
					c.Args[i] = c11IntNum(-1)
				}
			}
		}
		return c
	}
	n := rapid.IntRange(lo, 6).Draw(t, "n")
	for i := 0; i < n; i++ {
		c.Args = append(c.Args, c11Exact(t, "arg"))
	}
	// Cancellation: append the inverse of an earlier argument so that results
	// come back into a smaller representation.
	if n >= 1 && n < 6 && rapid.IntRange(0, 2).Draw(t, "?cancel") == 0 {
		j := rapid.IntRange(0, n-1).Draw(t, "cancel")
		x := c.Args[j].Exact()
		inv := new(big.Rat)
		switch c.Cmd {
		case "+":
			inv.Neg(x)
		case "-":
			if j == 0 {
				inv.Set(x)
			} else {
				inv.Neg(x)
			}
		case "*":
			if x.Sign() != 0 {
				inv.Inv(x)
			}
		case "/":
			if x.Sign() != 0 {
				if j == 0 {
					inv.Set(x)
				} else {
					inv.Inv(x)
				}
			}
		}
		if inv.Sign() != 0 {
			c.Args = append(c.Args, c11NumOf(inv))
			if rapid.Bool().Draw(t, "?nudge") {
				c.Args = append(c.Args, c11IntNum(int64(rapid.IntRange(-2, 2).Draw(t, "nudge"))))
			}
		}
	}
	if c.Cmd == "/" && len(c.Args) >= 2 && rapid.IntRange(0, 19).Draw(t, "?div0") == 0 {
		c.Args[rapid.IntRange(1, len(c.Args)-1).Draw(t, "div0")] = c11IntNum(0)
	}
	return c
}

// ---- C11/zero -------------------------------------------------------------------

func c11GenZero(t *rapid.T) c11Call {
	c := c11Call{Cmd: rapid.SampledFrom([]string{"*", "/"}).Draw(t, "cmd")}
	n := rapid.IntRange(2, 6).Draw(t, "n")
	for i := 0; i < n; i++ {
		if rapid.Bool().Draw(t, "?float") {
			f := gen.Float(t, "f")
			if c12IsInf(f) && rapid.IntRange(0, 3).Draw(t, "?keepinf") != 0 {
				f = 0 // keep infinities (which switch the rule of * off) at a few percent
			}
			c.Args = append(c.Args, gen.FloatNum(f))
		} else {
			c.Args = append(c.Args, c11Exact(t, "arg"))
		}
	}
	// at least one exact zero (for / mostly the first argument) and one float
	zi := rapid.IntRange(0, n-1).Draw(t, "zi")
	if c.Cmd == "/" && rapid.IntRange(0, 3).Draw(t, "?first") != 0 {
		zi = 0
	}
	fi := rapid.IntRange(0, n-2).Draw(t, "fi")
	if fi >= zi {
		fi++
	}
	if !c.Args[fi].IsFloat() {
		c.Args[fi] = gen.FloatNum(rapid.SampledFrom([]float64{0, math.Copysign(0, -1), 1.5, -2, math.NaN(), 1e300, 5e-324}).Draw(t, "fv"))
	}
	c.Args[zi] = c11IntNum(0)
	return c
}

func c11ClassZero(c c11Call) (string, bool) {
	w, err := c11Expect(c)
	if err != nil {
		return "harness-error", true
	}
	inf := false
	for _, a := range c.Args {
		if a.IsFloat() && c12IsInf(a.Float()) {
			inf = true
		}
	}
	k := c.Cmd + "→" + c11Kind(w)
	if w.vals != nil && w.vals[0].r != nil {
		k = c.Cmd + "→exact 0"
	}
	if inf {
		k += " (Inf present)"
	}
	return k, true
}

// ---- C11/rem --------------------------------------------------------------------

func c11GenRem(t *rapid.T) c11Call {
	c := c11Call{Cmd: "%"}
	a := c11Integer(t, "a")
	var b *big.Int
	switch rapid.IntRange(0, 5).Draw(t, "bkind") {
	case 0:
		b = big.NewInt(int64(rapid.SampledFrom([]int{1, -1, 2, -2, 3, -3, 7, 10, -10, 1 << 31}).Draw(t, "b")))
	case 1:
		// a divisor of a, or close to one
		b = new(big.Int).Set(a)
		b.Add(b, big.NewInt(int64(rapid.IntRange(-1, 1).Draw(t, "bd"))))
		if rapid.Bool().Draw(t, "?negb") {
			b.Neg(b)
		}
	default:
		b = c11Integer(t, "b")
	}
	if rapid.IntRange(0, 11).Draw(t, "?zero") == 0 {
		b = new(big.Int)
	}
	c.Args = []gen.Num{c11NumOf(new(big.Rat).SetInt(a)), c11NumOf(new(big.Rat).SetInt(b))}
	// sometimes an argument the documentation rules out
	if rapid.IntRange(0, 7).Draw(t, "?bad") == 0 {
		var bad gen.Num
		if rapid.Bool().Draw(t, "?badfloat") {
			bad = gen.FloatNum(rapid.SampledFrom([]float64{10, 3, 0, 0.5, math.Inf(1), math.NaN(), 1 << 53}).Draw(t, "badf"))
		} else {
			bad = gen.Number(t, "badr", "r")
		}
		c.Args[rapid.IntRange(0, 1).Draw(t, "badi")] = bad
	}
	return c
}

func c11ClassRem(c c11Call) (string, bool) {
	w, err := c11Expect(c)
	if err != nil {
		return "harness-error", true
	}
	if w.exc {
		return "%→exception (" + w.rule + ")", true
	}
	return "% " + c11Reps(c.Args) + "→" + c11Kind(w), true
}

// ---- C11/range ------------------------------------------------------------------

// c11GenRangeLimit: machine-integer ranges whose last element is within one
// step of the machine-integer limit, so that advancing once more would
// overflow (the implementation has to notice and stop).
func c11GenRangeLimit(t *rapid.T) c11Call {
	c := c11Call{Cmd: "range"}
	s := int64(rapid.SampledFrom([]int{1, 2, 3, 5, 7, 1000, 1 << 40, 1 << 62, math.MaxInt64}).Draw(t, "step"))
	j := rapid.Int64Range(0, s-1).Draw(t, "fromlimit")     // last = limit - j
	gap := rapid.Int64Range(1, j+1).Draw(t, "gap")         // end = last + gap <= limit
	n := int64(rapid.IntRange(1, 50).Draw(t, "n"))         // elements
	last := new(big.Int).Sub(c11MaxInt, big.NewInt(j))
	end := new(big.Int).Add(last, big.NewInt(gap))
	start := new(big.Int).Mul(big.NewInt(s), big.NewInt(n-1))
	start.Sub(last, start)
	if !c11FitsInt(start) {
		start.Set(last) // a single element
	}
	step := big.NewInt(s)
	if rapid.Bool().Draw(t, "?down") {
		// mirror at -1/2: x -> -1-x maps [.., MaxInt] onto [MinInt, ..]
		m := func(z *big.Int) { z.Neg(z).Sub(z, big.NewInt(1)) }
		m(start)
		m(end)
		step.Neg(step)
	}
	c.Args = []gen.Num{c11NumOf(new(big.Rat).SetInt(start)), c11NumOf(new(big.Rat).SetInt(end))}
	if s != 1 || rapid.Bool().Draw(t, "?explicit") {
		st := c11NumOf(new(big.Rat).SetInt(step))
		c.Step = &st
	}
	return c
}

func c11GenRange(t *rapid.T) c11Call {
	if rapid.IntRange(0, 9).Draw(t, "?limit") == 0 {
		return c11GenRangeLimit(t)
	}
	c := c11Call{Cmd: "range"}
	oneArg := rapid.IntRange(0, 3).Draw(t, "?onearg") == 0
	start := new(big.Rat)
	if !oneArg {
		start = c11Exact(t, "start").Exact()
	}
	var step *big.Rat
	hasStep := rapid.IntRange(0, 2).Draw(t, "?step") != 0
	if hasStep {
		switch rapid.IntRange(0, 3).Draw(t, "stepkind") {
		case 0:
			step = big.NewRat(int64(rapid.IntRange(1, 5).Draw(t, "step")), 1)
		case 1:
			step = big.NewRat(int64(rapid.IntRange(1, 9).Draw(t, "stepn")), int64(rapid.IntRange(1, 9).Draw(t, "stepd")))
		case 2:
			step = new(big.Rat).Abs(c11Exact(t, "step").Exact())
		default:
			step = new(big.Rat).SetInt(new(big.Int).Abs(c11Integer(t, "step")))
		}
		if step.Sign() == 0 {
			step = big.NewRat(1, 1)
		}
	} else {
		step = big.NewRat(1, 1)
	}
	if rapid.Bool().Draw(t, "?down") {
		step.Neg(step)
	}
	// end = start + step*(n - delta), 0 <= delta < 1, so exactly n elements
	n := rapid.SampledFrom([]int{0, 0, 1, 1, 2, 3, 4, 5, 7, 10, 33, 100, 200}).Draw(t, "n")
	span := new(big.Rat).Mul(step, big.NewRat(int64(n), 1))
	end := new(big.Rat).Add(start, span)
	if n > 0 {
		switch rapid.IntRange(0, 3).Draw(t, "delta") {
		case 0: // end is hit exactly (and excluded)
		case 1:
			if step.IsInt() {
				// an integer end strictly inside the last step
				d := new(big.Int).Abs(step.Num())
				d.Sub(d, big.NewInt(1))
				if k := big.NewInt(int64(rapid.IntRange(0, 3).Draw(t, "d"))); d.Cmp(k) > 0 {
					d = k
				}
				dd := new(big.Rat).SetInt(d)
				if step.Sign() > 0 {
					end.Sub(end, dd)
				} else {
					end.Add(end, dd)
				}
				break
			}
			fallthrough
		default:
			fr := new(big.Rat).Abs(c11Frac(t, "frac"))
			end.Sub(end, fr.Mul(fr, step))
		}
	}
	// Machine-integer overflow guard of the implementation: when everything
	// is a machine integer, clamp the end into the machine range so that
	// start+k*step leaves it.
	if start.IsInt() && step.IsInt() && end.IsInt() && c11FitsInt(start.Num()) && c11FitsInt(step.Num()) && !c11FitsInt(end.Num()) && rapid.Bool().Draw(t, "?clamp") {
		if end.Sign() > 0 {
			end.SetInt(c11MaxInt)
		} else {
			end.SetInt(c11MinInt)
		}
	}
	if oneArg {
		c.Args = []gen.Num{c11NumOf(end)}
	} else {
		c.Args = []gen.Num{c11NumOf(start), c11NumOf(end)}
	}
	if hasStep {
		// sometimes a step the documentation rules out
		switch rapid.IntRange(0, 14).Draw(t, "?badstep") {
		case 0:
			step.Neg(step)
		case 1:
			step = new(big.Rat)
		}
		s := c11NumOf(step)
		c.Step = &s
	}
	return c
}

func c11ClassRange(c c11Call) (string, bool) {
	w, err := c11Expect(c)
	if err != nil {
		return "harness-error", true
	}
	switch {
	case w.either:
		return "range→unspec (zero step, start = end)", false
	case w.exc:
		return "range→exception (" + w.rule + ")", true
	}
	all := append([]gen.Num(nil), c.Args...)
	if c.Step != nil {
		all = append(all, *c.Step)
	}
	reps := c11Reps(all)
	switch {
	case reps == "i":
		reps = "ints"
		// would one more step leave the machine range?
		if len(w.vals) > 0 {
			step := big.NewRat(1, 1)
			if c.Step != nil {
				step = c.Step.Exact()
			} else if len(c.Args) == 2 && c.Args[0].Exact().Cmp(c.Args[1].Exact()) > 0 {
				step = big.NewRat(-1, 1)
			}
			next := new(big.Rat).Add(w.vals[len(w.vals)-1].r, step)
			if !c11FitsInt(next.Num()) {
				reps = "ints next-step-overflows"
			}
		}
	case !c11HasByte(reps, 'r'):
		reps = "ints+bigints"
	default:
		reps = "rationals"
	}
	size := "empty"
	switch n := len(w.vals); {
	case n > 5:
		size = "6..200"
	case n > 0:
		size = "1..5"
	}
	// does the output change representation along the way?
	kinds := map[string]bool{}
	for _, v := range w.vals {
		kinds[c11Kind(c11Want{vals: []c11Val{v}})] = true
	}
	mix := ""
	if len(kinds) > 1 {
		mix = " mixed-output"
	}
	return "range " + reps + " " + size + mix, len(w.vals) > 0
}

// ---- C11/round ------------------------------------------------------------------

func c11GenRound(t *rapid.T) c11Call {
	c := c11Call{Cmd: "math:" + rapid.SampledFrom([]string{"abs", "ceil", "floor", "round", "round-to-even", "trunc"}).Draw(t, "fn")}
	switch rapid.IntRange(0, 5).Draw(t, "argkind") {
	case 0, 1:
		c.Args = []gen.Num{c11Exact(t, "arg")}
	case 2:
		// the machine-integer limits and their neighbours (abs of the minimum is a big integer)
		lim := rapid.SampledFrom([]*big.Int{c11MinInt, c11MinInt, c11MaxInt}).Draw(t, "limit")
		r := new(big.Rat).SetInt(lim)
		r.Add(r, big.NewRat(int64(rapid.IntRange(-1, 1).Draw(t, "off")), 1))
		c.Args = []gen.Num{c11NumOf(r)}
	default:
		// an integer (often at a representation boundary) plus a small fraction
		r := new(big.Rat).SetInt(c11Integer(t, "k"))
		r.Add(r, c11Frac(t, "frac"))
		c.Args = []gen.Num{c11NumOf(r)}
	}
	return c
}

func c11ClassRound(c c11Call) (string, bool) {
	w, err := c11Expect(c)
	if err != nil {
		return "harness-error", true
	}
	return c.Cmd + " " + c11Reps(c.Args) + "→" + c11Kind(w), true
}

// ---- C11/minmax -----------------------------------------------------------------

func c11GenMinMax(t *rapid.T) c11Call {
	c := c11Call{Cmd: rapid.SampledFrom([]string{"math:min", "math:max"}).Draw(t, "cmd")}
	n := rapid.IntRange(0, 6).Draw(t, "n")
	for i := 0; i < n; i++ {
		if i > 0 && rapid.IntRange(0, 2).Draw(t, "?near") == 0 {
			// a neighbour of an earlier argument: equal, or off by a little
			x := new(big.Rat).Set(c.Args[rapid.IntRange(0, i-1).Draw(t, "near")].Exact())
			switch rapid.IntRange(0, 3).Draw(t, "off") {
			case 0:
			case 1:
				x.Add(x, big.NewRat(int64(rapid.SampledFrom([]int{-1, 1}).Draw(t, "o1")), 1))
			default:
				x.Add(x, c11Frac(t, "frac"))
			}
			c.Args = append(c.Args, c11NumOf(x))
			continue
		}
		c.Args = append(c.Args, c11Exact(t, "arg"))
	}
	return c
}

func c11ClassMinMax(c c11Call) (string, bool) {
	w, err := c11Expect(c)
	if err != nil {
		return "harness-error", true
	}
	return c.Cmd + " " + c11Reps(c.Args) + "→" + c11Kind(w), len(c.Args) >= 2
}

// ---- C11/pow --------------------------------------------------------------------

func c11GenPow(t *rapid.T) c11Call {
	c := c11Call{Cmd: "math:pow"}
	var base gen.Num
	var e *big.Int
	switch rapid.IntRange(0, 11).Draw(t, "shape") {
	case 0:
		// zero base: 0^k, 0^0, 0^-k
		base = c11IntNum(0)
		e = big.NewInt(int64(rapid.IntRange(-64, 64).Draw(t, "e")))
		if rapid.IntRange(0, 3).Draw(t, "?bige") == 0 {
			e = gen.BigInt(t, "bige")
		}
	case 1:
		// unit base with any integer exponent, including big ones
		base = c11IntNum(int64(rapid.SampledFrom([]int{1, -1}).Draw(t, "unit")))
		e = c11Integer(t, "e")
	case 2, 3, 4:
		// small base: results cross the machine/big boundary (2^62, 2^63, 2^64, 3^40, 10^19 ...)
		base = c11IntNum(int64(rapid.SampledFrom([]int{2, -2, 3, -3, 4, 7, 10, -10, 16, 1 << 31, -(1 << 31), 1 << 32, 3037000499, 3037000500}).Draw(t, "small")))
		e = big.NewInt(int64(rapid.IntRange(-64, 64).Draw(t, "e")))
	default:
		base = c11Exact(t, "base")
		e = big.NewInt(int64(rapid.SampledFrom([]int{0, 1, -1, 2, -2, 3, -3, 4, 5, -5, 7, 16, -16, 63, 64, -64}).Draw(t, "e")))
	}
	c.Args = []gen.Num{base, c11NumOf(new(big.Rat).SetInt(e))}
	return c
}

func c11ClassPow(c c11Call) (string, bool) {
	w, err := c11Expect(c)
	if err != nil {
		return "harness-error", true
	}
	sign := "e>0"
	switch c.Args[1].Exact().Sign() {
	case 0:
		sign = "e=0"
	case -1:
		sign = "e<0"
	}
	return "pow " + c11Reps(c.Args[:1]) + " " + sign + "→" + c11Kind(w), true
}

// ---- registration ---------------------------------------------------------------

func init() {
	vs.Register(vs.Prop[c11Call]{
		Name:  "C11/arith",
		Rule:  "+ - * with 0..6 and / with 1..6 exact arguments (machine ints biased to 0, ±1, ±2^31, ±2^53, ±2^63 boundaries; big ints; non-integer rationals), in a third of the cases followed by the inverse of an earlier argument so that the result falls back into a smaller representation; each call is made with typed numbers and with strings; non-trivial = every case; classes = command × representation of the exact result",
		Gen:   c11GenArith,
		Check: c11Check,
		Class: c11Class,
		Quick: 7000, Thorough: 120000,
	})
	vs.Register(vs.Prop[c11Call]{
		Name:  "C11/zero",
		Rule:  "* and / with 2..6 arguments of which at least one is a float (±0, NaN, subnormal, huge, sometimes ±Inf) and at least one is exact 0 (for / mostly the first): result must be exact 0 (int) by the documented zero rules, an exception when a divisor is exact 0, and the IEEE result when * sees an infinity; non-trivial = every case",
		Gen:   c11GenZero,
		Check: c11Check,
		Class: c11ClassZero,
		Quick: 4000, Thorough: 60000,
	})
	vs.Register(vs.Prop[c11Call]{
		Name:  "C11/rem",
		Rule:  "% with two arguments: machine and big integers (divisors ±1, ±2, a±1, -a, random), 1/12 zero divisors, 1/8 with a rational or float argument (must raise); non-trivial = every case",
		Gen:   c11GenRem,
		Check: c11Check,
		Class: c11ClassRem,
		Quick: 4000, Thorough: 60000,
	})
	vs.Register(vs.Prop[c11Call]{
		Name:  "C11/range",
		Rule:  "range with one or two exact arguments and an optional exact &step; end is constructed as start+step*(n-delta) with n in 0..200 so the span is bounded; sometimes the end is clamped to the machine-integer limits, a tenth are machine-integer ranges whose last element is within one step of the limit (the next step would overflow); sometimes the step has the wrong sign or is zero (exception); every output is compared in value and representation; non-trivial = at least one element expected",
		Gen:   c11GenRange,
		Check: c11Check,
		Class: c11ClassRange,
		Quick: 2500, Thorough: 40000,
		Timeout: 20 * time.Second, // a range that does not stop is a hang; a case normally takes about 1 ms
	})
	vs.Register(vs.Prop[c11Call]{
		Name:  "C11/round",
		Rule:  "math:abs ceil floor round round-to-even trunc on one exact argument: any exact number, or an integer at a representation boundary plus a small fraction (ties ±1/2 are a quarter of those); non-trivial = every case",
		Gen:   c11GenRound,
		Check: c11Check,
		Class: c11ClassRound,
		Quick: 5000, Thorough: 80000,
	})
	vs.Register(vs.Prop[c11Call]{
		Name:  "C11/minmax",
		Rule:  "math:min / math:max with 0..6 exact arguments of mixed representation, a third of them equal to or slightly off an earlier argument; non-trivial = at least two arguments",
		Gen:   c11GenMinMax,
		Check: c11Check,
		Class: c11ClassMinMax,
		Quick: 3000, Thorough: 50000,
	})
	vs.Register(vs.Prop[c11Call]{
		Name:  "C11/pow",
		Rule:  "math:pow with an exact base and an integer exponent |e| <= 64 (bases 0 and ±1 also with big exponents): zero base incl. 0^-k (exception) and 0^0 (UNSPEC), small bases whose powers cross the machine/big boundary, any exact base with exponents from {0,±1,±2,±3,4,±5,7,±16,63,±64}; non-trivial = every case",
		Gen:   c11GenPow,
		Check: c11Check,
		Class: c11ClassPow,
		Quick: 4500, Thorough: 70000,
		Known: []vs.Known[c11Call]{
			{Key: "C11:pow-zero-negative", Case: c11Call{Cmd: "math:pow", Args: []gen.Num{c11IntNum(0), c11IntNum(-1)}}},
			{Key: "C11:pow-zero-negative", Case: c11Call{Cmd: "math:pow", Args: []gen.Num{c11IntNum(0), c11IntNum(-2)}}},
		},
	})
}
