package props

// Software IEEE-754 binary64 used by the C11/C12 oracles. Nothing here calls
// Elvish code, big.Rat.Float64/SetFloat64, big.Float or math.Ldexp/Floor/...:
// a double is decoded from its bit pattern into an exact rational, operations
// are carried out exactly in math/big and rounded to nearest-even by
// c12RoundRat, which assembles the bit pattern itself. The hardware operation
// is used as a second, independent opinion (c12Fold compares the two).

import (
	"fmt"
	"math"
	"math/big"
)

var (
	c12Pow1024 = new(big.Rat).SetInt(new(big.Int).Lsh(big.NewInt(1), 1024))
	// halfway between MaxFloat64 and 2^1024: 2^1024 - 2^970
	c12OverflowTie = new(big.Rat).SetInt(new(big.Int).Sub(new(big.Int).Lsh(big.NewInt(1), 1024), new(big.Int).Lsh(big.NewInt(1), 970)))
)

const c12SignBit = uint64(1) << 63

func c12IsNaN(f float64) bool {
	b := math.Float64bits(f)
	return b&0x7ff0000000000000 == 0x7ff0000000000000 && b&0x000fffffffffffff != 0
}

func c12IsInf(f float64) bool {
	return math.Float64bits(f)&^c12SignBit == 0x7ff0000000000000
}

func c12Neg(f float64) bool { return math.Float64bits(f)&c12SignBit != 0 }

func c12IsZero(f float64) bool { return math.Float64bits(f)&^c12SignBit == 0 }

func c12Signed(neg bool, magnitudeBits uint64) float64 {
	if neg {
		magnitudeBits |= c12SignBit
	}
	return math.Float64frombits(magnitudeBits)
}

func c12NaN() float64 { return math.Float64frombits(0x7ff8000000000001) }

// c12Exact decodes a finite double into its exact rational value.
func c12Exact(f float64) *big.Rat {
	b := math.Float64bits(f)
	e := int((b >> 52) & 0x7ff)
	m := b & 0x000fffffffffffff
	if e == 0x7ff {
		panic("c12Exact of non-finite")
	}
	if e == 0 {
		e = 1 // subnormal: m * 2^-1074
	} else {
		m |= 1 << 52
	}
	// value = m * 2^(e-1075)
	num := new(big.Int).SetUint64(m)
	q := e - 1075
	r := new(big.Rat)
	if q >= 0 {
		r.SetInt(num.Lsh(num, uint(q)))
	} else {
		r.SetFrac(num, new(big.Int).Lsh(big.NewInt(1), uint(-q)))
	}
	if b&c12SignBit != 0 {
		r.Neg(r)
	}
	return r
}

// c12RoundRat rounds an exact rational to the nearest double, ties to even,
// overflowing to an infinity and underflowing gradually to a zero of the sign
// of r. r == 0 gives +0.
func c12RoundRat(r *big.Rat) float64 {
	if r.Sign() == 0 {
		return 0
	}
	neg := r.Sign() < 0
	a := new(big.Int).Abs(r.Num())
	b := r.Denom()
	// e with 2^e <= a/b < 2^(e+1)
	e := a.BitLen() - b.BitLen()
	// compare a with b*2^e
	ge := func(e int) bool {
		if e >= 0 {
			return a.Cmp(new(big.Int).Lsh(b, uint(e))) >= 0
		}
		return new(big.Int).Lsh(a, uint(-e)).Cmp(b) >= 0
	}
	if !ge(e) {
		e--
	}
	if !ge(e) || ge(e+1) {
		panic("c12RoundRat: exponent search failed")
	}
	q := e - 52
	if q < -1074 {
		q = -1074
	}
	num, den := new(big.Int).Set(a), new(big.Int).Set(b)
	if q >= 0 {
		den.Lsh(den, uint(q))
	} else {
		num.Lsh(num, uint(-q))
	}
	m, rem := new(big.Int).QuoRem(num, den, new(big.Int))
	switch rem.Lsh(rem, 1).Cmp(den) {
	case 1:
		m.Add(m, big.NewInt(1))
	case 0:
		if m.Bit(0) == 1 {
			m.Add(m, big.NewInt(1))
		}
	}
	if !m.IsUint64() {
		panic("c12RoundRat: mantissa too large")
	}
	mm := m.Uint64()
	if mm > 1<<53 {
		panic("c12RoundRat: mantissa too large")
	}
	if mm == 1<<53 {
		mm >>= 1
		q++
	}
	if mm < 1<<52 {
		// subnormal or zero (q is -1074 here)
		if q != -1074 {
			panic("c12RoundRat: short mantissa with q != -1074")
		}
		return c12Signed(neg, mm)
	}
	biased := q + 1075
	if biased >= 0x7ff {
		return c12Signed(neg, 0x7ff0000000000000)
	}
	if biased < 1 {
		panic("c12RoundRat: biased exponent < 1")
	}
	return c12Signed(neg, uint64(biased)<<52|(mm&^(1<<52)))
}

// c12Nearest is the neighbour predicate: it reports an error unless f is the
// double nearest to the exact value x (ties to the even mantissa, overflow to
// the infinity of the sign of x). For x != 0 rounding to zero both zeros are
// accepted when anyZero is set, otherwise the zero must carry the sign of x.
func c12Nearest(x *big.Rat, f float64, anyZero bool) error {
	if c12IsNaN(f) {
		return fmt.Errorf("NaN is not the nearest double of %s", c11Short(x.RatString()))
	}
	ax := new(big.Rat).Abs(x)
	if c12IsInf(f) {
		if x.Sign() == 0 || c12Neg(f) != (x.Sign() < 0) || ax.Cmp(c12OverflowTie) < 0 {
			return fmt.Errorf("%v is not the nearest double of %s", f, c11Short(x.RatString()))
		}
		return nil
	}
	if x.Sign() == 0 {
		if math.Float64bits(f) != 0 {
			return fmt.Errorf("%v (bits %#x) is not the conversion of exact 0", f, math.Float64bits(f))
		}
		return nil
	}
	if c12IsZero(f) {
		if !anyZero && c12Neg(f) != (x.Sign() < 0) {
			return fmt.Errorf("zero of the wrong sign for %s", c11Short(x.RatString()))
		}
	} else if c12Neg(f) != (x.Sign() < 0) {
		return fmt.Errorf("%v has the wrong sign for %s", f, c11Short(x.RatString()))
	}
	// compare magnitudes
	mb := math.Float64bits(f) &^ c12SignBit
	fe := c12Exact(math.Float64frombits(mb))
	var lo, hi *big.Rat
	if mb > 0 {
		lo = c12Exact(math.Float64frombits(mb - 1))
	}
	if mb+1 < 0x7ff0000000000000 {
		hi = c12Exact(math.Float64frombits(mb + 1))
	} else {
		hi = c12Pow1024
	}
	d := new(big.Rat).Sub(ax, fe)
	d.Abs(d)
	even := mb&1 == 0
	for _, nb := range []*big.Rat{lo, hi} {
		if nb == nil {
			continue
		}
		dn := new(big.Rat).Sub(ax, nb)
		dn.Abs(dn)
		switch d.Cmp(dn) {
		case 1:
			return fmt.Errorf("%v (bits %#x) is not the nearest double of %s: a neighbour is closer", f, math.Float64bits(f), c11Short(x.RatString()))
		case 0:
			if !even {
				return fmt.Errorf("%v (bits %#x) is a tie for %s but has an odd mantissa", f, math.Float64bits(f), c11Short(x.RatString()))
			}
		}
	}
	return nil
}

// c12ConvInt is the documented conversion of an exact integer: nearest double
// inside the signed 64-bit range, an infinity of its sign outside.
func c12ConvInt(z *big.Int) float64 {
	if z.IsInt64() {
		return c12RoundRat(new(big.Rat).SetInt(z))
	}
	if z.Sign() < 0 {
		return c12Signed(true, 0x7ff0000000000000)
	}
	return c12Signed(false, 0x7ff0000000000000)
}

// ---- software operations -------------------------------------------------------

func c12SoftAdd(a, b float64) float64 {
	switch {
	case c12IsNaN(a) || c12IsNaN(b):
		return c12NaN()
	case c12IsInf(a) && c12IsInf(b):
		if c12Neg(a) != c12Neg(b) {
			return c12NaN()
		}
		return a
	case c12IsInf(a):
		return a
	case c12IsInf(b):
		return b
	}
	s := new(big.Rat).Add(c12Exact(a), c12Exact(b))
	if s.Sign() == 0 {
		// exact zero sum: -0 only if both operands are -0 (round to nearest)
		if c12IsZero(a) && c12IsZero(b) && c12Neg(a) && c12Neg(b) {
			return c12Signed(true, 0)
		}
		return 0
	}
	return c12RoundRat(s)
}

func c12SoftNeg(a float64) float64 {
	if c12IsNaN(a) {
		return c12NaN()
	}
	return math.Float64frombits(math.Float64bits(a) ^ c12SignBit)
}

func c12SoftSub(a, b float64) float64 { return c12SoftAdd(a, c12SoftNeg(b)) }

func c12SoftMul(a, b float64) float64 {
	if c12IsNaN(a) || c12IsNaN(b) {
		return c12NaN()
	}
	neg := c12Neg(a) != c12Neg(b)
	switch {
	case c12IsInf(a) || c12IsInf(b):
		if c12IsZero(a) || c12IsZero(b) {
			return c12NaN()
		}
		return c12Signed(neg, 0x7ff0000000000000)
	case c12IsZero(a) || c12IsZero(b):
		return c12Signed(neg, 0)
	}
	return c12RoundRat(new(big.Rat).Mul(c12Exact(a), c12Exact(b)))
}

func c12SoftDiv(a, b float64) float64 {
	if c12IsNaN(a) || c12IsNaN(b) {
		return c12NaN()
	}
	neg := c12Neg(a) != c12Neg(b)
	switch {
	case c12IsInf(a) && c12IsInf(b):
		return c12NaN()
	case c12IsInf(a):
		return c12Signed(neg, 0x7ff0000000000000)
	case c12IsInf(b):
		return c12Signed(neg, 0)
	case c12IsZero(b):
		if c12IsZero(a) {
			return c12NaN()
		}
		return c12Signed(neg, 0x7ff0000000000000)
	case c12IsZero(a):
		return c12Signed(neg, 0)
	}
	return c12RoundRat(new(big.Rat).Quo(c12Exact(a), c12Exact(b)))
}

// c12SameFloat: bit-identical, or both NaN.
func c12SameFloat(a, b float64) bool {
	if c12IsNaN(a) || c12IsNaN(b) {
		return c12IsNaN(a) && c12IsNaN(b)
	}
	return math.Float64bits(a) == math.Float64bits(b)
}

// c12Fold evaluates cmd over already converted arguments, once with the
// software operations and once with the hardware; the two must agree (a
// disagreement is a defect of the harness or the platform, reported as such).
func c12Fold(cmd string, xs []float64) (float64, error) {
	type ops struct {
		soft func(a, b float64) float64
		hard func(a, b float64) float64
	}
	table := map[string]ops{
		"+": {c12SoftAdd, func(a, b float64) float64 { return a + b }},
		"-": {c12SoftSub, func(a, b float64) float64 { return a - b }},
		"*": {c12SoftMul, func(a, b float64) float64 { return a * b }},
		"/": {c12SoftDiv, func(a, b float64) float64 { return a / b }},
	}
	op, ok := table[cmd]
	if !ok {
		return 0, fmt.Errorf("harness: c12Fold(%q)", cmd)
	}
	var soft, hard float64
	rest := xs
	switch cmd {
	case "+":
		soft, hard = 0, 0
	case "*":
		soft, hard = 1, 1
	default:
		if len(xs) == 0 {
			return 0, fmt.Errorf("harness: c12Fold(%q) without arguments", cmd)
		}
		if len(xs) == 1 {
			if cmd == "-" {
				soft, hard = c12SoftNeg(xs[0]), -xs[0]
			} else {
				soft, hard = c12SoftDiv(1, xs[0]), 1/xs[0]
			}
			rest = nil
		} else {
			soft, hard = xs[0], xs[0]
			rest = xs[1:]
		}
	}
	for _, x := range rest {
		soft, hard = op.soft(soft, x), op.hard(hard, x)
	}
	if !c12SameFloat(soft, hard) {
		return 0, fmt.Errorf("harness: software IEEE (%v, bits %#x) and hardware (%v, bits %#x) disagree for %s %v",
			soft, math.Float64bits(soft), hard, math.Float64bits(hard), cmd, xs)
	}
	return soft, nil
}

// c12RoundFn is the IEEE result of a rounding function or abs on a double,
// computed through exact rationals.
func c12RoundFn(name string, f float64) float64 {
	if name == "abs" {
		if c12IsNaN(f) {
			return c12NaN()
		}
		return math.Float64frombits(math.Float64bits(f) &^ c12SignBit)
	}
	if c12IsNaN(f) || c12IsInf(f) || c12IsZero(f) {
		return f
	}
	i := c11RoundExact(name, c12Exact(f))
	if i.Sign() == 0 {
		return c12Signed(c12Neg(f), 0)
	}
	out := c12RoundRat(new(big.Rat).SetInt(i))
	if c12IsInf(out) || c12Exact(out).Cmp(new(big.Rat).SetInt(i)) != 0 {
		panic(fmt.Sprintf("harness: %s(%v) = %s is not representable", name, f, i))
	}
	return out
}
