package props

// C12 Inexact arithmetic follows IEEE-754 after the documented conversion.
//
// The model (c11_oracle_test.go, c12_ieee_test.go) converts every exact
// argument with its own nearest-even rounding (integers outside the signed
// 64-bit range become an infinity, as documented for inexact-num), then folds
// in binary64: + from 0, * from 1, - and / from the first argument (negation /
// reciprocal when it is alone). Every step is computed twice, exactly in
// math/big followed by one rounding, and on the hardware; results are compared
// with Elvish's output bit for bit (all NaNs are one value).
//
//   C12/arith    + - * / with 1..6 arguments, at least one float
//   C12/round    math:floor ceil round round-to-even trunc abs on a float
//   C12/convert  inexact-num and exact-num on every representation

import (
	"fmt"
	"math"
	"math/big"

	"pgregory.net/rapid"
	"verif/gen"
	"verif/vs"
)

var c12Specials = []uint64{0, 1 << 63, 0x7ff0000000000000, 0xfff0000000000000, 0x7ff8000000000001, 0x3ff0000000000000, 0xbff0000000000000}

// c12Float draws a double: special values, the shared interesting patterns,
// and structured values whose exponents are grouped so that sums cancel and
// round, products overflow, underflow and land in the subnormals.
func c12Float(t *rapid.T, label string) float64 {
	switch rapid.IntRange(0, 9).Draw(t, label+"?") {
	case 0, 1:
		return math.Float64frombits(rapid.SampledFrom(c12Specials).Draw(t, label+"special"))
	case 2, 3, 4:
		return gen.Float(t, label)
	}
	var mant uint64
	switch rapid.IntRange(0, 3).Draw(t, label+"mant") {
	case 0:
		mant = uint64(rapid.SampledFrom([]int{0, 1, 1 << 51, 1<<51 + 1, 1<<52 - 1, 1<<52 - 2, 1 << 50, 3 << 50}).Draw(t, label+"m"))
	case 1:
		// few significant bits: exact products and sums
		mant = uint64(rapid.IntRange(0, 255).Draw(t, label+"m")) << 44
	default:
		mant = rapid.Uint64Range(0, 1<<52-1).Draw(t, label+"m")
	}
	groups := [][2]int{{-1074, -1060}, {-1030, -1020}, {-540, -530}, {-3, 3}, {-3, 3}, {-3, 3}, {50, 64}, {50, 64}, {510, 513}, {1020, 1023}}
	g := rapid.SampledFrom(groups).Draw(t, label+"grp")
	e := rapid.IntRange(g[0], g[1]).Draw(t, label+"exp")
	var bits uint64
	if e < -1022 {
		// subnormal: shift the mantissa down
		bits = (mant | 1<<52) >> uint(-1022-e)
	} else {
		bits = uint64(e+1023)<<52 | mant
	}
	if rapid.Bool().Draw(t, label+"neg") {
		bits |= c12SignBit
	}
	return math.Float64frombits(bits)
}

func c12Pow2(k uint) *big.Int { return new(big.Int).Lsh(big.NewInt(1), k) }

// c12HardExact draws exact numbers whose conversion to a double needs care:
// ties at 2^53.., integers at the signed 64-bit limits, rationals at the
// overflow threshold and (when tiny is set) below the smallest subnormal.
func c12HardExact(t *rapid.T, label string, tiny bool) gen.Num {
	neg := rapid.Bool().Draw(t, label+"neg")
	r := new(big.Rat)
	kinds := 7
	if tiny {
		kinds = 9
	}
	switch rapid.IntRange(0, kinds).Draw(t, label+"hard") {
	case 0:
		// integer tie or near-tie: m*2^k + 2^(k-1) + {-1,0,1}, m has 53 bits
		k := uint(rapid.IntRange(1, 10).Draw(t, label+"k"))
		m := new(big.Int).SetUint64(rapid.Uint64Range(1<<52, 1<<53-1).Draw(t, label+"m"))
		m.Lsh(m, k)
		m.Add(m, c12Pow2(k-1))
		m.Add(m, big.NewInt(int64(rapid.IntRange(-1, 1).Draw(t, label+"d"))))
		r.SetInt(m)
	case 1:
		// around the signed 64-bit limits: nearest double inside, infinity outside
		z := c12Pow2(63)
		z.Add(z, big.NewInt(int64(rapid.IntRange(-1100, 3).Draw(t, label+"d"))))
		r.SetInt(z)
	case 2:
		// rational tie or near-tie: (2m+1)/2 ± 1/2^20 with m >= 2^52, and m + 1/2 at 2^53.. (scaled)
		m := new(big.Int).SetUint64(rapid.Uint64Range(1<<52, 1<<53-1).Draw(t, label+"m"))
		r.SetInt(m)
		r.Add(r, big.NewRat(1, 2))
		r.Add(r, big.NewRat(int64(rapid.IntRange(-1, 1).Draw(t, label+"d")), 1<<20))
		sh := rapid.IntRange(-60, 60).Draw(t, label+"sh")
		if sh >= 0 {
			r.Mul(r, new(big.Rat).SetInt(c12Pow2(uint(sh))))
		} else {
			r.Quo(r, new(big.Rat).SetInt(c12Pow2(uint(-sh))))
		}
	case 3:
		// non-integer rationals beyond the signed 64-bit range (nearest double, not an infinity)
		z := gen.BigInt(t, label+"big")
		r.SetInt(z.Abs(z))
		r.Add(r, big.NewRat(1, int64(rapid.IntRange(2, 9).Draw(t, label+"den"))))
	case 4:
		// at the overflow threshold 2^1024 - 2^970 (a tie that rounds to infinity): (2*T + d)/2... kept a non-integer
		z := new(big.Int).Lsh(c12OverflowTie.Num(), 1)
		z.Add(z, big.NewInt(int64(2*rapid.IntRange(-2, 2).Draw(t, label+"d")+1)))
		r.SetFrac(z, big.NewInt(2))
	case 5:
		// far beyond the double range
		r.SetFrac(new(big.Int).Add(c12Pow2(1100), big.NewInt(1)), big.NewInt(3))
	case 6:
		r.SetFrac(big.NewInt(int64(rapid.IntRange(1, 99).Draw(t, label+"n"))), big.NewInt(int64(rapid.SampledFrom([]int{3, 7, 10, 100, 1000}).Draw(t, label+"den"))))
		if r.IsInt() {
			r.Add(r, big.NewRat(1, 3))
		}
	case 7:
		// subnormal range: k/2^1074 + small fraction of an ulp
		k := int64(rapid.IntRange(1, 5).Draw(t, label+"k"))
		r.SetFrac(big.NewInt(k*4+int64(rapid.IntRange(-2, 2).Draw(t, label+"q"))), c12Pow2(1076))
		if neg && c12IsZero(c12RoundRat(r)) {
			neg = false
		}
	case 8:
		// half of the smallest subnormal and its neighbours: (2^40 + d) / 2^1115
		r.SetFrac(new(big.Int).Add(c12Pow2(40), big.NewInt(int64(rapid.IntRange(-1, 1).Draw(t, label+"d")))), c12Pow2(1115))
	default:
		// 10^-k, far below and around the subnormals
		k := rapid.SampledFrom([]int{300, 308, 320, 323, 324, 325, 400}).Draw(t, label+"k")
		den := big.NewInt(1)
		for i := 0; i < k; i++ {
			den.Mul(den, big.NewInt(10))
		}
		r.SetFrac(big.NewInt(int64(rapid.IntRange(1, 9).Draw(t, label+"n"))), den)
	}
	if neg {
		r.Neg(r)
	}
	return c11NumOf(r)
}

// c12SelfCheckConv applies the neighbour predicate to the model's own
// conversions (a failure is a harness defect).
func c12SelfCheckConv(args []gen.Num) error {
	for _, a := range args {
		if a.IsFloat() {
			continue
		}
		x := a.Exact()
		if x.IsInt() && !x.Num().IsInt64() {
			continue // documented: becomes an infinity
		}
		if err := c12Nearest(x, c12Conv(a), false); err != nil {
			return fmt.Errorf("harness: model conversion: %v", err)
		}
	}
	return nil
}

// ---- C12/arith ------------------------------------------------------------------

func c12GenArith(t *rapid.T) c11Call {
	c := c11Call{Cmd: rapid.SampledFrom([]string{"+", "-", "*", "/"}).Draw(t, "cmd")}
	n := rapid.IntRange(1, 6).Draw(t, "n")
	fi := rapid.IntRange(0, n-1).Draw(t, "fi")
	for i := 0; i < n; i++ {
		switch k := rapid.IntRange(0, 9).Draw(t, "kind"); {
		case i == fi || k < 5:
			c.Args = append(c.Args, gen.FloatNum(c12Float(t, "f")))
		case k < 8:
			c.Args = append(c.Args, gen.Number(t, "x", "iiibrr"))
		default:
			c.Args = append(c.Args, c12HardExact(t, "h", false))
		}
	}
	// Cases decided by an exact-zero rule (or a division by exact zero) belong
	// to C11/zero: turn the exact zeros into inexact ones.
	w, err := c11Expect(c)
	if err == nil && (w.exc || w.either || (len(w.vals) == 1 && w.vals[0].r != nil)) {
		vs.Excluded("exact zero argument decided by a zero rule (covered by C11/zero); replaced by 0.0")
		for i, a := range c.Args {
			if c11IsExactZero(a) {
				c.Args[i] = gen.FloatNum(0)
			}
		}
	}
	return c
}

func c12CheckArith(c c11Call) error {
	if err := c12SelfCheckConv(c.Args); err != nil {
		return err
	}
	return c11Check(c)
}

func c12ClassArith(c c11Call) (string, bool) {
	w, err := c11Expect(c)
	if err != nil {
		return "harness-error", true
	}
	if w.exc || w.either || w.vals[0].r != nil {
		return c.Cmd + "→" + c11Kind(w) + " (zero rule)", false
	}
	mix := " floats only"
	if r := c11Reps(c.Args); r != "f" {
		mix = " mixed with exact"
	}
	return c.Cmd + "→" + c11Kind(w) + mix, true
}

// ---- C12/round ------------------------------------------------------------------

func c12GenRound(t *rapid.T) c11Call {
	c := c11Call{Cmd: "math:" + rapid.SampledFrom([]string{"abs", "ceil", "floor", "round", "round-to-even", "trunc"}).Draw(t, "fn")}
	var f float64
	switch rapid.IntRange(0, 5).Draw(t, "argkind") {
	case 0, 1:
		f = c12Float(t, "f")
	case 2:
		// halves: k + 0.5
		f = float64(rapid.IntRange(-6, 5).Draw(t, "k")) + 0.5
	case 3:
		// neighbours of halves and of integers, including 0.49999999999999994
		base := float64(rapid.IntRange(-4, 4).Draw(t, "k")) + rapid.SampledFrom([]float64{0, 0.5}).Draw(t, "half")
		f = base
		steps := rapid.IntRange(-2, 2).Draw(t, "ulps")
		for i := 0; i < steps; i++ {
			f = math.Float64frombits(c12NextUp(f))
		}
		for i := 0; i > steps; i-- {
			f = math.Float64frombits(c12NextDown(f))
		}
	case 4:
		// where the spacing of doubles reaches 1/2, 1 and 2: 2^51, 2^52, 2^53
		b := math.Float64bits(float64(uint64(1) << uint(rapid.IntRange(51, 53).Draw(t, "p"))))
		f = math.Float64frombits(uint64(int64(b) + int64(rapid.IntRange(-3, 3).Draw(t, "d"))))
		if rapid.Bool().Draw(t, "neg") {
			f = -f
		}
	default:
		f = float64(rapid.IntRange(-100000, 100000).Draw(t, "n")) / float64(rapid.SampledFrom([]int{1, 2, 3, 4, 7, 8, 10, 1000}).Draw(t, "d"))
	}
	c.Args = []gen.Num{gen.FloatNum(f)}
	return c
}

// c12NextUp / c12NextDown step one ulp on the bit pattern (finite inputs).
func c12NextUp(f float64) uint64 {
	b := math.Float64bits(f)
	switch {
	case b == c12SignBit || b == 0:
		return 1
	case b&c12SignBit != 0:
		return b - 1
	}
	return b + 1
}

func c12NextDown(f float64) uint64 {
	b := math.Float64bits(f)
	switch {
	case b == c12SignBit || b == 0:
		return c12SignBit | 1
	case b&c12SignBit != 0:
		return b + 1
	}
	return b - 1
}

func c12ClassRound(c c11Call) (string, bool) {
	w, err := c11Expect(c)
	if err != nil {
		return "harness-error", true
	}
	f := c.Args[0].Float()
	in := "fraction"
	switch {
	case c12IsNaN(f) || c12IsInf(f) || c12IsZero(f):
		in = "special"
	case c12Exact(f).IsInt():
		in = "integer"
	case new(big.Rat).Mul(c12Exact(f), big.NewRat(2, 1)).IsInt():
		in = "half"
	}
	return c.Cmd + " " + in + "→" + c11Kind(w), true
}

// ---- C12/convert ----------------------------------------------------------------

func c12GenConvert(t *rapid.T) c11Call {
	c := c11Call{Cmd: rapid.SampledFrom([]string{"inexact-num", "inexact-num", "exact-num"}).Draw(t, "cmd")}
	var a gen.Num
	if c.Cmd == "inexact-num" {
		switch rapid.IntRange(0, 9).Draw(t, "kind") {
		case 0:
			a = gen.FloatNum(c12Float(t, "f"))
		case 1, 2:
			a = gen.Number(t, "x", "ib")
		case 3:
			a = gen.Number(t, "x", "r")
		case 4:
			// machine integers with more than 53 significant bits
			a = c11IntNum(rapid.Int64().Draw(t, "i"))
		default:
			a = c12HardExact(t, "h", true)
		}
	} else {
		switch rapid.IntRange(0, 9).Draw(t, "kind") {
		case 0:
			a = gen.Number(t, "x", "ibr")
		case 1:
			// integer-valued doubles around the machine-integer limit
			b := math.Float64bits(math.Ldexp(1, rapid.IntRange(62, 64).Draw(t, "p")))
			f := math.Float64frombits(uint64(int64(b) + int64(rapid.IntRange(-2, 2).Draw(t, "d"))))
			if rapid.Bool().Draw(t, "neg") {
				f = -f
			}
			a = gen.FloatNum(f)
		default:
			a = gen.FloatNum(c12Float(t, "f"))
		}
	}
	c.Args = []gen.Num{a}
	return c
}

func c12CheckConvert(c c11Call) error {
	w, err := c11Expect(c)
	if err != nil {
		return err
	}
	a := c.Args[0]
	// UNSPEC: the sign of the zero an underflowing negative rational converts to
	// ("nearest double" does not tell -0.0 from 0.0).
	underflow := c.Cmd == "inexact-num" && !a.IsFloat() && a.Exact().Sign() != 0 && c12IsZero(w.vals[0].f)
	for _, mode := range c11Modes {
		res, code := c11Eval(c, mode)
		fail := func(err error) error {
			return fmt.Errorf("%s: %v (rule: %s; argument passed as %s: %s)", c, err, w.rule, mode, c11Short(code))
		}
		if underflow && res.Err == nil && len(res.Values) == 1 {
			if g, ok := res.Values[0].(float64); ok && c12IsZero(g) {
				continue
			}
		}
		if err := c11Compare(w, res); err != nil {
			return fail(err)
		}
		// second opinion on the observed conversion: the neighbour predicate
		if c.Cmd == "inexact-num" && !a.IsFloat() && !(a.Exact().IsInt() && !a.Exact().Num().IsInt64()) {
			if err := c12Nearest(a.Exact(), res.Values[0].(float64), true); err != nil {
				return fail(err)
			}
		}
		// exact-num of a float must convert back to the same float
		if c.Cmd == "exact-num" && a.IsFloat() && res.Err == nil {
			back := c12RoundRat(w.vals[0].r)
			if !c12SameFloat(back, a.Float()) && !(c12IsZero(back) && c12IsZero(a.Float())) {
				return fmt.Errorf("harness: decoding %v gives %s, which does not round back", a.Float(), w.vals[0].r)
			}
		}
	}
	return nil
}

func c12ClassConvert(c c11Call) (string, bool) {
	w, err := c11Expect(c)
	if err != nil {
		return "harness-error", true
	}
	a := c.Args[0]
	in := a.Kind
	if c.Cmd == "inexact-num" && !a.IsFloat() {
		x := a.Exact()
		f := w.vals[0].f
		switch {
		case x.IsInt() && !x.Num().IsInt64():
			in += " outside int64"
		case c12IsInf(f) || c12IsZero(f) && x.Sign() != 0:
			in += " out of range"
		case c12Exact(f).Cmp(x) == 0:
			in += " representable"
		default:
			in += " rounded"
			// a tie?
			mb := math.Float64bits(f) &^ c12SignBit
			fe := c12Exact(math.Float64frombits(mb))
			d := new(big.Rat).Sub(new(big.Rat).Abs(x), fe)
			d.Abs(d)
			if mb+1 < 0x7ff0000000000000 {
				ulp := new(big.Rat).Sub(c12Exact(math.Float64frombits(mb+1)), fe)
				if d.Mul(d, big.NewRat(2, 1)).Cmp(ulp) == 0 {
					in += " (tie)"
				}
			}
		}
	}
	return c.Cmd + " " + in + "→" + c11Kind(w), true
}

// ---- registration ---------------------------------------------------------------

func init() {
	vs.Register(vs.Prop[c11Call]{
		Name:  "C12/arith",
		Rule:  "+ - * / with 1..6 arguments, at least one float (specials ±0 ±Inf NaN 20%, shared interesting bit patterns 30%, structured doubles with exponents grouped around the subnormals, 2^-535, 1, 2^50..64, 2^511, 2^1023 so that sums cancel and products over/underflow); the other arguments are floats (half), exact numbers of every representation, or exact numbers that are hard to convert (integer and rational ties at 2^53.., the signed 64-bit limits, rationals beyond them and at the overflow threshold); exact zeros that trigger a zero rule are replaced by 0.0 (counted as excluded); non-trivial = result decided by IEEE folding",
		Gen:   c12GenArith,
		Check: c12CheckArith,
		Class: c12ClassArith,
		Quick: 12000, Thorough: 200000,
	})
	vs.Register(vs.Prop[c11Call]{
		Name:  "C12/round",
		Rule:  "math:abs ceil floor round round-to-even trunc on one float: specials, halves k+0.5, neighbours (±2 ulp) of halves and integers incl. 0.49999999999999994, the 2^51..2^53 region where doubles stop having fractions, n/d quotients, structured doubles; expected value computed through exact rationals with the IEEE sign-of-zero rule; non-trivial = every case",
		Gen:   c12GenRound,
		Check: c11Check,
		Class: c12ClassRound,
		Quick: 8000, Thorough: 120000,
	})
	vs.Register(vs.Prop[c11Call]{
		Name:  "C12/convert",
		Rule:  "inexact-num on machine ints (random 64-bit, ties m*2^k+2^(k-1)±1), integers around ±2^63 and beyond (infinity), rationals (ties, beyond int64, at the overflow threshold 2^1024-2^970, subnormal range, half the smallest subnormal, 10^-k) and floats; exact-num on floats of every class (subnormal, huge, integer-valued around 2^63, -0.0, Inf/NaN → exception) and on exact numbers; the observed inexact-num result is also checked with the neighbour predicate; non-trivial = every case",
		Gen:   c12GenConvert,
		Check: c12CheckConvert,
		Class: c12ClassConvert,
		Quick: 10000, Thorough: 150000,
	})
}
