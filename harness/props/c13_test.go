package props

// C13 Indexing and slicing follow the language reference exactly.
//
// Oracle: c13Resolve, written from website/ref/language.md (sections List,
// String, Indexing, set) and the doc of assoc: non-negative index = offset from
// the front, negative = offset from the back; a..b with defaults 0 and length;
// a..=b includes element b; valid iff 0 <= a' <= b' <= n; strings use byte
// offsets that must be codepoint boundaries. Everything else must raise an
// exception. UNSPEC spots (exception or the listed value accepted):
//   * a..= with the upper bound omitted (value: a..n);
//   * an inclusive slice whose result would be empty, i.e. b' = a'-1, which
//     contains `..=-1` on an empty list and `..=(-n-1)` (value: empty slice at a');
//   * bounds that are not in the form -?[1-9][0-9]*|-?0 (leading +, leading
//     zeros, 0x.., 1_0, 1.0, 1e0, blanks ...) and integral float64 typed
//     numbers: exception, or the result for any integer reading of the text;
//   * assoc / set with a slice on a list ("not yet supported"): not judged.
//
//   C13/enum    exhaustive: lists of length 0..6 and 15 strings (ASCII length
//               0..6, é, aé, éa, 世界x, a<U+FFFD>b, emoji ...) x every index text a,
//               a..b, a..=b with each bound omitted or in [-8,8] and typed ints in
//               [-8,8]; Index, assoc and `set x[i] = v` through the evaluator and
//               vals.Index / vals.Assoc / vals.ConvertListIndex directly.
//   C13/random  lists up to length 40 and random valid UTF-8 strings with huge,
//               overflowing, odd-looking and typed (big int, rational, float) bounds.

import (
	"fmt"
	"math"
	"math/big"
	"regexp"
	"strconv"
	"strings"
	"sync"
	"unicode/utf8"

	"pgregory.net/rapid"
	"src.elv.sh/pkg/eval"
	"src.elv.sh/pkg/eval/vals"
	"verif/elv"
	"verif/gen"
	"verif/vs"
)

// ---- case data ------------------------------------------------------------------

type c13Cont struct {
	List bool `json:"list"`
	N    int  `json:"n,omitempty"` // list: elements e0..e(N-1)
	S    vs.B `json:"s,omitempty"` // string content (valid UTF-8)
}

type c13Form struct {
	Typed *gen.Num `json:"typed,omitempty"` // typed number index; otherwise the string Lo+Sep+Hi
	Lo    string   `json:"lo,omitempty"`
	Sep   string   `json:"sep,omitempty"` // "", "..", "..="
	Hi    string   `json:"hi,omitempty"`
}

func (f c13Form) text() string { return f.Lo + f.Sep + f.Hi }

func (f c13Form) isSlice() bool { return f.Typed == nil && strings.Contains(f.text(), "..") }

func (f c13Form) String() string {
	if f.Typed != nil {
		return fmt.Sprintf("(num %s %s)", f.Typed.Kind, f.Typed.Text)
	}
	return strconv.Quote(f.text())
}

func (c c13Cont) length() int {
	if c.List {
		return c.N
	}
	return len(c.S)
}

func (c c13Cont) String() string {
	if c.List {
		return fmt.Sprintf("list of %d", c.N)
	}
	return fmt.Sprintf("string %q (%d bytes)", string(c.S), len(c.S))
}

// ---- the reference model --------------------------------------------------------

type c13Res struct {
	Slice  bool
	Lo, Hi int // element Lo (Hi = Lo+1 for lists, end of the codepoint for strings) or range [Lo,Hi)
}

type c13Want struct {
	Must string // "value": exactly Alts[0]; "error": an exception; "either": an exception or one of Alts
	Alts []c13Res
}

func c13Small(x *big.Int) (int, bool) {
	if x.BitLen() > 40 {
		return 0, false
	}
	return int(x.Int64()), true
}

// c13Resolve is the reference semantics for canonical integer bounds (nil = omitted).
func c13Resolve(n int, slice bool, lo, hi *big.Int, incl bool) (string, c13Res) {
	rel := func(x int) int {
		if x < 0 {
			return n + x // offset counting from the back
		}
		return x
	}
	if !slice {
		v, ok := c13Small(lo)
		if !ok {
			return "error", c13Res{}
		}
		r := rel(v)
		if r < 0 || r >= n {
			return "error", c13Res{}
		}
		return "value", c13Res{false, r, r + 1}
	}
	a := 0
	if lo != nil {
		v, ok := c13Small(lo)
		if !ok {
			return "error", c13Res{}
		}
		a = rel(v)
	}
	if a < 0 || a > n {
		return "error", c13Res{}
	}
	if hi == nil {
		if incl {
			return "either", c13Res{true, a, n} // UNSPEC: a..= without upper bound
		}
		return "value", c13Res{true, a, n}
	}
	v, ok := c13Small(hi)
	if !ok {
		return "error", c13Res{}
	}
	b := rel(v)
	if incl {
		b++ // includes element b
	}
	if b < a || b > n {
		return "error", c13Res{}
	}
	if incl && b == a {
		return "either", c13Res{true, a, a} // UNSPEC: "includes $li[$b]" but nothing is included
	}
	return "value", c13Res{true, a, b}
}

var c13Canonical = regexp.MustCompile(`^-?(0|[1-9][0-9]*)$`)

// c13Readings returns the integer readings of a bound text: canonical texts have
// exactly one and exact=true; other texts have zero or more lenient readings.
func c13Readings(text string) (exact bool, vals []*big.Int) {
	if c13Canonical.MatchString(text) {
		v, _ := new(big.Int).SetString(text, 10)
		return true, []*big.Int{v}
	}
	body := strings.TrimSpace(text)
	neg := false
	if strings.HasPrefix(body, "+") {
		body = body[1:]
	} else if strings.HasPrefix(body, "-") {
		body, neg = body[1:], true
	}
	add := func(v *big.Int) {
		if neg {
			v = new(big.Int).Neg(v)
		}
		for _, w := range vals {
			if w.Cmp(v) == 0 {
				return
			}
		}
		vals = append(vals, v)
	}
	if body == "" || strings.ContainsAny(body, "+-") && !strings.ContainsAny(body, "eEpP") {
		return false, nil
	}
	if v, ok := new(big.Int).SetString(body, 0); ok {
		add(v)
	}
	if v, ok := new(big.Int).SetString(strings.ReplaceAll(body, "_", ""), 10); ok {
		add(v)
	}
	if f, _, err := big.ParseFloat(strings.ReplaceAll(body, "_", ""), 0, 2000, big.ToNearestEven); err == nil && f.IsInt() {
		v, _ := f.Int(nil)
		add(v)
	}
	return false, vals
}

// c13Split decomposes an index text into lower bound, separator and upper bound.
func c13Split(text string) c13Form {
	i := strings.Index(text, "..")
	if i < 0 {
		return c13Form{Lo: text}
	}
	if strings.HasPrefix(text[i:], "..=") {
		return c13Form{Lo: text[:i], Sep: "..=", Hi: text[i+3:]}
	}
	return c13Form{Lo: text[:i], Sep: "..", Hi: text[i+2:]}
}

// c13Model gives the expected outcome of indexing a list of length n with f.
func c13Model(n int, f c13Form) c13Want {
	if f.Typed != nil {
		switch f.Typed.Kind {
		case "int":
			v, _ := new(big.Int).SetString(f.Typed.Text, 10)
			st, r := c13Resolve(n, false, v, nil, false)
			if st == "error" {
				return c13Want{Must: "error"}
			}
			return c13Want{Must: st, Alts: []c13Res{r}}
		case "float":
			x := f.Typed.Float()
			if math.IsNaN(x) || math.IsInf(x, 0) || x != math.Trunc(x) {
				return c13Want{Must: "error"}
			}
			v, _ := new(big.Float).SetFloat64(x).Int(nil)
			st, r := c13Resolve(n, false, v, nil, false)
			if st == "error" {
				return c13Want{Must: "error"}
			}
			return c13Want{Must: "either", Alts: []c13Res{r}} // UNSPEC: inexact integer
		default: // bigint: beyond every length; rat: not an integer
			return c13Want{Must: "error"}
		}
	}
	// The index is one string; what counts is its text. A slice is a..b or
	// a..=b with integers a and b, so the first ".." is the separator.
	f = c13Split(f.text())
	slice := f.Sep != ""
	type bound struct {
		omitted bool
		vals    []*big.Int
	}
	allExact := true
	parse := func(text string) (bound, bool) {
		if slice && text == "" {
			return bound{omitted: true, vals: []*big.Int{nil}}, true
		}
		exact, vs := c13Readings(text)
		if !exact {
			allExact = false
		}
		return bound{vals: vs}, len(vs) > 0
	}
	lo, ok := parse(f.Lo)
	if !ok {
		return c13Want{Must: "error"}
	}
	hi := bound{vals: []*big.Int{nil}}
	if slice {
		if hi, ok = parse(f.Hi); !ok {
			return c13Want{Must: "error"}
		}
	}
	var alts []c13Res
	must := "value"
	for _, l := range lo.vals {
		for _, h := range hi.vals {
			st, r := c13Resolve(n, slice, l, h, f.Sep == "..=")
			if st == "error" {
				continue
			}
			if st == "either" {
				must = "either"
			}
			alts = append(alts, r)
		}
	}
	if len(alts) == 0 {
		return c13Want{Must: "error"}
	}
	if !allExact {
		must = "either"
	}
	return c13Want{Must: must, Alts: alts}
}

// c13Boundaries: byte offsets where a codepoint of the valid UTF-8 string starts, plus len(s).
func c13Boundaries(s string) []bool {
	b := make([]bool, len(s)+1)
	for i := range s {
		b[i] = true
	}
	b[len(s)] = true
	return b
}

// c13ForString turns the list model into the string model: offsets are byte
// offsets and must be codepoint boundaries; a single index yields the codepoint.
func c13ForString(s string, w c13Want) c13Want {
	bd := c13Boundaries(s)
	var alts []c13Res
	for _, r := range w.Alts {
		if r.Slice {
			if bd[r.Lo] && bd[r.Hi] {
				alts = append(alts, r)
			}
			continue
		}
		if !bd[r.Lo] {
			continue
		}
		end := r.Lo + 1
		for !bd[end] {
			end++
		}
		alts = append(alts, c13Res{false, r.Lo, end})
	}
	if len(alts) == 0 {
		return c13Want{Must: "error"}
	}
	return c13Want{Must: w.Must, Alts: alts}
}

func c13Expect(c c13Cont, f c13Form) c13Want {
	w := c13Model(c.length(), f)
	if !c.List {
		w = c13ForString(string(c.S), w)
	}
	return w
}

// ---- observed outcomes ----------------------------------------------------------

type c13Got struct {
	Err string // non-empty: an exception with this reason
	Val any
}

func c13FromErr(v any, err error) c13Got {
	if err != nil {
		return c13Got{Err: "exception: " + err.Error()}
	}
	return c13Got{Val: v}
}

const c13New = "NEW"
const c13NewStr = "Xé"

func c13Elem(i int) string { return "e" + strconv.Itoa(i) }

func c13ListStrings(v any) ([]string, bool) {
	l, ok := v.(vals.List)
	if !ok {
		return nil, false
	}
	out := []string{}
	for it := l.Iterator(); it.HasElem(); it.Next() {
		s, ok := it.Elem().(string)
		if !ok {
			return nil, false
		}
		out = append(out, s)
	}
	if len(out) != l.Len() {
		return nil, false
	}
	return out, true
}

func c13Show(v any) string {
	if v == nil {
		return "$nil"
	}
	return vals.ReprPlain(v)
}

// c13Matches reports whether the observed value is what alternative r specifies
// for operation op ("index" or "assoc").
func c13Matches(c c13Cont, r c13Res, op string, got any) bool {
	if !c.List {
		s := string(c.S)
		want := s[r.Lo:r.Hi]
		if op == "assoc" {
			want = s[:r.Lo] + c13NewStr + s[r.Hi:]
		}
		g, ok := got.(string)
		return ok && g == want
	}
	if op == "index" && !r.Slice {
		g, ok := got.(string)
		return ok && g == c13Elem(r.Lo)
	}
	g, ok := c13ListStrings(got)
	if !ok {
		return false
	}
	var want []string
	if op == "index" {
		for i := r.Lo; i < r.Hi; i++ {
			want = append(want, c13Elem(i))
		}
	} else {
		for i := 0; i < c.N; i++ {
			if i == r.Lo {
				want = append(want, c13New)
			} else {
				want = append(want, c13Elem(i))
			}
		}
	}
	if len(g) != len(want) {
		return false
	}
	for i := range g {
		if g[i] != want[i] {
			return false
		}
	}
	return true
}

func c13Describe(c c13Cont, w c13Want, op string) string {
	var parts []string
	for _, r := range w.Alts {
		switch {
		case op == "assoc":
			parts = append(parts, fmt.Sprintf("replacement of exactly [%d,%d)", r.Lo, r.Hi))
		case r.Slice || !c.List:
			parts = append(parts, fmt.Sprintf("part [%d,%d)", r.Lo, r.Hi))
		default:
			parts = append(parts, fmt.Sprintf("element %d", r.Lo))
		}
	}
	switch w.Must {
	case "error":
		return "an exception"
	case "value":
		return strings.Join(parts, " or ")
	}
	return "an exception or " + strings.Join(parts, " or ")
}

// c13Judge compares one observation with the model.
func c13Judge(c c13Cont, f c13Form, w c13Want, op, via string, g c13Got) error {
	if op == "assoc" && f.isSlice() {
		if c.List {
			return nil // UNSPEC: assoc with a slice on a list is "not yet supported"
		}
		if g.Err != "" {
			return nil // UNSPEC: assoc with a slice on a string is not documented; a value must be the exact replacement
		}
	}
	fail := func() error {
		obs := g.Err
		if obs == "" {
			obs = "value " + c13Show(g.Val)
		}
		return fmt.Errorf("%s of %s with index %s via %s: the reference specifies %s, observed %s", op, c, f, via, c13Describe(c, w, op), obs)
	}
	if g.Err != "" {
		if w.Must == "value" {
			return fail()
		}
		return nil
	}
	if w.Must == "error" {
		return fail()
	}
	for _, r := range w.Alts {
		if c13Matches(c, r, op, g.Val) {
			return nil
		}
	}
	return fail()
}

// ---- direct observation through vals --------------------------------------------

func (c c13Cont) value() any {
	if !c.List {
		return string(c.S)
	}
	l := vals.EmptyList
	for i := 0; i < c.N; i++ {
		l = l.Conj(c13Elem(i))
	}
	return l
}

func (c c13Cont) repl() string {
	if c.List {
		return c13New
	}
	return c13NewStr
}

func (f c13Form) goIndex() any {
	if f.Typed != nil {
		return f.Typed.Value()
	}
	return f.text()
}

func c13Direct(c c13Cont, f c13Form, w c13Want) error {
	v := c.value()
	idx := f.goIndex()
	if err := c13Judge(c, f, w, "index", "vals.Index", c13FromErr(vals.Index(v, idx))); err != nil {
		return err
	}
	if err := c13Judge(c, f, w, "assoc", "vals.Assoc", c13FromErr(vals.Assoc(v, idx, c.repl()))); err != nil {
		return err
	}
	// the container itself is never changed
	if !c13Unchanged(c, v) {
		return fmt.Errorf("%s was modified by vals.Index / vals.Assoc with index %s: now %s", c, f, c13Show(v))
	}
	// ConvertListIndex reports the same positions (list model: no codepoint rule)
	lw := c13Model(c.length(), f)
	li, err := vals.ConvertListIndex(idx, c.length())
	switch {
	case err != nil && lw.Must == "value":
		return fmt.Errorf("vals.ConvertListIndex(%s, %d): the reference specifies %s, observed error %v", f, c.length(), c13Describe(c13Cont{List: true, N: c.length()}, lw, "index"), err)
	case err == nil && lw.Must == "error":
		return fmt.Errorf("vals.ConvertListIndex(%s, %d): the reference rules this index out, observed %+v", f, c.length(), *li)
	case err == nil:
		ok := false
		for _, r := range lw.Alts {
			if li.Slice == r.Slice && li.Lower == r.Lo && (!r.Slice || li.Upper == r.Hi) {
				ok = true
			}
		}
		if !ok {
			return fmt.Errorf("vals.ConvertListIndex(%s, %d) = %+v, the reference specifies %s", f, c.length(), *li, c13Describe(c13Cont{List: true, N: c.length()}, lw, "index"))
		}
	}
	return nil
}

func c13Unchanged(c c13Cont, v any) bool {
	if !c.List {
		s, ok := v.(string)
		return ok && s == string(c.S)
	}
	g, ok := c13ListStrings(v)
	if !ok || len(g) != c.N {
		return false
	}
	for i := range g {
		if g[i] != c13Elem(i) {
			return false
		}
	}
	return true
}

// ---- observation through the evaluator ------------------------------------------

var (
	c13EvOnce sync.Once
	c13Ev     *eval.Evaler
)

func c13SQ(s string) string { return "'" + strings.ReplaceAll(s, "'", "''") + "'" }

var c13Bare = regexp.MustCompile(`^(-?[0-9]+(\.\.=?)?(-?[0-9]+)?|\.\.=?(-?[0-9]+)?)$`)

func (f c13Form) source() string {
	if f.Typed != nil {
		n := f.Typed
		if n.Kind == "float" {
			x := n.Float()
			switch {
			case math.IsNaN(x):
				return "(num NaN)"
			case math.IsInf(x, 1):
				return "(num +Inf)"
			case math.IsInf(x, -1):
				return "(num -Inf)"
			}
			return "(num " + strconv.FormatFloat(x, 'e', -1, 64) + ")"
		}
		return "(num " + n.Text + ")"
	}
	t := f.text()
	if c13Bare.MatchString(t) {
		return t // as a user writes it: $x[1..=-1]
	}
	return c13SQ(t)
}

func (c c13Cont) source() string {
	if !c.List {
		return c13SQ(string(c.S))
	}
	var sb strings.Builder
	sb.WriteString("[")
	for i := 0; i < c.N; i++ {
		if i > 0 {
			sb.WriteString(" ")
		}
		sb.WriteString(c13Elem(i))
	}
	sb.WriteString("]")
	return sb.String()
}

// c13Scriptable: the evaluator path takes the container as source text, so
// control characters are left to the direct path.
func (c c13Cont) scriptable() bool {
	for _, r := range string(c.S) {
		if r < 0x20 || r == 0x7f {
			return false
		}
	}
	return true
}

type c13Triple struct{ index, assoc, set c13Got }

// c13EvalBatch evaluates, for every form, `put $x[i]`, `assoc $x i new` and
// `set z[i] = new` (on a copy z of x, with an alias of z watched) in one chunk.
//
// literal: the index is written in the source of each indexing expression
// ($x[1..=-1]); otherwise the indices are the elements of a list that a for loop
// walks ($x[$i]), which costs far less parsing for the 682-index batches.
func c13EvalBatch(c c13Cont, forms []c13Form, literal bool) ([]c13Triple, error) {
	c13EvOnce.Do(func() { c13Ev = elv.New() })
	var sb strings.Builder
	fmt.Fprintf(&sb, "var x = %s\n", c.source())
	repl := c13SQ(c.repl())
	body := func(i string) {
		fmt.Fprintf(&sb, "try { put [v $x[%s]] } catch e { put [e $e[reason]] }\n", i)
		// no output capture here (it costs a pipe per call): the result, then "ok"
		fmt.Fprintf(&sb, "try { assoc $x %s %s; put ok } catch e { put [e $e[reason]]; put failed }\n", i, repl)
		fmt.Fprintf(&sb, "try { var z = $x; var alias = $z; set z[%s] = %s; put [v $z $alias] } catch e { put [e $e[reason]] }\n", i, repl)
	}
	if literal {
		for _, f := range forms {
			body(f.source())
		}
	} else {
		sb.WriteString("for i [")
		for _, f := range forms {
			sb.WriteString(" " + f.source())
		}
		sb.WriteString(" ] {\n")
		body("$i")
		sb.WriteString("}\n")
	}
	sb.WriteString("put $x\n")
	res := elv.Run(c13Ev, sb.String())
	if res.Err != nil {
		return nil, fmt.Errorf("evaluating the indexing script for %s failed as a whole: %v", c, res.Err)
	}
	if len(res.Values) != 4*len(forms)+1 {
		return nil, fmt.Errorf("indexing script for %s produced %d values, expected %d", c, len(res.Values), 4*len(forms)+1)
	}
	if !c13Unchanged(c, res.Values[len(res.Values)-1]) {
		return nil, fmt.Errorf("%s: $x changed by indexing / assoc / element assignment on a copy: now %s", c, c13Show(res.Values[len(res.Values)-1]))
	}
	dec := func(v any, n int) (c13Got, any, error) {
		l, ok := v.(vals.List)
		if !ok || l.Len() < 1 {
			return c13Got{}, nil, fmt.Errorf("unexpected script output %s", c13Show(v))
		}
		tag, _ := l.Index(0)
		if tag == "e" && l.Len() == 2 {
			r, _ := l.Index(1)
			return c13Got{Err: "exception: " + vals.ToString(r)}, nil, nil
		}
		if tag != "v" || l.Len() != n {
			return c13Got{}, nil, fmt.Errorf("unexpected script output %s", c13Show(v))
		}
		val, _ := l.Index(1)
		var extra any
		if n == 3 {
			extra, _ = l.Index(2)
		}
		return c13Got{Val: val}, extra, nil
	}
	out := make([]c13Triple, len(forms))
	for k := range forms {
		var err error
		if out[k].index, _, err = dec(res.Values[4*k], 2); err != nil {
			return nil, err
		}
		switch res.Values[4*k+2] {
		case "ok":
			out[k].assoc = c13Got{Val: res.Values[4*k+1]}
		case "failed":
			if out[k].assoc, _, err = dec(res.Values[4*k+1], 2); err != nil {
				return nil, err
			}
			if out[k].assoc.Err == "" {
				return nil, fmt.Errorf("unexpected script output %s", c13Show(res.Values[4*k+1]))
			}
		default:
			return nil, fmt.Errorf("unexpected script output %s after assoc with index %s", c13Show(res.Values[4*k+2]), forms[k])
		}
		var alias any
		if out[k].set, alias, err = dec(res.Values[4*k+3], 3); err != nil {
			return nil, err
		}
		if out[k].set.Err == "" && !c13Unchanged(c, alias) {
			return nil, fmt.Errorf("set z[%s] on a copy of %s changed the alias of the old value: now %s", forms[k], c, c13Show(alias))
		}
	}
	return out, nil
}

func c13JudgeTriple(c c13Cont, f c13Form, w c13Want, t c13Triple) error {
	if err := c13Judge(c, f, w, "index", "$x["+f.source()+"]", t.index); err != nil {
		return err
	}
	if err := c13Judge(c, f, w, "assoc", "assoc $x "+f.source(), t.assoc); err != nil {
		return err
	}
	return c13Judge(c, f, w, "assoc", "set x["+f.source()+"] =", t.set)
}

// ---- C13/enum -------------------------------------------------------------------

type c13EnumCase struct {
	C c13Cont `json:"c"`
	F c13Form `json:"f"`
}

// c13EnumForms: every index with bounds in [-R,R], R = 8 (quick) or 11 (thorough).
func c13EnumForms() []c13Form {
	r := 8
	if vs.Tier() == "thorough" {
		r = 11
	}
	var bounds []string
	for i := -r; i <= r; i++ {
		bounds = append(bounds, strconv.Itoa(i))
	}
	var out []c13Form
	for _, b := range bounds {
		out = append(out, c13Form{Lo: b})
		out = append(out, c13Form{Typed: &gen.Num{Kind: "int", Text: b}})
	}
	withEmpty := append([]string{""}, bounds...)
	for _, sep := range []string{"..", "..="} {
		for _, lo := range withEmpty {
			for _, hi := range withEmpty {
				out = append(out, c13Form{Lo: lo, Sep: sep, Hi: hi})
			}
		}
	}
	return out
}

var c13EnumStrings = []string{"", "a", "ab", "abc", "abcd", "abcde", "abcdef", "é", "aé", "éa", "世界x", "a\uFFFDb", "\U0001F600", "a\U0001F600b", "é世"}

func c13EnumConts() []c13Cont {
	var out []c13Cont
	maxN := 6
	if vs.Tier() == "thorough" {
		maxN = 9
	}
	for n := 0; n <= maxN; n++ {
		out = append(out, c13Cont{List: true, N: n})
	}
	for _, s := range c13EnumStrings {
		out = append(out, c13Cont{S: vs.B(s)})
	}
	if vs.Tier() == "thorough" {
		for _, s := range []string{"abcdefg", "abcdefgh", "abcdefghi", "世界xé", "éé世é", "\U0001F600\U0001F600", "a��b", "xé\U0001F600y"} {
			out = append(out, c13Cont{S: vs.B(s)})
		}
	}
	return out
}

var c13Cache = map[string]map[string]c13Triple{}

func c13CheckEnum(ec c13EnumCase) error {
	w := c13Expect(ec.C, ec.F)
	if err := c13Direct(ec.C, ec.F, w); err != nil {
		return err
	}
	ck := ec.C.String()
	m, ok := c13Cache[ck]
	if !ok {
		forms := c13EnumForms()
		ts, err := c13EvalBatch(ec.C, forms, false)
		if err != nil {
			// evaluate only this form so that the report is about this case
			ts1, err1 := c13EvalBatch(ec.C, []c13Form{ec.F}, true)
			if err1 != nil {
				return err1
			}
			return c13JudgeTriple(ec.C, ec.F, w, ts1[0])
		}
		m = map[string]c13Triple{}
		for i, f := range forms {
			m[f.String()] = ts[i]
		}
		c13Cache[ck] = m
	}
	t, ok := m[ec.F.String()]
	if !ok {
		ts, err := c13EvalBatch(ec.C, []c13Form{ec.F}, true)
		if err != nil {
			return err
		}
		t = ts[0]
	}
	return c13JudgeTriple(ec.C, ec.F, w, t)
}

func c13ClassOf(c c13Cont, f c13Form, w c13Want) string {
	kind := "list"
	if !c.List {
		kind = "ascii"
		if utf8.RuneCountInString(string(c.S)) != len(c.S) {
			kind = "multibyte"
		}
	}
	form := "single"
	switch {
	case f.Typed != nil:
		form = "typed"
	case f.isSlice():
		form = "slice" + c13Split(f.text()).Sep
	}
	return kind + "/" + form + "/" + w.Must
}

func init() {
	vs.Register(vs.Prop[c13EnumCase]{
		Name: "C13/enum",
		Rule: "exhaustive: 7 lists (length 0..6) and 15 valid UTF-8 strings (ASCII of length 0..6, é, aé, éa, 世界x, a<U+FFFD>b, emoji, a<emoji>b, é世) x 682 indices: a, (num a), lo..hi and lo..=hi with every bound omitted or in [-8,8] (thorough: lists of length 0..9, 23 strings up to 11 bytes, bounds in [-11,11], 1198 indices); for each: indexing, assoc and set x[i]= through the evaluator (literal index in the source) and vals.Index / vals.Assoc / vals.ConvertListIndex directly, against the model written from language.md; non-trivial = every case (class shows container kind / index form / expected outcome)",
		Enum: func(tier string, yield func(c13EnumCase) bool) {
			forms := c13EnumForms()
			for _, c := range c13EnumConts() {
				for _, f := range forms {
					if !yield(c13EnumCase{C: c, F: f}) {
						return
					}
				}
			}
		},
		Check: c13CheckEnum,
		Class: func(ec c13EnumCase) (string, bool) {
			return c13ClassOf(ec.C, ec.F, c13Expect(ec.C, ec.F)), true
		},
		Known: []vs.Known[c13EnumCase]{
			{Key: "C13:index-at-U+FFFD", Case: c13EnumCase{C: c13Cont{S: vs.B("a\uFFFDb")}, F: c13Form{Lo: "1"}}},
		},
	})
}

// ---- C13/random -----------------------------------------------------------------

type c13RandCase struct {
	C     c13Cont   `json:"c"`
	Forms []c13Form `json:"forms"`
}

var c13Huge = []string{"9223372036854775807", "9223372036854775806", "9223372036854775808", "-9223372036854775808", "-9223372036854775807", "-9223372036854775809",
	"18446744073709551616", "18446744073709551617", "18446744073709551615", "-18446744073709551615", "-18446744073709551616", "4294967296", "4294967297", "-4294967296", "-4294967295", "2147483648", "-2147483649",
	"99999999999999999999999999", "-99999999999999999999999999", "340282366920938463463374607431768211457"}

func c13GenBound(t *rapid.T, label string, n int, s string) string {
	switch rapid.IntRange(0, 9).Draw(t, label+"?") {
	case 0, 1, 2, 3:
		return strconv.Itoa(rapid.IntRange(-n-2, n+2).Draw(t, label))
	case 4:
		return rapid.SampledFrom(c13Huge).Draw(t, label)
	case 5:
		// length plus a multiple of 2^32 / 2^64: must not wrap around
		k := rapid.IntRange(-n-1, n+1).Draw(t, label)
		v := new(big.Int).Lsh(big.NewInt(1), uint(rapid.SampledFrom([]int{32, 63, 64}).Draw(t, label+"sh")))
		if rapid.Bool().Draw(t, label+"neg") {
			v.Neg(v)
		}
		return v.Add(v, big.NewInt(int64(k))).String()
	case 6:
		k := rapid.IntRange(-n-1, n+1).Draw(t, label)
		abs, sign := k, ""
		if k < 0 {
			abs, sign = -k, "-"
		}
		forms := []string{"+%d", "0%d", "00%d", "0x%x", "%d.0", "%de0", " %d", "%d ", "%d_", "0o%o", "0b%b", "%d.", "%d.5", "%d/1", "(%d)", "%dx"}
		return sign + fmt.Sprintf(rapid.SampledFrom(forms).Draw(t, label+"form"), abs)
	case 7:
		return rapid.SampledFrom([]string{"", "-", "+", "--1", "-+1", "a", "１", "٣", "0x", "1e", "NaN", "Inf", "-Inf", "1..2", "..", "=", "=1", ".1", "1.", "-0", "+0", "00", "-00", "0_0", "1__0", "_1"}).Draw(t, label)
	default:
		if s != "" {
			// a byte offset inside the string, biased to the neighbourhood of multi-byte characters
			off := rapid.IntRange(0, len(s)).Draw(t, label)
			if rapid.Bool().Draw(t, label+"neg") {
				off -= len(s)
			}
			return strconv.Itoa(off)
		}
		return strconv.Itoa(rapid.IntRange(-n, n).Draw(t, label))
	}
}

func c13GenRand(t *rapid.T) c13RandCase {
	var c c13Cont
	if rapid.Bool().Draw(t, "list") {
		c = c13Cont{List: true, N: rapid.SampledFrom([]int{0, 1, 2, 3, 5, 7, 8, 9, 16, 31, 32, 33, 40}).Draw(t, "n")}
	} else {
		var s string
		if rapid.IntRange(0, 3).Draw(t, "hostile") == 0 {
			s = gen.ValidStr(t, "s", 8)
		} else {
			s = strings.Join(rapid.SliceOfN(rapid.SampledFrom([]string{"a", "b", "x", " ", "'", "é", "ß", "世", "界", "�", "\U0001F600", "́", "​", "\U000E0001"}), 0, 8).Draw(t, "s"), "")
		}
		if !utf8.ValidString(s) {
			s = "x"
		}
		c = c13Cont{S: vs.B(s)}
	}
	n := c.length()
	k := rapid.IntRange(1, 12).Draw(t, "nforms")
	out := c13RandCase{C: c}
	for i := 0; i < k; i++ {
		var f c13Form
		switch rapid.IntRange(0, 9).Draw(t, "kind") {
		case 0, 1:
			f = c13Form{Lo: c13GenBound(t, "i", n, string(c.S))}
		case 2, 3:
			var num gen.Num
			switch rapid.IntRange(0, 5).Draw(t, "tk") {
			case 0, 1:
				num = gen.Num{Kind: "int", Text: strconv.Itoa(rapid.IntRange(-n-2, n+2).Draw(t, "ti"))}
			case 2:
				num = gen.Number(t, "tn", "ibrf")
			case 3:
				num = gen.FloatNum(float64(rapid.IntRange(-n-1, n+1).Draw(t, "tf")))
			case 4:
				num = gen.FloatNum(float64(rapid.IntRange(-n-1, n+1).Draw(t, "tf")) + 0.5)
			default:
				num = gen.Number(t, "tn", "i")
			}
			f = c13Form{Typed: &num}
		default:
			f = c13Form{Sep: rapid.SampledFrom([]string{"..", "..="}).Draw(t, "sep")}
			if rapid.IntRange(0, 5).Draw(t, "loomit") != 0 {
				f.Lo = c13GenBound(t, "lo", n, string(c.S))
			}
			if rapid.IntRange(0, 5).Draw(t, "hiomit") != 0 {
				f.Hi = c13GenBound(t, "hi", n, string(c.S))
			}
		}
		out.Forms = append(out.Forms, f)
	}
	return out
}

func c13CheckRand(rc c13RandCase) error {
	if !utf8.ValidString(string(rc.C.S)) {
		return nil // indexing strings that are not valid UTF-8 is unspecified
	}
	wants := make([]c13Want, len(rc.Forms))
	for i, f := range rc.Forms {
		wants[i] = c13Expect(rc.C, f)
		if err := c13Direct(rc.C, f, wants[i]); err != nil {
			return err
		}
	}
	if !rc.C.scriptable() {
		return nil
	}
	var forms []c13Form
	var idx []int
	for i, f := range rc.Forms {
		ok := true
		for _, r := range f.text() {
			if r < 0x20 || r == 0x7f {
				ok = false
			}
		}
		if ok {
			forms = append(forms, f)
			idx = append(idx, i)
		}
	}
	ts, err := c13EvalBatch(rc.C, forms, true)
	if err != nil {
		return err
	}
	for k, f := range forms {
		if err := c13JudgeTriple(rc.C, f, wants[idx[k]], ts[k]); err != nil {
			return err
		}
	}
	return nil
}

func init() {
	vs.Register(vs.Prop[c13RandCase]{
		Name: "C13/random",
		Rule: "a list of length 0..40 or a random valid UTF-8 string (hostile alphabet, up to 8 atoms) with 1..12 indices: bounds near the length, byte offsets inside multi-byte characters, bounds at and beyond 2^31, 2^32, 2^63, 2^64 (also length + 2^32k: must not wrap), odd texts (+1, 007, 0x1, 1.0, 1e0, blanks, 1_0, other scripts' digits, empty, nested ..), typed ints, big ints, rationals and floats; same observations and model as C13/enum; non-trivial = at least one index that is not a plain in-range small integer",
		Gen:   c13GenRand,
		Check: c13CheckRand,
		Class: func(rc c13RandCase) (string, bool) {
			kind := "list"
			if !rc.C.List {
				kind = "ascii"
				if utf8.RuneCountInString(string(rc.C.S)) != len(rc.C.S) {
					kind = "multibyte"
				}
			}
			counts := map[string]int{}
			for _, f := range rc.Forms {
				counts[c13Expect(rc.C, f).Must]++
			}
			lab := kind
			for _, m := range []string{"value", "either", "error"} {
				if counts[m] > 0 {
					lab += "+" + m
				}
			}
			return lab, counts["either"]+counts["error"] > 0
		},
		Quick: 1200, Thorough: 15000,
	})
}
