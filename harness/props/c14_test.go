package props

// C14 Element assignment never mutates values seen elsewhere.
//
// One sub-check, C14/history: a generated history of element assignments and
// deletions (set a[i][j] = v, del a[k], tmp / with on elements inside a
// function) over a pool of variables holding nested lists and maps, mixed with
// steps that take aliases (a new variable holding the value or a list built
// from it, a closure that captured the value, a closure that captured the
// variable, a value written to the output and kept by the harness).
//
// Oracle: an independent Go model of values (c14V, a plain tree that is never
// mutated in place). Element assignment is modelled as documented in
// language.md ("Elvish creates a new list or map with the mutation applied, and
// assigns it to the variable"): the assigned variable becomes the nested
// assoc / dissoc of its old value, nothing else changes. After EVERY step the
// real interpreter is asked for every variable and every closure, and every
// value that was ever output is re-walked on the Go side; all of them must be
// equal to their model value / snapshot. A step the model predicts to fail
// must raise an exception and leave everything unchanged.

import (
	"fmt"
	"strconv"
	"strings"
	"time"

	"pgregory.net/rapid"
	"src.elv.sh/pkg/eval"
	"src.elv.sh/pkg/eval/vals"
	"src.elv.sh/pkg/parse"
	"verif/elv"
	"verif/vs"
)

// ---- value mirror --------------------------------------------------------------

// c14V mirrors an Elvish value. Mirrors are immutable by convention: every
// operation builds new nodes along the path and shares the rest.
type c14V struct {
	K string  `json:"k"` // s (string) n (int number) nil b (bool) l (list) m (map)
	S string  `json:"s,omitempty"`
	I int     `json:"i,omitempty"`
	B bool    `json:"b,omitempty"`
	L []c14V  `json:"l,omitempty"`
	M []c14KV `json:"m,omitempty"` // keys are s, n, nil or b, pairwise distinct
}

type c14KV struct {
	Key c14V `json:"key"`
	Val c14V `json:"val"`
}

func c14Str(s string) c14V { return c14V{K: "s", S: s} }
func c14Int(i int) c14V    { return c14V{K: "n", I: i} }

func c14Quote(s string) string { return "'" + strings.ReplaceAll(s, "'", "''") + "'" }

// c14Src renders the value as Elvish source.
func (v c14V) c14Src() string {
	switch v.K {
	case "s":
		return c14Quote(v.S)
	case "n":
		return "(num " + strconv.Itoa(v.I) + ")"
	case "nil":
		return "$nil"
	case "b":
		if v.B {
			return "$true"
		}
		return "$false"
	case "l":
		parts := make([]string, len(v.L))
		for i, e := range v.L {
			parts[i] = e.c14Src()
		}
		return "[" + strings.Join(parts, " ") + "]"
	case "m":
		if len(v.M) == 0 {
			return "[&]"
		}
		parts := make([]string, len(v.M))
		for i, kv := range v.M {
			parts[i] = "&" + kv.Key.c14Src() + "=" + kv.Val.c14Src()
		}
		return "[" + strings.Join(parts, " ") + "]"
	}
	panic("bad mirror kind " + v.K)
}

func (v c14V) c14Size() int {
	n := 1
	for _, e := range v.L {
		n += e.c14Size()
	}
	for _, kv := range v.M {
		n += 1 + kv.Val.c14Size()
	}
	return n
}

func c14KeyText(k c14V) string {
	switch k.K {
	case "n":
		return "n:" + strconv.Itoa(k.I)
	case "nil":
		return "nil:"
	case "b":
		return "b:" + strconv.FormatBool(k.B)
	}
	return "s:" + k.S
}

// c14KeyOfReal gives the key text of a real map key, "" if it is not a string or int.
func c14KeyOfReal(x any) string {
	switch x := x.(type) {
	case string:
		return "s:" + x
	case int:
		return "n:" + strconv.Itoa(x)
	case nil:
		return "nil:"
	case bool:
		return "b:" + strconv.FormatBool(x)
	}
	return ""
}

func (v c14V) c14Real() any {
	switch v.K {
	case "s":
		return v.S
	case "n":
		return v.I
	case "nil":
		return nil
	case "b":
		return v.B
	}
	panic("only scalar keys are converted")
}

// c14Same walks the real value x and compares it with the mirror without using
// vals.Equal: lists through Len, the iterator and Index, maps through Len, the
// iterator and Index of every expected key.
func c14Same(v c14V, x any) error {
	switch v.K {
	case "s":
		if s, ok := x.(string); !ok || s != v.S {
			return fmt.Errorf("want string %q, got %s", v.S, c14Show(x))
		}
	case "n":
		if i, ok := x.(int); !ok || i != v.I {
			return fmt.Errorf("want number %d, got %s", v.I, c14Show(x))
		}
	case "nil":
		if x != nil {
			return fmt.Errorf("want $nil, got %s", c14Show(x))
		}
	case "b":
		if b, ok := x.(bool); !ok || b != v.B {
			return fmt.Errorf("want %v, got %s", v.B, c14Show(x))
		}
	case "l":
		l, ok := x.(vals.List)
		if !ok {
			return fmt.Errorf("want list %s, got %s", v.c14Src(), c14Show(x))
		}
		if l.Len() != len(v.L) {
			return fmt.Errorf("want list of %d elements %s, got %s", len(v.L), v.c14Src(), c14Show(x))
		}
		i := 0
		for it := l.Iterator(); it.HasElem(); it.Next() {
			if i >= len(v.L) {
				return fmt.Errorf("list iterator yields more than %d elements", len(v.L))
			}
			if err := c14Same(v.L[i], it.Elem()); err != nil {
				return fmt.Errorf("[%d]: %w", i, err)
			}
			e, ok := l.Index(i)
			if !ok {
				return fmt.Errorf("[%d]: Index fails", i)
			}
			if err := c14Same(v.L[i], e); err != nil {
				return fmt.Errorf("[%d] (by Index): %w", i, err)
			}
			i++
		}
		if i != len(v.L) {
			return fmt.Errorf("list iterator yields %d elements, want %d", i, len(v.L))
		}
	case "m":
		m, ok := x.(vals.Map)
		if !ok {
			return fmt.Errorf("want map %s, got %s", v.c14Src(), c14Show(x))
		}
		if m.Len() != len(v.M) {
			return fmt.Errorf("want map of %d entries %s, got %s", len(v.M), v.c14Src(), c14Show(x))
		}
		want := map[string]c14V{}
		for _, kv := range v.M {
			want[c14KeyText(kv.Key)] = kv.Val
			got, ok := m.Index(kv.Key.c14Real())
			if !ok {
				return fmt.Errorf("map lacks key %s: %s", kv.Key.c14Src(), c14Show(x))
			}
			if err := c14Same(kv.Val, got); err != nil {
				return fmt.Errorf("[%s]: %w", kv.Key.c14Src(), err)
			}
		}
		n := 0
		for it := m.Iterator(); it.HasElem(); it.Next() {
			k, val := it.Elem()
			w, ok := want[c14KeyOfReal(k)]
			if !ok {
				return fmt.Errorf("map has unexpected key %s", c14Show(k))
			}
			if err := c14Same(w, val); err != nil {
				return fmt.Errorf("[%s] (by iterator): %w", c14Show(k), err)
			}
			n++
		}
		if n != len(v.M) {
			return fmt.Errorf("map iterator yields %d entries, want %d", n, len(v.M))
		}
	default:
		return fmt.Errorf("bad mirror kind %q", v.K)
	}
	return nil
}

func c14Show(x any) string {
	s := vals.ReprPlain(x)
	if len(s) > 300 {
		s = s[:300] + "…"
	}
	return s
}

// ---- model of indexing, assoc and dissoc (language.md: List, Map, Indexing, set, del) ----

type c14Err string

func (e c14Err) Error() string { return string(e) }

// c14ListIndex converts an index value for a list of n elements: an integer,
// as a typed number or a number-like string, in [-n, n).
func c14ListIndex(idx c14V, n int) (int, error) {
	i := 0
	switch idx.K {
	case "n":
		i = idx.I
	case "s":
		k, err := strconv.Atoi(idx.S)
		if err != nil || strings.HasPrefix(idx.S, "+") {
			return 0, c14Err("list index is not an integer")
		}
		i = k
	default:
		return 0, c14Err("list index is not an integer")
	}
	if i < 0 {
		i += n
	}
	if i < 0 || i >= n {
		return 0, c14Err("list index out of range")
	}
	return i, nil
}

func c14Index(c c14V, idx c14V) (c14V, error) {
	switch c.K {
	case "l":
		i, err := c14ListIndex(idx, len(c.L))
		if err != nil {
			return c14V{}, err
		}
		return c.L[i], nil
	case "m":
		for _, kv := range c.M {
			if c14KeyText(kv.Key) == c14KeyText(idx) {
				return kv.Val, nil
			}
		}
		return c14V{}, c14Err("no such key")
	}
	return c14V{}, c14Err("value cannot be indexed")
}

func c14Assoc(c c14V, idx c14V, v c14V) (c14V, error) {
	switch c.K {
	case "l":
		i, err := c14ListIndex(idx, len(c.L))
		if err != nil {
			return c14V{}, err
		}
		out := c14V{K: "l", L: append([]c14V(nil), c.L...)}
		out.L[i] = v
		return out, nil
	case "m":
		out := c14V{K: "m", M: append([]c14KV(nil), c.M...)}
		for i, kv := range out.M {
			if c14KeyText(kv.Key) == c14KeyText(idx) {
				out.M[i] = c14KV{kv.Key, v}
				return out, nil
			}
		}
		out.M = append(out.M, c14KV{idx, v})
		return out, nil
	}
	return c14V{}, c14Err("value has no elements to assign")
}

// c14Dissoc: only maps support element removal (language.md: "delete variables
// or map elements"); removing an absent key leaves the map as it is.
func c14Dissoc(c c14V, idx c14V) (c14V, error) {
	if c.K != "m" {
		return c14V{}, c14Err("value does not support element removal")
	}
	out := c14V{K: "m"}
	for _, kv := range c.M {
		if c14KeyText(kv.Key) != c14KeyText(idx) {
			out.M = append(out.M, kv)
		}
	}
	return out, nil
}

// c14AssocPath is the nested assoc: a[p0][p1]...[pk] = v.
func c14AssocPath(c c14V, path []c14V, v c14V) (c14V, error) {
	if len(path) == 0 {
		return v, nil // the variable itself
	}
	if len(path) == 1 {
		return c14Assoc(c, path[0], v)
	}
	child, err := c14Index(c, path[0])
	if err != nil {
		return c14V{}, err
	}
	nc, err := c14AssocPath(child, path[1:], v)
	if err != nil {
		return c14V{}, err
	}
	return c14Assoc(c, path[0], nc)
}

func c14DissocPath(c c14V, path []c14V) (c14V, error) {
	if len(path) == 1 {
		return c14Dissoc(c, path[0])
	}
	child, err := c14Index(c, path[0])
	if err != nil {
		return c14V{}, err
	}
	nc, err := c14DissocPath(child, path[1:])
	if err != nil {
		return c14V{}, err
	}
	return c14Assoc(c, path[0], nc)
}

func c14IndexPath(c c14V, path []c14V) (c14V, error) {
	for _, p := range path {
		var err error
		c, err = c14Index(c, p)
		if err != nil {
			return c14V{}, err
		}
	}
	return c, nil
}

// ---- case ---------------------------------------------------------------------

// c14Sel selects one index of a path relative to the container found there.
type c14Sel struct {
	Mode string `json:"mode"` // ok neg new num oob bad
	N    int    `json:"n"`
}

type c14Rhs struct {
	Lit  *c14V    `json:"lit,omitempty"`  // literal value, or
	Var  int      `json:"var,omitempty"`  // a reference $var[path...]
	Path []c14Sel `json:"path,omitempty"` // (always resolved to an existing element)
}

type c14Op struct {
	K     string   `json:"k"` // set del tmp with set2 setrest reenter alias alist closure cvar out
	Var   int      `json:"var"`
	Path  []c14Sel `json:"path,omitempty"`
	Rhs   c14Rhs   `json:"rhs"`
	Var2  int      `json:"var2,omitempty"` // set2: second lvalue; with/tmp: variable set inside the body
	Path2 []c14Sel `json:"path2,omitempty"`
	Rhs2  c14Rhs   `json:"rhs2"`
	Inner bool     `json:"inner,omitempty"` // with/tmp: body also does `set var2[path2] = rhs2`
	Fail  bool     `json:"fail,omitempty"`  // with/tmp: body ends with an exception
	Form  int      `json:"form,omitempty"`  // syntactic variant
}

type c14Case struct {
	Init []c14V  `json:"init"`
	Ops  []c14Op `json:"ops"`
}

// ---- running a history -----------------------------------------------------------

// c14Eval is elv.Run without the byte pipes (only value output is observed
// here): the value channel of stdout is drained into a slice.
func c14Eval(ev *eval.Evaler, code string) elv.Result {
	ch := make(chan any, 64)
	var values []any
	done := make(chan struct{})
	go func() {
		for v := range ch {
			values = append(values, v)
		}
		close(done)
	}()
	out := &eval.Port{File: eval.DevNull, Chan: ch}
	err := ev.Eval(parse.Source{Name: "[verif]", Code: code}, eval.EvalCfg{Ports: []*eval.Port{nil, out, nil}})
	close(ch)
	<-done
	return elv.Result{Values: values, Err: err}
}

type c14Kept struct {
	val  any
	snap c14V
	from string
}

type c14Stats struct {
	nestedOK  int // successful element assignments / deletions with a path of length >= 2
	assignOK  int
	failed    int // steps predicted (and required) to fail
	aliases   int
	sharedHit int // assignments to a variable whose old value is shared with an alias
	temps     int
	reentered int // element assignments re-entered through their own right-hand side
}

type c14Run struct {
	names    []string          // data variables, in creation order
	model    map[string]c14V   // current model value of every data variable
	clos     []string          // closures that captured a value: name -> snapshot
	closVal  map[string]c14V   // value captured by value
	cvars    map[string]string // closure name -> variable name it captured
	cvarsOrd []string
	kept     []c14Kept
	ring     int
	ev       *eval.Evaler // nil in a dry run
	stats    c14Stats
	shared   map[string]bool // variables whose value (or part of it) was aliased
}

// resolve turns selectors into concrete indices along the model value c. With
// force, every selector is resolved to an existing element (and the path is cut
// at a leaf). Strings are never indexed into (see file comment of the report:
// element assignment on strings is not described by the reference).
func c14Resolve(c c14V, sels []c14Sel, force bool) []c14V {
	var out []c14V
	cur, known := c, true
	for _, s := range sels {
		if known && cur.K == "s" {
			break // never index into a string
		}
		if known && force && !(cur.K == "l" && len(cur.L) > 0) && !(cur.K == "m" && len(cur.M) > 0) {
			break
		}
		mode := s.Mode
		if force {
			mode = "ok"
		}
		n := s.N
		if n < 0 {
			n = -n
		}
		var idx c14V
		switch {
		case known && cur.K == "l":
			ln := len(cur.L)
			switch mode {
			case "ok":
				if ln == 0 {
					idx = c14Str("0") // out of range on an empty list
				} else {
					idx = c14Str(strconv.Itoa(n % ln))
				}
			case "neg":
				if ln == 0 {
					idx = c14Str("-1")
				} else {
					idx = c14Str(strconv.Itoa(-(n % ln) - 1))
				}
			case "num":
				if ln == 0 {
					idx = c14Int(0)
				} else if n%2 == 0 {
					idx = c14Int(n % ln)
				} else {
					idx = c14Int(-(n % ln) - 1)
				}
			case "oob":
				if n%2 == 0 {
					idx = c14Str(strconv.Itoa(ln + n%3))
				} else {
					idx = c14Str(strconv.Itoa(-ln - 1 - n%3))
				}
			case "bad":
				idx = c14Str([]string{"x", "", "1.5", "k0"}[n%4])
			default: // "new" has no meaning for a list: the last element
				if ln == 0 {
					idx = c14Str("0")
				} else {
					idx = c14Str(strconv.Itoa(ln - 1))
				}
			}
		case known && cur.K == "m":
			switch mode {
			case "new", "oob", "bad":
				idx = c14Str("k" + strconv.Itoa(n%7))
				for _, kv := range cur.M {
					if kv.Key.K == "s" && c14IsColliding(kv.Key.S) {
						// a map of fully hash-colliding keys gets more of them
						idx = c14Str(c14Colliding[n%len(c14Colliding)])
						break
					}
				}
			case "num":
				idx = c14Int(n % 3)
				if n%4 == 3 {
					idx = c14V{K: "nil"} // $nil has a slot of its own in the hash map
				}
			default:
				if len(cur.M) == 0 {
					idx = c14Str("k" + strconv.Itoa(n%7))
				} else {
					idx = cur.M[n%len(cur.M)].Key
				}
			}
		default: // a scalar that is not a string, or below a failed lookup
			idx = c14Str(strconv.Itoa(n % 3))
		}
		out = append(out, idx)
		if known {
			next, err := c14Index(cur, idx)
			if err != nil {
				known = false
			} else {
				cur = next
			}
		}
	}
	return out
}

func c14PathSrc(path []c14V) string {
	var sb strings.Builder
	for _, p := range path {
		sb.WriteString("[")
		if p.K == "s" {
			if _, err := strconv.Atoi(p.S); err == nil {
				sb.WriteString(p.S) // bareword integer
			} else {
				sb.WriteString(c14Quote(p.S))
			}
		} else {
			sb.WriteString(p.c14Src())
		}
		sb.WriteString("]")
	}
	return sb.String()
}

func (r *c14Run) pick(sel int) string {
	if sel < 0 {
		sel = -sel
	}
	return r.names[sel%len(r.names)]
}

// total is the number of nodes of all variables together.
func (r *c14Run) total() int {
	n := 0
	for _, v := range r.model {
		n += v.c14Size()
	}
	return n
}

// rhs resolves a right-hand side to its source text and model value.
func (r *c14Run) rhs(x c14Rhs) (string, c14V) {
	if x.Lit != nil {
		return x.Lit.c14Src(), *x.Lit
	}
	name := r.pick(x.Var)
	base := r.model[name]
	path := c14Resolve(base, x.Path, true)
	v, err := c14IndexPath(base, path)
	if err != nil {
		panic("forced path does not resolve: " + err.Error())
	}
	if v.c14Size() > 80 || r.total() > 1500 {
		// keep values bounded: use a small literal instead
		lit := c14Str("big")
		return lit.c14Src(), lit
	}
	r.shared[name] = true
	return "$" + name + c14PathSrc(path), v
}

// probe is the source that outputs every variable and calls every closure.
func (r *c14Run) probe() (string, []c14V, []string) {
	var parts []string
	var want []c14V
	var what []string
	for _, n := range r.names {
		parts = append(parts, "put $"+n)
		want = append(want, r.model[n])
		what = append(what, "variable $"+n)
	}
	for _, f := range r.clos {
		parts = append(parts, "$"+f)
		want = append(want, r.closVal[f])
		what = append(what, "value captured by closure $"+f)
	}
	for _, f := range r.cvarsOrd {
		parts = append(parts, "$"+f)
		want = append(want, r.model[r.cvars[f]])
		what = append(what, "closure $"+f+" reading variable $"+r.cvars[f])
	}
	return strings.Join(parts, "; "), want, what
}

func (r *c14Run) compare(values []any, want []c14V, what []string, when string) error {
	if len(values) != len(want) {
		return fmt.Errorf("%s: probe gave %d values, want %d: %s", when, len(values), len(want), elv.Reprs(values))
	}
	for i, w := range want {
		if err := c14Same(w, values[i]); err != nil {
			return fmt.Errorf("%s: %s is not %s: %v", when, what[i], w.c14Src(), err)
		}
		// keep containers that were output: the first 12 for the whole
		// history, later ones in a ring of 20
		if w.K == "l" || w.K == "m" {
			k := c14Kept{values[i], w, what[i] + " output " + when}
			if len(r.kept) < 32 {
				r.kept = append(r.kept, k)
			} else {
				r.kept[12+r.ring%20] = k
				r.ring++
			}
		}
	}
	return nil
}

func (r *c14Run) checkKept(when string) error {
	for _, k := range r.kept {
		if err := c14Same(k.snap, k.val); err != nil {
			return fmt.Errorf("%s: a value that was already output (%s) changed: want %s: %v", when, k.from, k.snap.c14Src(), err)
		}
	}
	return nil
}

// observe runs the probe in the interpreter and compares everything.
func (r *c14Run) observe(when string) error {
	if r.ev == nil {
		return nil
	}
	src, want, what := r.probe()
	res := c14Eval(r.ev, src)
	if res.Err != nil {
		return fmt.Errorf("%s: probe %q failed: %v", when, src, res.Err)
	}
	if err := r.compare(res.Values, want, what, when); err != nil {
		return err
	}
	return r.checkKept(when)
}

// exec runs one step. wantErr: the model predicts an exception. inBody: the
// model values expected by the probe that runs inside the step (nil = the step
// has no probe of its own).
func (r *c14Run) exec(src string, wantErr bool, body []c14V, bodyWhat []string, when string) error {
	if r.ev == nil {
		return nil
	}
	res := c14Eval(r.ev, src)
	if res.Err != nil && !elv.IsException(res.Err) {
		return fmt.Errorf("%s: %q does not compile: %v", when, src, res.Err)
	}
	if wantErr && res.Err == nil {
		return fmt.Errorf("%s: %q succeeded, the model expects an exception (no such element / not assignable)", when, src)
	}
	if !wantErr && res.Err != nil {
		return fmt.Errorf("%s: %q raised %v, the model expects success", when, src, res.Err)
	}
	if body != nil {
		if err := r.compare(res.Values, body, bodyWhat, when+" (inside the body)"); err != nil {
			return err
		}
	} else if len(res.Values) > 0 && !wantErr {
		return fmt.Errorf("%s: %q produced unexpected output %s", when, src, elv.Reprs(res.Values))
	}
	return nil
}

func c14RunCase(c c14Case, ev *eval.Evaler) (c14Stats, error) {
	r := &c14Run{model: map[string]c14V{}, closVal: map[string]c14V{}, cvars: map[string]string{}, ev: ev, shared: map[string]bool{}}
	for i, v := range c.Init {
		name := "a" + strconv.Itoa(i)
		r.names = append(r.names, name)
		r.model[name] = v
		if ev != nil {
			if res := c14Eval(ev, "var "+name+" = "+v.c14Src()); res.Err != nil {
				return r.stats, fmt.Errorf("cannot initialise: %v", res.Err)
			}
		}
	}
	if len(r.names) == 0 {
		return r.stats, nil
	}
	if err := r.observe("after initialisation"); err != nil {
		return r.stats, err
	}
	for step, op := range c.Ops {
		name := r.pick(op.Var)
		old := r.model[name]
		when := fmt.Sprintf("step %d", step)
		fresh := fmt.Sprintf("%d", step)
		switch op.K {
		case "set", "setrest":
			path := c14Resolve(old, op.Path, false)
			if len(path) == 0 {
				path = c14Resolve(old, []c14Sel{{Mode: "ok"}}, false)
			}
			rsrc, rval := r.rhs(op.Rhs)
			lhs := name + c14PathSrc(path)
			src := "set " + lhs + " = " + rsrc
			if op.K == "setrest" {
				s2, r2 := r.rhs(op.Rhs2)
				src = "set @" + lhs + " = " + rsrc + " " + s2
				rval = c14V{K: "l", L: []c14V{rval, r2}}
			}
			nv, merr := c14AssocPath(old, path, rval)
			when += ": " + src
			if err := r.exec(src, merr != nil, nil, nil, when); err != nil {
				return r.stats, err
			}
			if merr == nil {
				r.model[name] = nv
				r.stats.assignOK++
				if len(path) >= 2 {
					r.stats.nestedOK++
				}
				if r.shared[name] {
					r.stats.sharedHit++
				}
			} else {
				r.stats.failed++
			}
		case "del":
			path := c14Resolve(old, op.Path, false)
			if len(path) == 0 {
				path = c14Resolve(old, []c14Sel{{Mode: "ok"}}, false)
			}
			if len(path) == 0 {
				continue // would delete the variable itself
			}
			src := "del " + name + c14PathSrc(path)
			nv, merr := c14DissocPath(old, path)
			when += ": " + src
			// Deleting an absent key: the reference is silent; whether it is an
			// exception or a no-op, nothing may change.
			absent := false
			if merr == nil {
				if parent, err := c14IndexPath(old, path[:len(path)-1]); err == nil {
					if _, err := c14Index(parent, path[len(path)-1]); err != nil {
						absent = true
					}
				}
			}
			if absent && r.ev != nil {
				res := c14Eval(r.ev, src)
				if res.Err != nil && !elv.IsException(res.Err) {
					return r.stats, fmt.Errorf("%s: does not compile: %v", when, res.Err)
				}
			} else if err := r.exec(src, merr != nil, nil, nil, when); err != nil {
				return r.stats, err
			}
			if merr == nil {
				r.model[name] = nv
				if !absent {
					r.stats.assignOK++
					if len(path) >= 2 {
						r.stats.nestedOK++
					}
					if r.shared[name] {
						r.stats.sharedHit++
					}
				}
			} else {
				r.stats.failed++
			}
		case "set2":
			// two element lvalues on two different variables
			name2 := r.pick(op.Var2)
			if name2 == name {
				for _, n := range r.names {
					if n != name {
						name2 = n
						break
					}
				}
			}
			if name2 == name {
				continue
			}
			old2 := r.model[name2]
			path := c14Resolve(old, op.Path, false)
			if len(path) == 0 {
				path = c14Resolve(old, []c14Sel{{Mode: "ok"}}, false)
			}
			r1src, r1 := r.rhs(op.Rhs)
			r2src, r2 := r.rhs(op.Rhs2)
			nv1, err1 := c14AssocPath(old, path, r1)
			// The reference does not say whether a multiple assignment is
			// atomic: the second lvalue is made infallible so that the question
			// does not arise.
			path2 := c14Resolve(old2, op.Path2, true)
			nv2 := r2
			if len(path2) > 0 {
				var err error
				nv2, err = c14AssocPath(old2, path2, r2)
				if err != nil {
					path2, nv2 = nil, r2
				}
			}
			src := "set " + name + c14PathSrc(path) + " " + name2 + c14PathSrc(path2) + " = " + r1src + " " + r2src
			when += ": " + src
			if err := r.exec(src, err1 != nil, nil, nil, when); err != nil {
				return r.stats, err
			}
			if err1 == nil {
				r.model[name], r.model[name2] = nv1, nv2
				r.stats.assignOK += 2
				if len(path) >= 2 {
					r.stats.nestedOK++
				}
				if len(path2) >= 2 {
					r.stats.nestedOK++
				}
				if r.shared[name] || r.shared[name2] {
					r.stats.sharedHit++
				}
			} else {
				r.stats.failed++
			}
		case "tmp", "with":
			path := c14Resolve(old, op.Path, false)
			if len(path) == 0 {
				path = c14Resolve(old, []c14Sel{{Mode: "ok"}}, false)
			}
			rsrc, rval := r.rhs(op.Rhs)
			nv, merr := c14AssocPath(old, path, rval)
			lhs := name + c14PathSrc(path)
			// the body: optionally assign an element of another variable (this
			// one persists), then output everything, then optionally fail
			var bodySrc []string
			inner := ""
			var innerNew c14V
			innerOK := false
			if merr == nil {
				r.model[name] = nv // visible inside the body
			}
			if op.Inner && merr == nil {
				name2 := r.pick(op.Var2)
				if name2 != name {
					old2 := r.model[name2]
					p2 := c14Resolve(old2, op.Path2, true)
					if len(p2) > 0 {
						r2src, r2 := r.rhs(op.Rhs2)
						if v2, err := c14AssocPath(old2, p2, r2); err == nil {
							inner, innerNew, innerOK = name2, v2, true
							bodySrc = append(bodySrc, "set "+name2+c14PathSrc(p2)+" = "+r2src)
							r.model[name2] = v2
						}
					}
				}
			}
			psrc, pwant, pwhat := r.probe()
			bodySrc = append(bodySrc, psrc)
			if op.Fail {
				bodySrc = append(bodySrc, "fail boom")
			}
			var src string
			if op.K == "tmp" {
				switch op.Form % 2 {
				case 0:
					src = "{ tmp " + lhs + " = " + rsrc + "; " + strings.Join(bodySrc, "; ") + " }"
				default:
					src = "fn c14t { tmp " + lhs + " = " + rsrc + "; " + strings.Join(bodySrc, "; ") + " }; c14t"
				}
			} else {
				// `with a[k] = v { }` is rejected at compile time ("argument must
				// not be compound expressions"): element targets need the
				// bracketed form.
				switch {
				case op.Form%2 == 0 && len(path) == 0:
					src = "with " + lhs + " = " + rsrc + " { " + strings.Join(bodySrc, "; ") + " }"
				default:
					src = "with [" + lhs + " = " + rsrc + "] { " + strings.Join(bodySrc, "; ") + " }"
				}
			}
			when += ": " + src
			var body []c14V
			if merr == nil {
				body = pwant
			}
			err := r.exec(src, merr != nil || op.Fail, body, pwhat, when)
			// after the function / the with body has finished the variable has
			// its previous value again; the inner assignment persists
			r.model[name] = old
			if innerOK {
				r.model[inner] = innerNew
			}
			if err != nil {
				return r.stats, err
			}
			if merr == nil {
				r.stats.temps++
				if len(path) >= 2 {
					r.stats.nestedOK++
				}
				if r.shared[name] {
					r.stats.sharedHit++
				}
			} else {
				r.stats.failed++
			}
		case "alias", "alist", "closure", "out":
			path := c14Resolve(old, op.Path, true)
			v, err := c14IndexPath(old, path)
			if err != nil {
				panic("forced path does not resolve")
			}
			ref := "$" + name + c14PathSrc(path)
			r.shared[name] = true
			r.stats.aliases++
			kind := op.K
			if (kind == "alias" || kind == "alist") && r.total() > 1500 {
				kind = "out" // no further copies once the values are large
			}
			switch kind {
			case "alias":
				nn := "b" + fresh
				if err := r.exec("var "+nn+" = "+ref, false, nil, nil, when+": var "+nn+" = "+ref); err != nil {
					return r.stats, err
				}
				r.names = append(r.names, nn)
				r.model[nn] = v
				r.shared[nn] = true
			case "alist":
				nn := "c" + fresh
				src := "var " + nn + " = [$" + name + " " + ref + "]"
				if err := r.exec(src, false, nil, nil, when+": "+src); err != nil {
					return r.stats, err
				}
				r.names = append(r.names, nn)
				r.model[nn] = c14V{K: "l", L: []c14V{old, v}}
				r.shared[nn] = true
			case "closure":
				nn := "f" + fresh
				src := "var " + nn + " = ({|v| put { put $v } } " + ref + ")"
				if err := r.exec(src, false, nil, nil, when+": "+src); err != nil {
					return r.stats, err
				}
				r.clos = append(r.clos, nn)
				r.closVal[nn] = v
			case "out":
				src := "put " + ref
				if err := r.exec(src, false, []c14V{v}, []string{ref}, when+": "+src); err != nil {
					return r.stats, err
				}
			}
		case "reenter":
			// One and the same assignment statement executed again (with other
			// indices) while its own right-hand side is being evaluated: a
			// recursive function. Every level evaluates its left-hand side
			// against the value the variable has on the way down (nothing has
			// been assigned yet), so the outermost level, which assigns last,
			// decides: the variable ends as its old value with only the outer
			// level's element replaced.
			pOut := c14Resolve(old, op.Path, true)
			pIn := c14Resolve(old, op.Path2, true)
			ln := len(pOut)
			if len(pIn) < ln {
				ln = len(pIn)
			}
			if ln == 0 {
				continue
			}
			pOut, pIn = pOut[:ln], pIn[:ln]
			rOut, rIn := c14Str("re-outer"+fresh), c14Str("re-inner"+fresh)
			if op.Rhs.Lit != nil {
				rOut = *op.Rhs.Lit
			}
			nv, merr := c14AssocPath(old, pOut, rOut)
			if _, err := c14AssocPath(old, pIn, rIn); err != nil || merr != nil {
				continue
			}
			idxSrc := func(path []c14V) string {
				parts := make([]string, len(path))
				for i, p := range path {
					parts[i] = p.c14Src()
				}
				return "[" + strings.Join(parts, " ") + "]"
			}
			lhs := name
			for i := 0; i < ln; i++ {
				lhs += "[$c14ks[$d][" + strconv.Itoa(i) + "]]"
			}
			kw := []string{"set", "set", "tmp"}[op.Form%3]
			src := "var c14ks = [" + idxSrc(pIn) + " " + idxSrc(pOut) + "]; fn c14re {|d| " + kw + " " + lhs +
				" = (if (> $d 0) { c14re (- $d 1); put " + rOut.c14Src() + " } else { put " + rIn.c14Src() + " })"
			var body []c14V
			var bodyWhat []string
			if kw == "tmp" {
				// the temporary value is in effect until the function returns: look at it
				src += "; if (== $d 1) { put $" + name + " }"
				body, bodyWhat = []c14V{nv}, []string{"$" + name + " inside the outer call"}
			}
			src += " }; c14re 1"
			when += ": " + src
			if err := r.exec(src, false, body, bodyWhat, when); err != nil {
				return r.stats, err
			}
			if kw == "set" {
				r.model[name] = nv
				r.stats.assignOK++
			} else {
				r.stats.temps++
			}
			r.stats.reentered++
			if ln >= 2 {
				r.stats.nestedOK++
			}
			if r.shared[name] {
				r.stats.sharedHit++
			}
		case "cvar":
			nn := "g" + fresh
			src := "var " + nn + " = { put $" + name + " }"
			if err := r.exec(src, false, nil, nil, when+": "+src); err != nil {
				return r.stats, err
			}
			r.cvarsOrd = append(r.cvarsOrd, nn)
			r.cvars[nn] = name
		default:
			return r.stats, fmt.Errorf("unknown op %q", op.K)
		}
		if err := r.observe("after " + when); err != nil {
			return r.stats, err
		}
	}
	return r.stats, nil
}

// ---- generator -------------------------------------------------------------------

var c14Words = []string{"x", "y", "lorem", "k0", "k1", "0", "1", "-1", "", "a b", "it's", "é世", "0..1", "$a0", "[", "&k=v"}

func c14GenVal(t *rapid.T, label string, depth, width int) c14V {
	kinds := []string{"s", "s", "s", "nil", "b", "n"}
	if depth > 0 {
		kinds = []string{"s", "s", "nil", "b", "n", "l", "l", "l", "m", "m", "m"}
	}
	switch rapid.SampledFrom(kinds).Draw(t, label+"k") {
	case "nil":
		return c14V{K: "nil"}
	case "b":
		return c14V{K: "b", B: rapid.Bool().Draw(t, label+"b")}
	case "n":
		return c14Int(rapid.IntRange(-2, 3).Draw(t, label+"i"))
	case "l":
		return c14GenList(t, label, depth, width)
	case "m":
		return c14GenMap(t, label, depth, width)
	}
	return c14Str(rapid.SampledFrom(c14Words).Draw(t, label+"s"))
}

func c14GenList(t *rapid.T, label string, depth, width int) c14V {
	v := c14V{K: "l"}
	n := rapid.IntRange(0, width).Draw(t, label+"#")
	if depth >= 2 && rapid.IntRange(0, 19).Draw(t, label+"long") == 0 {
		// longer than one tail / one trie leaf of the persistent vector
		n = rapid.IntRange(33, 70).Draw(t, label+"#long")
		for i := 0; i < n; i++ {
			v.L = append(v.L, c14Str("e"+strconv.Itoa(i)))
		}
		return v
	}
	for i := 0; i < n; i++ {
		v.L = append(v.L, c14GenVal(t, label+"e", depth-1, width))
	}
	return v
}

// Strings with one and the same hash ("ab" and "bA" collide under the string
// hash, so do all concatenations of the same length): a map of these keeps
// them in one collision node of the persistent hash map.
var c14Colliding = []string{"ababab", "ababbA", "abbAab", "abbAbA", "bAabab", "bAabbA", "bAbAab", "bAbAbA"}

func c14IsColliding(s string) bool {
	for _, c := range c14Colliding {
		if c == s {
			return true
		}
	}
	return false
}

func c14GenMap(t *rapid.T, label string, depth, width int) c14V {
	v := c14V{K: "m"}
	if depth >= 1 {
		switch rapid.IntRange(0, 11).Draw(t, label+"shape") {
		case 0:
			// wide: enough keys that a level of the hash trie becomes an array node
			n := rapid.IntRange(20, 45).Draw(t, label+"#wide")
			for i := 0; i < n; i++ {
				v.M = append(v.M, c14KV{c14Str("w" + strconv.Itoa(i)), c14Str("v" + strconv.Itoa(i))})
			}
			return v
		case 1, 2:
			// 2..4 fully hash-colliding keys, inserted one by one
			n := rapid.IntRange(2, 4).Draw(t, label+"#coll")
			off := rapid.IntRange(0, len(c14Colliding)-1).Draw(t, label+"colloff")
			for i := 0; i < n; i++ {
				v.M = append(v.M, c14KV{c14Str(c14Colliding[(off+i)%len(c14Colliding)]), c14GenVal(t, label+"cv", depth-1, width)})
			}
			return v
		}
	}
	n := rapid.IntRange(0, width).Draw(t, label+"#")
	seen := map[string]bool{}
	for i := 0; i < n; i++ {
		var k c14V
		switch nk := rapid.IntRange(0, 8).Draw(t, label+"nk"); {
		case nk == 0:
			k = c14Int(rapid.IntRange(0, 2).Draw(t, label+"ik"))
		case nk == 1:
			k = c14V{K: "nil"}
		case nk == 2 && i > 1:
			k = c14V{K: "b", B: i%2 == 0}
		default:
			k = c14Str("k" + strconv.Itoa(rapid.IntRange(0, 6).Draw(t, label+"sk")))
		}
		if seen[c14KeyText(k)] {
			continue
		}
		seen[c14KeyText(k)] = true
		v.M = append(v.M, c14KV{k, c14GenVal(t, label+"v", depth-1, width)})
	}
	return v
}

func c14GenPath(t *rapid.T, label string, min, max int) []c14Sel {
	n := rapid.IntRange(min, max).Draw(t, label+"#")
	modes := []string{"ok", "ok", "ok", "ok", "ok", "ok", "ok", "ok", "ok", "ok", "ok", "ok", "neg", "neg", "new", "new", "num", "oob", "bad"}
	var p []c14Sel
	for i := 0; i < n; i++ {
		p = append(p, c14Sel{Mode: rapid.SampledFrom(modes).Draw(t, label+"m"), N: rapid.IntRange(0, 11).Draw(t, label+"n")})
	}
	return p
}

func c14GenRhs(t *rapid.T, label string) c14Rhs {
	if rapid.IntRange(0, 9).Draw(t, label+"ref") < 5 {
		return c14Rhs{Var: rapid.IntRange(0, 7).Draw(t, label+"v"), Path: c14GenPath(t, label+"p", 0, 2)}
	}
	v := c14GenVal(t, label+"lit", 2, 3)
	return c14Rhs{Lit: &v}
}

func c14Gen(t *rapid.T) c14Case {
	var c c14Case
	nv := rapid.IntRange(2, 3).Draw(t, "nvars")
	for i := 0; i < nv; i++ {
		// every initial value has an element that is itself a non-empty
		// container, so that paths of length >= 2 exist from the start
		var v c14V
		inner := c14V{K: "l", L: []c14V{c14GenVal(t, "in", 1, 3), c14Str("in")}}
		if rapid.Bool().Draw(t, "innermap") {
			inner = c14V{K: "m", M: []c14KV{{c14Str("k0"), c14GenVal(t, "in", 1, 3)}, {c14Str("k1"), c14Str("in")}}}
		}
		if rapid.Bool().Draw(t, "initlist") {
			v = c14GenList(t, "init", 3, 3)
			v.L = append(v.L, inner)
		} else {
			v = c14GenMap(t, "init", 3, 3)
			v.M = append(v.M, c14KV{c14Str("kin"), inner})
		}
		c.Init = append(c.Init, v)
	}
	kinds := []string{"set", "set", "set", "set", "set", "set", "set", "set", "del", "del", "del", "tmp", "tmp", "with", "with",
		"set2", "setrest", "alias", "alias", "alist", "closure", "cvar", "out", "out", "reenter"}
	n := rapid.IntRange(8, 40).Draw(t, "nops")
	for i := 0; i < n; i++ {
		op := c14Op{
			K:    rapid.SampledFrom(kinds).Draw(t, "k"),
			Var:  rapid.IntRange(0, 7).Draw(t, "var"),
			Path: c14GenPath(t, "path", 0, 3),
			Rhs:  c14GenRhs(t, "rhs"),
		}
		if i < nv {
			// every initial variable gets an alias before anything is assigned
			op.K = rapid.SampledFrom([]string{"alias", "alist", "closure", "out", "cvar"}).Draw(t, "k0")
			op.Var = i
			if i == 0 {
				op.Path = nil
			}
		}
		switch op.K {
		case "set", "del":
			if len(op.Path) == 0 || rapid.Bool().Draw(t, "deep") {
				op.Path = c14GenPath(t, "path", 2, 3)
			}
		case "reenter":
			op.Path = c14GenPath(t, "path", 1, 2)
			op.Path2 = c14GenPath(t, "path2", 1, 2)
			op.Form = rapid.IntRange(0, 2).Draw(t, "form")
		case "set2", "setrest", "tmp", "with":
			if len(op.Path) == 0 {
				op.Path = c14GenPath(t, "path", 1, 3)
			}
			op.Var2 = rapid.IntRange(0, 7).Draw(t, "var2")
			op.Path2 = c14GenPath(t, "path2", 0, 2)
			op.Rhs2 = c14GenRhs(t, "rhs2")
			op.Inner = rapid.Bool().Draw(t, "inner")
			op.Fail = rapid.IntRange(0, 3).Draw(t, "fail") == 0
			op.Form = rapid.IntRange(0, 1).Draw(t, "form")
		}
		c.Ops = append(c.Ops, op)
	}
	return c
}

// c14GenForks: one container of a shape where the persistent data structures
// have internal nodes with spare room or in-place-updatable arrays (a
// collision node of three hash-colliding keys, a wide map with an array node,
// lists around the tail/leaf boundaries), several aliases of it, and then a
// different element assignment through every alias.
func c14GenForks(t *rapid.T) c14Case {
	var c c14Case
	var base c14V
	switch rapid.IntRange(0, 5).Draw(t, "shape") {
	case 0, 1:
		base = c14V{K: "m"}
		off := rapid.IntRange(0, len(c14Colliding)-1).Draw(t, "colloff")
		for i := 0; i < rapid.SampledFrom([]int{3, 3, 3, 2, 4, 5}).Draw(t, "ncoll"); i++ {
			base.M = append(base.M, c14KV{c14Str(c14Colliding[(off+i)%len(c14Colliding)]), c14Str("c" + strconv.Itoa(i))})
		}
	case 2:
		base = c14V{K: "m"}
		for i := 0; i < rapid.IntRange(17, 45).Draw(t, "nwide"); i++ {
			base.M = append(base.M, c14KV{c14Str("w" + strconv.Itoa(i)), c14Str("v" + strconv.Itoa(i))})
		}
	case 3, 4:
		base = c14V{K: "l"}
		for i := 0; i < rapid.SampledFrom([]int{3, 5, 7, 31, 32, 33, 34, 63, 64, 65, 66}).Draw(t, "nlist"); i++ {
			base.L = append(base.L, c14Str("e"+strconv.Itoa(i)))
		}
	default:
		base = c14GenMap(t, "small", 2, 4)
	}
	var prefix []c14Sel
	switch rapid.IntRange(0, 2).Draw(t, "wrap") {
	case 1:
		base = c14V{K: "l", L: []c14V{c14Str("x"), base}}
		prefix = []c14Sel{{Mode: "ok", N: 1}}
	case 2:
		base = c14V{K: "m", M: []c14KV{{c14Str("k0"), base}, {c14Str("k1"), c14Str("y")}}}
		prefix = []c14Sel{{Mode: "ok", N: 0}}
	}
	c.Init = []c14V{base, c14V{K: "l", L: []c14V{c14Str("other"), c14V{K: "l", L: []c14V{c14Str("z")}}}}}
	nalias := rapid.IntRange(2, 4).Draw(t, "naliases")
	for i := 0; i < nalias; i++ {
		c.Ops = append(c.Ops, c14Op{K: rapid.SampledFrom([]string{"alias", "alias", "closure", "out", "cvar", "alist"}).Draw(t, "ak"), Var: 0})
	}
	nset := rapid.IntRange(3, 8).Draw(t, "nsets")
	for i := 0; i < nset; i++ {
		sel := c14Sel{Mode: rapid.SampledFrom([]string{"new", "new", "new", "ok", "neg"}).Draw(t, "mode"), N: rapid.IntRange(0, 11).Draw(t, "n")}
		op := c14Op{
			K:    rapid.SampledFrom([]string{"set", "set", "set", "del", "tmp", "with"}).Draw(t, "k"),
			Var:  rapid.SampledFrom([]int{0, 0, 2, 3, 4, 5, 6, 7}).Draw(t, "var"),
			Path: append(append([]c14Sel(nil), prefix...), sel),
			Rhs:  c14Rhs{Lit: &c14V{K: "s", S: "new" + strconv.Itoa(i)}},
		}
		if op.K == "tmp" || op.K == "with" {
			op.Var2 = 1
			op.Path2 = []c14Sel{{Mode: "ok", N: 0}}
			op.Rhs2 = c14Rhs{Lit: &c14V{K: "s", S: "t"}}
			op.Form = rapid.IntRange(0, 1).Draw(t, "form")
			op.Inner = rapid.Bool().Draw(t, "inner")
		}
		c.Ops = append(c.Ops, op)
	}
	return c
}

func init() {
	vs.Register(vs.Prop[c14Case]{
		Name: "C14/forks",
		Rule: "one container whose persistent representation has nodes with spare room or update-in-place arrays (3 hash-colliding string keys, a 17-45 key map, lists of length 31-34 / 63-66), optionally nested in an outer list/map, 2-4 aliases of it (variable, list of it, closure capture, variable capture, output value), then 3-8 different element assignments / deletions / tmp / with through the original and the aliases; after every step everything is compared with the Go model; non-trivial = at least two successful assignments",
		Gen:  c14GenForks,
		Check: func(c c14Case) error {
			_, err := c14RunCase(c, elv.New())
			return err
		},
		Class: func(c c14Case) (string, bool) {
			st, _ := c14RunCase(c, nil)
			if st.assignOK+st.temps >= 2 {
				return "fork", true
			}
			return "few-assignments", false
		},
		Quick: 250, Thorough: 2500,
		Timeout: 120 * time.Second,
	})
	vs.Register(vs.Prop[c14Case]{
		Name: "C14/history",
		Rule: "2-3 variables holding nested lists/maps (depth<=3, occasionally a list of 33-70 elements), then 8-40 steps: set a[i][j].. = v (v a literal or $b[..], so structure is shared), del a[k].., two element lvalues in one set, a rest lvalue @a[i], an element set / tmp inside a recursive function whose right-hand side re-enters the same statement with other indices, tmp / with on an element inside a function (the body outputs everything, may assign another variable, may fail), and alias steps (var b = $a[..], var c = [$a $a[i]], a closure that captured the value, a closure that captured the variable, a value output and kept by the harness); indices are existing / negative / typed-number / new-key / out-of-range / non-integer; after every step every variable, every closure and every value ever output is compared with the Go model; non-trivial = at least one alias sharing structure with a variable that is assigned afterwards and at least two successful assignments with a path of length >= 2",
		Gen:  c14Gen,
		Check: func(c c14Case) error {
			_, err := c14RunCase(c, elv.New())
			return err
		},
		Class: func(c c14Case) (string, bool) {
			st, _ := c14RunCase(c, nil)
			nt := st.sharedHit >= 1 && st.nestedOK >= 2
			switch {
			case nt && st.reentered > 0:
				return "shared+nested+re-entered-assignment", true
			case nt && st.temps > 0 && st.failed > 0:
				return "shared+nested+tmp/with+failing-step", true
			case nt && st.temps > 0:
				return "shared+nested+tmp/with", true
			case nt && st.failed > 0:
				return "shared+nested+failing-step", true
			case nt:
				return "shared+nested", true
			case st.assignOK+st.temps > 0:
				return "assignments-without-shared-alias-or-nesting", false
			}
			return "no-successful-assignment", false
		},
		Quick: 400, Thorough: 3000,
		Timeout: 120 * time.Second,
	})
}
