package props

// C15 core-language AST and its pretty-printer to Elvish source.
//
// One uniform, JSON-serialisable node type. What the slots mean depends on K:
//
// expressions (evaluate to 0..n values)
//   str    S literal string
//   var    S name, F = explode ($@name)
//   list   A elements
//   map    A keys, B values (same length)
//   lam    A params (K=p: S name, F rest), B options (K=o: S name, A[0] default), C body chunk
//   cap    C chunk              ( ... )
//   exc    C chunk              ?( ... )
//   brace  A elements           {a b}
//   idx    A[0] indexee, B indices
//   cat    A parts (compound expression)
//
// forms (elements of a chunk)
//   cmd    S head (builtin or fn name), A args, B options (K=o)
//   call   A[0] head expression, A[1:] args, B options
//   vardecl A lvalues (K=lv: S name, F rest), B right-hand side, N=1 when "=" is present
//   set    A lvalues (K=lv: S name, F rest, B element indices), B right-hand side
//   if     A conditions, B bodies (K=blk, C chunk), N=1: else present, C else chunk
//   while  A[0] condition, C body, N=1: else present, D else chunk
//   for    S variable, A[0] container, C body, N=1: else present, D else chunk
//   try    C body, A clauses (K=blk, S = catch|else|finally, V = catch variable, C chunk)
//   fn     S name, A[0] lambda
//   and / or / coalesce   A args
//   pipe   A forms (at least two)

import (
	"regexp"
	"strconv"
	"strings"
)

type c15N struct {
	K string `json:"k"`
	S string `json:"s,omitempty"`
	V string `json:"v,omitempty"`
	N int    `json:"n,omitempty"`
	F bool   `json:"f,omitempty"`
	A []c15N `json:"a,omitempty"`
	B []c15N `json:"b,omitempty"`
	C []c15N `json:"c,omitempty"`
	D []c15N `json:"d,omitempty"`
}

// ---- constructors used by the generator and the regression cases ----------------

func c15Str(s string) c15N               { return c15N{K: "str", S: s} }
func c15Var(name string) c15N            { return c15N{K: "var", S: name} }
func c15Cmd(head string, a ...c15N) c15N { return c15N{K: "cmd", S: head, A: a} }
func c15Cap(forms ...c15N) c15N          { return c15N{K: "cap", C: forms} }
func c15Exc(forms ...c15N) c15N          { return c15N{K: "exc", C: forms} }
func c15List(a ...c15N) c15N             { return c15N{K: "list", A: a} }
func c15Blk(forms ...c15N) c15N          { return c15N{K: "blk", C: forms} }
func c15Lam(params []string, body ...c15N) c15N {
	n := c15N{K: "lam", C: body}
	for _, p := range params {
		if strings.HasPrefix(p, "@") {
			n.A = append(n.A, c15N{K: "p", S: p[1:], F: true})
		} else {
			n.A = append(n.A, c15N{K: "p", S: p})
		}
	}
	return n
}
func c15VarDecl(name string, rhs ...c15N) c15N {
	return c15N{K: "vardecl", A: []c15N{{K: "lv", S: name}}, B: rhs, N: 1}
}
func c15Set(name string, rhs ...c15N) c15N {
	return c15N{K: "set", A: []c15N{{K: "lv", S: name}}, B: rhs}
}

// ---- printer --------------------------------------------------------------------

var c15BareRE = regexp.MustCompile(`^(-?[0-9]+|[a-z][a-z0-9]*)$`)

var c15Keywords = map[string]bool{"else": true, "elif": true, "catch": true, "except": true, "finally": true}

func c15Quote(s string) string {
	return "'" + strings.ReplaceAll(s, "'", "''") + "'"
}

// c15Word prints a string literal; bare selects the bareword form when it is safe.
func c15Word(s string, bare bool) string {
	if bare && c15BareRE.MatchString(s) && !c15Keywords[s] {
		return s
	}
	return c15Quote(s)
}

type c15Printer struct {
	sb strings.Builder
}

func c15Print(chunk []c15N) string {
	p := &c15Printer{}
	p.chunk(chunk, 0, "\n")
	return p.sb.String()
}

func (p *c15Printer) w(s string) { p.sb.WriteString(s) }

func (p *c15Printer) indent(n int) {
	for i := 0; i < n; i++ {
		p.w("  ")
	}
}

// chunk prints forms separated by sep ("\n" + indentation, or "; ").
func (p *c15Printer) chunk(forms []c15N, ind int, sep string) {
	for i, f := range forms {
		if i > 0 {
			p.w(sep)
		}
		if sep == "\n" {
			p.indent(ind)
		}
		p.form(f, ind)
	}
}

// block prints "{ forms }" as a lambda-like body over several lines.
func (p *c15Printer) block(forms []c15N, ind int) {
	if len(forms) == 0 {
		p.w("{ }")
		return
	}
	p.w("{\n")
	p.chunk(forms, ind+1, "\n")
	p.w("\n")
	p.indent(ind)
	p.w("}")
}

func (p *c15Printer) opts(os []c15N, ind int) {
	for _, o := range os {
		p.w(" &" + o.S + "=")
		p.expr(o.A[0], ind, false)
	}
}

func (p *c15Printer) args(as []c15N, ind int) {
	for _, a := range as {
		p.w(" ")
		p.expr(a, ind, true)
	}
}

func (p *c15Printer) lvalues(ls []c15N, ind int) {
	for _, l := range ls {
		p.w(" ")
		if l.F {
			p.w("@")
		}
		p.w(l.S)
		for _, ix := range l.B {
			p.w("[")
			p.expr(ix, ind, true)
			p.w("]")
		}
	}
}

func (p *c15Printer) form(f c15N, ind int) {
	switch f.K {
	case "cmd":
		p.w(f.S)
		p.args(f.A, ind)
		p.opts(f.B, ind)
	case "call":
		p.expr(f.A[0], ind, false)
		p.args(f.A[1:], ind)
		p.opts(f.B, ind)
	case "vardecl":
		p.w("var")
		p.lvalues(f.A, ind)
		if f.N == 1 {
			p.w(" =")
			p.args(f.B, ind)
		}
	case "set":
		p.w("set")
		p.lvalues(f.A, ind)
		p.w(" =")
		p.args(f.B, ind)
	case "if":
		for i := range f.A {
			if i == 0 {
				p.w("if ")
			} else {
				p.w(" elif ")
			}
			p.expr(f.A[i], ind, true)
			p.w(" ")
			p.block(f.B[i].C, ind)
		}
		if f.N == 1 {
			p.w(" else ")
			p.block(f.C, ind)
		}
	case "while":
		p.w("while ")
		p.expr(f.A[0], ind, true)
		p.w(" ")
		p.block(f.C, ind)
		if f.N == 1 {
			p.w(" else ")
			p.block(f.D, ind)
		}
	case "for":
		p.w("for " + f.S + " ")
		p.expr(f.A[0], ind, true)
		p.w(" ")
		p.block(f.C, ind)
		if f.N == 1 {
			p.w(" else ")
			p.block(f.D, ind)
		}
	case "try":
		p.w("try ")
		p.block(f.C, ind)
		for _, c := range f.A {
			p.w(" " + c.S + " ")
			if c.S == "catch" {
				p.w(c.V + " ")
			}
			p.block(c.C, ind)
		}
	case "fn":
		p.w("fn " + f.S + " ")
		p.expr(f.A[0], ind, false)
	case "and", "or", "coalesce":
		p.w(f.K)
		p.args(f.A, ind)
	case "pipe":
		for i, s := range f.A {
			if i > 0 {
				p.w(" | ")
			}
			p.form(s, ind)
		}
	default:
		panic("c15 printer: unknown form kind " + f.K)
	}
}

// c15Primary reports whether the node can be written directly as an indexee,
// a compound part or a command head.
func c15Primary(e c15N) bool {
	switch e.K {
	case "str", "var", "list", "map", "lam", "cap", "exc", "brace", "idx":
		return true
	}
	return false
}

// lead prints a primary expression whose leading string literal (the
// expression itself or the head of an index chain) is double-quoted if dq.
func (p *c15Printer) lead(e c15N, ind int, dq bool) {
	switch {
	case e.K == "str" && dq:
		p.w(strconv.Quote(e.S))
	case e.K == "idx" && dq && c15Primary(e.A[0]):
		p.lead(e.A[0], ind, dq)
		p.w("[")
		for i, a := range e.B {
			if i > 0 {
				p.w(" ")
			}
			p.expr(a, ind, true)
		}
		p.w("]")
	default:
		p.expr(e, ind, false)
	}
}

// expr prints an expression. bare allows barewords for simple strings (only
// when the expression stands alone as a word).
func (p *c15Printer) expr(e c15N, ind int, bare bool) {
	switch e.K {
	case "str":
		p.w(c15Word(e.S, bare))
	case "var":
		if e.F {
			p.w("$@" + e.S)
		} else {
			p.w("$" + e.S)
		}
	case "list":
		p.w("[")
		for i, a := range e.A {
			if i > 0 {
				p.w(" ")
			}
			p.expr(a, ind, true)
		}
		p.w("]")
	case "map":
		if len(e.A) == 0 {
			p.w("[&]")
			return
		}
		p.w("[")
		for i := range e.A {
			if i > 0 {
				p.w(" ")
			}
			p.w("&")
			p.expr(e.A[i], ind, true)
			p.w("=")
			p.expr(e.B[i], ind, true)
		}
		p.w("]")
	case "lam":
		p.w("{")
		if len(e.A)+len(e.B) > 0 {
			p.w("|")
			first := true
			for _, a := range e.A {
				if !first {
					p.w(" ")
				}
				first = false
				if a.F {
					p.w("@")
				}
				p.w(a.S)
			}
			for _, o := range e.B {
				if !first {
					p.w(" ")
				}
				first = false
				p.w("&" + o.S + "=")
				p.expr(o.A[0], ind, true)
			}
			p.w("|")
		}
		if len(e.C) == 0 {
			p.w(" }")
			return
		}
		if len(e.C) == 1 && c15Simple(e.C[0]) {
			p.w(" ")
			p.form(e.C[0], ind)
			p.w(" }")
			return
		}
		p.w("\n")
		p.chunk(e.C, ind+1, "\n")
		p.w("\n")
		p.indent(ind)
		p.w("}")
	case "cap", "exc":
		if e.K == "exc" {
			p.w("?")
		}
		p.w("(")
		p.chunk(e.C, ind, "; ")
		p.w(")")
	case "brace":
		p.w("{")
		for i, a := range e.A {
			if i > 0 {
				p.w(" ")
			}
			p.expr(a, ind, true)
		}
		p.w("}")
	case "idx":
		if c15Primary(e.A[0]) {
			p.expr(e.A[0], ind, false)
		} else {
			p.w("{")
			p.expr(e.A[0], ind, false)
			p.w("}")
		}
		p.w("[")
		for i, a := range e.B {
			if i > 0 {
				p.w(" ")
			}
			p.expr(a, ind, true)
		}
		p.w("]")
	case "cat":
		for i, a := range e.A {
			// 'a''b' would be one string with an escaped quote: a string literal that
			// directly follows a single-quoted one is written with double quotes
			dq := strings.HasSuffix(p.sb.String(), "'")
			switch {
			case i > 0 && (a.K == "list" || a.K == "map"):
				// directly after another part "[" would start an index
				p.w("{")
				p.expr(a, ind, false)
				p.w("}")
			case c15Primary(a):
				p.lead(a, ind, dq)
			default:
				p.w("{")
				p.expr(a, ind, false)
				p.w("}")
			}
		}
	default:
		panic("c15 printer: unknown expression kind " + e.K)
	}
}

// c15Simple: a form short enough to keep a lambda on one line.
func c15Simple(f c15N) bool {
	switch f.K {
	case "cmd", "call", "set", "and", "or", "coalesce":
		return c15Size(f) < 12
	}
	return false
}

func c15Size(n c15N) int {
	s := 1
	for _, l := range [][]c15N{n.A, n.B, n.C, n.D} {
		for _, c := range l {
			s += c15Size(c)
		}
	}
	return s
}
