package props

// C15/docs: the worked examples of website/ref/language.md and of the builtin
// documentation, transcribed into the core-language AST with the outputs the
// documentation shows. Each example is decided three ways: the documented
// output, the reference interpreter and Elvish must all agree. This anchors the
// reference interpreter to the text it was written from.

import (
	"fmt"
	"strings"

	"verif/vs"
)

type c15Doc struct {
	Name string   `json:"name"`
	Prog []c15N   `json:"prog"`
	Want []string `json:"want"`          // canonical values, see c15CanonCtx
	Err  string   `json:"err,omitempty"` // cause signature, "" = none
}

// ---- terse constructors ---------------------------------------------------------------

func c15S(s string) c15N { return c15Str(s) }
func c15Ss(ss ...string) []c15N {
	out := make([]c15N, len(ss))
	for i, s := range ss {
		if strings.HasPrefix(s, "$") {
			out[i] = c15Var(s[1:])
		} else {
			out[i] = c15Str(s)
		}
	}
	return out
}
func c15C(head string, args ...string) c15N { return c15N{K: "cmd", S: head, A: c15Ss(args...)} }
func c15Call(head c15N, args ...c15N) c15N  { return c15N{K: "call", A: append([]c15N{head}, args...)} }
func c15L(ss ...string) c15N                { return c15N{K: "list", A: c15Ss(ss...)} }
func c15Br(ss ...string) c15N               { return c15N{K: "brace", A: c15Ss(ss...)} }
func c15Ix(e c15N, idx ...string) c15N      { return c15N{K: "idx", A: []c15N{e}, B: c15Ss(idx...)} }
func c15Cat(parts ...c15N) c15N             { return c15N{K: "cat", A: parts} }
func c15M(kv ...string) c15N {
	m := c15N{K: "map"}
	for i := 0; i+1 < len(kv); i += 2 {
		m.A = append(m.A, c15Str(kv[i]))
		m.B = append(m.B, c15Ss(kv[i+1])[0])
	}
	return m
}
func c15Vars(rhs []c15N, names ...string) c15N {
	f := c15N{K: "vardecl", B: rhs, N: 1}
	if rhs == nil {
		f.N = 0
	}
	for _, n := range names {
		f.A = append(f.A, c15N{K: "lv", S: strings.TrimPrefix(n, "@"), F: strings.HasPrefix(n, "@")})
	}
	return f
}
func c15Sets(rhs []c15N, names ...string) c15N {
	f := c15Vars(rhs, names...)
	f.K, f.N = "set", 0
	return f
}
func c15If(cond c15N, then []c15N, els []c15N) c15N {
	f := c15N{K: "if", A: []c15N{cond}, B: []c15N{{K: "blk", C: then}}}
	if els != nil {
		f.N, f.C = 1, els
	}
	return f
}
func c15For(v string, cont c15N, body ...c15N) c15N {
	return c15N{K: "for", S: v, A: []c15N{cont}, C: body}
}
func c15Try(body []c15N, clauses ...c15N) c15N { return c15N{K: "try", C: body, A: clauses} }
func c15Catch(v string, body ...c15N) c15N     { return c15N{K: "blk", S: "catch", V: v, C: body} }
func c15Else(body ...c15N) c15N                { return c15N{K: "blk", S: "else", C: body} }
func c15Finally(body ...c15N) c15N             { return c15N{K: "blk", S: "finally", C: body} }
func c15Fn(name string, lam c15N) c15N         { return c15N{K: "fn", S: name, A: []c15N{lam}} }
func c15Pipe(forms ...c15N) c15N               { return c15N{K: "pipe", A: forms} }
func c15Logic(k string, args ...c15N) c15N     { return c15N{K: k, A: args} }
func c15WithOpt(f c15N, name string, v c15N) c15N {
	f.B = append(f.B, c15N{K: "o", S: name, A: []c15N{v}})
	return f
}
func c15LamOpt(lam c15N, name string, def c15N) c15N {
	lam.B = append(lam.B, c15N{K: "o", S: name, A: []c15N{def}})
	return lam
}
func c15Forms(fs ...c15N) []c15N { return fs }

// canonical expected values
func c15Ws(ss ...string) []string {
	out := make([]string, len(ss))
	for i, s := range ss {
		switch {
		case strings.HasPrefix(s, "#"): // typed number
			out[i] = "n" + s[1:]
		case strings.HasPrefix(s, "="): // already canonical
			out[i] = s[1:]
		default:
			out[i] = "s" + fmt.Sprintf("%q", s)
		}
	}
	return out
}

func c15Docs() []c15Doc {
	put := func(args ...c15N) c15N { return c15N{K: "cmd", S: "put", A: args} }
	cmd := func(head string, args ...c15N) c15N { return c15N{K: "cmd", S: head, A: args} }
	return []c15Doc{
		{Name: "language.md#closure-semantics make-adder",
			Prog: c15Forms(
				c15Fn("make-adder", c15Lam(nil,
					c15VarDecl("n", c15S("0")),
					put(c15Lam(nil, c15C("put", "$n")), c15Lam(nil, c15Set("n", c15Cap(c15C("+", "$n", "1"))))))),
				c15Vars(c15Forms(c15Cap(c15C("make-adder"))), "getter", "adder"),
				c15Call(c15Var("getter")), c15Call(c15Var("adder")), c15Call(c15Var("getter")),
				c15Vars(c15Forms(c15Cap(c15C("make-adder"))), "getter2", "adder2"),
				c15Call(c15Var("getter2")), c15Call(c15Var("getter"))),
			Want: c15Ws("0", "#1", "0", "#1")},
		{Name: "language.md#var shadowed variable still seen by earlier function",
			Prog: c15Forms(c15VarDecl("x", c15S("old")), c15Fn("f", c15Lam(nil, c15C("put", "$x"))),
				c15VarDecl("x", c15S("new")), c15C("put", "$x"), c15C("f")),
			Want: c15Ws("new", "old")},
		{Name: "language.md#var right-hand side sees the old variable",
			Prog: c15Forms(c15VarDecl("x", c15S("foo")), c15VarDecl("x", c15L("$x")), c15C("put", "$x")),
			Want: c15Ws(`=[s"foo"]`)},
		{Name: "language.md#var without value is nil",
			Prog: c15Forms(c15Vars(nil, "foo", "bar"), c15C("put", "$foo", "$bar")),
			Want: c15Ws("=nil", "=nil")},
		{Name: "language.md#set rest variable",
			Prog: c15Forms(c15Vars(nil, "x", "y", "z"),
				c15Sets(c15Ss("a", "b"), "x", "@y", "z"), c15C("put", "$x", "$y", "$z"),
				c15Sets(c15Ss("a", "b", "c", "d"), "x", "@y", "z"), c15C("put", "$x", "$y", "$z"),
				c15N{K: "set", A: []c15N{{K: "lv", S: "y", B: c15Ss("0")}}, B: c15Ss("foo")}, c15C("put", "$y")),
			Want: c15Ws("a", "=[]", "b", "a", `=[s"b" s"c"]`, "d", `=[s"foo" s"c"]`)},
		{Name: "language.md#set element assignment does not mutate the old list",
			Prog: c15Forms(c15VarDecl("li", c15L("foo", "bar")), c15VarDecl("li2", c15Var("li")),
				c15N{K: "set", A: []c15N{{K: "lv", S: "li", B: c15Ss("0")}}, B: c15Ss("lorem")}, c15C("put", "$li", "$li2")),
			Want: c15Ws(`=[s"lorem" s"bar"]`, `=[s"foo" s"bar"]`)},
		{Name: "language.md#scoping-rule",
			Prog: c15Forms(c15VarDecl("x", c15S("12")), c15Call(c15Lam(nil, c15C("put", "$x"))),
				c15Call(c15Lam(nil, c15VarDecl("y", c15S("bar")), c15Call(c15Lam(nil, c15C("put", "$y")))))),
			Want: c15Ws("12", "bar")},
		{Name: "language.md#variable-use exploding",
			Prog: c15Forms(c15VarDecl("li", c15L("lorem", "ipsum", "foo", "bar")), c15C("put", "$li"),
				put(c15N{K: "var", S: "li", F: true})),
			Want: c15Ws(`=[s"lorem" s"ipsum" s"foo" s"bar"]`, "lorem", "ipsum", "foo", "bar")},
		{Name: "language.md#output-capture",
			Prog: c15Forms(c15VarDecl("x", c15Cap(c15C("+", "1", "10", "100"))), c15C("put", "$x"),
				c15Vars(c15Forms(c15Cap(c15C("put", "lorem", "ipsum"))), "x", "y"), c15C("put", "$x"), c15C("put", "$y")),
			Want: c15Ws("#111", "lorem", "ipsum")},
		{Name: "language.md#exception-capture",
			Prog: c15Forms(put(c15Exc(c15C("fail", "bad"))), put(c15Exc(c15C("nop"))),
				c15VarDecl("output", c15Cap(c15VarDecl("error", c15Exc(c15C("put", "foo"), c15C("fail", "bad"))))), c15C("put", "$output")),
			// the documentation's own example declares a variable inside ( ); it is a regression
			// example only, the generator never does that
			Want: c15Ws(`=exc(fail:s"bad")`, "=ok", "foo")},
		{Name: "language.md#braced-list and compounding",
			Prog: c15Forms(put(c15Cat(c15Br("a", "b"), c15S("-"), c15Br("1", "2"))),
				c15VarDecl("li", c15L("foo", "bar")),
				put(c15Cat(c15Br("a", "b"), c15S("-"), c15Ix(c15Var("li"), "0", "1"))),
				put(c15Cat(c15S("a"), c15S("b"), c15S("c"))),
				c15VarDecl("v", c15S("value")), put(c15Cat(c15S("$v is "), c15Var("v")))),
			Want: c15Ws("a-1", "a-2", "b-1", "b-2", "a-foo", "a-bar", "b-foo", "b-bar", "abc", "$v is value")},
		{Name: "language.md#compounding numbers convert, lists do not",
			Prog: c15Forms(c15VarDecl("n", c15Cap(c15C("+", "10"))), c15VarDecl("l", c15L("a", "b", "c")),
				put(c15Cat(c15S("Number: "), c15Var("n"))), put(c15Cat(c15S("List: "), c15Var("l")))),
			Want: c15Ws("Number: 10"), Err: "concat"},
		{Name: "language.md#indexing",
			Prog: c15Forms(c15VarDecl("li", c15L("foo", "bar")), put(c15Ix(c15Var("li"), "0")),
				c15VarDecl("li", c15List(c15L("foo", "bar"), c15S("quux"))), put(c15Ix(c15Ix(c15Var("li"), "0"), "0")),
				put(c15Ix(c15Cap(put(c15L("foo", "bar"), c15L("lorem", "ipsum"))), "0")),
				put(c15Ix(c15N{K: "brace", A: []c15N{c15L("foo", "bar"), c15L("lorem", "ipsum")}}, "0")),
				put(c15Ix(c15S("elv"), "0", "2", "0..2")),
				put(c15Ix(c15L("lorem", "ipsum", "foo", "bar"), "0", "2", "0..2")),
				put(c15Ix(c15M("a", "lorem", "b", "ipsum", "a..b", "haha"), "a", "a..b")),
				put(c15Ix(c15N{K: "brace", A: []c15N{c15L("foo", "bar"), c15L("lorem", "ipsum")}}, "0", "1"))),
			Want: c15Ws("foo", "foo", "foo", "lorem", "foo", "lorem", "e", "v", "el", "lorem", "foo", `=[s"lorem" s"ipsum"]`,
				"lorem", "haha", "foo", "bar", "lorem", "ipsum")},
		{Name: "language.md#list indices and slices",
			Prog: c15Forms(c15VarDecl("li", c15L("lorem", "ipsum", "foo", "bar")),
				put(c15Ix(c15Var("li"), "0"), c15Ix(c15Var("li"), "-1"), c15Ix(c15Var("li"), "0..2"), c15Ix(c15Var("li"), "1..-1"),
					c15Ix(c15Var("li"), "..2"), c15Ix(c15Var("li"), "2.."), c15Ix(c15Var("li"), "0..=1"))),
			Want: c15Ws("lorem", "bar", `=[s"lorem" s"ipsum"]`, `=[s"ipsum" s"foo"]`, `=[s"lorem" s"ipsum"]`, `=[s"foo" s"bar"]`, `=[s"lorem" s"ipsum"]`)},
		{Name: "language.md#map literals",
			Prog: c15Forms(put(c15N{K: "map", A: c15Ss("a", "b", "sum"), B: []c15N{c15S("10"), c15S("23"), c15Cap(c15C("+", "10", "23"))}}),
				put(c15N{K: "map"})),
			Want: c15Ws(`={s"a"=s"10" s"b"=s"23" s"sum"=n33}`, "={}")},
		{Name: "language.md#function rest arguments and options",
			Prog: c15Forms(c15VarDecl("f", c15Lam([]string{"a", "b"}, c15C("put", "$b", "$a"))), c15Call(c15Var("f"), c15Ss("lorem", "ipsum")...),
				c15VarDecl("f", c15Lam([]string{"a", "@rest"}, c15C("put", "$a", "$rest"))),
				c15Call(c15Var("f"), c15S("lorem")), c15Call(c15Var("f"), c15Ss("lorem", "ipsum", "dolar", "sit")...),
				c15Sets(c15Forms(c15Lam([]string{"a", "@rest", "b"}, c15C("put", "$a", "$rest", "$b"))), "f"),
				c15Call(c15Var("f"), c15Ss("lorem", "ipsum", "dolar", "sit")...),
				c15VarDecl("f", c15LamOpt(c15Lam(nil, c15C("put", "$opt")), "opt", c15S("default"))),
				c15Call(c15Var("f")), c15WithOpt(c15Call(c15Var("f")), "opt", c15S("foobar"))),
			Want: c15Ws("ipsum", "lorem", "lorem", "=[]", "lorem", `=[s"ipsum" s"dolar" s"sit"]`, "lorem", `=[s"ipsum" s"dolar"]`, "sit", "default", "foobar")},
		{Name: "language.md#function too many arguments",
			Prog: c15Forms(c15Call(c15Lam([]string{"a"}, c15C("put", "$a")), c15Ss("foo", "bar")...)),
			Err:  "arity:arguments:1:1:2"},
		{Name: "language.md#function too few arguments",
			Prog: c15Forms(c15Call(c15Lam([]string{"a", "b"}, c15C("put", "$a", "$b")), c15S("foo"))),
			Err:  "arity:arguments:2:2:1"},
		{Name: "language.md#function too few arguments with rest",
			Prog: c15Forms(c15Call(c15Lam([]string{"a", "b", "@rest"}, c15C("put", "$a", "$b", "$rest")), c15S("foo"))),
			Err:  "arity:arguments:2:-1:1"},
		{Name: "language.md#function unknown option",
			Prog: c15Forms(c15WithOpt(c15Call(c15LamOpt(c15Lam(nil, c15C("put", "$k")), "k", c15S("v"))), "k2", c15S("v2"))),
			Err:  "unsupportedopt"},
		{Name: "language.md#function fields",
			Prog: c15Forms(c15VarDecl("f", c15LamOpt(c15Lam([]string{"a", "@b"}, c15C("put", "$a")), "k", c15S("v"))),
				put(c15Ix(c15Var("f"), "arg-names"), c15Ix(c15Var("f"), "opt-names"), c15Ix(c15Var("f"), "opt-defaults"))),
			Want: c15Ws(`=[s"a" s"b"]`, `=[s"k"]`, `=[s"v"]`)},
		{Name: "language.md#ordinary-command dynamic head must be callable",
			Prog: c15Forms(c15VarDecl("x", c15S("whoami")), c15Call(c15Var("x"))),
			Err:  "badvalue:command"},
		{Name: "language.md#and-or-coalesce",
			Prog: c15Forms(c15Logic("and", c15Ss("$true", "$false")...), c15Logic("and", c15Ss("a", "b", "c")...), c15Logic("and", c15Ss("a", "$false")...),
				c15Logic("or", c15Ss("$true", "$false")...), c15Logic("or", c15Ss("a", "b", "c")...), c15Logic("or", c15Ss("$false", "a", "b")...),
				c15Logic("coalesce", c15Ss("$nil", "a", "b")...), c15Logic("coalesce", c15Ss("$nil", "$nil")...), c15Logic("coalesce", c15Ss("$nil", "$nil", "a")...), c15Logic("coalesce", c15Ss("a", "b")...),
				c15Logic("and", c15Var("false"), c15Cap(c15C("fail", "foo"))), c15Logic("or", c15Var("true"), c15Cap(c15C("fail", "foo"))), c15Logic("coalesce", c15S("a"), c15Cap(c15C("fail", "foo"))),
				c15Logic("and"), c15Logic("or"), c15Logic("coalesce")),
			Want: c15Ws("=false", "c", "=false", "=true", "a", "a", "a", "=nil", "a", "a", "=false", "=true", "a", "=true", "=false", "=nil")},
		{Name: "language.md#if conditions are anded, no value is true",
			Prog: c15Forms(c15If(c15Cap(c15C("put", "$true", "$false")), c15Forms(c15C("put", "will not be executed")), nil),
				c15If(c15Cap(), c15Forms(c15C("put", "empty is true")), nil),
				c15If(c15Exc(c15C("fail", "x")), c15Forms(c15C("put", "no")), c15Forms(c15C("put", "exception is false")))),
			Want: c15Ws("empty is true", "exception is false")},
		{Name: "language.md#try all clauses, no exception",
			Prog: c15Forms(c15Try(c15Forms(c15C("nop")), c15Catch("e", c15C("put", "caught")), c15Else(c15C("put", "good")), c15Finally(c15C("put", "final")))),
			Want: c15Ws("good", "final")},
		{Name: "language.md#try all clauses, exception",
			Prog: c15Forms(c15Try(c15Forms(c15C("fail", "bad")),
				c15Catch("e", put(c15Ix(c15Ix(c15Var("e"), "reason"), "type"), c15Ix(c15Ix(c15Var("e"), "reason"), "content"))),
				c15Else(c15C("put", "good")), c15Finally(c15C("put", "final")))),
			Want: c15Ws("fail", "bad", "final")},
		{Name: "language.md#try finally without catch rethrows",
			Prog: c15Forms(c15Try(c15Forms(c15C("fail", "bad")), c15Finally(c15C("put", "final")))),
			Want: c15Ws("final"), Err: `fail:s"bad"`},
		{Name: "language.md#try exception in catch replaces",
			Prog: c15Forms(c15Try(c15Forms(c15C("fail", "bad")), c15Catch("e", c15C("fail", "worse")))),
			Err:  `fail:s"worse"`},
		{Name: "language.md#try exception in finally replaces",
			Prog: c15Forms(c15Try(c15Forms(c15C("fail", "bad")), c15Catch("e", c15C("fail", "worse")), c15Finally(c15C("fail", "worst")))),
			Err:  `fail:s"worst"`},
		{Name: "language.md#exception reason of flow commands",
			Prog: c15Forms(put(c15Ix(c15Ix(c15Exc(c15C("return")), "reason"), "type", "name"))),
			Want: c15Ws("flow", "return")},
		{Name: "language.md#fn captures return, lambdas do not",
			Prog: c15Forms(c15Fn("f", c15Lam(nil, c15Call(c15Lam(nil, c15C("put", "a"), c15C("return"))), c15C("put", "b"))),
				c15C("f"), c15Call(c15Lam(nil, c15C("f"), c15C("put", "c")))),
			Want: c15Ws("a", "a", "c")},
		{Name: "language.md#fn recursion",
			Prog: c15Forms(c15Fn("f", c15Lam([]string{"n"}, c15If(c15Cap(c15C("==", "$n", "0")), c15Forms(c15C("put", "1")),
				c15Forms(cmd("*", c15Var("n"), c15Cap(cmd("f", c15Cap(c15C("-", "$n", "1"))))))))), c15C("f", "3")),
			Want: c15Ws("#6")},
		{Name: "language.md#fn defines a variable",
			Prog: c15Forms(c15Fn("f", c15Lam(nil, c15C("put", "hello from f"))), c15VarDecl("v", c15Var("f~")), c15Call(c15Var("v"))),
			Want: c15Ws("hello from f")},
		{Name: "builtin break and continue in for",
			Prog: c15Forms(c15For("x", c15L("a", "b", "c"), c15C("put", "$x"), c15C("break"), c15C("put", "unexpected")),
				c15For("x", c15L("a", "b", "c"), c15C("put", "$x"), c15C("continue"), c15C("put", "unexpected"))),
			Want: c15Ws("a", "a", "b", "c")},
		{Name: "language.md#while and for else",
			Prog: c15Forms(c15N{K: "while", A: []c15N{c15Var("false")}, C: c15Forms(c15C("put", "body")), N: 1, D: c15Forms(c15C("put", "else"))},
				c15N{K: "for", S: "x", A: []c15N{c15L()}, C: c15Forms(c15C("put", "body")), N: 1, D: c15Forms(c15C("put", "else"))},
				c15N{K: "for", S: "x", A: []c15N{c15L("a")}, C: c15Forms(c15C("put", "body")), N: 1, D: c15Forms(c15C("put", "else"))}),
			Want: c15Ws("else", "else", "body")},
		{Name: "builtin range",
			Prog: c15Forms(c15C("range", "4"), c15C("range", "4", "0"), c15WithOpt(c15C("range", "-3", "3"), "step", c15S("2")), c15WithOpt(c15C("range", "3", "-3"), "step", c15S("-2"))),
			Want: c15Ws("#0", "#1", "#2", "#3", "#4", "#3", "#2", "#1", "#-3", "#-1", "#1", "#3", "#1", "#-1")},
		{Name: "builtin numeric commands",
			Prog: c15Forms(c15C("+", "5", "2", "7"), c15C("+"), c15C("-", "5"), c15C("-", "5", "2"), c15C("-", "5", "2", "7"), c15C("*", "2", "5", "7"), c15C("*"),
				c15C("<", "1", "2"), c15C("<", "2", "1"), c15C("<", "1", "2", "3"), c15C("=="), cmd("==", c15S("1"), c15Cap(c15C("+", "1")), c15S("1")), c15C("==", "1", "2")),
			Want: c15Ws("#14", "#0", "#-5", "#3", "#-4", "#70", "#1", "=true", "=false", "=true", "=true", "=true", "=false")},
		{Name: "builtin eq not",
			Prog: c15Forms(c15C("eq", "a", "a"), cmd("eq", c15L("a"), c15L("a")), cmd("eq", c15M("k", "v"), c15M("k", "v")), cmd("eq", c15S("a"), c15L("b")),
				cmd("eq", c15S("2"), c15Cap(c15C("+", "2"))), c15C("not", "$true"), c15C("not", "$false"), c15C("not", "$ok"), cmd("not", c15Exc(c15C("fail", "error")))),
			Want: c15Ws("=true", "=true", "=true", "=false", "=false", "=false", "=true", "=false", "=true")},
		{Name: "builtin each",
			Prog: c15Forms(c15Pipe(c15C("range", "5", "8"), cmd("each", c15Lam([]string{"x"}, c15C("*", "$x", "$x")))),
				cmd("each", c15Lam([]string{"x"}, put(c15Ix(c15Var("x"), "..3"))), c15L("lorem", "ipsum"))),
			Want: c15Ws("#25", "#36", "#49", "lor", "ips")},
		{Name: "builtin take drop",
			Prog: c15Forms(c15Pipe(c15C("range", "2"), c15C("take", "10")), cmd("take", c15S("3"), c15L("a", "b", "c", "d", "e")),
				c15Pipe(c15C("range", "10"), c15C("drop", "8")), c15Pipe(c15C("range", "2"), c15C("drop", "10")), cmd("drop", c15S("2"), c15L("a", "b", "c", "d", "e"))),
			Want: c15Ws("#0", "#1", "a", "b", "c", "#8", "#9", "c", "d", "e")},
		{Name: "builtin compact count all",
			Prog: c15Forms(c15Pipe(c15C("put", "a", "a", "b", "b", "c"), c15C("compact")), cmd("compact", c15L("a", "a", "b", "b", "c")), c15Pipe(c15C("put", "a", "b", "a"), c15C("compact")),
				cmd("count", c15L("lorem", "ipsum")), cmd("count", c15M("foo", "bar", "lorem", "ipsum")), c15C("count", "lorem"), c15Pipe(c15C("range", "100"), c15C("count")),
				cmd("all", c15List(c15S("foo"), c15L("lorem", "ipsum"))), c15C("all", "foo")),
			Want: c15Ws("a", "b", "c", "a", "b", "c", "a", "b", "a", "#2", "#2", "#5", "#100", "foo", `=[s"lorem" s"ipsum"]`, "f", "o", "o")},
		{Name: "builtin order",
			Prog: c15Forms(c15Pipe(c15C("put", "foo", "bar", "ipsum"), c15C("order")),
				cmd("order", c15List(c15Cap(c15C("+", "10")), c15Cap(c15C("+", "1")), c15Cap(c15C("+", "5")))),
				cmd("order", c15List(c15L("a", "b"), c15L("a"), c15L("b", "b"), c15L("a", "c"))),
				c15WithOpt(cmd("order", c15L("a", "c", "b")), "reverse", c15Var("true")),
				c15Pipe(put(c15L("0", "x"), c15L("1", "a"), c15L("2", "b")), c15WithOpt(c15C("order"), "key", c15Lam([]string{"l"}, put(c15Ix(c15Var("l"), "1"))))),
				cmd("order", c15L("5", "1", "10"))),
			Want: c15Ws("bar", "foo", "ipsum", "#1", "#5", "#10", `=[s"a"]`, `=[s"a" s"b"]`, `=[s"a" s"c"]`, `=[s"b" s"b"]`, "c", "b", "a",
				`=[s"1" s"a"]`, `=[s"2" s"b"]`, `=[s"0" s"x"]`, "1", "10", "5")},
		{Name: "builtin order of mixed types",
			Prog: c15Forms(cmd("order", c15List(c15S("a"), c15Cap(c15C("+", "2")), c15S("c")))),
			Err:  "badvalue:order inputs"},
		{Name: "builtin keep-if",
			Prog: c15Forms(cmd("keep-if", c15Lam([]string{"s"}, cmd("==", c15S("3"), c15Cap(c15C("count", "$s")))), c15L("foo", "bar", "foobar"))),
			Want: c15Ws("foo", "bar")},
		{Name: "builtin fail rethrows an exception value",
			Prog: c15Forms(c15Fn("f", c15Lam(nil, c15C("fail", "bad"))), cmd("fail", c15Exc(c15C("f")))),
			Err:  `fail:s"bad"`},
		{Name: "language.md#pipeline last command sees the values",
			Prog: c15Forms(c15Pipe(c15C("put", "lorem", "ipsum"), c15C("count")), c15Pipe(c15C("put", "10", "100"), cmd("each", c15Lam([]string{"x"}, c15C("+", "1", "$x")))),
				c15Pipe(c15C("put", "foo", "bar", "baz"), c15Call(c15Lam(nil, c15VarDecl("inputs", c15List(c15Cap(c15C("all")))), put(c15Ix(c15Var("inputs"), "1")))))),
			Want: c15Ws("#2", "#11", "#101", "bar")},
	}
}

func c15CheckDoc(d c15Doc) error {
	src := c15Print(d.Prog)
	ref := c15RunRef(d.Prog)
	if ref.Unspec != "" || ref.Over != "" {
		return fmt.Errorf("documented example %q: the reference interpreter does not cover it (%s%s)\nprogram:\n%s", d.Name, ref.Unspec, ref.Over, src)
	}
	same := func(got []string, gotErr string) bool {
		if gotErr != d.Err || len(got) != len(d.Want) {
			return false
		}
		for i := range got {
			if got[i] != d.Want[i] {
				return false
			}
		}
		return true
	}
	if !same(ref.Values, ref.Err) {
		return fmt.Errorf("documented example %q: documentation says %v exception %s, reference interpreter %v exception %s\nprogram:\n%s",
			d.Name, d.Want, c15OrNone(d.Err), ref.Values, c15OrNone(ref.Err), src)
	}
	values, errSig, note := c15RunElvish(src)
	if note != "" {
		return fmt.Errorf("documented example %q: expected no byte output, Elvish wrote %s\nprogram:\n%s", d.Name, note, src)
	}
	if !same(values, errSig) {
		return fmt.Errorf("documented example %q: documentation and reference say %v exception %s, Elvish %v exception %s\nprogram:\n%s",
			d.Name, d.Want, c15OrNone(d.Err), values, c15OrNone(errSig), src)
	}
	return nil
}

func init() {
	vs.Register(vs.Prop[c15Doc]{
		Name: "C15/docs",
		Rule: "every worked example of language.md and of the builtin docs that lies in the core language, transcribed to the AST with the documented output; documented output = reference interpreter = Elvish; all cases non-trivial",
		Enum: func(tier string, yield func(c15Doc) bool) {
			for _, d := range c15Docs() {
				if !yield(d) {
					return
				}
			}
		},
		Check: c15CheckDoc,
		Class: func(d c15Doc) (string, bool) {
			if d.Err != "" {
				return "documented-exception", true
			}
			return "documented-output", true
		},
	})
}
