package props

// C15 type-directed random program generator over the core-language AST.
//
// The generator keeps an approximate static type for every variable so that
// most programs run deep instead of dying on the first type error; it is
// allowed to be sloppy because the reference interpreter is dynamically typed
// and detects by itself when a program leaves the specified core. Generation is
// structurally recursive (children are drawn inside the parent), so rapid's
// shrinking of the draws shrinks the tree. Alternative 0 is always the simplest.

import (
	"fmt"

	"pgregory.net/rapid"
)

type c15Ty struct {
	K    string   // str nstr num bool nil list map fn exc any
	E    *c15Ty   // list element / map value type
	Keys []string // map: keys known to be present
	Len  int      // list: lower bound of the length
	Fn   *c15FnTy
}

type c15FnTy struct {
	Params []*c15Ty // positional parameters (for the rest parameter: element type)
	Rest   int      // index of the rest parameter or -1
	Opts   []string
	Out    *c15Ty // type of the values it outputs (nil: unknown)
	One    bool   // outputs exactly one value when it does not throw
	Safe   bool   // pure and total
	Rec    bool   // self-recursive on its first (numeric) argument
}

var (
	c15TStr  = &c15Ty{K: "str"}
	c15TNstr = &c15Ty{K: "nstr"}
	c15TNum  = &c15Ty{K: "num"}
	c15TBool = &c15Ty{K: "bool"}
	c15TNil  = &c15Ty{K: "nil"}
	c15TExc  = &c15Ty{K: "exc"}
	c15TAny  = &c15Ty{K: "any"}
)

func c15TList(e *c15Ty, n int) *c15Ty { return &c15Ty{K: "list", E: e, Len: n} }

// c15Fits: a value of type have can be used where want is expected.
func c15Fits(have, want *c15Ty) bool {
	if want.K == "any" {
		return true
	}
	switch want.K {
	case "str":
		return have.K == "str" || have.K == "nstr"
	case "numeric": // internal: anything accepted by a numeric command
		return have.K == "nstr" || have.K == "num"
	case "list", "map":
		return have.K == want.K && (want.E.K == "any" || have.E != nil && c15Fits(have.E, want.E) && c15Fits(want.E, have.E))
	case "fn":
		return have.K == "fn" && (want.Fn == nil || have.Fn == want.Fn)
	}
	return have.K == want.K
}

var c15TNumeric = &c15Ty{K: "numeric"}

type c15GV struct {
	name string
	ty   *c15Ty
	mut  bool
	isFn bool // declared with fn: command "name", variable "name~"
}

type c15Gen struct {
	t      *rapid.T
	vars   []c15GV
	n      int
	loop   int
	fn     int
	lam    int // > 0 inside a function literal
	safe   bool
	budget int
}

func (g *c15Gen) pick(n int, label string) int {
	if n <= 1 {
		return 0
	}
	return rapid.IntRange(0, n-1).Draw(g.t, label)
}

// chance is true with probability about num/den; false is the shrink target.
func (g *c15Gen) chance(num, den int, label string) bool {
	return rapid.IntRange(0, den-1).Draw(g.t, label) >= den-num
}

// weighted picks an index by weight; index 0 is the shrink target.
func (g *c15Gen) weighted(ws []int, label string) int {
	total := 0
	for _, w := range ws {
		total += w
	}
	if total == 0 {
		return 0
	}
	x := rapid.IntRange(0, total-1).Draw(g.t, label)
	for i, w := range ws {
		if x < w {
			return i
		}
		x -= w
	}
	return 0
}

func (g *c15Gen) fresh(prefix string) string {
	g.n++
	return fmt.Sprintf("%s%d", prefix, g.n)
}

// visible returns the indices of variables that are not shadowed and satisfy ok.
func (g *c15Gen) visible(ok func(v c15GV) bool) []int {
	var out []int
	seen := map[string]bool{}
	for i := len(g.vars) - 1; i >= 0; i-- {
		v := g.vars[i]
		key := v.name
		if v.isFn {
			key += "~"
		}
		if seen[key] {
			continue
		}
		seen[key] = true
		if ok(v) {
			out = append(out, i)
		}
	}
	// innermost first is fine, but keep the order deterministic and stable
	for i, j := 0, len(out)-1; i < j; i, j = i+1, j-1 {
		out[i], out[j] = out[j], out[i]
	}
	return out
}

func (g *c15Gen) varsOf(want *c15Ty) []int {
	return g.visible(func(v c15GV) bool { return c15Fits(v.ty, want) })
}

func (g *c15Gen) varRef(i int) c15N {
	v := g.vars[i]
	if v.isFn {
		return c15Var(v.name + "~")
	}
	return c15Var(v.name)
}

// ---- types ------------------------------------------------------------------------------

func (g *c15Gen) scalarTy() *c15Ty {
	return []*c15Ty{c15TStr, c15TNstr, c15TNum, c15TBool, c15TNil}[g.weighted([]int{4, 4, 3, 2, 1}, "sty")]
}

func (g *c15Gen) anyTy(d int) *c15Ty {
	switch g.weighted([]int{10, 4, 2, 1, 1}, "ty") {
	case 0:
		return g.scalarTy()
	case 1:
		if d > 1 && g.chance(1, 4, "ll") {
			return c15TList(c15TList(g.scalarTy(), 0), 0)
		}
		return c15TList(g.scalarTy(), 0)
	case 2:
		return &c15Ty{K: "map", E: g.scalarTy()}
	case 3:
		return c15TExc
	}
	return &c15Ty{K: "fn"}
}

// ---- literals ---------------------------------------------------------------------------

var c15Strs = []string{"a", "c", "k", "foo", "", "x y", "a'b", "$z", "~", "*", "zz", "A"}
var c15Nstrs = []string{"0", "1", "2", "3", "5", "10", "-1", "7", "-4"}
var c15MapKeys = []string{"a", "k", "c", "1"}

func (g *c15Gen) literal(ty *c15Ty, d int) c15N {
	switch ty.K {
	case "str":
		return c15Str(c15Strs[g.pick(len(c15Strs), "s")])
	case "nstr", "numeric":
		return c15Str(c15Nstrs[g.pick(len(c15Nstrs), "n")])
	case "num":
		return c15Cap(c15Cmd("+", c15Str(c15Nstrs[g.pick(len(c15Nstrs), "n")])))
	case "bool":
		if g.pick(2, "b") == 0 {
			return c15Var("true")
		}
		return c15Var("false")
	case "nil":
		return c15Var("nil")
	case "list":
		l := c15List()
		if ty.E != nil && ty.E.K != "list" && ty.E.K != "map" && ty.E.K != "fn" && ty.E.K != "exc" && ty.E.K != "any" {
			n := g.pick(4, "ln")
			for i := 0; i < n; i++ {
				l.A = append(l.A, g.literal(ty.E, 0))
			}
		}
		return l
	case "map":
		m := c15N{K: "map"}
		if ty.E != nil && ty.E.K != "list" && ty.E.K != "map" && ty.E.K != "fn" && ty.E.K != "exc" && ty.E.K != "any" && g.pick(2, "mn") == 1 {
			m.A = append(m.A, c15Str(c15MapKeys[g.pick(len(c15MapKeys), "mk")]))
			m.B = append(m.B, g.literal(ty.E, 0))
		}
		return m
	case "exc":
		return c15Exc(c15Cmd("fail", c15Str("a")))
	case "fn":
		return g.lambda(ty, d)
	}
	return c15Str("a")
}

// ---- expressions ------------------------------------------------------------------------

func (g *c15Gen) numArg(d int) c15N { return g.expr(c15TNumeric, true, d) }

// expr generates an expression of type ty. one: it must evaluate to exactly one value.
func (g *c15Gen) expr(ty *c15Ty, one bool, d int) c15N {
	g.budget--
	if ty.K == "any" {
		ty = g.anyTy(d)
	}
	if ty.K == "numeric" {
		if g.pick(2, "nk") == 0 {
			ty = c15TNstr
		} else {
			ty = c15TNum
		}
	}
	if d <= 0 || g.budget <= 0 {
		if vs := g.varsOf(ty); len(vs) > 0 && g.pick(2, "lv") == 1 {
			return g.varRef(vs[g.pick(len(vs), "vi")])
		}
		return g.literal(ty, 0)
	}
	vs := g.varsOf(ty)
	listVars := g.visible(func(v c15GV) bool {
		return v.ty.K == "list" && v.ty.E != nil && c15Fits(v.ty.E, ty) && (!g.safe || v.ty.Len > 0)
	})
	mapVars := g.visible(func(v c15GV) bool {
		return v.ty.K == "map" && v.ty.E != nil && c15Fits(v.ty.E, ty) && len(v.ty.Keys) > 0
	})
	fns := g.visible(func(v c15GV) bool {
		return v.ty.K == "fn" && v.ty.Fn != nil && v.ty.Fn.One && v.ty.Fn.Out != nil && c15Fits(v.ty.Fn.Out, ty) && (!g.safe || v.ty.Fn.Safe) && !v.ty.Fn.Rec
	})
	w := func(cond bool, n int) int {
		if cond {
			return n
		}
		return 0
	}
	choice := g.weighted([]int{
		9,                             // 0 literal
		w(len(vs) > 0, 40),            // 1 variable
		15,                            // 2 type-specific construction
		w(len(listVars) > 0, 9),       // 3 element of a list variable
		w(len(mapVars) > 0, 6),        // 4 value of a map variable
		w(len(fns) > 0, 14),           // 5 captured call of a one-output function
		1,                             // 6 (put e)
		w(!g.safe, 1),                 // 7 (if c { put a } else { put b })
		w(!one, 9),                    // 8 several values
		w(!g.safe && ty.K != "fn", 1), // 9 captured lambda call / try / coalesce
	}, "ek")
	switch choice {
	case 1:
		return g.varRef(vs[g.pick(len(vs), "vi")])
	case 2:
		return g.construct(ty, one, d)
	case 3:
		v := g.vars[listVars[g.pick(len(listVars), "li")]]
		return c15N{K: "idx", A: []c15N{c15Var(v.name)}, B: []c15N{g.listIndex(v.ty.Len, d)}}
	case 4:
		v := g.vars[mapVars[g.pick(len(mapVars), "mi")]]
		key := v.ty.Keys[g.pick(len(v.ty.Keys), "mk")]
		if !g.safe && g.chance(1, 12, "badkey") {
			key = "nokey"
		}
		return c15N{K: "idx", A: []c15N{c15Var(v.name)}, B: []c15N{c15Str(key)}}
	case 5:
		return c15Cap(g.callOf(fns[g.pick(len(fns), "fi")], d-1))
	case 6:
		return c15Cap(c15Cmd("put", g.expr(ty, true, d-1)))
	case 7:
		return c15Cap(c15N{K: "if", A: []c15N{g.expr(c15TBool, true, d-1)},
			B: []c15N{c15Blk(c15Cmd("put", g.expr(ty, true, d-1)))}, N: 1,
			C: []c15N{c15Cmd("put", g.expr(ty, true, d-1))}})
	case 8:
		return g.several(ty, d)
	case 9:
		switch g.pick(3, "wrap") {
		case 0:
			x := g.fresh("p")
			return c15Cap(c15N{K: "call", A: []c15N{c15Lam([]string{x}, c15Cmd("put", c15Var(x))), g.expr(ty, true, d-1)}})
		case 1:
			e := g.fresh("e")
			return c15Cap(c15N{K: "try", C: []c15N{c15Cmd("put", g.expr(ty, true, d-1))},
				A: []c15N{{K: "blk", S: "catch", V: e, C: []c15N{c15Cmd("put", g.expr(ty, true, d-1))}}}})
		}
		return c15Cap(c15N{K: "coalesce", A: []c15N{c15Var("nil"), g.expr(ty, true, d-1)}})
	}
	return g.literal(ty, d)
}

// listIndex draws an index expression for a list with at least n elements.
func (g *c15Gen) listIndex(n int, d int) c15N {
	if !g.safe && g.chance(1, 10, "oob") {
		return c15Str([]string{"9", "-9", "x", "2..1"}[g.pick(4, "bad")])
	}
	if n <= 0 {
		return c15Str([]string{"0", "-1"}[g.pick(2, "i0")])
	}
	i := g.pick(n, "i")
	switch g.pick(3, "ik") {
	case 1:
		return c15Str(fmt.Sprint(i - n))
	case 2:
		if d > 1 {
			return c15Cap(c15Cmd("+", c15Str(fmt.Sprint(i)), c15Str("0")))
		}
	}
	return c15Str(fmt.Sprint(i))
}

// several generates an expression that may evaluate to any number of values of ty.
func (g *c15Gen) several(ty *c15Ty, d int) c15N {
	listVars := g.visible(func(v c15GV) bool { return v.ty.K == "list" && v.ty.E != nil && c15Fits(v.ty.E, ty) })
	w := func(cond bool, n int) int {
		if cond {
			return n
		}
		return 0
	}
	switch g.weighted([]int{3, w(len(listVars) > 0, 4), 2, w(c15Fits(c15TNum, ty), 2), w(len(listVars) > 0, 2), w(ty.K == "str", 3), w(len(listVars) > 0 && !g.safe, 2), 2}, "sk") {
	case 7:
		// several indexees, several indices: results are indexee-major
		br := c15N{K: "brace"}
		k := 2 + g.pick(2, "nl")
		for i := 0; i < k; i++ {
			br.A = append(br.A, c15List(g.expr(ty, true, d-2), g.expr(ty, true, d-2)))
		}
		ix := [][]string{{"0", "1"}, {"1", "0"}, {"-1", "0", "1"}, {"0"}, {"1", "0..1"}}[g.pick(5, "ixs")]
		out := c15N{K: "idx", A: []c15N{br}}
		for _, i := range ix {
			out.B = append(out.B, c15Str(i))
		}
		if ix[len(ix)-1] == "0..1" && ty.K != "any" {
			// a slice is a list, not an element
			out.B = out.B[:len(out.B)-1]
		}
		return out
	case 1:
		v := g.vars[listVars[g.pick(len(listVars), "li")]]
		return c15N{K: "var", S: v.name, F: true}
	case 2:
		n := g.pick(3, "pn")
		args := make([]c15N, 0, n)
		for i := 0; i < n; i++ {
			args = append(args, g.expr(ty, true, d-1))
		}
		return c15Cap(c15Cmd("put", args...))
	case 3:
		return c15Cap(c15Cmd("range", c15Str(fmt.Sprint(g.pick(5, "rn")))))
	case 4:
		v := g.vars[listVars[g.pick(len(listVars), "li")]]
		if v.ty.Len >= 2 {
			return c15N{K: "idx", A: []c15N{c15Var(v.name)}, B: []c15N{c15Str("0"), c15Str("-1")}}
		}
		return c15N{K: "idx", A: []c15N{c15Var(v.name)}, B: []c15N{}}
	case 5:
		// outer product
		parts := []c15N{g.expr(c15TStr, true, d-1)}
		k := 1 + g.pick(2, "bn")
		for i := 0; i < k; i++ {
			m := 1 + g.pick(3, "bm")
			br := c15N{K: "brace"}
			for j := 0; j < m; j++ {
				br.A = append(br.A, g.expr(c15TStr, g.pick(3, "bone") != 2, d-2))
			}
			parts = append(parts, br)
		}
		return g.mkCat(parts)
	case 6:
		v := g.vars[listVars[g.pick(len(listVars), "li")]]
		x := g.fresh("p")
		mark := len(g.vars)
		g.vars = append(g.vars, c15GV{name: x, ty: v.ty.E})
		body := c15Cmd("put", g.expr(ty, true, d-1))
		g.vars = g.vars[:mark]
		return c15Cap(c15Cmd("each", c15Lam([]string{x}, body), c15Var(v.name)))
	}
	n := g.pick(4, "bn")
	if n == 0 {
		n = 2
	}
	br := c15N{K: "brace"}
	for i := 0; i < n; i++ {
		br.A = append(br.A, g.expr(ty, g.pick(3, "bone") != 2, d-1))
	}
	return br
}

// mkCat builds a compound expression; nested compounds are flattened by bracing.
func (g *c15Gen) mkCat(parts []c15N) c15N {
	for i, p := range parts {
		if !c15Primary(p) {
			parts[i] = c15N{K: "brace", A: []c15N{p}}
		}
	}
	return c15N{K: "cat", A: parts}
}

// construct builds a value of the type with the constructs specific to it.
func (g *c15Gen) construct(ty *c15Ty, one bool, d int) c15N {
	switch ty.K {
	case "str":
		switch g.weighted([]int{3, 1, 1}, "ck") {
		case 0:
			n := 2 + g.pick(2, "cn")
			var parts []c15N
			for i := 0; i < n; i++ {
				switch g.weighted([]int{3, 2, 1, 1}, "cp") {
				case 0:
					parts = append(parts, c15Str(c15Strs[g.pick(len(c15Strs), "s")]))
				case 1:
					parts = append(parts, g.expr(c15TStr, one || g.pick(3, "pm") != 2, d-1))
				case 2:
					parts = append(parts, g.expr(c15TNum, true, d-1))
				case 3:
					if !g.safe && g.chance(1, 6, "badcat") {
						parts = append(parts, g.expr(c15TList(c15TStr, 0), true, d-1))
					} else {
						parts = append(parts, c15Str("-"))
					}
				}
			}
			return g.mkCat(parts)
		case 1:
			s := []string{"foo", "zz", "x y"}[g.pick(3, "is")]
			ix := []string{"0", "1", "-1", "1..", "..1", "0..=1"}[g.pick(6, "ix")]
			return c15N{K: "idx", A: []c15N{c15Str(s)}, B: []c15N{c15Str(ix)}}
		}
		return c15Str(c15Strs[g.pick(len(c15Strs), "s")])
	case "nstr":
		return g.literal(ty, d)
	case "num":
		lists := g.visible(func(v c15GV) bool { return v.ty.K == "list" || v.ty.K == "map" || v.ty.K == "str" })
		switch g.weighted([]int{5, 1, 2}, "nk") {
		case 1:
			return c15Cap(c15Cmd("-", g.numArg(d-1)))
		case 2:
			if len(lists) > 0 {
				return c15Cap(c15Cmd("count", c15Var(g.vars[lists[g.pick(len(lists), "ci")]].name)))
			}
		}
		op := []string{"+", "-", "*"}[g.pick(3, "op")]
		n := 2
		if g.chance(1, 5, "nargs") {
			n = 1 + g.pick(3, "na")
		}
		args := make([]c15N, 0, n)
		for i := 0; i < n; i++ {
			if !g.safe && g.chance(1, 40, "badnum") {
				args = append(args, g.expr(c15TStr, true, d-1))
			} else {
				args = append(args, g.numArg(d-1))
			}
		}
		return c15Cap(c15Cmd(op, args...))
	case "bool":
		switch g.weighted([]int{3, 3, 2, 1, 1}, "bk") {
		case 0:
			op := []string{"<", "=="}[g.pick(2, "op")]
			n := 2
			if g.chance(1, 4, "nargs") {
				n = []int{3, 0, 1, 4}[g.pick(4, "na")] // chained comparison
			}
			args := make([]c15N, 0, n)
			for i := 0; i < n; i++ {
				args = append(args, g.numArg(d-1))
			}
			return c15Cap(c15Cmd(op, args...))
		case 1:
			t := g.eqTy(d)
			return c15Cap(c15Cmd("eq", g.expr(t, true, d-1), g.expr(t, true, d-1)))
		case 2:
			return c15Cap(c15Cmd("not", g.expr(g.condTy(), true, d-1)))
		case 3:
			return c15Cap(c15N{K: []string{"and", "or"}[g.pick(2, "ao")], A: []c15N{g.expr(c15TBool, true, d-1), g.expr(c15TBool, true, d-1)}})
		}
		return g.literal(ty, d)
	case "list":
		e := ty.E
		if e == nil {
			e = c15TAny
		}
		w := func(cond bool, n int) int {
			if cond {
				return n
			}
			return 0
		}
		fnVars := g.visible(func(v c15GV) bool { return v.ty.K == "fn" })
		switch g.weighted([]int{6, 1, 1, 1, w(len(fnVars) > 0 && c15Fits(c15TStr, e), 1)}, "lk") {
		case 4:
			field := []string{"arg-names", "opt-names", "opt-defaults"}[g.pick(3, "ff")]
			return c15N{K: "idx", A: []c15N{g.varRef(fnVars[g.pick(len(fnVars), "vi")])}, B: []c15N{c15Str(field)}}
		case 1:
			vs := g.varsOf(ty)
			if len(vs) > 0 {
				sl := []string{"1..", "..-1", "0..1", "..", "0..=0"}[g.pick(5, "sl")]
				return c15N{K: "idx", A: []c15N{g.varRef(vs[g.pick(len(vs), "vi")])}, B: []c15N{c15Str(sl)}}
			}
		case 2:
			if c15Fits(c15TNum, e) {
				return c15List(c15Cap(c15Cmd("range", c15Str(fmt.Sprint(g.pick(5, "rn"))))))
			}
		case 3:
			if !g.safe {
				p, et := g.pipeline(d-1, true)
				if c15Fits(et, e) {
					return c15List(c15Cap(p))
				}
				return c15List(c15Cap(c15Cmd("put", g.expr(e, true, d-1))))
			}
		}
		n := g.pick(5, "ln")
		l := c15List()
		for i := 0; i < n; i++ {
			l.A = append(l.A, g.expr(e, g.pick(4, "lone") != 3, d-1))
		}
		return l
	case "map":
		e := ty.E
		if e == nil {
			e = c15TAny
		}
		n := g.pick(4, "mn")
		m := c15N{K: "map"}
		for i := 0; i < n; i++ {
			var k c15N
			if g.chance(1, 6, "numkey") {
				k = g.expr(c15TNum, true, d-1)
			} else {
				k = c15Str(c15MapKeys[g.pick(len(c15MapKeys), "mk")])
			}
			m.A = append(m.A, k)
			m.B = append(m.B, g.expr(e, true, d-1))
		}
		return m
	case "exc":
		mark := len(g.vars)
		loop, fn := g.loop, g.fn
		body := g.stmts(d-1, 1+g.pick(2, "xn"), false)
		if g.chance(2, 3, "xfail") {
			body = append(body, g.thrower(d-1))
		}
		g.vars = g.vars[:mark]
		g.loop, g.fn = loop, fn
		return c15N{K: "exc", C: body}
	case "fn":
		return g.lambda(ty, d)
	}
	return g.literal(ty, d)
}

func (g *c15Gen) eqTy(d int) *c15Ty {
	switch g.weighted([]int{5, 2, 1}, "eqt") {
	case 1:
		return c15TList(g.scalarTy(), 0)
	case 2:
		return &c15Ty{K: "map", E: g.scalarTy()}
	}
	return g.scalarTy()
}

// condTy: types used where a boolean is tested (anything is allowed there).
func (g *c15Gen) condTy() *c15Ty {
	return []*c15Ty{c15TBool, c15TBool, c15TNil, c15TStr, c15TExc, c15TNum}[g.weighted([]int{6, 2, 1, 1, 1, 1}, "ct")]
}

// thrower generates a form that raises an exception.
func (g *c15Gen) thrower(d int) c15N {
	switch g.weighted([]int{5, 1, 1, 1, 1, 1, 1}, "tk") {
	case 1:
		return c15Cmd("break")
	case 2:
		return c15Cmd("continue")
	case 3:
		return c15Cmd("return")
	case 4:
		return c15Cmd("put", c15N{K: "idx", A: []c15N{c15List(c15Str("a"))}, B: []c15N{c15Str("3")}})
	case 5:
		return c15Cmd("+", c15Str("a"), c15Str("1"))
	case 6:
		vs := g.varsOf(c15TExc)
		if len(vs) > 0 {
			return c15Cmd("fail", g.varRef(vs[g.pick(len(vs), "vi")]))
		}
	}
	return c15Cmd("fail", g.expr(g.failTy(), true, d))
}

func (g *c15Gen) failTy() *c15Ty {
	if g.chance(1, 4, "ft") {
		return c15TList(c15TStr, 0)
	}
	return g.scalarTy()
}

// ---- functions --------------------------------------------------------------------------

func (g *c15Gen) newFnTy(d int) *c15FnTy {
	ft := &c15FnTy{Rest: -1}
	n := g.pick(4, "np")
	for i := 0; i < n; i++ {
		ft.Params = append(ft.Params, g.paramTy())
	}
	if n > 0 && g.chance(1, 4, "rest") {
		ft.Rest = g.pick(n, "ri")
	}
	if g.chance(1, 4, "opt") {
		ft.Opts = []string{"o"}
		if g.chance(1, 3, "opt2") {
			ft.Opts = append(ft.Opts, "q")
		}
	}
	return ft
}

func (g *c15Gen) paramTy() *c15Ty {
	switch g.weighted([]int{6, 2, 1}, "pt") {
	case 1:
		return c15TList(g.scalarTy(), 0)
	case 2:
		return &c15Ty{K: "map", E: g.scalarTy()}
	}
	return g.scalarTy()
}

// lambda generates a function literal. If ty.Fn is nil a signature is invented
// and stored into ty (the caller keeps ty for the variable).
func (g *c15Gen) lambda(ty *c15Ty, d int) c15N {
	if ty.Fn == nil {
		ty.Fn = g.newFnTy(d)
		ft := ty.Fn
		// decide the body style
		switch g.weighted([]int{3, 3}, "style") {
		case 0:
			ft.One = true
			ft.Out = g.outTy(d)
		default:
		}
		if g.safe {
			ft.One = true
			if ft.Out == nil {
				ft.Out = g.scalarTy()
			}
		}
	}
	ft := ty.Fn
	lam := c15N{K: "lam"}
	mark := len(g.vars)
	loop, fn := g.loop, g.fn
	// a lambda body may still lexically sit in a loop: break reaches the loop dynamically
	if g.chance(1, 2, "keeploop") {
		g.loop = 0
	}
	g.lam++
	defer func() { g.lam-- }()
	var params []c15GV
	for i, pt := range ft.Params {
		name := g.fresh("p")
		p := c15N{K: "p", S: name}
		vt := pt
		if i == ft.Rest {
			p.F = true
			vt = c15TList(pt, 0)
		}
		lam.A = append(lam.A, p)
		params = append(params, c15GV{name: name, ty: vt})
	}
	for _, o := range ft.Opts {
		// defaults are evaluated when the lambda is evaluated, in the outer scope
		lam.B = append(lam.B, c15N{K: "o", S: o, A: []c15N{g.expr(c15TNstr, true, 1)}})
		params = append(params, c15GV{name: o, ty: c15TNstr})
	}
	g.vars = append(g.vars, params...)
	if ft.One && ft.Out != nil {
		if !g.safe && d > 1 && g.chance(1, 3, "prelude") {
			lam.C = append(lam.C, g.silent(d-1)...)
		}
		if d > 1 && g.chance(1, 4, "ifbody") {
			lam.C = append(lam.C, c15N{K: "if", A: []c15N{g.expr(c15TBool, true, d-1)},
				B: []c15N{c15Blk(c15Cmd("put", g.expr(ft.Out, true, d-1)))}, N: 1,
				C: []c15N{c15Cmd("put", g.expr(ft.Out, true, d-1))}})
		} else {
			lam.C = append(lam.C, c15Cmd("put", g.expr(ft.Out, true, d-1)))
		}
		ft.Safe = g.safe
	} else {
		if len(params) > 0 && g.chance(1, 2, "showparams") {
			show := c15Cmd("put")
			for _, p := range params {
				show.A = append(show.A, c15Var(p.name))
			}
			lam.C = append(lam.C, show)
		}
		lam.C = append(lam.C, g.stmts(d-1, 1+g.pick(3, "bn"), true)...)
	}
	g.vars = g.vars[:mark]
	g.loop, g.fn = loop, fn
	return lam
}

func (g *c15Gen) outTy(d int) *c15Ty {
	if d > 2 && g.chance(1, 8, "outfn") {
		return &c15Ty{K: "fn", Fn: &c15FnTy{Rest: -1, One: true, Out: g.scalarTy()}}
	}
	if g.chance(1, 5, "outlist") {
		return c15TList(g.scalarTy(), 0)
	}
	return g.scalarTy()
}

// silent generates statements that output nothing: declarations and assignments.
func (g *c15Gen) silent(d int) []c15N {
	var out []c15N
	n := 1 + g.pick(2, "sn")
	for i := 0; i < n; i++ {
		muts := g.visible(func(v c15GV) bool { return v.mut && v.ty.K != "fn" })
		if len(muts) > 0 && g.pick(2, "sk") == 1 {
			v := g.vars[muts[g.pick(len(muts), "vi")]]
			out = append(out, c15Set(v.name, g.expr(v.ty, true, d-1)))
			g.noteSet(v.name, nil)
			continue
		}
		out = append(out, g.declare(d))
	}
	return out
}

// callParts generates arguments and options for a call of a function of type ft.
func (g *c15Gen) callParts(ft *c15FnTy, d int) (args, opts []c15N) {
	for pi, pt := range ft.Params {
		if pi == ft.Rest {
			k := g.pick(4, "restn")
			for j := 0; j < k; j++ {
				args = append(args, g.expr(pt, true, d))
			}
			continue
		}
		if ft.Rec && pi == 0 {
			args = append(args, c15Str(fmt.Sprint(g.pick(4, "recn"))))
			continue
		}
		args = append(args, g.expr(pt, true, d))
	}
	for _, o := range ft.Opts {
		if g.chance(1, 3, "useopt") {
			opts = append(opts, c15N{K: "o", S: o, A: []c15N{g.expr(c15TNstr, true, 1)}})
		}
	}
	if !g.safe && g.chance(1, 14, "badcall") {
		switch g.pick(3, "bc") {
		case 0:
			args = append(args, c15Str("extra"))
			if ft.Rest >= 0 {
				args = nil
			}
		case 1:
			if len(args) > 0 {
				args = args[:len(args)-1]
			} else {
				args = append(args, c15Str("extra"))
			}
		case 2:
			opts = []c15N{{K: "o", S: "zz", A: []c15N{c15Str("1")}}}
		}
	}
	return args, opts
}

// callOf generates a call form of the function variable at index i.
func (g *c15Gen) callOf(i int, d int) c15N {
	v := g.vars[i]
	args, opts := g.callParts(v.ty.Fn, d)
	if v.isFn {
		return c15N{K: "cmd", S: v.name, A: args, B: opts}
	}
	return c15N{K: "call", A: append([]c15N{c15Var(v.name)}, args...), B: opts}
}

// ---- statements -------------------------------------------------------------------------

// noteSet weakens the static knowledge about a variable that is assigned.
func (g *c15Gen) noteSet(name string, nt *c15Ty) {
	for i := len(g.vars) - 1; i >= 0; i-- {
		if g.vars[i].name == name && !g.vars[i].isFn {
			old := g.vars[i].ty
			if old.K == "list" || old.K == "map" {
				c := *old
				c.Len, c.Keys = 0, nil
				g.vars[i].ty = &c
			}
			return
		}
	}
}

func (g *c15Gen) declName() string {
	// sometimes shadow a visible variable
	if g.chance(1, 6, "shadow") {
		vis := g.visible(func(v c15GV) bool { return !v.isFn && v.mut })
		if len(vis) > 0 {
			return g.vars[vis[g.pick(len(vis), "vi")]].name
		}
	}
	return g.fresh("v")
}

// declare generates "var name = expr" and records the variable.
func (g *c15Gen) declare(d int) c15N {
	ty := g.anyTy(d)
	var e c15N
	if ty.K == "list" || ty.K == "map" {
		e = g.expr(ty, true, d)
		ty = g.refine(ty, e)
	} else {
		e = g.expr(ty, true, d)
	}
	name := g.declName()
	g.vars = append(g.vars, c15GV{name: name, ty: ty, mut: ty.K != "fn"})
	return c15VarDecl(name, e)
}

// refine records length / keys of a literal container.
func (g *c15Gen) refine(ty *c15Ty, e c15N) *c15Ty {
	c := *ty
	switch {
	case e.K == "list" && ty.K == "list":
		n := 0
		for _, a := range e.A {
			if c15One(a) {
				n++
			}
		}
		c.Len = n
	case e.K == "map" && ty.K == "map":
		for _, k := range e.A {
			if k.K == "str" {
				c.Keys = append(c.Keys, k.S)
			}
		}
	}
	return &c
}

// c15One: syntactically certain to yield exactly one value (if it yields).
func c15One(e c15N) bool {
	switch e.K {
	case "str", "list", "map", "lam", "exc":
		return true
	case "var":
		return !e.F
	case "cap":
		if len(e.C) == 1 && e.C[0].K == "cmd" {
			switch e.C[0].S {
			case "+", "-", "*", "<", "==", "eq", "not", "count":
				return true
			}
		}
	}
	return false
}

// scoped runs f with a fresh generator scope for a block body.
func (g *c15Gen) scoped(f func() []c15N) []c15N {
	mark := len(g.vars)
	out := f()
	g.vars = g.vars[:mark]
	return out
}

func (g *c15Gen) body(d int, inLoop bool) []c15N {
	return g.scoped(func() []c15N {
		if inLoop {
			g.loop++
			defer func() { g.loop-- }()
		}
		return g.stmts(d, 1+g.pick(3, "bn"), true)
	})
}

// stmts generates up to n statements (each may expand to several forms).
func (g *c15Gen) stmts(d int, n int, decls bool) []c15N {
	var out []c15N
	for i := 0; i < n; i++ {
		out = append(out, g.stmt(d, decls)...)
	}
	return out
}

func (g *c15Gen) putStmt(d int) c15N {
	n := 1 + g.pick(2, "pn")
	args := make([]c15N, 0, n)
	for i := 0; i < n; i++ {
		args = append(args, g.expr(c15TAny, g.pick(4, "pone") != 3, d))
	}
	return c15Cmd("put", args...)
}

func (g *c15Gen) stmt(d int, decls bool) []c15N {
	g.budget--
	if d <= 0 || g.budget <= 0 {
		return []c15N{g.putStmt(0)}
	}
	muts := g.visible(func(v c15GV) bool { return v.mut && !v.isFn && v.ty.K != "fn" })
	conts := g.visible(func(v c15GV) bool { return v.mut && (v.ty.K == "list" && v.ty.Len > 0 || v.ty.K == "map") })
	fns := g.visible(func(v c15GV) bool { return v.ty.K == "fn" && v.ty.Fn != nil })
	w := func(cond bool, n int) int {
		if cond {
			return n
		}
		return 0
	}
	// outside a loop / a function these end the program, so they are rarer at the top level
	flowW, retW := 1, 1
	if g.lam > 0 {
		flowW, retW = 3, 2
	}
	if g.loop > 0 {
		flowW = 6
	}
	if g.fn > 0 {
		retW = 5
	}
	kind := g.weighted([]int{
		12,                   // 0 put
		w(decls, 9),          // 1 var
		w(len(muts) > 0, 10), // 2 set
		8,                    // 3 if
		6,                    // 4 for
		w(decls, 5),          // 5 while
		8,                    // 6 try
		2,                    // 7 fail / other thrower
		flowW,                // 8 break / continue
		retW,                 // 9 return
		w(decls, 4),          // 10 fn
		w(len(fns) > 0, 16),  // 11 call
		2,                    // 12 and / or / coalesce
		7,                    // 13 pipeline
		2,                    // 14 arithmetic / range at statement level
		3,                    // 15 immediately called lambda
		w(decls, 4),          // 16 var f = lambda
		w(len(conts) > 0, 3), // 17 element assignment
		w(decls, 4),          // 18 multiple declaration / assignment
		w(decls && d > 2, 1), // 19 recursive function
		4,                    // 20 stream builtin with its inputs as an argument
	}, "stmt")
	switch kind {
	case 1:
		return []c15N{g.declare(d - 1)}
	case 2:
		v := g.vars[muts[g.pick(len(muts), "vi")]]
		var e c15N
		if g.pick(2, "upd") == 1 {
			// an update in terms of the old value
			switch v.ty.K {
			case "num", "nstr":
				e = c15Cap(c15Cmd([]string{"+", "*", "-"}[g.pick(3, "op")], c15Var(v.name), g.numArg(d-1)))
			case "str":
				e = g.mkCat([]c15N{c15Var(v.name), g.expr(c15TStr, true, d-1)})
			case "list":
				et := v.ty.E
				if et == nil {
					et = c15TAny
				}
				e = c15List(c15N{K: "var", S: v.name, F: true}, g.expr(et, true, d-1))
			case "bool":
				e = c15Cap(c15Cmd("not", c15Var(v.name)))
			}
		}
		if e.K == "" {
			e = g.expr(v.ty, true, d-1)
		}
		g.noteSet(v.name, nil)
		return []c15N{c15Set(v.name, e)}
	case 3:
		f := c15N{K: "if"}
		n := 1
		if g.chance(1, 4, "elif") {
			n = 2
		}
		for i := 0; i < n; i++ {
			f.A = append(f.A, g.condExpr(d-1))
			f.B = append(f.B, c15N{K: "blk", C: g.body(d-1, false)})
		}
		if g.chance(1, 2, "else") {
			f.N = 1
			f.C = g.body(d-1, false)
		}
		return []c15N{f}
	case 4:
		return []c15N{g.forStmt(d)}
	case 5:
		i := g.fresh("i")
		limit := 1 + g.pick(4, "wl")
		if g.chance(1, 8, "wzero") {
			limit = 0
		}
		g.vars = append(g.vars, c15GV{name: i, ty: c15TNum})
		wh := c15N{K: "while", A: []c15N{c15Cap(c15Cmd("<", c15Var(i), c15Str(fmt.Sprint(limit))))}}
		wh.C = append([]c15N{c15Set(i, c15Cap(c15Cmd("+", c15Var(i), c15Str("1"))))}, g.body(d-1, true)...)
		if g.chance(1, 3, "welse") {
			wh.N = 1
			wh.D = g.body(d-1, false)
		}
		return []c15N{c15VarDecl(i, c15Str("0")), wh}
	case 6:
		return []c15N{g.tryStmt(d)}
	case 7:
		return []c15N{g.thrower(d - 1)}
	case 8:
		return []c15N{c15Cmd([]string{"break", "continue"}[g.pick(2, "bc")])}
	case 9:
		return []c15N{c15Cmd("return")}
	case 10:
		name := g.fresh("f")
		ty := &c15Ty{K: "fn"}
		// the function is visible in its own body only through the recursion template
		g.fn++
		lam := g.lambda(ty, d-1)
		g.fn--
		g.vars = append(g.vars, c15GV{name: name, ty: ty, isFn: true})
		return []c15N{{K: "fn", S: name, A: []c15N{lam}}}
	case 11:
		return []c15N{g.callOf(fns[g.pick(len(fns), "fi")], d-1)}
	case 12:
		f := c15N{K: []string{"and", "or", "coalesce"}[g.pick(3, "aoc")]}
		n := g.pick(4, "an")
		for i := 0; i < n; i++ {
			f.A = append(f.A, g.expr(g.condTy(), g.pick(4, "aone") != 3, d-1))
		}
		return []c15N{f}
	case 13:
		p, _ := g.pipeline(d-1, false)
		return []c15N{p}
	case 14:
		if g.chance(1, 3, "rangestmt") {
			// range with an explicit step; a step against the direction is a documented exception
			f := c15Cmd("range", c15Str(fmt.Sprint(g.pick(5, "ra"))), c15Str(fmt.Sprint(g.pick(5, "rb"))))
			f.B = []c15N{{K: "o", S: "step", A: []c15N{c15Str([]string{"1", "2", "-1", "-2", "3"}[g.pick(5, "rs")])}}}
			return []c15N{f}
		}
		op := []string{"+", "-", "*", "<", "==", "eq", "not"}[g.pick(7, "op")]
		n := g.pick(4, "na")
		f := c15Cmd(op)
		for i := 0; i < n; i++ {
			if op == "eq" || op == "not" {
				f.A = append(f.A, g.expr(g.scalarTy(), true, d-1))
			} else {
				f.A = append(f.A, g.numArg(d-1))
			}
		}
		return []c15N{f}
	case 15:
		ty := &c15Ty{K: "fn"}
		lam := g.lambda(ty, d-1)
		args, opts := g.callParts(ty.Fn, d-1)
		return []c15N{{K: "call", A: append([]c15N{lam}, args...), B: opts}}
	case 16:
		ty := &c15Ty{K: "fn"}
		lam := g.lambda(ty, d-1)
		name := g.fresh("g")
		g.vars = append(g.vars, c15GV{name: name, ty: ty})
		return []c15N{c15VarDecl(name, lam)}
	case 17:
		v := g.vars[conts[g.pick(len(conts), "ci")]]
		lv := c15N{K: "lv", S: v.name}
		var et *c15Ty = v.ty.E
		if v.ty.K == "list" {
			lv.B = []c15N{g.listIndex(v.ty.Len, 1)}
		} else {
			lv.B = []c15N{c15Str(c15MapKeys[g.pick(len(c15MapKeys), "mk")])}
		}
		if et == nil {
			et = c15TAny
		}
		return []c15N{{K: "set", A: []c15N{lv}, B: []c15N{g.expr(et, true, d-1)}}}
	case 18:
		f := g.multiAssign(d)
		out := []c15N{f}
		if g.chance(2, 3, "observe") {
			// look at what was assigned
			obs := c15Cmd("put")
			for _, lv := range f.A {
				obs.A = append(obs.A, c15Var(lv.S))
			}
			out = append(out, obs)
		}
		return out
	case 19:
		return g.recFn(d)
	case 20:
		return []c15N{g.streamStmt(d)}
	}
	return []c15N{g.putStmt(d - 1)}
}

func (g *c15Gen) condExpr(d int) c15N {
	if g.chance(1, 8, "multicond") {
		if g.chance(1, 4, "nocond") {
			return c15Cap(c15Cmd("put")) // no value at all counts as true
		}
		return g.expr(c15TBool, false, d)
	}
	return g.expr(g.condTy(), true, d)
}

func (g *c15Gen) forStmt(d int) c15N {
	et := g.scalarTy()
	if g.chance(1, 5, "forlist") {
		et = c15TList(g.scalarTy(), 0)
	}
	var cont c15N
	switch g.weighted([]int{5, 2, 1, 1}, "fk") {
	case 0:
		cont = g.expr(c15TList(et, 0), true, d-1)
	case 1:
		et = c15TNum
		cont = c15List(c15Cap(c15Cmd("range", c15Str(fmt.Sprint(g.pick(5, "rn"))))))
	case 2:
		et = c15TStr
		cont = c15Str([]string{"foo", "", "zk"}[g.pick(3, "fs")])
	case 3:
		cont = g.expr([]*c15Ty{c15TNil, c15TNum, c15TBool, {K: "map", E: c15TStr}, c15TStr}[g.pick(5, "ni")], true, d-1) // mostly not iterable
	}
	name := g.fresh("x")
	if g.chance(1, 8, "forexisting") {
		if vs := g.visible(func(v c15GV) bool { return v.mut && !v.isFn && c15Fits(v.ty, et) && c15Fits(et, v.ty) }); len(vs) > 0 {
			name = g.vars[vs[g.pick(len(vs), "vi")]].name
		}
	}
	f := c15N{K: "for", S: name, A: []c15N{cont}}
	f.C = g.scoped(func() []c15N {
		g.vars = append(g.vars, c15GV{name: name, ty: et, mut: true})
		g.loop++
		defer func() { g.loop-- }()
		return g.stmts(d-1, 1+g.pick(3, "bn"), true)
	})
	if g.chance(1, 3, "felse") {
		f.N = 1
		f.D = g.body(d-1, false)
	}
	return f
}

func (g *c15Gen) tryStmt(d int) c15N {
	f := c15N{K: "try"}
	failed, flowed := false, false
	f.C = g.scoped(func() []c15N {
		out := g.stmts(d-1, 1+g.pick(2, "tn"), true)
		if g.chance(1, 2, "tthrow") {
			th := g.thrower(d - 1)
			failed = th.K == "cmd" && th.S == "fail" && len(th.A) == 1 && th.A[0].K != "var"
			flowed = th.K == "cmd" && (th.S == "break" || th.S == "continue" || th.S == "return")
			out = append(out, th)
			if g.chance(1, 3, "tafter") {
				out = append(out, g.putStmt(0))
			}
		}
		return out
	})
	shape := g.weighted([]int{4, 2, 2, 2, 1}, "tshape") // catch | finally | catch+finally | catch+else | all
	if shape != 1 {
		e := g.fresh("e")
		c := c15N{K: "blk", S: "catch", V: e}
		c.C = g.scoped(func() []c15N {
			g.vars = append(g.vars, c15GV{name: e, ty: c15TExc})
			var pre []c15N
			if (failed || flowed) && g.chance(1, 3, "reason") {
				// the fields of the exception documented in language.md
				field := []string{"type", "content"}[g.pick(2, "field")]
				if flowed && field == "content" {
					field = "name"
				}
				pre = append(pre, c15Cmd("put", c15N{K: "idx", A: []c15N{
					{K: "idx", A: []c15N{c15Var(e)}, B: []c15N{c15Str("reason")}}}, B: []c15N{c15Str(field)}}))
			}
			return append(pre, g.stmts(d-1, 1+g.pick(2, "cn"), true)...)
		})
		f.A = append(f.A, c)
	}
	if shape == 3 || shape == 4 {
		f.A = append(f.A, c15N{K: "blk", S: "else", C: g.body(d-1, false)})
	}
	if shape == 1 || shape == 2 || shape == 4 {
		f.A = append(f.A, c15N{K: "blk", S: "finally", C: g.body(d-1, false)})
	}
	return f
}

func (g *c15Gen) multiAssign(d int) c15N {
	n := 2 + g.pick(3, "mn")
	rest := -1
	if g.chance(1, 2, "mrest") {
		rest = g.pick(n, "mri")
	}
	f := c15N{K: "vardecl", N: 1}
	var newVars []c15GV
	et := g.scalarTy()
	for i := 0; i < n; i++ {
		name := g.fresh("v")
		lv := c15N{K: "lv", S: name}
		vt := et
		if i == rest {
			lv.F = true
			vt = c15TList(et, 0)
		}
		f.A = append(f.A, lv)
		newVars = append(newVars, c15GV{name: name, ty: vt, mut: true})
	}
	if rest < 0 && g.chance(1, 6, "noinit") {
		f.N = 0
		for i := range newVars {
			newVars[i].ty = c15TNil
		}
		g.vars = append(g.vars, newVars...)
		return f
	}
	k := n
	if rest >= 0 {
		k = n - 1 + g.pick(3, "extra")
	}
	if g.chance(1, 10, "badarity") {
		k = g.pick(n, "bk")
	}
	for i := 0; i < k; i++ {
		f.B = append(f.B, g.expr(et, true, d-1))
	}
	if g.chance(1, 4, "viaput") && k > 0 {
		f.B = []c15N{c15Cap(c15Cmd("put", f.B...))}
	}
	// as assignment to existing variables of that type, if there are enough of them
	if rest < 0 && g.chance(1, 3, "asset") {
		vs := g.visible(func(v c15GV) bool { return v.mut && !v.isFn && c15Fits(v.ty, et) && c15Fits(et, v.ty) })
		if len(vs) >= n {
			off := g.pick(len(vs), "off")
			s := c15N{K: "set", B: f.B}
			for i := 0; i < n; i++ {
				s.A = append(s.A, c15N{K: "lv", S: g.vars[vs[(i+off)%len(vs)]].name})
			}
			return s
		}
	}
	g.vars = append(g.vars, newVars...)
	return f
}

// recFn: a self-recursive function with a decreasing numeric argument, and a call.
func (g *c15Gen) recFn(d int) []c15N {
	name := g.fresh("r")
	n := g.fresh("p")
	out := g.scalarTy()
	ft := &c15FnTy{Params: []*c15Ty{c15TNumeric}, Rest: -1, Rec: true}
	mark := len(g.vars)
	g.vars = append(g.vars, c15GV{name: n, ty: c15TNum})
	base := c15Cmd("put", g.expr(out, true, d-2))
	g.fn++
	step := g.stmts(d-2, 1, false)
	g.fn--
	g.vars = g.vars[:mark]
	rec := c15Cmd(name, c15Cap(c15Cmd("-", c15Var(n), c15Str("1"))))
	if g.chance(1, 2, "recpost") {
		step = append(step, rec)
	} else {
		step = append([]c15N{rec}, step...)
	}
	lam := c15N{K: "lam", A: []c15N{{K: "p", S: n}}, C: []c15N{{K: "if",
		A: []c15N{c15Cap(c15Cmd("<", c15Var(n), c15Str("1")))}, B: []c15N{c15Blk(base)}, N: 1, C: step}}}
	g.vars = append(g.vars, c15GV{name: name, ty: &c15Ty{K: "fn", Fn: ft}, isFn: true})
	return []c15N{{K: "fn", S: name, A: []c15N{lam}}, c15Cmd(name, c15Str(fmt.Sprint(1+g.pick(3, "recn"))))}
}

// ---- pipelines --------------------------------------------------------------------------

// safeLam1 generates a pure, total one-parameter lambda {|x| put <expr> } and the output type.
func (g *c15Gen) safeLam1(in *c15Ty, out *c15Ty, d int) c15N {
	x := g.fresh("p")
	mark := len(g.vars)
	saved := g.safe
	g.safe = true
	g.vars = append(g.vars, c15GV{name: x, ty: in})
	var e c15N
	if g.pick(3, "usex") != 0 {
		// make the parameter matter
		switch {
		case out.K == "num" && c15Fits(in, c15TNumeric):
			e = c15Cap(c15Cmd([]string{"+", "*", "-"}[g.pick(3, "op")], c15Var(x), g.numArg(1)))
		case out.K == "bool" && c15Fits(in, c15TNumeric):
			e = c15Cap(c15Cmd([]string{"<", "=="}[g.pick(2, "op")], c15Var(x), g.numArg(1)))
		case out.K == "bool":
			e = c15Cap(c15Cmd("eq", c15Var(x), g.expr(in, true, 1)))
		case out.K == "str" && (c15Fits(in, c15TStr) || in.K == "num"):
			e = g.mkCat([]c15N{c15Str(c15Strs[g.pick(len(c15Strs), "s")]), c15Var(x)})
		case out.K == "list":
			e = c15List(c15Var(x), c15Var(x))
		}
	}
	if e.K == "" {
		e = g.expr(out, true, d)
	}
	g.vars = g.vars[:mark]
	g.safe = saved
	return c15Lam([]string{x}, c15Cmd("put", e))
}

func c15Orderable(t *c15Ty) bool {
	return t.K == "str" || t.K == "nstr" || t.K == "num" || t.K == "bool" || t.K == "list" && t.E != nil && (t.E.K == "str" || t.E.K == "nstr" || t.E.K == "num")
}

// pipeline generates a pipeline form and the element type of its output.
// pureLast: the last stage must be a plain stream builtin (used inside list literals).
func (g *c15Gen) pipeline(d int, pureLast bool) (c15N, *c15Ty) {
	saved := g.safe
	g.safe = true
	var et *c15Ty
	p := c15N{K: "pipe"}
	lists := g.visible(func(v c15GV) bool { return v.ty.K == "list" && v.ty.E != nil })
	switch g.weighted([]int{4, 3, 3}, "p0") {
	case 0:
		et = g.scalarTy()
		n := g.pick(5, "pn")
		f := c15Cmd("put")
		for i := 0; i < n; i++ {
			f.A = append(f.A, g.expr(et, true, d-1))
		}
		p.A = append(p.A, f)
	case 1:
		et = c15TNum
		f := c15Cmd("range", c15Str(fmt.Sprint(g.pick(6, "rn"))))
		if g.chance(1, 8, "rlong") {
			// more values than a pipe can buffer: a writer that outlives its reader must stay silent
			f = c15Cmd("range", c15Str([]string{"40", "100"}[g.pick(2, "rl")]))
		}
		if g.chance(1, 3, "r2") {
			f = c15Cmd("range", c15Str(fmt.Sprint(g.pick(4, "ra"))), c15Str(fmt.Sprint(g.pick(6, "rb"))))
			if g.chance(1, 3, "rstep") {
				f.B = []c15N{{K: "o", S: "step", A: []c15N{c15Str("2")}}}
				if f.A[0].S > f.A[1].S {
					f.B[0].A[0] = c15Str("-2")
				}

			}
		}
		p.A = append(p.A, f)
	case 2:
		if len(lists) > 0 {
			v := g.vars[lists[g.pick(len(lists), "li")]]
			et = v.ty.E
			p.A = append(p.A, c15Cmd("all", c15Var(v.name)))
		} else {
			et = c15TStr
			p.A = append(p.A, c15Cmd("put", c15Str("c"), c15Str("a"), c15Str("a"), c15Str("k")))
		}
	}
	nmid := g.pick(3, "nmid")
	for i := 0; i < nmid; i++ {
		var st c15N
		st, et = g.streamStage(et, d)
		p.A = append(p.A, st)
	}
	g.safe = saved
	// last stage
	if pureLast || g.pick(2, "lastk") == 0 {
		g.safe = true
		var st c15N
		st, et = g.streamStage(et, d)
		g.safe = saved
		p.A = append(p.A, st)
		return p, et
	}
	switch g.weighted([]int{6, 1, 1, 1, 1}, "last") {
	case 4:
		p.A = append(p.A, c15Cmd("keep-if", g.badPredicate()))
	case 0:
		x := g.fresh("p")
		lam := c15N{K: "lam", A: []c15N{{K: "p", S: x}}}
		lam.C = g.scoped(func() []c15N {
			g.vars = append(g.vars, c15GV{name: x, ty: et})
			g.loop++
			defer func() { g.loop-- }()
			return g.stmts(d-1, 1+g.pick(3, "bn"), true)
		})
		p.A = append(p.A, c15Cmd("each", lam))
	case 1:
		p.A = append(p.A, c15Cmd("put", c15List(c15Cap(c15Cmd("all")))))
		et = c15TList(et, 0)
	case 2:
		p.A = append(p.A, g.putStmt(d-1)) // does not read
		et = c15TAny
	case 3:
		fns := g.visible(func(v c15GV) bool {
			return v.ty.K == "fn" && v.ty.Fn != nil && len(v.ty.Fn.Params) == 1 && v.ty.Fn.Rest < 0 && !v.ty.Fn.Rec
		})
		if len(fns) > 0 {
			p.A = append(p.A, c15Cmd("each", g.varRef(fns[g.pick(len(fns), "fi")])))
		} else {
			p.A = append(p.A, c15Cmd("count"))
		}
		et = c15TAny
	}
	return p, c15TAny
}

// badPredicate: a keep-if predicate that breaks the documented contract
// ("must output a single boolean value").
func (g *c15Gen) badPredicate() c15N {
	x := g.fresh("p")
	switch g.pick(3, "badpred") {
	case 0:
		return c15Lam([]string{x}, c15Cmd("put", c15Var("true"), c15Var("false")))
	case 1:
		return c15Lam([]string{x}, c15Cmd("nop"))
	}
	return c15Lam([]string{x}, c15Cmd("put", c15Var(x)))
}

// streamStmt: a stream builtin that takes its inputs from an argument.
func (g *c15Gen) streamStmt(d int) c15N {
	et := g.scalarTy()
	lt := c15TList(et, 0)
	var in c15N
	if vs := g.visible(func(v c15GV) bool { return v.ty.K == "list" && v.ty.E != nil }); len(vs) > 0 && g.pick(3, "invar") != 0 {
		v := g.vars[vs[g.pick(len(vs), "vi")]]
		et, in = v.ty.E, c15Var(v.name)
	} else if g.chance(1, 6, "instr") {
		et, in = c15TStr, c15Str([]string{"foo", "zk", ""}[g.pick(3, "fs")])
	} else {
		in = g.expr(lt, true, d-1)
	}
	if g.chance(1, 4, "badpred") {
		return c15Cmd("keep-if", g.badPredicate(), in)
	}
	saved := g.safe
	g.safe = true
	st, _ := g.streamStage(et, d)
	g.safe = saved
	if st.S == "each" && g.chance(1, 2, "eachfull") {
		// a body with the full statement repertoire
		x := g.fresh("p")
		lam := c15N{K: "lam", A: []c15N{{K: "p", S: x}}}
		lam.C = g.scoped(func() []c15N {
			g.vars = append(g.vars, c15GV{name: x, ty: et})
			g.loop++
			defer func() { g.loop-- }()
			return g.stmts(d-1, 1+g.pick(3, "bn"), true)
		})
		st.A = []c15N{lam}
	}
	st.A = append(st.A, in)
	return st
}

// streamStage generates a pure stream builtin stage reading from the pipe.
func (g *c15Gen) streamStage(et *c15Ty, d int) (c15N, *c15Ty) {
	w := func(cond bool, n int) int {
		if cond {
			return n
		}
		return 0
	}
	switch g.weighted([]int{3, 3, 2, w(c15Orderable(et), 3), 2, 1, 3, 3}, "sk") {
	case 0:
		return c15Cmd("take", c15Str(fmt.Sprint(g.pick(4, "tn")))), et
	case 1:
		return c15Cmd("drop", c15Str(fmt.Sprint(g.pick(3, "dn")))), et
	case 2:
		return c15Cmd("compact"), et
	case 3:
		f := c15Cmd("order")
		if g.chance(1, 3, "rev") {
			f.B = []c15N{{K: "o", S: "reverse", A: []c15N{c15Var("true")}}}
		} else if et.K == "list" && g.chance(1, 2, "key") {
			x := g.fresh("p")
			f.B = []c15N{{K: "o", S: "key", A: []c15N{c15Lam([]string{x}, c15Cmd("count", c15Var(x)))}}}
		}
		return f, et
	case 4:
		return c15Cmd("count"), c15TNum
	case 5:
		return c15Cmd("all"), et
	case 6:
		out := g.scalarTy()
		if out.K == "nil" {
			out = c15TStr
		}
		return c15Cmd("each", g.safeLam1(et, out, d-1)), out
	case 7:
		return c15Cmd("keep-if", g.safeLam1(et, c15TBool, d-1)), et
	}
	return c15Cmd("all"), et
}

// ---- entry point ------------------------------------------------------------------------

func c15GenProg(t *rapid.T) []c15N {
	g := &c15Gen{t: t, budget: 160}
	d := 3 + rapid.IntRange(0, 3).Draw(t, "depth")
	// a few declarations first, so that the rest has variables of several types to work with
	var out []c15N
	np := rapid.IntRange(0, 4).Draw(t, "prelude")
	for i := 0; i < np; i++ {
		switch g.weighted([]int{5, 2, 2}, "pk") {
		case 0:
			out = append(out, g.declare(2))
		case 1:
			ty := &c15Ty{K: "fn"}
			lam := g.lambda(ty, 2)
			name := g.fresh("g")
			g.vars = append(g.vars, c15GV{name: name, ty: ty})
			out = append(out, c15VarDecl(name, lam))
		case 2:
			name := g.fresh("f")
			ty := &c15Ty{K: "fn"}
			g.fn++
			lam := g.lambda(ty, 2)
			g.fn--
			g.vars = append(g.vars, c15GV{name: name, ty: ty, isFn: true})
			out = append(out, c15N{K: "fn", S: name, A: []c15N{lam}})
		}
	}
	n := 2 + rapid.IntRange(0, 5).Draw(t, "n")
	return append(out, g.stmts(d, n, true)...)
}
