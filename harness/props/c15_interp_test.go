package props

// C15 reference interpreter for the core language, written from
// website/ref/language.md and the builtin documentation (pkg/eval/*.d.elv).
// It never calls into the Elvish implementation.
//
// Wherever the reference is silent (or the construct is outside the core
// language) the interpreter panics with c15Unspec: the case is then left out
// and counted, never compared.

import (
	"fmt"
	"math/big"
	"regexp"
	"sort"
	"strconv"
	"strings"
	"unicode/utf8"
)

// ---- values ---------------------------------------------------------------------

type c15V interface{}

type c15NilT struct{}
type c15OkT struct{}
type c15LV struct {
	e  []c15V
	sz int
}
type c15MV struct {
	k, v []c15V
	sz   int
}

// c15SizeOf is the number of nodes of a value; containers remember theirs, so
// that values that share structure (a list doubled in a loop) are measured
// without being walked.
func c15SizeOf(v c15V) int {
	switch x := v.(type) {
	case *c15LV:
		return x.sz
	case *c15MV:
		return x.sz
	case string:
		return 1 + len(x)/8
	}
	return 1
}

const c15MaxSize = 20000

func c15MkList(e []c15V) *c15LV {
	l := &c15LV{e: e, sz: 1}
	for _, x := range e {
		l.sz += c15SizeOf(x)
	}
	if l.sz > c15MaxSize {
		panic(c15Over{"value size"})
	}
	return l
}

type c15ExcV struct{ err *c15Err }
type c15ReasonV struct{ err *c15Err } // the pseudo-map $e[reason]
type c15Cell struct {
	v    c15V
	born int
}
type c15Clo struct {
	id     int
	params []c15N
	opts   []string
	optDef []c15V
	body   []c15N
	env    map[string]*c15Cell
	named  bool // defined with fn: consumes return
}

// c15Err is the reason of an exception.
type c15Err struct {
	kind    string // fail flow arity badvalue outofrange nosuchkey notindexable badindex concat argtype iterate unsupportedopt other
	content c15V   // fail
	s       string // flow name, arity/badvalue "what"
	lo, hi  int    // arity
	n       int    // arity actual
}

type c15Unspec struct{ why string }
type c15Over struct{ why string }

func c15Kind(v c15V) string {
	switch v.(type) {
	case c15NilT:
		return "nil"
	case bool:
		return "bool"
	case string:
		return "str"
	case *big.Int:
		return "num"
	case *c15LV:
		return "list"
	case *c15MV:
		return "map"
	case *c15Clo:
		return "fn"
	case *c15ExcV:
		return "exc"
	case *c15ReasonV:
		return "reason"
	case c15OkT:
		return "ok"
	}
	panic(fmt.Sprintf("c15: unknown value %T", v))
}

// c15Canon renders reference values; closures are numbered by first appearance.
type c15CanonCtx struct{ clo map[*c15Clo]int }

func (cc *c15CanonCtx) val(v c15V) string {
	switch x := v.(type) {
	case c15NilT:
		return "nil"
	case c15OkT:
		return "ok"
	case bool:
		if x {
			return "true"
		}
		return "false"
	case string:
		return "s" + strconv.Quote(x)
	case *big.Int:
		return "n" + x.String()
	case *c15LV:
		parts := make([]string, len(x.e))
		for i, e := range x.e {
			parts[i] = cc.val(e)
		}
		return "[" + strings.Join(parts, " ") + "]"
	case *c15MV:
		// pairs in the order of the canonical keys (keys never contain functions),
		// so that functions among the values are numbered the same way on both sides
		keys := make([]string, len(x.k))
		order := make([]int, len(x.k))
		for i := range x.k {
			keys[i] = cc.val(x.k[i])
			order[i] = i
		}
		sort.Slice(order, func(a, b int) bool { return keys[order[a]] < keys[order[b]] })
		parts := make([]string, len(x.k))
		for j, i := range order {
			parts[j] = keys[i] + "=" + cc.val(x.v[i])
		}
		return "{" + strings.Join(parts, " ") + "}"
	case *c15Clo:
		if cc.clo == nil {
			cc.clo = map[*c15Clo]int{}
		}
		id, ok := cc.clo[x]
		if !ok {
			id = len(cc.clo) + 1
			cc.clo[x] = id
		}
		return fmt.Sprintf("<fn%d>", id)
	case *c15ExcV:
		return "exc(" + cc.err(x.err) + ")"
	case *c15ReasonV:
		return "reason(" + cc.err(x.err) + ")"
	}
	panic(fmt.Sprintf("c15: unknown value %T", v))
}

func (cc *c15CanonCtx) err(e *c15Err) string {
	if e == nil {
		return "ok"
	}
	switch e.kind {
	case "fail":
		return "fail:" + cc.val(e.content)
	case "flow":
		return "flow:" + e.s
	case "arity":
		return fmt.Sprintf("arity:%s:%d:%d:%d", e.s, e.lo, e.hi, e.n)
	case "badvalue":
		return "badvalue:" + e.s
	}
	return e.kind
}

// ---- frames and scopes ------------------------------------------------------------

// c15Scope is one lexical scope instance. m is copy-on-write: a closure captures
// the map as it is when the lambda is evaluated, which is what static resolution
// of names to the lexically preceding declaration amounts to.
type c15Scope struct{ m map[string]*c15Cell }

type c15In struct {
	vals []c15V
	pos  int
	busy bool // an "each"-like builtin is iterating over it
}

type c15Frame struct {
	sc  *c15Scope
	out *[]c15V
	in  *c15In
}

func (it *c15Interp) declare(sc *c15Scope, name string, v c15V) *c15Cell {
	m := make(map[string]*c15Cell, len(sc.m)+1)
	for k, c := range sc.m {
		m[k] = c
	}
	it.ncell++
	c := &c15Cell{v: v, born: it.ncell}
	m[name] = c
	sc.m = m
	return c
}

// c15Track records which variables a pipeline stage read and wrote. Stages of
// a pipeline run in parallel, so a program is only in the specified core if no
// stage writes what another stage reads or writes, and if only the last stage
// assigns variables that existed before the pipeline.
type c15Track struct{ reads, writes map[*c15Cell]bool }

func c15NewTrack() *c15Track {
	return &c15Track{reads: map[*c15Cell]bool{}, writes: map[*c15Cell]bool{}}
}

func (it *c15Interp) read(c *c15Cell) c15V {
	for _, t := range it.collect {
		t.reads[c] = true
	}
	for _, g := range it.guards {
		if g.writes[c] {
			panic(c15Unspec{"pipeline stages race on a variable"})
		}
	}
	return c.v
}

func (it *c15Interp) write(c *c15Cell, v c15V) {
	for _, t := range it.collect {
		t.writes[c] = true
	}
	for _, g := range it.guards {
		if g.writes[c] || g.reads[c] {
			panic(c15Unspec{"pipeline stages race on a variable"})
		}
	}
	if len(it.pureFrom) > 0 && c.born <= it.pureFrom[0] {
		panic(c15Unspec{"a non-final pipeline stage assigns an outer variable"})
	}
	c.v = v
}

type c15Interp struct {
	steps, maxSteps int
	depth, maxDepth int
	outputs         int
	outWeight       int
	nclo            int
	ncell           int
	collect, guards []*c15Track
	pureFrom        []int
}

func (it *c15Interp) step() {
	it.steps++
	if it.steps > it.maxSteps {
		panic(c15Over{"steps"})
	}
}

func (it *c15Interp) put(fr *c15Frame, vs ...c15V) {
	it.outputs += len(vs)
	for _, v := range vs {
		it.outWeight += c15SizeOf(v)
	}
	if it.outputs > 4000 || it.outWeight > 200000 {
		panic(c15Over{"outputs"})
	}
	*fr.out = append(*fr.out, vs...)
}

// c15Outcome is what is compared with Elvish.
type c15Outcome struct {
	Values []string
	Err    string // "" = no exception
	Unspec string // non-empty: the program left the specified core; not compared
	Over   string // non-empty: budget exceeded; not compared
	Steps  int
}

func c15RunRef(prog []c15N) (res c15Outcome) {
	it := &c15Interp{maxSteps: 30000, maxDepth: 40}
	var out []c15V
	fr := &c15Frame{sc: &c15Scope{m: map[string]*c15Cell{}}, out: &out, in: &c15In{}}
	defer func() {
		res.Steps = it.steps
		if r := recover(); r != nil {
			switch x := r.(type) {
			case c15Unspec:
				res.Unspec = x.why
			case c15Over:
				res.Over = x.why
			default:
				panic(r)
			}
		}
	}()
	err := it.chunk(fr, prog)
	cc := &c15CanonCtx{}
	for _, v := range out {
		res.Values = append(res.Values, cc.val(v))
	}
	if err != nil {
		res.Err = cc.err(err)
	}
	return res
}

// ---- helpers ------------------------------------------------------------------------

func c15Bool(v c15V) bool {
	switch x := v.(type) {
	case c15NilT:
		return false
	case bool:
		return x
	case *c15ExcV:
		return false
	case *c15ReasonV:
		panic(c15Unspec{"truth value of an exception reason"})
	}
	return true
}

func c15Eq(a, b c15V) bool {
	ka, kb := c15Kind(a), c15Kind(b)
	if ka == "exc" && kb == "exc" || ka == "ok" && kb == "ok" || ka == "reason" && kb == "reason" {
		panic(c15Unspec{"equality of exceptions"})
	}
	if ka != kb {
		if (ka == "exc" && kb == "ok") || (ka == "ok" && kb == "exc") {
			panic(c15Unspec{"equality of exceptions"})
		}
		return false
	}
	switch x := a.(type) {
	case c15NilT:
		return true
	case bool:
		return x == b.(bool)
	case string:
		return x == b.(string)
	case *big.Int:
		return x.Cmp(b.(*big.Int)) == 0
	case *c15LV:
		y := b.(*c15LV)
		if len(x.e) != len(y.e) {
			return false
		}
		for i := range x.e {
			if !c15Eq(x.e[i], y.e[i]) {
				return false
			}
		}
		return true
	case *c15MV:
		y := b.(*c15MV)
		if len(x.k) != len(y.k) {
			return false
		}
		for i := range x.k {
			j := y.find(x.k[i])
			if j < 0 || !c15Eq(x.v[i], y.v[j]) {
				return false
			}
		}
		return true
	case *c15Clo:
		return x == b.(*c15Clo)
	}
	panic("c15Eq")
}

func (m *c15MV) find(k c15V) int {
	for i := range m.k {
		if c15Eq(m.k[i], k) {
			return i
		}
	}
	return -1
}

func c15CheckKey(k c15V) {
	switch c15Kind(k) {
	case "fn", "exc", "ok", "reason":
		panic(c15Unspec{"closure or exception as map key"})
	}
}

func (m *c15MV) assoc(k, v c15V) *c15MV {
	c15CheckKey(k)
	n := &c15MV{k: append([]c15V(nil), m.k...), v: append([]c15V(nil), m.v...)}
	if i := n.find(k); i >= 0 {
		n.v[i] = v
	} else {
		n.k = append(n.k, k)
		n.v = append(n.v, v)
	}
	n.sz = 1
	for i := range n.k {
		n.sz += c15SizeOf(n.k[i]) + c15SizeOf(n.v[i])
	}
	if n.sz > c15MaxSize {
		panic(c15Over{"value size"})
	}
	return n
}

var c15DecRE = regexp.MustCompile(`^-?(0|[1-9][0-9]*)$`)

// strings that some other number syntax (hex, octal, binary, rational, float,
// underscores, infinities) might accept
var c15MaybeNumRE = regexp.MustCompile(`^[+-]?([0-9a-fA-FxXoObB_./eE+-]*[0-9][0-9a-fA-FxXoObB_./eE+-]*|(?i:inf|infinity|nan))$`)

// c15Num converts a value in a numeric context. Only plain decimal integers
// are in the core; other strings that might be numbers in another syntax are
// left out.
func c15Num(v c15V) (*big.Int, *c15Err) {
	switch x := v.(type) {
	case *big.Int:
		return x, nil
	case string:
		if c15DecRE.MatchString(x) {
			n, _ := new(big.Int).SetString(x, 10)
			return n, nil
		}
		if c15MaybeNumRE.MatchString(x) {
			panic(c15Unspec{"number syntax outside the core: " + x})
		}
		return nil, &c15Err{kind: "argtype"}
	}
	return nil, &c15Err{kind: "argtype"}
}

func c15Int(v c15V) (int, *c15Err) {
	n, err := c15Num(v)
	if err != nil {
		return 0, err
	}
	if !n.IsInt64() || n.Int64() > 1<<30 || n.Int64() < -(1<<30) {
		panic(c15Unspec{"huge integer argument"})
	}
	return int(n.Int64()), nil
}

func c15Ascii(s string) {
	for i := 0; i < len(s); i++ {
		if s[i] >= 0x80 {
			panic(c15Unspec{"non-ASCII string indexed or iterated"})
		}
	}
}

func c15Iterate(v c15V) ([]c15V, *c15Err) {
	switch x := v.(type) {
	case *c15LV:
		return x.e, nil
	case string:
		if !utf8.ValidString(x) {
			panic(c15Unspec{"invalid UTF-8 iterated"})
		}
		var out []c15V
		for _, r := range x {
			out = append(out, string(r))
		}
		return out, nil
	case *c15Clo, *c15ExcV, c15OkT, *c15ReasonV:
		panic(c15Unspec{"iterating a pseudo-map"})
	}
	return nil, &c15Err{kind: "iterate"}
}

func c15Arity(what string, lo, hi, n int) *c15Err {
	if n >= lo && (hi < 0 || n <= hi) {
		return nil
	}
	return &c15Err{kind: "arity", s: what, lo: lo, hi: hi, n: n}
}

// ---- indexing ---------------------------------------------------------------------------

var c15SliceRE = regexp.MustCompile(`^(-?[0-9]*)\.\.(=?)(-?[0-9]*)$`)

// c15SeqIndex resolves an index or slice against a sequence of length n.
// It returns (lo, hi, isSlice).
func c15SeqIndex(idx c15V, n int) (int, int, bool, *c15Err) {
	adj := func(i int) (int, *c15Err) {
		if i < 0 {
			if i < -n {
				return 0, &c15Err{kind: "outofrange"}
			}
			return i + n, nil
		}
		return i, nil
	}
	if s, ok := idx.(string); ok {
		if m := c15SliceRE.FindStringSubmatch(s); m != nil {
			lo, hi := 0, n
			var err *c15Err
			if m[1] != "" {
				if !c15DecRE.MatchString(m[1]) {
					panic(c15Unspec{"slice bound syntax " + s})
				}
				v, _ := strconv.Atoi(m[1])
				if lo, err = adj(v); err != nil {
					return 0, 0, true, err
				}
			}
			if m[3] != "" {
				if !c15DecRE.MatchString(m[3]) {
					panic(c15Unspec{"slice bound syntax " + s})
				}
				v, _ := strconv.Atoi(m[3])
				if hi, err = adj(v); err != nil {
					return 0, 0, true, err
				}
				if m[2] == "=" {
					hi++
				}
			} else if m[2] == "=" {
				panic(c15Unspec{"closed slice without upper bound"})
			}
			if lo > n || hi > n || lo > hi {
				return 0, 0, true, &c15Err{kind: "outofrange"}
			}
			return lo, hi, true, nil
		}
		if !c15DecRE.MatchString(s) {
			if strings.ContainsAny(s, "0123456789") {
				panic(c15Unspec{"index syntax outside the core: " + s})
			}
			return 0, 0, false, &c15Err{kind: "badindex"}
		}
	}
	var i int
	switch x := idx.(type) {
	case string:
		i, _ = strconv.Atoi(x)
	case *big.Int:
		if !x.IsInt64() || x.Int64() > 1<<30 || x.Int64() < -(1<<30) {
			panic(c15Unspec{"huge index"})
		}
		i = int(x.Int64())
	default:
		return 0, 0, false, &c15Err{kind: "badindex"}
	}
	i, err := adj(i)
	if err != nil {
		return 0, 0, false, err
	}
	if i >= n {
		return 0, 0, false, &c15Err{kind: "outofrange"}
	}
	return i, i + 1, false, nil
}

func c15Index(v, idx c15V) (c15V, *c15Err) {
	switch x := v.(type) {
	case *c15LV:
		lo, hi, sl, err := c15SeqIndex(idx, len(x.e))
		if err != nil {
			return nil, err
		}
		if sl {
			return c15MkList(append([]c15V(nil), x.e[lo:hi]...)), nil
		}
		return x.e[lo], nil
	case string:
		c15Ascii(x)
		lo, hi, _, err := c15SeqIndex(idx, len(x))
		if err != nil {
			return nil, err
		}
		return x[lo:hi], nil
	case *c15MV:
		c15CheckKey(idx)
		if i := x.find(idx); i >= 0 {
			return x.v[i], nil
		}
		return nil, &c15Err{kind: "nosuchkey"}
	case *c15ExcV:
		// language.md, Exception: "a pseudo-map with a reason field"
		if k, ok := idx.(string); ok && k == "reason" {
			return &c15ReasonV{err: x.err}, nil
		}
		panic(c15Unspec{"indexing an exception with another field"})
	case *c15ReasonV:
		k, _ := idx.(string)
		switch {
		case x.err.kind == "fail" && k == "type":
			return "fail", nil
		case x.err.kind == "fail" && k == "content":
			return x.err.content, nil
		case x.err.kind == "flow" && k == "type":
			return "flow", nil
		case x.err.kind == "flow" && k == "name":
			return x.err.s, nil
		}
		panic(c15Unspec{"field of an exception reason that is not documented"})
	case *c15Clo:
		// language.md, Function: fields of a user-defined function
		k, _ := idx.(string)
		switch k {
		case "arg-names":
			var e []c15V
			for _, p := range x.params {
				e = append(e, p.S)
			}
			return c15MkList(e), nil
		case "opt-names":
			var e []c15V
			for _, o := range x.opts {
				e = append(e, o)
			}
			return c15MkList(e), nil
		case "opt-defaults":
			return c15MkList(append([]c15V(nil), x.optDef...)), nil
		}
		panic(c15Unspec{"field of a function that is not modelled"})
	case c15OkT:
		panic(c15Unspec{"indexing a pseudo-map"})
	}
	return nil, &c15Err{kind: "notindexable"}
}

// c15Assoc implements element assignment on the immutable containers.
func c15Assoc(v c15V, idxs []c15V, nv c15V) (c15V, *c15Err) {
	if len(idxs) == 0 {
		return nv, nil
	}
	switch x := v.(type) {
	case *c15LV:
		lo, _, sl, err := c15SeqIndex(idxs[0], len(x.e))
		if sl {
			panic(c15Unspec{"assignment to a slice"})
		}
		if err != nil {
			return nil, err
		}
		inner, err := c15Assoc(x.e[lo], idxs[1:], nv)
		if err != nil {
			return nil, err
		}
		e := append([]c15V(nil), x.e...)
		e[lo] = inner
		return c15MkList(e), nil
	case *c15MV:
		var cur c15V
		if len(idxs) > 1 {
			i := x.find(idxs[0])
			if i < 0 {
				return nil, &c15Err{kind: "nosuchkey"}
			}
			cur = x.v[i]
		}
		inner, err := c15Assoc(cur, idxs[1:], nv)
		if err != nil {
			return nil, err
		}
		return x.assoc(idxs[0], inner), nil
	}
	panic(c15Unspec{"element assignment on " + c15Kind(v)})
}

// ---- expressions ----------------------------------------------------------------------------

func (it *c15Interp) exprs(fr *c15Frame, es []c15N) ([]c15V, *c15Err) {
	var out []c15V
	for _, e := range es {
		vs, err := it.expr(fr, e)
		if err != nil {
			return nil, err
		}
		out = append(out, vs...)
		if len(out) > 4000 {
			panic(c15Over{"number of values"})
		}
	}
	return out, nil
}

func (it *c15Interp) lookup(fr *c15Frame, name string) c15V {
	if c, ok := fr.sc.m[name]; ok {
		return it.read(c)
	}
	switch name {
	case "true":
		return true
	case "false":
		return false
	case "nil":
		return c15NilT{}
	case "ok":
		return c15OkT{}
	}
	panic(c15Unspec{"variable $" + name + " is not declared (the program would not compile)"})
}

func (it *c15Interp) expr(fr *c15Frame, e c15N) ([]c15V, *c15Err) {
	it.step()
	switch e.K {
	case "str":
		return []c15V{e.S}, nil
	case "var":
		v := it.lookup(fr, e.S)
		if !e.F {
			return []c15V{v}, nil
		}
		return c15Iterate(v)
	case "list":
		vs, err := it.exprs(fr, e.A)
		if err != nil {
			return nil, err
		}
		return []c15V{c15MkList(append([]c15V(nil), vs...))}, nil
	case "map":
		m := &c15MV{sz: 1}
		for i := range e.A {
			ks, err := it.expr(fr, e.A[i])
			if err != nil {
				return nil, err
			}
			vs, err := it.expr(fr, e.B[i])
			if err != nil {
				return nil, err
			}
			if len(ks) != 1 || len(vs) != 1 {
				panic(c15Unspec{"map pair with other than one key and one value"})
			}
			m = m.assoc(ks[0], vs[0])
		}
		return []c15V{m}, nil
	case "lam":
		it.nclo++
		c := &c15Clo{id: it.nclo, params: e.A, body: e.C}
		for _, o := range e.B {
			vs, err := it.expr(fr, o.A[0])
			if err != nil {
				return nil, err
			}
			if len(vs) != 1 {
				panic(c15Unspec{"option default with other than one value"})
			}
			c.opts = append(c.opts, o.S)
			c.optDef = append(c.optDef, vs[0])
		}
		c.env = fr.sc.m
		return []c15V{c}, nil
	case "cap":
		var buf []c15V
		sub := &c15Frame{sc: fr.sc, out: &buf, in: fr.in}
		if err := it.chunk(sub, e.C); err != nil {
			return nil, err
		}
		return buf, nil
	case "exc":
		if err := it.chunk(fr, e.C); err != nil {
			return []c15V{&c15ExcV{err: err}}, nil
		}
		return []c15V{c15OkT{}}, nil
	case "brace":
		return it.exprs(fr, e.A)
	case "idx":
		heads, err := it.expr(fr, e.A[0])
		if err != nil {
			return nil, err
		}
		idxs, err := it.exprs(fr, e.B)
		if err != nil {
			return nil, err
		}
		if len(heads)*len(idxs) > 4000 {
			panic(c15Over{"number of values"})
		}
		var out []c15V
		for _, h := range heads {
			for _, ix := range idxs {
				v, err := c15Index(h, ix)
				if err != nil {
					return nil, err
				}
				out = append(out, v)
			}
		}
		return out, nil
	case "cat":
		var acc []c15V
		for i, part := range e.A {
			vs, err := it.expr(fr, part)
			if err != nil {
				return nil, err
			}
			if i == 0 {
				acc = vs
				continue
			}
			if len(acc)*len(vs) > 4000 {
				panic(c15Over{"number of values"})
			}
			var next []c15V
			for _, l := range acc {
				for _, r := range vs {
					v, err := c15Concat(l, r)
					if err != nil {
						return nil, err
					}
					next = append(next, v)
				}
			}
			acc = next
		}
		return acc, nil
	}
	panic("c15 interp: unknown expression kind " + e.K)
}

func c15Concat(l, r c15V) (c15V, *c15Err) {
	str := func(v c15V) (string, bool) {
		switch x := v.(type) {
		case string:
			return x, true
		case *big.Int:
			return x.String(), true
		}
		return "", false
	}
	ls, ok1 := str(l)
	rs, ok2 := str(r)
	if !ok1 || !ok2 {
		return nil, &c15Err{kind: "concat"}
	}
	if len(ls)+len(rs) > 4000 {
		panic(c15Over{"string size"})
	}
	return ls + rs, nil
}

// ---- chunks and forms -----------------------------------------------------------------------

func (it *c15Interp) chunk(fr *c15Frame, forms []c15N) *c15Err {
	for _, f := range forms {
		if err := it.form(fr, f); err != nil {
			return err
		}
	}
	return nil
}

// block runs a lambda-like body in a fresh scope that starts from the current one.
func (it *c15Interp) block(fr *c15Frame, forms []c15N) *c15Err {
	sub := &c15Frame{sc: &c15Scope{m: fr.sc.m}, out: fr.out, in: fr.in}
	it.depth++
	if it.depth > it.maxDepth {
		panic(c15Over{"depth"})
	}
	defer func() { it.depth-- }()
	return it.chunk(sub, forms)
}

type c15Opt struct {
	name string
	v    c15V
}

func (it *c15Interp) options(fr *c15Frame, os []c15N) ([]c15Opt, *c15Err) {
	var out []c15Opt
	for _, o := range os {
		vs, err := it.expr(fr, o.A[0])
		if err != nil {
			return nil, err
		}
		if len(vs) != 1 {
			panic(c15Unspec{"option with other than one value"})
		}
		out = append(out, c15Opt{o.S, vs[0]})
	}
	return out, nil
}

func (it *c15Interp) assign(fr *c15Frame, f c15N, declare bool) *c15Err {
	var vals []c15V
	if declare && f.N == 0 {
		for _, lv := range f.A {
			if lv.F {
				panic(c15Unspec{"rest variable declared without a value"})
			}
			vals = append(vals, c15NilT{})
		}
	} else {
		var err *c15Err
		if vals, err = it.exprs(fr, f.B); err != nil {
			return err
		}
	}
	rest := -1
	for i, lv := range f.A {
		if lv.F {
			rest = i
		}
	}
	n := len(f.A)
	if rest < 0 {
		if err := c15Arity("rhs", n, n, len(vals)); err != nil {
			return err
		}
	} else if err := c15Arity("rhs", n-1, -1, len(vals)); err != nil {
		return err
	}
	// distribute
	per := make([]c15V, n)
	vi := 0
	for i := range f.A {
		if i == rest {
			k := len(vals) - (n - 1)
			per[i] = c15MkList(append([]c15V(nil), vals[vi:vi+k]...))
			vi += k
		} else {
			per[i] = vals[vi]
			vi++
		}
	}
	for i, lv := range f.A {
		if declare {
			it.declare(fr.sc, lv.S, per[i])
			continue
		}
		cell, ok := fr.sc.m[lv.S]
		if !ok {
			panic(c15Unspec{"set of undeclared variable " + lv.S})
		}
		if len(lv.B) == 0 {
			it.write(cell, per[i])
			continue
		}
		var idxs []c15V
		for _, ix := range lv.B {
			vs, err := it.expr(fr, ix)
			if err != nil {
				return err
			}
			if len(vs) != 1 {
				panic(c15Unspec{"element lvalue index with other than one value"})
			}
			idxs = append(idxs, vs[0])
		}
		nv, err := c15Assoc(it.read(cell), idxs, per[i])
		if err != nil {
			return err
		}
		it.write(cell, nv)
	}
	return nil
}

func (it *c15Interp) cond(fr *c15Frame, e c15N) (bool, *c15Err) {
	vs, err := it.expr(fr, e)
	if err != nil {
		return false, err
	}
	for _, v := range vs {
		if !c15Bool(v) {
			return false, nil
		}
	}
	return true, nil
}

func (it *c15Interp) form(fr *c15Frame, f c15N) *c15Err {
	it.step()
	switch f.K {
	case "cmd":
		// the head resolves to the variable head~ (a user function shadows the
		// builtin of the same name); it is looked at before the arguments
		var head c15V
		if c, ok := fr.sc.m[f.S+"~"]; ok {
			head = it.read(c)
		}
		args, err := it.exprs(fr, f.A)
		if err != nil {
			return err
		}
		opts, err := it.options(fr, f.B)
		if err != nil {
			return err
		}
		if head != nil {
			return it.callValue(fr, head, args, opts)
		}
		return it.builtin(fr, f.S, args, opts)
	case "call":
		hs, err := it.expr(fr, f.A[0])
		if err != nil {
			return err
		}
		if len(hs) != 1 {
			panic(c15Unspec{"command head with other than one value"})
		}
		args, err := it.exprs(fr, f.A[1:])
		if err != nil {
			return err
		}
		opts, err := it.options(fr, f.B)
		if err != nil {
			return err
		}
		return it.callValue(fr, hs[0], args, opts)
	case "vardecl":
		return it.assign(fr, f, true)
	case "set":
		return it.assign(fr, f, false)
	case "if":
		for i := range f.A {
			ok, err := it.cond(fr, f.A[i])
			if err != nil {
				return err
			}
			if ok {
				return it.block(fr, f.B[i].C)
			}
		}
		if f.N == 1 {
			return it.block(fr, f.C)
		}
		return nil
	case "while":
		ran := false
		for {
			it.step()
			ok, err := it.cond(fr, f.A[0])
			if err != nil {
				return err
			}
			if !ok {
				break
			}
			ran = true
			if err := it.block(fr, f.C); err != nil {
				if err.kind == "flow" && err.s == "break" {
					break
				}
				if err.kind == "flow" && err.s == "continue" {
					continue
				}
				return err
			}
		}
		if !ran && f.N == 1 {
			return it.block(fr, f.D)
		}
		return nil
	case "for":
		cs, err := it.expr(fr, f.A[0])
		if err != nil {
			return err
		}
		if len(cs) != 1 {
			panic(c15Unspec{"for over other than one value"})
		}
		elems, err := c15Iterate(cs[0])
		if err != nil {
			return err
		}
		cell, ok := fr.sc.m[f.S]
		if !ok {
			cell = it.declare(fr.sc, f.S, c15NilT{})
		}
		ran := false
		for _, el := range elems {
			it.step()
			it.write(cell, el)
			ran = true
			if err := it.block(fr, f.C); err != nil {
				if err.kind == "flow" && err.s == "break" {
					break
				}
				if err.kind == "flow" && err.s == "continue" {
					continue
				}
				return err
			}
		}
		if !ran && f.N == 1 {
			return it.block(fr, f.D)
		}
		return nil
	case "try":
		var catch, els, fin *c15N
		for i := range f.A {
			switch f.A[i].S {
			case "catch":
				catch = &f.A[i]
			case "else":
				els = &f.A[i]
			case "finally":
				fin = &f.A[i]
			}
		}
		err := it.block(fr, f.C)
		if err != nil {
			if catch != nil {
				cell, ok := fr.sc.m[catch.V]
				if !ok {
					cell = it.declare(fr.sc, catch.V, c15NilT{})
				}
				it.write(cell, &c15ExcV{err: err})
				err = it.block(fr, catch.C)
			}
		} else if els != nil {
			err = it.block(fr, els.C)
		}
		if fin != nil {
			if ferr := it.block(fr, fin.C); ferr != nil {
				return ferr
			}
		}
		return err
	case "fn":
		cell := it.declare(fr.sc, f.S+"~", c15NilT{})
		vs, err := it.expr(fr, f.A[0])
		if err != nil {
			return err
		}
		c := vs[0].(*c15Clo)
		c.named = true
		cell.v = c
		return nil
	case "and", "or", "coalesce":
		var last c15V
		switch f.K {
		case "and":
			last = true
		case "or":
			last = false
		default:
			last = c15NilT{}
		}
		for _, a := range f.A {
			vs, err := it.expr(fr, a)
			if err != nil {
				return err
			}
			for _, v := range vs {
				last = v
				stop := false
				switch f.K {
				case "and":
					stop = !c15Bool(v)
				case "or":
					stop = c15Bool(v)
				default:
					_, isNil := v.(c15NilT)
					stop = !isNil
				}
				if stop {
					it.put(fr, v)
					return nil
				}
			}
		}
		it.put(fr, last)
		return nil
	case "pipe":
		in := fr.in
		start := it.ncell
		cum := c15NewTrack()
		nc, ng, np := len(it.collect), len(it.guards), len(it.pureFrom)
		defer func() { it.collect, it.guards, it.pureFrom = it.collect[:nc], it.guards[:ng], it.pureFrom[:np] }()
		for i, st := range f.A {
			last := i == len(f.A)-1
			tr := c15NewTrack()
			it.collect = append(it.collect[:nc], tr)
			it.guards = it.guards[:ng]
			if i > 0 {
				it.guards = append(it.guards, cum)
			}
			it.pureFrom = it.pureFrom[:np]
			if last {
				return it.form(&c15Frame{sc: fr.sc, out: fr.out, in: in}, st)
			}
			it.pureFrom = append(it.pureFrom, start)
			var buf []c15V
			if err := it.form(&c15Frame{sc: fr.sc, out: &buf, in: in}, st); err != nil {
				panic(c15Unspec{"a non-final pipeline stage throws (schedule-dependent)"})
			}
			in = &c15In{vals: buf}
			for c := range tr.reads {
				cum.reads[c] = true
			}
			for c := range tr.writes {
				cum.writes[c] = true
			}
		}
		return nil
	}
	panic("c15 interp: unknown form kind " + f.K)
}

// ---- calls ------------------------------------------------------------------------------------

func (it *c15Interp) callValue(fr *c15Frame, h c15V, args []c15V, opts []c15Opt) *c15Err {
	c, ok := h.(*c15Clo)
	if !ok {
		if s, isStr := h.(string); isStr && strings.Contains(s, "/") {
			panic(c15Unspec{"external command"})
		}
		return &c15Err{kind: "badvalue", s: "command"}
	}
	return it.call(fr, c, args, opts)
}

func (it *c15Interp) call(fr *c15Frame, c *c15Clo, args []c15V, opts []c15Opt) *c15Err {
	it.step()
	rest := -1
	for i, p := range c.params {
		if p.F {
			rest = i
		}
	}
	n := len(c.params)
	var aerr *c15Err
	if rest < 0 {
		aerr = c15Arity("arguments", n, n, len(args))
	} else {
		aerr = c15Arity("arguments", n-1, -1, len(args))
	}
	var oerr *c15Err
	for _, o := range opts {
		known := false
		for _, name := range c.opts {
			if name == o.name {
				known = true
			}
		}
		if !known {
			oerr = &c15Err{kind: "unsupportedopt"}
		}
	}
	if aerr != nil && oerr != nil {
		panic(c15Unspec{"both arity and option errors"})
	}
	if aerr != nil {
		return aerr
	}
	if oerr != nil {
		return oerr
	}
	sc := &c15Scope{m: c.env}
	ai := 0
	for i, p := range c.params {
		if i == rest {
			k := len(args) - (n - 1)
			it.declare(sc, p.S, c15MkList(append([]c15V(nil), args[ai:ai+k]...)))
			ai += k
		} else {
			it.declare(sc, p.S, args[ai])
			ai++
		}
	}
	for i, name := range c.opts {
		v := c.optDef[i]
		for _, o := range opts {
			if o.name == name {
				v = o.v
			}
		}
		it.declare(sc, name, v)
	}
	it.depth++
	if it.depth > it.maxDepth {
		panic(c15Over{"depth"})
	}
	defer func() { it.depth-- }()
	err := it.chunk(&c15Frame{sc: sc, out: fr.out, in: fr.in}, c.body)
	if err != nil && c.named && err.kind == "flow" && err.s == "return" {
		return nil
	}
	return err
}

// inputs returns the value inputs of a builtin: the optional argument at
// position i, or everything left on the pipe.
func (it *c15Interp) inputs(fr *c15Frame, args []c15V, i int) ([]c15V, *c15Err) {
	if len(args) > i {
		return c15Iterate(args[i])
	}
	if fr.in.busy {
		panic(c15Unspec{"nested read of a pipe that is being iterated"})
	}
	vs := fr.in.vals[fr.in.pos:]
	fr.in.pos = len(fr.in.vals)
	return vs, nil
}

func c15NoOpts(name string, opts []c15Opt) *c15Err {
	if len(opts) > 0 {
		return &c15Err{kind: "unsupportedopt"}
	}
	return nil
}

func (it *c15Interp) builtin(fr *c15Frame, name string, args []c15V, opts []c15Opt) *c15Err {
	if name != "order" && name != "range" && name != "nop" {
		if err := c15NoOpts(name, opts); err != nil {
			return err
		}
	}
	arity := func(lo, hi int) *c15Err { return c15Arity("arguments", lo, hi, len(args)) }
	nums := func() ([]*big.Int, *c15Err) {
		out := make([]*big.Int, len(args))
		for i, a := range args {
			n, err := c15Num(a)
			if err != nil {
				return nil, err
			}
			out[i] = n
		}
		return out, nil
	}
	callable := func(v c15V) (*c15Clo, *c15Err) {
		if c, ok := v.(*c15Clo); ok {
			return c, nil
		}
		return nil, &c15Err{kind: "argtype"}
	}
	switch name {
	case "put":
		it.put(fr, args...)
		return nil
	case "nop":
		return nil
	case "+", "*":
		ns, err := nums()
		if err != nil {
			return err
		}
		acc := big.NewInt(0)
		if name == "*" {
			acc = big.NewInt(1)
		}
		for _, n := range ns {
			if name == "+" {
				acc = new(big.Int).Add(acc, n)
			} else {
				acc = new(big.Int).Mul(acc, n)
			}
			if acc.BitLen() > 4000 {
				panic(c15Over{"number size"})
			}
		}
		it.put(fr, acc)
		return nil
	case "-":
		if err := arity(1, -1); err != nil {
			return err
		}
		ns, err := nums()
		if err != nil {
			return err
		}
		if len(ns) == 1 {
			it.put(fr, new(big.Int).Neg(ns[0]))
			return nil
		}
		acc := ns[0]
		for _, n := range ns[1:] {
			acc = new(big.Int).Sub(acc, n)
		}
		it.put(fr, acc)
		return nil
	case "<", "==":
		ns, err := nums()
		if err != nil {
			return err
		}
		res := true
		for i := 0; i+1 < len(ns); i++ {
			c := ns[i].Cmp(ns[i+1])
			if name == "<" && c >= 0 || name == "==" && c != 0 {
				res = false
			}
		}
		it.put(fr, res)
		return nil
	case "eq":
		res := true
		for i := 0; i+1 < len(args); i++ {
			if !c15Eq(args[i], args[i+1]) {
				res = false
			}
		}
		it.put(fr, res)
		return nil
	case "not":
		if err := arity(1, 1); err != nil {
			return err
		}
		it.put(fr, !c15Bool(args[0]))
		return nil
	case "fail":
		if err := arity(1, 1); err != nil {
			return err
		}
		switch x := args[0].(type) {
		case *c15ExcV:
			return x.err
		case c15OkT:
			panic(c15Unspec{"fail $ok"})
		case *c15ReasonV:
			panic(c15Unspec{"fail with an exception reason"})
		}
		return &c15Err{kind: "fail", content: args[0]}
	case "break", "continue", "return":
		if err := arity(0, 0); err != nil {
			return err
		}
		return &c15Err{kind: "flow", s: name}
	case "range":
		if err := arity(1, 2); err != nil {
			return err
		}
		start, end := 0, 0
		var err *c15Err
		if len(args) == 1 {
			if end, err = c15Int(args[0]); err != nil {
				return err
			}
		} else {
			if start, err = c15Int(args[0]); err != nil {
				return err
			}
			if end, err = c15Int(args[1]); err != nil {
				return err
			}
		}
		step, hasStep := 0, false
		for _, o := range opts {
			if o.name != "step" {
				return &c15Err{kind: "unsupportedopt"}
			}
			if step, err = c15Int(o.v); err != nil {
				panic(c15Unspec{"non-numeric &step"})
			}
			hasStep = true
		}
		if hasStep && step == 0 {
			panic(c15Unspec{"range &step=0"})
		}
		if start <= end {
			if !hasStep {
				step = 1
			}
			if step < 0 {
				return &c15Err{kind: "badvalue", s: "step"}
			}
			for i := start; i < end; i += step {
				it.step()
				it.put(fr, big.NewInt(int64(i)))
			}
		} else {
			if !hasStep {
				step = -1
			}
			if step > 0 {
				return &c15Err{kind: "badvalue", s: "step"}
			}
			for i := start; i > end; i += step {
				it.step()
				it.put(fr, big.NewInt(int64(i)))
			}
		}
		return nil
	case "each":
		if err := arity(1, 2); err != nil {
			return err
		}
		f, err := callable(args[0])
		if err != nil {
			return err
		}
		piped := len(args) < 2
		ins, err := it.inputs(fr, args, 1)
		if err != nil {
			return err
		}
		if piped {
			fr.in.busy = true
			defer func() { fr.in.busy = false }()
		}
		for _, v := range ins {
			if err := it.call(fr, f, []c15V{v}, nil); err != nil {
				if err.kind == "flow" && err.s == "break" {
					break
				}
				if err.kind == "flow" && err.s == "continue" {
					continue
				}
				return err
			}
		}
		return nil
	case "take", "drop":
		if err := arity(1, 2); err != nil {
			return err
		}
		n, err := c15Int(args[0])
		if err != nil {
			return err
		}
		if n < 0 {
			panic(c15Unspec{"negative count for take/drop"})
		}
		ins, err := it.inputs(fr, args, 1)
		if err != nil {
			return err
		}
		if n > len(ins) {
			n = len(ins)
		}
		if name == "take" {
			it.put(fr, ins[:n]...)
		} else {
			it.put(fr, ins[n:]...)
		}
		return nil
	case "count":
		if err := arity(0, 1); err != nil {
			return err
		}
		if len(args) == 1 {
			switch x := args[0].(type) {
			case *c15LV:
				it.put(fr, big.NewInt(int64(len(x.e))))
			case *c15MV:
				it.put(fr, big.NewInt(int64(len(x.k))))
			case string:
				it.put(fr, big.NewInt(int64(len(x))))
			default:
				panic(c15Unspec{"count of " + c15Kind(args[0])})
			}
			return nil
		}
		ins, _ := it.inputs(fr, args, 1)
		it.put(fr, big.NewInt(int64(len(ins))))
		return nil
	case "all":
		if err := arity(0, 1); err != nil {
			return err
		}
		ins, err := it.inputs(fr, args, 0)
		if err != nil {
			return err
		}
		it.put(fr, ins...)
		return nil
	case "compact":
		if err := arity(0, 1); err != nil {
			return err
		}
		ins, err := it.inputs(fr, args, 0)
		if err != nil {
			return err
		}
		for i, v := range ins {
			if i > 0 && c15Eq(ins[i-1], v) {
				continue
			}
			it.put(fr, v)
		}
		return nil
	case "keep-if":
		if err := arity(1, 2); err != nil {
			return err
		}
		f, err := callable(args[0])
		if err != nil {
			return err
		}
		piped := len(args) < 2
		ins, err := it.inputs(fr, args, 1)
		if err != nil {
			return err
		}
		if piped {
			fr.in.busy = true
			defer func() { fr.in.busy = false }()
		}
		for _, v := range ins {
			var buf []c15V
			if err := it.call(&c15Frame{sc: fr.sc, out: &buf, in: fr.in}, f, []c15V{v}, nil); err != nil {
				if err.kind == "flow" {
					panic(c15Unspec{"flow command out of a keep-if predicate"})
				}
				return err
			}
			if len(buf) != 1 {
				return &c15Err{kind: "arity", s: "callback outputs", lo: 1, hi: 1, n: len(buf)}
			}
			b, ok := buf[0].(bool)
			if !ok {
				return &c15Err{kind: "badvalue", s: "callback output"}
			}
			if b {
				it.put(fr, v)
			}
		}
		return nil
	case "order":
		return it.order(fr, args, opts)
	}
	panic(c15Unspec{"command " + name + " is not in the core"})
}

// c15Compare is the documented comparator of "compare" / "order".
func c15Compare(a, b c15V) (int, bool) {
	ka, kb := c15Kind(a), c15Kind(b)
	if ka == kb {
		switch x := a.(type) {
		case bool:
			y := b.(bool)
			switch {
			case x == y:
				return 0, true
			case !x:
				return -1, true
			}
			return 1, true
		case *big.Int:
			return x.Cmp(b.(*big.Int)), true
		case string:
			return strings.Compare(x, b.(string)), true
		case *c15LV:
			y := b.(*c15LV)
			for i := 0; i < len(x.e) && i < len(y.e); i++ {
				c, ok := c15Compare(x.e[i], y.e[i])
				if !ok {
					return 0, false
				}
				if c != 0 {
					return c, true
				}
			}
			switch {
			case len(x.e) < len(y.e):
				return -1, true
			case len(x.e) > len(y.e):
				return 1, true
			}
			return 0, true
		}
	}
	if ka == "exc" || kb == "exc" || ka == "ok" || kb == "ok" || ka == "reason" || kb == "reason" {
		panic(c15Unspec{"ordering exceptions"})
	}
	if c15Eq(a, b) {
		return 0, true
	}
	return 0, false
}

func (it *c15Interp) order(fr *c15Frame, args []c15V, opts []c15Opt) *c15Err {
	if err := c15Arity("arguments", 0, 1, len(args)); err != nil {
		return err
	}
	reverse := false
	var keyFn *c15Clo
	for _, o := range opts {
		switch o.name {
		case "reverse":
			reverse = c15Bool(o.v)
			if _, isBool := o.v.(bool); !isBool {
				panic(c15Unspec{"non-boolean &reverse"})
			}
		case "key":
			c, ok := o.v.(*c15Clo)
			if !ok {
				panic(c15Unspec{"&key that is not a function"})
			}
			keyFn = c
		case "less-than", "total":
			panic(c15Unspec{"order &" + o.name})
		default:
			return &c15Err{kind: "unsupportedopt"}
		}
	}
	ins, err := it.inputs(fr, args, 0)
	if err != nil {
		return err
	}
	keys := ins
	if keyFn != nil {
		keys = make([]c15V, len(ins))
		for i, v := range ins {
			var buf []c15V
			if err := it.call(&c15Frame{sc: fr.sc, out: &buf, in: &c15In{}}, keyFn, []c15V{v}, nil); err != nil {
				if err.kind == "flow" {
					panic(c15Unspec{"flow command out of an order key function"})
				}
				return err
			}
			if len(buf) != 1 {
				panic(c15Unspec{"order key function with other than one output"})
			}
			keys[i] = buf[0]
		}
	}
	// Comparability. If every pair is comparable the result is determined. If the
	// keys are scalars of at least two different kinds every sorting procedure
	// has to compare two values of different kinds, so the exception is certain.
	// Anything else depends on which pairs the implementation happens to compare.
	allOK, flat := true, true
	kinds := map[string]bool{}
	for i := range keys {
		switch k := c15Kind(keys[i]); k {
		case "str", "num", "bool", "nil":
			kinds[k] = true
		default:
			flat = false
		}
		for j := i + 1; j < len(keys); j++ {
			if _, ok := c15Compare(keys[i], keys[j]); !ok {
				allOK = false
			}
		}
	}
	if !allOK {
		if flat && len(kinds) >= 2 {
			return &c15Err{kind: "badvalue", s: "order inputs"}
		}
		panic(c15Unspec{"order of partly comparable values"})
	}
	idx := make([]int, len(ins))
	for i := range idx {
		idx[i] = i
	}
	sort.SliceStable(idx, func(a, b int) bool {
		c, _ := c15Compare(keys[idx[a]], keys[idx[b]])
		return c < 0
	})
	if reverse {
		cc := &c15CanonCtx{}
		for i := 0; i+1 < len(idx); i++ {
			if c, _ := c15Compare(keys[idx[i]], keys[idx[i+1]]); c == 0 && cc.val(ins[idx[i]]) != cc.val(ins[idx[i+1]]) {
				panic(c15Unspec{"&reverse with distinguishable equal elements"})
			}
		}
		for i, j := 0, len(idx)-1; i < j; i, j = i+1, j-1 {
			idx[i], idx[j] = idx[j], idx[i]
		}
	}
	for _, i := range idx {
		it.put(fr, ins[i])
	}
	return nil
}
