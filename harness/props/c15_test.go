package props

// C15 Core language programs evaluate as the language reference specifies.
//
// A case is a core-language AST (c15_ast_test.go). It is pretty-printed to
// Elvish source and evaluated in-process; the same AST is run by the reference
// interpreter (c15_interp_test.go, written from language.md and the builtin
// docs). Compared: the sequence of values written to the value output, and the
// cause signature of the exception the program ends with.

import (
	"context"
	"fmt"
	"math/big"
	"sort"
	"strconv"
	"strings"
	"sync"
	"time"

	"pgregory.net/rapid"
	"src.elv.sh/pkg/eval"
	"src.elv.sh/pkg/eval/errs"
	"src.elv.sh/pkg/eval/vals"
	"verif/elv"
	"verif/vs"
)

type c15Case struct {
	Prog []c15N `json:"prog"`
}

// ---- observing Elvish -------------------------------------------------------------------

type c15ElvCanon struct{ clo map[*eval.Closure]int }

func (ec *c15ElvCanon) val(v any) string {
	switch x := v.(type) {
	case nil:
		return "nil"
	case bool:
		if x {
			return "true"
		}
		return "false"
	case string:
		return "s" + strconv.Quote(x)
	case int:
		return "n" + strconv.Itoa(x)
	case *big.Int:
		return "n" + x.String()
	case *big.Rat:
		return "rat" + x.String()
	case float64:
		return "float" + strconv.FormatFloat(x, 'g', -1, 64)
	case vals.List:
		var parts []string
		for it := x.Iterator(); it.HasElem(); it.Next() {
			parts = append(parts, ec.val(it.Elem()))
		}
		return "[" + strings.Join(parts, " ") + "]"
	case vals.Map:
		var keys []string
		var values []any
		for it := x.Iterator(); it.HasElem(); it.Next() {
			k, v := it.Elem()
			keys = append(keys, ec.val(k))
			values = append(values, v)
		}
		order := make([]int, len(keys))
		for i := range order {
			order[i] = i
		}
		sort.Slice(order, func(a, b int) bool { return keys[order[a]] < keys[order[b]] })
		parts := make([]string, len(keys))
		for j, i := range order {
			parts[j] = keys[i] + "=" + ec.val(values[i])
		}
		return "{" + strings.Join(parts, " ") + "}"
	case *eval.Closure:
		if ec.clo == nil {
			ec.clo = map[*eval.Closure]int{}
		}
		id, ok := ec.clo[x]
		if !ok {
			id = len(ec.clo) + 1
			ec.clo[x] = id
		}
		return fmt.Sprintf("<fn%d>", id)
	case eval.Exception:
		if x.Reason() == nil {
			return "ok"
		}
		return "exc(" + ec.reason(x.Reason()) + ")"
	case error:
		return "reason(" + ec.reason(x) + ")"
	}
	return fmt.Sprintf("<%T>", v)
}

// reason maps the reason of an Elvish exception to the cause signature.
func (ec *c15ElvCanon) reason(r error) string {
	switch x := r.(type) {
	case eval.FailError:
		return "fail:" + ec.val(x.Content)
	case eval.Flow:
		return "flow:" + x.Error()
	case errs.ArityMismatch:
		what := x.What
		switch what {
		case "assignment right-hand-side":
			what = "rhs"
		case "number of callback outputs":
			what = "callback outputs"
		}
		return fmt.Sprintf("arity:%s:%d:%d:%d", what, x.ValidLow, x.ValidHigh, x.Actual)
	case errs.BadValue:
		what := x.What
		if strings.Contains(what, `"order"`) {
			what = "order inputs"
		}
		return "badvalue:" + what
	case errs.OutOfRange:
		return "outofrange"
	case eval.WrongArgType:
		return "argtype"
	case eval.UnsupportedOptionsError:
		return "unsupportedopt"
	case eval.PipelineError:
		var parts []string
		for _, e := range x.Errors {
			parts = append(parts, ec.reason(e.Reason()))
		}
		sort.Strings(parts)
		return "pipeline(" + strings.Join(parts, " | ") + ")"
	}
	msg := r.Error()
	switch {
	case strings.HasPrefix(msg, "no such key"):
		return "nosuchkey"
	case msg == "not indexable":
		return "notindexable"
	case msg == "index must be integer":
		return "badindex"
	case strings.HasPrefix(msg, "cannot concatenate"):
		return "concat"
	case strings.HasPrefix(msg, "cannot iterate") || strings.HasSuffix(msg, "cannot be iterated"):
		return "iterate"
	}
	return fmt.Sprintf("other:%T:%s", r, msg)
}

var (
	c15EvalerOnce sync.Once
	c15Evaler     *eval.Evaler
)

func c15RunElvish(src string) (values []string, errSig string, note string) {
	ctx, cancel := context.WithTimeout(context.Background(), 20*time.Second)
	defer cancel()
	// One shared Evaler; every program gets a fresh, empty global namespace, so
	// nothing a core-language program can do is visible to the next one.
	c15EvalerOnce.Do(func() { c15Evaler = elv.New() })
	r := elv.RunCtx(c15Evaler, src, ctx, eval.BuildNs().Ns())
	ec := &c15ElvCanon{}
	for _, v := range r.Values {
		values = append(values, ec.val(v))
	}
	if len(r.Bytes) > 0 {
		note = fmt.Sprintf("byte output %q", r.Bytes)
	}
	if r.Err != nil {
		if re := elv.Reason(r.Err); re != nil {
			errSig = ec.reason(re)
		} else {
			errSig = "rejected: " + r.Err.Error()
		}
	}
	return
}

// ---- the oracle -------------------------------------------------------------------------

func c15Excluded(why string) string {
	if i := strings.IndexByte(why, ':'); i >= 0 {
		why = why[:i]
	}
	if strings.HasPrefix(why, "variable $") {
		why = "undeclared variable"
	}
	return why
}

func c15Check(c c15Case) error {
	ref := c15RunRef(c.Prog)
	if ref.Unspec != "" {
		vs.Excluded("outside the specified core: " + c15Excluded(ref.Unspec))
		return nil
	}
	if ref.Over != "" {
		vs.Excluded("budget: " + ref.Over)
		return nil
	}
	src := c15Print(c.Prog)
	values, errSig, note := c15RunElvish(src)
	if note != "" {
		return fmt.Errorf("expected no byte output, Elvish wrote %s\nprogram:\n%s", note, src)
	}
	if errSig != ref.Err {
		return fmt.Errorf("exception: reference %s, Elvish %s (values: reference %v, Elvish %v)\nprogram:\n%s",
			c15OrNone(ref.Err), c15OrNone(errSig), ref.Values, values, src)
	}
	if len(values) != len(ref.Values) {
		return fmt.Errorf("value output: reference %d values %v, Elvish %d values %v (exception %s)\nprogram:\n%s",
			len(ref.Values), ref.Values, len(values), values, c15OrNone(errSig), src)
	}
	for i := range values {
		if values[i] != ref.Values[i] {
			return fmt.Errorf("value output #%d: reference %s, Elvish %s (all: reference %v, Elvish %v)\nprogram:\n%s",
				i, ref.Values[i], values[i], ref.Values, values, src)
		}
	}
	return nil
}

func c15OrNone(s string) string {
	if s == "" {
		return "none"
	}
	return s
}

// ---- classification ---------------------------------------------------------------------

// c15ConstructKind maps a node to the construct kind counted for nesting.
func c15ConstructKind(n c15N) string {
	switch n.K {
	case "if", "while", "for", "try", "fn", "pipe", "cap", "exc", "lam", "idx", "cat", "brace", "list", "map", "call":
		return n.K
	case "and", "or", "coalesce":
		return "logic"
	case "vardecl", "set":
		return "assign"
	case "cmd":
		switch n.S {
		case "put", "nop":
			return ""
		case "fail", "break", "continue", "return":
			return "flow"
		case "+", "-", "*", "<", "==", "eq", "not":
			return "arith"
		case "range", "each", "take", "drop", "count", "all", "compact", "order", "keep-if":
			return "stream"
		}
		return "call"
	}
	return ""
}

// c15Nesting returns the largest number of distinct construct kinds on a
// root-to-leaf path, and the set of all kinds used.
func c15Nesting(prog []c15N) (int, map[string]bool) {
	all := map[string]bool{}
	best := 0
	var walk func(n c15N, path map[string]int, distinct int)
	walk = func(n c15N, path map[string]int, distinct int) {
		k := c15ConstructKind(n)
		if k != "" {
			all[k] = true
			path[k]++
			if path[k] == 1 {
				distinct++
			}
		}
		if distinct > best {
			best = distinct
		}
		for _, l := range [][]c15N{n.A, n.B, n.C, n.D} {
			for _, ch := range l {
				walk(ch, path, distinct)
			}
		}
		if k != "" {
			path[k]--
		}
	}
	for _, f := range prog {
		walk(f, map[string]int{}, 0)
	}
	return best, all
}

func c15Class(c c15Case) (string, bool) {
	nest, _ := c15Nesting(c.Prog)
	ref := c15RunRef(c.Prog)
	var outcome string
	switch {
	case ref.Unspec != "":
		return "excluded/unspecified", false
	case ref.Over != "":
		return "excluded/budget", false
	case ref.Err == "":
		outcome = "completes"
	default:
		outcome = "throws-" + strings.SplitN(ref.Err, ":", 2)[0]
	}
	if len(ref.Values) == 0 && ref.Err == "" {
		outcome = "silent"
	}
	if nest >= 3 {
		return "nest>=3/" + outcome, true
	}
	return "nest<3/" + outcome, false
}

// ---- registration -----------------------------------------------------------------------

func init() {
	vs.Register(vs.Prop[c15Case]{
		Name: "C15/programs",
		Rule: "type-directed random core-language ASTs (depth <= 6, loops bounded by literal limits <= 5, <= 160 nodes) over var/set (multi, rest, element), scoping and shadowing, closures and upvalues, fn with positional/rest/optional arguments, recursion, compounding and braced lists, list/map literals, indexing and slices, + - * < == eq not, if/elif/else, while, for (+else), try/catch/else/finally, fail, break/continue/return, and/or/coalesce, () and ?() captures, pipelines of put range each take drop count all compact order keep-if; deliberate errors with small probability; programs the reference interpreter finds outside the specified core (schedule-dependent pipelines, undocumented corners) are excluded and counted; non-trivial = some root-to-leaf path nests >= 3 distinct construct kinds and the program is compared",
		Gen: func(t *rapid.T) c15Case {
			return c15Case{Prog: c15GenProg(t)}
		},
		Check:    c15Check,
		Class:    c15Class,
		Quick:    2000,
		Thorough: 50000,
		Timeout:  60 * time.Second,
	})
}
