package props

// C16 Code with static errors never runs, and the static check agrees.
//
// C16/inprocess: a case is a sequence of 1-4 generated programs evaluated one
// after the other on one Evaler (so later programs are compiled in a context
// that depends on which earlier programs were accepted). Programs are trees of
// statements with observable effects (value output, byte output on stdout and
// stderr, a harness command that records its calls, assignment to existing
// globals and to an element of one, assignment to an environment variable,
// declaration / shadowing / deletion of globals, fn, use) nested in lambdas,
// fn bodies, if, for, try, output captures, pipelines, with and tmp. Into most
// programs one statement with a static error is injected at a random position
// and depth: parse errors (unterminated quote / bracket / brace, stray closer,
// bad redirection, empty variable name, dangling pipe) and compilation errors
// (undefined variable, set of an undeclared or read-only variable, malformed
// if / for / while / try / fn / use / del / with / var / pragma, tmp outside a
// function, duplicate parameter, unknown command under the strict pragma).
// References to the globals n0..n5 / functions f0..f3 of earlier programs make
// further programs erroneous or valid depending on the context.
//
// Oracle (no model of *which* programs are erroneous is needed):
//   1. Evaler.Check is run first; it must not change anything observable.
//   2. Eval returns a parse or compilation error  <=>  Check reported one.
//   3. If Eval returned a parse or compilation error: no value and no byte was
//      output, stderr holds no byte produced by the program, the harness
//      command was never called, the environment variable is unchanged, and the
//      global namespace has exactly the same names, bound to the same variable
//      objects holding the same values as before.
//
// C16/cli does the same through the command-line entry point in a child
// process: `elvish -compileonly -c code` exits with status 2 exactly when
// in-process evaluation reports a static error and never writes to stdout
// (nothing runs, even if the program is valid); with -json the error list is
// non-empty exactly then; `elvish -c code` with a static error exits with 2
// and produces no output of the program.

import (
	"bytes"
	"encoding/json"
	"fmt"
	"os"
	"os/exec"
	"sort"
	"strconv"
	"strings"
	"time"

	"pgregory.net/rapid"
	"src.elv.sh/pkg/eval"
	"src.elv.sh/pkg/eval/vals"
	"src.elv.sh/pkg/eval/vars"
	"src.elv.sh/pkg/parse"
	"src.elv.sh/pkg/prog"
	"src.elv.sh/pkg/shell"
	"verif/elv"
	"verif/vs"
)

// ---- programs ---------------------------------------------------------------------

type c16Stmt struct {
	K    string    `json:"k"`
	ID   int       `json:"id"`
	Ref  int       `json:"ref,omitempty"`
	Bad  int       `json:"bad,omitempty"` // K == "bad": index into c16Bad
	Body []c16Stmt `json:"body,omitempty"`
}

type c16Prog struct {
	Stmts []c16Stmt `json:"stmts"`
	Semi  bool      `json:"semi,omitempty"` // statements separated by "; " instead of newlines
}

type c16Case struct {
	Steps []c16Prog `json:"steps"`
}

// c16Bad are statements with a static error; %d is replaced by the statement id.
var c16Bad = []string{
	// parse errors
	"put 'MK%d",               // unterminated single quote (swallows the rest)
	"put \"MK%d",              // unterminated double quote
	"put [MK%d a",             // unterminated list
	"put (echo MK%d",          // unterminated output capture
	"put MK%d )",              // stray )
	"put MK%d ]",              // stray ]
	"}",                       // stray } (inside a block it closes the block early, a later } is stray)
	"echo MK%d >",             // redirection without target
	"echo MK%d >>> /dev/null", // bad redirection sign
	"put $",                   // empty variable name
	"put MK%d | ",             // dangling pipe (with "; " separators: `| ;`)
	"put [&k%d",               // unterminated map
	"put {",                   // unterminated lambda
	// compilation errors
	"put $undefined%d",
	"set undeclared%d = MK%d",
	"set pid = MK%d", // read-only builtin variable
	"set nil = MK%d",
	"if $true", // missing body
	"for x%d",  // missing iterable and body
	"while",
	"try { put MK%d }",                      // neither catch nor finally
	"try { put MK%d } else { } finally { }", // else without catch
	"fn g%d",                                // missing body
	"use",
	"del $probe", // must omit the dollar sign
	"del nosuch%d",
	"with probe = MK%d",         // last argument must be a lambda
	"var q%d[0] = MK%d",         // new variable with indices
	"var a:b%d = MK%d",          // qualified new variable
	"var @r%d @s%d = MK%d",      // two rest variables
	"set $probe = MK%d",         // lvalue must be a literal name
	"put {|a%d a%d| put MK%d }", // duplicate parameter
	"put {|&o%d| put MK%d }",    // option without default
	"pragma nosuch%d = x",
	"pragma unknown-command = maybe",
	"set probe",           // need = and right-hand side
	"put $probe:x%d",      // $probe is not a namespace ... resolved statically? (either way)
	"tmp probe = MK%d",    // static error at top level only; valid inside a function
	"c16undefined%d MK%d", // static error only under `pragma unknown-command = disallow`
	// names in modules that are available but (unless an earlier program did
	// `use`) not imported: a command head is an external command under the
	// default pragma, a variable / function value / lvalue is a static error
	"math:c16f%d MK%d; put $math:pi",
	"put $re:x%d",
	"re:c16g%d MK%d; set re:y%d = MK%d",
	"str:c16h%d MK%d; put $str:join~",
	"put $math:e; math:c16k%d MK%d",
	"path:c16p%d MK%d; nop $path:x%d $path:y%d",
}

func c16Names(ref, n int, prefix string) string {
	if ref < 0 {
		ref = -ref
	}
	return prefix + strconv.Itoa(ref%n)
}

// c16Render renders statements. cli: no harness command is available.
func c16Render(stmts []c16Stmt, sep string, cli bool) string {
	return c16RenderIn(stmts, sep, cli, false)
}

// inFn: inside the body of an fn function, where calls of f0..f3 are left out
// (they could recurse without end).
func c16RenderIn(stmts []c16Stmt, sep string, cli, inFn bool) string {
	var parts []string
	for _, s := range stmts {
		id := strconv.Itoa(s.ID)
		mk := "MK" + id
		body := func() string {
			if len(s.Body) == 0 {
				return "{ }"
			}
			return "{ " + c16RenderIn(s.Body, sep, cli, inFn || s.K == "fn") + " }"
		}
		var t string
		switch s.K {
		case "put":
			t = "put " + mk
		case "echo":
			t = "echo " + mk
		case "print":
			t = "print " + mk
		case "eecho":
			t = "echo " + mk + " >&2"
		case "touch":
			if cli {
				t = "echo MKT" + id
			} else {
				t = "c16-touch " + id
			}
		case "setprobe":
			t = "set probe = " + mk
		case "setelem":
			t = "set plist[0] = " + mk
		case "setenv":
			t = "set E:C16_PROBE = " + mk
		case "var":
			t = "var " + c16Names(s.Ref, 6, "n") + " = " + mk
		case "varprobe":
			t = "var probe = " + mk
		case "useref":
			t = "put $" + c16Names(s.Ref, 6, "n")
		case "setref":
			t = "set " + c16Names(s.Ref, 6, "n") + " = " + mk
		case "del":
			t = "del " + c16Names(s.Ref, 6, "n")
		case "fn":
			t = "fn " + c16Names(s.Ref, 4, "f") + " " + body()
		case "callfn":
			t = c16Names(s.Ref, 4, "f")
			if inFn {
				t = "nop"
			}
		case "usemod":
			t = "use str"
		case "modcall":
			t = "put (str:to-upper " + mk + ")"
		case "if":
			t = "if $true " + body()
		case "for":
			t = "for x" + id + " [a b] " + body()
		case "lambda":
			t = body()
		case "lamvar":
			t = "var c" + strconv.Itoa(s.Ref%3) + " = " + body()
		case "try":
			t = "try " + body() + " catch e" + id + " { put " + mk + " }"
		case "capture":
			t = "put [(" + body() + ")]"
		case "pipe":
			t = "put " + mk + " | each {|x" + id + "| " + c16RenderIn(s.Body, sep, cli, inFn) + " }"
		case "with":
			t = "with probe = " + mk + " " + body()
		case "tmpfn":
			t = "{ tmp probe = " + mk + sep + c16RenderIn(s.Body, sep, cli, inFn) + " }"
		case "fail":
			t = "fail " + mk
		case "unknown":
			t = "c16nocmd" + id + " a"
		case "pragma":
			t = "pragma unknown-command = disallow"
		case "rawbyte":
			// bytes that are not valid UTF-8, inside a string and a comment
			t = "nop 'x\xffy' \"\xc3\" # \x80\xfe"
		case "nop":
			t = "nop"
		case "bad":
			t = strings.ReplaceAll(c16Bad[((s.Bad%len(c16Bad))+len(c16Bad))%len(c16Bad)], "%d", id)
		default:
			panic("unknown statement kind " + s.K)
		}
		parts = append(parts, t)
	}
	return strings.Join(parts, sep)
}

func (p c16Prog) source(cli bool) string {
	sep := "\n"
	if p.Semi {
		sep = "; "
	}
	return c16Render(p.Stmts, sep, cli)
}

// c16HasRefs: the program refers to names that earlier programs may or may not have declared.
func c16HasRefs(stmts []c16Stmt) bool {
	for _, s := range stmts {
		switch s.K {
		case "useref", "setref", "del", "modcall":
			return true
		}
		if c16HasRefs(s.Body) {
			return true
		}
	}
	return false
}

func c16HasBad(stmts []c16Stmt) bool {
	for _, s := range stmts {
		if s.K == "bad" || c16HasBad(s.Body) {
			return true
		}
	}
	return false
}

// effects: does any statement before the first bad one (in source order) have an effect?
func c16EffectsBeforeBad(stmts []c16Stmt) (effects int, found bool) {
	for _, s := range stmts {
		if s.K == "bad" {
			return effects, true
		}
		switch s.K {
		case "put", "echo", "print", "eecho", "touch", "setprobe", "setelem", "setenv", "var", "varprobe", "del", "fn":
			effects++
		}
		e, f := c16EffectsBeforeBad(s.Body)
		effects += e
		if f {
			return effects, true
		}
	}
	return effects, false
}

// ---- observation -------------------------------------------------------------------

type c16Binding struct {
	v   vars.Var
	val any
}

type c16Snap struct {
	names   []string
	bind    map[string]c16Binding
	env     string
	envSet  bool
	touches int
	probes  string // verdicts of the static check on fixed probe programs
}

// c16Probes are fixed programs whose static verdict depends only on the
// context a fresh chunk starts in (default pragmas, builtins, the global names
// that are compared separately): code that did not compile, or was only
// checked, must not change any of them.
var c16Probes = []string{"c16-probe-unknown-command a", "{ c16-probe-unknown-command }", "put $c16-probe-undefined", "use str", "c16-probe-unknown-command | nop"}

func c16Snapshot(ev *eval.Evaler, touches int) c16Snap {
	s := c16Snap{bind: map[string]c16Binding{}, touches: touches}
	g := ev.Global()
	g.IterateKeysString(func(name string) {
		s.names = append(s.names, name)
		v := g.IndexString(name)
		var val any
		if v != nil {
			val = v.Get()
		}
		s.bind[name] = c16Binding{v, val}
	})
	sort.Strings(s.names)
	s.env, s.envSet = os.LookupEnv("C16_PROBE")
	for _, p := range c16Probes {
		perr, _, cerr := ev.Check(parse.Source{Name: "[probe]", Code: p}, nil)
		s.probes += fmt.Sprintf("%q: parse error %v, compilation error %v\n", p, perr, cerr)
	}
	return s
}

func c16Diff(before, after c16Snap) error {
	if before.touches != after.touches {
		return fmt.Errorf("the harness command c16-touch was called %d time(s)", after.touches-before.touches)
	}
	if before.env != after.env || before.envSet != after.envSet {
		return fmt.Errorf("environment variable C16_PROBE changed from %q to %q", before.env, after.env)
	}
	if before.probes != after.probes {
		return fmt.Errorf("the static check of fixed probe programs gives a different result:\n  before: %s  after:  %s", before.probes, after.probes)
	}
	if strings.Join(before.names, " ") != strings.Join(after.names, " ") {
		return fmt.Errorf("names in the global namespace changed:\n  before: %v\n  after:  %v", before.names, after.names)
	}
	for _, n := range before.names {
		b, a := before.bind[n], after.bind[n]
		if b.v != a.v {
			return fmt.Errorf("global $%s is bound to a different variable object", n)
		}
		if !vals.Equal(b.val, a.val) {
			return fmt.Errorf("global $%s changed from %s to %s", n, vals.ReprPlain(b.val), vals.ReprPlain(a.val))
		}
	}
	return nil
}

func c16Static(err error) bool {
	return elv.IsParseError(err) || elv.IsCompileError(err)
}

const c16Prelude = "var probe = p0; var plist = [a b]"

type c16Info struct {
	static, valid, exception int
	staticWithEffects        int
	contextDependent         int // program without injected error that is a static error (depends on earlier steps), or the reverse
}

func c16CheckCase(c c16Case, info *c16Info) error {
	ev := elv.New()
	touches := 0
	elv.AddGoFns(ev, map[string]any{"c16-touch": func(int) { touches++ }})
	os.Setenv("C16_PROBE", "e0")
	defer os.Unsetenv("C16_PROBE")
	if r := elv.Run(ev, c16Prelude); r.Err != nil {
		return fmt.Errorf("prelude: %v", r.Err)
	}
	for i, p := range c.Steps {
		code := p.source(false)
		what := fmt.Sprintf("step %d, program %q", i, code)
		before := c16Snapshot(ev, touches)
		parseErr, _, compileErr := ev.Check(parse.Source{Name: "[verif]", Code: code}, nil)
		if err := c16Diff(before, c16Snapshot(ev, touches)); err != nil {
			return fmt.Errorf("%s: Evaler.Check (the static check) changed the interpreter: %v", what, err)
		}
		r := elv.Run(ev, code)
		static := c16Static(r.Err)
		checkSays := parseErr != nil || compileErr != nil
		if static != checkSays {
			return fmt.Errorf("%s: Eval reports %v, but Check reports parse error %v, compilation error %v", what, r.Err, parseErr, compileErr)
		}
		hasBad := c16HasBad(p.Stmts)
		switch {
		case static:
			info.static++
			if n, _ := c16EffectsBeforeBad(p.Stmts); n > 0 {
				info.staticWithEffects++
			}
			if !hasBad {
				info.contextDependent++
			}
		case r.Err != nil:
			info.exception++
		default:
			info.valid++
		}
		if !static {
			continue
		}
		if len(r.Values) > 0 {
			return fmt.Errorf("%s: Eval reported %v, but the code produced value output %s", what, r.Err, elv.Reprs(r.Values))
		}
		if len(r.Bytes) > 0 {
			return fmt.Errorf("%s: Eval reported %v, but the code produced byte output %q", what, r.Err, r.Bytes)
		}
		// (compile-time deprecation warnings may quote the source)
		if bytes.Contains(r.ErrOut, []byte("MK")) && !bytes.Contains(r.ErrOut, []byte("deprecat")) {
			return fmt.Errorf("%s: Eval reported %v, but the code wrote %q to stderr", what, r.Err, r.ErrOut)
		}
		if err := c16Diff(before, c16Snapshot(ev, touches)); err != nil {
			return fmt.Errorf("%s: Eval reported %v, but part of the code ran: %v", what, r.Err, err)
		}
	}
	return nil
}

// ---- generator ---------------------------------------------------------------------

var c16Kinds = []string{
	"put", "put", "echo", "echo", "print", "eecho", "touch", "touch", "touch", "setprobe", "setprobe", "setelem", "setenv",
	"var", "var", "var", "varprobe", "useref", "useref", "setref", "del", "fn", "fn", "callfn", "usemod", "modcall",
	"if", "for", "lambda", "lamvar", "try", "capture", "pipe", "with", "tmpfn", "fail", "unknown", "pragma", "nop", "rawbyte",
}

var c16Blocks = map[string]bool{"fn": true, "if": true, "for": true, "lambda": true, "lamvar": true, "try": true, "capture": true, "pipe": true, "with": true, "tmpfn": true}

func c16GenStmts(t *rapid.T, depth int, nextID *int, min, max int) []c16Stmt {
	n := rapid.IntRange(min, max).Draw(t, "nstmts")
	var out []c16Stmt
	for i := 0; i < n; i++ {
		*nextID++
		s := c16Stmt{K: rapid.SampledFrom(c16Kinds).Draw(t, "kind"), ID: *nextID, Ref: rapid.IntRange(0, 11).Draw(t, "ref")}
		if c16Blocks[s.K] {
			if depth <= 0 {
				s.K = "put"
			} else {
				s.Body = c16GenStmts(t, depth-1, nextID, 0, 3)
			}
		}
		out = append(out, s)
	}
	return out
}

// c16Count counts insertion points (one after each statement and one at the
// start of each block); c16Insert inserts at the k-th.
func c16Count(stmts []c16Stmt) int {
	n := 1
	for _, s := range stmts {
		if c16Blocks[s.K] {
			n += c16Count(s.Body)
		}
		n++
	}
	return n
}

func c16Insert(stmts []c16Stmt, k int, bad c16Stmt) ([]c16Stmt, int) {
	if k == 0 {
		return append([]c16Stmt{bad}, stmts...), -1
	}
	k--
	for i := range stmts {
		if c16Blocks[stmts[i].K] {
			var nb []c16Stmt
			nb, k = c16Insert(stmts[i].Body, k, bad)
			if k < 0 {
				out := append([]c16Stmt(nil), stmts...)
				out[i].Body = nb
				return out, -1
			}
		}
		if k == 0 {
			out := append([]c16Stmt(nil), stmts[:i+1]...)
			out = append(out, bad)
			return append(out, stmts[i+1:]...), -1
		}
		k--
	}
	return stmts, k
}

func c16GenProg(t *rapid.T, nextID *int, forceBad bool) c16Prog {
	p := c16Prog{Semi: rapid.IntRange(0, 3).Draw(t, "semi") == 0}
	p.Stmts = c16GenStmts(t, rapid.IntRange(0, 3).Draw(t, "depth"), nextID, 1, 6)
	nbad := rapid.SampledFrom([]int{0, 0, 1, 1, 1, 1, 1, 2}).Draw(t, "nbad")
	if forceBad && nbad == 0 {
		nbad = 1
	}
	for i := 0; i < nbad; i++ {
		*nextID++
		bad := c16Stmt{K: "bad", ID: *nextID, Bad: rapid.IntRange(0, len(c16Bad)-1).Draw(t, "bad")}
		// bias to late positions: the error comes after code with effects
		total := c16Count(p.Stmts)
		k := rapid.IntRange(0, total-1).Draw(t, "pos")
		if k2 := rapid.IntRange(0, total-1).Draw(t, "pos2"); k2 > k {
			k = k2
		}
		p.Stmts, _ = c16Insert(p.Stmts, k, bad)
	}
	return p
}

func c16Gen(t *rapid.T) c16Case {
	id := 0
	n := rapid.IntRange(1, 4).Draw(t, "nsteps")
	var c c16Case
	for i := 0; i < n; i++ {
		c.Steps = append(c.Steps, c16GenProg(t, &id, false))
	}
	if rapid.IntRange(0, 3).Draw(t, "toppragma") == 0 {
		// a strict pragma at the top level of one program, and a bare unknown
		// command somewhere in the same or a later program: the pragma governs
		// the rest of its own chunk and nothing else
		insert := func(step int, st c16Stmt) {
			ss := c.Steps[step].Stmts
			k := rapid.IntRange(0, len(ss)).Draw(t, "at")
			out := append([]c16Stmt(nil), ss[:k]...)
			out = append(out, st)
			c.Steps[step].Stmts = append(out, ss[k:]...)
		}
		i := rapid.IntRange(0, n-1).Draw(t, "pragmastep")
		j := rapid.IntRange(i, n-1).Draw(t, "unknownstep")
		id++
		insert(i, c16Stmt{K: "pragma", ID: id})
		id++
		insert(j, c16Stmt{K: "unknown", ID: id})
	}
	return c
}

func init() {
	vs.Register(vs.Prop[c16Case]{
		Name:  "C16/inprocess",
		Rule:  "1-4 programs evaluated in sequence on one Evaler; each program is a tree (depth<=3) of statements with effects (put, echo, print, echo >&2, harness command, set of a global / list element / env variable, var of new and existing names, del, fn, use) inside lambdas, fn bodies, if, for, try, captures, pipelines, with, tmp; 3 of 4 programs get one or two statements with a static error (13 kinds of parse error, 26 kinds of compilation error) inserted at a random position biased to the end; references to names declared by earlier programs make validity depend on the context; before each Eval the static check is run; non-trivial = at least one program of the case was rejected by Eval with a static error although code with effects precedes the error, or its static validity depends on the context",
		Gen:   c16Gen,
		Check: func(c c16Case) error { return c16CheckCase(c, &c16Info{}) },
		Class: func(c c16Case) (string, bool) {
			afterEffects, first, clean, refs := 0, 0, 0, 0
			for _, p := range c.Steps {
				n, found := c16EffectsBeforeBad(p.Stmts)
				switch {
				case found && n > 0:
					afterEffects++
				case found:
					first++
				default:
					clean++
					if c16HasRefs(p.Stmts) {
						refs++
					}
				}
			}
			switch {
			case afterEffects > 0 && clean > 0:
				return "injected-error-after-effects+programs-without-injected-error", true
			case afterEffects > 0:
				return "injected-error-after-effects", true
			case refs > 0:
				return "validity-depends-on-context", true
			case first > 0:
				return "injected-error-without-preceding-effects", false
			}
			return "no-injected-error", false
		},
		Quick: 2500, Thorough: 25000,
		Timeout: 30 * time.Second,
	})
}

// ---- C16/cli ---------------------------------------------------------------------------

type c16CliCase struct {
	Prog c16Prog `json:"prog"`
}

// c16CliResult is the outcome of one command-line invocation.
type c16CliResult struct {
	Stdout vs.B `json:"stdout"`
	Stderr vs.B `json:"stderr"`
	Code   int  `json:"code"`
}

// c16Worker runs in the child process: every invocation listed in
// $VERIF_C16_ARGS goes through the command-line entry point (prog.Run with the
// shell program, as cmd/elvish does) with files as stdout / stderr; the
// outcomes are written to the real stdout as JSON.
func c16Worker() int {
	var invocations [][]string
	if err := json.Unmarshal([]byte(os.Getenv("VERIF_C16_ARGS")), &invocations); err != nil {
		fmt.Fprintln(os.Stderr, "bad VERIF_C16_ARGS:", err)
		return 99
	}
	var results []c16CliResult
	for i, args := range invocations {
		outName, errName := fmt.Sprintf("out%d", i), fmt.Sprintf("err%d", i)
		out, err1 := os.Create(outName)
		errf, err2 := os.Create(errName)
		if err1 != nil || err2 != nil {
			fmt.Fprintln(os.Stderr, "cannot create output files:", err1, err2)
			return 98
		}
		code := prog.Run([3]*os.File{os.Stdin, out, errf}, append([]string{"elvish"}, args...), &shell.Program{})
		out.Close()
		errf.Close()
		o, _ := os.ReadFile(outName)
		e, _ := os.ReadFile(errName)
		results = append(results, c16CliResult{vs.B(o), vs.B(e), code})
	}
	b, _ := json.Marshal(results)
	os.Stdout.Write(b)
	return 0
}

func init() { workers["c16cli"] = c16Worker }

// c16Inconclusive ends the process without recording a case: the driver
// reports that as inconclusive (exit 2), never as a violation.
func c16Inconclusive(format string, args ...any) {
	fmt.Printf("harness problem, not a statement about Elvish: "+format+"\n", args...)
	os.Exit(4)
}

// c16RunCli runs the invocations in one child process (cwd and HOME = home).
func c16RunCli(home string, invocations [][]string) ([]c16CliResult, error) {
	var lastErr error
	for try := 0; try < 3; try++ {
		a, _ := json.Marshal(invocations)
		exe, err := os.Executable()
		if err != nil {
			return nil, err
		}
		cmd := exec.Command(exe)
		cmd.Env = []string{"VERIF_WORKER=c16cli", "VERIF_C16_ARGS=" + string(a), "HOME=" + home, "XDG_CONFIG_HOME=" + home, "XDG_DATA_HOME=" + home,
			"XDG_STATE_HOME=" + home, "PATH=/nonexistent", "C16_PROBE=e0", "TMPDIR=" + home}
		cmd.Dir = home
		var o, e bytes.Buffer
		cmd.Stdout, cmd.Stderr = &o, &e
		runErr := cmd.Run()
		if runErr == nil {
			var results []c16CliResult
			if err := json.Unmarshal(o.Bytes(), &results); err != nil || len(results) != len(invocations) {
				return nil, fmt.Errorf("child wrote %q (stderr %q)", o.Bytes(), e.Bytes())
			}
			return results, nil
		}
		if _, ok := runErr.(*exec.ExitError); ok {
			// the entry point crashed or the worker could not do its job
			return nil, fmt.Errorf("child process failed: %v, stderr %q", runErr, e.Bytes())
		}
		lastErr = runErr // could not be started (fork failure under load): retry
		time.Sleep(time.Duration(300*(try+1)) * time.Millisecond)
	}
	c16Inconclusive("cannot start the child process: %v", lastErr)
	return nil, lastErr
}

func c16CheckCli(c c16CliCase) error {
	code := c16Prelude + "\n" + c.Prog.source(true)
	// in-process verdict on a fresh interpreter
	os.Setenv("C16_PROBE", "e0")
	defer os.Unsetenv("C16_PROBE")
	r := elv.Run(elv.New(), code)
	static := c16Static(r.Err)
	home, err := os.MkdirTemp("", "verif-c16-")
	if err != nil {
		c16Inconclusive("cannot create a temporary directory: %v", err)
	}
	defer os.RemoveAll(home)
	res, err := c16RunCli(home, [][]string{
		{"-compileonly", "-c", code},
		{"-compileonly", "-json", "-c", code},
		{"-c", code},
	})
	if err != nil {
		return fmt.Errorf("command-line entry point with code %q: %v", code, err)
	}
	// 1. -compileonly: nothing runs, exit status 2 exactly for static errors
	so, se, rc := []byte(res[0].Stdout), []byte(res[0].Stderr), res[0].Code
	if len(so) > 0 {
		return fmt.Errorf("elvish -compileonly -c %q wrote %q to stdout: code ran (or the check printed) although nothing must be executed", code, so)
	}
	if static && rc != 2 {
		return fmt.Errorf("elvish -compileonly -c %q exits with %d (stderr %q), but evaluation reports the static error %v", code, rc, se, r.Err)
	}
	if !static && rc != 0 {
		return fmt.Errorf("elvish -compileonly -c %q exits with %d (stderr %q), but evaluation reports no parse or compilation error (%v)", code, rc, se, r.Err)
	}
	// 2. the same with -json: stdout is one JSON value, an array with at least
	// one error exactly when there is a static error (null otherwise)
	so, rc = []byte(res[1].Stdout), res[1].Code
	var jerrs []struct {
		Message string `json:"message"`
	}
	if jerr := json.Unmarshal(so, &jerrs); jerr != nil {
		return fmt.Errorf("elvish -compileonly -json -c %q: stdout %q is not a JSON array: %v", code, so, jerr)
	}
	if static != (len(jerrs) > 0) || static != (rc == 2) || (!static && rc != 0) {
		return fmt.Errorf("elvish -compileonly -json -c %q exits with %d and reports %d error(s) (%q), but evaluation reports %v", code, rc, len(jerrs), so, r.Err)
	}
	// 3. normal run
	so, se, rc = []byte(res[2].Stdout), []byte(res[2].Stderr), res[2].Code
	if static {
		if rc != 2 {
			return fmt.Errorf("elvish -c %q exits with %d, want 2 for the static error %v", code, rc, r.Err)
		}
		if len(so) > 0 {
			return fmt.Errorf("elvish -c %q has the static error %v but wrote %q to stdout", code, r.Err, so)
		}
		if !bytes.Contains(se, []byte("rror")) {
			return fmt.Errorf("elvish -c %q has the static error %v but stderr does not show an error: %q", code, r.Err, se)
		}
	} else if r.Err == nil && rc != 0 {
		return fmt.Errorf("elvish -c %q exits with %d (stderr %q), in-process evaluation succeeds", code, rc, se)
	}
	return nil
}

func init() {
	vs.Register(vs.Prop[c16CliCase]{
		Name: "C16/cli",
		Rule: "one self-contained program of the C16/inprocess grammar (3 of 4 with an injected static error) run through the command-line entry point (prog.Run with the shell program, in a child process): `-compileonly -c`, `-compileonly -json -c` and `-c`; exit status, stdout and the JSON error list compared with the in-process verdict; non-trivial = the program has a static error preceded by code with effects, or is valid and has effects (nothing may run under -compileonly)",
		Gen: func(t *rapid.T) c16CliCase {
			id := 0
			return c16CliCase{Prog: c16GenProg(t, &id, false)}
		},
		Check: c16CheckCli,
		Class: func(c c16CliCase) (string, bool) {
			n, found := c16EffectsBeforeBad(c.Prog.Stmts)
			switch {
			case found && n > 0:
				return "injected-error-after-effects", true
			case found:
				return "injected-error-first", false
			case n > 0:
				return "no-injected-error-with-effects", true
			}
			return "no-effects", false
		},
		Quick: 60, Thorough: 250,
		Timeout: 60 * time.Second,
	})
}
