package props

// C17 No program can crash the interpreter.
//
// Three sub-checks, each a stream of one-line programs evaluated in a worker
// process (c17_worker_test.go) so that a Go panic or fatal error kills only the
// worker:
//   C17/call   every function found by reflection in the builtin namespace and
//              in the std modules, called with adversarial arguments/options;
//   C17/edit   the editor's helpers that do not need a terminal;
//   C17/redir  forms with 1..4 redirections over odd file descriptors.
// Oracle: the worker survives and the evaluation ends (normally, with an
// exception, or rejected by the parser/compiler); a worker death with a Go
// crash report, or a deadlock, is a violation.

import (
	"fmt"
	"os"
	"reflect"
	"regexp"
	"sort"
	"strings"
	"sync"
	"time"
	"unsafe"

	"pgregory.net/rapid"
	"src.elv.sh/pkg/cli"
	"src.elv.sh/pkg/edit"
	"src.elv.sh/pkg/eval"
	"src.elv.sh/pkg/eval/vals"
	"src.elv.sh/pkg/strutil"
	"verif/elv"
	"verif/vs"

	modDoc "src.elv.sh/pkg/mods/doc"
	modFile "src.elv.sh/pkg/mods/file"
	modFlag "src.elv.sh/pkg/mods/flag"
	modMath "src.elv.sh/pkg/mods/math"
	modMd "src.elv.sh/pkg/mods/md"
	modOs "src.elv.sh/pkg/mods/os"
	modPath "src.elv.sh/pkg/mods/path"
	modPlatform "src.elv.sh/pkg/mods/platform"
	modRe "src.elv.sh/pkg/mods/re"
	modStr "src.elv.sh/pkg/mods/str"
	modUnix "src.elv.sh/pkg/mods/unix"
)

const (
	c17KeyHugeFd      = "C17:huge-fd-redirection"
	c17KeyValueToIn   = "C17:value-output-to-input-port"
	c17KeyStdinLater  = "C17:stdin-redirect-in-later-stage"
	c17KeyDangling    = "C42:dup-closed-by-reredirect"
	c17KeyReadBytes   = "C17:read-bytes-negative"
	c17KeyOnlyValues  = "C17:only-values-deadlock"
	c17KeyByteReader  = "C17:byte-reader-ignores-values-deadlock"
	c17KeyEvalOnEnd   = "C17:eval-on-end-nil-ns"
	c17KeyNilIface    = "C17:nil-for-function-or-exception-parameter"
	c17KeyIsTTY       = "C17:file-is-tty-negative"
	c17KeyClosedRead  = "C17:value-input-from-closed-port-hangs"
	c17KeyNilColl     = "C17:nil-for-list-or-map-parameter"
	c17KeyRandint     = "C17:randint-range-overflow"
	c17KeyRepeat      = "C17:str-repeat-overflow-wraps"
	c17KeyFlagName    = "C17:flag-name-panics"
	c17KeySubseq      = "C17:has-subseq-invalid-utf8"
	c17KeyNegFdFixed  = "C42:negative-fd"
	c17KeyPowFixed    = "C11:pow-zero-negative"
	c17KeyGetoptFixed = "C38:invalid-utf8-short"
)

type c17Case struct {
	Kind  string `json:"kind"`  // call | edit | redir
	Fn    string `json:"fn"`    // function called / shape of the form (histogram only)
	Typed bool   `json:"typed"` // arguments were drawn to fit the parameter types
	Src   vs.B   `json:"src"`   // the complete program
}

// ---------------------------------------------------------------------------
// catalogue of functions, by reflection

type c17Opt struct {
	Name  string
	Class string
}

type c17Fn struct {
	Name     string // as written in a program: "put", "str:repeat", "edit:key"
	Mod      string // "" for builtin, else the module to `use`
	Args     []string
	Variadic string
	Inputs   bool
	RawOpts  bool
	Opts     []c17Opt
	Sig      bool // signature known
}

var (
	c17CatOnce sync.Once
	c17Calls   []c17Fn // builtin + modules
	c17Edits   []c17Fn // editor helpers
)

// functions that end or replace the process, or signal other processes, by design
var c17NotCalled = map[string]string{
	"exit": "terminates the process by design",
	"exec": "replaces the process by design",
	"fg":   "process control: signals and waits for arbitrary process ids",
}

// the editor functions that work without a running terminal application
var c17EditHelpers = []string{
	"complete-filename", "complete-dirname", "complete-getopt", "complete-sudo", "complex-candidate",
	"match-prefix", "match-subseq", "match-substr", "binding-table", "key", "wordify",
	"add-var", "add-vars", "del-var", "del-vars", "insert-at-dot", "replace-input", "command-history",
}

func c17ClassOf(t reflect.Type) string {
	switch {
	case t == reflect.TypeOf((*vals.Num)(nil)).Elem():
		return "num"
	case t == reflect.TypeOf((*eval.Callable)(nil)).Elem():
		return "fn"
	case t == reflect.TypeOf((*vals.List)(nil)).Elem():
		return "list"
	case t == reflect.TypeOf((*vals.Map)(nil)).Elem():
		return "map"
	case t == reflect.TypeOf((*os.File)(nil)):
		return "file"
	case t == reflect.TypeOf(vals.Pipe{}):
		return "pipe"
	case t == reflect.TypeOf((*eval.Exception)(nil)).Elem():
		return "exc"
	case t == reflect.TypeOf((*eval.Ns)(nil)):
		return "ns"
	}
	switch t.Kind() {
	case reflect.String:
		return "string"
	case reflect.Int, reflect.Int8, reflect.Int16, reflect.Int32, reflect.Int64, reflect.Uint, reflect.Uint8, reflect.Uint16, reflect.Uint32, reflect.Uint64:
		return "int"
	case reflect.Float32, reflect.Float64:
		return "float"
	case reflect.Bool:
		return "bool"
	}
	return "any"
}

// c17Signature reads the Go implementation out of a builtin function value and
// derives the parameter classes with the rules documented on eval.NewGoFn.
func c17Signature(fn *c17Fn, callable any) {
	defer func() { recover() }() // layout changed: leave the signature unknown
	rv := reflect.ValueOf(callable)
	if rv.Kind() != reflect.Ptr || rv.Elem().Kind() != reflect.Struct {
		return
	}
	f := rv.Elem().FieldByName("impl")
	if !f.IsValid() {
		return
	}
	impl := reflect.NewAt(f.Type(), unsafe.Pointer(f.UnsafeAddr())).Elem().Interface()
	t := reflect.TypeOf(impl)
	if t == nil || t.Kind() != reflect.Func {
		return
	}
	i := 0
	if i < t.NumIn() && t.In(i) == reflect.TypeOf((*eval.Frame)(nil)) {
		i++
	}
	if i < t.NumIn() && t.In(i) == reflect.TypeOf(eval.RawOptions(nil)) {
		fn.RawOpts = true
		i++
	}
	if i < t.NumIn() && t.In(i).Kind() == reflect.Struct {
		if _, ok := reflect.PointerTo(t.In(i)).MethodByName("SetDefaultOptions"); ok {
			st := t.In(i)
			for k := 0; k < st.NumField(); k++ {
				sf := st.Field(k)
				name := sf.Tag.Get("name")
				if name == "" {
					name = strutil.CamelToDashed(sf.Name)
				}
				fn.Opts = append(fn.Opts, c17Opt{name, c17ClassOf(sf.Type)})
			}
			i++
		}
	}
	for ; i < t.NumIn(); i++ {
		p := t.In(i)
		if i == t.NumIn()-1 {
			if t.IsVariadic() {
				fn.Variadic = c17ClassOf(p.Elem())
				break
			}
			if p == reflect.TypeOf(eval.Inputs(nil)) {
				fn.Inputs = true
				break
			}
		}
		fn.Args = append(fn.Args, c17ClassOf(p))
	}
	fn.Sig = true
}

func c17FnsOf(ns *eval.Ns, mod string, only map[string]bool) []c17Fn {
	var names []string
	ns.IterateKeysString(func(k string) {
		if strings.HasSuffix(k, eval.FnSuffix) {
			names = append(names, strings.TrimSuffix(k, eval.FnSuffix))
		}
	})
	sort.Strings(names)
	var out []c17Fn
	for _, n := range names {
		if only != nil && !only[n] {
			continue
		}
		full := n
		if mod != "" {
			full = mod + ":" + n
		}
		fn := c17Fn{Name: full, Mod: mod}
		if v := ns.IndexString(n + eval.FnSuffix); v != nil {
			c17Signature(&fn, v.Get())
		}
		out = append(out, fn)
	}
	return out
}

func c17Catalogue() {
	c17CatOnce.Do(func() {
		ev := elv.New()
		for _, fn := range c17FnsOf(ev.Builtin(), "", nil) {
			if _, no := c17NotCalled[fn.Name]; no {
				continue
			}
			if strings.HasPrefix(fn.Name, "c4") || strings.HasPrefix(fn.Name, "c1") {
				continue // harness functions of other checks, if any were installed
			}
			c17Calls = append(c17Calls, fn)
		}
		mods := []struct {
			name string
			ns   *eval.Ns
		}{
			{"math", modMath.Ns}, {"str", modStr.Ns}, {"re", modRe.Ns}, {"path", modPath.Ns}, {"file", modFile.Ns},
			{"flag", modFlag.Ns}, {"os", modOs.Ns}, {"platform", modPlatform.Ns}, {"md", modMd.Ns}, {"doc", modDoc.Ns},
		}
		for _, m := range mods {
			c17Calls = append(c17Calls, c17FnsOf(m.ns, m.name, nil)...)
		}
		if modUnix.ExposeUnixNs {
			c17Calls = append(c17Calls, c17FnsOf(modUnix.Ns, "unix", nil)...)
		}
		// the runtime module is built per interpreter
		if v := ev.Global(); v != nil {
			if res := elv.Run(ev, "use runtime"); res.Err == nil {
				if rt, ok := ev.Global().Index("runtime:"); ok {
					if ns, ok := rt.(*eval.Ns); ok {
						c17Calls = append(c17Calls, c17FnsOf(ns, "runtime", nil)...)
					}
				}
			}
		}
		// editor helpers
		devnull, err := os.OpenFile(os.DevNull, os.O_RDWR, 0)
		if err == nil {
			defer devnull.Close()
			ed := edit.NewEditor(cli.NewTTY(devnull, devnull), elv.New(), nil)
			only := map[string]bool{}
			for _, n := range c17EditHelpers {
				only[n] = true
			}
			for _, fn := range c17FnsOf(ed.Ns(), "", only) {
				fn.Name = "edit:" + fn.Name
				c17Edits = append(c17Edits, fn)
			}
		}
	})
}

// ---------------------------------------------------------------------------
// value pools (Elvish source text)

var c17UnsafeWords = []string{"..", "~", "exit", "exec", "kill", "sudo", "rm ", "e:", "external", "/dev", "/proc", "/etc", "/usr", "/bin", "/tmp", "/root", "/home", "/var", "/sys", "/scratch", "/repo", "/verif"}

// c17Safe reports whether a literal is allowed in a generated program: it
// cannot name anything outside the case directory and cannot spell a
// process-control command.
func c17Safe(s string) bool {
	if strings.HasPrefix(s, "/") {
		return false
	}
	for _, w := range c17UnsafeWords {
		if strings.Contains(s, w) {
			return false
		}
	}
	return true
}

// c17Quote renders any byte string as a double-quoted Elvish literal.
func c17Quote(s string) string {
	if !c17Safe(s) {
		s = "x"
	}
	var sb strings.Builder
	sb.WriteByte('"')
	for i := 0; i < len(s); i++ {
		b := s[i]
		switch {
		case b >= 'a' && b <= 'z', b >= 'A' && b <= 'Z', b >= '0' && b <= '9', strings.IndexByte(" _-+=.,:;/*?[](){}<>|&%#@!^'", b) >= 0:
			sb.WriteByte(b)
		default:
			fmt.Fprintf(&sb, "\\x%02x", b)
		}
	}
	sb.WriteByte('"')
	return sb.String()
}

// raw string values (quoted when used)
var c17StrVals = []string{
	"", "a", "abc", "a b", "-", "--", "-x", "--long", "--long=v", "x=y", "&k",
	"0", "1", "-1", "2", "10", "0x10", "0b11", "1e3", "1.5", "-0.0", "nan", "inf", "-inf", "1/2", "0/1", "1/0", "-7/3",
	"9223372036854775807", "-9223372036854775808", "9223372036854775808", "100000000000000000000000000", "1e400", "0x7fffffffffffffff",
	"\xff", "a\xffb", "\x00", "a\x00b", "\n", "a\nb\n", "\r\n", "\t", "\x1b[31m", "世界", "a\u0301", "\xf0\x9f", "\U0001F600", "\u200b", "\ufffd",
	"%", "%s", "%d %v", "%5.2f", "%q", "%!", "%[2]v", "%-8s|",
	"[", "]", "(", ")", "{", "}", "a*b", "*", "?", "**", "[a-z]+", "(a)(b)?", "\\d", "a|", "(?i)x", "(?P<n>a)", "a{2,1}", "$", "^", "\\", "x*y*", ".", "[[:alpha:]]",
	"0..1", "1..", "..=2", "0..=0", ":", ",", ";", "|", "&", "#", "'", "\"",
	"bg-red", "bold", "#ff0000", "inverse", "fg-default", "no-bold", "toggle-dim", "bg-#12", "color255", "red", "underlined",
	"f", "d", "d/g", "d/", "w", "e", "nonexist", "./f", "f.txt", "m", "./m", "new/dir/x", "d/g/h",
	"Ctrl-A", "Alt-x", "F1", "Enter", "Ctrl-", "Alt-Ctrl-Shift-Up", "A-", "<", "Default",
	"true", "false", "$true", "nil",
	"{\"a\": [1, 2]}", "[1,", "null", "\"s\"", "1e999", "{\"a\":{\"a\":{}}}", "[null, true, 1.5, \"x\"]",
	"put x", "fail y", "nop", "use str", "var a = 1", "put $nonexistent", "{ put a }", "put (", "a &", "echo >", "put [", "each", "return",
	"str", "math", "epm", "readline-binding", "builtin", "builtin:put", "put", "str:join", "edit:key", "nosuch:fn", "$paths", "$nosuch", "#doc", "doc",
	"1ms", "1h", "-1s", "1ns", "s", "1d",
	"elvish-*", "x*y", "*-", "r", "w", "rw", "start", "current", "end", "HOME", "PATH", "=", "A=B", "NOSUCHVAR",
	"# h\n\ntext *b* `c`\n\n- l\n", "```\ncode\n", "<a href=x>", "***", "> q", "1. a\n2. b", "[l](u \"t\")", "&amp;",
	"**b** {red}", "{ $a }", "text\n****\n", "a\nb", "\n\n", "a\n*", "{", "}\n}",
}

var c17IntSrc = []string{"0", "1", "-1", "2", "3", "7", "8", "10", "16", "36", "37", "64", "100", "255", "256", "1000", "65536", "1114111", "1114112", "55296",
	"2147483647", "2147483648", "-2147483649", "4294967296", "9223372036854775807", "-9223372036854775808", "9223372036854775806",
	"0x10", "0o17", "0b1", "1_000", "(num 3)", "(num -1)", "(num 0)", "(num 9223372036854775807)", "(num -9223372036854775808)"}

var c17FloatSrc = []string{"0.5", "-0.5", "-0.0", "1.5", "2.5", "3.7", "1e308", "-1e308", "1e-320", "5e-324", "nan", "inf", "-inf", "(num nan)", "(num inf)", "(num -inf)",
	"(num 0.1)", "(num 1e100)", "1e400", "9007199254740993.0", "(num 1e19)", "(num -1e19)", "0.0"}

var c17BigSrc = []string{"(- 100000000000000000000 100000000000000000000)", "(range 0 100000000000000000000 &step=50000000000000000000 | take 1)", "(* (num 1/2) 2)", "(/ 100000000000000000000 100000000000000000000)",
	"(range 0 100000000000000000000 &step=50000000000000000000 | take 1)", "(+ 9223372036854775807 1 -9223372036854775808)", "(range 1/2 3 | drop 1 | take 1)",
	"9223372036854775808", "-9223372036854775809", "18446744073709551616", "100000000000000000000000000", "-100000000000000000000000000",
	"(num 9223372036854775808)", "(num 100000000000000000000000000)", "1/2", "-7/3", "(num 1/3)", "(num -22/7)", "(num 100000000000000000000000000/3)", "1/100000000000000000000000000", "(num 1/0.5)"}

var c17FnSrc = []string{
	"{ }", "{|x| put $x }", "{|@a| put $@a }", "{|x| put $x $x }", "{|a b| put $a }", "{|x| fail boom }", "{ fail boom }", "{ break }", "{ return }", "{ continue }",
	"{|x| put $x[0] }", "$nop~", "$put~", "{|a b| < $a $b }", "{|a b| put $true }", "{|a b| put abc }", "{|a b| put 1 2 }", "{|a b| put $nil }", "{|@a| put $true }", "{|@a| put $false }",
	"{|x| echo $x }", "{|x| put [$x] }", "{|@a &k=v| put $k }", "{|m| put $m[text] }", "{|m| put $m[groups] }", "{|x| put (num 1) }", "{|x| nop }", "$fail~", "$-~", "$eq~", "$each~",
	"(constantly a b)", "{|&a=1| put $a }", "{|&-a=1| }", "{|&a=1 &a-b=x| put $a }", "{|&'a=b'=1| }", "{|x| put $x; put $x } ", "{|x| put ?(fail z) }", "{|a b| - $a $b }", "{|a b| compare $a $b }",
}

var c17ListSrc = []string{
	"[]", "[a]", "[a b c]", "[c a b]", "[[a] [b]]", "[(num 1) (num 2)]", "[$nil]", "[1 a [&] $nil]", "[\"\\xff\"]", "[(num nan) (num 1)]", "[[&k=v]]", "[a a]",
	"[1 2 3]", "[3 1 2 10]", "[-x --long v]", "[-- a]", "[-]", "[--]", "[\"-\\xff\"]", "[--=foo]", "[-ab -c v]", "[--no-such]", "[-x=1]",
	"[[&short=a]]", "[[&long=foo &arg-required=$true]]", "[[&short=x &long=long &arg-optional=$true]]", "[[&]]", "[[&short=ab]]", "[[&short='']]", "[[&long='']]", "[[&short=a &extra=1]]",
	"[[a b] [c]]", "[[&short=a &arg-required=$true &arg-optional=$true]]", "[(styled a red) b]", "[$true $false]", "[{ } { }]", "[0x41 0x10ffff]", "[0x110000]", "[-1]", "[255 256]",
	"[[a 1 ''] [a 2 '']]", "[[-a 1 '']]", "[[a=b 1 '']]", "[[a 1 d] [b x d]]", "[['' 1 d]]",
	"[a &k=v]", "[[a 1] [b 2]]", "[[a]]", "[[a b c]]", "[[(num 1) x] [$nil y]]", "[(range 5)]", "[l1 l2]", "[(num 1/2) (num 0.5) 1]",
}

var c17MapSrc = []string{
	"[&]", "[&k=v]", "[&a=1 &b=2]", "[&[a]=b]", "[&k=[&k=v]]", "[&(num 1)=x &1=y]", "[&short=a]", "[&long=foo &arg-required=$true]", "[&r=$fo]", "[&w=$fw]", "[&r=x]",
	"[&text=a &start=0 &end=1 &groups=[]]", "[&k=$nil]", "[&$nil=k]", "[&a=[1 2] &b=[&c=d]]", "[&\"\\xff\"=x]", "[&ab=x &bA=y]", "[&k=v &l=w &m=x &n=y &o=z &p=q &r=s &t=u &v=w]",
	"[&fg-color=red]", "[&bold=$true]", "[&min-runs=1]", "[&sep=,]", "[&code-suffix=x &display=y]",
}

var c17OtherSrc = []string{
	"$nil", "$true", "$false", "$ok", "?(fail x)", "?(return)", "?(nop | fail y)", "?(fail [&k=v])",
	"(styled a red)", "(styled-segment a &fg-color=red)", "(styled a bold inverse)", "(styled \"\\xff\" bg-blue)",
	"$fo", "$fw", "$pin", "$pout", "$pin[r]", "$pout[w]", "(ns [&])", "(ns [&a=1])", "$put~", "{ }", "(num 1)", "(num 1/2)", "(num 1e100)",
	"(make-map [[a 1]])", "[&]", "[]", "''",
}

// small values for parameters that are a duration, a repeat count or a size
var c17SmallDur = []string{"0", "0.001", "-1", "1ms", "0s", "-1s", "x", "''", "nan", "(num -0.0)", "[]", "$nil", "1us", "(num 0)", "0.0", "1e-9", "(num 1/1000)"}
var c17SmallCount = []string{"0", "1", "2", "3", "-1", "17", "1000", "(num 2)", "(num -3)", "x", "1.5", "''", "$nil", "[]", "0x10", "(num 1/2)", "nan"}
var c17SmallNum = []string{"0", "1", "-1", "3", "10", "-3", "0.5", "-2.5", "(num 1/3)", "(num 7)", "x", "nan", "2", "5", "(num -1/2)", "0.0", "''", "$nil", "1e1"}
var c17SmallStep = []string{"1", "2", "-1", "0", "0.5", "(num 1/2)", "x", "nan", "3", "(num 0)", "0.0", "(num 3/2)"}
var c17SmallExp = []string{"0", "1", "-1", "2", "3", "-3", "10", "64", "-64", "0.5", "-0.5", "nan", "inf", "-inf", "(num 1/2)", "1e3", "(num 5)", "(num -2)", "x"}
var c17MinTime = []string{"0s", "1ms", "-1s", "x", "1us", "0", "10us"}
var c17MinRuns = []string{"0", "1", "2", "-1", "x", "3", "(num 1)", "1.5"}

var c17Divisors = []string{"0", "(num 0)", "0.0", "-0.0", "(num 0/1)", "(- 100000000000000000000 100000000000000000000)", "(range 0 100000000000000000000 &step=50000000000000000000 | take 1)",
	"(* (num 1/2) 0)", "(+ 9223372036854775807 1 -9223372036854775808)", "1", "-1", "(num 1/2)", "100000000000000000000", "x", "nan", "inf", "$nil", "[]", "(- (num 1/3) (num 1/3))"}
var c17RePatterns = []string{"'(a)|b'", "'a(b)?'", "'(x)*y'", "'(a)(b)?'", "'a|(b)'", "'(?P<n>a)?b'", "'((a)|b)+'", "'(a*)(b*)'", "'()'", "'(a)?'", "'^(a)?$'", "'(a|(b))c'", "'.'", "'a'", "'['", "\"\\xff\"", "'a{2,1}'", "'(?i)x'", "'\\d'", "'**'", "''", "$nil", "[]", "(num 1)"}
var c17ReSources = []string{"a", "b", "ab", "xa", "y", "ba", "''", "bc", "aab", "c", "abab", "\"\\xffa\"", "世a", "X", "$1", "'${n}'", "{|m| put $m[text] }"}

// c17Override returns a bounded pool for a parameter that is a duration, a
// count or a size (DESIGN: resource-taking parameters stay small unless the
// value makes the command fail fast), or nil.
func c17Override(fn string, idx int, opt string) []string {
	if strings.HasPrefix(fn, "re:") && opt == "" && idx >= 0 && idx <= 2 {
		// patterns with optional / alternative capture groups (and a few hostile
		// ones) and short sources that match them with a group left out
		if idx == 0 {
			return c17RePatterns
		}
		return c17ReSources
	}
	switch fn {
	case "%", "/":
		// divisors: zeros in every representation, also as builtins produce them
		if idx >= 1 && opt == "" {
			return c17Divisors
		}
	case "sleep":
		return c17SmallDur
	case "repeat":
		if idx == 0 {
			return c17SmallCount
		}
	case "str:repeat":
		if idx == 1 {
			return c17SmallCount
		}
	case "range":
		if opt == "step" {
			return c17SmallStep
		}
		if opt == "" {
			return c17SmallNum
		}
	case "math:pow":
		if idx == 1 {
			return c17SmallExp
		}
	case "benchmark":
		if opt == "min-time" {
			return c17MinTime
		}
		if opt == "min-runs" {
			return c17MinRuns
		}
	case "read-bytes":
		// a size: the buffer is allocated up front (huge counts are resource
		// exhaustion); finding C17:read-bytes-negative: `read-bytes -1` panicked
		if idx == 0 {
			if vs.KnownOpen(c17KeyReadBytes) {
				return []string{"0", "1", "3", "100", "65536", "x", "1.5", "''", "$nil", "(num 2)", "[]"}
			}
			return []string{"0", "1", "3", "100", "65536", "-1", "-2", "-9223372036854775808", "(num -1)", "x", "1.5", "''", "$nil", "(num 2)", "[]", "-0", "0x10"}
		}
	case "randint":
		// open finding: high-low overflows the machine integer
		if opt == "" && vs.KnownOpen(c17KeyRandint) {
			return []string{"0", "1", "-1", "2", "10", "-10", "1000", "2147483648", "(num 3)", "x", "1.5", "''", "$nil", "[]", "100000000000000000000000000", "(num -100000000000000000000000000)"}
		}
	case "edit:match-subseq":
		// open finding: a seed with U+FFFD or invalid UTF-8 against a candidate with invalid UTF-8
		if idx == 0 && vs.KnownOpen(c17KeySubseq) {
			return []string{"''", "a", "ab", "ba", "世", "a世b", "-", "x*", "\"a b\"", "$nil", "[]", "(num 1)", "aaaa"}
		}
	case "file:is-tty":
		// open finding: `file:is-tty -1` indexes the port table with a negative number
		if idx == 0 && vs.KnownOpen(c17KeyIsTTY) {
			return []string{"0", "1", "2", "3", "64", "9223372036854775807", "x", "1.5", "''", "$nil", "$fo", "$pin", "[]", "(num 2)"}
		}
	}
	return nil
}

// ---------------------------------------------------------------------------
// generator of calls

type c17G struct{ t *rapid.T }

// u draws an index in [0,n) uniformly. rapid's own integer generators favour
// small values and the bounds (good for shrinking, bad for covering a
// catalogue of 230 functions and pools of hostile values evenly), so two draws
// are mixed.
func (g c17G) u(label string, n int) int {
	a := rapid.Uint64().Draw(g.t, label)
	b := rapid.Uint64().Draw(g.t, label+"'")
	x := a*0x9e3779b97f4a7c15 ^ (b+0x7f4a7c159e3779b9)*0xbf58476d1ce4e5b9
	x ^= x >> 31
	x *= 0x94d049bb133111eb
	x ^= x >> 29
	return int(x % uint64(n))
}

func (g c17G) n(label string, lo, hi int) int { return lo + g.u(label, hi-lo+1) }
func (g c17G) of(label string, xs []string) string {
	return xs[g.u(label, len(xs))]
}

var c17SafeAtoms = []string{"a", "b", "Z", "0", "1", "9", "_", "'", "\"", "$", "*", "?", "(", ")", "[", "]", "{", "}", "|", "&", ";", "<", ">", "^", "#", "\\", "=", ",", "@", "%", "+", "!", ":", ".", "-",
	" ", "\t", "\r", "\n", "\x00", "\x7f", "\x01", "\x1b", "é", "世", "\u0301", "\u200b", "\ufffd", "\U0001F600", "\x80", "\xc0", "\xff", "\xe4\xb8", "\xf0\x9f", "ab", "bA", "--", "&k", "0x"}

func (g c17G) str() string {
	switch k := g.n("strkind", 0, 9); {
	case k < 7:
		return c17Quote(g.of("str", c17StrVals))
	case k < 9:
		n := g.n("atoms", 0, 6)
		var sb strings.Builder
		for i := 0; i < n; i++ {
			sb.WriteString(g.of("atom", c17SafeAtoms))
		}
		return c17Quote(sb.String())
	default:
		b := rapid.SliceOfN(rapid.Byte(), 0, 6).Draw(g.t, "rawbytes")
		return c17Quote(string(b))
	}
}

func (g c17G) numeric() string {
	switch g.n("numkind", 0, 3) {
	case 0, 1:
		return g.of("int", c17IntSrc)
	case 2:
		return g.of("float", c17FloatSrc)
	default:
		return g.of("big", c17BigSrc)
	}
}

func (g c17G) anyValue() string {
	switch k := g.n("anykind", 0, 19); {
	case k < 6:
		return g.str()
	case k < 11:
		return g.numeric()
	case k < 13:
		return g.of("list", c17ListSrc)
	case k < 15:
		return g.of("map", c17MapSrc)
	case k < 17:
		return g.of("fn", c17FnSrc)
	default:
		return g.of("other", c17OtherSrc)
	}
}

// value draws an argument for a parameter of the given class; a quarter of the
// time the class is ignored.
func (g c17G) value(class string, typed bool) string {
	if g.n("nil?", 0, 24) == 0 {
		return "$nil" // the value every parameter type has to cope with
	}
	if !typed || g.n("offtype", 0, 3) == 0 {
		return g.anyValue()
	}
	switch class {
	case "string":
		if g.n("strnum", 0, 5) == 0 {
			return g.numeric()
		}
		return g.str()
	case "int":
		if g.n("intkind", 0, 5) == 0 {
			return g.numeric()
		}
		return g.of("int", c17IntSrc)
	case "float":
		if g.n("fkind", 0, 2) == 0 {
			return g.of("int", c17IntSrc)
		}
		return g.of("float", c17FloatSrc)
	case "num":
		return g.numeric()
	case "fn":
		return g.of("fn", c17FnSrc)
	case "list":
		return g.of("list", c17ListSrc)
	case "map":
		return g.of("map", c17MapSrc)
	case "file":
		return g.of("file", []string{"$fo", "$fw", "$pin[r]", "$pout[w]", "$pout[r]"})
	case "pipe":
		return g.of("pipe", []string{"$pin", "$pout"})
	case "bool":
		return g.of("bool", []string{"$true", "$false", "$nil", "a", "''", "[]", "(num 0)"})
	case "exc":
		return g.of("exc", []string{"?(fail x)", "$ok", "?(return)", "?(nop | fail y)", "?(fail [&k=v])", "?(break)"})
	case "ns":
		return g.of("ns", []string{"(ns [&])", "(ns [&a=1])", "(ns [&f~={ }])"})
	}
	return g.anyValue()
}

var c17PlainName = regexp.MustCompile(`^[A-Za-z0-9:_%!=<>+*/-]+$`)

func c17Head(name string) string {
	if c17PlainName.MatchString(name) {
		return name
	}
	return "$" + c17Quote(name+"~")
}

var c17InputSrc = []string{
	"put a b c", "put [a] [&k=v] $nil", "echo \"l1\\nl2\"", "print \"\\xff\\x00x\"", "range 3", "put (num 1) (num 1/2) nan", "put \"\\xff\" ''", "echo '{\"a\": [1, 2]}'",
	"print \"a\\x00b\\x00\"", "put 3 1 2", "put [b 2] [a 1]", "echo", "print \"no newline\"", "put { } $put~", "put ?(fail x)", "echo \"# h\\n\\n*b*\"",
}

func (g c17G) call(fns []c17Fn, kind string) c17Case {
	fn := fns[g.n("fn", 0, len(fns)-1)]
	typed := fn.Sig && g.n("typed", 0, 9) < 7
	var parts []string
	if fn.Name == "str:repeat" && g.n("wrap?", 0, 3) == 0 {
		// counts whose product with the string length wraps around the machine
		// integer (or is rejected as negative): never an allocation
		src := "use str; str:repeat " + g.of("rs", []string{"abcd", "ab", "abcdefgh", "''", "abcdefghijklmnop"}) + " " +
			g.of("rn", []string{"4611686018427387904", "4611686018427387905", "9223372036854775807", "6917529027641081856"})
		return c17Case{Kind: kind, Fn: fn.Name, Typed: true, Src: vs.B(src)}
	}

	// arguments
	var nargs int
	if typed {
		nargs = len(fn.Args)
		if fn.Variadic != "" {
			nargs += g.n("variadic", 0, 3)
		}
		if fn.Inputs && g.n("inputarg", 0, 1) == 0 {
			nargs++
		}
		if g.n("arity-off", 0, 11) == 0 {
			nargs += g.n("arity-delta", -1, 1)
		}
		if nargs < 0 {
			nargs = 0
		}
		if nargs > 5 {
			nargs = 5
		}
	} else {
		nargs = g.n("nargs", 0, 4)
	}
	for i := 0; i < nargs; i++ {
		if pool := c17Override(fn.Name, i, ""); pool != nil {
			parts = append(parts, g.of("bounded", pool))
			continue
		}
		class := "any"
		switch {
		case i < len(fn.Args):
			class = fn.Args[i]
		case fn.Variadic != "":
			class = fn.Variadic
		case fn.Inputs:
			class = "list"
		}
		v := g.value(class, typed)
		if strings.HasPrefix(fn.Name, "flag:") && class == "list" && v != "$nil" && strings.Contains(v, "$nil") && vs.KnownOpen(c17KeyNilColl) {
			// same finding: a $nil element where flag:parse expects a list (`flag:parse [] [$nil]`)
			vs.Excluded("$nil element in a list of lists given to the flag module (open finding " + c17KeyNilColl + ")")
			v = "[[x a b]]"
		}
		if v == "$nil" {
			// findings: $nil is accepted for a parameter of a function,
			// exception, list or map type and dereferenced
			switch {
			case (class == "fn" || class == "exc") && vs.KnownOpen(c17KeyNilIface):
				vs.Excluded("$nil for a parameter of a function or exception type (open finding " + c17KeyNilIface + ")")
				v = map[string]string{"fn": "{ }", "exc": "?(fail x)"}[class]
			case (class == "list" || class == "map") && vs.KnownOpen(c17KeyNilColl):
				vs.Excluded("$nil for a parameter of a list or map type (open finding " + c17KeyNilColl + ")")
				v = map[string]string{"list": "[]", "map": "[&]"}[class]
			}
		}
		parts = append(parts, v)
	}

	// options
	var opts []string
	seen := map[string]bool{}
	nopts := 0
	if g.n("opts?", 0, 9) < 4 {
		nopts = g.n("nopts", 1, 2)
	}
	for i := 0; i < nopts; i++ {
		var name, class string
		if len(fn.Opts) > 0 && g.n("realopt", 0, 9) < 8 {
			o := fn.Opts[g.n("opt", 0, len(fn.Opts)-1)]
			name, class = o.Name, o.Class
		} else {
			name, class = g.of("optname", []string{"k", "sep", "x", "max", "dir", "step", "num-workers", "key", "reverse", "on-end", "less-than", "fg-color", "width", "a-b"}), "any"
		}
		if seen[name] {
			continue
		}
		if fn.Name == "eval" && name == "on-end" && vs.KnownOpen(c17KeyEvalOnEnd) {
			// open finding: the callback gets a nil namespace when the code is rejected
			vs.Excluded("eval &on-end (open finding " + c17KeyEvalOnEnd + ")")
			continue
		}
		seen[name] = true
		var val string
		if pool := c17Override(fn.Name, -1, name); pool != nil {
			val = g.of("boundedopt", pool)
		} else {
			val = g.value(class, typed)
		}
		opts = append(opts, "&"+name+"="+val)
	}
	if fn.Name == "benchmark" {
		// without &min-time a benchmark lasts at least a second
		if !seen["min-time"] {
			opts = append(opts, "&min-time="+g.of("mintime", c17MinTime[:3]))
		}
	}

	var sb strings.Builder
	if fn.Mod != "" {
		sb.WriteString("use " + fn.Mod + "; ")
	}
	if g.n("input?", 0, 3) == 0 {
		sb.WriteString(g.of("input", c17InputSrc) + " | ")
	}
	sb.WriteString(c17Head(fn.Name))
	for _, o := range opts {
		if g.n("optfirst", 0, 1) == 0 {
			sb.WriteString(" " + o)
		} else {
			parts = append(parts, o)
		}
	}
	for _, p := range parts {
		sb.WriteString(" " + p)
	}
	return c17Case{Kind: kind, Fn: fn.Name, Typed: typed, Src: vs.B(sb.String())}
}

// ---------------------------------------------------------------------------
// generator of calls of the higher-order builtins with small bounds

// higher builds one call of a builtin that runs callbacks (each, peach with and
// without a worker bound, keep-if, order with &key / &less-than, run-parallel),
// with a callback that outputs, throws, breaks, continues or returns, on 0..100
// inputs (more inputs than workers, more values than a channel buffer holds),
// optionally followed by a stage that stops reading.
func (g c17G) higher() c17Case {
	cb := func(l string) string { return g.of(l, c17FnSrc) }
	n := g.of("n", []string{"0", "1", "2", "2", "3", "3", "5", "33", "40", "100"})
	input, prefix := "[(range "+n+")]", ""
	if g.n("piped", 0, 2) == 0 {
		input, prefix = "", "range "+n+" | "
	}
	var name, src string
	switch g.n("tmpl", 0, 9) {
	case 0, 1, 2:
		name = "peach-bounded"
		src = "peach &num-workers=" + g.of("w", []string{"1", "1", "2", "2", "3", "4", "(num 1)", "(num 2)", "32", "inf", "(num +inf)"}) + " " + cb("cb") + " " + input
	case 3:
		name = "peach"
		src = "peach " + cb("cb") + " " + input
	case 4:
		name = "each"
		src = "each " + cb("cb") + " " + input
	case 5:
		name = "keep-if"
		src = "keep-if " + cb("cb") + " " + input
	case 6:
		name = "order-key"
		src = "order &key=" + cb("cb") + " " + input
	case 7:
		name = "order-less-than"
		src = "order &less-than=" + cb("cb") + " " + input
	case 8:
		name = "run-parallel"
		src, prefix = "run-parallel", ""
		for i, k := 0, g.n("nfn", 1, 4); i < k; i++ {
			src += " " + cb("cbp")
		}
	default:
		name = "nested"
		src = "peach &num-workers=" + g.of("w", []string{"1", "2", "3"}) + " {|x| each " + cb("cb") + " [$x $x] } " + input
	}
	src = prefix + src
	switch g.n("wrap", 0, 7) {
	case 0:
		src += " | nop"
	case 1:
		src += " | take 1"
	case 2:
		src += " | fail reader"
	case 3:
		src = "var r = ?(" + src + ")"
	case 4:
		src = "for i [1 2 3] { " + src + " }"
	}
	return c17Case{Kind: "call", Fn: "higher:" + name, Src: vs.B(src)}
}

// ---------------------------------------------------------------------------
// generator of redirection forms

var (
	c17RedirDst   = []string{"", "", "", "0", "1", "2", "3", "4", "5", "7", "64", "1023", "stdin", "stdout", "stderr", "-1", "-2", "-9223372036854775808", "-", "a", "1.5", "0x3", "''", "$nil", "[]", "1e1", "+1", "01"}
	c17RedirSrcFd = []string{"0", "1", "2", "1", "2", "3", "4", "5", "7", "64", "1023", "1024", "stdin", "stdout", "stderr", "-", "-", "-1", "-2", "-9223372036854775808", "9223372036854775807", "a", "1.5", "''", "$nil", "0x2"}
	c17RedirFiles = []string{"f", "w", "e", "d/g", "new", "new2", "d", "nodir/x", "''", "\"\\xff\"", "\"a\\x00b\"", "$fo", "$fw", "$pin", "$pout", "[&r=$fo]", "[&w=$fw]", "[&r=x]", "[&]", "[]", "(num 3)", "$nil", "{a,b}", "[&r=$fo &w=$fw]", "$pin[r]", "$pout[w]"}
	c17ValueHeads = []string{"put x", "put a b c", "{ put a; echo b }", "put [x] [&k=v]", "repeat 40 x", "range 5"}
	c17ByteHeads  = []string{"echo x", "print x", "nop", "echo a b c", "fail x", "{ echo a; echo b >&2 }", "printf '%s\\n' x", "pprint [a]", "show ?(fail y)", "to-lines [a b]"}
	c17ReadHeads  = []string{"slurp", "each $put~", "only-values", "read-line", "from-lines", "only-bytes", "count", "read-upto x", "each {|x| echo $x }", "take 1", "read-bytes 3", "from-json"}
)

// c17RPort is the part of a port that matters for recognising the shapes of
// the open findings.
type c17RPort struct {
	input  bool // value channel is the closed input placeholder
	pipeIn bool // read end of the pipeline
	owned  bool
	output bool // an output port whose channel is never closed during the form (reading values from it blocks)
	closed bool
	blocks bool // reading its bytes never returns
}

func c17RFd(s string) (int, bool) {
	switch s {
	case "stdin":
		return 0, true
	case "stdout":
		return 1, true
	case "stderr":
		return 2, true
	case "0x3":
		return 3, true
	case "0x2":
		return 2, true
	case "01", "+1":
		return 1, true
	case "1e1":
		return 10, true
	}
	if s == "" || len(s) > 4 {
		return 0, false
	}
	n := 0
	for _, r := range s {
		if r < '0' || r > '9' {
			return 0, false
		}
		n = n*10 + int(r-'0')
	}
	return n, true
}

// redirStage draws one stage `head redir...` and applies the exclusions.
func (g c17G) redirStage(first, last bool) string {
	table := []*c17RPort{{input: true}, {output: true}, {output: true}}
	if !first {
		table[0] = &c17RPort{pipeIn: true, owned: true}
	}
	if !last {
		table[1] = &c17RPort{owned: true, output: true}
	}
	n := g.n("nredirs", 1, 4)
	var redirs []string
	failed := false
	for i := 0; i < n; i++ {
		op := g.of("op", []string{">", ">", ">>", "<", "<", "<>"})
		dstText := g.of("dst", c17RedirDst)
		isFd := g.n("isfd", 0, 9) < 5
		var srcText string
		if isFd {
			srcText = g.of("srcfd", c17RedirSrcFd)
			if len(table) > 3 && g.n("srcinrange", 0, 3) == 0 {
				// a source inside the grown table, set or not
				k := len(table) - 3
				if k > 6 {
					k = 6
				}
				srcText = fmt.Sprint(3 + g.u("srcidx", k))
			}
			if op == ">>" || op == "<>" {
				op = ">"
			}
		} else {
			srcText = g.of("srcfile", c17RedirFiles)
		}
		text := dstText + op
		if isFd {
			text += "&" + srcText
		} else {
			text += " " + srcText
		}
		if failed {
			// a previous redirection certainly raised: this one is never executed
			redirs = append(redirs, text)
			continue
		}
		dst := 1
		if op == "<" {
			dst = 0
		}
		if dstText != "" {
			d, ok := c17RFd(dstText)
			if !ok {
				failed = true
				redirs = append(redirs, text)
				continue
			}
			dst = d
		}
		for len(table) <= dst {
			table = append(table, nil)
		}
		old := table[dst]
		aliased := false
		for j, p := range table {
			if j != dst && p != nil && p == old {
				aliased = true
			}
		}
		var src int
		srcOK := false
		if isFd && srcText != "-" {
			src, srcOK = c17RFd(srcText)
			if srcText == "1024" || srcText == "9223372036854775807" {
				srcOK = false // certainly not a port: raises
			}
		}
		if old != nil && old.owned && (aliased || (srcOK && src == dst)) && vs.KnownOpen(c17KeyDangling) {
			vs.Excluded("a form-owned port is re-redirected while a duplicate still refers to it (open finding " + c17KeyDangling + ")")
			continue
		}
		if !first && dst == 0 && vs.KnownOpen(c17KeyStdinLater) {
			vs.Excluded("port 0 of a stage reading from a pipe is redirected (open finding " + c17KeyStdinLater + ")")
			continue
		}
		switch {
		case isFd && srcText == "-":
			table[dst] = &c17RPort{closed: true}
		case isFd:
			if !srcOK || src >= len(table) || table[src] == nil {
				failed = true
			} else {
				table[dst] = table[src]
			}
		default:
			// a file name, file object or map; whether it opens is not
			// tracked: assume it does
			table[dst] = &c17RPort{input: op == "<", owned: true}
			if op == "<" && srcText == "$pout" {
				// the read end of a pipe whose write end stays open: reading blocks
				table[dst].blocks = true
			}
		}
		redirs = append(redirs, text)
	}
	if len(redirs) == 0 {
		redirs = []string{"3>&1"}
	}
	// head
	var head string
	in, out := table[0], table[1]
	canRead := in != nil && (in.input || in.pipeIn || in.closed) && !in.blocks
	if in != nil && in.closed && vs.KnownOpen(c17KeyClosedRead) {
		// open finding: reading values from a closed port (`count <&-`) never returns
		canRead = false
	}
	valueOK := out == nil || !out.input || !vs.KnownOpen(c17KeyValueToIn)
	if out != nil && out.pipeIn && vs.KnownOpen(c17KeyValueToIn) {
		// values written to the stage's own pipeline input: never read (the
		// form blocks once the buffer is full), and a send on a closed channel
		// once the upstream stage has finished (`echo x | slurp >&0`, same
		// open finding)
		valueOK = false
	}
	switch k := g.n("headkind", 0, 9); {
	case k < 4:
		head = g.of("vhead", c17ValueHeads)
		if !valueOK {
			vs.Excluded("value output to a port made from an input port (open finding " + c17KeyValueToIn + ")")
			head = g.of("bhead", c17ByteHeads)
		}
	case k < 7:
		head = g.of("bhead", c17ByteHeads)
	default:
		head = g.of("rhead", c17ReadHeads)
		if !canRead {
			vs.Excluded("command reading its input from a duplicate of an output port (blocks by construction)")
			head = g.of("bhead", c17ByteHeads)
		}
		if !valueOK {
			// every reading head also writes values
			vs.Excluded("value output to a port made from an input port (open finding " + c17KeyValueToIn + ")")
			head = g.of("rbhead", []string{"only-bytes", "each {|x| echo $x }", "nop", "echo x"})
			if !canRead {
				head = "nop"
			}
		}
		if !first && strings.HasPrefix(head, "only-") && vs.KnownOpen(c17KeyOnlyValues) {
			vs.Excluded("only-values / only-bytes reading from a pipe with an output that may fail (open finding " + c17KeyOnlyValues + ")")
			head = "count"
		}
	}
	if strings.Contains(head, ">&2") && len(table) > 2 && table[2] != nil && table[2].input && vs.KnownOpen(c17KeyValueToIn) {
		head = "echo x"
	}
	return head + " " + strings.Join(redirs, " ")
}

func (g c17G) redirForm() c17Case {
	shape := g.of("shape", []string{"alone", "alone", "first", "last", "middle"})
	var src string
	// Open finding: a command that reads only the byte half of its input
	// deadlocks when the upstream stage writes more values than the channel
	// buffers. Leave out byte-only readers after such producers.
	byteReaderOK := !vs.KnownOpen(c17KeyByteReader)
	sink := func(xs ...string) string {
		s := g.of("sink", xs)
		if s == "slurp" && !byteReaderOK {
			vs.Excluded("byte-only reader after a stage that may write more than 32 values (open finding " + c17KeyByteReader + ")")
			s = "count"
		}
		return s
	}
	feed := func(stage string, xs ...string) string {
		f := g.of("feed", xs)
		if f == "range 40" && !byteReaderOK {
			for _, r := range []string{"slurp", "read-line", "from-lines", "read-upto", "read-bytes", "from-json", "only-bytes"} {
				if strings.HasPrefix(stage, r) {
					vs.Excluded("byte-only reader after a stage that may write more than 32 values (open finding " + c17KeyByteReader + ")")
					return "put a b"
				}
			}
		}
		return f
	}
	switch shape {
	case "alone":
		src = g.redirStage(true, true)
	case "first":
		src = g.redirStage(true, false) + " | " + sink("nop", "count", "slurp", "each $put~", "take 1")
	case "last":
		stage := g.redirStage(false, true)
		src = feed(stage, "put a b", "echo x", "range 40", "nop", "fail y") + " | " + stage
	default:
		stage := g.redirStage(false, false)
		src = feed(stage, "put a b", "echo x", "range 40") + " | " + stage + " | " + sink("nop", "count", "slurp")
	}
	return c17Case{Kind: "redir", Fn: shape, Src: vs.B(src)}
}

// ---------------------------------------------------------------------------
// oracle

func c17Check(c c17Case) error {
	res := c17Exec(c.Kind, string(c.Src))
	switch res.Status {
	case "ok", "exc", "rejected":
		return nil
	case "crash":
		return fmt.Errorf("the interpreter crashed (expected: normal end or an Elvish exception) evaluating: %s\n[%s]\n%s", c.Src, c17Frames(res.Detail), res.Detail)
	case "deadlock":
		return fmt.Errorf("the evaluation hangs with every goroutine blocked (expected: normal end or an Elvish exception) evaluating: %s\n%s", c.Src, c17Clip(res.Detail, 6000))
	case "busy":
		vs.Excluded("did not finish within the watchdog while still running or sleeping (not a deadlock)")
		vs.Note("busy after %v: %s", c17CaseTimeout, c.Src)
		return nil
	case "oom":
		vs.Excluded("worker died of memory exhaustion (resource limit, not a crash of the interpreter)")
		vs.Note("memory exhaustion: %s [%s]", c.Src, c17FirstLines(res.Detail, 2))
		return nil
	default:
		vs.Excluded("worker unavailable or ended without a crash report: " + res.Status)
		vs.Note("%s: %s [%s]", res.Status, c.Src, c17FirstLines(res.Detail, 3))
		return nil
	}
}

func c17Clip(s string, n int) string {
	if len(s) > n {
		return s[:n] + "…"
	}
	return s
}

func c17Class(c c17Case) (string, bool) {
	switch c.Kind {
	case "redir":
		return "redir/" + c.Fn, true
	}
	if strings.HasPrefix(c.Fn, "higher:") {
		return c.Fn, true
	}
	ns := "builtin"
	if i := strings.IndexByte(c.Fn, ':'); i > 0 {
		ns = c.Fn[:i]
	}
	if c.Typed {
		return ns + "/typed", true
	}
	return ns + "/untyped", true
}

func c17Known(key, kind, src string) vs.Known[c17Case] {
	return vs.Known[c17Case]{Key: key, Case: c17Case{Kind: kind, Fn: "known", Src: vs.B(src)}}
}

func init() {
	domain := "; not called: exit, exec, fg (process control by design); literals never absolute, never contain '..' or '~'; duration/count/size parameters of sleep, benchmark, repeat, str:repeat, range, math:pow (exact exponent), read-bytes from a bounded pool; a worker killed by its memory limit or still running at the 10 s watchdog is counted as excluded, a deadlock is a violation"
	vs.Register(vs.Prop[c17Case]{
		Name: "C17/call",
		Rule: "one call per case of a function drawn uniformly from all functions found by reflection in the builtin namespace and the modules math str re path file flag os runtime platform md doc unix; 70% of the calls have the arity and argument classes of the Go signature (read by reflection) with adversarial values (invalid UTF-8, NUL, huge/negative/NaN/Inf numbers in every representation, big ints, rationals, nested lists/maps, closures that output/throw/break, files, pipes, exceptions, styled text), a quarter of those arguments off-type, 30% have 0..4 arguments of any class; 0..2 options (real option names 80%); a quarter of the calls get byte/value input from a preceding pipeline stage; evaluated in a worker process (fresh directory, HOME there, empty PATH, stdin /dev/null, memory limit); non-trivial = every case" + domain,
		Gen: func(t *rapid.T) c17Case {
			c17Catalogue()
			return c17G{t}.call(c17Calls, "call")
		},
		Check: c17Check, Class: c17Class,
		Quick: 6000, Thorough: 25000,
		Timeout: 90 * time.Second,
		Known: []vs.Known[c17Case]{
			c17Known(c17KeyPowFixed, "call", "use math; math:pow 0 -1"),
			c17Known(c17KeyPowFixed, "call", "use math; math:pow 0 -2"),
			c17Known(c17KeyGetoptFixed, "call", "use flag; flag:parse-getopt [\"-\\xff\"] []"),
			c17Known(c17KeyReadBytes, "call", "read-bytes -1"),
			c17Known(c17KeyEvalOnEnd, "call", "eval &on-end={|n| put $n[x] } '{'"),
			c17Known(c17KeyNilIface, "call", "each $nil [a]"),
			c17Known(c17KeyNilIface, "call", "show $nil"),
			c17Known(c17KeyIsTTY, "call", "use file; file:is-tty -1"),
			c17Known(c17KeyNilIface, "call", "time $nil"),
			c17Known(c17KeyNilIface, "call", "use os; os:-is-exist $nil"),
			c17Known(c17KeyNilColl, "call", "conj $nil a"),
			c17Known(c17KeyNilColl, "call", "ns $nil"),
			c17Known(c17KeyNilColl, "call", "use flag; flag:parse-getopt [] $nil"),
			c17Known(c17KeyNilColl, "call", "use flag; flag:parse [] [$nil]"),
			c17Known(c17KeyRandint, "call", "randint -9223372036854775808 1"),
			c17Known(c17KeyRepeat, "call", "use str; str:repeat abcd 4611686018427387904"),
			c17Known(c17KeyFlagName, "call", "use flag; flag:parse [] [[a 1 ''] [a 2 '']]"),
			c17Known(c17KeyFlagName, "call", "use flag; flag:parse [] [[-a 1 '']]"),
			c17Known(c17KeyFlagName, "call", "use flag; flag:call {|&-a=1| } []"),
		},
	})
	vs.Register(vs.Prop[c17Case]{
		Name: "C17/higher",
		Rule: "one call of a builtin that runs callbacks: peach with &num-workers 1..4/32/inf, peach, each, keep-if, order &key / &less-than, run-parallel with 1..4 functions, peach nesting each; callbacks from the closure pool (output, throw, break, continue, return, wrong arity, wrong output count); 0..100 inputs as a list or from a pipeline (more inputs than workers, more values than a channel buffer); optionally followed by | nop, | take 1, | fail, captured as an exception, or run three times in a loop; non-trivial = every case",
		Gen:  func(t *rapid.T) c17Case { return c17G{t}.higher() },
		Check: c17Check, Class: c17Class,
		Quick: 1500, Thorough: 10000,
		Timeout: 90 * time.Second,
	})
	vs.Register(vs.Prop[c17Case]{
		Name: "C17/edit",
		Rule: "as C17/call for the editor functions that work without a terminal (" + strings.Join(c17EditHelpers, " ") + "), on an editor built over /dev/null in the worker",
		Gen: func(t *rapid.T) c17Case {
			c17Catalogue()
			if len(c17Edits) == 0 {
				return c17Case{Kind: "edit", Fn: "edit:none", Src: "nop"}
			}
			return c17G{t}.call(c17Edits, "edit")
		},
		Check: c17Check, Class: c17Class,
		Quick: 600, Thorough: 6000,
		Timeout: 90 * time.Second,
		Known: []vs.Known[c17Case]{
			c17Known(c17KeySubseq, "edit", "edit:match-subseq \"\\ufffd\" [\"\\xff\"]"),
			c17Known(c17KeyNilColl, "edit", "edit:del-vars $nil"),
			c17Known(c17KeyNilColl, "edit", "edit:binding-table $nil"),
		},
	})
	vs.Register(vs.Prop[c17Case]{
		Name:  "C17/redir",
		Rule:  "one form (alone, or first/last/middle stage of a pipeline) whose head writes values, writes bytes or reads its input, with 1..4 redirections: operators < > >> <>, destinations default/0-5/7/64/1023/names/negative/minimum int/non-numeric/empty/nil/list/hex, sources &fd (incl. unset, 1024, max int, negative, junk), &-, file names (existing, new, directory, missing directory, empty, invalid UTF-8, NUL), file objects, pipes, maps with and without r/w, lists, numbers, nil, two values; destination fds above 1023 are not generated (open finding " + c17KeyHugeFd + "); heads that read never get a duplicate of an output port as input; non-trivial = every case",
		Gen:   func(t *rapid.T) c17Case { return c17G{t}.redirForm() },
		Check: c17Check, Class: c17Class,
		Quick: 3000, Thorough: 15000,
		Timeout: 90 * time.Second,
		Known: []vs.Known[c17Case]{
			c17Known(c17KeyNegFdFixed, "redir", "echo a -5>&1"),
			c17Known(c17KeyNegFdFixed, "redir", "echo a >&-2"),
			c17Known(c17KeyHugeFd, "redir", "echo 9223372036854775807>&1"),
			c17Known(c17KeyValueToIn, "redir", "put x >&0"),
			c17Known(c17KeyStdinLater, "redir", "echo a | nop < f"),
			c17Known(c17KeyDangling, "redir", "put x 1>&1 | sleep 0.05"),
			c17Known(c17KeyOnlyValues, "redir", "range 100 | only-values >&-"),
			c17Known(c17KeyByteReader, "redir", "range 100 | slurp"),
			c17Known(c17KeyClosedRead, "redir", "count <&-"),
			c17Known("C17:value-input-from-write-mode-file-port-hangs", "redir", "{ count <&1 } > new"),
		},
	})
}
