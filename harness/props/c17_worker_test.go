package props

// Worker process of C17 and its management in the parent.
//
// The parent (the test binary running a C17 sub-check) re-executes itself with
// VERIF_WORKER=c17. Requests go to the child over fd 3, replies come back over
// fd 4, one line each; the child's stderr is captured so that the Go runtime's
// "panic: ..." / "fatal error: ..." report is available when the child dies.
//
// Safety of the machine (the programs are adversarial calls of os:remove-all,
// os:chmod, cd, set-env, eval ... and the harness may run as root):
//   - every case runs in its own fresh directory below a fresh base directory,
//     HOME, TMPDIR and all XDG dirs point there, PATH points to a directory
//     that does not exist, so no external command can be found;
//   - generated strings never start with '/', never contain "..", '~' or the
//     names of process-control commands (enforced by c17Safe on every literal);
//   - exit, exec and fg are not called and are replaced by no-ops in the worker;
//   - when the harness runs as root the worker drops to uid/gid 65534 before
//     evaluating anything;
//   - RLIMIT_AS bounds memory, RLIMIT_CORE is 0, RLIMIT_FSIZE bounds files.

import (
	"bufio"
	"bytes"
	"encoding/base64"
	"encoding/json"
	"fmt"
	"io"
	"os"
	"os/exec"
	"os/signal"
	"path/filepath"
	"regexp"
	"runtime"
	"sort"
	"strings"
	"sync"
	"syscall"
	"time"

	"src.elv.sh/pkg/cli"
	"src.elv.sh/pkg/edit"
	"src.elv.sh/pkg/eval"
	"src.elv.sh/pkg/eval/vals"
	"src.elv.sh/pkg/eval/vars"
	"src.elv.sh/pkg/parse"
	"verif/elv"
	"verif/vs"
)

func init() { workers["c17"] = c17WorkerMain }

type c17Req struct {
	ID        int    `json:"id"`
	Kind      string `json:"kind"` // call | edit | redir
	Src       vs.B   `json:"src"`
	TimeoutMs int    `json:"timeout_ms"`
}

const (
	c17CaseTimeout  = 10 * time.Second
	c17MemLimit     = 4 << 30
	c17FileLimit    = 256 << 20
	c17RecycleAfter = 400
)

// ---------------------------------------------------------------------------
// child

func c17WorkerMain() int {
	base := os.Getenv("VERIF_C17_BASE")
	if base == "" || !strings.HasPrefix(filepath.Base(base), "verif-c17-") {
		fmt.Fprintln(os.Stderr, "c17 worker: refusing to run without a sandbox directory")
		return 2
	}
	in := os.NewFile(3, "requests")
	out := os.NewFile(4, "replies")
	if in == nil || out == nil {
		return 2
	}
	c17Debug = os.Getenv("VERIF_C17_DEBUG") != ""
	c17Limits()
	// exceeding RLIMIT_FSIZE must be an EFBIG error, not a fatal signal
	signal.Ignore(syscall.SIGXFSZ, syscall.SIGPIPE)
	c17DropPrivileges()
	if err := os.Chdir(base); err != nil {
		fmt.Fprintln(os.Stderr, "c17 worker: cannot enter sandbox:", err)
		return 2
	}
	defer c17RemoveAll(base)

	rd := bufio.NewReaderSize(in, 1<<20)
	for {
		line, err := rd.ReadBytes('\n')
		if err != nil {
			return 0 // parent closed the request pipe
		}
		var req c17Req
		if json.Unmarshal(line, &req) != nil {
			continue
		}
		status := c17RunCase(base, req, out)
		fmt.Fprintf(out, "R %d %s\n", req.ID, status)
	}
}

func c17Limits() {
	syscall.Setrlimit(syscall.RLIMIT_AS, &syscall.Rlimit{Cur: c17MemLimit, Max: c17MemLimit})
	syscall.Setrlimit(syscall.RLIMIT_CORE, &syscall.Rlimit{Cur: 0, Max: 0})
	syscall.Setrlimit(syscall.RLIMIT_FSIZE, &syscall.Rlimit{Cur: c17FileLimit, Max: c17FileLimit})
}

func c17DropPrivileges() {
	if os.Geteuid() != 0 {
		return
	}
	const nobody = 65534
	syscall.Setgroups([]int{})
	if err := syscall.Setgid(nobody); err != nil {
		return
	}
	if err := syscall.Setuid(nobody); err != nil {
		return
	}
	// keep /proc/self readable after the uid change
	syscall.RawSyscall(syscall.SYS_PRCTL, 4 /* PR_SET_DUMPABLE */, 1, 0)
}

// c17RemoveAll removes a tree even if the case made parts of it inaccessible.
func c17RemoveAll(dir string) {
	if os.RemoveAll(dir) == nil {
		return
	}
	filepath.Walk(dir, func(p string, fi os.FileInfo, err error) error {
		if fi != nil && fi.IsDir() {
			os.Chmod(p, 0o700)
		}
		return nil
	})
	// a second walk for directories that were unreadable the first time
	filepath.Walk(dir, func(p string, fi os.FileInfo, err error) error {
		if fi != nil && fi.IsDir() {
			os.Chmod(p, 0o700)
		}
		return nil
	})
	os.RemoveAll(dir)
}

var c17DevNullW *os.File
var c17Debug bool

func c17RunCase(base string, req c17Req, out *os.File) string {
	// The case directory of the previous case is reused when that case left it
	// exactly as it was made (most calls do not touch the file system).
	dir := c17Sandbox.dir
	if dir == "" || !c17SandboxIntact() {
		if dir != "" {
			os.Chdir(base)
			c17RemoveAll(dir)
		}
		dir = filepath.Join(base, fmt.Sprintf("c%d", req.ID))
		if !c17SandboxMake(dir) {
			c17Sandbox.dir = ""
			return "skip-sandbox"
		}
	}
	if err := os.Chdir(dir); err != nil {
		c17Sandbox.dir = ""
		return "skip-sandbox"
	}

	os.Clearenv()
	for k, v := range map[string]string{
		"HOME": dir, "TMPDIR": dir, "PATH": filepath.Join(dir, "no-such-bin"),
		"XDG_CONFIG_HOME": dir, "XDG_DATA_HOME": dir, "XDG_STATE_HOME": dir, "XDG_RUNTIME_DIR": dir,
		"LANG": "C.UTF-8", "SHLVL": "1",
	} {
		os.Setenv(k, v)
	}
	syscall.Umask(0o022)

	if c17DevNullW == nil {
		c17DevNullW, _ = os.OpenFile(os.DevNull, os.O_WRONLY, 0)
	}
	fo, _ := os.Open("f")
	fw, _ := os.OpenFile("w", os.O_WRONLY, 0)
	pinR, pinW, _ := os.Pipe()
	poutR, poutW, _ := os.Pipe()
	if pinW != nil {
		pinW.WriteString("pipe data\n")
		pinW.Close()
	}
	closeAll := func() {
		for _, f := range []*os.File{fo, fw, pinR, poutR, poutW} {
			if f != nil {
				f.Close()
			}
		}
	}

	ev := elv.New()
	noop := func(...any) {}
	ev.ExtendBuiltin(eval.BuildNs().AddGoFns(map[string]any{"exit": noop, "exec": noop, "fg": noop}))
	if req.Kind == "edit" {
		devnullR, _ := os.Open(os.DevNull)
		if devnullR != nil {
			defer devnullR.Close()
		}
		ed := edit.NewEditor(cli.NewTTY(devnullR, c17DevNullW), ev, nil)
		ev.ExtendBuiltin(eval.BuildNs().AddNs("edit", ed))
	}
	global := eval.BuildNs().
		AddVar("fo", vars.FromInit(fo)).AddVar("fw", vars.FromInit(fw)).
		AddVar("pin", vars.FromInit(vals.Pipe{R: pinR, W: pinW})).
		AddVar("pout", vars.FromInit(vals.Pipe{R: poutR, W: poutW})).Ns()
	outPort := &eval.Port{File: c17DevNullW, Chan: eval.BlackholeChan}
	cfg := eval.EvalCfg{Ports: []*eval.Port{eval.DummyInputPort, outPort, outPort}, Global: global}

	done := make(chan string, 1)
	go func() {
		err := ev.Eval(parse.Source{Name: "[c17]", Code: string(req.Src)}, cfg)
		switch {
		case err == nil:
			done <- "ok"
		case elv.IsException(err):
			if c17Debug {
				fmt.Fprintf(os.Stderr, "exception: %v\n", err)
			}
			done <- "exc"
		default:
			done <- "rejected"
		}
	}()
	timeout := c17CaseTimeout
	if req.TimeoutMs > 0 {
		timeout = time.Duration(req.TimeoutMs) * time.Millisecond
	}
	timer := time.NewTimer(timeout)
	defer timer.Stop()
	var status string
	select {
	case status = <-done:
	case <-timer.C:
		kind, dump := c17HangKind()
		fmt.Fprintf(out, "H %d %s %s\n", req.ID, kind, base64.StdEncoding.EncodeToString([]byte(dump)))
		os.Chdir(base)
		c17RemoveAll(base)
		os.Exit(0)
	}
	closeAll()
	os.Chdir(base)
	// ask to be replaced when earlier cases left many descriptors or goroutines behind
	c17Sandbox.served++
	if c17Sandbox.served%16 == 0 {
		if ents, err := os.ReadDir("/proc/self/fd"); (err == nil && len(ents) > 200) || runtime.NumGoroutine() > 300 {
			status += " recycle"
		}
	}
	return status
}

// The reusable case directory and what it must look like to be reused.
var c17Sandbox struct {
	dir    string
	served int
	stamp  map[string]c17Stamp
}

type c17Stamp struct {
	size  int64
	mode  os.FileMode
	mtime time.Time
}

var c17SandboxFiles = []struct{ name, content string }{
	{"f", "line1\nline2\n"}, {"w", ""}, {"e", ""}, {"d/g", "g\n"}, {"m.elv", "fn f { put m }\nvar v = 1\n"},
}

func c17SandboxMake(dir string) bool {
	if err := os.Mkdir(dir, 0o755); err != nil {
		return false
	}
	os.Mkdir(filepath.Join(dir, "d"), 0o755)
	for _, f := range c17SandboxFiles {
		os.WriteFile(filepath.Join(dir, f.name), []byte(f.content), 0o644)
	}
	c17Sandbox.dir = dir
	c17Sandbox.stamp = map[string]c17Stamp{}
	for _, n := range []string{".", "d", "f", "w", "e", "d/g", "m.elv"} {
		fi, err := os.Lstat(filepath.Join(dir, n))
		if err != nil {
			return false
		}
		c17Sandbox.stamp[n] = c17Stamp{fi.Size(), fi.Mode(), fi.ModTime()}
	}
	return true
}

// c17SandboxIntact reports whether the case directory still has exactly the
// entries, sizes, modes and modification times it was made with.
func c17SandboxIntact() bool {
	dir := c17Sandbox.dir
	for n, want := range c17Sandbox.stamp {
		fi, err := os.Lstat(filepath.Join(dir, n))
		if err != nil || fi.Mode() != want.mode || !fi.ModTime().Equal(want.mtime) {
			return false
		}
		if !fi.IsDir() && fi.Size() != want.size {
			return false
		}
	}
	// directory mtimes cover added and removed entries; check the counts too
	for n, cnt := range map[string]int{".": 5, "d": 1} {
		ents, err := os.ReadDir(filepath.Join(dir, n))
		if err != nil || len(ents) != cnt {
			return false
		}
	}
	return true
}

var c17GoroutineHeader = regexp.MustCompile(`^goroutine (\d+) \[([^\],]+)[^\]]*\]:`)

type c17Goroutine struct {
	id, state string
	frames    string
	harness   bool
}

func c17ParseStacks(dump string) map[string]c17Goroutine {
	out := map[string]c17Goroutine{}
	for _, blk := range strings.Split(dump, "\n\n") {
		blk = strings.TrimSpace(blk)
		m := c17GoroutineHeader.FindStringSubmatch(blk)
		if m == nil {
			continue
		}
		var frames []string
		for _, l := range strings.Split(blk, "\n")[1:] {
			if strings.HasPrefix(l, "\t") || strings.HasPrefix(l, "created by") {
				continue
			}
			if i := strings.LastIndexByte(l, '('); i > 0 {
				l = l[:i]
			}
			frames = append(frames, l)
		}
		g := c17Goroutine{id: m[1], state: m[2], frames: strings.Join(frames, ";")}
		// goroutines of the worker itself and permanent service goroutines
		g.harness = strings.Contains(blk, "props.c17WorkerMain") || strings.Contains(blk, "props.c17HangKind") ||
			strings.Contains(blk, "eval.getBlackholeChan") || strings.Contains(blk, "os/signal.") ||
			strings.Contains(blk, "testing.") && !strings.Contains(blk, "src.elv.sh/")
		out[g.id] = g
	}
	return out
}

var c17BlockedStates = map[string]bool{
	"chan receive": true, "chan send": true, "select": true, "select (no cases)": true,
	"semacquire": true, "sync.Mutex.Lock": true, "sync.RWMutex.RLock": true, "sync.RWMutex.Lock": true,
	"sync.WaitGroup.Wait": true, "sync.Cond.Wait": true, "IO wait": true,
	"chan receive (nil chan)": true, "chan send (nil chan)": true,
}

// c17HangKind decides, from two goroutine dumps half a second apart, whether
// the evaluation is deadlocked (every goroutine it started is parked on a
// channel, lock, wait group or internal pipe, unchanged between the dumps) or
// merely still busy / sleeping.
func c17HangKind() (string, string) {
	grab := func() string {
		buf := make([]byte, 4<<20)
		return string(buf[:runtime.Stack(buf, true)])
	}
	d1 := grab()
	time.Sleep(500 * time.Millisecond)
	d2 := grab()
	g1, g2 := c17ParseStacks(d1), c17ParseStacks(d2)
	n := 0
	for id, a := range g2 {
		if a.harness {
			continue
		}
		n++
		b, ok := g1[id]
		if !ok || !c17BlockedStates[a.state] || a.state != b.state || a.frames != b.frames {
			return "busy", d2
		}
	}
	if n == 0 {
		return "busy", d2
	}
	return "deadlock", d2
}

// ---------------------------------------------------------------------------
// parent

type c17Result struct {
	Status string // ok | exc | rejected | crash | deadlock | busy | oom | gone | skip
	Detail string // panic message / goroutine dump
}

type c17Tail struct {
	mu  sync.Mutex
	buf []byte
}

func (t *c17Tail) Write(p []byte) (int, error) {
	t.mu.Lock()
	defer t.mu.Unlock()
	t.buf = append(t.buf, p...)
	if len(t.buf) > 1<<20 {
		// keep the beginning (the panic message) and the end
		t.buf = append(t.buf[:256<<10], t.buf[len(t.buf)-(256<<10):]...)
	}
	return len(p), nil
}

func (t *c17Tail) String() string {
	t.mu.Lock()
	defer t.mu.Unlock()
	return string(t.buf)
}

type c17Worker struct {
	cmd    *exec.Cmd
	req    *os.File
	lines  chan string
	stderr *c17Tail
	base   string
	served int
	nextID int
}

var (
	c17Mu sync.Mutex
	c17W  *c17Worker
)

func c17Start() (*c17Worker, error) {
	base, err := os.MkdirTemp("", "verif-c17-")
	if err != nil {
		return nil, err
	}
	os.Chmod(base, 0o755)
	if os.Geteuid() == 0 {
		os.Chown(base, 65534, 65534)
	}
	reqR, reqW, err := os.Pipe()
	if err != nil {
		os.RemoveAll(base)
		return nil, err
	}
	repR, repW, err := os.Pipe()
	if err != nil {
		reqR.Close()
		reqW.Close()
		os.RemoveAll(base)
		return nil, err
	}
	w := &c17Worker{req: reqW, lines: make(chan string, 4), stderr: &c17Tail{}, base: base}
	cmd := exec.Command(os.Args[0])
	cmd.Env = append(os.Environ(), "VERIF_WORKER=c17", "VERIF_C17_BASE="+base, "GOTRACEBACK=single")
	cmd.ExtraFiles = []*os.File{reqR, repW}
	cmd.Stderr = w.stderr
	cmd.Dir = base
	cmd.SysProcAttr = &syscall.SysProcAttr{Setpgid: true}
	if err := cmd.Start(); err != nil {
		reqR.Close()
		reqW.Close()
		repR.Close()
		repW.Close()
		os.RemoveAll(base)
		return nil, err
	}
	reqR.Close()
	repW.Close()
	w.cmd = cmd
	go func() {
		rd := bufio.NewReaderSize(repR, 8<<20)
		for {
			line, err := rd.ReadString('\n')
			if line != "" {
				w.lines <- strings.TrimRight(line, "\n")
			}
			if err != nil {
				break
			}
		}
		repR.Close()
		close(w.lines)
	}()
	return w, nil
}

// stop ends the worker (gracefully if it is still alive) and removes its sandbox.
func (w *c17Worker) stop(kill bool) {
	if kill {
		syscall.Kill(-w.cmd.Process.Pid, syscall.SIGKILL)
		w.cmd.Process.Kill()
	}
	w.req.Close()
	waited := make(chan struct{})
	go func() { w.cmd.Wait(); close(waited) }()
	select {
	case <-waited:
	case <-time.After(15 * time.Second):
		syscall.Kill(-w.cmd.Process.Pid, syscall.SIGKILL)
		w.cmd.Process.Kill()
		<-waited
	}
	c17RemoveAll(w.base)
}

// c17Exec runs one program in the worker and classifies what happened.
func c17Exec(kind, src string) c17Result {
	c17Mu.Lock()
	defer c17Mu.Unlock()
	if c17W != nil && c17W.served >= c17RecycleAfter {
		c17W.stop(false)
		c17W = nil
	}
	if c17W == nil {
		w, err := c17Start()
		if err != nil {
			return c17Result{Status: "skip", Detail: "cannot start worker: " + err.Error()}
		}
		c17W = w
	}
	w := c17W
	w.nextID++
	w.served++
	id := w.nextID
	line, _ := json.Marshal(c17Req{ID: id, Kind: kind, Src: vs.B(src), TimeoutMs: int(c17CaseTimeout / time.Millisecond)})
	if _, err := w.req.Write(append(line, '\n')); err != nil {
		// the worker is gone already (it cannot have been this case)
		w.stop(true)
		c17W = nil
		return c17Result{Status: "skip", Detail: "worker pipe closed: " + err.Error()}
	}
	timer := time.NewTimer(c17CaseTimeout + 20*time.Second)
	defer timer.Stop()
	select {
	case reply, ok := <-w.lines:
		if !ok {
			return c17Died(w)
		}
		f := strings.SplitN(reply, " ", 4)
		switch {
		case len(f) >= 3 && f[0] == "R":
			if strings.Contains(reply, "recycle") {
				w.stop(false)
				c17W = nil
			}
			return c17Result{Status: f[2]}
		case len(f) >= 4 && f[0] == "H":
			dump, _ := base64.StdEncoding.DecodeString(f[3])
			w.stop(false)
			c17W = nil
			return c17Result{Status: f[2], Detail: string(dump)}
		}
		w.stop(true)
		c17W = nil
		return c17Result{Status: "skip", Detail: "unintelligible reply " + reply}
	case <-timer.C:
		// not even the worker's own watchdog answered
		w.stop(true)
		c17W = nil
		return c17Result{Status: "busy", Detail: "worker unresponsive, killed"}
	}
}

func c17Died(w *c17Worker) c17Result {
	err := w.cmd.Wait()
	c17W = nil
	msg := w.stderr.String()
	c17RemoveAll(w.base)
	w.req.Close()
	sig := ""
	if ee, ok := err.(*exec.ExitError); ok {
		if ws, ok := ee.Sys().(syscall.WaitStatus); ok && ws.Signaled() {
			sig = ws.Signal().String()
		}
	}
	switch {
	case strings.Contains(msg, "out of memory") || strings.Contains(msg, "cannot allocate memory") ||
		strings.Contains(msg, "failed to reserve") || strings.Contains(msg, "runtime: VirtualAlloc"):
		return c17Result{Status: "oom", Detail: c17FirstLines(msg, 6)}
	case strings.Contains(msg, "panic:") || strings.Contains(msg, "fatal error:") || strings.Contains(msg, "[signal SIG") ||
		strings.Contains(msg, "goroutine ") && strings.Contains(msg, "[running]"):
		return c17Result{Status: "crash", Detail: c17PanicExcerpt(msg)}
	case sig == "killed":
		return c17Result{Status: "oom", Detail: "worker killed by SIGKILL"}
	}
	return c17Result{Status: "gone", Detail: fmt.Sprintf("worker ended (%v) without a Go crash report; stderr: %s", err, c17FirstLines(msg, 6))}
}

func c17FirstLines(s string, n int) string {
	lines := strings.Split(strings.TrimSpace(s), "\n")
	if len(lines) > n {
		lines = lines[:n]
	}
	return strings.Join(lines, "\n")
}

// c17PanicExcerpt returns the panic / fatal error message and the top of the
// stack of the crashing goroutine.
func c17PanicExcerpt(msg string) string {
	i := strings.Index(msg, "panic:")
	if j := strings.Index(msg, "fatal error:"); j >= 0 && (i < 0 || j < i) {
		i = j
	}
	if i < 0 {
		i = 0
	}
	return c17FirstLines(msg[i:], 24)
}

// c17Frames lists the interpreter functions on the crashing stack (for messages).
func c17Frames(detail string) string {
	var fs []string
	for _, l := range strings.Split(detail, "\n") {
		if strings.HasPrefix(l, "src.elv.sh/") {
			if i := strings.LastIndexByte(l, '('); i > 0 {
				l = l[:i]
			}
			fs = append(fs, strings.TrimPrefix(l, "src.elv.sh/"))
		}
		if len(fs) >= 4 {
			break
		}
	}
	return strings.Join(fs, " < ")
}

var _ = io.EOF
var _ = bytes.MinRead
var _ = sort.Strings
