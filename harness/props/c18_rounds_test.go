package props

// C18/rounds: schedule-dependent hangs of the reader-gone protocol.
//
// A stage whose reader has exited must observe that the reader is gone; with
// several goroutines of ONE stage writing at the same time (peach callbacks,
// run-parallel functions) the observation races with the writes. Such a race
// shows once in hundreds or thousands of executions, so a case here is one
// small pipeline executed many times in a row in the same interpreter; every
// round must finish, report no exception (reader-gone is not an error) and
// deliver what the last stage is specified to output.
//
// A round that does not finish is only reported when the interpreter is
// deadlocked, not when it is slow: two goroutine dumps taken seconds apart must
// both show every goroutine that is inside the interpreter blocked (channel
// operation, wait group, mutex, idle pipe read) in the same place.

import (
	"fmt"
	"regexp"
	"runtime"
	"sort"
	"strconv"
	"strings"
	"time"

	"pgregory.net/rapid"
	"src.elv.sh/pkg/eval"
	"src.elv.sh/pkg/eval/vals"
	"src.elv.sh/pkg/parse"
	"verif/elv"
	"verif/vs"
)

type c18RoundsCase struct {
	Procs  int `json:"procs"`
	N      int `json:"n"`      // inputs of the concurrent stage
	Mid    int `json:"mid"`    // index into c18RoundMids
	Last   int `json:"last"`   // index into c18RoundLasts
	Rounds int `json:"rounds"` // executions
}

// %N is replaced by the number of inputs.
var c18RoundMids = []string{
	"range %N | peach {|x| put $x }",
	"range %N | peach {|x| put $x; put $x }",
	"range %N | peach &num-workers=4 {|x| put $x }",
	"range %N | peach {|x| echo $x }",
	"range %N | peach {|x| put $x; echo $x }",
	"run-parallel { range %N } { range %N } { range %N }",
	"run-parallel { range %N | each {|x| put $x } } { range %N | each {|x| echo $x } }",
	"range %N | peach {|x| put $x } | each {|x| put $x }",
}

type c18RoundLast struct {
	src    string
	values int // number of values the pipeline must output
}

var c18RoundLasts = []c18RoundLast{
	{"nop", 0},
	{"take 1", -1}, // one value if the upstream writes values at all
	{"put done", 1},
	{"{ }", 0},
	{"take 0", 0},
}

func c18RoundCode(c c18RoundsCase) string {
	mid := c18RoundMids[c.Mid%len(c18RoundMids)]
	return strings.ReplaceAll(mid, "%N", strconv.Itoa(c.N)) + " | " + c18RoundLasts[c.Last%len(c18RoundLasts)].src
}

var c18GoroutineHead = regexp.MustCompile(`^goroutine (\d+) \[([^\],]*)`)

// c18InterpreterBlocked reports whether every goroutine with a frame of the
// interpreter is blocked, and a signature of where.
func c18InterpreterBlocked() (sig string, blocked bool, dump string) {
	return blockedGoroutines("src.elv.sh/pkg/eval")
}

// blockedGoroutines looks at every goroutine that has a frame in one of the
// given packages: blocked = all of them are waiting (channel operation, select,
// sync primitive, idle network/pipe read) and none is running, runnable, in a
// system call or sleeping on a timer; sig tells where each one waits.
func blockedGoroutines(pkgs ...string) (sig string, blocked bool, dump string) {
	buf := make([]byte, 8<<20)
	buf = buf[:runtime.Stack(buf, true)]
	blocked = true
	var parts []string
	var shown []string
	for _, g := range strings.Split(string(buf), "\n\n") {
		in := false
		for _, p := range pkgs {
			in = in || strings.Contains(g, p)
		}
		if !in {
			continue
		}
		m := c18GoroutineHead.FindStringSubmatch(g)
		if m == nil {
			continue
		}
		state := m[2]
		switch {
		case strings.HasPrefix(state, "chan "), state == "select", strings.HasPrefix(state, "sync."), strings.HasPrefix(state, "semacquire"), state == "IO wait":
		default:
			blocked = false // running, runnable, syscall, sleep, GC: progress is possible
		}
		lines := strings.Split(g, "\n")
		top := ""
		if len(lines) > 1 {
			top = lines[1]
		}
		parts = append(parts, m[1]+":"+state+":"+top)
		if len(lines) > 9 {
			lines = lines[:9]
		}
		shown = append(shown, strings.Join(lines, "\n"))
	}
	sort.Strings(parts)
	if len(shown) > 12 {
		shown = shown[:12]
	}
	return strings.Join(parts, "|"), blocked && len(parts) > 0, strings.Join(shown, "\n\n")
}

func c18RoundsCheck(c c18RoundsCase) error {
	if c.Procs >= 1 {
		defer runtime.GOMAXPROCS(runtime.GOMAXPROCS(c.Procs))
	}
	ev := elv.New()
	code := c18RoundCode(c)
	last := c18RoundLasts[c.Last%len(c18RoundLasts)]
	src := parse.Source{Name: "[verif]", Code: code}
	type result struct {
		values []any
		err    error
	}
	for round := 0; round < c.Rounds; round++ {
		done := make(chan result, 1)
		go func() {
			ch := make(chan any, 8)
			var values []any
			collected := make(chan struct{})
			go func() {
				for v := range ch {
					values = append(values, v)
				}
				close(collected)
			}()
			err := ev.Eval(src, eval.EvalCfg{Ports: []*eval.Port{nil, {File: eval.DevNull, Chan: ch}, nil}})
			close(ch)
			<-collected
			done <- result{values, err}
		}()
		var res result
		select {
		case res = <-done:
		case <-time.After(20 * time.Second):
			// slow or deadlocked?
			sig1, b1, _ := c18InterpreterBlocked()
			select {
			case res = <-done:
				goto finished
			case <-time.After(4 * time.Second):
			}
			sig2, b2, dump := c18InterpreterBlocked()
			if b1 && b2 && sig1 == sig2 {
				return fmt.Errorf("round %d of %d: the pipeline never finishes: every goroutine of the interpreter is blocked, in the same place 20 s and 24 s after the start\npipeline: %s\n%s", round, c.Rounds, code, dump)
			}
			select {
			case res = <-done:
			case <-time.After(90 * time.Second):
				vs.Excluded("a round did not finish within 114 s while goroutines were still runnable (slow machine, not a deadlock)")
				return nil
			}
		}
	finished:
		if res.err != nil {
			return fmt.Errorf("round %d of %d: the pipeline reported %v; no stage throws, and a reader that is gone is not an error\npipeline: %s", round, c.Rounds, res.err, code)
		}
		want := last.values
		if want >= 0 && len(res.values) != want {
			return fmt.Errorf("round %d of %d: the last stage outputs %d value(s), observed %d: %s\npipeline: %s", round, c.Rounds, want, len(res.values), elv.Reprs(res.values), code)
		}
		if want < 0 && len(res.values) > 1 {
			return fmt.Errorf("round %d of %d: take 1 output %d values: %s\npipeline: %s", round, c.Rounds, len(res.values), elv.Reprs(res.values), code)
		}
		if last.src == "put done" && vals.ToString(res.values[0]) != "done" {
			return fmt.Errorf("round %d of %d: output %s, want done\npipeline: %s", round, c.Rounds, elv.Reprs(res.values), code)
		}
	}
	return nil
}

func init() {
	vs.Register(vs.Prop[c18RoundsCase]{
		Name: "C18/rounds",
		Rule: "one pipeline whose middle stage writes from several goroutines at once (peach callbacks with and without a worker bound, run-parallel functions; 33..200 values and/or byte lines, more than the 32-value buffer) in front of a stage that exits without reading (nop, take 0/1, put, empty block), executed 150..400 times in a row at GOMAXPROCS 2..16; every round must finish without exception and with the last stage's output; a round that does not finish is a violation only if two goroutine dumps 4 s apart show every interpreter goroutine blocked in the same place; non-trivial = every case (each is >= 150 executions)",
		Gen: func(t *rapid.T) c18RoundsCase {
			return c18RoundsCase{
				Procs:  rapid.SampledFrom([]int{2, 4, 8, 16}).Draw(t, "procs"),
				N:      rapid.SampledFrom([]int{33, 34, 40, 64, 65, 100, 100, 200}).Draw(t, "n"),
				Mid:    rapid.IntRange(0, len(c18RoundMids)-1).Draw(t, "mid"),
				Last:   rapid.IntRange(0, len(c18RoundLasts)-1).Draw(t, "last"),
				Rounds: rapid.SampledFrom([]int{150, 250, 400}).Draw(t, "rounds"),
			}
		},
		Check: c18RoundsCheck,
		Class: func(c c18RoundsCase) (string, bool) {
			return fmt.Sprintf("mid%d/%s", c.Mid%len(c18RoundMids), c18RoundLasts[c.Last%len(c18RoundLasts)].src), true
		},
		Quick: 40, Thorough: 400,
		Timeout: 300 * time.Second,
		Known: []vs.Known[c18RoundsCase]{
			{Key: "C18:run-parallel-reader-gone", Case: c18RoundsCase{Procs: 2, N: 33, Mid: 5, Last: 0, Rounds: 20}},
			{Key: "C18:run-parallel-reader-gone", Case: c18RoundsCase{Procs: 4, N: 100, Mid: 6, Last: 1, Rounds: 20}},
		},
	})
}

// ---- C18/values: every kind of value passes through a pipe -------------------------
//
// The stream model of C18/pipelines carries strings only. Here the payload is a
// sequence of 0..60 values of mixed kinds - strings, $nil, booleans, numbers,
// empty and non-empty lists and maps - written by a harness command (or by put)
// and read to the end by a stage that must see every one of them exactly once,
// in order: $nil in particular is a value, not the end of the stream.

type c18ValuesCase struct {
	Kinds  []int `json:"kinds"`  // per value: index into c18ValueSrcs
	Reader int   `json:"reader"` // index into c18ValueReaders
	ByPut  bool  `json:"by_put"` // written by `put ...` instead of the harness command
}

var c18ValueSrcs = []string{"a", "$nil", "$nil", "$true", "$false", "(num 0)", "(num 1)", "''", "[]", "[&]", "[a]", "[&k=v]", "b"}

// each reader reproduces its input as one list [v0 v1 ...] (count: the number)
var c18ValueReaders = []string{
	"put [(all)]",
	"put [(each {|x| put $x })]",
	"count",
	"put [(take 1000)]",
	"each {|x| put $x } | put [(all)]",
	"put [(peach &num-workers=1 {|x| put $x })]",
	"put [(drop 0)]",
}

func c18ValuesCheck(c c18ValuesCase) error {
	ev := elv.New()
	var srcs []string
	for _, k := range c.Kinds {
		srcs = append(srcs, c18ValueSrcs[((k%len(c18ValueSrcs))+len(c18ValueSrcs))%len(c18ValueSrcs)])
	}
	list := "[" + strings.Join(srcs, " ") + "]"
	reader := c18ValueReaders[((c.Reader%len(c18ValueReaders))+len(c18ValueReaders))%len(c18ValueReaders)]
	writer := "all " + list
	if c.ByPut && len(srcs) > 0 {
		writer = "put " + strings.Join(srcs, " ")
	}
	code := "var want = " + list + "\n" + writer + " | " + reader
	res := elv.Run(ev, code)
	if res.Err != nil {
		return fmt.Errorf("`%s` raised %v", code, res.Err)
	}
	if len(res.Values) != 1 {
		return fmt.Errorf("`%s` output %d values: %s", code, len(res.Values), elv.Reprs(res.Values))
	}
	if reader == "count" {
		if n, ok := res.Values[0].(int); !ok || n != len(srcs) {
			return fmt.Errorf("`%s`: count is %s, %d values were written", code, elv.Reprs(res.Values), len(srcs))
		}
		return nil
	}
	want := elv.Run(ev, "put "+list)
	if want.Err != nil || len(want.Values) != 1 {
		return fmt.Errorf("harness: cannot evaluate %s: %v", list, want.Err)
	}
	if !vals.Equal(res.Values[0], want.Values[0]) {
		return fmt.Errorf("`%s`: the reader saw %s, the writer wrote %s", code, vals.ReprPlain(res.Values[0]), vals.ReprPlain(want.Values[0]))
	}
	return nil
}

func init() {
	vs.Register(vs.Prop[c18ValuesCase]{
		Name: "C18/values",
		Rule: "0..60 values of mixed kinds (strings, $nil, booleans, numbers, empty string, empty and non-empty lists and maps) written into a pipe by `all <list>` or `put ...` and read to the end by all / each / count / take / drop / peach with one worker / a two-stage reader; the reader must see exactly the written sequence; non-trivial = at least one $nil or empty container among the values",
		Gen: func(t *rapid.T) c18ValuesCase {
			n := rapid.SampledFrom([]int{0, 1, 2, 3, 5, 8, 31, 32, 33, 34, 40, 60}).Draw(t, "n")
			c := c18ValuesCase{Reader: rapid.IntRange(0, len(c18ValueReaders)-1).Draw(t, "reader"), ByPut: rapid.Bool().Draw(t, "byput")}
			for i := 0; i < n; i++ {
				c.Kinds = append(c.Kinds, rapid.IntRange(0, len(c18ValueSrcs)-1).Draw(t, "kind"))
			}
			return c
		},
		Check: c18ValuesCheck,
		Class: func(c c18ValuesCase) (string, bool) {
			nt := false
			for _, k := range c.Kinds {
				switch c18ValueSrcs[k%len(c18ValueSrcs)] {
				case "$nil", "[]", "[&]", "''":
					nt = true
				}
			}
			if nt {
				return "with-nil-or-empty", true
			}
			return "plain", false
		},
		Quick: 600, Thorough: 10000,
		Timeout: 60 * time.Second,
	})
}
