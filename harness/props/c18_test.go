package props

// C18 Pipelines deliver data exactly once, in order, and never deadlock.
//
// A case is a pipeline of 2..6 stages drawn from a stage library (harness Go
// commands and native Elvish commands), the yield pattern of every stage and
// GOMAXPROCS. The oracle is a stream model written from the language
// reference (pipelines, value/byte channels, "all"/"each" merging byte lines
// into the value stream): every item carries its origin, so the final output
// restricted to one origin must be exactly that origin's sequence (complete
// when every stage in between reads to the end, a prefix of known total
// length after an early-exiting reader). The model never predicts how the two
// channels interleave, so the verdict does not depend on the schedule.

import (
	"bufio"
	"fmt"
	"os"
	"runtime"
	"strconv"
	"strings"
	"sync"
	"sync/atomic"
	"time"

	"pgregory.net/rapid"
	"src.elv.sh/pkg/eval"
	"src.elv.sh/pkg/eval/vals"
	"verif/elv"
	"verif/vs"
)

type c18Stage struct {
	Kind string `json:"kind"`
	NV   int    `json:"nv,omitempty"`   // producers: number of values
	NB   int    `json:"nb,omitempty"`   // emit: number of byte lines
	Len  int    `json:"len,omitempty"`  // emit: padding bytes per line
	Ord  int    `json:"ord,omitempty"`  // emit: 0 values first, 1 lines first, 2 alternating, 3 two goroutines
	K    int    `json:"k,omitempty"`    // take / readk values / throw reads / read-line count
	KB   int    `json:"kb,omitempty"`   // readk lines
	Fail bool   `json:"fail,omitempty"` // harness stage throws boom<i> when it is done
	Y    []int  `json:"y,omitempty"`    // yield pattern, applied cyclically per item
}

type c18Case struct {
	Procs   int        `json:"procs"`
	Stages  []c18Stage `json:"stages"`
	WatchMs int        `json:"watch_ms,omitempty"` // regression cases of hang findings only
}

// ---- stream model ---------------------------------------------------------------

// A group is a set of origin sequences. total<0: every sequence arrives
// completely. total>=0: the observed items are a prefix of every sequence and
// the prefix lengths add up to total.
type c18Grp struct {
	srcs  [][]string
	total int
}

type c18Str struct{ v, b []c18Grp }

func c18Count(gs []c18Grp) int {
	n := 0
	for _, g := range gs {
		if g.total >= 0 {
			n += g.total
			continue
		}
		for _, s := range g.srcs {
			n += len(s)
		}
	}
	return n
}

func c18Map(gs []c18Grp, suffix string) []c18Grp {
	out := make([]c18Grp, len(gs))
	for i, g := range gs {
		ng := c18Grp{total: g.total}
		for _, s := range g.srcs {
			ns := make([]string, len(s))
			for j, x := range s {
				ns[j] = x + suffix
			}
			ng.srcs = append(ng.srcs, ns)
		}
		out[i] = ng
	}
	return out
}

func c18Merge(s c18Str) []c18Grp {
	return append(append([]c18Grp(nil), s.v...), s.b...)
}

// c18Limit models a reader that takes the first k items of the stream.
func c18Limit(gs []c18Grp, k int) []c18Grp {
	if k >= c18Count(gs) {
		return gs
	}
	var all [][]string
	for _, g := range gs {
		all = append(all, g.srcs...)
	}
	return []c18Grp{{srcs: all, total: k}}
}

// c18Scatter makes every item its own origin (order-free delivery, as by peach).
func c18Scatter(gs []c18Grp) []c18Grp {
	var out []c18Grp
	for _, g := range gs {
		if g.total >= 0 {
			// not generated: peach is only placed behind complete streams
			out = append(out, g)
			continue
		}
		ng := c18Grp{total: -1}
		for _, s := range g.srcs {
			for _, x := range s {
				ng.srcs = append(ng.srcs, []string{x})
			}
		}
		out = append(out, ng)
	}
	return out
}

func c18Seq(prefix string, n int, pad string) []string {
	out := make([]string, n)
	for i := range out {
		out[i] = prefix + strconv.Itoa(i) + pad
	}
	return out
}

const c18Forever = 1000 // modelled length of an unbounded producer; its reader takes far fewer

func c18One(s []string) []c18Grp {
	if len(s) == 0 {
		return nil
	}
	return []c18Grp{{srcs: [][]string{s}, total: -1}}
}

type c18Info struct {
	out     c18Str
	throws  []bool
	early   []bool // stage does not read its whole input
	big     bool   // some stage writes more than a buffer
	gone    []bool // stage may observe reader-gone (some later stage is early)
	stops   []bool
	forever bool
}

func c18EmitLines(i int, st c18Stage) []string {
	return c18Seq("s"+strconv.Itoa(i)+"b", st.NB, ":"+strings.Repeat("x", st.Len))
}

func c18Bytes(gs []c18Grp) int {
	n := 0
	for _, g := range gs {
		for _, s := range g.srcs {
			for _, x := range s {
				n += len(x) + 1
			}
		}
	}
	return n
}

// c18Step is the transfer function of one stage. ok=false: the stage is not in
// the domain at this position (see the Rule text for the reasons).
func c18Step(i int, st c18Stage, in c18Str, first bool) (out c18Str, throws, early, ok bool) {
	tag := "s" + strconv.Itoa(i)
	nin := c18Count(in.v) + c18Count(in.b)
	ok = true
	switch st.Kind {
	case "emit":
		out = c18Str{c18One(c18Seq(tag+"v", st.NV, "")), c18One(c18EmitLines(i, st))}
		early, throws = nin > 0, st.Fail
	case "range":
		out = c18Str{v: c18One(c18Seq("", st.NV, ""))}
		early = nin > 0
	case "put":
		out = c18Str{v: c18One(c18Seq(tag+"v", st.NV, ""))}
		early = nin > 0
		ok = st.NV >= 1 && st.NV <= 40
	case "natloop":
		out = c18Str{c18One(c18Seq(tag+"v", st.NV, "")), c18One(c18Seq(tag+"b", st.NV, ""))}
		early = nin > 0
	case "foreverv":
		out = c18Str{v: c18One(c18Seq(tag+"v", c18Forever, ""))}
		early = nin > 0
	case "foreverb":
		out = c18Str{b: c18One(c18Seq(tag+"b", c18Forever, ""))}
		early = nin > 0
	case "relay":
		// Ord 0: both channels, 1: values only, 2: byte lines only (the rest is read and dropped)
		if st.Ord != 2 {
			out.v = c18Map(in.v, "+"+strconv.Itoa(i))
		}
		if st.Ord != 1 {
			out.b = c18Map(in.b, "+"+strconv.Itoa(i))
		}
		throws = st.Fail
		ok = !first
	case "eachput":
		out = c18Str{v: c18Map(c18Merge(in), "+"+strconv.Itoa(i))}
		ok = !first
	case "eachecho":
		out = c18Str{b: c18Map(c18Merge(in), "+"+strconv.Itoa(i))}
		ok = !first
	case "eachboth":
		out = c18Str{c18Map(c18Merge(in), "+"+strconv.Itoa(i)+"v"), c18Map(c18Merge(in), "+"+strconv.Itoa(i)+"b")}
		ok = !first
	case "all":
		out = c18Str{v: c18Merge(in)}
		ok = !first
	case "onlyv":
		out = c18Str{v: in.v}
		ok = !first
	case "onlyb":
		out = c18Str{b: in.b}
		ok = !first
	case "tolines":
		out = c18Str{b: c18Merge(in)}
		ok = !first
	case "take":
		out = c18Str{v: c18Limit(c18Merge(in), st.K)}
		ok = !first
	case "count":
		out = c18Str{v: c18One([]string{strconv.Itoa(nin)})}
		ok = !first
	case "peach":
		m := c18Merge(in)
		for _, g := range m {
			if g.total >= 0 {
				ok = false
			}
		}
		out = c18Str{v: c18Map(c18Scatter(m), "+"+strconv.Itoa(i))}
		ok = ok && !first && nin <= 150
	case "peachforever":
		// every callback writes until the reader is gone; the next stage ignores its input
		ok = !first && nin >= 1 && nin <= 8
	case "peachmixed":
		// one callback fails for real (after the others have started), the others
		// write until the reader is gone: the stage's exception is a combination
		// of a genuine failure and reader-gone errors and must be reported
		throws = true
		ok = !first && nin >= 2 && nin <= 8
	case "eachfail":
		throws = nin > 0
		ok = !first
	case "nop":
		early = nin > 0
		ok = !first
	case "readk":
		out = c18Str{c18Map(c18Limit(in.v, st.K), "+"+strconv.Itoa(i)), c18Map(c18Limit(in.b, st.KB), "+"+strconv.Itoa(i))}
		early = st.K < c18Count(in.v) || st.KB < c18Count(in.b)
		throws = st.Fail
		ok = !first && st.K < c18Forever/2 && st.KB < c18Forever/2
	case "readline":
		// read-line waits for a line; it is only placed where the writer cannot
		// be stuck on the value channel first, and where a line is sure to come.
		ok = !first && (st.K == 1 || st.K == 2) && c18Count(in.b) >= st.K && c18Count(in.v) <= 20
		if ok {
			out = c18Str{v: c18Limit(in.b, st.K)}
			early = st.K < c18Count(in.b) || c18Count(in.v) > 0
		}
	case "fail":
		throws, early = true, nin > 0
		ok = !first
	case "putredir":
		// a stage that takes its input from a file instead of the pipeline: the
		// previous stage loses its reader at once
		out = c18Str{v: c18One(c18Seq(tag+"v", 1, ""))}
		early = nin > 0
		ok = !first
	case "nopredir":
		early = nin > 0
		ok = !first
	case "wfail":
		// a stage whose byte output fails for a reason other than a reader that
		// is gone (its stdout is a file opened read-only): a genuine exception,
		// reported wherever the stage is; it reads nothing and writes nothing
		// into the pipeline
		throws, early = true, nin > 0
	case "throw":
		out = c18Str{v: c18One(c18Seq(tag+"v", st.NV, ""))}
		throws, early = true, st.K < c18Count(in.v) || c18Count(in.b) > 0
		ok = !first && st.K < c18Forever/2
	default:
		ok = false
	}
	return
}

func c18Unbounded(kind string) bool {
	return kind == "foreverv" || kind == "foreverb" || kind == "peachforever" || kind == "peachmixed"
}

func c18FullReader(kind string) bool {
	switch kind {
	case "relay", "eachput", "eachecho", "eachboth", "all", "onlyv", "onlyb", "tolines", "take", "count", "peach", "eachfail":
		return true
	}
	return false
}

// c18Model runs the model over the whole pipeline. err != nil: outside the domain.
func c18Model(c c18Case) (c18Info, error) {
	var info c18Info
	n := len(c.Stages)
	info.throws, info.early, info.gone = make([]bool, n), make([]bool, n), make([]bool, n)
	var s c18Str
	for i, st := range c.Stages {
		if i > 0 && c18Unbounded(c.Stages[i-1].Kind) {
			// an unbounded producer ends only when its reader goes away, and it
			// never closes the channel it does not write to
			prev := c.Stages[i-1].Kind
			bad := c18FullReader(st.Kind) ||
				(prev == "foreverv" && (st.Kind == "readline" || (st.Kind == "readk" && st.KB > 0))) ||
				(prev == "foreverb" && (st.Kind == "readk" || st.Kind == "throw") && st.K > 0) ||
				((prev == "peachforever" || prev == "peachmixed") && st.Kind != "nop" && st.Kind != "fail" && st.Kind != "emit" && st.Kind != "put")
			if bad {
				return info, fmt.Errorf("stage %d: reader that would wait for ever behind an unbounded producer", i)
			}
		}
		out, throws, early, ok := c18Step(i, st, s, i == 0)
		if !ok {
			return info, fmt.Errorf("stage %d (%s) not in the domain here", i, st.Kind)
		}
		if c18Unbounded(st.Kind) && i == n-1 {
			return info, fmt.Errorf("unbounded producer as last stage")
		}
		if c18Unbounded(st.Kind) {
			info.forever = true
		} else if c18Count(out.v) > 32 || c18Bytes(out.b) > 65536 {
			info.big = true
		}
		if i > 0 && c18Unbounded(c.Stages[i-1].Kind) {
			early = true
		}
		info.throws[i], info.early[i] = throws, early
		s = out
	}
	later := false
	for i := n - 1; i >= 0; i-- {
		info.gone[i] = later
		if info.early[i] {
			later = true
		}
	}
	// stops[i]: stage i may stop reading before its input ends - it exits early,
	// or it is only-values/only-bytes (which return on the first output error)
	// in front of such a stage.
	info.stops = make([]bool, n+1)
	for i := n - 1; i >= 0; i-- {
		k := c.Stages[i].Kind
		info.stops[i] = info.early[i] || ((k == "onlyv" || k == "onlyb") && info.stops[i+1])
	}
	info.out = s
	return info, nil
}

// c18OpenShape: the shape of the open finding C18:peach-multi-reader-gone - a
// peach stage that can observe that its reader is gone.
func c18OpenShape(c c18Case, info c18Info) bool {
	for i, st := range c.Stages {
		if (st.Kind == "peach" || st.Kind == "peachforever") && info.gone[i] {
			return true
		}
	}
	return false
}

// c18OnlyShape: the shape of the open finding C18:only-values-stops-draining -
// only-values / only-bytes whose reader may stop reading.
func c18OnlyShape(c c18Case, info c18Info) bool {
	for i, st := range c.Stages {
		if (st.Kind == "onlyv" || st.Kind == "onlyb") && info.stops[i+1] {
			return true
		}
	}
	return false
}

// ---- source text ------------------------------------------------------------------

func c18Code(c c18Case) string {
	var parts []string
	for i, st := range c.Stages {
		id := strconv.Itoa(i)
		var s string
		switch st.Kind {
		case "emit":
			s = "c18-emit " + id
		case "range":
			s = "range " + strconv.Itoa(st.NV)
		case "put":
			s = "put " + strings.Join(c18Seq("s"+id+"v", st.NV, ""), " ")
		case "natloop":
			s = "each {|x| c18-y " + id + "; put 's" + id + "v'$x; echo 's" + id + "b'$x } [(range " + strconv.Itoa(st.NV) + ")]"
		case "foreverv":
			s = "{ var n = 0; while $true { put 's" + id + "v'$n; set n = (+ $n 1) } }"
		case "foreverb":
			s = "{ var n = 0; while $true { echo 's" + id + "b'$n; set n = (+ $n 1) } }"
		case "relay":
			s = "c18-relay " + id
		case "eachput":
			s = "each {|x| c18-y " + id + "; put $x'+" + id + "' }"
		case "eachecho":
			s = "each {|x| c18-y " + id + "; echo $x'+" + id + "' }"
		case "eachboth":
			s = "each {|x| put $x'+" + id + "v'; c18-y " + id + "; echo $x'+" + id + "b' }"
		case "all":
			s = "all"
		case "onlyv":
			s = "only-values"
		case "onlyb":
			s = "only-bytes"
		case "tolines":
			s = "to-lines"
		case "take":
			s = "take " + strconv.Itoa(st.K)
		case "count":
			s = "count"
		case "peach":
			s = "peach {|x| c18-y " + id + "; put $x'+" + id + "' }"
		case "peachforever":
			s = "peach {|x| while $true { put $x } }"
		case "peachmixed":
			s = "peach {|x| if (c18-once " + id + ") { sleep 0.03; fail boom" + id + " } else { while $true { put $x } } }"
		case "eachfail":
			s = "each {|x| c18-y " + id + "; fail boom" + id + " }"
		case "nop":
			s = "nop"
		case "readk":
			s = "c18-readk " + id
		case "readline":
			s = "read-line"
			if st.K == 2 {
				s = "{ read-line; read-line }"
			}
		case "fail":
			s = "fail boom" + id
		case "putredir":
			s = "put s" + id + "v0 " + []string{"< /dev/null", "<&-", "0< /dev/null"}[st.K%3]
		case "nopredir":
			s = "nop " + []string{"< /dev/null", "<&-"}[st.K%2]
		case "wfail":
			s = []string{"echo data > (c18-ro)", "print data > (c18-ro)", "{ echo a; echo b } > (c18-ro)", "to-lines [a b] > (c18-ro)"}[st.K%4]
		case "throw":
			s = "c18-throw " + id
		default:
			s = "nop"
		}
		parts = append(parts, s)
	}
	return strings.Join(parts, " | ")
}

// ---- harness commands -------------------------------------------------------------

func c18Yield(code int) {
	switch {
	case code <= 0:
	case code == 1:
		runtime.Gosched()
	default:
		if code > 20 {
			code = 20
		}
		time.Sleep(time.Duration(code) * 10 * time.Microsecond)
	}
}

type c18Run struct {
	c    c18Case
	cnt  []atomic.Int64
	once []atomic.Bool
	ro   *os.File // /dev/null opened read-only: every write to it fails (EBADF)
}

func (r *c18Run) y(i int) {
	if i < 0 || i >= len(r.c.Stages) {
		return
	}
	p := r.c.Stages[i].Y
	if len(p) == 0 {
		return
	}
	k := r.cnt[i].Add(1)
	c18Yield(p[int(k)%len(p)])
}

// take is the early-exiting reader: it returns the first k values and the
// first kb byte lines of the input and then stops reading. A pipeline has two
// channels filled by one writer, so while it still waits for one channel it
// keeps draining (and discarding) the other one - a reader that waits on one
// channel without draining the other blocks the writer by design.
func (r *c18Run) take(fm *eval.Frame, i, k, kb int) (gotV, gotB []string) {
	var mu sync.Mutex
	vOK, bOK := k == 0, kb == 0
	sat := func() bool { mu.Lock(); defer mu.Unlock(); return vOK && bOK }
	set := func(p *bool) { mu.Lock(); *p = true; mu.Unlock() }
	lineExited := make(chan struct{})
	var wg sync.WaitGroup
	wg.Add(2)
	go func() { // values
		defer wg.Done()
		wake := lineExited
		ch := fm.InputChan()
		for {
			if sat() {
				// kick the line reader out of a blocked Read
				fm.InputFile().SetReadDeadline(time.Unix(1, 0))
				return
			}
			select {
			case v, ok := <-ch:
				if !ok {
					set(&vOK)
					ch = nil
					if wake == nil {
						return
					}
					continue
				}
				if len(gotV) < k {
					r.y(i)
					gotV = append(gotV, vals.ToString(v))
					if len(gotV) == k {
						set(&vOK)
					}
				}
			case <-wake:
				wake = nil
				if ch == nil {
					return
				}
			}
		}
	}()
	go func() { // byte lines
		defer wg.Done()
		defer close(lineExited)
		rd := bufio.NewReader(fm.InputFile())
		for !sat() {
			line, err := rd.ReadString('\n')
			if err == nil && len(gotB) < kb {
				r.y(i)
				gotB = append(gotB, strings.TrimSuffix(line, "\n"))
				if len(gotB) == kb {
					set(&bOK)
				}
			}
			if err != nil {
				set(&bOK)
				return
			}
		}
	}()
	wg.Wait()
	return
}

func (r *c18Run) boom(i int) error {
	return eval.FailError{Content: "boom" + strconv.Itoa(i)}
}

func (r *c18Run) fns() map[string]any {
	return map[string]any{
		"c18-y": func(i int) { r.y(i) },
		"c18-ro": func() *os.File { return r.ro },
		// true for exactly one caller per stage
		"c18-once": func(i int) bool { return i >= 0 && i < len(r.once) && r.once[i].CompareAndSwap(false, true) },
		"c18-emit": func(fm *eval.Frame, i int) error {
			st := r.c.Stages[i]
			vo, bo := fm.ValueOutput(), fm.ByteOutput()
			vs := c18Seq("s"+strconv.Itoa(i)+"v", st.NV, "")
			ls := c18EmitLines(i, st)
			putV := func(j int) error { r.y(i); return vo.Put(vs[j]) }
			putB := func(j int) error { r.y(i); _, err := bo.WriteString(ls[j] + "\n"); return err }
			var err error
			switch st.Ord {
			case 0, 1:
				a, na, b, nb := putV, len(vs), putB, len(ls)
				if st.Ord == 1 {
					a, na, b, nb = putB, len(ls), putV, len(vs)
				}
				for j := 0; j < na && err == nil; j++ {
					err = a(j)
				}
				for j := 0; j < nb && err == nil; j++ {
					err = b(j)
				}
			case 2:
				for j := 0; (j < len(vs) || j < len(ls)) && err == nil; j++ {
					if j < len(vs) {
						err = putV(j)
					}
					if j < len(ls) && err == nil {
						err = putB(j)
					}
				}
			default:
				var wg sync.WaitGroup
				var e1, e2 error
				wg.Add(2)
				go func() {
					defer wg.Done()
					for j := 0; j < len(vs) && e1 == nil; j++ {
						e1 = putV(j)
					}
				}()
				go func() {
					defer wg.Done()
					for j := 0; j < len(ls) && e2 == nil; j++ {
						e2 = putB(j)
					}
				}()
				wg.Wait()
				err = e1
				if err == nil {
					err = e2
				}
			}
			if st.Fail {
				return r.boom(i)
			}
			return err
		},
		// relay reads both channels to the end concurrently (like the builtins
		// built on IterateInputs) and keeps draining after an output error.
		"c18-relay": func(fm *eval.Frame, i int) error {
			st := r.c.Stages[i]
			suffix := "+" + strconv.Itoa(i)
			vo, bo := fm.ValueOutput(), fm.ByteOutput()
			var wg sync.WaitGroup
			var e1, e2 error
			wg.Add(2)
			go func() {
				defer wg.Done()
				for v := range fm.InputChan() {
					if e1 == nil && st.Ord != 2 {
						r.y(i)
						e1 = vo.Put(vals.ToString(v) + suffix)
					}
				}
			}()
			go func() {
				defer wg.Done()
				rd := bufio.NewReader(fm.InputFile())
				for {
					line, err := rd.ReadString('\n')
					if line != "" && e2 == nil && st.Ord != 1 {
						r.y(i)
						_, e2 = bo.WriteString(strings.TrimSuffix(line, "\n") + suffix + "\n")
					}
					if err != nil {
						return
					}
				}
			}()
			wg.Wait()
			if st.Fail {
				return r.boom(i)
			}
			if e1 != nil {
				return e1
			}
			return e2
		},
		// readk takes the first K values and the first KB lines (concurrently, so
		// that it never waits on one channel while the writer is stuck on the
		// other), forwards them and returns without reading the rest.
		"c18-readk": func(fm *eval.Frame, i int) error {
			st := r.c.Stages[i]
			suffix := "+" + strconv.Itoa(i)
			gotV, gotB := r.take(fm, i, st.K, st.KB)
			var wg sync.WaitGroup
			vo, bo := fm.ValueOutput(), fm.ByteOutput()
			var e1, e2 error
			wg.Add(2)
			go func() {
				defer wg.Done()
				for _, v := range gotV {
					if e1 = vo.Put(v + suffix); e1 != nil {
						return
					}
				}
			}()
			go func() {
				defer wg.Done()
				for _, l := range gotB {
					if _, e2 = bo.WriteString(l + suffix + "\n"); e2 != nil {
						return
					}
				}
			}()
			wg.Wait()
			if st.Fail {
				return r.boom(i)
			}
			if e1 != nil {
				return e1
			}
			return e2
		},
		// throw reads K values, writes NV values of its own and fails.
		"c18-throw": func(fm *eval.Frame, i int) error {
			st := r.c.Stages[i]
			r.take(fm, i, st.K, 0)
			vo := fm.ValueOutput()
			for _, v := range c18Seq("s"+strconv.Itoa(i)+"v", st.NV, "") {
				if vo.Put(v) != nil {
					break
				}
			}
			return r.boom(i)
		},
	}
}

// ---- oracle -----------------------------------------------------------------------

// c18Match checks that obs, restricted to each origin sequence, is that
// sequence (complete groups) or a prefix of it with the group's total.
func c18Match(what string, obs []string, gs []c18Grp) error {
	type pos struct{ g, s, i int }
	where := map[string]pos{}
	for gi, g := range gs {
		for si, s := range g.srcs {
			for i, x := range s {
				if _, dup := where[x]; dup {
					panic("c18 harness bug: item " + x + " is not unique in the model")
				}
				where[x] = pos{gi, si, i}
			}
		}
	}
	next := make([][]int, len(gs))
	for gi, g := range gs {
		next[gi] = make([]int, len(g.srcs))
	}
	for k, x := range obs {
		p, ok := where[x]
		if !ok {
			return fmt.Errorf("%s: item #%d %q was never written by the previous stage (or is corrupted)", what, k, c18Clip(x))
		}
		if want := next[p.g][p.s]; p.i != want {
			if p.i < want {
				return fmt.Errorf("%s: item #%d %q delivered more than once", what, k, c18Clip(x))
			}
			return fmt.Errorf("%s: item #%d %q arrived before %q of the same writer (lost or out of order)", what, k, c18Clip(x), c18Clip(gs[p.g].srcs[p.s][want]))
		}
		next[p.g][p.s]++
	}
	for gi, g := range gs {
		sum := 0
		for si, s := range g.srcs {
			sum += next[gi][si]
			if g.total < 0 && next[gi][si] != len(s) {
				return fmt.Errorf("%s: only %d of %d items of one writer arrived, first missing %q", what, next[gi][si], len(s), c18Clip(s[next[gi][si]]))
			}
		}
		if g.total >= 0 && sum != g.total {
			return fmt.Errorf("%s: %d items arrived from a reader that forwards exactly %d", what, sum, g.total)
		}
	}
	return nil
}

func c18Clip(s string) string {
	if len(s) > 40 {
		return s[:40] + "…"
	}
	return s
}

func c18Check(c c18Case) error {
	info, err := c18Model(c)
	if err != nil {
		vs.Excluded("case outside the domain: " + strings.SplitN(err.Error(), ":", 2)[0])
		return nil
	}
	if c.Procs >= 1 {
		defer runtime.GOMAXPROCS(runtime.GOMAXPROCS(c.Procs))
	}
	run := &c18Run{c: c, cnt: make([]atomic.Int64, len(c.Stages)), once: make([]atomic.Bool, len(c.Stages))}
	for _, st := range c.Stages {
		if st.Kind == "wfail" && run.ro == nil {
			ro, err := os.Open(os.DevNull)
			if err != nil {
				vs.Excluded("harness: cannot open " + os.DevNull)
				return nil
			}
			run.ro = ro
			defer ro.Close()
		}
	}
	ev := elv.New()
	elv.AddGoFns(ev, run.fns())
	code := c18Code(c)
	var res elv.Result
	if c.WatchMs > 0 {
		// Only the regression cases of hang findings carry their own (short)
		// watchdog, so that a known hang is reported as that finding; every
		// other case relies on the framework's watchdog.
		done := make(chan elv.Result, 1)
		go func() { done <- elv.Run(ev, code) }()
		select {
		case res = <-done:
		case <-time.After(time.Duration(c.WatchMs) * time.Millisecond):
			return fmt.Errorf("pipeline did not finish within %d ms: earlier stages hang after the last stage exited\npipeline: %s", c.WatchMs, code)
		}
	} else {
		res = elv.Run(ev, code)
	}

	hist := func() string {
		return fmt.Sprintf("\npipeline: %s\nerror: %v\nvalues(%d): %s\nbytes: %d", c18Clip2(code, 600), res.Err, len(res.Values), c18Clip2(elv.Reprs(res.Values), 400), len(res.Bytes))
	}

	// exceptions: exactly the throwing stages, reader-gone never reported
	var want []int
	for i, t := range info.throws {
		if t {
			want = append(want, i)
		}
	}
	msgOf := func(e error) string {
		if fe, ok := elv.Reason(e).(eval.FailError); ok {
			return vals.ToString(fe.Content)
		}
		if r := elv.Reason(e); r != nil {
			return "«" + r.Error() + "»"
		}
		if elv.IsException(e) {
			return "«$ok»" // an exception value without a reason
		}
		return "«" + e.Error() + "»"
	}
	switch {
	case res.Err == nil:
		if len(want) != 0 {
			return fmt.Errorf("stages %v throw but the pipeline reported no exception%s", want, hist())
		}
	case !elv.IsException(res.Err):
		return fmt.Errorf("harness: generated pipeline does not compile: %v%s", res.Err, hist())
	default:
		if pe, ok := elv.Reason(res.Err).(eval.PipelineError); ok {
			if len(pe.Errors) != len(c.Stages) {
				return fmt.Errorf("pipeline error has %d entries for %d stages%s", len(pe.Errors), len(c.Stages), hist())
			}
			if len(want) < 2 {
				return fmt.Errorf("pipeline error %v reported, but only stages %v throw (reader-gone must not be reported)%s", pe, want, hist())
			}
			for i, e := range pe.Errors {
				ok := e == nil || e.Reason() == nil
				if info.throws[i] {
					if ok || !c18BoomOK(msgOf(e), i, c.Stages[i].Kind) {
						return fmt.Errorf("stage %d throws boom%d but the pipeline error has %v there%s", i, i, e, hist())
					}
				} else if !ok {
					return fmt.Errorf("stage %d does not throw but the pipeline error reports %q for it%s", i, msgOf(e), hist())
				}
			}
		} else {
			if len(want) != 1 || !c18BoomOK(msgOf(res.Err), want[0], c.Stages[want[0]].Kind) {
				return fmt.Errorf("pipeline reported %q, expected exactly the exceptions of stages %v%s", msgOf(res.Err), want, hist())
			}
		}
	}

	// data: per channel, per origin, exactly once and in order
	obsV := make([]string, len(res.Values))
	for i, v := range res.Values {
		obsV[i] = vals.ToString(v)
	}
	if err := c18Match("value channel of the last stage", obsV, info.out.v); err != nil {
		return fmt.Errorf("%v%s", err, hist())
	}
	var obsB []string
	if len(res.Bytes) > 0 {
		if res.Bytes[len(res.Bytes)-1] != '\n' {
			return fmt.Errorf("byte output does not end in a complete line (truncated write)%s", hist())
		}
		obsB = strings.Split(string(res.Bytes[:len(res.Bytes)-1]), "\n")
	}
	if err := c18Match("byte channel of the last stage", obsB, info.out.b); err != nil {
		return fmt.Errorf("%v%s", err, hist())
	}
	return nil
}

// c18BoomOK: the reported exception of throwing stage i. A peachmixed stage
// reports its genuine failure combined with the reader-gone errors of its
// other callbacks; the genuine failure must be in there.
func c18BoomOK(msg string, i int, kind string) bool {
	want := "boom" + strconv.Itoa(i)
	if kind == "peachmixed" {
		return strings.Contains(msg, want)
	}
	if kind == "wfail" {
		return strings.Contains(msg, "bad file descriptor")
	}
	return msg == want
}

func c18Clip2(s string, n int) string {
	if len(s) > n {
		return s[:n] + "…"
	}
	return s
}

// ---- generator --------------------------------------------------------------------

var c18Producers = []string{"emit", "emit", "emit", "range", "put", "natloop", "foreverv", "foreverb", "wfail"}
var c18Filters = []string{"relay", "relay", "eachput", "eachecho", "eachboth", "all", "onlyv", "onlyb", "tolines", "take", "count", "peach", "peachforever", "peachmixed", "eachfail"}
var c18Early = []string{"nop", "readk", "readk", "readk", "readline", "fail", "throw", "emit", "put", "wfail", "putredir", "nopredir"}

func c18GenStage(t *rapid.T, kind string) c18Stage {
	st := c18Stage{Kind: kind}
	nvs := []int{0, 1, 5, 31, 32, 33, 34, 64, 65, 97, 130}
	switch kind {
	case "emit":
		st.NV = rapid.SampledFrom(nvs).Draw(t, "nv")
		shape := rapid.SampledFrom([][2]int{{0, 0}, {1, 1}, {3, 10}, {40, 100}, {17, 3900}, {66, 1000}, {9, 7300}, {200, 1000}, {70, 2900}, {1, 66000}}).Draw(t, "lines")
		st.NB, st.Len = shape[0], shape[1]
		st.Ord = rapid.IntRange(0, 3).Draw(t, "ord")
		st.Fail = rapid.IntRange(0, 11).Draw(t, "fail") == 0
	case "range", "natloop":
		st.NV = rapid.SampledFrom(nvs).Draw(t, "nv")
	case "put":
		st.NV = rapid.SampledFrom([]int{1, 2, 33, 40}).Draw(t, "nv")
	case "relay":
		st.Fail = rapid.IntRange(0, 11).Draw(t, "fail") == 0
		st.Ord = rapid.SampledFrom([]int{0, 0, 0, 1, 2}).Draw(t, "ord")
	case "take":
		st.K = rapid.SampledFrom([]int{0, 1, 5, 32, 33, 70, 500}).Draw(t, "k")
	case "readk":
		st.K = rapid.SampledFrom([]int{0, 1, 3, 31, 32, 33, 40, 90, 400}).Draw(t, "k")
		st.KB = rapid.SampledFrom([]int{0, 1, 2, 16, 50, 400}).Draw(t, "kb")
		st.Fail = rapid.IntRange(0, 11).Draw(t, "fail") == 0
	case "readline":
		st.K = rapid.IntRange(1, 2).Draw(t, "k")
	case "throw":
		st.K = rapid.SampledFrom([]int{0, 1, 33, 400}).Draw(t, "k")
		st.NV = rapid.SampledFrom([]int{0, 2, 40}).Draw(t, "nv")
	case "wfail", "putredir", "nopredir":
		st.K = rapid.IntRange(0, 3).Draw(t, "form")
	}
	switch kind {
	case "emit", "natloop", "relay", "eachput", "eachecho", "eachboth", "peach", "eachfail", "readk", "throw":
		if rapid.IntRange(0, 2).Draw(t, "yields") > 0 {
			st.Y = rapid.SliceOfN(rapid.SampledFrom([]int{0, 0, 0, 0, 1, 1, 2, 5, 12}), 1, 5).Draw(t, "y")
		}
	}
	return st
}

func c18Gen(t *rapid.T) c18Case {
	c := c18Case{Procs: rapid.SampledFrom([]int{1, 2, 4, 16}).Draw(t, "procs")}
	n := rapid.IntRange(2, 6).Draw(t, "stages")
	for i := 0; i < n; i++ {
		var pool []string
		prevForever := i > 0 && c18Unbounded(c.Stages[i-1].Kind)
		switch {
		case i == 0:
			pool = c18Producers
		case prevForever && (c.Stages[i-1].Kind == "peachforever" || c.Stages[i-1].Kind == "peachmixed"):
			pool = []string{"nop", "fail", "emit", "put"}
		case prevForever:
			pool = c18Early
		default:
			pool = append(append(append([]string(nil), c18Filters...), c18Filters...), c18Early...)
		}
		// constructed, not filtered: try a few draws, fall back to a stage that is
		// always in the domain at this position
		placed := false
		for try := 0; try < 4 && !placed; try++ {
			st := c18GenStage(t, rapid.SampledFrom(pool).Draw(t, "kind"))
			if i == n-1 && c18Unbounded(st.Kind) {
				continue
			}
			cand := c18Case{Procs: c.Procs, Stages: append(append([]c18Stage(nil), c.Stages...), st)}
			if i < n-1 && c18Unbounded(st.Kind) {
				cand.Stages = append(cand.Stages, c18Stage{Kind: "nop"})
			}
			if _, err := c18Model(cand); err == nil {
				c.Stages = append(c.Stages, st)
				placed = true
			}
		}
		if !placed {
			fb := c18Stage{Kind: "nop"}
			if i == 0 {
				fb = c18Stage{Kind: "emit", NV: 40, NB: 3, Len: 10}
			} else if !prevForever {
				fb = c18Stage{Kind: "relay"}
			}
			c.Stages = append(c.Stages, fb)
		}
	}
	// While the finding is open, leave out exactly its shape: a peach stage in
	// front of a stage that exits early (the peach callbacks then observe
	// reader-gone concurrently).
	if vs.KnownOpen("C18:peach-multi-reader-gone") {
		if info, err := c18Model(c); err == nil && c18OpenShape(c, info) {
			for i := range c.Stages {
				switch c.Stages[i].Kind {
				case "peach":
					c.Stages[i] = c18Stage{Kind: "eachput", Y: c.Stages[i].Y}
				case "peachforever":
					c.Stages[i] = c18Stage{Kind: "foreverv"}
				}
			}
			vs.Excluded("peach stage before an early-exiting reader (open finding C18:peach-multi-reader-gone)")
		}
	}
	// Same for only-values / only-bytes in front of a reader that may stop
	// reading: they become each{put} / each{echo}-like full drains (relay).
	if vs.KnownOpen("C18:only-values-stops-draining") {
		for round := 0; round < len(c.Stages); round++ {
			info, err := c18Model(c)
			if err != nil || !c18OnlyShape(c, info) {
				break
			}
			for i := range c.Stages {
				if k := c.Stages[i].Kind; (k == "onlyv" || k == "onlyb") && info.stops[i+1] {
					c.Stages[i] = c18Stage{Kind: "relay", Ord: map[string]int{"onlyv": 1, "onlyb": 2}[k]}
					vs.Excluded("only-values/only-bytes before a reader that stops reading (open finding C18:only-values-stops-draining)")
					break
				}
			}
		}
	}
	return c
}

func c18Class(c c18Case) (string, bool) {
	info, err := c18Model(c)
	if err != nil {
		return "outside-domain", false
	}
	early, nthrow := false, 0
	for i := range c.Stages {
		if info.early[i] {
			early = true
		}
		if info.throws[i] {
			nthrow++
		}
	}
	var parts []string
	if info.big {
		parts = append(parts, "big")
	}
	if early {
		parts = append(parts, "early")
	}
	if info.forever {
		parts = append(parts, "unbounded")
	}
	if len(parts) == 0 {
		parts = append(parts, "small")
	}
	switch {
	case nthrow == 1:
		parts = append(parts, "throw1")
	case nthrow > 1:
		parts = append(parts, "throwN")
	}
	return strings.Join(parts, "+"), info.big || early
}

const c18Rule = "pipelines of 2..6 stages: a stage whose byte write fails for real (stdout redirected to a file opened read-only: must be reported, unlike a reader that is gone); producers (harness emit with n values and m byte lines in 4 write orders, range, put, an each-loop writing both channels, unbounded while-loops), full readers (harness relay, each{put}, each{echo}, each{put;echo}, all, only-values, only-bytes, to-lines, take, count, peach, each{fail}), early-exiting readers (nop, harness read-k, read-line, fail, harness throw, a producer in mid-pipeline); payload sizes around and above the 32-slot value channel and the 64 KiB pipe; per-stage yield patterns (Gosched / 20-200us sleeps) and GOMAXPROCS in {1,2,4,16} are part of the case. Left out by construction: readers that neither drain the value channel nor exit (from-lines, external commands, read-line behind >20 values) - `range 100 | e:cat` blocks forever by design of the two-channel pipe; only-values/only-bytes directly before a reader that may stop reading while C18:only-values-stops-draining is open (replaced by a draining relay). Non-trivial = some stage writes more than a buffer (>32 values or >64 KiB) or some stage exits without reading all its input"

func init() {
	// put s0v0 s0v1 | peach {|x| while $true { put $x } } | nop: both callbacks
	// end with reader-gone, which peach reports as "multiple errors".
	known := []vs.Known[c18Case]{{Key: "C18:peach-multi-reader-gone", Case: c18Case{Procs: 4, Stages: []c18Stage{
		{Kind: "put", NV: 2}, {Kind: "peachforever"}, {Kind: "nop"}}}},
		// range 97 | only-values | nop   and   ... | each{echo} | only-bytes | nop
		{Key: "C18:only-values-stops-draining", Case: c18Case{Procs: 4, WatchMs: 10000, Stages: []c18Stage{
			{Kind: "range", NV: 97}, {Kind: "onlyv"}, {Kind: "nop"}}}},
		{Key: "C18:only-values-stops-draining", Case: c18Case{Procs: 4, WatchMs: 10000, Stages: []c18Stage{
			{Kind: "emit", NV: 0, NB: 200, Len: 1000}, {Kind: "onlyb"}, {Kind: "nop"}}}},
	}
	vs.Register(vs.Prop[c18Case]{
		Name: "C18/pipelines", Rule: c18Rule,
		Gen: c18Gen, Check: c18Check, Class: c18Class,
		Quick: 600, Thorough: 4000, Timeout: 30 * time.Second,
		Known: known,
	})
	vs.Register(vs.Prop[c18Case]{
		Name: "C18/race", Rule: "the same pipelines on the -race binary (fewer cases)",
		Gen: c18Gen, Check: c18Check, Class: c18Class,
		Quick: 120, Thorough: 800, Timeout: 60 * time.Second, Race: true,
	})
}
