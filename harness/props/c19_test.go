package props

// C19 Interrupting evaluation at any moment is handled cleanly.
//
// Program templates (loops, function calls, output captures, try/finally,
// defer, pipelines, run-parallel, peach with and without &num-workers, sleep)
// are instrumented with the harness command `tick <branch>`.
//
// C19/sweep (deterministic): the K-th tick to arrive cancels the
// EvalCfg.Interrupts context synchronously, from inside the program; K is
// swept over every tick of every template instance (and one K past the end).
// C19/async: a separate goroutine cancels after a generated delay.
//
// Oracle (all schedule independent): Eval returns (watchdog); it returns an
// exception made of "interrupted" unless the program finished; in every
// sequential thread of Elvish code (a "branch") at most one tick starts after
// the cancel call has returned - the pipeline whose start check had already
// passed - and none in the thread that cancelled; the number of running
// bounded-peach callbacks never exceeds &num-workers; the goroutine count is
// back at its baseline after Eval returns.

import (
	"context"
	"fmt"
	"os"
	"reflect"
	"runtime"
	"sort"
	"strconv"
	"strings"
	"sync"
	"sync/atomic"
	"time"

	"pgregory.net/rapid"
	"src.elv.sh/pkg/eval"
	"src.elv.sh/pkg/eval/errs"
	"verif/elv"
	"verif/vs"
)

type c19Case struct {
	Tmpl    string `json:"tmpl"`
	N       int    `json:"n"`
	W       int    `json:"w,omitempty"`
	K       int    `json:"k"`                  // sweep: the K-th tick (0-based arrival order) cancels; K >= total: nobody cancels
	AsyncUs int    `json:"async_us,omitempty"` // async: cancel from another goroutine after this delay (K is ignored)
	Async   bool   `json:"async,omitempty"`
	Procs   int    `json:"procs"`
	Y       []int  `json:"y,omitempty"` // yield pattern of the ticks
}

type c19Tmpl struct {
	code     func(n, w int) string
	total    func(n, w int) int
	parallel bool // more than one branch
	bounded  bool // has a &num-workers bound w
	goCb     bool // the peach callback is a Go function value (no Elvish pipeline in the callback)
	mustStop bool // contains a long sleep: only meaningful when it is cancelled
}

func c19Rep(s string, n int, sep string) string {
	parts := make([]string, n)
	for i := range parts {
		parts[i] = s
	}
	return strings.Join(parts, sep)
}

var c19Tmpls = map[string]c19Tmpl{
	"seq": {code: func(n, w int) string { return c19Rep("tick 0", n, "\n") }, total: func(n, w int) int { return n }},
	// a background job started earlier in the same frame must not take the
	// foreground code that follows it out of the reach of the interrupt
	"bg-seq": {code: func(n, w int) string { return "nop &\n" + c19Rep("tick 0", n, "\n") }, total: func(n, w int) int { return n }},
	"bg-fn": {code: func(n, w int) string {
		return fmt.Sprintf("fn f { nop &; tick 0; tick 0 }; for x [(range %d)] { f }", n)
	}, total: func(n, w int) int { return 2 * n }},
	"bg-sleep": {code: func(n, w int) string { return "nop &\n" + c19Rep("tick 0", n, "\n") + "\nsleep 1000" }, total: func(n, w int) int { return n }, mustStop: true},
	"for": {code: func(n, w int) string { return fmt.Sprintf("for x [(range %d)] { tick 0; tick 0 }", n) }, total: func(n, w int) int { return 2 * n }},
	"while": {code: func(n, w int) string {
		return fmt.Sprintf("var i = 0; while (< $i %d) { tick 0; set i = (+ $i 1) }", n)
	}, total: func(n, w int) int { return n }},
	"each": {code: func(n, w int) string { return fmt.Sprintf("each {|x| tick 0; tick 0 } [(range %d)]", n) }, total: func(n, w int) int { return 2 * n }},
	"fn": {code: func(n, w int) string {
		return fmt.Sprintf("fn f {|d| tick 0; if (> $d 0) { f (- $d 1) }; tick 0 }; f %d", n)
	}, total: func(n, w int) int { return 2 * (n + 1) }},
	"capture": {code: func(n, w int) string {
		return fmt.Sprintf("for x [(range %d)] { var v = (tick 0; put a) }; put [(tick 0)] | nop", n)
	}, total: func(n, w int) int { return n + 1 }},
	"try": {code: func(n, w int) string {
		return fmt.Sprintf("for x [(range %d)] { try { tick 0; tick 0 } catch e { tick 0 } finally { tick 0 } }; try { tick 0 } catch e { }", n)
	}, total: func(n, w int) int { return 3*n + 1 }},
	"defer": {code: func(n, w int) string {
		return fmt.Sprintf("fn f { defer { tick 0 }; tick 0; tick 0 }; for x [(range %d)] { f }", n)
	}, total: func(n, w int) int { return 3 * n }},
	"pipe": {code: func(n, w int) string {
		return fmt.Sprintf("range %d | each {|x| tick 1; put $x } | each {|x| tick 2 }", n)
	}, total: func(n, w int) int { return 2 * n }, parallel: true},
	// a pipeline of many forms whose first form is interrupted at once and then
	// writes more than a channel buffer holds: the interrupt arrives while the
	// later forms are still being started
	"pipe-long": {code: func(n, w int) string {
		return "tick-flood 1 | " + c19Rep("all", n, " | ") + " | each {|x| tick 2 }"
	}, total: func(n, w int) int { return 101 }, parallel: true},
	// code run through eval (Frame.PrepareEval builds its own frame)
	"eval-seq": {code: func(n, w int) string { return "eval '" + c19Rep("tick 0", n, "; ") + "'" }, total: func(n, w int) int { return n }},
	"eval-sleep": {code: func(n, w int) string { return "eval '" + c19Rep("tick 0", n, "; ") + "; sleep 1000'" }, total: func(n, w int) int { return n }, mustStop: true},
	"eval-nested": {code: func(n, w int) string {
		return fmt.Sprintf("fn f { eval 'for x [(range %d)] { tick 0; tick 0 }' }; f; tick 0", n)
	}, total: func(n, w int) int { return 2*n + 1 }},
	"pipe-sleep": {code: func(n, w int) string {
		return fmt.Sprintf("for x [(range %d)] { tick 1 } | sleep 1000", n)
	}, total: func(n, w int) int { return n }, parallel: true, mustStop: true},
	"runpar-sleep": {code: func(n, w int) string {
		return fmt.Sprintf("run-parallel { sleep 1000 } { for x [(range %d)] { tick 1 } } { sleep 20m }", n)
	}, total: func(n, w int) int { return n }, parallel: true, mustStop: true},
	"runpar": {code: func(n, w int) string {
		return fmt.Sprintf("run-parallel { for x [(range %d)] { tick 1 } } { for x [(range %d)] { tick 2 } } { each {|x| tick 3 } [(range %d)] }", n, n, n)
	}, total: func(n, w int) int { return 3 * n }, parallel: true},
	"peach": {code: func(n, w int) string {
		return fmt.Sprintf("peach {|x| tick (+ $x 10); tick (+ $x 10) } [(range %d)]", n)
	}, total: func(n, w int) int { return 2 * n }, parallel: true},
	"peach-b": {code: func(n, w int) string {
		return fmt.Sprintf("peach &num-workers=%d {|x| c19-job $x; c19-job $x } [(range %d)]", w, n)
	}, total: func(n, w int) int { return 2 * n }, parallel: true, bounded: true},
	"peach-go": {code: func(n, w int) string {
		return fmt.Sprintf("peach &num-workers=%d $c19-job~ [(range %d)]", w, n)
	}, total: func(n, w int) int { return n }, parallel: true, bounded: true, goCb: true},
	"peach-pipe": {code: func(n, w int) string {
		return fmt.Sprintf("range %d | peach &num-workers=%d {|x| c19-job $x } | each {|x| nop }", n, w)
	}, total: func(n, w int) int { return n }, parallel: true, bounded: true},
	"nested": {code: func(n, w int) string {
		return fmt.Sprintf("each {|x| peach &num-workers=%d {|y| c19-job $y } [(range 4)] } [(range %d)]", w, n)
	}, total: func(n, w int) int { return 4 * n }, parallel: true, bounded: true},
}

// ---- recorder -------------------------------------------------------------------------

type c19Rec struct {
	c         c19Case
	cancel    context.CancelFunc
	arrivals  atomic.Int64
	cancelled atomic.Bool // set once the cancel call has returned
	called    atomic.Bool // set just before cancel is called
	mu        sync.Mutex
	late      map[int]int // branch -> ticks that started after cancelled was set
	cancelBr  int
	running   int
	maxRun    int
	lateJobs  int
}

func (r *c19Rec) tick(branch int) {
	late := r.cancelled.Load()
	n := int(r.arrivals.Add(1) - 1)
	if late {
		r.mu.Lock()
		r.late[branch]++
		r.mu.Unlock()
	}
	if len(r.c.Y) > 0 {
		c18Yield(r.c.Y[n%len(r.c.Y)])
	}
	if !r.c.Async && n == r.c.K {
		r.mu.Lock()
		r.cancelBr = branch
		r.mu.Unlock()
		r.called.Store(true)
		r.cancel()
		r.cancelled.Store(true)
	}
}

func (r *c19Rec) fns() map[string]any {
	return map[string]any{
		"tick": func(branch int) { r.tick(branch) },
		// one tick, then more values than a channel buffer holds
		"tick-flood": func(fm *eval.Frame, branch int) error {
			r.tick(branch)
			out := fm.ValueOutput()
			for i := 0; i < 100; i++ {
				if err := out.Put(i); err != nil {
					return err
				}
			}
			return nil
		},
		"c19-job": func(x int) {
			r.mu.Lock()
			r.running++
			if r.running > r.maxRun {
				r.maxRun = r.running
			}
			r.mu.Unlock()
			r.tick(x + 10)
			r.mu.Lock()
			r.running--
			r.mu.Unlock()
		},
	}
}

// c19Leaves flattens an evaluation error into its leaf reasons.
func c19Leaves(err error, out *[]error) {
	if err == nil {
		return
	}
	if exc, ok := err.(eval.Exception); ok {
		if exc.Reason() == nil {
			return // $ok entry of a pipeline error
		}
		c19Leaves(exc.Reason(), out)
		return
	}
	if pe, ok := err.(eval.PipelineError); ok {
		for _, e := range pe.Errors {
			if e != nil {
				c19Leaves(e, out)
			}
		}
		return
	}
	if rv := reflect.ValueOf(err); rv.Kind() == reflect.Slice {
		for i := 0; i < rv.Len(); i++ {
			if e, ok := rv.Index(i).Interface().(error); ok {
				c19Leaves(e, out)
			}
		}
		return
	}
	*out = append(*out, err)
}

func c19Check(c c19Case) error {
	t, ok := c19Tmpls[c.Tmpl]
	if !ok {
		return fmt.Errorf("harness: unknown template %q", c.Tmpl)
	}
	if c.Procs >= 1 {
		defer runtime.GOMAXPROCS(runtime.GOMAXPROCS(c.Procs))
	}
	total := t.total(c.N, c.W)
	code := t.code(c.N, c.W)
	if t.mustStop && !c.Async && c.K >= total {
		return fmt.Errorf("harness: template %s must be cancelled", c.Tmpl)
	}
	ctx, cancel := context.WithCancel(context.Background())
	defer cancel()
	rec := &c19Rec{c: c, cancel: cancel, late: map[int]int{}, cancelBr: -1}
	ev := elv.New()
	elv.AddGoFns(ev, rec.fns())
	runtime.Gosched()
	baseline := runtime.NumGoroutine()

	var asyncDone chan struct{}
	if c.Async {
		asyncDone = make(chan struct{})
		go func() {
			defer close(asyncDone)
			if c.AsyncUs > 0 {
				time.Sleep(time.Duration(c.AsyncUs) * time.Microsecond)
			}
			rec.called.Store(true)
			cancel()
			rec.cancelled.Store(true)
		}()
	}
	calledBefore := false
	res := elv.RunCtx(ev, code, ctx, nil)
	calledBefore = rec.called.Load() // the cancel call had at least begun when Eval returned
	if asyncDone != nil {
		<-asyncDone
	}

	ticks := int(rec.arrivals.Load())
	rec.mu.Lock()
	late, cancelBr, maxRun := map[int]int{}, rec.cancelBr, rec.maxRun
	for k, v := range rec.late {
		late[k] = v
	}
	rec.mu.Unlock()
	hist := func() string {
		var ls []string
		for b, n := range late {
			ls = append(ls, fmt.Sprintf("branch %d: %d", b, n))
		}
		sort.Strings(ls)
		return fmt.Sprintf("\nprogram: %s\nticks started: %d of %d; cancelled at tick %d in branch %d; ticks started after the cancel returned: %v; max running bounded callbacks: %d; result: %v",
			c18Clip2(code, 400), ticks, total, c.K, cancelBr, ls, maxRun, res.Err)
	}

	// result: interrupted unless finished
	if res.Err != nil && !elv.IsException(res.Err) {
		return fmt.Errorf("harness: template does not compile: %v%s", res.Err, hist())
	}
	var leaves []error
	c19Leaves(res.Err, &leaves)
	nInt := 0
	for _, l := range leaves {
		switch {
		case l == eval.ErrInterrupted:
			nInt++
		case l == error(errs.ReaderGone{}):
			// a stage that lost its reader because the reader was interrupted
		default:
			return fmt.Errorf("evaluation ended with %q, which is neither success nor an interrupt%s", l.Error(), hist())
		}
	}
	cancelDelivered := !c.Async && c.K < total // the K-th tick exists, so the cancel happened during Eval
	switch {
	case res.Err == nil:
		if cancelDelivered {
			return fmt.Errorf("the interrupt was delivered at tick %d but evaluation reported success%s", c.K, hist())
		}
		if ticks != total {
			return fmt.Errorf("evaluation reported success after %d of %d ticks%s", ticks, total, hist())
		}
	case nInt == 0:
		return fmt.Errorf("evaluation ended with an exception that is not an interrupt%s", hist())
	default:
		if !calledBefore {
			return fmt.Errorf("evaluation reported an interrupt before any was delivered%s", hist())
		}
	}

	// nothing new starts after the interrupt
	if !t.goCb {
		for b, n := range late {
			if n > 1 {
				return fmt.Errorf("%d ticks of branch %d (one sequential thread of Elvish code) started after the interrupt was delivered; at most the one pipeline already past its start check may run%s", n, b, hist())
			}
			if !c.Async && b == cancelBr {
				return fmt.Errorf("a tick started in the thread that delivered the interrupt, after the interrupt%s", hist())
			}
		}
		if !c.Async && !t.parallel && cancelDelivered && ticks != c.K+1 {
			return fmt.Errorf("sequential program: %d ticks started, the interrupt was delivered inside tick %d%s", ticks, c.K, hist())
		}
	}
	if t.bounded && maxRun > c.W {
		return fmt.Errorf("%d bounded-peach callbacks were running at once, &num-workers=%d%s", maxRun, c.W, hist())
	}

	// every goroutine the evaluation started has completed
	deadline := time.Now().Add(20 * time.Second)
	for runtime.NumGoroutine() > baseline {
		if time.Now().After(deadline) {
			buf := make([]byte, 1<<16)
			buf = buf[:runtime.Stack(buf, true)]
			return fmt.Errorf("%d goroutines are still alive 20 s after Eval returned (baseline %d)%s\n%s", runtime.NumGoroutine(), baseline, hist(), c18Clip2(string(buf), 6000))
		}
		time.Sleep(200 * time.Microsecond)
	}
	return nil
}

// ---- C19/sweep: every cancellation point of every template instance ----------------------------

type c19Inst struct {
	tmpl string
	n, w int
}

func c19Instances(tier string) []c19Inst {
	out := []c19Inst{
		{"seq", 5, 0}, {"seq", 12, 0}, {"bg-seq", 5, 0}, {"bg-fn", 3, 0}, {"bg-sleep", 3, 0}, {"for", 3, 0}, {"for", 6, 0}, {"while", 4, 0}, {"while", 9, 0},
		{"each", 3, 0}, {"each", 6, 0}, {"fn", 3, 0}, {"fn", 6, 0}, {"capture", 4, 0}, {"capture", 8, 0},
		{"try", 2, 0}, {"try", 4, 0}, {"defer", 2, 0}, {"defer", 4, 0},
		{"eval-seq", 5, 0}, {"eval-sleep", 3, 0}, {"eval-nested", 3, 0}, {"pipe", 4, 0}, {"pipe", 8, 0}, {"pipe-long", 300, 0}, {"pipe-long", 60, 0}, {"pipe-sleep", 5, 0}, {"runpar-sleep", 5, 0}, {"runpar", 3, 0}, {"runpar", 5, 0},
		{"peach", 4, 0}, {"peach", 8, 0},
		{"peach-b", 6, 2}, {"peach-b", 8, 3}, {"peach-b", 5, 1}, {"peach-go", 8, 2}, {"peach-go", 12, 3}, {"peach-go", 6, 1},
		{"peach-pipe", 8, 2}, {"nested", 3, 2},
	}
	if tier == "thorough" {
		out = append(out, []c19Inst{
			{"seq", 40, 0}, {"for", 25, 0}, {"while", 33, 0}, {"each", 40, 0}, {"fn", 30, 0}, {"capture", 35, 0}, {"try", 12, 0}, {"defer", 12, 0},
			{"pipe", 40, 0}, {"pipe-sleep", 20, 0}, {"runpar-sleep", 20, 0}, {"runpar", 15, 0}, {"peach", 40, 0},
			{"peach-b", 30, 2}, {"peach-b", 40, 4}, {"peach-b", 20, 1}, {"peach-go", 50, 2}, {"peach-go", 64, 8}, {"peach-pipe", 50, 3}, {"nested", 10, 3},
		}...)
	}
	return out
}

// c19Mix is a small deterministic mixer (splitmix64) used to vary GOMAXPROCS
// and the yield pattern over the enumeration; its seed is the run's seed.
func c19Mix(x uint64) uint64 {
	x += 0x9e3779b97f4a7c15
	x = (x ^ (x >> 30)) * 0xbf58476d1ce4e5b9
	x = (x ^ (x >> 27)) * 0x94d049bb133111eb
	return x ^ (x >> 31)
}

func c19Enum(tier string, yield func(c19Case) bool) {
	seed, _ := strconv.ParseUint(os.Getenv("VERIF_SEED_EFFECTIVE"), 10, 64)
	procs := []int{1, 2, 4, 16}
	ys := [][]int{nil, nil, {1}, {0, 1}, {2, 0, 0}, {0, 5, 1}, {1, 1, 12}}
	idx := uint64(0)
	for _, in := range c19Instances(tier) {
		t := c19Tmpls[in.tmpl]
		total := t.total(in.n, in.w)
		last := total // K == total: nobody cancels
		if t.mustStop {
			last = total - 1
		}
		for k := 0; k <= last; k++ {
			idx++
			h := c19Mix(seed*1000003 + idx)
			c := c19Case{Tmpl: in.tmpl, N: in.n, W: in.w, K: k, Procs: procs[h%4], Y: ys[(h>>8)%uint64(len(ys))]}
			if !yield(c) {
				return
			}
		}
	}
}

func c19Class(c c19Case) (string, bool) {
	t := c19Tmpls[c.Tmpl]
	if c.Async {
		return "async/" + c.Tmpl, true
	}
	if c.K >= t.total(c.N, c.W) {
		return c.Tmpl + "/not-cancelled", false
	}
	return c.Tmpl, true
}

func c19GenAsync(t *rapid.T) c19Case {
	names := make([]string, 0, len(c19Tmpls))
	for k := range c19Tmpls {
		names = append(names, k)
	}
	sort.Strings(names)
	c := c19Case{Async: true, Tmpl: rapid.SampledFrom(names).Draw(t, "tmpl")}
	c.N = rapid.SampledFrom([]int{3, 8, 20, 40}).Draw(t, "n")
	if c19Tmpls[c.Tmpl].bounded {
		c.W = rapid.IntRange(1, 4).Draw(t, "w")
	}
	if c.Tmpl == "nested" && c.N > 10 {
		c.N = 10
	}
	c.Procs = rapid.SampledFrom([]int{1, 2, 4, 16}).Draw(t, "procs")
	c.Y = rapid.SliceOfN(rapid.SampledFrom([]int{0, 1, 2, 5, 5, 12}), 1, 4).Draw(t, "y")
	c.AsyncUs = rapid.SampledFrom([]int{0, 1, 5, 20, 50, 100, 200, 400, 800, 1500, 3000}).Draw(t, "delay") + rapid.IntRange(0, 40).Draw(t, "jitter")
	return c
}

func init() {
	vs.Register(vs.Prop[c19Case]{
		Name: "C19/sweep",
		Rule: "24 program templates (statement sequence, the same inside eval with and without a trailing sleep and inside eval inside a function, the same after a background job `nop &` in the frame or in a function, for, while, each, recursive fn, output capture, try/catch/finally, defer, 3-stage pipeline, a pipeline of 62 / 302 forms whose first form is interrupted at once and then writes 100 values, pipeline and run-parallel with `sleep 1000`, run-parallel, peach, peach &num-workers with closure / Go-function / piped inputs, bounded peach nested in each) x 1-3 sizes; for each instance every tick index K in 0..total is a case: the K-th `tick` to arrive cancels EvalCfg.Interrupts synchronously (K=total: nobody cancels; not for the sleep templates). GOMAXPROCS in {1,2,4,16} and the tick yield pattern vary with the seed. Non-trivial = the interrupt is delivered (K<total)",
		Enum: c19Enum, Check: c19Check, Class: c19Class,
		Shards: 8, Timeout: 45 * time.Second,
		Known: []vs.Known[c19Case]{
			{Key: "C19:peach-semaphore-after-interrupt", Case: c19Case{Tmpl: "peach-b", N: 10, W: 2, K: 1, Procs: 4}},
			{Key: "C19:peach-semaphore-after-interrupt", Case: c19Case{Tmpl: "peach-go", N: 10, W: 2, K: 2, Procs: 4}},
		},
	})
	vs.Register(vs.Prop[c19Case]{
		Name: "C19/async",
		Rule: "the same templates with larger sizes; a separate goroutine cancels after a generated delay of 0..3 ms (ticks yield or sleep 20-120 us so that the delay falls inside the run); the verdict uses only the recorded order of events, never the clock",
		Gen:  c19GenAsync, Check: c19Check, Class: c19Class,
		Quick: 150, Thorough: 3000, Timeout: 45 * time.Second,
	})
	vs.Register(vs.Prop[c19Case]{
		Name: "C19/race",
		Rule: "C19/async on the -race binary (fewer cases)",
		Gen:  c19GenAsync, Check: c19Check, Class: c19Class,
		Quick: 60, Thorough: 800, Timeout: 90 * time.Second, Race: true,
	})
}
