package props

// C20 peach and run-parallel run each task once; one-worker peach equals each.
//
// A case is a list of per-input plans (yield, outputs, break / fail /
// continue), a worker bound, the shape of the callback and a list of
// GOMAXPROCS values. The callback is a harness Go command that records every
// start and end and a running-callback counter. The oracle is the reference
// text of peach / each / run-parallel (builtin doc + language reference):
// counts, bound, output union, completion before return and exception set are
// all schedule independent; for a bound of 1 the whole observable behaviour is
// determined (sequential until the first break or failure) and is compared
// with that model and with `each` run on the same plan.

import (
	"encoding/json"
	"fmt"
	"os"
	"os/exec"
	"reflect"
	"runtime"
	"sort"
	"strconv"
	"strings"
	"sync"
	"time"

	"pgregory.net/rapid"
	"src.elv.sh/pkg/eval"
	"src.elv.sh/pkg/eval/vals"
	"verif/elv"
	"verif/vs"
)

type c20Plan struct {
	Y     int    `json:"y,omitempty"`     // yield code while the callback is running
	Outs  int    `json:"outs,omitempty"`  // values written
	Lines int    `json:"lines,omitempty"` // byte lines written
	Act   string `json:"act,omitempty"`   // "", "break", "fail", "continue"
}

type c20Case struct {
	Mode  string    `json:"mode"`  // "peach" | "runpar"
	Bound int       `json:"bound"` // peach: 1..8; 0 = option omitted; -1 = +inf; -2 = 100000000000000000000
	Plans []c20Plan `json:"plans"`
	Procs []int     `json:"procs"`
	Cb    int       `json:"cb"`             // 0 Go function value, 1 closure calling it, 2 closure with native break/fail
	Pipe  bool      `json:"pipe,omitempty"` // inputs come from a pipeline instead of a list argument
	Child bool      `json:"child,omitempty"`
}

// ---- recorder ------------------------------------------------------------------------

type c20Rec struct {
	mu       sync.Mutex
	plans    []c20Plan
	calls    []int
	order    []int
	running  int
	maxRun   int
	started  int
	ended    int
	after    bool
	aRunning int
	aStarted int
	aEnded   int
}

func (r *c20Rec) work(fm *eval.Frame, i int) error {
	if i < 0 || i >= len(r.plans) {
		return fmt.Errorf("c20 harness: input %d out of range", i)
	}
	p := r.plans[i]
	r.mu.Lock()
	r.calls[i]++
	r.order = append(r.order, i)
	r.started++
	r.running++
	if r.running > r.maxRun {
		r.maxRun = r.running
	}
	r.mu.Unlock()
	c18Yield(p.Y)
	vo, bo := fm.ValueOutput(), fm.ByteOutput()
	var err error
	for j := 0; j < p.Outs && err == nil; j++ {
		err = vo.Put("v" + strconv.Itoa(i) + ":" + strconv.Itoa(j))
	}
	for j := 0; j < p.Lines && err == nil; j++ {
		_, err = bo.WriteString("l" + strconv.Itoa(i) + ":" + strconv.Itoa(j) + "\n")
	}
	c18Yield(p.Y)
	r.mu.Lock()
	r.running--
	r.ended++
	r.mu.Unlock()
	return err
}

func (r *c20Rec) act(i int) error {
	switch r.plans[i].Act {
	case "break":
		return eval.Break
	case "continue":
		return eval.Continue
	case "fail":
		return eval.FailError{Content: "f" + strconv.Itoa(i)}
	}
	return nil
}

func (r *c20Rec) fns() map[string]any {
	m := map[string]any{
		"c20-cb": func(fm *eval.Frame, i int) error {
			if err := r.work(fm, i); err != nil {
				return err
			}
			return r.act(i)
		},
		"c20-work": func(fm *eval.Frame, i int) error { return r.work(fm, i) },
		"c20-is":   func(i int, what string) bool { return r.plans[i].Act == what },
		"c20-after": func() {
			r.mu.Lock()
			r.after, r.aRunning, r.aStarted, r.aEnded = true, r.running, r.started, r.ended
			r.mu.Unlock()
		},
	}
	for k := 0; k < 12; k++ {
		k := k
		m["c20-z"+strconv.Itoa(k)] = func(fm *eval.Frame) error {
			if err := r.work(fm, k); err != nil {
				return err
			}
			return r.act(k)
		}
	}
	return m
}

// ---- source text -----------------------------------------------------------------------

func c20Callback(cb int) string {
	switch cb {
	case 0:
		return "$c20-cb~"
	case 1:
		return "{|x| c20-cb $x }"
	}
	return "{|x| c20-work $x; if (c20-is $x break) { break }; if (c20-is $x continue) { continue }; if (c20-is $x fail) { fail f$x } }"
}

func c20Code(c c20Case, cmd string) string {
	n := len(c.Plans)
	if c.Mode == "runpar" {
		var fs []string
		for i := range c.Plans {
			switch c.Cb {
			case 0:
				fs = append(fs, "$c20-z"+strconv.Itoa(i)+"~")
			case 1:
				fs = append(fs, "{ c20-cb "+strconv.Itoa(i)+" }")
			default:
				s := "{ c20-work " + strconv.Itoa(i)
				if c.Plans[i].Act == "fail" {
					s += "; fail f" + strconv.Itoa(i)
				}
				fs = append(fs, s+" }")
			}
		}
		return "try { run-parallel " + strings.Join(fs, " ") + " } finally { c20-after }"
	}
	opt := ""
	if cmd == "peach" {
		switch {
		case c.Bound >= 1:
			opt = " &num-workers=" + strconv.Itoa(c.Bound)
		case c.Bound == -1:
			opt = " &num-workers=+inf"
		case c.Bound == -2:
			opt = " &num-workers=100000000000000000000"
		}
	}
	if c.Pipe {
		return "try { range " + strconv.Itoa(n) + " | " + cmd + opt + " " + c20Callback(c.Cb) + " } finally { c20-after }"
	}
	return "try { " + cmd + opt + " " + c20Callback(c.Cb) + " [(range " + strconv.Itoa(n) + ")] } finally { c20-after }"
}

// ---- one run -----------------------------------------------------------------------------

type c20Obs struct {
	Values  []string
	Lines   []string
	Order   []int
	Calls   []int
	MaxRun  int
	After   [3]int // running, started, ended when the command returned
	HasAft  bool
	Ended   int
	Start   int
	ErrNil  bool
	Fails   []string // sorted messages of the reported fail exceptions
	Shape   string   // "nil", "single", "multi", "pipeline", or "other: ..."
	PipePos []string
}

func c20Errors(err error, obs *c20Obs) {
	msg := func(e error) string {
		if fe, ok := eval.Reason(e).(eval.FailError); ok {
			return vals.ToString(fe.Content)
		}
		return "«" + e.Error() + "»"
	}
	switch {
	case err == nil:
		obs.ErrNil, obs.Shape = true, "nil"
		return
	case !elv.IsException(err):
		obs.Shape = "other: " + err.Error()
		return
	}
	reason := elv.Reason(err)
	if reason == nil {
		obs.Shape = "other: an exception without a reason ($ok) was raised"
		return
	}
	if pe, ok := reason.(eval.PipelineError); ok {
		obs.Shape = "pipeline"
		for _, e := range pe.Errors {
			if e == nil || e.Reason() == nil {
				obs.PipePos = append(obs.PipePos, "")
				continue
			}
			obs.PipePos = append(obs.PipePos, msg(e))
			obs.Fails = append(obs.Fails, msg(e))
		}
	} else if _, ok := reason.(eval.FailError); ok {
		obs.Shape = "single"
		obs.Fails = []string{msg(err)}
	} else if rv := reflect.ValueOf(reason); rv.IsValid() && rv.Kind() == reflect.Slice {
		obs.Shape = "multi"
		for k := 0; k < rv.Len(); k++ {
			if e, ok := rv.Index(k).Interface().(error); ok {
				obs.Fails = append(obs.Fails, msg(e))
			} else {
				obs.Fails = append(obs.Fails, "«not an error»")
			}
		}
	} else {
		obs.Shape = "other: " + reason.Error()
	}
	sort.Strings(obs.Fails)
}

func c20RunOnce(c c20Case, cmd string, procs int) c20Obs {
	if procs >= 1 {
		defer runtime.GOMAXPROCS(runtime.GOMAXPROCS(procs))
	}
	rec := &c20Rec{plans: c.Plans, calls: make([]int, len(c.Plans))}
	ev := elv.New()
	elv.AddGoFns(ev, rec.fns())
	res := elv.Run(ev, c20Code(c, cmd))
	var obs c20Obs
	for _, v := range res.Values {
		obs.Values = append(obs.Values, vals.ToString(v))
	}
	if len(res.Bytes) > 0 {
		obs.Lines = strings.Split(strings.TrimSuffix(string(res.Bytes), "\n"), "\n")
	}
	rec.mu.Lock()
	obs.Order = append([]int(nil), rec.order...)
	obs.Calls = append([]int(nil), rec.calls...)
	obs.MaxRun, obs.HasAft = rec.maxRun, rec.after
	obs.After = [3]int{rec.aRunning, rec.aStarted, rec.aEnded}
	obs.Start, obs.Ended = rec.started, rec.ended
	rec.mu.Unlock()
	c20Errors(res.Err, &obs)
	return obs
}

// ---- oracle --------------------------------------------------------------------------------

func c20Outs(i int, p c20Plan) (v, l []string) {
	for j := 0; j < p.Outs; j++ {
		v = append(v, "v"+strconv.Itoa(i)+":"+strconv.Itoa(j))
	}
	for j := 0; j < p.Lines; j++ {
		l = append(l, "l"+strconv.Itoa(i)+":"+strconv.Itoa(j))
	}
	return
}

func c20SameMultiset(a, b []string) bool {
	if len(a) != len(b) {
		return false
	}
	x, y := append([]string(nil), a...), append([]string(nil), b...)
	sort.Strings(x)
	sort.Strings(y)
	for i := range x {
		if x[i] != y[i] {
			return false
		}
	}
	return true
}

func c20Clip(v any) string {
	s := fmt.Sprint(v)
	if len(s) > 300 {
		return s[:300] + "…"
	}
	return s
}

// c20Judge applies the schedule-independent rules to one run.
func c20Judge(c c20Case, cmd string, procs int, o c20Obs) error {
	ctx := func() string {
		return fmt.Sprintf("\ncode: %s\nGOMAXPROCS=%d calls=%s order=%s maxRunning=%d error-shape=%s fails=%v", c18Clip2(c20Code(c, cmd), 300), procs, c20Clip(o.Calls), c20Clip(o.Order), o.MaxRun, o.Shape, o.Fails)
	}
	if strings.HasPrefix(o.Shape, "other") {
		return fmt.Errorf("%s ended with an unexpected error (%s)%s", cmd, o.Shape, ctx())
	}
	stops := false
	for _, p := range c.Plans {
		if p.Act == "break" || p.Act == "fail" {
			stops = true
		}
	}
	sequential := cmd == "each" || (cmd == "peach" && c.Bound == 1)
	var wantV, wantL, wantFails []string
	for i, n := range o.Calls {
		if n > 1 {
			return fmt.Errorf("callback for input %d was called %d times%s", i, n, ctx())
		}
		if n == 0 && (!stops || c.Mode == "runpar") {
			return fmt.Errorf("callback for input %d was never called although nothing breaks or fails%s", i, ctx())
		}
		if n == 1 {
			v, l := c20Outs(i, c.Plans[i])
			wantV, wantL = append(wantV, v...), append(wantL, l...)
			if c.Plans[i].Act == "fail" {
				wantFails = append(wantFails, "f"+strconv.Itoa(i))
			}
		}
	}
	if c.Mode == "peach" && cmd == "peach" && c.Bound >= 1 && o.MaxRun > c.Bound {
		return fmt.Errorf("%d callbacks were running at once, &num-workers=%d%s", o.MaxRun, c.Bound, ctx())
	}
	if cmd == "each" && o.MaxRun > 1 {
		return fmt.Errorf("each ran %d callbacks at once%s", o.MaxRun, ctx())
	}
	if !o.HasAft {
		return fmt.Errorf("harness: the finally block after %s did not run%s", cmd, ctx())
	}
	if o.After[0] != 0 || o.After[1] != o.After[2] {
		return fmt.Errorf("%s returned while callbacks were still running (running=%d started=%d ended=%d)%s", cmd, o.After[0], o.After[1], o.After[2], ctx())
	}
	if o.Start != o.After[1] {
		return fmt.Errorf("%d callbacks were started after %s had returned%s", o.Start-o.After[1], cmd, ctx())
	}
	if !c20SameMultiset(o.Values, wantV) {
		return fmt.Errorf("value output is not the union of the callbacks' outputs: got %s want %s%s", c20Clip(o.Values), c20Clip(wantV), ctx())
	}
	if !c20SameMultiset(o.Lines, wantL) {
		return fmt.Errorf("byte output is not the union of the callbacks' outputs: got %s want %s%s", c20Clip(o.Lines), c20Clip(wantL), ctx())
	}
	sort.Strings(wantFails)
	if !c20SameMultiset(o.Fails, wantFails) || (len(wantFails) == 0) != o.ErrNil {
		return fmt.Errorf("reported exceptions %v (shape %s), the callbacks that ran failed with %v%s", o.Fails, o.Shape, wantFails, ctx())
	}
	if c.Mode == "runpar" && o.Shape == "pipeline" {
		for i, m := range o.PipePos {
			want := ""
			if c.Plans[i].Act == "fail" {
				want = "f" + strconv.Itoa(i)
			}
			if m != want {
				return fmt.Errorf("run-parallel reports %q for function %d, want %q%s", m, i, want, ctx())
			}
		}
	}
	if sequential {
		// fully determined: inputs in order until the first break or failure
		var seqOrder []int
		var seqV, seqL, seqFails []string
		for i, p := range c.Plans {
			seqOrder = append(seqOrder, i)
			v, l := c20Outs(i, p)
			seqV, seqL = append(seqV, v...), append(seqL, l...)
			if p.Act == "fail" {
				seqFails = []string{"f" + strconv.Itoa(i)}
			}
			if p.Act == "break" || p.Act == "fail" {
				break
			}
		}
		if fmt.Sprint(o.Order) != fmt.Sprint(seqOrder) {
			return fmt.Errorf("%s with one worker must call the callback for inputs %s (in order, none after a break or failure), called %s%s", cmd, c20Clip(seqOrder), c20Clip(o.Order), ctx())
		}
		if fmt.Sprint(o.Values) != fmt.Sprint(seqV) || fmt.Sprint(o.Lines) != fmt.Sprint(seqL) {
			return fmt.Errorf("%s with one worker: outputs %s / %s, sequential execution gives %s / %s%s", cmd, c20Clip(o.Values), c20Clip(o.Lines), c20Clip(seqV), c20Clip(seqL), ctx())
		}
		if fmt.Sprint(o.Fails) != fmt.Sprint(seqFails) {
			return fmt.Errorf("%s with one worker: exceptions %v, sequential execution gives %v%s", cmd, o.Fails, seqFails, ctx())
		}
	}
	return nil
}

func c20CheckHere(c c20Case) error {
	for _, procs := range c.Procs {
		cmd := "peach"
		if c.Mode == "runpar" {
			cmd = "run-parallel"
		}
		o := c20RunOnce(c, cmd, procs)
		if err := c20Judge(c, cmd, procs, o); err != nil {
			return err
		}
		if c.Mode == "peach" && c.Bound == 1 {
			// side by side with each on the same plan
			e := c20RunOnce(c, "each", procs)
			if err := c20Judge(c, "each", procs, e); err != nil {
				return err
			}
			if fmt.Sprint(o.Order, o.Values, o.Lines, o.Fails, o.Shape) != fmt.Sprint(e.Order, e.Values, e.Lines, e.Fails, e.Shape) {
				return fmt.Errorf("peach &num-workers=1 and each differ on the same callbacks: peach calls=%s values=%s lines=%s exceptions=%v(%s); each calls=%s values=%s lines=%s exceptions=%v(%s)\ncode: %s",
					c20Clip(o.Order), c20Clip(o.Values), c20Clip(o.Lines), o.Fails, o.Shape, c20Clip(e.Order), c20Clip(e.Values), c20Clip(e.Lines), e.Fails, e.Shape, c20Code(c, "peach"))
			}
		}
	}
	return nil
}

// A case that may bring the whole process down (Go function values given to
// run-parallel, see C20:run-parallel-go-fn-error-panics) runs in a child.
func c20Check(c c20Case) error {
	if !c.Child {
		return c20CheckHere(c)
	}
	raw, _ := json.Marshal(c)
	cmd := exec.Command(os.Args[0], "-test.run", "^$")
	cmd.Env = append(os.Environ(), "VERIF_WORKER=c20child", "C20_CASE="+string(raw))
	out, err := cmd.CombinedOutput()
	s := string(out)
	if i := strings.Index(s, "C20-CHILD-RESULT "); i >= 0 {
		line := strings.SplitN(s[i+len("C20-CHILD-RESULT "):], "\n", 2)[0]
		var msg string
		json.Unmarshal([]byte(line), &msg)
		if msg == "" {
			return nil
		}
		return fmt.Errorf("%s", msg)
	}
	return fmt.Errorf("the interpreter process crashed (%v) running %s\n%s", err, c20Code(c, "run-parallel"), c18Clip2(s, 1500))
}

func init() {
	workers["c20child"] = func() int {
		var c c20Case
		if err := json.Unmarshal([]byte(os.Getenv("C20_CASE")), &c); err != nil {
			fmt.Println("bad case", err)
			return 2
		}
		c.Child = false
		msg := ""
		if err := c20CheckHere(c); err != nil {
			msg = err.Error()
		}
		b, _ := json.Marshal(msg)
		fmt.Printf("C20-CHILD-RESULT %s\n", b)
		return 0
	}
}

// ---- generator -------------------------------------------------------------------------------

func c20Gen(t *rapid.T) c20Case {
	var c c20Case
	if rapid.IntRange(0, 4).Draw(t, "mode") == 0 {
		c.Mode = "runpar"
	} else {
		c.Mode = "peach"
	}
	var n int
	if c.Mode == "runpar" {
		n = rapid.IntRange(0, 12).Draw(t, "n")
	} else {
		n = rapid.SampledFrom([]int{0, 1, 2, 2, 3, 3, 5, 5, 8, 8, 9, 9, 13, 20, 20, 33, 34, 34, 100, 500}).Draw(t, "n")
		c.Bound = rapid.SampledFrom([]int{1, 1, 1, 2, 3, 4, 8, 0, -1, -2}).Draw(t, "bound")
		c.Pipe = rapid.Bool().Draw(t, "pipe")
	}
	c.Cb = rapid.IntRange(0, 2).Draw(t, "cb")
	if n > 40 && c.Cb == 2 {
		c.Cb = 1 // the closure with native break/fail makes three output captures per call
	}
	nact := rapid.SampledFrom([]int{0, 0, 1, 1, 2, 4}).Draw(t, "nact")
	busy := rapid.IntRange(0, 2).Draw(t, "busy")
	c.Plans = make([]c20Plan, n)
	for i := range c.Plans {
		p := &c.Plans[i]
		p.Outs = rapid.SampledFrom([]int{0, 1, 1, 2, 3}).Draw(t, "outs")
		p.Lines = rapid.SampledFrom([]int{0, 0, 1, 2}).Draw(t, "lines")
		if busy > 0 && (n <= 40 || i%7 == 0) {
			p.Y = rapid.SampledFrom([]int{0, 1, 1, 2, 5, 12}).Draw(t, "y")
		}
	}
	for k := 0; k < nact && n > 0; k++ {
		i := rapid.IntRange(0, n-1).Draw(t, "at")
		acts := []string{"break", "fail", "fail", "continue"}
		if c.Mode == "runpar" {
			acts = []string{"fail"}
		}
		c.Plans[i].Act = rapid.SampledFrom(acts).Draw(t, "act")
	}
	c.Procs = []int{rapid.SampledFrom([]int{1, 2}).Draw(t, "p1"), rapid.SampledFrom([]int{3, 4, 8, 16}).Draw(t, "p2")}
	if n <= 40 {
		c.Procs = append(c.Procs, rapid.SampledFrom([]int{1, 2, 16}).Draw(t, "p3"))
	}
	if c.Mode == "runpar" && c.Cb == 0 {
		fails := false
		for _, p := range c.Plans {
			fails = fails || p.Act == "fail"
		}
		if fails {
			if vs.KnownOpen("C20:run-parallel-go-fn-error-panics") {
				c.Cb = 1
				vs.Excluded("run-parallel given a Go function value that fails (open finding C20:run-parallel-go-fn-error-panics)")
			} else {
				c.Child = true
			}
		}
	}
	return c
}

func c20Class(c c20Case) (string, bool) {
	acts := ""
	for _, p := range c.Plans {
		if p.Act == "break" || p.Act == "fail" {
			acts = "+stops"
		}
	}
	if c.Mode == "runpar" {
		return "run-parallel" + acts, len(c.Plans) >= 2
	}
	b := "unbounded"
	switch {
	case c.Bound == 1:
		b = "bound1"
	case c.Bound > 1:
		b = "boundN"
	}
	return "peach/" + b + acts, len(c.Plans) >= 2
}

func init() {
	vs.Register(vs.Prop[c20Case]{
		Name: "C20/tasks",
		Rule: "peach over 0..500 inputs (list argument or pipeline) with &num-workers in {1,2,3,4,8, omitted, +inf, 10^20} and run-parallel over 0..12 functions; the callback is a harness Go function (given as a function value, through a closure, or a closure using the native break/continue/fail) that follows a generated per-input plan (yield/sleep, 0-3 values, 0-2 byte lines, then nothing/break/fail/continue) and records starts, ends and a running-callback counter; each case is run under 2-3 generated GOMAXPROCS values; for a bound of 1 the same plan is also run through each. run-parallel functions only fail (break/continue/return escaping a function are left out: the reference does not say how they are reported). Non-trivial = at least 2 inputs/functions",
		Gen:  c20Gen, Check: c20Check, Class: c20Class,
		Quick: 400, Thorough: 2500, Timeout: 40 * time.Second,
		Known: []vs.Known[c20Case]{
			// peach &num-workers=1 {|x| put $x; if (== $x 2) { break } } [1 2 3 4 5]
			{Key: "C20:bounded-peach-runs-one-more-after-break", Case: c20Case{Mode: "peach", Bound: 1, Cb: 2, Procs: []int{1, 4},
				Plans: []c20Plan{{Outs: 1}, {Outs: 1, Act: "break"}, {Outs: 1}, {Outs: 1}, {Outs: 1}}}},
			{Key: "C20:bounded-peach-runs-one-more-after-break", Case: c20Case{Mode: "peach", Bound: 1, Cb: 0, Procs: []int{2, 16},
				Plans: []c20Plan{{Outs: 1}, {Outs: 1}, {Outs: 1, Act: "fail"}, {Outs: 1}, {Outs: 1}}}},
			// run-parallel $c20-z0~ $c20-z1~ where the second returns an error (like `run-parallel $fail~`)
			{Key: "C20:run-parallel-go-fn-error-panics", Case: c20Case{Mode: "runpar", Cb: 0, Child: true, Procs: []int{2},
				Plans: []c20Plan{{Outs: 1}, {Outs: 1, Act: "fail"}}}},
		},
	})
	vs.Register(vs.Prop[c20Case]{
		Name: "C20/race", Rule: "the same cases on the -race binary (fewer cases)",
		Gen: c20Gen, Check: c20Check, Class: c20Class,
		Quick: 80, Thorough: 400, Timeout: 90 * time.Second, Race: true,
	})
}
