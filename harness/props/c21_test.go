package props

// C21 tmp, with and defer restore and clean up on every exit path.
//
// One sub-check, C21/paths. A case is a generated function body (a tree of
// statement structs) that nests tmp / with (both syntaxes, variables and
// elements) / defer inside lambdas, fn functions, if, for, while, each and try,
// with exits by normal completion, fail, break, continue and return at random
// places (also only on the n-th pass through a place), deferred callbacks that
// fail, and restore targets that refuse to be set (harness variables that can
// be locked). The tree is rendered to Elvish source and run by the real
// evaluator. Harness commands record an event log: every `c21-log` event holds
// the values of all seven variables at that moment, every assignment to a
// harness variable is an event (so the order of restores is directly visible),
// every catch block records the exception it caught.
//
// Oracle: a Go interpreter of the same tree (c21Model) written from
// language.md (tmp, with, set, try, for, while, flow commands, "body blocks are
// lambdas") and the doc comment of defer in builtin_fn_flow.d.elv. The event
// log, the final values and the exception that leaves the function must be the
// ones the model gives.
//
// Spots where the reference is silent and both behaviours are accepted:
//   - several deferred callbacks / restores fail after a successful body: any
//     one of their exceptions may be the one reported;
//   - tmp / with on an element a[i] while the body assigns other parts of the
//     same variable: restoring the whole variable and restoring only the
//     element are both accepted (consistently within a case).

import (
	"errors"
	"fmt"
	"sort"
	"strconv"
	"strings"
	"time"

	"pgregory.net/rapid"
	"src.elv.sh/pkg/eval"
	"src.elv.sh/pkg/eval/vals"
	"src.elv.sh/pkg/eval/vars"
	"src.elv.sh/pkg/parse"
	"verif/elv"
	"verif/vs"
)

const c21KnownKey = "C21:defer-success-returns-ok-exception"

// ---- case ---------------------------------------------------------------------

// Variables: 0..2 = $s0..$s2 (strings), 3 = $l0 (list of 3), 4 = $m0 (map),
// 5..6 = $g0 $g1 (harness variables: every Set is an event, can be locked).
var c21VarNames = []string{"s0", "s1", "s2", "l0", "m0", "g0", "g1"}

type c21Target struct {
	Var  int `json:"var"`
	Elem int `json:"elem"` // 0 = the variable itself; else element number Elem-1 (lists: index, 3 = -1, 4 = out of range; maps: k0 k1 k2)
}

type c21Group struct {
	Targets []c21Target `json:"t"`
	Short   bool        `json:"short,omitempty"` // one value too few on the right-hand side (arity error)
	Rest    int         `json:"rest,omitempty"`  // k > 0: the k-th target (after normalisation, if it is a whole variable) is a rest lvalue @x
	RestN   int         `json:"restn,omitempty"` // number of values the rest lvalue receives (0..2)
}

// c21RestIdx is the index of the rest lvalue among the normalised targets, or -1.
func c21RestIdx(g c21Group, targets []c21Target) int {
	r := g.Rest - 1
	if r < 0 || r >= len(targets) || targets[r].Elem != 0 {
		return -1
	}
	return r
}

// c21RestRhs is the value a rest lvalue receives (a list of n fresh strings) and its source.
func c21RestRhs(id, j, n int) (c21Val, string) {
	n = ((n % 3) + 3) % 3
	base := "v" + strconv.Itoa(id) + string(rune('a'+j)) + "r"
	v := c21Val{K: 'l'}
	for i := 0; i < n; i++ {
		v.L = append(v.L, base+strconv.Itoa(i))
	}
	return v, strings.Join(v.L, " ")
}

type c21Stmt struct {
	K          string     `json:"k"` // log set tmp with defer fail break continue return for while each if nth try call fncall lock unlock
	ID         int        `json:"id"`
	Groups     []c21Group `json:"g,omitempty"`  // set/tmp: one group; with: one or more
	Bracket    bool       `json:"br,omitempty"` // with: bracketed syntax even for a single group
	N          int        `json:"n,omitempty"`  // loops: iterations; nth: which pass; lock/unlock: which harness variable
	Body       []c21Stmt  `json:"body,omitempty"`
	Catch      []c21Stmt  `json:"catch,omitempty"`
	Else       []c21Stmt  `json:"else,omitempty"`
	Finally    []c21Stmt  `json:"finally,omitempty"`
	HasCatch   bool       `json:"hc,omitempty"`
	HasElse    bool       `json:"he,omitempty"`
	HasFinally bool       `json:"hf,omitempty"`
	FailEnd    bool       `json:"failend,omitempty"` // defer: the callback ends with `fail`
}

type c21Case struct {
	Fn   bool      `json:"fn"` // the outer function is defined with fn (captures return) or is a lambda
	Body []c21Stmt `json:"body"`
}

// ---- values -------------------------------------------------------------------

type c21Val struct {
	L []string    // list
	M [][2]string // map, in insertion order
	S string
	K byte // 's' 'l' 'm'
}

func c21S(s string) c21Val { return c21Val{K: 's', S: s} }

func (v c21Val) render() string {
	switch v.K {
	case 'l':
		return "[" + strings.Join(v.L, " ") + "]"
	case 'm':
		parts := make([]string, len(v.M))
		for i, kv := range v.M {
			parts[i] = kv[0] + "=" + kv[1]
		}
		sort.Strings(parts)
		return "{" + strings.Join(parts, " ") + "}"
	}
	return v.S
}

func (v c21Val) src() string {
	switch v.K {
	case 'l':
		return "[" + strings.Join(v.L, " ") + "]"
	case 'm':
		if len(v.M) == 0 {
			return "[&]"
		}
		parts := make([]string, len(v.M))
		for i, kv := range v.M {
			parts[i] = "&" + kv[0] + "=" + kv[1]
		}
		return "[" + strings.Join(parts, " ") + "]"
	}
	return v.S
}

// c21RenderReal renders a real value the same way, walking it.
func c21RenderReal(x any) string {
	switch x := x.(type) {
	case string:
		return x
	case vals.List:
		var parts []string
		for it := x.Iterator(); it.HasElem(); it.Next() {
			parts = append(parts, c21RenderReal(it.Elem()))
		}
		return "[" + strings.Join(parts, " ") + "]"
	case vals.Map:
		var parts []string
		for it := x.Iterator(); it.HasElem(); it.Next() {
			k, v := it.Elem()
			parts = append(parts, c21RenderReal(k)+"="+c21RenderReal(v))
		}
		sort.Strings(parts)
		return "{" + strings.Join(parts, " ") + "}"
	}
	return "?" + vals.ReprPlain(x)
}

// element index text and validity
func c21ElemIndex(varIdx, elem int) string {
	if varIdx == 3 {
		return []string{"0", "1", "2", "-1", "7"}[(elem-1)%5]
	}
	return []string{"k0", "k1", "k2"}[(elem-1)%3]
}

func c21Assoc(c c21Val, idx string, v string) (c21Val, bool) {
	switch c.K {
	case 'l':
		i, err := strconv.Atoi(idx)
		if err != nil {
			return c, false
		}
		if i < 0 {
			i += len(c.L)
		}
		if i < 0 || i >= len(c.L) {
			return c, false
		}
		out := c21Val{K: 'l', L: append([]string(nil), c.L...)}
		out.L[i] = v
		return out, true
	case 'm':
		out := c21Val{K: 'm', M: append([][2]string(nil), c.M...)}
		for i, kv := range out.M {
			if kv[0] == idx {
				out.M[i] = [2]string{idx, v}
				return out, true
			}
		}
		out.M = append(out.M, [2]string{idx, v})
		return out, true
	}
	return c, false
}

func c21Lookup(c c21Val, idx string) (string, bool) {
	switch c.K {
	case 'l':
		i, err := strconv.Atoi(idx)
		if err != nil {
			return "", false
		}
		if i < 0 {
			i += len(c.L)
		}
		if i < 0 || i >= len(c.L) {
			return "", false
		}
		return c.L[i], true
	case 'm':
		for _, kv := range c.M {
			if kv[0] == idx {
				return kv[1], true
			}
		}
	}
	return "", false
}

func c21Dissoc(c c21Val, idx string) c21Val {
	if c.K != 'm' {
		return c
	}
	out := c21Val{K: 'm'}
	for _, kv := range c.M {
		if kv[0] != idx {
			out.M = append(out.M, kv)
		}
	}
	return out
}

// ---- events ---------------------------------------------------------------------

type c21Event struct {
	Kind string   // L (log + snapshot), C (catch), S (harness variable set), X (harness variable refused a set)
	ID   int      // L, C
	Text string   // L: snapshot; S, X: "g0=value"
	Alts []string // C (model side): acceptable exception labels; (real side): one label
}

func (e c21Event) String() string {
	switch e.Kind {
	case "L":
		return fmt.Sprintf("log %d {%s}", e.ID, e.Text)
	case "C":
		return fmt.Sprintf("catch %d %v", e.ID, e.Alts)
	case "S":
		return "set " + e.Text
	}
	return "refused " + e.Text
}

func c21Events(es []c21Event) string {
	parts := make([]string, len(es))
	for i, e := range es {
		parts[i] = e.String()
	}
	return strings.Join(parts, "\n    ")
}

// ---- the model --------------------------------------------------------------------

type c21Exc struct {
	flow string   // "" (an ordinary exception), break, continue, return
	alts []string // ordinary exception: acceptable labels
}

type c21Restore struct {
	name    string
	whole   c21Val
	isElem  bool
	idx     string
	had     bool
	oldElem string
}

type c21Deferred struct {
	restore *c21Restore
	cb      *c21Stmt
}

type c21Frame struct{ defers []c21Deferred }

type c21Model struct {
	vars     map[string]c21Val
	locked   map[string]bool
	nth      map[int]int
	events   []c21Event
	elemOnly bool
	steps    int
	// facts for the class histogram
	exits     map[string]bool // exit kinds that left a closure holding tmp/with/defer work
	restores  int
	callbacks int
	secondary int // closure exits where a restore/callback failed
	masked    int // ... after the body had failed already (secondary exception must be dropped)
	ambiguous bool
	culprits  []int // defer statements whose success triggers the open finding c21KnownKey
	okCulprit int   // set by callClosure: the closure just called "returns an ok exception" because of this defer
}

func c21NewModel(elemOnly bool) *c21Model {
	m := &c21Model{vars: map[string]c21Val{}, locked: map[string]bool{}, nth: map[int]int{}, elemOnly: elemOnly, exits: map[string]bool{}}
	m.vars["s0"], m.vars["s1"], m.vars["s2"] = c21S("i0"), c21S("i1"), c21S("i2")
	m.vars["l0"] = c21Val{K: 'l', L: []string{"a0", "a1", "a2"}}
	m.vars["m0"] = c21Val{K: 'm', M: [][2]string{{"k0", "b0"}, {"k1", "b1"}}}
	m.vars["g0"], m.vars["g1"] = c21S("gi0"), c21S("gi1")
	return m
}

func (m *c21Model) snapshot() string {
	parts := make([]string, len(c21VarNames))
	for i, n := range c21VarNames {
		parts[i] = n + "=" + m.vars[n].render()
	}
	return strings.Join(parts, " ")
}

func c21IsGuard(name string) bool { return name[0] == 'g' }

// setVar assigns a whole variable; harness variables log and may refuse.
func (m *c21Model) setVar(name string, v c21Val, restoring bool) *c21Exc {
	if c21IsGuard(name) {
		if m.locked[name] {
			m.events = append(m.events, c21Event{Kind: "X", Text: name + "=" + v.render()})
			if restoring {
				return &c21Exc{alts: []string{"restore:" + name}}
			}
			return &c21Exc{alts: []string{"locked:" + name}}
		}
		m.events = append(m.events, c21Event{Kind: "S", Text: name + "=" + v.render()})
	}
	m.vars[name] = v
	return nil
}

// the value assigned by statement id to the j-th lvalue
func c21Rhs(id, j int, t c21Target) (c21Val, string) {
	base := "v" + strconv.Itoa(id) + string(rune('a'+j))
	if t.Elem == 0 {
		switch t.Var {
		case 3:
			v := c21Val{K: 'l', L: []string{base + "0", base + "1", base + "2"}}
			return v, v.src()
		case 4:
			v := c21Val{K: 'm', M: [][2]string{{"k0", base + "0"}, {"k1", base + "1"}}}
			return v, v.src()
		}
	}
	return c21S(base), base
}

// c21NormGroup applies the construction rules to a group: elements only of
// $l0/$m0, and a container variable occurs at most once in a group (an lvalue
// a[i] is bound to the value a had when the lvalues were evaluated, so
// `set a[0] a[1] = x y` is not the sequence of the two assignments; the
// reference does not describe this, the shape is left out).
func c21NormGroup(g c21Group) []c21Target {
	var out []c21Target
	seen := map[int]bool{}
	for _, t := range g.Targets {
		t.Var = ((t.Var % 7) + 7) % 7
		if t.Var != 3 && t.Var != 4 {
			t.Elem = 0
		} else {
			if seen[t.Var] {
				continue
			}
			seen[t.Var] = true
			if t.Elem < 0 {
				t.Elem = -t.Elem
			}
		}
		out = append(out, t)
	}
	if len(out) == 0 {
		out = []c21Target{{Var: 0}}
	}
	return out
}

func c21TargetSrc(t c21Target) string {
	if t.Elem == 0 {
		return c21VarNames[t.Var]
	}
	return c21VarNames[t.Var] + "[" + c21ElemIndex(t.Var, t.Elem) + "]"
}

// assign models doAssign: arity check, then per lvalue save / set / register restore.
func (m *c21Model) assign(id int, g c21Group, rc func(c21Deferred)) *c21Exc {
	targets := c21NormGroup(g)
	rest := c21RestIdx(g, targets)
	if g.Short && rest < 0 {
		return &c21Exc{alts: []string{"other"}}
	}
	for j, t := range targets {
		name := c21VarNames[t.Var]
		cur := m.vars[name]
		val, _ := c21Rhs(id, j, t)
		if j == rest {
			val, _ = c21RestRhs(id, j, g.RestN)
		}
		r := &c21Restore{name: name, whole: cur}
		newVal := val
		if t.Elem != 0 {
			idx := c21ElemIndex(t.Var, t.Elem)
			nv, ok := c21Assoc(cur, idx, val.S)
			if !ok {
				return &c21Exc{alts: []string{"other"}}
			}
			newVal = nv
			r.isElem, r.idx = true, idx
			r.oldElem, r.had = c21Lookup(cur, idx)
		}
		if exc := m.setVar(name, newVal, false); exc != nil {
			return exc
		}
		if rc != nil {
			rc(c21Deferred{restore: r})
		}
	}
	return nil
}

func (m *c21Model) runRestore(r *c21Restore) *c21Exc {
	m.restores++
	v := r.whole
	if r.isElem {
		cur := m.vars[r.name]
		var alt c21Val
		if r.had {
			alt, _ = c21Assoc(cur, r.idx, r.oldElem)
		} else {
			alt = c21Dissoc(cur, r.idx)
		}
		if alt.render() != v.render() {
			m.ambiguous = true
		}
		if m.elemOnly {
			v = alt
		}
	}
	return m.setVar(r.name, v, true)
}

// merge combines the outcome so far with a later secondary exception.
func c21Merge(exc, exc2 *c21Exc) *c21Exc {
	if exc2 == nil {
		return exc
	}
	if exc == nil {
		return &c21Exc{flow: exc2.flow, alts: append([]string(nil), exc2.alts...)}
	}
	if exc.flow == "" && exc2.flow == "" {
		exc.alts = append(exc.alts, exc2.alts...)
	}
	return exc
}

// callClosure runs a function body and then its deferred work. kind says how
// the closure is used (needed only to recognise the open finding).
func (m *c21Model) callClosure(body []c21Stmt, kind string) *c21Exc {
	fr := &c21Frame{}
	exc := m.seq(body, fr)
	returned := false
	if kind == "fn" && exc != nil && exc.flow == "return" {
		// "fn modifies its closure to capture return": for the closure of an
		// fn function a return is the normal end of the body.
		exc, returned = nil, true
	}
	if len(fr.defers) > 0 {
		switch {
		case returned:
			m.exits["return"] = true
		case exc == nil:
			m.exits["normal"] = true
		case exc.flow != "":
			m.exits[exc.flow] = true
		default:
			m.exits["exception"] = true
		}
	}
	var second *c21Exc
	firstNonNil := 0 // 0 none yet, 1 a failure, 2 a successful callback
	culprit := 0
	for i := len(fr.defers) - 1; i >= 0; i-- {
		d := fr.defers[i]
		var e *c21Exc
		if d.restore != nil {
			e = m.runRestore(d.restore)
		} else {
			m.callbacks++
			e = m.callClosure(c21CallbackBody(d.cb), "defer")
			if e == nil && firstNonNil == 0 {
				firstNonNil, culprit = 2, d.cb.ID
			}
		}
		if e != nil {
			if firstNonNil == 0 {
				firstNonNil = 1
			}
			second = c21Merge(second, e)
		}
	}
	if second != nil {
		m.secondary++
		if exc != nil {
			m.masked++
		}
	}
	m.okCulprit = 0
	if exc == nil && firstNonNil == 2 {
		// Open finding c21KnownKey: the closure hands a non-nil "ok" exception
		// to its caller. Here it hides a real secondary exception; otherwise
		// the caller decides whether it is visible (for / while / try / with).
		if second != nil {
			m.culprits = append(m.culprits, culprit)
		} else {
			m.okCulprit = culprit
		}
	}
	if exc == nil {
		exc = second // reported only if the body itself succeeded
	}
	return exc
}

func c21CallbackBody(s *c21Stmt) []c21Stmt {
	if !s.FailEnd {
		return s.Body
	}
	return append(append([]c21Stmt(nil), s.Body...), c21Stmt{K: "fail", ID: s.ID + 100000})
}

func (m *c21Model) seq(stmts []c21Stmt, fr *c21Frame) *c21Exc {
	for i := range stmts {
		if exc := m.stmt(&stmts[i], fr); exc != nil {
			return exc
		}
	}
	return nil
}

func (m *c21Model) loop(s *c21Stmt, kind string) *c21Exc {
	for i := 0; i < c21Iter(s); i++ {
		exc := m.callClosure(s.Body, kind)
		if m.okCulprit != 0 && kind != "each" && i < c21Iter(s)-1 {
			m.culprits = append(m.culprits, m.okCulprit) // for / while stop here
		}
		if exc != nil {
			if exc.flow == "continue" {
				continue
			}
			if exc.flow == "break" {
				break
			}
			return exc
		}
	}
	return nil
}

func c21Iter(s *c21Stmt) int { return 1 + ((s.N%3)+3)%3 }

func (m *c21Model) stmt(s *c21Stmt, fr *c21Frame) *c21Exc {
	m.steps++
	if m.steps > 5000 {
		panic("model does not terminate")
	}
	switch s.K {
	case "log":
		m.events = append(m.events, c21Event{Kind: "L", ID: s.ID, Text: m.snapshot()})
	case "set":
		return m.assign(s.ID, s.Groups[0], nil)
	case "tmp":
		return m.assign(s.ID, s.Groups[0], func(d c21Deferred) { fr.defers = append(fr.defers, d) })
	case "with":
		var restores []c21Deferred
		var exc *c21Exc
		for gi, g := range s.Groups {
			exc = m.assign(s.ID*10+gi, g, func(d c21Deferred) { restores = append(restores, d) })
			if exc != nil {
				break
			}
		}
		okc := 0
		if exc == nil {
			exc = m.callClosure(s.Body, "with")
			okc = m.okCulprit
		}
		if len(restores) > 0 {
			switch {
			case exc == nil:
				m.exits["normal"] = true
			case exc.flow != "":
				m.exits[exc.flow] = true
			default:
				m.exits["exception"] = true
			}
		}
		var second *c21Exc
		for i := len(restores) - 1; i >= 0; i-- {
			second = c21Merge(second, m.runRestore(restores[i].restore))
		}
		if second != nil {
			m.secondary++
			if exc != nil {
				m.masked++
			}
			if okc != 0 {
				m.culprits = append(m.culprits, okc) // the restore exception is hidden
			}
		}
		if exc == nil {
			exc = second
		}
		return exc
	case "defer":
		fr.defers = append(fr.defers, c21Deferred{cb: s})
	case "fail":
		return &c21Exc{alts: []string{"f" + strconv.Itoa(s.ID)}}
	case "break", "continue", "return":
		return &c21Exc{flow: s.K}
	case "for":
		return m.loop(s, "for")
	case "while":
		return m.loop(s, "while")
	case "each":
		return m.loop(s, "each")
	case "if":
		return m.callClosure(s.Body, "if")
	case "nth":
		m.nth[s.ID]++
		if m.nth[s.ID] == c21Iter(s) {
			return m.callClosure(s.Body, "if")
		}
	case "call":
		return m.callClosure(s.Body, "call")
	case "fncall":
		exc := m.callClosure(s.Body, "fn")
		if exc != nil && exc.flow == "return" {
			return nil
		}
		return exc
	case "try":
		exc := m.callClosure(s.Body, "try")
		if m.okCulprit != 0 && s.HasCatch {
			m.culprits = append(m.culprits, m.okCulprit) // the catch block runs with $ok
		}
		if exc != nil {
			if s.HasCatch {
				ev := c21Event{Kind: "C", ID: s.ID}
				if exc.flow != "" {
					ev.Alts = []string{exc.flow}
				} else {
					ev.Alts = append([]string(nil), exc.alts...)
				}
				m.events = append(m.events, ev)
				exc = m.callClosure(s.Catch, "catch")
			}
		} else if s.HasCatch && s.HasElse {
			exc = m.callClosure(s.Else, "else")
		}
		if s.HasFinally {
			excF := m.callClosure(s.Finally, "finally")
			if m.okCulprit != 0 && exc != nil {
				m.culprits = append(m.culprits, m.okCulprit) // the pending exception is dropped
			}
			if excF != nil {
				return excF
			}
		}
		return exc
	case "lock":
		m.locked["g"+strconv.Itoa(((s.N%2)+2)%2)] = true
	case "unlock":
		m.locked["g"+strconv.Itoa(((s.N%2)+2)%2)] = false
	default:
		panic("unknown statement " + s.K)
	}
	return nil
}

func (m *c21Model) run(c c21Case) *c21Exc {
	kind := "call"
	if c.Fn {
		kind = "fn"
	}
	exc := m.callClosure(c.Body, kind)
	if c.Fn && exc != nil && exc.flow == "return" {
		exc = nil
	}
	m.events = append(m.events, c21Event{Kind: "L", ID: -1, Text: m.snapshot()})
	return exc
}

// ---- rendering to Elvish source --------------------------------------------------------

const c21LogArgs = " $s0 $s1 $s2 $l0 $m0 $g0 $g1"

func c21GroupSrc(id int, g c21Group) string {
	targets := c21NormGroup(g)
	rest := c21RestIdx(g, targets)
	var lhs, rhs []string
	for j, t := range targets {
		if j == rest {
			lhs = append(lhs, "@"+c21TargetSrc(t))
			if _, src := c21RestRhs(id, j, g.RestN); src != "" {
				rhs = append(rhs, src)
			}
			continue
		}
		lhs = append(lhs, c21TargetSrc(t))
		_, src := c21Rhs(id, j, t)
		rhs = append(rhs, src)
	}
	if g.Short && rest < 0 {
		rhs = rhs[:len(rhs)-1]
	}
	return strings.Join(lhs, " ") + " = " + strings.Join(rhs, " ")
}

func c21HasElem(g c21Group) bool {
	for _, t := range c21NormGroup(g) {
		if t.Elem != 0 {
			return true
		}
	}
	return false
}

func c21Block(stmts []c21Stmt, ind string) string {
	if len(stmts) == 0 {
		return "{ }"
	}
	return "{\n" + c21Src(stmts, ind+"  ") + ind + "}"
}

func c21Src(stmts []c21Stmt, ind string) string {
	var sb strings.Builder
	for i := range stmts {
		s := &stmts[i]
		id := strconv.Itoa(s.ID)
		sb.WriteString(ind)
		switch s.K {
		case "log":
			sb.WriteString("c21-log " + id + c21LogArgs)
		case "set":
			sb.WriteString("set " + c21GroupSrc(s.ID, s.Groups[0]))
		case "tmp":
			sb.WriteString("tmp " + c21GroupSrc(s.ID, s.Groups[0]))
		case "with":
			// `with a[i] = v { }` does not compile; elements need brackets
			if len(s.Groups) == 1 && !s.Bracket && !c21HasElem(s.Groups[0]) {
				sb.WriteString("with " + c21GroupSrc(s.ID*10, s.Groups[0]) + " ")
			} else {
				sb.WriteString("with ")
				for gi, g := range s.Groups {
					sb.WriteString("[" + c21GroupSrc(s.ID*10+gi, g) + "] ")
				}
			}
			sb.WriteString(c21Block(s.Body, ind))
		case "defer":
			sb.WriteString("defer " + c21Block(c21CallbackBody(s), ind))
		case "fail":
			sb.WriteString("fail f" + id)
		case "break", "continue", "return":
			sb.WriteString(s.K)
		case "for":
			sb.WriteString("for i" + id + " [" + strings.TrimSpace(strings.Repeat("x ", c21Iter(s))) + "] " + c21Block(s.Body, ind))
		case "while":
			sb.WriteString("var w" + id + " = (num 0)\n" + ind + "while (< $w" + id + " " + strconv.Itoa(c21Iter(s)) + ") {\n" +
				ind + "  set w" + id + " = (+ $w" + id + " 1)\n" + c21Src(s.Body, ind+"  ") + ind + "}")
		case "each":
			sb.WriteString("each {|e" + id + "|\n" + c21Src(s.Body, ind+"  ") + ind + "} [" + strings.TrimSpace(strings.Repeat("x ", c21Iter(s))) + "]")
		case "if":
			sb.WriteString("if $true " + c21Block(s.Body, ind))
		case "nth":
			sb.WriteString("if (c21-nth " + id + " " + strconv.Itoa(c21Iter(s)) + ") " + c21Block(s.Body, ind))
		case "call":
			sb.WriteString(c21Block(s.Body, ind))
		case "fncall":
			sb.WriteString("fn f" + id + " " + c21Block(s.Body, ind) + "\n" + ind + "f" + id)
		case "try":
			sb.WriteString("try " + c21Block(s.Body, ind))
			if s.HasCatch {
				sb.WriteString(" catch e {\n" + ind + "  c21-exc " + id + " $e\n" + c21Src(s.Catch, ind+"  ") + ind + "}")
				if s.HasElse {
					sb.WriteString(" else " + c21Block(s.Else, ind))
				}
			}
			if s.HasFinally {
				sb.WriteString(" finally " + c21Block(s.Finally, ind))
			}
		case "lock":
			sb.WriteString("c21-lock g" + strconv.Itoa(((s.N%2)+2)%2))
		case "unlock":
			sb.WriteString("c21-unlock g" + strconv.Itoa(((s.N%2)+2)%2))
		}
		sb.WriteString("\n")
	}
	return sb.String()
}

func c21Program(c c21Case) string {
	if c.Fn {
		return "fn c21main {\n" + c21Src(c.Body, "  ") + "}\nc21main\n"
	}
	return "{\n" + c21Src(c.Body, "  ") + "}\n"
}

// ---- running in the real evaluator ------------------------------------------------------

type c21Harness struct {
	events []c21Event
	locked map[string]bool
	gval   map[string]any
	nth    map[int]int
}

func c21Label(err error) string {
	if err == nil {
		return "ok"
	}
	exc, ok := err.(eval.Exception)
	if !ok {
		return "not-an-exception: " + err.Error()
	}
	switch r := exc.Reason().(type) {
	case nil:
		return "ok-exception(reason=nil)"
	case eval.FailError:
		return vals.ToString(r.Content)
	case eval.Flow:
		return r.Error()
	default:
		msg := r.Error()
		if rest, ok := strings.CutPrefix(msg, "restore variable: c21-locked "); ok {
			return "restore:" + rest
		}
		if rest, ok := strings.CutPrefix(msg, "c21-locked "); ok {
			return "locked:" + rest
		}
		return "other"
	}
}

func c21Eval(ev *eval.Evaler, code string) error {
	return ev.Eval(parse.Source{Name: "[verif]", Code: code}, eval.EvalCfg{})
}

func c21RunReal(c c21Case) ([]c21Event, string, error) {
	ev := elv.New()
	h := &c21Harness{locked: map[string]bool{}, gval: map[string]any{"g0": "gi0", "g1": "gi1"}, nth: map[int]int{}}
	elv.AddGoFns(ev, map[string]any{
		"c21-log": func(id int, args ...any) {
			parts := make([]string, len(args))
			for i, a := range args {
				parts[i] = c21VarNames[i%len(c21VarNames)] + "=" + c21RenderReal(a)
			}
			h.events = append(h.events, c21Event{Kind: "L", ID: id, Text: strings.Join(parts, " ")})
		},
		"c21-exc": func(id int, e any) {
			label := "not-an-exception-value"
			if exc, ok := e.(eval.Exception); ok {
				label = c21Label(exc)
			}
			h.events = append(h.events, c21Event{Kind: "C", ID: id, Alts: []string{label}})
		},
		"c21-lock":   func(name string) { h.locked[name] = true },
		"c21-unlock": func(name string) { h.locked[name] = false },
		"c21-nth": func(id, n int) bool {
			h.nth[id]++
			return h.nth[id] == n
		},
	})
	nb := eval.BuildNs()
	for _, name := range []string{"g0", "g1"} {
		name := name
		nb.AddVar(name, vars.FromSetGet(
			func(v any) error {
				if h.locked[name] {
					h.events = append(h.events, c21Event{Kind: "X", Text: name + "=" + c21RenderReal(v)})
					return errors.New("c21-locked " + name)
				}
				h.events = append(h.events, c21Event{Kind: "S", Text: name + "=" + c21RenderReal(v)})
				h.gval[name] = v
				return nil
			},
			func() any { return h.gval[name] }))
	}
	ev.ExtendGlobal(nb.Ns())
	if err := c21Eval(ev, "var s0 s1 s2 = i0 i1 i2; var l0 = [a0 a1 a2]; var m0 = [&k0=b0 &k1=b1]"); err != nil {
		return nil, "", fmt.Errorf("prelude failed: %v", err)
	}
	err := c21Eval(ev, c21Program(c))
	if err != nil && !elv.IsException(err) {
		return nil, "", fmt.Errorf("generated program does not compile: %v", err)
	}
	if err2 := c21Eval(ev, "c21-log -1"+c21LogArgs); err2 != nil {
		return nil, "", fmt.Errorf("final log failed: %v", err2)
	}
	return h.events, c21Label(err), nil
}

func c21In(label string, alts []string) bool {
	for _, a := range alts {
		if a == label {
			return true
		}
	}
	return false
}

func c21Compare(m *c21Model, exc *c21Exc, events []c21Event, label string) error {
	n := len(events)
	if len(m.events) < n {
		n = len(m.events)
	}
	for i := 0; i < n; i++ {
		w, g := m.events[i], events[i]
		same := w.Kind == g.Kind && w.ID == g.ID
		if same {
			switch w.Kind {
			case "C":
				same = len(g.Alts) == 1 && c21In(g.Alts[0], w.Alts)
			default:
				same = w.Text == g.Text
			}
		}
		if !same {
			return fmt.Errorf("event %d differs: specified %q, observed %q", i, w.String(), g.String())
		}
	}
	if len(m.events) != len(events) {
		if len(events) > n {
			return fmt.Errorf("%d events specified, %d observed; first extra observed event: %q", len(m.events), len(events), events[n].String())
		}
		return fmt.Errorf("%d events specified, %d observed; first missing event: %q", len(m.events), len(events), m.events[n].String())
	}
	switch {
	case exc == nil:
		if label != "ok" {
			return fmt.Errorf("the function must finish without exception, observed exception %q", label)
		}
	case exc.flow != "":
		if label != exc.flow {
			return fmt.Errorf("the function must finish with the flow exception %q, observed %q", exc.flow, label)
		}
	default:
		if !c21In(label, exc.alts) {
			return fmt.Errorf("the function must finish with one of the exceptions %v, observed %q", exc.alts, label)
		}
	}
	return nil
}

func c21Check(c c21Case) error {
	events, label, err := c21RunReal(c)
	if err != nil {
		return err
	}
	m := c21NewModel(false)
	exc := m.run(c)
	err1 := c21Compare(m, exc, events, label)
	if err1 == nil {
		return nil
	}
	if m.ambiguous {
		m2 := c21NewModel(true)
		exc2 := m2.run(c)
		if c21Compare(m2, exc2, events, label) == nil {
			return nil
		}
	}
	return fmt.Errorf("%v\nprogram:\n%s\nspecified events:\n    %s\nobserved events:\n    %s\nobserved outcome: %s",
		err1, c21Program(c), c21Events(m.events), c21Events(events), label)
}

// ---- generator ---------------------------------------------------------------------------

type c21GenCtx struct {
	depth   int
	brk     bool // break/continue would be consumed by a loop inside the current defer callback (or we are not in a callback)
	ret     bool
	inDefer bool
	nextID  *int
	budget  *int
}

func (g c21GenCtx) id() int {
	*g.nextID++
	return *g.nextID
}

func c21GenGroup(t *rapid.T) c21Group {
	n := rapid.SampledFrom([]int{1, 1, 1, 2, 2, 3}).Draw(t, "ntargets")
	var g c21Group
	for i := 0; i < n; i++ {
		tg := c21Target{Var: rapid.SampledFrom([]int{0, 0, 1, 2, 3, 3, 4, 4, 5, 5, 5, 6}).Draw(t, "var")}
		if tg.Var == 3 || tg.Var == 4 {
			// mostly elements; index 4 of the list (out of range) is rare
			tg.Elem = rapid.SampledFrom([]int{0, 1, 1, 2, 2, 3, 3, 4, 1, 2, 3, 5}).Draw(t, "elem")
		}
		g.Targets = append(g.Targets, tg)
	}
	g.Short = rapid.IntRange(0, 29).Draw(t, "short") == 0
	if rapid.IntRange(0, 5).Draw(t, "rest?") == 0 {
		// a rest lvalue, mostly not in last position
		g.Rest = rapid.IntRange(1, n).Draw(t, "rest")
		if g.Rest == n && n > 1 && rapid.Bool().Draw(t, "restearly") {
			g.Rest = 1
		}
		g.RestN = rapid.IntRange(0, 2).Draw(t, "restn")
	}
	return g
}

func c21GenBody(t *rapid.T, g c21GenCtx, min, max int) []c21Stmt {
	n := rapid.IntRange(min, max).Draw(t, "nstmts")
	var out []c21Stmt
	for i := 0; i < n && *g.budget > 0; i++ {
		out = append(out, c21GenStmt(t, g))
	}
	// an explicit exit at the end of the body
	if *g.budget > 0 && rapid.IntRange(0, 9).Draw(t, "exit") < 3 {
		kinds := []string{"fail", "fail"}
		if g.brk {
			kinds = append(kinds, "break", "continue", "break", "continue")
		}
		if g.ret {
			kinds = append(kinds, "return", "return")
		}
		if !g.inDefer {
			kinds = append(kinds, "break", "continue", "return")
		}
		out = append(out, c21Stmt{K: rapid.SampledFrom(kinds).Draw(t, "exitkind"), ID: g.id()})
	}
	return out
}

func c21GenStmt(t *rapid.T, g c21GenCtx) c21Stmt { return c21GenStmtOf(t, g, nil) }

func c21GenStmtOf(t *rapid.T, g c21GenCtx, kinds []string) c21Stmt {
	*g.budget--
	if kinds == nil {
		kinds = []string{"log", "log", "log", "log", "set", "set", "tmp", "tmp", "tmp", "tmp", "lock", "unlock", "unlock"}
		if g.depth > 0 {
			kinds = append(kinds, "with", "with", "with", "with", "defer", "defer", "defer", "defer",
				"for", "for", "while", "each", "if", "nth", "nth", "try", "try", "call", "fncall")
		}
	}
	s := c21Stmt{K: rapid.SampledFrom(kinds).Draw(t, "kind"), ID: g.id()}
	sub := g
	sub.depth--
	switch s.K {
	case "set", "tmp":
		s.Groups = []c21Group{c21GenGroup(t)}
	case "with":
		ng := rapid.SampledFrom([]int{1, 1, 2, 3}).Draw(t, "ngroups")
		for i := 0; i < ng; i++ {
			s.Groups = append(s.Groups, c21GenGroup(t))
		}
		s.Bracket = rapid.Bool().Draw(t, "bracket")
		s.Body = c21GenBody(t, sub, 1, 4)
	case "defer":
		sub.inDefer, sub.brk, sub.ret = true, false, false
		s.Body = c21GenBody(t, sub, 1, 3)
		s.FailEnd = rapid.IntRange(0, 3).Draw(t, "failend") == 0
	case "for", "while", "each":
		s.N = rapid.IntRange(0, 2).Draw(t, "iters")
		sub.brk = true
		s.Body = c21GenBody(t, sub, 1, 4)
	case "if", "call":
		s.Body = c21GenBody(t, sub, 1, 4)
	case "nth":
		s.N = rapid.IntRange(0, 2).Draw(t, "nth")
		s.Body = c21GenBody(t, sub, 1, 2)
	case "fncall":
		sub.ret = true
		s.Body = c21GenBody(t, sub, 1, 4)
	case "try":
		s.Body = c21GenBody(t, sub, 1, 4)
		switch rapid.IntRange(0, 3).Draw(t, "tryform") {
		case 0:
			s.HasCatch = true
		case 1:
			s.HasFinally = true
		case 2:
			s.HasCatch, s.HasFinally = true, true
		default:
			s.HasCatch, s.HasElse = true, true
			s.HasFinally = rapid.Bool().Draw(t, "elsefinally")
		}
		if s.HasCatch {
			s.Catch = c21GenBody(t, sub, 0, 2)
		}
		if s.HasElse {
			s.Else = c21GenBody(t, sub, 0, 2)
		}
		if s.HasFinally {
			s.Finally = c21GenBody(t, sub, 0, 2)
		}
	case "lock", "unlock":
		s.N = rapid.IntRange(0, 1).Draw(t, "which")
	}
	return s
}

// c21Flip marks the deferred callbacks with the given ids as failing.
func c21Flip(stmts []c21Stmt, ids map[int]bool) {
	for i := range stmts {
		s := &stmts[i]
		if s.K == "defer" && ids[s.ID] {
			s.FailEnd = true
		}
		c21Flip(s.Body, ids)
		c21Flip(s.Catch, ids)
		c21Flip(s.Else, ids)
		c21Flip(s.Finally, ids)
	}
}

func c21StripDefers(stmts []c21Stmt) []c21Stmt {
	var out []c21Stmt
	for _, s := range stmts {
		if s.K == "defer" {
			s = c21Stmt{K: "log", ID: s.ID}
		}
		s.Body, s.Catch, s.Else, s.Finally = c21StripDefers(s.Body), c21StripDefers(s.Catch), c21StripDefers(s.Else), c21StripDefers(s.Finally)
		out = append(out, s)
	}
	return out
}

func c21Gen(t *rapid.T) c21Case {
	id, budget := 0, rapid.IntRange(6, 40).Draw(t, "budget")
	g := c21GenCtx{depth: rapid.IntRange(1, 4).Draw(t, "depth"), nextID: &id, budget: &budget}
	c := c21Case{Fn: rapid.Bool().Draw(t, "fn")}
	g.ret = c.Fn
	// the function starts with a piece of deferred work, so that every exit
	// path of the rest of the body has something to restore / clean up
	first := c21GenStmtOf(t, g, []string{"tmp", "tmp", "with", "defer", "defer"})
	if first.K == "with" {
		c.Body = append([]c21Stmt{first}, c21GenBody(t, g, 0, 3)...)
	} else {
		c.Body = append([]c21Stmt{first}, c21GenBody(t, g, 1, 7)...)
	}
	if vs.KnownOpen(c21KnownKey) {
		// Leave out exactly the shape of the open finding: a deferred callback
		// that succeeds, is the first deferred piece of work to produce a
		// non-nil result after a successful body, and whose closure is a for /
		// while / try / with body or has another failing callback / restore.
		// Such callbacks are made to fail instead (which is an ordinary case).
		changed := false
		for round := 0; ; round++ {
			m := c21NewModel(false)
			m.run(c)
			if len(m.culprits) == 0 {
				break
			}
			changed = true
			if round > 20 {
				c.Body = c21StripDefers(c.Body)
				break
			}
			ids := map[int]bool{}
			for _, k := range m.culprits {
				ids[k] = true
			}
			c21Flip(c.Body, ids)
		}
		if changed {
			vs.Excluded("open finding " + c21KnownKey + ": successful deferred callback in a for/while/try/with body or before another failing callback/restore; the callback was made to fail")
		}
	}
	return c
}

func c21Class(c c21Case) (string, bool) {
	m := c21NewModel(false)
	m.run(c)
	var exits []string
	for _, k := range []string{"normal", "exception", "break", "continue", "return"} {
		if m.exits[k] {
			exits = append(exits, k)
		}
	}
	work := m.restores + m.callbacks
	switch {
	case work == 0:
		return "no-restore-or-callback-ran", false
	case m.masked > 0:
		return "secondary-exception-after-failed-body", true
	case m.secondary > 0:
		return "secondary-exception-after-successful-body", true
	case len(exits) >= 3:
		return "three-or-more-exit-kinds", true
	case len(exits) == 2:
		return "two-exit-kinds:" + strings.Join(exits, "+"), true
	case len(exits) == 1 && exits[0] != "normal":
		return "one-exit-kind:" + exits[0], true
	}
	return "normal-exit-only", work >= 2
}

func init() {
	vs.Register(vs.Prop[c21Case]{
		Name:  "C21/paths",
		Rule:  "a generated function (fn or lambda) whose body nests tmp / with (both syntaxes, up to 3 groups and 3 lvalues each, variables, list and map elements, harness variables that log every Set and can be locked so that a restore fails) / defer (callbacks with their own bodies, 1 in 4 ends with fail) inside lambdas, fn functions, if, for, while, each and try/catch/else/finally, with exits by normal completion, fail, break, continue, return at the end of any body or only on the n-th pass; the event log (each log event holds all 7 variable values), the final values and the exception leaving the function are compared with a Go model of the documented semantics; non-trivial = at least one restore or deferred callback ran and (some closure holding such work was left by a non-normal exit, or >= 2 pieces of work ran)",
		Gen:   c21Gen,
		Check: c21Check,
		Class: c21Class,
		Quick: 2500, Thorough: 40000,
		Timeout: 30 * time.Second,
		Known: []vs.Known[c21Case]{
			{Key: c21KnownKey, Case: c21Case{Body: []c21Stmt{
				{K: "for", ID: 1, N: 1, Body: []c21Stmt{
					{K: "defer", ID: 2, Body: []c21Stmt{{K: "log", ID: 3}}},
					{K: "log", ID: 4},
				}},
				{K: "log", ID: 5},
			}}},
		},
	})
}
