package props

// C22 A module is evaluated at most once per interpreter and shared.
//
// A case is a module graph (1..6 files in a fixed temp tree with two library
// directories and a working tree) plus a list of top-level steps (import from
// non-file code with some working directory, import from a script file, call
// a module function that imports lazily). Every module body announces its
// evaluation to a harness Go command, imports its dependencies (optionally
// inside try), may fail on its first n evaluations, and every import site
// reports the namespace it got (identity, evaluation number, a mutable cell
// that every importer increments).
//
// Oracle: an independent model written from website/ref/language.md
// ("Modules": Re-importing, Relative imports, Circular dependencies): a cache
// keyed by the cleaned path of the module file, relative specs resolved
// against the directory of the importing file (working directory for non-file
// code), library specs against Evaler.LibDirs in order, a module in the cache
// (also one still being evaluated: cycles) is never evaluated again, a module
// whose evaluation fails is dropped from the cache. The model predicts the
// complete event log; the logs are compared line by line, and every namespace
// pointer must be the same for the same evaluation and differ between
// evaluations.

import (
	"errors"
	"fmt"
	"os"
	"path"
	"path/filepath"
	"strings"
	"time"

	"pgregory.net/rapid"
	"src.elv.sh/pkg/eval"
	"src.elv.sh/pkg/parse"
	"verif/elv"
	"verif/vs"
)

var c22Dirs = []string{"lib1", "lib1/sub", "lib2", "lib2/sub", "w", "w/d", "w/d/e"}
var c22LibDirs = []string{"lib1", "lib2"}
var c22Names = []string{"m0", "m1", "m2"}

// c22Use is one import site.
type c22Use struct {
	Spec string `json:"spec"`
	Try  bool   `json:"try,omitempty"` // wrapped in try {...} catch (module level and lazy bodies only)
}

type c22Mod struct {
	Dir       int      `json:"dir"`  // index into c22Dirs
	Name      string   `json:"name"` // file name without .elv
	Uses      []c22Use `json:"uses,omitempty"`
	FailFirst int      `json:"fail_first,omitempty"` // evaluation fails on its first n evaluations
	FailAt    int      `json:"fail_at,omitempty"`    // ... just before use number FailAt (>= len(Uses): at the end)
	Lazy      []c22Use `json:"lazy,omitempty"`       // body of fn lazy
}

type c22Step struct {
	Kind string `json:"kind"`           // "use" | "lazy"
	File bool   `json:"file,omitempty"` // code comes from a script file in Dir (otherwise non-file code)
	Dir  int    `json:"dir"`            // directory of the script file
	Cwd  int    `json:"cwd"`            // working directory during the step
	Spec string `json:"spec,omitempty"`
	Ref  int    `json:"ref,omitempty"` // lazy: selects an earlier successful alias
	CdIn bool   `json:"cd_in,omitempty"` // non-file use: the code itself changes to Cwd (cd ...; use ...), the step starts in another directory
}

type c22Case struct {
	Mods  []c22Mod  `json:"mods"`
	Steps []c22Step `json:"steps"`
}

// ---- normalisation (shrunk or hand-written cases stay inside the domain) -------

func c22Norm(c c22Case) c22Case {
	var out c22Case
	seen := map[string]bool{}
	for _, m := range c.Mods {
		if m.Dir < 0 || m.Dir >= len(c22Dirs) || !c22SafeName(m.Name) {
			continue
		}
		key := c22Dirs[m.Dir] + "/" + m.Name
		if seen[key] || len(out.Mods) >= 6 {
			continue
		}
		seen[key] = true
		if m.FailFirst < 0 {
			m.FailFirst = 0
		}
		if m.FailAt < 0 {
			m.FailAt = 0
		}
		m.Uses = c22NormUses(m.Uses)
		m.Lazy = c22NormUses(m.Lazy)
		out.Mods = append(out.Mods, m)
	}
	for _, s := range c.Steps {
		if s.Dir < 0 || s.Dir >= len(c22Dirs) || s.Cwd < 0 || s.Cwd >= len(c22Dirs) || s.Ref < 0 {
			continue
		}
		if s.Kind == "use" && !c22SafeSpec(s.Spec) {
			continue
		}
		if s.Kind != "use" && s.Kind != "lazy" {
			continue
		}
		out.Steps = append(out.Steps, s)
	}
	return out
}

func c22NormUses(us []c22Use) []c22Use {
	var out []c22Use
	for _, u := range us {
		if c22SafeSpec(u.Spec) && len(out) < 4 {
			out = append(out, u)
		}
	}
	return out
}

func c22SafeName(s string) bool {
	if s == "" || len(s) > 8 {
		return false
	}
	for _, r := range s {
		if !(r >= 'a' && r <= 'z' || r >= '0' && r <= '9') {
			return false
		}
	}
	return true
}

// Specs are barewords built from name characters, '.', and '/'. A relative
// spec starts with ./ or ../; a library spec is name or sub/name (no dots, so
// it can never name a pre-defined module or contain "..").
func c22SafeSpec(s string) bool {
	if s == "" || len(s) > 60 || strings.Contains(s, "//") || strings.HasSuffix(s, "/") {
		return false
	}
	rel := strings.HasPrefix(s, "./") || strings.HasPrefix(s, "../")
	for _, part := range strings.Split(s, "/") {
		if part == "." || part == ".." {
			if !rel {
				return false
			}
			continue
		}
		if !c22SafeName(part) {
			return false
		}
	}
	if !rel {
		switch s {
		case "builtin", "edit", "epm", "math", "path", "platform", "re", "store", "str", "unix", "file", "flag", "os", "doc", "runtime", "md", "daemon":
			return false
		}
	}
	last := s[strings.LastIndexByte(s, '/')+1:]
	return last != "." && last != ".."
}

// ---- the model -----------------------------------------------------------------

type c22Inst struct {
	idx, inst, cell int
}

type c22Feat struct {
	hits, cycleHits, retries, multiSpec, fileVsCwd, libHits, nosuch, fails, lazyRuns int
}

type c22Model struct {
	mods  []c22Mod
	byKey map[string]int // "w/d/m0" -> module index
	cache map[string]*c22Inst
	state map[string]bool // key -> evaluation in progress
	loads []int
	seq   int
	log   []string
	feat  c22Feat
	specs map[string]map[string]bool // key -> set of spec texts that reached it
}

func c22NewModel(c c22Case) *c22Model {
	m := &c22Model{mods: c.Mods, byKey: map[string]int{}, cache: map[string]*c22Inst{}, state: map[string]bool{},
		loads: make([]int, len(c.Mods)), specs: map[string]map[string]bool{}}
	for i, mod := range c.Mods {
		m.byKey[c22Dirs[mod.Dir]+"/"+mod.Name] = i
	}
	return m
}

func (m *c22Model) logf(format string, a ...any) { m.log = append(m.log, fmt.Sprintf(format, a...)) }

type c22Err struct{ kind string } // "nosuch" or "fail m<idx>"

// resolve maps a spec used from directory dir (tree-relative) to a module key.
func (m *c22Model) resolve(dir, spec string) (string, bool) {
	if strings.HasPrefix(spec, "./") || strings.HasPrefix(spec, "../") {
		key := path.Clean(dir + "/" + spec)
		_, ok := m.byKey[key]
		return key, ok
	}
	for _, lib := range c22LibDirs {
		key := path.Clean(lib + "/" + spec)
		if _, ok := m.byKey[key]; ok {
			m.feat.libHits++
			return key, true
		}
	}
	return "", false
}

// use models one `use spec` executed by code whose relative imports resolve
// against dir.
func (m *c22Model) use(dir, spec string) (*c22Inst, *c22Err) {
	key, ok := m.resolve(dir, spec)
	if !ok {
		m.feat.nosuch++
		return nil, &c22Err{"nosuch"}
	}
	if m.specs[key] == nil {
		m.specs[key] = map[string]bool{}
	}
	if !m.specs[key][spec] {
		m.specs[key][spec] = true
		if len(m.specs[key]) == 2 {
			m.feat.multiSpec++
		}
	}
	if in, ok := m.cache[key]; ok {
		m.feat.hits++
		if m.state[key] {
			m.feat.cycleHits++
		}
		return in, nil
	}
	idx := m.byKey[key]
	mod := m.mods[idx]
	m.loads[idx]++
	if m.loads[idx] > 1 {
		m.feat.retries++
	}
	m.seq++
	in := &c22Inst{idx: idx, inst: m.seq, cell: idx * 1000}
	m.cache[key] = in
	m.state[key] = true
	m.logf("begin m%d inst=%d", idx, in.inst)
	err := m.body(in, mod.Uses, "u", c22Dirs[mod.Dir], mod.FailAt, mod.FailFirst)
	delete(m.state, key)
	if err != nil {
		delete(m.cache, key)
		return nil, err
	}
	m.logf("end m%d inst=%d", idx, in.inst)
	return in, nil
}

// body models a sequence of import sites (a module body or a lazy function).
// failAt < 0: no failure point.
func (m *c22Model) body(self *c22Inst, uses []c22Use, tagKind, dir string, failAt, failFirst int) *c22Err {
	maybeFail := func() *c22Err {
		if m.loads[self.idx] <= failFirst {
			m.feat.fails++
			m.logf("fail m%d", self.idx)
			return &c22Err{fmt.Sprintf("fail m%d", self.idx)}
		}
		return nil
	}
	for k, u := range uses {
		if failAt == k {
			if err := maybeFail(); err != nil {
				return err
			}
		}
		tag := fmt.Sprintf("m%d#%d.%s%d", self.idx, self.inst, tagKind, k)
		got, err := m.use(dir, u.Spec)
		if err != nil {
			if u.Try {
				m.logf("caught %s", tag)
				continue
			}
			return err
		}
		m.logf("see %s -> inst=%d cell=%d", tag, got.inst, got.cell)
		got.cell++
	}
	if failAt >= len(uses) {
		if err := maybeFail(); err != nil {
			return err
		}
	}
	return nil
}

// run models all steps; aliases[i] is the instance step i's alias is bound to.
func (m *c22Model) run(steps []c22Step) {
	var okAliases []*c22Inst
	for i, st := range steps {
		switch st.Kind {
		case "use":
			dir := c22Dirs[st.Cwd]
			if st.File {
				dir = c22Dirs[st.Dir]
				other, _ := m.peek(c22Dirs[st.Cwd], st.Spec)
				if mine, _ := m.peek(dir, st.Spec); mine != other {
					m.feat.fileVsCwd++
				}
			}
			got, err := m.use(dir, st.Spec)
			if err != nil {
				m.logf("step %d exc %s", i, err.kind)
				okAliases = append(okAliases, nil)
				continue
			}
			m.logf("see s%d#0.top -> inst=%d cell=%d", i, got.inst, got.cell)
			got.cell++
			m.logf("step %d ok", i)
			okAliases = append(okAliases, got)
		case "lazy":
			okAliases = append(okAliases, nil)
			in := c22Pick(okAliases, st.Ref)
			if in == nil {
				m.logf("step %d skipped", i)
				continue
			}
			m.feat.lazyRuns++
			mod := m.mods[in.idx]
			if err := m.body(in, mod.Lazy, "L", c22Dirs[mod.Dir], -1, 0); err != nil {
				m.logf("step %d exc %s", i, err.kind)
				continue
			}
			m.logf("step %d ok", i)
		}
	}
}

// peek resolves without side effects on the features (for classification only).
func (m *c22Model) peek(dir, spec string) (string, bool) {
	save := m.feat
	k, ok := m.resolve(dir, spec)
	m.feat = save
	if !ok {
		return "", false
	}
	return k, true
}

// c22Pick selects the ref-th (mod count) successful alias, returning nil if none.
func c22Pick(aliases []*c22Inst, ref int) *c22Inst {
	var ok []*c22Inst
	for _, a := range aliases {
		if a != nil {
			ok = append(ok, a)
		}
	}
	if len(ok) == 0 {
		return nil
	}
	return ok[ref%len(ok)]
}

func c22PickIndex(aliases []*c22Inst, ref int) int {
	var ok []int
	for i, a := range aliases {
		if a != nil {
			ok = append(ok, i)
		}
	}
	if len(ok) == 0 {
		return -1
	}
	return ok[ref%len(ok)]
}

// ---- the implementation side ---------------------------------------------------

func c22UseCode(sb *strings.Builder, u c22Use, alias, seeArgs, indent string) {
	lines := []string{
		fmt.Sprintf("use %s %s", u.Spec, alias),
		fmt.Sprintf("c22-see %s $%s: $%s:inst $%s:cell", seeArgs, alias, alias, alias),
		fmt.Sprintf("set %s:cell = (+ $%s:cell 1)", alias, alias),
	}
	if u.Try {
		sb.WriteString(indent + "try {\n")
		for _, l := range lines {
			sb.WriteString(indent + "  " + l + "\n")
		}
		sb.WriteString(indent + "} catch e {\n" + indent + "  c22-caught " + seeArgs + "\n" + indent + "}\n")
		return
	}
	for _, l := range lines {
		sb.WriteString(indent + l + "\n")
	}
}

func c22ModuleCode(idx int, mod c22Mod) string {
	var sb strings.Builder
	fmt.Fprintf(&sb, "var inst = (c22-begin %d)\nvar cell = %d\n", idx, idx*1000)
	for k, u := range mod.Uses {
		if mod.FailAt == k {
			fmt.Fprintf(&sb, "c22-fail %d\n", idx)
		}
		c22UseCode(&sb, u, fmt.Sprintf("u%d", k), fmt.Sprintf("m%d $inst u%d", idx, k), "")
	}
	if mod.FailAt >= len(mod.Uses) {
		fmt.Fprintf(&sb, "c22-fail %d\n", idx)
	}
	sb.WriteString("fn lazy {\n")
	for k, u := range mod.Lazy {
		c22UseCode(&sb, u, fmt.Sprintf("z%d", k), fmt.Sprintf("m%d $inst L%d", idx, k), "  ")
	}
	sb.WriteString("}\n")
	fmt.Fprintf(&sb, "c22-end %d $inst\n", idx)
	return sb.String()
}

type c22Impl struct {
	c     c22Case
	loads []int
	seq   int
	log   []string
	ptrs  map[int]*eval.Ns // evaluation number -> namespace
	bad   []string
}

func (im *c22Impl) logf(format string, a ...any) { im.log = append(im.log, fmt.Sprintf(format, a...)) }

func (im *c22Impl) fns() map[string]any {
	return map[string]any{
		"c22-begin": func(idx int) int {
			im.loads[idx]++
			im.seq++
			im.logf("begin m%d inst=%d", idx, im.seq)
			return im.seq
		},
		"c22-end": func(idx, inst int) { im.logf("end m%d inst=%d", idx, inst) },
		"c22-fail": func(idx int) error {
			if im.loads[idx] <= im.c.Mods[idx].FailFirst {
				im.logf("fail m%d", idx)
				return fmt.Errorf("c22-fail m%d", idx)
			}
			return nil
		},
		"c22-caught": func(prefix string, self int, site string) { im.logf("caught %s#%d.%s", prefix, self, site) },
		"c22-see": func(prefix string, self int, site string, ns *eval.Ns, inst, cell int) {
			tag := fmt.Sprintf("%s#%d.%s", prefix, self, site)
			im.logf("see %s -> inst=%d cell=%d", tag, inst, cell)
			if old, ok := im.ptrs[inst]; ok {
				if old != ns {
					im.bad = append(im.bad, fmt.Sprintf("%s: evaluation %d is seen as a different namespace object than by an earlier importer", tag, inst))
				}
			} else {
				for other, p := range im.ptrs {
					if p == ns {
						im.bad = append(im.bad, fmt.Sprintf("%s: evaluations %d and %d share one namespace object", tag, other, inst))
					}
				}
				im.ptrs[inst] = ns
			}
		},
	}
}

func c22ExcKind(err error) string {
	if err == nil {
		return "ok"
	}
	if !elv.IsException(err) {
		return "non-exception error: " + err.Error()
	}
	r := elv.Reason(err)
	for i := 0; i < 10 && r != nil; i++ {
		if strings.HasPrefix(r.Error(), "c22-fail ") {
			return "exc " + strings.TrimPrefix(r.Error(), "c22-")
		}
		var nsm eval.NoSuchModule
		if errors.As(r, &nsm) {
			return "exc nosuch"
		}
		r = errors.Unwrap(r)
	}
	return "exc other: " + elv.Reason(err).Error()
}

func c22Check(c c22Case) error {
	c = c22Norm(c)
	model := c22NewModel(c)
	model.run(c.Steps)

	tmp, err := os.MkdirTemp(os.Getenv("VERIF_WORK"), "verif-c22-") // the driver removes $VERIF_WORK even if the process is killed
	if err != nil {
		return nil // environment problem, not a property violation
	}
	defer os.RemoveAll(tmp)
	if real, err := filepath.EvalSymlinks(tmp); err == nil {
		tmp = real
	}
	root := filepath.Join(tmp, "r")
	for _, d := range c22Dirs {
		if err := os.MkdirAll(filepath.Join(root, d), 0o755); err != nil {
			return nil
		}
	}
	for i, mod := range c.Mods {
		p := filepath.Join(root, c22Dirs[mod.Dir], mod.Name+".elv")
		if err := os.WriteFile(p, []byte(c22ModuleCode(i, mod)), 0o644); err != nil {
			return nil
		}
	}
	oldwd, err := os.Getwd()
	if err != nil {
		oldwd = "/"
	}
	defer os.Chdir(oldwd)

	im := &c22Impl{c: c, loads: make([]int, len(c.Mods)), ptrs: map[int]*eval.Ns{}}
	ev := eval.NewEvaler()
	ev.LibDirs = nil
	for _, l := range c22LibDirs {
		ev.LibDirs = append(ev.LibDirs, filepath.Join(root, l))
	}
	elv.AddGoFns(ev, im.fns())

	run := func(src parse.Source) error {
		out, collect, err := eval.CapturePort()
		if err != nil {
			return fmt.Errorf("harness: %w", err)
		}
		defer collect()
		return ev.Eval(src, eval.EvalCfg{Ports: []*eval.Port{nil, out, out}})
	}

	// okAlias mirrors the model's alias table but is derived from what the
	// implementation did, so a divergence shows up in the log first.
	var okAliases []*c22Inst
	for i, st := range c.Steps {
		if err := os.Chdir(filepath.Join(root, c22Dirs[st.Cwd])); err != nil {
			return nil
		}
		var code string
		switch st.Kind {
		case "use":
			alias := fmt.Sprintf("a%d", i)
			var sb strings.Builder
			if st.CdIn && !st.File {
				// the working directory that counts is the one at the time of the
				// import, not the one the chunk was compiled in
				if err := os.Chdir(filepath.Join(root, c22Dirs[(st.Cwd+3)%len(c22Dirs)])); err != nil {
					return nil
				}
				sb.WriteString("cd '" + filepath.Join(root, c22Dirs[st.Cwd]) + "'\n")
			}
			c22UseCode(&sb, c22Use{Spec: st.Spec}, alias, fmt.Sprintf("s%d 0 top", i), "")
			code = sb.String()
		case "lazy":
			okAliases = append(okAliases, nil)
			j := c22PickIndex(okAliases, st.Ref)
			if j < 0 {
				im.logf("step %d skipped", i)
				continue
			}
			code = fmt.Sprintf("a%d:lazy\n", j)
		}
		src := parse.Source{Name: fmt.Sprintf("[c22 step %d]", i), Code: code}
		if st.File && st.Kind == "use" {
			p := filepath.Join(root, c22Dirs[st.Dir], fmt.Sprintf("script%d.elv", i))
			os.WriteFile(p, []byte(code), 0o644)
			src = parse.Source{Name: p, Code: code, IsFile: true}
		}
		kind := c22ExcKind(run(src))
		im.logf("step %d %s", i, kind)
		if st.Kind == "use" {
			if kind == "ok" {
				okAliases = append(okAliases, &c22Inst{})
			} else {
				okAliases = append(okAliases, nil)
			}
		}
	}

	// Compare the logs.
	for i := 0; i < len(model.log) || i < len(im.log); i++ {
		var want, got string
		if i < len(model.log) {
			want = model.log[i]
		}
		if i < len(im.log) {
			got = im.log[i]
		}
		if want != got {
			return fmt.Errorf("event %d: model expects %q, interpreter did %q (begin = a module body is evaluated; see = an import site got that evaluation's namespace and its shared cell)\nmodel log:  %s\nactual log: %s\ncase: %s",
				i, want, got, strings.Join(model.log, " | "), strings.Join(im.log, " | "), c22Describe(c))
		}
	}
	if len(im.bad) > 0 {
		return fmt.Errorf("importers do not share one namespace: %s\nlog: %s\ncase: %s", strings.Join(im.bad, "; "), strings.Join(im.log, " | "), c22Describe(c))
	}
	return nil
}

func c22Describe(c c22Case) string {
	var sb strings.Builder
	for i, m := range c.Mods {
		fmt.Fprintf(&sb, "m%d=%s/%s.elv uses=%v lazy=%v failFirst=%d failAt=%d; ", i, c22Dirs[m.Dir], m.Name, m.Uses, m.Lazy, m.FailFirst, m.FailAt)
	}
	for i, s := range c.Steps {
		if s.Kind == "use" {
			where := "code with cwd " + c22Dirs[s.Cwd]
			if s.File {
				where = "script file in " + c22Dirs[s.Dir] + " (cwd " + c22Dirs[s.Cwd] + ")"
			}
			fmt.Fprintf(&sb, "step%d: use %s from %s; ", i, s.Spec, where)
		} else {
			fmt.Fprintf(&sb, "step%d: call lazy of alias #%d (cwd %s); ", i, s.Ref, c22Dirs[s.Cwd])
		}
	}
	return sb.String()
}

// ---- generator -----------------------------------------------------------------

// c22RelSpec builds a relative spec from directory from to the module name in directory to.
func c22RelSpec(from, to, name string, detour bool) string {
	rel, err := filepath.Rel("/"+from, "/"+to)
	if err != nil {
		rel = "."
	}
	var spec string
	switch {
	case rel == ".":
		spec = "./" + name
	case strings.HasPrefix(rel, ".."):
		spec = rel + "/" + name
	default:
		spec = "./" + rel + "/" + name
	}
	if detour {
		// go through an existing child directory and back
		child := map[string]string{"lib1": "sub", "lib2": "sub", "w": "d", "w/d": "e"}[from]
		if child != "" {
			spec = "./" + child + "/../" + strings.TrimPrefix(spec, "./")
		}
	}
	return spec
}

var c22RandomSpecs = []string{"./m0", "./m1", "../m0", "../m1", "./sub/m0", "./d/m1", "./e/m2", "../../lib1/m0", "../lib2/m1",
	"m0", "m1", "m2", "sub/m0", "sub/m1", "nosuch", "./nosuch", "../d/m0", "./d/e/m0", "../../w/m0"}

func c22GenSpec(t *rapid.T, label string, fromDir int, mods []c22Mod) string {
	if len(mods) == 0 || rapid.IntRange(0, 9).Draw(t, label+"?rand") == 0 {
		return rapid.SampledFrom(c22RandomSpecs).Draw(t, label+"rand")
	}
	target := mods[rapid.IntRange(0, len(mods)-1).Draw(t, label+"target")]
	tdir := c22Dirs[target.Dir]
	if strings.HasPrefix(tdir, "lib") && rapid.IntRange(0, 2).Draw(t, label+"?lib") == 0 {
		// library spec
		if strings.HasSuffix(tdir, "/sub") {
			return "sub/" + target.Name
		}
		return target.Name
	}
	return c22RelSpec(c22Dirs[fromDir], tdir, target.Name, rapid.IntRange(0, 5).Draw(t, label+"?detour") == 0)
}

func c22Gen(t *rapid.T) c22Case {
	var c c22Case
	n := rapid.IntRange(1, 6).Draw(t, "nmods")
	// Few names over few directories: the same spec text means different
	// modules from different places.
	dirPool := rapid.SampledFrom([][]int{{4, 5, 0}, {4, 5, 6, 0, 2}, {0, 1, 2, 3, 4}, {0, 2, 4}, {0, 1, 2, 3, 4, 5, 6}}).Draw(t, "dirpool")
	seen := map[string]bool{}
	for i := 0; i < n; i++ {
		m := c22Mod{Dir: rapid.SampledFrom(dirPool).Draw(t, "dir"), Name: rapid.SampledFrom(c22Names).Draw(t, "name")}
		key := fmt.Sprintf("%d/%s", m.Dir, m.Name)
		if seen[key] {
			continue
		}
		seen[key] = true
		c.Mods = append(c.Mods, m)
	}
	for i := range c.Mods {
		m := &c.Mods[i]
		nu := rapid.SampledFrom([]int{0, 1, 1, 2, 2, 3}).Draw(t, "nuses")
		for k := 0; k < nu; k++ {
			m.Uses = append(m.Uses, c22Use{Spec: c22GenSpec(t, "use", m.Dir, c.Mods), Try: rapid.IntRange(0, 3).Draw(t, "try") == 0})
		}
		if rapid.IntRange(0, 3).Draw(t, "?fail") == 0 {
			m.FailFirst = rapid.IntRange(1, 2).Draw(t, "failfirst")
			m.FailAt = rapid.IntRange(0, len(m.Uses)).Draw(t, "failat")
		}
		if rapid.IntRange(0, 2).Draw(t, "?lazy") == 0 {
			nl := rapid.IntRange(1, 2).Draw(t, "nlazy")
			for k := 0; k < nl; k++ {
				m.Lazy = append(m.Lazy, c22Use{Spec: c22GenSpec(t, "lazyuse", m.Dir, c.Mods), Try: rapid.IntRange(0, 3).Draw(t, "lazytry") == 0})
			}
		}
	}
	ns := rapid.IntRange(2, 9).Draw(t, "nsteps")
	for i := 0; i < ns; i++ {
		st := c22Step{Kind: "use", Dir: rapid.SampledFrom(dirPool).Draw(t, "sdir"), Cwd: rapid.SampledFrom(dirPool).Draw(t, "scwd")}
		if i > 0 && rapid.IntRange(0, 5).Draw(t, "?lazystep") == 0 {
			st.Kind = "lazy"
			st.Ref = rapid.IntRange(0, 7).Draw(t, "ref")
			c.Steps = append(c.Steps, st)
			continue
		}
		st.File = rapid.Bool().Draw(t, "file")
		if !st.File {
			st.CdIn = rapid.IntRange(0, 2).Draw(t, "cdin") == 0
		}
		from := st.Cwd
		if st.File {
			from = st.Dir
		}
		st.Spec = c22GenSpec(t, "stepuse", from, c.Mods)
		c.Steps = append(c.Steps, st)
	}
	return c22Norm(c)
}

func c22Class(c c22Case) (string, bool) {
	c = c22Norm(c)
	m := c22NewModel(c)
	m.run(c.Steps)
	f := m.feat
	var parts []string
	if f.retries > 0 {
		parts = append(parts, "retry-after-failure")
	}
	if f.cycleHits > 0 {
		parts = append(parts, "cycle")
	}
	if f.multiSpec > 0 {
		parts = append(parts, "same-module-by-2-specs")
	}
	if f.fileVsCwd > 0 {
		parts = append(parts, "file-vs-cwd-differ")
	}
	if len(parts) == 0 {
		if f.hits > 0 {
			return "reimport-only", true
		}
		return "no-reimport", false
	}
	if len(parts) > 2 {
		parts = parts[:2]
	}
	return strings.Join(parts, "+"), true
}

func init() {
	vs.Register(vs.Prop[c22Case]{
		Name: "C22/graphs",
		Rule: "module graphs of 1..6 files (names m0..m2 spread over lib1, lib1/sub, lib2, lib2/sub, w, w/d, w/d/e; Evaler.LibDirs = lib1, lib2) whose bodies import 0..3 modules by ./ ../ (also through dir/../ detours) and library specs, optionally inside try, may fail on their first 1..2 evaluations at a chosen point, and may define a function that imports lazily; 2..9 steps import from non-file code (resolution against the working directory, which changes per step), from script files (resolution against the file while the working directory is elsewhere) or call a lazy function; 10% of specs are random (missing or different module). The model's full event log (evaluations, what every import site got, the shared mutable cell, caught and propagated failures) must equal the interpreter's, and namespace objects must be identical per evaluation. non-trivial = at least one import served from the cache or a retry after a failed evaluation",
		Gen:  c22Gen,
		Check: func(c c22Case) error {
			return c22Check(c)
		},
		Class:    c22Class,
		Quick:    800,
		Thorough: 8000,
		Timeout:  30 * time.Second,
		Known: []vs.Known[c22Case]{
			// the documented circular example (language.md "Circular dependencies"), both import orders
			{Key: "C22:doc-circular-example", Case: c22Case{
				Mods:  []c22Mod{{Dir: 4, Name: "m0", Uses: []c22Use{{Spec: "./m1"}}}, {Dir: 4, Name: "m1", Uses: []c22Use{{Spec: "./m0"}}}},
				Steps: []c22Step{{Kind: "use", Dir: 4, Cwd: 4, Spec: "./m0"}, {Kind: "use", Dir: 4, Cwd: 4, Spec: "./m1"}, {Kind: "use", File: true, Dir: 5, Cwd: 0, Spec: "../m1"}},
			}},
			// a module failing on its first load is evaluated again, its dependency is not
			{Key: "C22:failed-module-retried", Case: c22Case{
				Mods:  []c22Mod{{Dir: 0, Name: "m0", Uses: []c22Use{{Spec: "./sub/m1"}}, FailFirst: 1, FailAt: 1}, {Dir: 1, Name: "m1"}},
				Steps: []c22Step{{Kind: "use", Dir: 4, Cwd: 4, Spec: "m0"}, {Kind: "use", Dir: 4, Cwd: 4, Spec: "../lib1/m0"}, {Kind: "use", Dir: 4, Cwd: 4, Spec: "sub/m1"}},
			}},
		},
	})
}
