package props

// C23 reference model: an in-memory directory tree and a recursive
// backtracking wildcard matcher written from the "Wildcard expansion" part of
// website/ref/language.md. It never touches the file system.

import (
	"strings"
	"unicode"
	"unicode/utf8"

	"verif/vs"
)

// ---- case data -----------------------------------------------------------------

type c23Ent struct {
	Path   vs.B   `json:"path"` // tree-relative, '/'-separated; parents must be listed before children
	Kind   string `json:"kind"` // "f" regular file, "d" directory, "l" symbolic link
	Target vs.B   `json:"target,omitempty"`
}

// c23M is a character matcher: set:<chars>, range:<a-z | a~z>, or a class name.
type c23M struct {
	K string `json:"k"` // "set" | "range" | "class"
	A vs.B   `json:"a"`
}

type c23Seg struct {
	K      string `json:"k"`           // "lit" | "/" | "?" | "*" | "**"
	S      vs.B   `json:"s,omitempty"` // literal text
	N      int    `json:"n,omitempty"` // "/": number of additional slashes written in the pattern
	Hidden bool   `json:"hidden,omitempty"`
	M      []c23M `json:"m,omitempty"`   // OR'ed
	Ord    int    `json:"ord,omitempty"` // rotation of the order in which the modifiers are written
}

type c23Pat struct {
	Segs      []c23Seg `json:"segs"`
	Abs       bool     `json:"abs,omitempty"` // write the pattern with the absolute path of the working directory in front
	NomatchOK bool     `json:"nomatch_ok,omitempty"`
	Buts      []vs.B   `json:"buts,omitempty"` // as they appear in results of the relative pattern
	Type      string   `json:"type,omitempty"` // "" | "dir" | "regular"
	At        int      `json:"at,omitempty"`   // which wildcards carry the global modifiers
}

type c23Case struct {
	Tree   []c23Ent `json:"tree"`
	Cwd    vs.B     `json:"cwd,omitempty"` // tree-relative directory the pattern is expanded in
	Pats   []c23Pat `json:"pats"`
	Strict bool     `json:"strict,omitempty"` // regression cases: open findings are not tolerated
}

// ---- tree ----------------------------------------------------------------------

type c23Node struct {
	kind   byte // 'd', 'f', 'l'
	name   string
	parent *c23Node
	kids   map[string]*c23Node
	names  []string // insertion order
	target string
}

func c23ValidName(s string) bool {
	return s != "" && s != "." && s != ".." && len(s) <= 40 && !strings.ContainsAny(s, "/\x00")
}

// c23Build builds the model tree and returns the entries that are kept (in
// creation order): entries with a missing or non-directory parent, duplicate
// or invalid names, or deeper than 4 components are dropped.
func c23Build(ents []c23Ent) (*c23Node, []c23Ent) {
	root := &c23Node{kind: 'd', kids: map[string]*c23Node{}}
	var kept []c23Ent
	for _, e := range ents {
		comps := strings.Split(string(e.Path), "/")
		if len(comps) == 0 || len(comps) > 4 || len(kept) >= 60 {
			continue
		}
		d := root
		ok := true
		for _, c := range comps[:len(comps)-1] {
			k := d.kids[c]
			if k == nil || k.kind != 'd' {
				ok = false
				break
			}
			d = k
		}
		name := comps[len(comps)-1]
		if !ok || !c23ValidName(name) || d.kids[name] != nil {
			continue
		}
		n := &c23Node{name: name, parent: d}
		switch e.Kind {
		case "d":
			n.kind = 'd'
			n.kids = map[string]*c23Node{}
		case "f":
			n.kind = 'f'
		case "l":
			t := string(e.Target)
			if t == "" || strings.HasPrefix(t, "/") || strings.ContainsRune(t, 0) || len(t) > 200 {
				continue
			}
			n.kind = 'l'
			n.target = t
		default:
			continue
		}
		d.kids[name] = n
		d.names = append(d.names, name)
		kept = append(kept, e)
	}
	return root, kept
}

// c23Resolve walks path p from directory d the way the kernel does: "." and
// ".." are honoured, symbolic links are followed (the last one only with
// follow), at most 40 links. outside reports that the walk left the modelled
// tree, in which case the model has no opinion.
func c23Resolve(d *c23Node, p string, follow bool, hops *int) (n *c23Node, outside bool) {
	comps := strings.Split(p, "/")
	cur := d
	for i, c := range comps {
		last := i == len(comps)-1
		if cur.kind != 'd' {
			return nil, false
		}
		switch c {
		case "", ".":
			continue
		case "..":
			if cur.parent == nil {
				return nil, true
			}
			cur = cur.parent
			continue
		}
		k := cur.kids[c]
		if k == nil {
			return nil, false
		}
		if k.kind == 'l' && (!last || follow) {
			*hops++
			if *hops > 40 {
				return nil, false
			}
			r, out := c23Resolve(cur, k.target, true, hops)
			if out || r == nil {
				return nil, out
			}
			k = r
		}
		cur = k
	}
	return cur, false
}

// ---- matching one path component ----------------------------------------------

func c23IsWild(s c23Seg) bool { return s.K == "?" || s.K == "*" || s.K == "**" }

var c23Classes = map[string]func(rune) bool{
	"control": unicode.IsControl, "digit": unicode.IsDigit, "graphic": unicode.IsGraphic, "letter": unicode.IsLetter,
	"lower": unicode.IsLower, "mark": unicode.IsMark, "number": unicode.IsNumber, "print": unicode.IsPrint,
	"punct": unicode.IsPunct, "space": unicode.IsSpace, "symbol": unicode.IsSymbol, "title": unicode.IsTitle, "upper": unicode.IsUpper,
}

func c23MatchRune(m c23M, r rune) bool {
	switch m.K {
	case "set":
		for _, x := range string(m.A) {
			if x == r {
				return true
			}
		}
		return false
	case "range":
		rs := []rune(string(m.A))
		if len(rs) != 3 {
			return false
		}
		if rs[1] == '-' {
			return rs[0] <= r && r <= rs[2]
		}
		return rs[0] <= r && r < rs[2]
	case "class":
		if f := c23Classes[string(m.A)]; f != nil {
			return f(r)
		}
	}
	return false
}

func c23CharOK(s c23Seg, r rune) bool {
	if r == '/' {
		return false
	}
	if len(s.M) == 0 {
		return true
	}
	for _, m := range s.M {
		if c23MatchRune(m, r) {
			return true
		}
	}
	return false
}

const (
	c23End   = 0 // the segments are used up: name is the last component
	c23Slash = 1 // segs[idx] is "/" and segs[:idx] matched the name
	c23Mid   = 2 // segs[idx] is "**", still open: it goes on across the next "/"
)

type c23Cont struct{ kind, idx int }

// c23Elem returns all the ways the segments (starting at a component
// boundary) can match exactly the component name.
//
// hidden rule, reading 'S' (per wildcard, the wording of the reference: "None
// of the wildcards matches . at the beginning of filenames", match-hidden
// being local to the wildcard it follows): the wildcard that consumes a
// leading dot must have match-hidden. Reading 'F' (per component): a component
// pattern that begins with a wildcard without match-hidden matches no name
// beginning with a dot, and nothing else is restricted.
func c23Elem(segs []c23Seg, name string, reading byte) []c23Cont {
	if reading == 'F' && name[0] == '.' && c23IsWild(segs[0]) && !segs[0].Hidden {
		return nil
	}
	seen := map[c23Cont]bool{}
	var out []c23Cont
	add := func(c c23Cont) {
		if !seen[c] {
			seen[c] = true
			out = append(out, c)
		}
	}
	visited := map[[2]int]bool{}
	var rec func(i, pos int)
	rec = func(i, pos int) {
		if visited[[2]int{i, pos}] {
			return
		}
		visited[[2]int{i, pos}] = true
		if pos == len(name) {
			for j := i; ; j++ {
				if j == len(segs) {
					add(c23Cont{c23End, j})
					return
				}
				switch segs[j].K {
				case "/":
					add(c23Cont{c23Slash, j})
					return
				case "**":
					add(c23Cont{c23Mid, j})
				case "*":
				default:
					return
				}
			}
		}
		if i == len(segs) {
			return
		}
		s := segs[i]
		switch s.K {
		case "/":
			return
		case "lit":
			if strings.HasPrefix(name[pos:], string(s.S)) {
				rec(i+1, pos+len(s.S))
			}
		default:
			r, size := utf8.DecodeRuneInString(name[pos:])
			ok := c23CharOK(s, r)
			if reading == 'S' && pos == 0 && r == '.' && !s.Hidden {
				ok = false
			}
			if s.K == "?" {
				if ok {
					rec(i+1, pos+size)
				}
				return
			}
			rec(i+1, pos) // the star matches nothing more
			if ok {
				rec(i, pos+size)
			}
		}
	}
	rec(0, 0)
	return out
}

// ---- matching a pattern against the tree -----------------------------------------

type c23Hit struct {
	typ string // "dir" | "regular" | "symlink"
}

type c23Walk struct {
	reading byte // 'S' or 'F'
	out     map[string]c23Hit
	unknown bool // a literal component left the modelled tree
}

func c23TypeOf(n *c23Node) string {
	switch n.kind {
	case 'd':
		return "dir"
	case 'f':
		return "regular"
	}
	return "symlink"
}

func (w *c23Walk) walk(segs []c23Seg, d *c23Node, prefix string, depth int) {
	if depth > 12 || len(segs) == 0 {
		return
	}
	// A component that is a single literal is simply followed (this is how
	// ".", ".." and links to directories can be named).
	if segs[0].K == "lit" && (len(segs) == 1 || segs[1].K == "/") {
		name := string(segs[0].S)
		hops := 0
		if len(segs) == 1 {
			n, out := c23Resolve(d, name, false, &hops)
			if out {
				w.unknown = true
			} else if n != nil {
				w.out[prefix+name] = c23Hit{c23TypeOf(n)}
			}
			return
		}
		n, out := c23Resolve(d, name, true, &hops)
		if out {
			w.unknown = true
			return
		}
		if n == nil || n.kind != 'd' {
			return
		}
		if len(segs) == 2 {
			w.out[prefix+name+"/"] = c23Hit{"dir"}
			return
		}
		w.walk(segs[2:], n, prefix+name+"/", depth+1)
		return
	}
	for _, e := range d.names {
		kid := d.kids[e]
		for _, c := range c23Elem(segs, e, w.reading) {
			if c.kind == c23End {
				w.out[prefix+e] = c23Hit{c23TypeOf(kid)}
				continue
			}
			dir := kid // a real directory: links are not traversed here, see c23MatchPath
			if dir.kind != 'd' {
				continue
			}
			if c.kind == c23Mid {
				w.walk(segs[c.idx:], dir, prefix+e+"/", depth+1)
			} else if c.idx+1 == len(segs) {
				w.out[prefix+e+"/"] = c23Hit{"dir"}
			} else {
				w.walk(segs[c.idx+1:], dir, prefix+e+"/", depth+1)
			}
		}
	}
}

func c23Match(segs []c23Seg, cwd *c23Node, reading byte, _ bool) (map[string]c23Hit, bool) {
	w := &c23Walk{reading: reading, out: map[string]c23Hit{}}
	w.walk(segs, cwd, "", 0)
	return w.out, w.unknown
}

// c23MatchPath decides whether the one path p (relative, as a result would be
// written, possibly with a trailing slash) matches the pattern when directory
// components matched by wildcards may also be symbolic links to directories.
// It follows p component by component, so it stays cheap however the links
// loop.
func c23MatchPath(segs []c23Seg, cwd *c23Node, p string, reading byte) (c23Hit, bool) {
	trailing := strings.HasSuffix(p, "/")
	comps := strings.Split(strings.TrimSuffix(p, "/"), "/")
	for _, c := range comps {
		if c == "" {
			return c23Hit{}, false
		}
	}
	var hit c23Hit
	found := false
	var rec func(segs []c23Seg, d *c23Node, ci int)
	rec = func(segs []c23Seg, d *c23Node, ci int) {
		if found || len(segs) == 0 || ci >= len(comps) {
			return
		}
		name := comps[ci]
		last := ci == len(comps)-1
		hops := 0
		if segs[0].K == "lit" && (len(segs) == 1 || segs[1].K == "/") {
			if string(segs[0].S) != name {
				return
			}
			if len(segs) == 1 {
				if n, _ := c23Resolve(d, name, false, &hops); n != nil && last && !trailing {
					found, hit = true, c23Hit{c23TypeOf(n)}
				}
				return
			}
			n, _ := c23Resolve(d, name, true, &hops)
			if n == nil || n.kind != 'd' {
				return
			}
			if len(segs) == 2 {
				if last && trailing {
					found, hit = true, c23Hit{"dir"}
				}
				return
			}
			rec(segs[2:], n, ci+1)
			return
		}
		kid := d.kids[name]
		if kid == nil {
			return
		}
		for _, c := range c23Elem(segs, name, reading) {
			if c.kind == c23End {
				if last && !trailing {
					found, hit = true, c23Hit{c23TypeOf(kid)}
				}
				continue
			}
			dir := kid
			if kid.kind == 'l' {
				hops := 0
				r, out := c23Resolve(d, name, true, &hops)
				if out || r == nil {
					continue
				}
				dir = r
			}
			if dir.kind != 'd' {
				continue
			}
			switch {
			case c.kind == c23Mid:
				rec(segs[c.idx:], dir, ci+1)
			case c.idx+1 == len(segs):
				if last && trailing {
					found, hit = true, c23Hit{"dir"}
				}
			default:
				rec(segs[c.idx+1:], dir, ci+1)
			}
		}
	}
	rec(segs, cwd, 0)
	return hit, found
}

// c23Expect is what the reference says about one pattern (before the global
// modifiers).
type c23Expect struct {
	req        map[string]c23Hit // must be produced, once: matches under both readings of the hidden rule, no link traversal
	rs, rf     map[string]c23Hit // matches under reading S / F without link traversal
	segs       []c23Seg
	cwd        *c23Node
	hiddenOpen bool
	unknown    bool
}

func c23Expected(segs []c23Seg, cwd *c23Node, hiddenFindingOpen bool) *c23Expect {
	rs, u1 := c23Match(segs, cwd, 'S', false)
	rf, u2 := c23Match(segs, cwd, 'F', false)
	ex := &c23Expect{req: map[string]c23Hit{}, rs: rs, rf: rf, segs: segs, cwd: cwd, hiddenOpen: hiddenFindingOpen, unknown: u1 || u2}
	for p, h := range rs {
		if _, ok := rf[p]; ok {
			ex.req[p] = h
		}
	}
	return ex
}

// allowed reports whether path p may be produced (once): it matches under the
// per-wildcard reading S, possibly through links to directories (U1, U2), or -
// only while C23:hidden-dot-by-later-wildcard is open - under reading F.
func (ex *c23Expect) allowed(p string) (h c23Hit, fOnly, ok bool) {
	if h, ok := ex.rs[p]; ok {
		return h, false, true
	}
	if h, ok := c23MatchPath(ex.segs, ex.cwd, p, 'S'); ok {
		return h, false, true
	}
	if ex.hiddenOpen {
		if h, ok := ex.rf[p]; ok {
			return h, true, true
		}
		if h, ok := c23MatchPath(ex.segs, ex.cwd, p, 'F'); ok {
			return h, true, true
		}
	}
	return c23Hit{}, false, false
}

// candidates lists the paths that match without link traversal under either reading.
func (ex *c23Expect) candidates() map[string]c23Hit {
	out := map[string]c23Hit{}
	for p, h := range ex.rs {
		out[p] = h
	}
	for p, h := range ex.rf {
		out[p] = h
	}
	return out
}

// ---- pattern normalisation -------------------------------------------------------

// c23NormSegs merges adjacent literals and slashes, drops empty literals and a
// leading slash, and removes character matchers from "**" (the reference does
// not say whether they would apply to the slashes it matches).
func c23NormSegs(in []c23Seg) []c23Seg {
	var out []c23Seg
	for _, s := range in {
		switch s.K {
		case "lit":
			t := strings.ReplaceAll(strings.ReplaceAll(string(s.S), "/", ""), "\x00", "")
			if t == "" {
				continue
			}
			if len(out) > 0 && out[len(out)-1].K == "lit" {
				out[len(out)-1].S += vs.B(t)
				continue
			}
			out = append(out, c23Seg{K: "lit", S: vs.B(t)})
		case "/":
			if len(out) == 0 {
				continue
			}
			n := s.N
			if n < 0 || n > 2 {
				n = 0
			}
			if out[len(out)-1].K == "/" {
				if out[len(out)-1].N < 2 {
					out[len(out)-1].N++
				}
				continue
			}
			out = append(out, c23Seg{K: "/", N: n})
		case "?", "*":
			var ms []c23M
			for _, m := range s.M {
				if c23ValidMatcher(m) && len(ms) < 3 {
					ms = append(ms, m)
				}
			}
			out = append(out, c23Seg{K: s.K, Hidden: s.Hidden, M: ms, Ord: s.Ord})
		case "**":
			out = append(out, c23Seg{K: "**", Hidden: s.Hidden, Ord: s.Ord})
		}
		if len(out) >= 14 {
			break
		}
	}
	return out
}

func c23ValidMatcher(m c23M) bool {
	a := string(m.A)
	if !utf8.ValidString(a) || strings.ContainsRune(a, utf8.RuneError) {
		return false
	}
	switch m.K {
	case "set":
		return len(a) <= 12
	case "range":
		rs := []rune(a)
		return len(rs) == 3 && (rs[1] == '-' || rs[1] == '~')
	case "class":
		return c23Classes[a] != nil
	}
	return false
}

func c23CountWild(segs []c23Seg) (wild, starstar int, matchers bool) {
	for _, s := range segs {
		if c23IsWild(s) {
			wild++
			if s.K == "**" {
				starstar++
			}
			if len(s.M) > 0 {
				matchers = true
			}
		}
	}
	return
}
