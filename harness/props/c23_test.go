package props

// C23 Wildcard expansion yields exactly the matching paths.
//
// A case is a directory tree (depth <= 4, hostile names, files, directories,
// symbolic links incl. dangling ones, loops and links to directories) plus
// 1..3 patterns derived from the tree's own names. Each pattern is expanded
//   (a) by pkg/glob from a glob.Pattern built segment by segment,
//   (b) by pkg/glob from the pattern's text (glob.Parse), when it has no modifiers,
//   (c) by the evaluator from an Elvish expression `put <pattern>` with the
//       modifiers match-hidden set: range: <class> but: type: nomatch-ok,
// relative to the working directory or with its absolute path in front, and the
// results are compared as multisets with the reference matcher of
// c23_model_test.go (written from website/ref/language.md, never looking at the
// file system).
//
// Where the reference is silent both behaviours are accepted (UNSPEC):
//   U1 a directory component matched by a wildcard may or may not be a symbolic
//      link to a directory (a literal component is followed, as a path is);
//   U2 a name beginning with "." against a component pattern that begins with a
//      wildcard without match-hidden which matches nothing (`*.a` against `.a`):
//      the per-wildcard wording of the reference says match, every shell says no;
//   U3 a non-empty match emptied by but: may or may not raise "no match";
//   U4 character matchers on `**` (would they apply to "/"?), invalid UTF-8 in
//      names together with character matchers, `..` above the generated tree:
//      not generated.
// Open findings (tolerated only while listed as open in known_findings.json):
//   C23:multi-starstar-duplicates, C23:hidden-dot-by-later-wildcard,
//   C23:type-regular-symlink.

import (
	"fmt"
	"os"
	"path/filepath"
	"sort"
	"strings"
	"time"
	"unicode/utf8"

	"pgregory.net/rapid"
	"src.elv.sh/pkg/eval"
	"src.elv.sh/pkg/glob"
	"verif/elv"
	"verif/vs"
)

const (
	c23KeyDup    = "C23:multi-starstar-duplicates"
	c23KeyHidden = "C23:hidden-dot-by-later-wildcard"
	c23KeyType   = "C23:type-regular-symlink"
)

// ---- rendering -------------------------------------------------------------------

// c23Quote writes s as an Elvish double-quoted string using only \xHH escapes
// for anything that is not an ASCII letter or digit.
func c23Quote(s string) string {
	var sb strings.Builder
	sb.WriteByte('"')
	for i := 0; i < len(s); i++ {
		b := s[i]
		if b >= 'a' && b <= 'z' || b >= 'A' && b <= 'Z' || b >= '0' && b <= '9' {
			sb.WriteByte(b)
		} else {
			fmt.Fprintf(&sb, "\\x%02x", b)
		}
	}
	sb.WriteByte('"')
	return sb.String()
}

func c23WildIndexes(segs []c23Seg) []int {
	var w []int
	for i, s := range segs {
		if c23IsWild(s) {
			w = append(w, i)
		}
	}
	return w
}

// c23Elvish renders the pattern as an Elvish expression. absPrefix is "" or
// the absolute working directory with a trailing slash.
func c23Elvish(p c23Pat, segs []c23Seg, absPrefix string) string {
	text, _ := c23ElvishDyn(p, segs, absPrefix, -1)
	return text
}

// c23ElvishDyn is c23Elvish with the dyn-th set:/range: matcher (counting from
// 0 over the whole pattern) written as [$c23m]; it returns the modifier that
// was replaced ("" if there is no such matcher).
func c23ElvishDyn(p c23Pat, segs []c23Seg, absPrefix string, dyn int) (string, string) {
	replaced, nthMatcher := "", 0
	wilds := c23WildIndexes(segs)
	carrier := func(off int) int { return wilds[(p.At+off)%len(wilds)] }
	var sb strings.Builder
	lit := absPrefix
	flush := func() {
		if lit != "" {
			sb.WriteString(c23Quote(lit))
			lit = ""
		}
	}
	prevBareStar := false
	for i, s := range segs {
		switch s.K {
		case "lit":
			lit += string(s.S)
		case "/":
			lit += strings.Repeat("/", 1+s.N)
		default:
			if lit != "" {
				flush()
				prevBareStar = false
			}
			if prevBareStar && s.K != "?" {
				sb.WriteString("''")
			}
			sb.WriteString(s.K)
			var ms []string
			if s.Hidden {
				ms = append(ms, "[match-hidden]")
			}
			for _, m := range s.M {
				switch m.K {
				case "class":
					ms = append(ms, "["+string(m.A)+"]")
				default:
					if nthMatcher == dyn {
						replaced = m.K + ":" + string(m.A)
						ms = append(ms, "[$c23m]")
					} else {
						ms = append(ms, "["+c23Quote(m.K+":"+string(m.A))+"]")
					}
					nthMatcher++
				}
			}
			if p.NomatchOK && carrier(0) == i {
				ms = append(ms, "[nomatch-ok]")
			}
			for k, b := range p.Buts {
				if carrier(1+k) == i {
					ms = append(ms, "["+c23Quote("but:"+absPrefix+string(b))+"]")
				}
			}
			if p.Type != "" && carrier(2) == i {
				ms = append(ms, "[type:"+p.Type+"]")
			}
			mods := len(ms)
			for k := range ms {
				o := s.Ord
				if o < 0 {
					o = -o
				}
				sb.WriteString(ms[(k+o)%len(ms)])
			}
			prevBareStar = mods == 0 && s.K != "?"
		}
	}
	flush()
	return sb.String(), replaced
}

// c23GlobPattern builds the glob.Pattern directly.
func c23GlobPattern(segs []c23Seg, absPrefix string) glob.Pattern {
	var out []glob.Segment
	if absPrefix != "" {
		out = append(out, glob.Slash{})
		for _, c := range strings.Split(strings.Trim(absPrefix, "/"), "/") {
			out = append(out, glob.Literal{Data: c}, glob.Slash{})
		}
	}
	for _, s := range segs {
		switch s.K {
		case "lit":
			out = append(out, glob.Literal{Data: string(s.S)})
		case "/":
			out = append(out, glob.Slash{})
		default:
			w := glob.Wild{MatchHidden: s.Hidden}
			switch s.K {
			case "?":
				w.Type = glob.Question
			case "*":
				w.Type = glob.Star
			default:
				w.Type = glob.StarStar
			}
			for _, m := range s.M {
				m := m
				w.Matchers = append(w.Matchers, func(r rune) bool { return c23MatchRune(m, r) })
			}
			out = append(out, w)
		}
	}
	return glob.Pattern{Segments: out}
}

// c23Text renders the pattern in the text syntax of glob.Parse; ok is false if
// the pattern cannot be written that way (modifiers, adjacent stars, text that
// is not valid UTF-8).
func c23Text(segs []c23Seg, absPrefix string) (string, bool) {
	var sb strings.Builder
	esc := func(s string) {
		for i := 0; i < len(s); i++ {
			if s[i] == '\\' || s[i] == '*' || s[i] == '?' {
				sb.WriteByte('\\')
			}
			sb.WriteByte(s[i])
		}
	}
	esc(absPrefix)
	prevStar := false
	for _, s := range segs {
		switch s.K {
		case "lit":
			if !utf8.ValidString(string(s.S)) || strings.ContainsRune(string(s.S), utf8.RuneError) {
				return "", false
			}
			esc(string(s.S))
			prevStar = false
		case "/":
			sb.WriteString(strings.Repeat("/", 1+s.N))
			prevStar = false
		default:
			if s.Hidden || len(s.M) > 0 || (prevStar && s.K != "?") {
				return "", false
			}
			sb.WriteString(s.K)
			prevStar = s.K != "?"
		}
	}
	if !utf8.ValidString(absPrefix) {
		return "", false
	}
	return sb.String(), true
}

// ---- file system -------------------------------------------------------------------

func c23MakeTree(root string, ents []c23Ent) error {
	if err := os.Mkdir(root, 0o755); err != nil {
		return err
	}
	for _, e := range ents {
		p := root + "/" + string(e.Path)
		var err error
		switch e.Kind {
		case "d":
			err = os.Mkdir(p, 0o755)
		case "f":
			err = os.WriteFile(p, nil, 0o644)
		case "l":
			err = os.Symlink(string(e.Target), p)
		}
		if err != nil {
			return err
		}
	}
	return nil
}

// ---- comparison --------------------------------------------------------------------

func c23Sorted(m map[string]c23Hit) []string {
	var out []string
	for k := range m {
		out = append(out, k)
	}
	sort.Strings(out)
	return out
}

// c23Compare checks the produced paths against required/allowed. dupOK: the
// multiplicity is not compared (open finding with >= 2 "**").
func c23Compare(got []string, req map[string]c23Hit, allowed func(string) bool, dupOK bool) error {
	count := map[string]int{}
	for _, g := range got {
		count[g]++
	}
	for _, p := range c23Sorted(req) {
		if count[p] == 0 {
			return fmt.Errorf("missing %q", p)
		}
	}
	keys := make([]string, 0, len(count))
	for g := range count {
		keys = append(keys, g)
	}
	sort.Strings(keys)
	for _, g := range keys {
		if !allowed(g) {
			return fmt.Errorf("unexpected %q (it does not exist or does not match)", g)
		}
		if count[g] > 1 && !dupOK {
			return fmt.Errorf("%q produced %d times", g, count[g])
		}
	}
	return nil
}

func c23ModeType(m os.FileMode) string {
	switch {
	case m.IsDir():
		return "dir"
	case m&os.ModeSymlink != 0:
		return "symlink"
	case m.IsRegular():
		return "regular"
	}
	return "other"
}

var c23Ev *eval.Evaler

func c23RunElvish(code string) elv.Result {
	if c23Ev == nil {
		c23Ev = eval.NewEvaler()
	}
	return elv.Run(c23Ev, code)
}

func c23HasInvalidNames(ents []c23Ent) bool {
	for _, e := range ents {
		s := string(e.Path)
		if !utf8.ValidString(s) || strings.ContainsRune(s, utf8.RuneError) {
			return true
		}
	}
	return false
}

func c23Describe(ents []c23Ent, cwd string) string {
	var parts []string
	for _, e := range ents {
		switch e.Kind {
		case "d":
			parts = append(parts, fmt.Sprintf("%q/", string(e.Path)))
		case "l":
			parts = append(parts, fmt.Sprintf("%q->%q", string(e.Path), string(e.Target)))
		default:
			parts = append(parts, fmt.Sprintf("%q", string(e.Path)))
		}
	}
	return fmt.Sprintf("tree {%s} cwd %q", strings.Join(parts, " "), cwd)
}

func c23Check(c c23Case) error {
	root, ents := c23Build(c.Tree)
	cwdNode, cwdRel := root, ""
	if c.Cwd != "" {
		d := root
		ok := true
		for _, comp := range strings.Split(string(c.Cwd), "/") {
			k := d.kids[comp]
			if k == nil || k.kind != 'd' {
				ok = false
				break
			}
			d = k
		}
		if ok {
			cwdNode, cwdRel = d, string(c.Cwd)
		}
	}
	invalidNames := c23HasInvalidNames(ents)
	open := func(key string) bool { return !c.Strict && vs.KnownOpen(key) }

	tmp, err := os.MkdirTemp(os.Getenv("VERIF_WORK"), "verif-c23-") // the driver removes $VERIF_WORK even if the process is killed
	if err != nil {
		return nil
	}
	defer os.RemoveAll(tmp)
	if real, err := filepath.EvalSymlinks(tmp); err == nil {
		tmp = real
	}
	fsRoot := tmp + "/r"
	if err := c23MakeTree(fsRoot, ents); err != nil {
		return fmt.Errorf("harness: cannot create the tree: %v", err)
	}
	oldwd, err := os.Getwd()
	if err != nil {
		oldwd = "/"
	}
	defer os.Chdir(oldwd)
	absCwd := fsRoot
	if cwdRel != "" {
		absCwd += "/" + cwdRel
	}
	if err := os.Chdir(absCwd); err != nil {
		return fmt.Errorf("harness: chdir: %v", err)
	}
	desc := c23Describe(ents, cwdRel)

	for pi, p := range c.Pats {
		segs := c23NormSegs(p.Segs)
		if len(segs) == 0 {
			continue
		}
		nwild, nss, hasMatchers := c23CountWild(segs)
		if hasMatchers && invalidNames {
			vs.Excluded("U4: character matchers with names that are not valid UTF-8")
			continue
		}
		ex := c23Expected(segs, cwdNode, open(c23KeyHidden))
		if ex.unknown {
			vs.Excluded("U4: literal .. leaves the generated tree")
			continue
		}
		dupOK := nss >= 2 && open(c23KeyDup)
		absPrefix := ""
		if p.Abs {
			absPrefix = absCwd + "/"
		}
		req := ex.req
		// results are compared in the relative form; a result of an absolute
		// pattern must start with the absolute prefix
		rel := func(got []string) []string {
			out := make([]string, len(got))
			for i, g := range got {
				if strings.HasPrefix(g, absPrefix) {
					out[i] = g[len(absPrefix):]
				} else {
					out[i] = "<without the absolute prefix>" + g
				}
			}
			return out
		}
		allowed := func(p string) bool {
			_, _, ok := ex.allowed(p)
			return ok
		}
		what := func(route string) string {
			return fmt.Sprintf("pattern #%d %s (%s; results shown relative to %q), %s", pi, c23Elvish(c23Pat{}, segs, absPrefix), route, absPrefix, desc)
		}
		note := func(got []string) {
			seen := map[string]bool{}
			for _, g := range got {
				if _, fOnly, _ := ex.allowed(g); fOnly {
					vs.Excluded(c23KeyHidden + ": tolerated while open")
				}
				if seen[g] && dupOK {
					vs.Excluded(c23KeyDup + ": multiplicity not compared while open")
				}
				seen[g] = true
			}
		}

		// (a) pkg/glob, pattern built from segments
		var got []string
		var infoErr error
		c23GlobPattern(segs, absPrefix).Glob(func(pi glob.PathInfo) bool {
			got = append(got, pi.Path)
			if h, _, ok := ex.allowed(strings.TrimPrefix(pi.Path, absPrefix)); ok && infoErr == nil {
				if pi.Info == nil {
					infoErr = fmt.Errorf("%q has no FileInfo", pi.Path)
				} else if t := c23ModeType(pi.Info.Mode()); t != h.typ {
					infoErr = fmt.Errorf("%q reported with FileInfo of a %s, it is a %s", pi.Path, t, h.typ)
				}
			}
			return true
		})
		got = rel(got)
		if err := c23Compare(got, req, allowed, dupOK); err != nil {
			return fmt.Errorf("%s: %v; got %q, reference requires %q", what("glob.Pattern.Glob"), err, got, c23Sorted(req))
		}
		if infoErr != nil {
			return fmt.Errorf("%s: %v", what("glob.Pattern.Glob"), infoErr)
		}
		note(got)

		// (b) pkg/glob, pattern given as text
		if text, ok := c23Text(segs, absPrefix); ok {
			var got []string
			glob.Glob(text, func(pi glob.PathInfo) bool {
				got = append(got, pi.Path)
				return true
			})
			got = rel(got)
			if err := c23Compare(got, req, allowed, dupOK); err != nil {
				return fmt.Errorf("%s: %v; got %q, reference requires %q", what(fmt.Sprintf("glob.Glob(%q)", text)), err, got, c23Sorted(req))
			}
		}

		// (c) the evaluator
		if nwild == 0 {
			continue
		}
		typeOpen := open(c23KeyType)
		buts := map[string]bool{}
		for _, b := range p.Buts {
			buts[string(b)] = true
		}
		typeOK := func(h c23Hit, required bool) bool {
			switch p.Type {
			case "dir":
				return h.typ == "dir"
			case "regular":
				if h.typ == "symlink" {
					// "Symbolic links are considered to be regular files."
					return !(required && typeOpen)
				}
				return h.typ == "regular"
			}
			return true
		}
		reqF := map[string]c23Hit{}
		for k, h := range req {
			if typeOK(h, true) && !buts[k] {
				reqF[k] = h
			}
		}
		allowedF := func(p string) bool {
			h, _, ok := ex.allowed(p)
			return ok && typeOK(h, false) && !buts[p]
		}
		// Two evaluations: the pattern as it stands, and - when it has a set: or
		// range: matcher - the same pattern with that matcher supplied through a
		// variable, inside a loop whose first iteration uses a decoy matcher
		// (nearly every character): what the second iteration matches must not
		// depend on what the same code was given before.
	runs:
		for run := 0; run < 2; run++ {
			code := "put " + c23Elvish(p, segs, absPrefix)
			var res elv.Result
			if run == 0 {
				res = c23RunElvish(code)
			} else {
				dynText, real := c23ElvishDyn(p, segs, absPrefix, int(uint(p.At)%4))
				if real == "" {
					dynText, real = c23ElvishDyn(p, segs, absPrefix, 0)
				}
				if real == "" {
					break runs
				}
				code = "for c23m ['set:abcxyz.01 AB-_世é' " + c23Quote(real) + "] { put \"\\x00sep\"; try { put " + dynText + " } catch e { put \"\\x00exc\" $e } }"
				res = c23RunElvish(code)
				if res.Err == nil {
					last := -1
					for i, v := range res.Values {
						if v == "\x00sep" {
							last = i
						}
					}
					if last < 0 {
						return fmt.Errorf("harness: `%s` produced no separator: %s", code, elv.Reprs(res.Values))
					}
					res.Values = res.Values[last+1:]
					if len(res.Values) >= 2 && res.Values[len(res.Values)-2] == "\x00exc" {
						exc, _ := res.Values[len(res.Values)-1].(error)
						if exc == nil {
							return fmt.Errorf("harness: `%s` caught something that is not an exception", code)
						}
						res.Err, res.Values = exc, nil
					}
				}
			}
			whatE := fmt.Sprintf("pattern #%d `%s` (results shown relative to %q), %s", pi, code, absPrefix, desc)
			if res.Err != nil && !elv.IsException(res.Err) {
				return fmt.Errorf("harness: %s does not compile: %v", whatE, res.Err)
			}
			if res.Err != nil {
				if len(reqF) > 0 {
					return fmt.Errorf("%s: exception %q although the reference requires %q", whatE, elv.Reason(res.Err), c23Sorted(reqF))
				}
				if p.NomatchOK {
					return fmt.Errorf("%s: exception %q although nomatch-ok is given", whatE, elv.Reason(res.Err))
				}
				continue runs
			}
			var gotE []string
			for _, v := range res.Values {
				s, ok := v.(string)
				if !ok {
					return fmt.Errorf("%s: produced a non-string value %s", whatE, elv.Reprs([]any{v}))
				}
				gotE = append(gotE, s)
			}
			if len(res.Bytes) > 0 {
				return fmt.Errorf("%s: wrote bytes %q", whatE, res.Bytes)
			}
			gotE = rel(gotE)
			if err := c23Compare(gotE, reqF, allowedF, dupOK); err != nil {
				return fmt.Errorf("%s: %v; got %q, reference requires %q", whatE, err, gotE, c23Sorted(reqF))
			}
			if len(gotE) == 0 && !p.NomatchOK {
				// U3: a match emptied only by but: may or may not count as "no match".
				emptiedByBut := false
				for b := range buts {
					if h, _, ok := ex.allowed(b); ok && typeOK(h, false) {
						emptiedByBut = true
					}
				}
				if !emptiedByBut {
					return fmt.Errorf("%s: no match and no nomatch-ok, but no exception was raised", whatE)
				}
			}
			if typeOpen && p.Type == "regular" {
				for k, h := range req {
					if _, r := reqF[k]; !r && h.typ == "symlink" && !buts[k] {
						vs.Excluded(c23KeyType + ": symlink under type:regular tolerated while open")
					}
				}
			}
			note(gotE)
		}
	}
	return nil
}

// ---- generator -----------------------------------------------------------------------

var c23CoreNames = []string{"a", "b", "c", "ab", "ba", "abc", "abbc", "abax", "a.b", "a.c", ".a", ".ab", ".b", "x", "ax", "xa", "bx", "axb",
	"a1", "a2", "1", "A", "é", "世a", "a b", "a*b", "?a", "..a"}

var c23HostileNames = []string{"...", " a", "a ", "*", "**", "?", "a?", "[a]", "a[", "]", "aé", "éa", "世", "a世b", "12", "aA", "-a", "--", "~", "~a",
	"a\\b", "\\", "a'b", "'", "a\"b", "$a", "{a}", "a,b", "a\nb", "\n", "a\tb", "\u0301a", "a\u200b", "\U0001F600", "\uFFFD", "#a", "a;b", "a|b", "&a", "(a)",
	"<a>", "a=b", "@a", "%a", "+a", "!a", "a:b", "^a", ".*", ".?", ". ", "..b.", "\x7f", "\x01a",
	"\xffa", "a\xff", "\xff", "x\xc0y", "\xe4\xb8"}

var c23NameAtoms = []string{"a", "b", "c", "x", ".", "-", "*", "?", "[", " ", "é", "世", "1", "A", "~", "\\", "\xff"}

func c23GenName(t *rapid.T, allowInvalid bool) string {
	var s string
	switch k := rapid.IntRange(0, 9).Draw(t, "namekind"); {
	case k < 6:
		s = rapid.SampledFrom(c23CoreNames).Draw(t, "core")
	case k < 9:
		s = rapid.SampledFrom(c23HostileNames).Draw(t, "hostile")
	default:
		n := rapid.IntRange(1, 4).Draw(t, "natoms")
		for i := 0; i < n; i++ {
			s += rapid.SampledFrom(c23NameAtoms).Draw(t, "atom")
		}
	}
	if !allowInvalid && (!utf8.ValidString(s) || strings.ContainsRune(s, utf8.RuneError)) {
		s = "u" + strings.ToValidUTF8(strings.ReplaceAll(s, "\uFFFD", ""), "")
	}
	return s
}

// c23RelPath is the relative path from directory fromDir to path to (both tree-relative).
func c23RelPath(fromDir, to string) string {
	var f []string
	if fromDir != "" {
		f = strings.Split(fromDir, "/")
	}
	tt := strings.Split(to, "/")
	i := 0
	for i < len(f) && i < len(tt)-1 && f[i] == tt[i] {
		i++
	}
	var out []string
	for range f[i:] {
		out = append(out, "..")
	}
	out = append(out, tt[i:]...)
	return strings.Join(out, "/")
}

func c23GenTree(t *rapid.T, allowInvalid bool) []c23Ent {
	var ents []c23Ent
	var gen func(dir string, depth int)
	gen = func(dir string, depth int) {
		max := []int{6, 4, 3, 2}[depth]
		min := 0
		if depth == 0 {
			min = 2
		}
		n := rapid.IntRange(min, max).Draw(t, "nkids")
		used := map[string]bool{}
		for i := 0; i < n && len(ents) < 30; i++ {
			name := c23GenName(t, allowInvalid)
			if used[name] || !c23ValidName(name) {
				continue
			}
			used[name] = true
			p := name
			if dir != "" {
				p = dir + "/" + name
			}
			k := rapid.IntRange(0, 9).Draw(t, "kind")
			switch {
			case k < 4 && depth < 3:
				ents = append(ents, c23Ent{Path: vs.B(p), Kind: "d"})
				gen(p, depth+1)
			case k < 8:
				ents = append(ents, c23Ent{Path: vs.B(p), Kind: "f"})
			default:
				ents = append(ents, c23Ent{Path: vs.B(p), Kind: "l"})
			}
		}
	}
	gen("", 0)
	for i := range ents {
		if ents[i].Kind != "l" {
			continue
		}
		p := string(ents[i].Path)
		dir := ""
		if j := strings.LastIndexByte(p, '/'); j >= 0 {
			dir = p[:j]
		}
		switch k := rapid.IntRange(0, 9).Draw(t, "targetkind"); {
		case k < 6:
			j := rapid.IntRange(0, len(ents)-1).Draw(t, "target")
			ents[i].Target = vs.B(c23RelPath(dir, string(ents[j].Path)))
		case k == 6:
			ents[i].Target = "nowhere"
		case k == 7:
			ents[i].Target = "."
		case k == 8:
			ents[i].Target = ".."
		default:
			ents[i].Target = vs.B(p[strings.LastIndexByte(p, '/')+1:]) // a loop
		}
	}
	return ents
}

// c23Runes splits s into "characters" the way the matcher sees them.
func c23Runes(s string) []string {
	var out []string
	for len(s) > 0 {
		_, n := utf8.DecodeRuneInString(s)
		out = append(out, s[:n])
		s = s[n:]
	}
	return out
}

func c23Lit(parts []string) []c23Seg {
	s := strings.Join(parts, "")
	if s == "" {
		return nil
	}
	return []c23Seg{{K: "lit", S: vs.B(s)}}
}

func c23SetOf(parts []string, t *rapid.T) c23M {
	seen := map[string]bool{}
	set := ""
	for _, p := range parts {
		if !seen[p] && utf8.ValidString(p) && p != "\uFFFD" {
			seen[p] = true
			set += p
		}
	}
	switch rapid.IntRange(0, 8).Draw(t, "setmut") {
	case 0:
		set += "z"
	case 1:
		if rs := []rune(set); len(rs) > 1 {
			set = string(rs[1:])
		}
	case 2:
		set += "./"
	}
	if set == "" {
		set = "a"
	}
	if rs := []rune(set); len(rs) > 10 {
		set = string(rs[:10])
	}
	return c23M{K: "set", A: vs.B(set)}
}

var c23ClassNames = []string{"letter", "digit", "lower", "upper", "punct", "graphic", "print", "symbol", "space", "control", "mark", "number", "title"}
var c23Ranges = []string{"a-c", "a~c", "a-z", "0-9", "A-z", "a-b", "b-x", "a~b", " -~", "é-世", ".-a"}

func c23GenMatcher(t *rapid.T, parts []string) c23M {
	switch rapid.IntRange(0, 3).Draw(t, "matcherkind") {
	case 0:
		return c23M{K: "class", A: vs.B(rapid.SampledFrom(c23ClassNames).Draw(t, "class"))}
	case 1:
		// a range around the characters it has to cover, the upper end included, excluded or just beyond
		var lo, hi rune = -1, -1
		for _, p := range parts {
			r, _ := utf8.DecodeRuneInString(p)
			if r == utf8.RuneError || r >= 0x10FFFF {
				continue
			}
			if lo < 0 || r < lo {
				lo = r
			}
			if r > hi {
				hi = r
			}
		}
		if lo < 0 || rapid.IntRange(0, 3).Draw(t, "range from pool") == 0 {
			return c23M{K: "range", A: vs.B(rapid.SampledFrom(c23Ranges).Draw(t, "range"))}
		}
		switch rapid.IntRange(0, 3).Draw(t, "range end") {
		case 0:
			return c23M{K: "range", A: vs.B(string([]rune{lo, '~', hi}))}
		case 1:
			return c23M{K: "range", A: vs.B(string([]rune{lo, '~', hi + 1}))}
		case 2:
			if lo < hi {
				return c23M{K: "range", A: vs.B(string([]rune{lo + 1, '-', hi}))}
			}
		}
		return c23M{K: "range", A: vs.B(string([]rune{lo, '-', hi}))}
	}
	return c23SetOf(parts, t)
}

// c23GenComponent turns path components comps[i:] into pattern segments and
// returns how many components were consumed.
func c23GenComponent(t *rapid.T, comps []string, restricted bool) ([]c23Seg, int) {
	name := comps[0]
	rs := c23Runes(name)
	hiddenFor := func(n string) bool {
		if strings.HasPrefix(n, ".") {
			return rapid.IntRange(0, 9).Draw(t, "hidden.") < 8
		}
		return rapid.IntRange(0, 11).Draw(t, "hidden") == 0
	}
	cut := func(label string, lo int) int { return rapid.IntRange(lo, len(rs)).Draw(t, label) }
	kind := rapid.IntRange(0, 19).Draw(t, "transform")
	if !restricted && kind >= 12 && kind <= 16 {
		kind = 6
	}
	switch {
	case kind < 3: // literal
		return c23Lit(rs), 1
	case kind < 5: // *
		return []c23Seg{{K: "*", Hidden: hiddenFor(name)}}, 1
	case kind == 5 && len(rs) <= 4: // ????
		var out []c23Seg
		for i := range rs {
			out = append(out, c23Seg{K: "?", Hidden: i == 0 && hiddenFor(name)})
		}
		return out, 1
	case kind < 9: // prefix * suffix
		a := cut("a", 0)
		b := cut("b", a)
		var out []c23Seg
		out = append(out, c23Lit(rs[:a])...)
		out = append(out, c23Seg{K: "*", Hidden: a == 0 && hiddenFor(name)})
		out = append(out, c23Lit(rs[b:])...)
		return out, 1
	case kind < 11: // per character literal or ?
		var out []c23Seg
		for i, r := range rs {
			if rapid.IntRange(0, 2).Draw(t, "q") == 0 {
				out = append(out, c23Seg{K: "?", Hidden: i == 0 && hiddenFor(name)})
			} else {
				out = append(out, c23Lit([]string{r})...)
			}
		}
		return out, 1
	case kind == 11: // two adjacent wildcards
		a := cut("a", 0)
		var out []c23Seg
		out = append(out, c23Seg{K: rapid.SampledFrom([]string{"*", "?", "**"}).Draw(t, "w1"), Hidden: hiddenFor(name)})
		out = append(out, c23Seg{K: rapid.SampledFrom([]string{"*", "?"}).Draw(t, "w2"), Hidden: hiddenFor(name)})
		out = append(out, c23Lit(rs[a:])...)
		return out, 1
	case kind < 14: // prefix *[set] suffix
		a := cut("a", 0)
		b := cut("b", a)
		var out []c23Seg
		out = append(out, c23Lit(rs[:a])...)
		w := c23Seg{K: "*", Hidden: a == 0 && hiddenFor(name), M: []c23M{c23GenMatcher(t, rs[a:b])}}
		if rapid.IntRange(0, 3).Draw(t, "second matcher") == 0 {
			w.M = append(w.M, c23GenMatcher(t, rs[a:b]))
		}
		if b-a == 1 && rapid.Bool().Draw(t, "as ?") {
			w.K = "?"
		}
		out = append(out, w)
		out = append(out, c23Lit(rs[b:])...)
		return out, 1
	case kind < 16: // *[set] literal *[set]: needs backtracking
		a := cut("a", 0)
		b := cut("b", a)
		var out []c23Seg
		out = append(out, c23Seg{K: "*", Hidden: hiddenFor(name), M: []c23M{c23SetOf(rs[:a], t)}})
		out = append(out, c23Lit(rs[a:b])...)
		out = append(out, c23Seg{K: "*", M: []c23M{c23SetOf(rs[b:], t)}})
		return out, 1
	case kind == 16: // whole name by class
		return []c23Seg{{K: "*", Hidden: hiddenFor(name), M: []c23M{c23GenMatcher(t, rs)}}}, 1
	default: // prefix ** suffix over 1..n components
		k := rapid.IntRange(0, len(comps)-1).Draw(t, "span")
		last := c23Runes(comps[k])
		a := 0
		if rapid.IntRange(0, 2).Draw(t, "prefix") == 0 {
			a = cut("a", 0)
		}
		b := len(last)
		switch rapid.IntRange(0, 2).Draw(t, "suffix") {
		case 0:
			b = rapid.IntRange(0, len(last)).Draw(t, "b")
		case 1:
			b = 0
		}
		if k == 0 && b < a {
			b = a
		}
		var out []c23Seg
		out = append(out, c23Lit(rs[:a])...)
		h := a == 0 && hiddenFor(name)
		if !h {
			for _, c := range comps[1 : k+1] {
				if strings.HasPrefix(c, ".") && rapid.IntRange(0, 9).Draw(t, "hidden inner") < 7 {
					h = true
				}
			}
		}
		out = append(out, c23Seg{K: "**", Hidden: h})
		out = append(out, c23Lit(last[b:])...)
		return out, k + 1
	}
}

func c23Descendants(n *c23Node, prefix []string, out *[][]string) {
	for _, name := range n.names {
		p := append(append([]string(nil), prefix...), name)
		*out = append(*out, p)
		if k := n.kids[name]; k.kind == 'd' {
			c23Descendants(k, p, out)
		}
	}
}

func c23Find(d *c23Node, comps []string) *c23Node {
	for _, c := range comps {
		if d == nil || d.kind != 'd' {
			return nil
		}
		d = d.kids[c]
	}
	return d
}

func c23GenPat(t *rapid.T, cwd *c23Node, allNames []string, restricted bool) c23Pat {
	var p c23Pat
	var targets [][]string
	c23Descendants(cwd, nil, &targets)
	frag := func() string {
		if len(allNames) == 0 {
			return "a"
		}
		rs := c23Runes(rapid.SampledFrom(allNames).Draw(t, "fragname"))
		a := rapid.IntRange(0, len(rs)-1).Draw(t, "fraga")
		b := rapid.IntRange(a+1, len(rs)).Draw(t, "fragb")
		return strings.Join(rs[a:b], "")
	}
	randomWild := func() c23Seg {
		return c23Seg{K: rapid.SampledFrom([]string{"*", "*", "?", "**"}).Draw(t, "rw"), Hidden: rapid.IntRange(0, 3).Draw(t, "rwh") == 0}
	}
	if len(targets) == 0 || rapid.IntRange(0, 11).Draw(t, "?random") == 0 {
		n := rapid.IntRange(1, 6).Draw(t, "nsegs")
		for i := 0; i < n; i++ {
			switch rapid.IntRange(0, 5).Draw(t, "segkind") {
			case 0, 1:
				p.Segs = append(p.Segs, c23Seg{K: "lit", S: vs.B(frag())})
			case 2:
				p.Segs = append(p.Segs, c23Seg{K: "/"})
			default:
				p.Segs = append(p.Segs, randomWild())
			}
		}
	} else {
		comps := rapid.SampledFrom(targets).Draw(t, "target")
		if alt := rapid.SampledFrom(targets).Draw(t, "target2"); len(alt) > len(comps) {
			comps = alt
		}
		switch rapid.IntRange(0, 11).Draw(t, "lead") {
		case 0:
			p.Segs = append(p.Segs, c23Seg{K: "lit", S: "."}, c23Seg{K: "/"})
		case 1:
			if k := cwd.kids[comps[0]]; k.kind == 'd' {
				p.Segs = append(p.Segs, c23Seg{K: "lit", S: vs.B(comps[0])}, c23Seg{K: "/"}, c23Seg{K: "lit", S: ".."}, c23Seg{K: "/"})
			}
		case 2:
			if cwd.parent != nil {
				p.Segs = append(p.Segs, c23Seg{K: "lit", S: ".."}, c23Seg{K: "/"}, c23Seg{K: "lit", S: vs.B(cwd.name)}, c23Seg{K: "/"})
			}
		}
		for i := 0; i < len(comps); {
			segs, used := c23GenComponent(t, comps[i:], restricted)
			p.Segs = append(p.Segs, segs...)
			i += used
			if i < len(comps) {
				p.Segs = append(p.Segs, c23Seg{K: "/", N: rapid.SampledFrom([]int{0, 0, 0, 0, 0, 1, 2}).Draw(t, "slashes")})
			}
		}
		// extension below the target, trailing slash
		tail := rapid.IntRange(0, 9).Draw(t, "tail")
		last := c23Find(cwd, comps)
		isDir := last != nil && last.kind == 'd'
		hasKids := isDir && len(last.names) > 0
		if tail <= 4 && ((tail != 2 && !hasKids) || (tail == 2 && !isDir)) && rapid.IntRange(0, 4).Draw(t, "keep pointless tail") > 0 {
			tail = 9
		}
		switch tail {
		case 0, 1:
			p.Segs = append(p.Segs, c23Seg{K: "/"}, randomWild())
		case 2:
			p.Segs = append(p.Segs, c23Seg{K: "/"})
		case 3:
			p.Segs = append(p.Segs, c23Seg{K: "/"}, randomWild(), c23Seg{K: "/"})
		case 4:
			child := frag()
			if hasKids {
				child = rapid.SampledFrom(last.names).Draw(t, "child")
			}
			p.Segs = append(p.Segs, c23Seg{K: "/"}, c23Seg{K: "lit", S: vs.B(child)})
		case 5:
			p.Segs = append(p.Segs, randomWild())
		}
		// mutations: near misses and a second "**"
		mut := rapid.IntRange(0, 19).Draw(t, "mutate")
		switch mut {
		case 0:
			for i := range p.Segs {
				if p.Segs[i].K == "lit" && len(p.Segs[i].S) > 0 && p.Segs[i].S != "." && p.Segs[i].S != ".." {
					rs := c23Runes(string(p.Segs[i].S))
					p.Segs[i].S = vs.B(strings.Join(rs[:len(rs)-1], ""))
					break
				}
			}
		case 1:
			i := rapid.IntRange(0, len(p.Segs)).Draw(t, "star at")
			p.Segs = append(p.Segs[:i:i], append([]c23Seg{{K: "*", Hidden: rapid.IntRange(0, 2).Draw(t, "star hidden") == 0}}, p.Segs[i:]...)...)
		case 2:
			i := rapid.IntRange(0, len(p.Segs)).Draw(t, "insert at")
			ins := []c23Seg{{K: "**", Hidden: rapid.IntRange(0, 3).Draw(t, "ins hidden") == 0}}
			if rapid.Bool().Draw(t, "ins slash") {
				ins = append(ins, c23Seg{K: "/"})
			}
			p.Segs = append(p.Segs[:i:i], append(ins, p.Segs[i:]...)...)
		}
	}
	p.Segs = c23NormSegs(p.Segs)
	if w, _, _ := c23CountWild(p.Segs); w == 0 {
		p.Segs = append(p.Segs, c23Seg{K: "*"})
	}
	for i := range p.Segs {
		if c23IsWild(p.Segs[i]) && (p.Segs[i].Hidden || len(p.Segs[i].M) > 0) {
			p.Segs[i].Ord = rapid.IntRange(0, 3).Draw(t, "modifier order")
		}
	}
	p.Abs = rapid.IntRange(0, 5).Draw(t, "abs") == 0
	p.NomatchOK = rapid.IntRange(0, 3).Draw(t, "nomatch-ok") == 0
	p.At = rapid.IntRange(0, 5).Draw(t, "at")
	switch rapid.IntRange(0, 9).Draw(t, "type") {
	case 0, 1:
		p.Type = "dir"
	case 2, 3:
		p.Type = "regular"
	}
	if rapid.IntRange(0, 3).Draw(t, "?but") == 0 {
		ex := c23Expected(p.Segs, cwd, true)
		cands := c23Sorted(ex.candidates())
		nb := rapid.IntRange(1, 2).Draw(t, "nbuts")
		for i := 0; i < nb; i++ {
			if len(cands) > 0 && rapid.IntRange(0, 4).Draw(t, "but existing") > 0 {
				p.Buts = append(p.Buts, vs.B(rapid.SampledFrom(cands).Draw(t, "but")))
			} else {
				p.Buts = append(p.Buts, "zz-none")
			}
		}
	}
	return p
}

func c23Gen(t *rapid.T) c23Case {
	restricted := rapid.IntRange(0, 2).Draw(t, "restricted") > 0
	allowInvalid := !restricted
	var c c23Case
	c.Tree = c23GenTree(t, allowInvalid)
	root, kept := c23Build(c.Tree)
	c.Tree = kept
	var dirs []string
	var names []string
	for _, e := range kept {
		if d := c23Find(root, strings.Split(string(e.Path), "/")); e.Kind == "d" && d != nil && len(d.names) > 0 {
			dirs = append(dirs, string(e.Path))
		}
		p := string(e.Path)
		names = append(names, p[strings.LastIndexByte(p, '/')+1:])
	}
	cwd := root
	if len(dirs) > 0 && rapid.IntRange(0, 9).Draw(t, "?cwd") < 3 {
		c.Cwd = vs.B(rapid.SampledFrom(dirs).Draw(t, "cwd"))
		for _, comp := range strings.Split(string(c.Cwd), "/") {
			cwd = cwd.kids[comp]
		}
	}
	n := rapid.IntRange(1, 3).Draw(t, "npats")
	for i := 0; i < n; i++ {
		c.Pats = append(c.Pats, c23GenPat(t, cwd, names, restricted))
	}
	return c
}

// ---- classification ----------------------------------------------------------------

func c23Class(c c23Case) (string, bool) {
	root, _ := c23Build(c.Tree)
	cwd := root
	if c.Cwd != "" {
		for _, comp := range strings.Split(string(c.Cwd), "/") {
			k := cwd.kids[comp]
			if k == nil || k.kind != 'd' {
				cwd = root
				break
			}
			cwd = k
		}
	}
	best, bestRank := "no-match", 0
	for _, p := range c.Pats {
		segs := c23NormSegs(p.Segs)
		if len(segs) == 0 {
			continue
		}
		ex := c23Expected(segs, cwd, false)
		if len(ex.req) == 0 {
			continue
		}
		nw, nss, hasM := c23CountWild(segs)
		hidden := false
		for p := range ex.req {
			if strings.HasPrefix(p, ".") || strings.Contains(p, "/.") {
				hidden = true
			}
		}
		label, rank := "match/1-wildcard", 1
		switch {
		case nss >= 2:
			label, rank = "match/2+starstar", 6
		case nss == 1 && hidden:
			label, rank = "match/starstar+hidden", 5
		case nss == 1:
			label, rank = "match/starstar", 4
		case nw >= 2 && hasM:
			label, rank = "match/multi-wild+matchers", 3
		case nw >= 2:
			label, rank = "match/multi-wild", 2
		}
		if rank > bestRank {
			best, bestRank = label, rank
		}
	}
	return best, bestRank >= 2
}

func init() {
	vs.Register(vs.Prop[c23Case]{
		Name:  "C23/expand",
		Rule:  "random directory trees (depth <= 4, <= 30 entries; names from a pool of similar names a ab abbc abax a.b .a .ab ..a, names with spaces, unicode, glob and shell metacharacters, newlines, bytes that are not UTF-8; files, directories, symbolic links to files/directories/nothing/./../themselves) and 1..3 patterns per tree, 7 of 8 derived from an existing path by replacing components with literals, *, ?, prefix*suffix, per-character ?, adjacent wildcards, restricted stars (set: range: class, incl. *[set]lit*[set] that needs backtracking), prefix**suffix over several components, plus ./ dir/../ ../cwd/ prefixes, //, trailing slash, extensions below the path, near-miss literals, an extra ** (>= 2 **), match-hidden mostly where a name is hidden; expanded relative to the working directory (root or a subdirectory) or with the absolute path in front; through glob.Pattern.Glob, glob.Glob(text) and `put <pattern>` with nomatch-ok, but:, type: attached to varying wildcards; patterns with a set:/range: matcher are evaluated once more with that matcher supplied through a loop variable whose first value is a decoy (the second iteration must match as if evaluated alone). non-trivial = at least one required match and (>= 2 wildcards or a **)",
		Gen:   c23Gen,
		Check: c23Check,
		Class: c23Class,
		Quick: 1500, Thorough: 20000,
		Timeout: 30 * time.Second,
		Known: []vs.Known[c23Case]{
			{Key: "C23:greedy-restricted-star", Case: c23Case{Strict: true,
				Tree: []c23Ent{{Path: "abbc", Kind: "f"}, {Path: "abax", Kind: "f"}},
				Pats: []c23Pat{
					{Segs: []c23Seg{{K: "*", M: []c23M{{K: "set", A: "ab"}}}, {K: "lit", S: "b"}, {K: "*", M: []c23M{{K: "set", A: "c"}}}}},
					{Segs: []c23Seg{{K: "*"}, {K: "lit", S: "a"}, {K: "*", M: []c23M{{K: "set", A: "x"}}}}},
				}}},
			{Key: "C23:modifier-leaks-into-next-evaluation", Case: c23Case{Strict: true,
				Tree: []c23Ent{{Path: "abbc", Kind: "f"}, {Path: "abax", Kind: "f"}},
				Pats: []c23Pat{{Segs: []c23Seg{{K: "*"}, {K: "lit", S: "a"}, {K: "*", M: []c23M{{K: "set", A: "x"}}}}}}}},
			{Key: c23KeyDup, Case: c23Case{Strict: true,
				Tree: []c23Ent{{Path: "ax", Kind: "d"}, {Path: "ax/bx", Kind: "f"}},
				Pats: []c23Pat{{Segs: []c23Seg{{K: "**"}, {K: "lit", S: "x"}, {K: "**"}}}}}},
			{Key: c23KeyHidden, Case: c23Case{Strict: true,
				Tree: []c23Ent{{Path: ".a", Kind: "f"}},
				Pats: []c23Pat{{NomatchOK: true, Segs: []c23Seg{{K: "*", Hidden: true, M: []c23M{{K: "set", A: "x"}}}, {K: "?"}, {K: "lit", S: "a"}}}}}},
			{Key: c23KeyType, Case: c23Case{Strict: true,
				Tree: []c23Ent{{Path: "f", Kind: "f"}, {Path: "l", Kind: "l", Target: "f"}},
				Pats: []c23Pat{{Type: "regular", Segs: []c23Seg{{K: "*"}}}}}},
		},
	})
}
