package props

// Sequential model of the history store, written from the documentation of the
// store module (pkg/mods/store/store.d.elv) and the statement of C24. It is
// shared by C24 (sequential histories), C25 (crash recovery), C26
// (linearizability: the porcupine step function) and C29 (stored history).
//
// A concrete operation is a c24In, its observable result a c24Out. The model
// (c24Model.apply) and the implementation (c24Exec) both map c24In -> c24Out and
// c24SameOut compares the two results.

import (
	"fmt"
	"math"
	"os"
	"sort"
	"strconv"
	"strings"

	"src.elv.sh/pkg/store/storedefs"
)

// Documented parameters of the directory history (pkg/store/dir.go constants
// DirScoreDecay, DirScoreIncrement, DirScorePrecision and the statement of C24).
const (
	c24Decay     = 0.986
	c24Increment = 10
	c24Precision = 6
)

type c24In struct {
	K     string   `json:"k"` // add del cmd cmds next prev nextseq adddir deldir dirs
	Text  string   `json:"text,omitempty"`
	A     int      `json:"a,omitempty"`
	B     int      `json:"b,omitempty"`
	F     float64  `json:"f,omitempty"`
	Black []string `json:"black,omitempty"`
}

func (in c24In) String() string {
	switch in.K {
	case "add":
		return fmt.Sprintf("AddCmd(%q)", c24Clip(in.Text))
	case "del":
		return fmt.Sprintf("DelCmd(%d)", in.A)
	case "cmd":
		return fmt.Sprintf("Cmd(%d)", in.A)
	case "cmds":
		return fmt.Sprintf("CmdsWithSeq(%d,%d)", in.A, in.B)
	case "next":
		return fmt.Sprintf("NextCmd(%d,%q)", in.A, c24Clip(in.Text))
	case "prev":
		return fmt.Sprintf("PrevCmd(%d,%q)", in.A, c24Clip(in.Text))
	case "nextseq":
		return "NextCmdSeq()"
	case "adddir":
		return fmt.Sprintf("AddDir(%q,%v)", c24Clip(in.Text), in.F)
	case "deldir":
		return fmt.Sprintf("DelDir(%q)", c24Clip(in.Text))
	case "dirs":
		return fmt.Sprintf("Dirs(%q)", in.Black)
	}
	return in.K
}

func c24Clip(s string) string {
	if len(s) > 40 {
		return s[:24] + fmt.Sprintf("…(%d bytes)", len(s))
	}
	return s
}

type c24Out struct {
	Err  string          // "" = success, "nomatch" = the documented no-such-command error, else the error text
	Seq  int             // add, nextseq, next, prev
	Text string          // cmd, next, prev
	Cmds []storedefs.Cmd // cmds
	Dirs []storedefs.Dir // dirs
}

func (o c24Out) String() string {
	if o.Err != "" {
		return "error " + o.Err
	}
	var sb strings.Builder
	fmt.Fprintf(&sb, "seq=%d text=%q", o.Seq, c24Clip(o.Text))
	if o.Cmds != nil {
		sb.WriteString(" cmds=[")
		for i, c := range o.Cmds {
			if i > 0 {
				sb.WriteByte(' ')
			}
			if i >= 30 {
				fmt.Fprintf(&sb, "…%d more", len(o.Cmds)-i)
				break
			}
			fmt.Fprintf(&sb, "%d:%q", c.Seq, c24Clip(c.Text))
		}
		sb.WriteByte(']')
	}
	if o.Dirs != nil {
		sb.WriteString(" dirs=[")
		for i, d := range o.Dirs {
			if i > 0 {
				sb.WriteByte(' ')
			}
			fmt.Fprintf(&sb, "%q:%v", c24Clip(d.Path), d.Score)
		}
		sb.WriteByte(']')
	}
	return sb.String()
}

// ---- the model -------------------------------------------------------------------

type c24Model struct {
	cmds []storedefs.Cmd    // present entries in sequence order
	next int                // the sequence number the next AddCmd will use
	dirs map[string]float64 // directory history
}

func c24NewModel() *c24Model { return &c24Model{next: 1, dirs: map[string]float64{}} }

func (m *c24Model) clone() *c24Model {
	n := &c24Model{cmds: append([]storedefs.Cmd(nil), m.cmds...), next: m.next, dirs: make(map[string]float64, len(m.dirs))}
	for k, v := range m.dirs {
		n.dirs[k] = v
	}
	return n
}

// c24Round is the 6-digit scientific rounding with which scores are stored.
func c24Round(x float64) float64 {
	f, _ := strconv.ParseFloat(strconv.FormatFloat(x, 'E', c24Precision, 64), 64)
	return f
}

func (m *c24Model) find(seq int) int {
	i := sort.Search(len(m.cmds), func(i int) bool { return m.cmds[i].Seq >= seq })
	if i < len(m.cmds) && m.cmds[i].Seq == seq {
		return i
	}
	return -1
}

// mutates reports whether the operation kind can change the state.
func c24Mutates(k string) bool {
	return k == "add" || k == "del" || k == "adddir" || k == "deldir"
}

func (m *c24Model) apply(in c24In) c24Out {
	switch in.K {
	case "nextseq":
		return c24Out{Seq: m.next}
	case "add":
		seq := m.next
		m.next++
		m.cmds = append(m.cmds, storedefs.Cmd{Text: in.Text, Seq: seq})
		return c24Out{Seq: seq}
	case "del":
		if i := m.find(in.A); i >= 0 {
			m.cmds = append(m.cmds[:i:i], m.cmds[i+1:]...)
		}
		return c24Out{}
	case "cmd":
		if i := m.find(in.A); i >= 0 {
			return c24Out{Text: m.cmds[i].Text}
		}
		return c24Out{Err: "nomatch"}
	case "cmds":
		out := c24Out{Cmds: []storedefs.Cmd{}}
		for _, c := range m.cmds {
			if c.Seq >= in.A && (in.B == -1 || c.Seq < in.B) {
				out.Cmds = append(out.Cmds, c)
			}
		}
		return out
	case "next":
		for _, c := range m.cmds {
			if c.Seq >= in.A && strings.HasPrefix(c.Text, in.Text) {
				return c24Out{Seq: c.Seq, Text: c.Text}
			}
		}
		return c24Out{Err: "nomatch"}
	case "prev":
		for i := len(m.cmds) - 1; i >= 0; i-- {
			c := m.cmds[i]
			if c.Seq < in.A && strings.HasPrefix(c.Text, in.Text) {
				return c24Out{Seq: c.Seq, Text: c.Text}
			}
		}
		return c24Out{Err: "nomatch"}
	case "adddir":
		for k, v := range m.dirs {
			m.dirs[k] = c24Round(float64(v * c24Decay))
		}
		m.dirs[in.Text] = c24Round(m.dirs[in.Text] + float64(c24Increment*in.F))
		return c24Out{}
	case "deldir":
		delete(m.dirs, in.Text)
		return c24Out{}
	case "dirs":
		out := c24Out{Dirs: []storedefs.Dir{}}
		for k, v := range m.dirs {
			if !c24Contains(in.Black, k) {
				out.Dirs = append(out.Dirs, storedefs.Dir{Path: k, Score: v})
			}
		}
		sort.Slice(out.Dirs, func(i, j int) bool {
			a, b := out.Dirs[i], out.Dirs[j]
			if a.Score != b.Score {
				return a.Score > b.Score
			}
			return a.Path < b.Path
		})
		return out
	}
	panic("c24Model: unknown op " + in.K)
}

func c24Contains(l []string, s string) bool {
	for _, x := range l {
		if x == s {
			return true
		}
	}
	return false
}

// ---- the implementation ----------------------------------------------------------

func c24ErrString(err error) string {
	if err == nil {
		return ""
	}
	// Over RPC the error arrives as a string, so compare texts.
	if err.Error() == storedefs.ErrNoMatchingCmd.Error() {
		return "nomatch"
	}
	if err.Error() == "" {
		return "(empty error text)"
	}
	return err.Error()
}

func c24Exec(st storedefs.Store, in c24In) c24Out {
	switch in.K {
	case "nextseq":
		seq, err := st.NextCmdSeq()
		return c24Out{Seq: seq, Err: c24ErrString(err)}
	case "add":
		seq, err := st.AddCmd(in.Text)
		return c24Out{Seq: seq, Err: c24ErrString(err)}
	case "del":
		return c24Out{Err: c24ErrString(st.DelCmd(in.A))}
	case "cmd":
		text, err := st.Cmd(in.A)
		return c24Out{Text: text, Err: c24ErrString(err)}
	case "cmds":
		cmds, err := st.CmdsWithSeq(in.A, in.B)
		if cmds == nil {
			cmds = []storedefs.Cmd{}
		}
		return c24Out{Cmds: cmds, Err: c24ErrString(err)}
	case "next":
		c, err := st.NextCmd(in.A, in.Text)
		return c24Out{Seq: c.Seq, Text: c.Text, Err: c24ErrString(err)}
	case "prev":
		c, err := st.PrevCmd(in.A, in.Text)
		return c24Out{Seq: c.Seq, Text: c.Text, Err: c24ErrString(err)}
	case "adddir":
		return c24Out{Err: c24ErrString(st.AddDir(in.Text, in.F))}
	case "deldir":
		return c24Out{Err: c24ErrString(st.DelDir(in.Text))}
	case "dirs":
		bl := map[string]struct{}{}
		for _, b := range in.Black {
			bl[b] = struct{}{}
		}
		dirs, err := st.Dirs(bl)
		if dirs == nil {
			dirs = []storedefs.Dir{}
		}
		return c24Out{Dirs: dirs, Err: c24ErrString(err)}
	}
	panic("c24Exec: unknown op " + in.K)
}

// ---- comparison ------------------------------------------------------------------

func c24ScoreClose(a, b float64) bool {
	if a == b {
		return true
	}
	return math.Abs(a-b) <= 1e-9*math.Max(math.Abs(a), math.Abs(b))
}

// c24SameOut compares the model's result (want) with the observed one (got).
// When an operation fails the other result fields are not looked at.
func c24SameOut(in c24In, want, got c24Out) error {
	bad := func(what string) error {
		return fmt.Errorf("%v: %s: model says %v, store gave %v", in, what, want, got)
	}
	if want.Err != got.Err {
		return bad("error status")
	}
	if want.Err != "" {
		return nil
	}
	switch in.K {
	case "nextseq", "add":
		if want.Seq != got.Seq {
			return bad("sequence number")
		}
	case "cmd":
		if want.Text != got.Text {
			return bad("text")
		}
	case "next", "prev":
		if want.Seq != got.Seq || want.Text != got.Text {
			return bad("entry")
		}
	case "cmds":
		if len(want.Cmds) != len(got.Cmds) {
			return bad("listing length")
		}
		for i := range want.Cmds {
			if want.Cmds[i] != got.Cmds[i] {
				return bad(fmt.Sprintf("listing entry %d", i))
			}
		}
	case "dirs":
		if len(want.Dirs) != len(got.Dirs) {
			return bad("directory listing length")
		}
		// descending by score (ties in any order); same paths with the same scores
		seen := map[string]bool{}
		wantScore := map[string]float64{}
		for _, d := range want.Dirs {
			wantScore[d.Path] = d.Score
		}
		for i, d := range got.Dirs {
			if i > 0 && got.Dirs[i-1].Score < d.Score {
				return bad(fmt.Sprintf("order: entry %d has a larger score than entry %d", i, i-1))
			}
			w, ok := wantScore[d.Path]
			if !ok || seen[d.Path] {
				return bad(fmt.Sprintf("unexpected or repeated path %q", d.Path))
			}
			seen[d.Path] = true
			if !c24ScoreClose(w, d.Score) {
				return bad(fmt.Sprintf("score of %q", d.Path))
			}
		}
	}
	return nil
}

// c24Snapshot reads the whole observable state of a store.
type c24State struct {
	Next int
	Cmds []storedefs.Cmd
	Dirs []storedefs.Dir
}

func c24ReadState(st storedefs.Store) (c24State, error) {
	var s c24State
	o := c24Exec(st, c24In{K: "nextseq"})
	if o.Err != "" {
		return s, fmt.Errorf("NextCmdSeq: %s", o.Err)
	}
	s.Next = o.Seq
	o = c24Exec(st, c24In{K: "cmds", A: 0, B: -1})
	if o.Err != "" {
		return s, fmt.Errorf("CmdsWithSeq(0,-1): %s", o.Err)
	}
	s.Cmds = o.Cmds
	o = c24Exec(st, c24In{K: "dirs"})
	if o.Err != "" {
		return s, fmt.Errorf("Dirs: %s", o.Err)
	}
	s.Dirs = o.Dirs
	return s, nil
}

// c24StateMatches says whether the observed state is the model's state.
func c24StateMatches(m *c24Model, s c24State) error {
	if s.Next != m.next {
		return fmt.Errorf("next sequence number %d, model %d", s.Next, m.next)
	}
	if err := c24SameOut(c24In{K: "cmds", A: 0, B: -1}, m.apply(c24In{K: "cmds", A: 0, B: -1}), c24Out{Cmds: s.Cmds}); err != nil {
		return err
	}
	return c24SameOut(c24In{K: "dirs"}, m.apply(c24In{K: "dirs"}), c24Out{Dirs: s.Dirs})
}

// c24TempDir makes a private directory for databases and sockets, on /dev/shm
// when there is one (bbolt syncs every transaction).
func c24TempDir(pattern string) (string, error) {
	if fi, err := os.Stat("/dev/shm"); err == nil && fi.IsDir() {
		if d, err := os.MkdirTemp("/dev/shm", pattern); err == nil {
			return d, nil
		}
	}
	return os.MkdirTemp("", pattern)
}
