package props

// C24 The history store behaves like a sequential log with unique sequence numbers.
//
// Oracle: the sequential model in c24_model_test.go. One sub-check:
//   C24/history  random operation histories (<= 300 operations) on a fresh bbolt
//                database; every result is compared with the model; after the last
//                operation every sequence number 0..next+1 is probed with Cmd,
//                NextCmd, PrevCmd and range listings (boundary sweep), and the
//                database is reopened once more to see that everything persisted.

import (
	"fmt"
	"os"
	"path/filepath"
	"strings"

	"pgregory.net/rapid"
	"src.elv.sh/pkg/store"
	"src.elv.sh/pkg/store/storedefs"
	"verif/vs"
)

// c24Ref is a sequence number chosen relative to the state at the time the
// operation runs (the case stays pure data).
type c24Ref struct {
	Mode string `json:"m"`           // abs | present | next | nobound
	N    int    `json:"n,omitempty"` // abs: the number; present: index into the present entries (mod)
	Off  int    `json:"o,omitempty"` // present/next: offset added
}

func (r c24Ref) resolve(m *c24Model) int {
	switch r.Mode {
	case "present":
		if len(m.cmds) == 0 {
			return r.N
		}
		v := m.cmds[r.N%len(m.cmds)].Seq + r.Off
		if v < 0 {
			v = 0
		}
		return v
	case "next":
		v := m.next + r.Off
		if v < 0 {
			v = 0
		}
		return v
	case "nobound":
		return -1
	}
	return r.N
}

type c24Op struct {
	K     string  `json:"k"` // add del cmd cmds next prev nextseq adddir deldir dirs reopen
	Text  vs.B    `json:"text,omitempty"`
	Pad   int     `json:"pad,omitempty"` // text is followed by Pad times "x" (long commands and paths spread over pages)
	A     *c24Ref `json:"a,omitempty"`
	B     *c24Ref `json:"b,omitempty"`
	F     float64 `json:"f,omitempty"`
	Black []vs.B  `json:"black,omitempty"`
}

type c24Hist struct {
	Ops []c24Op `json:"ops"`
}

func (op c24Op) text() string { return string(op.Text) + strings.Repeat("x", op.Pad) }

// concrete turns the op into a concrete operation against the current model state.
func (op c24Op) concrete(m *c24Model) c24In {
	in := c24In{K: op.K, Text: op.text(), F: op.F, Black: vs.Bs(op.Black)}
	if op.A != nil {
		in.A = op.A.resolve(m)
	}
	if op.B != nil {
		in.B = op.B.resolve(m)
	}
	return in
}

// ---- generator --------------------------------------------------------------------

var c24Heads = []string{"", "e", "ec", "echo", "echo ", "echo a", "ls", "ls -l", "git", "git co", "\x00", "\xff", "é", "echo \xff\xfe", "世", "echo 世"}
var c24Tails = []string{"", "", " a", " b", "x", "\n", "\x00", " -- \xc0", " 界"}
var c24DirPool = []string{"/", "/a", "/a/b", "/tmp", "~", "/\xff", "/home/é", "/a/b/c", "relative", "/with space", "/\x00"}

func c24GenText(t *rapid.T, label string) (vs.B, int) {
	s := rapid.SampledFrom(c24Heads).Draw(t, label+"-head") + rapid.SampledFrom(c24Tails).Draw(t, label+"-tail")
	pad := 0
	switch rapid.IntRange(0, 9).Draw(t, label+"-pad") {
	case 0:
		pad = rapid.IntRange(200, 700).Draw(t, label+"-padn")
	case 1:
		pad = rapid.IntRange(1200, 3000).Draw(t, label+"-padn")
	}
	return vs.B(s), pad
}

func c24GenPrefix(t *rapid.T) vs.B {
	if rapid.IntRange(0, 5).Draw(t, "pfx-kind") == 0 {
		return vs.B(rapid.SampledFrom(c24Heads).Draw(t, "pfx-head") + rapid.SampledFrom(c24Tails).Draw(t, "pfx-tail"))
	}
	return vs.B(rapid.SampledFrom(c24Heads).Draw(t, "pfx-head"))
}

func c24GenRef(t *rapid.T, label string) *c24Ref {
	switch rapid.IntRange(0, 9).Draw(t, label+"-mode") {
	case 0:
		return &c24Ref{Mode: "abs", N: rapid.IntRange(0, 12).Draw(t, label+"-n")}
	case 1, 2:
		return &c24Ref{Mode: "next", Off: rapid.IntRange(-2, 3).Draw(t, label+"-off")}
	default:
		return &c24Ref{Mode: "present", N: rapid.IntRange(0, 400).Draw(t, label+"-n"), Off: rapid.IntRange(-1, 1).Draw(t, label+"-off")}
	}
}

func c24GenDir(t *rapid.T) (vs.B, int) {
	d := rapid.SampledFrom(c24DirPool).Draw(t, "dir")
	pad := 0
	if rapid.IntRange(0, 7).Draw(t, "dir-pad") == 0 {
		pad = rapid.IntRange(300, 900).Draw(t, "dir-padn")
	}
	return vs.B(d), pad
}

var c24Factors = []float64{1, 1, 1, 1, 0.5, 2, 3.5, 0.001, 0}

var c24Kinds = []string{"add", "add", "add", "add", "add", "del", "del", "cmd", "cmds", "cmds", "next", "next", "prev", "prev", "nextseq",
	"adddir", "adddir", "deldir", "dirs", "reopen"}

func c24GenOp(t *rapid.T, kinds []string) c24Op {
	op := c24Op{K: rapid.SampledFrom(kinds).Draw(t, "k")}
	switch op.K {
	case "add":
		op.Text, op.Pad = c24GenText(t, "cmd")
	case "del", "cmd":
		op.A = c24GenRef(t, "a")
	case "cmds":
		op.A = c24GenRef(t, "a")
		if rapid.IntRange(0, 3).Draw(t, "unbounded") == 0 {
			op.B = &c24Ref{Mode: "nobound"}
		} else {
			op.B = c24GenRef(t, "b")
		}
	case "next", "prev":
		op.A = c24GenRef(t, "a")
		op.Text = c24GenPrefix(t)
	case "adddir":
		op.Text, op.Pad = c24GenDir(t)
		op.F = rapid.SampledFrom(c24Factors).Draw(t, "f")
	case "deldir":
		op.Text, op.Pad = c24GenDir(t)
	case "dirs":
		n := rapid.IntRange(0, 3).Draw(t, "nblack")
		for i := 0; i < n; i++ {
			op.Black = append(op.Black, vs.B(rapid.SampledFrom(c24DirPool).Draw(t, "black")))
		}
	}
	return op
}

func c24GenHist(t *rapid.T) c24Hist {
	var n int
	switch rapid.IntRange(0, 3).Draw(t, "size") {
	case 0:
		n = rapid.IntRange(1, 25).Draw(t, "nops")
	case 1, 2:
		n = rapid.IntRange(25, 120).Draw(t, "nops")
	default:
		n = rapid.IntRange(120, 300).Draw(t, "nops")
	}
	var h c24Hist
	if rapid.IntRange(0, 5).Draw(t, "bulk") == 0 {
		// more than 255 entries: sequence numbers need a second key byte
		h.Ops = append(h.Ops, c24Op{K: "bulk", Pad: rapid.IntRange(250, 275).Draw(t, "bulkn")})
		n = rapid.IntRange(1, 25).Draw(t, "nops-after-bulk")
	}
	for i := 0; i < n; i++ {
		h.Ops = append(h.Ops, c24GenOp(t, c24Kinds))
	}
	return h
}

// ---- oracle -----------------------------------------------------------------------

// c24Step runs one concrete operation on the store and the model and compares.
// UNSPEC: deleting a sequence number that is not present may succeed (what the
// code does) or fail; the state must be unchanged either way.
func c24Step(st storedefs.Store, m *c24Model, in c24In) error {
	got := c24Exec(st, in)
	if in.K == "del" && m.find(in.A) < 0 && got.Err != "" {
		return nil
	}
	want := m.apply(in)
	return c24SameOut(in, want, got)
}

// c24Sweep probes every sequence number around the whole history.
func c24Sweep(st storedefs.Store, m *c24Model, prefixes []string) error {
	for seq := 0; seq <= m.next+1; seq++ {
		ins := []c24In{{K: "cmd", A: seq}, {K: "cmds", A: seq, B: -1}, {K: "cmds", A: 0, B: seq}, {K: "cmds", A: seq, B: seq + 2}}
		for _, p := range prefixes {
			ins = append(ins, c24In{K: "next", A: seq, Text: p}, c24In{K: "prev", A: seq, Text: p})
		}
		for _, in := range ins {
			if err := c24Step(st, m, in); err != nil {
				return fmt.Errorf("final sweep: %w", err)
			}
		}
	}
	return nil
}

type c24Info struct {
	adds, dels, delsPresent, searches, searchHits, dirOps, reopens, bytes int
}

func c24Run(h c24Hist, info *c24Info) (err error) {
	dir, err := c24TempDir("verif-c24-")
	if err != nil {
		return nil // cannot make a scratch directory: nothing to decide
	}
	defer os.RemoveAll(dir)
	path := filepath.Join(dir, "db")
	st, err := store.NewStore(path)
	if err != nil {
		return fmt.Errorf("NewStore on a fresh file: %v", err)
	}
	defer func() { st.Close() }()
	m := c24NewModel()
	lastAdded := 0
	usedPrefix := map[string]bool{"": true}
	var prefixes = []string{""}
	for i, op := range h.Ops {
		if op.K == "reopen" {
			info.reopens++
			if err := st.Close(); err != nil {
				return fmt.Errorf("op %d: Close: %v", i, err)
			}
			st, err = store.NewStore(path)
			if err != nil {
				return fmt.Errorf("op %d: reopening the database: %v", i, err)
			}
			continue
		}
		if op.K == "bulk" {
			for k := 0; k < op.Pad; k++ {
				info.adds++
				if err := c24Step(st, m, c24In{K: "add", Text: fmt.Sprintf("bulk %d", k)}); err != nil {
					return fmt.Errorf("op %d (bulk add %d): %w", i, k, err)
				}
			}
			lastAdded = m.next - 1
			continue
		}
		in := op.concrete(m)
		switch in.K {
		case "add":
			info.adds++
			info.bytes += len(in.Text)
		case "del":
			info.dels++
			if m.find(in.A) >= 0 {
				info.delsPresent++
			}
		case "next", "prev":
			info.searches++
			if !usedPrefix[in.Text] && len(prefixes) < 4 {
				usedPrefix[in.Text] = true
				prefixes = append(prefixes, in.Text)
			}
			if m.clone().apply(in).Err == "" {
				info.searchHits++
			}
		case "adddir", "deldir", "dirs":
			info.dirOps++
		}
		if err := c24Step(st, m, in); err != nil {
			return fmt.Errorf("op %d: %w", i, err)
		}
		if in.K == "add" {
			// strictly increasing, never reused (also stated independently of the model's counter)
			seq := m.next - 1
			if seq <= lastAdded {
				return fmt.Errorf("op %d: AddCmd returned %d after %d", i, seq, lastAdded)
			}
			lastAdded = seq
		}
	}
	if err := c24Sweep(st, m, prefixes); err != nil {
		return err
	}
	// Everything must have been persisted.
	if err := st.Close(); err != nil {
		return fmt.Errorf("Close: %v", err)
	}
	st, err = store.NewStore(path)
	if err != nil {
		return fmt.Errorf("reopening the database at the end: %v", err)
	}
	s, err := c24ReadState(st)
	if err != nil {
		return fmt.Errorf("after reopening: %v", err)
	}
	if err := c24StateMatches(m, s); err != nil {
		return fmt.Errorf("after reopening: %w", err)
	}
	// and the counter goes on after the reopen
	if err := c24Step(st, m, c24In{K: "add", Text: "after reopen"}); err != nil {
		return fmt.Errorf("after reopening: %w", err)
	}
	return nil
}

func init() {
	vs.Register(vs.Prop[c24Hist]{
		Name: "C24/history",
		Rule: "random histories of 1..300 operations (AddCmd with shared prefixes, empty, binary and multi-kilobyte texts; DelCmd/Cmd of present, deleted, 0 and beyond-last numbers; CmdsWithSeq incl. from>upto, beyond last, upto=-1; NextCmd/PrevCmd with prefixes; NextCmdSeq; AddDir with factors, DelDir, Dirs with blacklists; close-and-reopen) on a fresh database file, each result compared with the sequential model; then every sequence number 0..next+1 is probed (Cmd, NextCmd, PrevCmd, three range listings) and the file is reopened and compared; non-trivial = at least 3 adds plus a deletion of a present entry or a successful prefix search",
		Gen:  c24GenHist,
		Check: func(h c24Hist) error {
			var info c24Info
			return c24Run(h, &info)
		},
		Class: func(h c24Hist) (string, bool) {
			// classify from the model alone
			m := c24NewModel()
			var info c24Info
			for _, op := range h.Ops {
				if op.K == "reopen" {
					info.reopens++
					continue
				}
				if op.K == "bulk" {
					for k := 0; k < op.Pad; k++ {
						info.adds++
						m.apply(c24In{K: "add", Text: fmt.Sprintf("bulk %d", k)})
					}
					continue
				}
				in := op.concrete(m)
				switch in.K {
				case "add":
					info.adds++
					info.bytes += len(in.Text)
				case "del":
					if m.find(in.A) >= 0 {
						info.delsPresent++
					}
				case "next", "prev":
					if m.clone().apply(in).Err == "" {
						info.searchHits++
					}
				}
				m.apply(in)
			}
			size := "ops<25"
			if len(h.Ops) >= 120 {
				size = "ops>=120"
			} else if len(h.Ops) >= 25 {
				size = "ops25-119"
			}
			if info.bytes > 12000 {
				size += "/multi-page"
			}
			if info.adds > 255 {
				size = ">255-entries"
			}
			return size, info.adds >= 3 && (info.delsPresent > 0 || info.searchHits > 0)
		},
		Quick: 250, Thorough: 2500,
		Timeout: 120 * 1e9,
	})
}
