package props

// C25 History survives a crash at any point (evidence level: fault_enumeration).
//
// A child process (worker "c25", c25_worker_test.go) opens the store and executes
// a list of operations, acknowledging each completed one on stdout. The parent
// kills it
//   - at the entry of the n-th pwrite64 / write / fdatasync / fsync / ftruncate
//     system call, for EVERY n the history makes (C25/syscalls: the calls are
//     counted in a first traced run, then one run per (syscall, n) under
//     `strace -e inject=<syscall>:signal=KILL:when=<n>`), and
//   - at drawn syscall numbers and at drawn delays after a drawn acknowledgement,
//     in up to three successive crash rounds on the same file (C25/random).
// After every kill the database file is copied and the copy is reopened in the
// parent: opening must succeed, the content must equal the model after some
// prefix of the attempted operations that contains every acknowledged one, and
// the next sequence number must exceed every acknowledged one. The original file
// is reopened by the next round's child (so recovery itself is crashed too) and
// finally by the parent, which continues with more operations against the model.

import (
	"bufio"
	"bytes"
	"encoding/gob"
	"encoding/json"
	"fmt"
	"io"
	"os"
	"os/exec"
	"path/filepath"
	"regexp"
	"strconv"
	"strings"
	"sync"
	"sync/atomic"
	"time"

	"pgregory.net/rapid"
	"src.elv.sh/pkg/store"
	"verif/vs"
)

type c25Kill struct {
	Mode      string `json:"mode"`            // none | sys | timer | trace (no kill, traced: checks the sync-before-acknowledge invariant)
	Sys       string `json:"sys,omitempty"`   // sys: system call name
	N         int    `json:"n,omitempty"`     // sys: kill at the entry of the N-th such call
	AfterAcks int    `json:"after,omitempty"` // timer: wait for this many acknowledged operations (0 = just opened)
	DelayUs   int    `json:"delay_us,omitempty"`
}

type c25Round struct {
	Ops  []c24Op `json:"ops"`
	Kill c25Kill `json:"kill"`
}

type c25Case struct {
	Rounds []c25Round `json:"rounds"`
	Cont   []c24Op    `json:"cont"` // operations the parent runs after the last reopen
}

const c25Traced = "pwrite64,write,fdatasync,fsync,ftruncate"

var c25Syscalls = []string{"pwrite64", "fdatasync", "write", "ftruncate", "fsync"}

// ---- running one round ---------------------------------------------------------------

type c25Ack struct {
	Seq int
	Err string
}

type c25Result struct {
	started, opened, closed bool
	openErr, closeErr       string
	acks                    []c25Ack
	killed                  bool   // the child died of SIGKILL
	trace                   string // strace output (sys and trace modes)
	stderr                  string
	protocol                string // non-empty: the child's output was not understood
}

var c25AckRe = regexp.MustCompile(`^ack (\d+) (-?\d+) ("(?:[^"\\]|\\.)*")$`)

// c25Inconclusive stops the process in a way the driver reports as inconclusive
// (exit status without a recorded case): the environment cannot run the check.
func c25Inconclusive(format string, args ...any) {
	fmt.Printf("C25 cannot run here: "+format+"\n", args...)
	os.Exit(4)
}

func c25RunRound(dir, db string, ins []c24In, kill c25Kill) c25Result {
	var res c25Result
	jobPath := filepath.Join(dir, "job.gob")
	var buf bytes.Buffer
	if err := gob.NewEncoder(&buf).Encode(c25Job{DB: db, Ops: ins}); err != nil {
		panic(err)
	}
	if err := os.WriteFile(jobPath, buf.Bytes(), 0o600); err != nil {
		c25Inconclusive("cannot write job file: %v", err)
	}
	tracePath := filepath.Join(dir, "trace.txt")
	os.Remove(tracePath)
	var cmd *exec.Cmd
	switch kill.Mode {
	case "sys":
		cmd = exec.Command("strace", "-f", "-o", tracePath, "-e", "trace="+c25Traced,
			"-e", fmt.Sprintf("inject=%s:signal=KILL:when=%d", kill.Sys, kill.N), os.Args[0])
	case "trace":
		cmd = exec.Command("strace", "-f", "-o", tracePath, "-e", "trace="+c25Traced, os.Args[0])
	default:
		cmd = exec.Command(os.Args[0])
	}
	// GOMAXPROCS=1: the child is one goroutine; fewer runtime threads means fewer ptrace stops.
	cmd.Env = append(os.Environ(), "VERIF_WORKER=c25", "VERIF_C25_JOB="+jobPath, "GOMAXPROCS=1")
	var stderr bytes.Buffer
	cmd.Stderr = &stderr
	stdout, err := cmd.StdoutPipe()
	if err != nil {
		c25Inconclusive("pipe: %v", err)
	}
	if err := cmd.Start(); err != nil {
		c25Inconclusive("cannot start the child (%v): %v", cmd.Args, err)
	}
	var mu sync.Mutex
	killedByTimer := false
	var timerWG sync.WaitGroup
	armed := false
	fire := func() {
		armed = true
		timerWG.Add(1)
		go func() {
			defer timerWG.Done()
			if kill.DelayUs > 0 {
				time.Sleep(time.Duration(kill.DelayUs) * time.Microsecond)
			}
			mu.Lock()
			killedByTimer = true
			mu.Unlock()
			cmd.Process.Kill()
		}()
	}
	rd := bufio.NewReaderSize(stdout, 1<<16)
	for {
		line, err := rd.ReadString('\n')
		if err != nil {
			break // EOF; an incomplete last line is not an acknowledgement
		}
		line = strings.TrimSuffix(line, "\n")
		switch {
		case line == "start":
			res.started = true
		case line == "open":
			res.opened = true
		case line == "closed":
			res.closed = true
		case strings.HasPrefix(line, "openerr "):
			res.openErr, _ = strconv.Unquote(line[len("openerr "):])
			if res.openErr == "" {
				res.openErr = line
			}
		case strings.HasPrefix(line, "closeerr "):
			res.closeErr = line
		default:
			m := c25AckRe.FindStringSubmatch(line)
			if m == nil {
				res.protocol = fmt.Sprintf("unexpected line %q", line)
				continue
			}
			i, _ := strconv.Atoi(m[1])
			seq, _ := strconv.Atoi(m[2])
			e, _ := strconv.Unquote(m[3])
			if i != len(res.acks) {
				res.protocol = fmt.Sprintf("acknowledgement %d arrived as number %d", i, len(res.acks))
			}
			res.acks = append(res.acks, c25Ack{seq, e})
		}
		if kill.Mode == "timer" && !armed && res.opened && len(res.acks) >= kill.AfterAcks {
			fire()
		}
	}
	io.Copy(io.Discard, rd)
	werr := cmd.Wait()
	timerWG.Wait()
	res.stderr = stderr.String()
	if b, err := os.ReadFile(tracePath); err == nil {
		res.trace = string(b)
	}
	mu.Lock()
	kt := killedByTimer
	mu.Unlock()
	switch kill.Mode {
	case "sys", "trace":
		res.killed = strings.Contains(res.trace, "killed by SIGKILL")
		if res.trace == "" {
			c25Inconclusive("strace produced no trace (%v): %s", werr, res.stderr)
		}
	default:
		res.killed = kt && werr != nil && !res.closed
	}
	return res
}

// ---- the oracle ----------------------------------------------------------------------

func c25CopyFile(src, dst string) (bool, error) {
	b, err := os.ReadFile(src)
	if os.IsNotExist(err) {
		return false, nil
	}
	if err != nil {
		return false, err
	}
	return true, os.WriteFile(dst, b, 0o600)
}

type c25Info struct {
	kills, unreached int
	phase            string // where the last kill landed: open | op | close | none
}

func c25Check(c c25Case, info *c25Info) error {
	dir, err := c24TempDir("verif-c25-")
	if err != nil {
		c25Inconclusive("no scratch directory: %v", err)
	}
	defer os.RemoveAll(dir)
	db := filepath.Join(dir, "db")
	m := c24NewModel()
	maxAcked := 0
	for ri, round := range c.Rounds {
		// Concrete operations and the model after every prefix.
		states := []*c24Model{m.clone()}
		var ins []c24In
		var wants []c24Out
		cur := m.clone()
		for _, op := range round.Ops {
			if op.K == "reopen" {
				continue
			}
			in := op.concrete(cur)
			ins = append(ins, in)
			wants = append(wants, cur.apply(in))
			states = append(states, cur.clone())
		}
		res := c25RunRound(dir, db, ins, round.Kill)
		what := fmt.Sprintf("round %d (kill %+v)", ri, round.Kill)
		if res.protocol != "" {
			return fmt.Errorf("%s: child protocol: %s", what, res.protocol)
		}
		if res.openErr != "" {
			return fmt.Errorf("%s: the child could not open the database (after %d earlier crash rounds): %s", what, ri, res.openErr)
		}
		if res.closeErr != "" {
			return fmt.Errorf("%s: %s", what, res.closeErr)
		}
		complete := res.closed
		if !complete && !res.killed {
			// neither finished nor killed by us: the environment, not the store
			c25Inconclusive("%s: child ended without being killed: acks=%d stderr=%s", what, len(res.acks), res.stderr)
		}
		if res.killed {
			info.kills++
			switch {
			case !res.opened:
				info.phase = "open"
			case len(res.acks) < len(ins):
				info.phase = "op"
			default:
				info.phase = "close"
			}
		} else {
			info.phase = "none"
			if round.Kill.Mode == "sys" || round.Kill.Mode == "timer" {
				info.unreached++
			}
			if len(res.acks) != len(ins) {
				return fmt.Errorf("%s: child finished but acknowledged %d of %d operations", what, len(res.acks), len(ins))
			}
		}
		// Acknowledged results are the model's.
		for i, a := range res.acks {
			if i >= len(ins) {
				return fmt.Errorf("%s: more acknowledgements than operations", what)
			}
			in, want := ins[i], wants[i]
			if in.K == "del" && states[i].find(in.A) < 0 && a.Err != "" {
				continue // UNSPEC, see c24Step
			}
			if a.Err != want.Err {
				return fmt.Errorf("%s: op %d %v: acknowledged with error %q, model %q", what, i, in, a.Err, want.Err)
			}
			if (in.K == "add" || in.K == "nextseq") && a.Err == "" {
				if a.Seq != want.Seq {
					return fmt.Errorf("%s: op %d %v: acknowledged sequence number %d, model %d", what, i, in, a.Seq, want.Seq)
				}
			}
			if in.K == "add" && a.Seq > maxAcked {
				maxAcked = a.Seq
			}
		}
		if round.Kill.Mode == "trace" {
			if err := c25TraceInvariant(res.trace, ins, states); err != nil {
				return fmt.Errorf("%s: %w", what, err)
			}
		}
		// Reopen a copy of the file as it is now.
		cp := filepath.Join(dir, fmt.Sprintf("copy%d", ri))
		if _, err := c25CopyFile(db, cp); err != nil {
			c25Inconclusive("copy: %v", err)
		}
		st, err := store.NewStore(cp)
		if err != nil {
			return fmt.Errorf("%s: reopening the database after the kill (acknowledged %d of %d ops) failed: %v", what, len(res.acks), len(ins), err)
		}
		s, err := c24ReadState(st)
		st.Close()
		os.Remove(cp)
		if err != nil {
			return fmt.Errorf("%s: reading the reopened database: %v", what, err)
		}
		a := len(res.acks)
		found := -1
		for j := a; j < len(states); j++ {
			if c24StateMatches(states[j], s) == nil {
				found = j
				break
			}
		}
		if found < 0 {
			return fmt.Errorf("%s: after the kill %d of %d operations were acknowledged, but the reopened history equals the model after no prefix of length %d..%d; against the model after %d ops: %v; ops: %v",
				what, a, len(ins), a, len(ins), a, c24StateMatches(states[a], s), ins)
		}
		if s.Next <= maxAcked {
			return fmt.Errorf("%s: next sequence number after reopening is %d, but %d was acknowledged", what, s.Next, maxAcked)
		}
		m = states[found]
	}
	// The parent reopens the original file and goes on.
	st, err := store.NewStore(db)
	if err != nil {
		return fmt.Errorf("final reopen failed: %v", err)
	}
	defer st.Close()
	s, err := c24ReadState(st)
	if err != nil {
		return fmt.Errorf("final reopen: %v", err)
	}
	if err := c24StateMatches(m, s); err != nil {
		return fmt.Errorf("final reopen: %w", err)
	}
	out := c24Exec(st, c24In{K: "add", Text: "after the crash"})
	if out.Err != "" || out.Seq <= maxAcked {
		return fmt.Errorf("AddCmd after reopening gave %v, every acknowledged number (max %d) must be smaller", out, maxAcked)
	}
	if w := m.apply(c24In{K: "add", Text: "after the crash"}); w.Seq != out.Seq {
		return fmt.Errorf("AddCmd after reopening gave %d, model %d", out.Seq, w.Seq)
	}
	for i, op := range c.Cont {
		if op.K == "reopen" {
			continue
		}
		if err := c24Step(st, m, op.concrete(m)); err != nil {
			return fmt.Errorf("continuing after the crash, op %d: %w", i, err)
		}
	}
	return c24Sweep(st, m, []string{"", "e"})
}

// c25TraceInvariant: in an unkilled traced run, whenever an operation that
// changes the state is acknowledged, the data written for it has been followed
// by fdatasync/fsync before the acknowledgement is written.
var c25TraceLine = regexp.MustCompile(`^\d+\s+(pwrite64|write|fdatasync|fsync|ftruncate)\((\d+)(.*)$`)

func c25TraceInvariant(trace string, ins []c24In, states []*c24Model) error {
	ack := 0
	sawWrite, dirty := false, false
	for _, line := range strings.Split(trace, "\n") {
		mm := c25TraceLine.FindStringSubmatch(line)
		if mm == nil {
			continue
		}
		switch mm[1] {
		case "pwrite64", "ftruncate":
			sawWrite, dirty = true, true
		case "fdatasync", "fsync":
			dirty = false
		case "write":
			if mm[2] != "1" || !strings.HasPrefix(mm[3], `, "ack `) {
				continue
			}
			if ack < len(ins) {
				in := ins[ack]
				before, after := states[ack], states[ack+1]
				changed := c24Mutates(in.K) && (before.next != after.next || len(before.cmds) != len(after.cmds) || in.K == "adddir" || (in.K == "deldir" && len(before.dirs) != len(after.dirs)))
				if dirty {
					return fmt.Errorf("op %d %v was acknowledged while data written to the database file had not been synced (no fdatasync/fsync after the last pwrite64)", ack, in)
				}
				if changed && !sawWrite {
					return fmt.Errorf("op %d %v changes the state but was acknowledged without any write to the database file", ack, in)
				}
			}
			ack++
			sawWrite = false
		}
	}
	if ack < len(ins) {
		c25Inconclusive("trace shows %d acknowledgement writes for %d operations", ack, len(ins))
	}
	return nil
}

// ---- generators ----------------------------------------------------------------------

var c25Kinds = []string{"add", "add", "add", "add", "del", "del", "adddir", "adddir", "deldir", "nextseq", "cmds"}

func c25GenOps(t *rapid.T, min, max int) []c24Op {
	n := rapid.IntRange(min, max).Draw(t, "nops")
	ops := make([]c24Op, 0, n)
	for i := 0; i < n; i++ {
		ops = append(ops, c24GenOp(t, c25Kinds))
	}
	return ops
}

func c25GenKill(t *rapid.T, nops int) c25Kill {
	switch rapid.IntRange(0, 9).Draw(t, "killmode") {
	case 0:
		return c25Kill{Mode: "none"}
	case 1, 2, 3, 4, 5:
		return c25Kill{Mode: "timer", AfterAcks: rapid.IntRange(0, nops).Draw(t, "after"), DelayUs: rapid.IntRange(0, 400).Draw(t, "delay")}
	default:
		sys := rapid.SampledFrom([]string{"pwrite64", "pwrite64", "fdatasync", "fdatasync", "write", "ftruncate", "fsync"}).Draw(t, "sys")
		max := 4 * (nops + 2)
		if sys == "ftruncate" || sys == "fsync" {
			max = 3
		} else if sys == "write" {
			max = nops + 3
		}
		return c25Kill{Mode: "sys", Sys: sys, N: rapid.IntRange(1, max).Draw(t, "n")}
	}
}

func c25GenCase(t *rapid.T) c25Case {
	var c c25Case
	nr := rapid.IntRange(1, 3).Draw(t, "rounds")
	for i := 0; i < nr; i++ {
		ops := c25GenOps(t, 1, 10)
		c.Rounds = append(c.Rounds, c25Round{Ops: ops, Kill: c25GenKill(t, len(ops))})
	}
	nc := rapid.IntRange(0, 12).Draw(t, "ncont")
	for i := 0; i < nc; i++ {
		c.Cont = append(c.Cont, c24GenOp(t, c24Kinds))
	}
	return c
}

// c25GenBase draws a history whose last round is to be killed at every point.
func c25GenBase(shape int) *rapid.Generator[c25Case] {
	return rapid.Custom(func(t *rapid.T) c25Case {
		var c c25Case
		if shape%3 == 1 {
			// an earlier crash round: the enumerated round starts by recovering from it
			ops := c25GenOps(t, 3, 8)
			k := c25Kill{Mode: "sys", Sys: rapid.SampledFrom([]string{"pwrite64", "fdatasync"}).Draw(t, "sys"), N: rapid.IntRange(4, 4+3*len(ops)).Draw(t, "n")}
			c.Rounds = append(c.Rounds, c25Round{Ops: ops, Kill: k})
		}
		ops := c25GenOps(t, 6, 12)
		if shape%3 == 2 {
			// several multi-kilobyte commands: the file has to grow (ftruncate + fsync)
			for i := 0; i < 14; i++ {
				ops = append(ops, c24Op{K: "add", Text: "big ", Pad: 2500 + 100*i})
			}
		}
		c.Rounds = append(c.Rounds, c25Round{Ops: ops})
		c.Cont = c25GenOps(t, 3, 8)
		return c
	})
}

func c25CountSyscalls(trace string) map[string]int {
	counts := map[string]int{}
	for _, line := range strings.Split(trace, "\n") {
		if mm := c25TraceLine.FindStringSubmatch(line); mm != nil {
			counts[mm[1]]++
		}
	}
	return counts
}

// c25Enum: for each base history, a traced run counts the system calls of the
// last round; then one case per (system call, n).
func c25Enum(tier string, yield func(c25Case) bool) {
	if _, err := exec.LookPath("strace"); err != nil {
		c25Inconclusive("strace not found")
	}
	seed, _ := strconv.ParseUint(os.Getenv("VERIF_SEED_EFFECTIVE"), 10, 64)
	nh := 2
	if tier == "thorough" {
		nh = 6
	}
	for h := 0; h < nh; h++ {
		base := c25GenBase(h).Example(int(seed%1000003)*16 + h)
		last := len(base.Rounds) - 1
		// counting run (also a case of its own: no kill, sync invariant)
		probe := c25Clone(base)
		probe.Rounds[last].Kill = c25Kill{Mode: "trace"}
		counts, err := c25CountRun(probe)
		if err != nil {
			c25Inconclusive("counting run: %v", err)
		}
		cases := []c25Case{probe}
		total := 0
		for _, sys := range c25Syscalls {
			for n := 1; n <= counts[sys]; n++ {
				c := c25Clone(base)
				c.Rounds[last].Kill = c25Kill{Mode: "sys", Sys: sys, N: n}
				total++
				cases = append(cases, c)
			}
		}
		// The crash runs are independent child processes: evaluate the oracle for
		// the coming cases on a few goroutines; Check picks the result up (it is
		// the same pure function, computed ahead).
		par := 8
		if tier == "thorough" {
			par = 3
		}
		sem := make(chan struct{}, par)
		for _, c := range cases {
			f := &c25Future{done: make(chan struct{})}
			c25Memo.Store(c25Key(c), f)
			c25Pool.Add(1)
			go func(c c25Case) {
				defer c25Pool.Done()
				sem <- struct{}{}
				defer func() {
					if r := recover(); r != nil {
						f.err = fmt.Errorf("PANIC: %v", r)
					}
					<-sem
					close(f.done)
				}()
				if c25Abort.Load() {
					return
				}
				var info c25Info
				f.err = c25Check(c, &info)
			}(c)
		}
		for _, c := range cases {
			if !yield(c) {
				return
			}
		}
		vs.Note("history %d: %d rounds, last round %d ops, crash points %v (total %d)", h, len(base.Rounds), len(base.Rounds[last].Ops), counts, total)
	}
}

type c25Future struct {
	done chan struct{}
	err  error
}

var c25Memo sync.Map // case JSON -> *c25Future, filled by c25Enum
var c25Pool sync.WaitGroup
var c25Abort atomic.Bool

func c25Key(c c25Case) string {
	b, _ := json.Marshal(c)
	return string(b)
}

// c25CheckMemo is c25Check, taking the result from the look-ahead pool of
// c25Enum when this very case is being computed there.
func c25CheckMemo(c c25Case) error {
	if f, ok := c25Memo.LoadAndDelete(c25Key(c)); ok {
		fut := f.(*c25Future)
		<-fut.done
		if fut.err != nil {
			// the run ends here: look-ahead runs not yet started are dropped, the running
			// ones finish and remove their scratch directories
			c25Abort.Store(true)
			c25Pool.Wait()
		}
		return fut.err
	}
	var info c25Info
	return c25Check(c, &info)
}

func c25Clone(c c25Case) c25Case {
	n := c25Case{Cont: c.Cont}
	for _, r := range c.Rounds {
		n.Rounds = append(n.Rounds, r)
	}
	return n
}

// c25CountRun executes the case's rounds like c25Check does (without judging) and
// returns the system-call counts of the last round's trace.
func c25CountRun(c c25Case) (map[string]int, error) {
	dir, err := c24TempDir("verif-c25-")
	if err != nil {
		return nil, err
	}
	defer os.RemoveAll(dir)
	db := filepath.Join(dir, "db")
	m := c24NewModel()
	var trace string
	for ri, round := range c.Rounds {
		states := []*c24Model{m.clone()}
		var ins []c24In
		cur := m.clone()
		for _, op := range round.Ops {
			if op.K == "reopen" {
				continue
			}
			in := op.concrete(cur)
			ins = append(ins, in)
			cur.apply(in)
			states = append(states, cur.clone())
		}
		res := c25RunRound(dir, db, ins, round.Kill)
		trace = res.trace
		if ri == len(c.Rounds)-1 {
			break
		}
		cp := filepath.Join(dir, "copy")
		c25CopyFile(db, cp)
		st, err := store.NewStore(cp)
		if err != nil {
			return nil, fmt.Errorf("reopen after round %d: %v", ri, err)
		}
		s, err := c24ReadState(st)
		st.Close()
		os.Remove(cp)
		if err != nil {
			return nil, err
		}
		found := false
		for j := len(res.acks); j < len(states); j++ {
			if c24StateMatches(states[j], s) == nil {
				m, found = states[j], true
				break
			}
		}
		if !found {
			// the real check will report it; count on the acknowledged prefix
			m = states[len(res.acks)]
		}
	}
	if os.Getenv("VERIF_C25_DEBUG") != "" {
		fmt.Println(trace)
	}
	if !strings.Contains(trace, "exited with 0") {
		return nil, fmt.Errorf("traced child did not exit normally:\n%s", c24Clip(trace))
	}
	return c25CountSyscalls(trace), nil
}

func c25Class(c c25Case) (string, bool) {
	k := c.Rounds[len(c.Rounds)-1].Kill
	label := k.Mode
	if k.Mode == "sys" {
		label = "kill@" + k.Sys
	}
	if len(c.Rounds) > 1 {
		label += fmt.Sprintf("/round%d", len(c.Rounds))
	}
	return label, k.Mode != "none"
}

func init() {
	vs.Register(vs.Prop[c25Case]{
		Name:    "C25/syscalls",
		Rule:    "fault enumeration: per base history (quick 2, thorough 6 per process and 8 processes; shapes: fresh file / recovery from an earlier crash round / (thorough) multi-kilobyte commands that make the file grow) a traced run of the child counts the pwrite64, write, fdatasync, fsync and ftruncate calls of the last round (database creation or recovery, 6-26 operations, close); then ONE CASE PER (system call, n) for every n = 1..count kills the child with SIGKILL at the entry of its n-th such call (strace -e inject=<call>:signal=KILL:when=n; the child keeps all store work on one locked thread so the per-thread count is the program order), plus the unkilled traced run which checks that data is fdatasync'ed before the acknowledgement. After each kill: the file is reopened, must equal the model after a prefix containing every acknowledged op, next sequence number > every acknowledged one, then more operations and a full sweep against the model. Every case is non-trivial",
		Enum:    c25Enum,
		Check:   c25CheckMemo,
		Class:   c25Class,
		Shards:  8,
		Timeout: 600 * time.Second,
	})
	vs.Register(vs.Prop[c25Case]{
		Name: "C25/random",
		Rule: "1-3 successive crash rounds on one database file, each a child process running 1-10 drawn operations and killed either at a drawn (system call, n) as above or by a timer a drawn 0-400 microseconds after a drawn acknowledgement (random-time kill), or not killed; the next round's child recovers the file (and may be killed while doing so); same oracle after every round, then continuation in the parent; non-trivial = the last round has a kill",
		Gen:  c25GenCase,
		Check: func(c c25Case) error {
			var info c25Info
			return c25Check(c, &info)
		},
		Class: c25Class,
		Quick: 24, Thorough: 300,
		Timeout: 600 * time.Second,
	})
}
