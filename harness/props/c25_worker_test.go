package props

// The child process of C25: opens the store, executes a list of concrete
// operations and acknowledges each completed step with one line on stdout
// (one write system call per line, nothing is buffered).

import (
	"bytes"
	"encoding/gob"
	"fmt"
	"os"
	"runtime"

	"src.elv.sh/pkg/store"
)

// c25Job is passed in a gob file (texts may hold arbitrary bytes).
type c25Job struct {
	DB  string
	Ops []c24In
}

func init() { workers["c25"] = c25Worker }

func c25Worker() int {
	// All system calls of the store are made by this goroutine; keeping it on
	// one thread makes strace's per-thread syscall counters deterministic.
	runtime.LockOSThread()
	b, err := os.ReadFile(os.Getenv("VERIF_C25_JOB"))
	if err != nil {
		fmt.Fprintln(os.Stderr, "c25 worker:", err)
		return 2
	}
	var job c25Job
	if err := gob.NewDecoder(bytes.NewReader(b)).Decode(&job); err != nil {
		fmt.Fprintln(os.Stderr, "c25 worker:", err)
		return 2
	}
	say := func(format string, args ...any) {
		os.Stdout.Write([]byte(fmt.Sprintf(format, args...) + "\n"))
	}
	say("start")
	st, err := store.NewStore(job.DB)
	if err != nil {
		say("openerr %q", err.Error())
		return 0
	}
	say("open")
	for i, in := range job.Ops {
		out := c24Exec(st, in)
		say("ack %d %d %q", i, out.Seq, out.Err)
	}
	if err := st.Close(); err != nil {
		say("closeerr %q", err.Error())
		return 0
	}
	say("closed")
	return 0
}
