package props

// C26 Concurrent clients of the daemon see a linearizable history.
//
// An in-process daemon.Serve on a temporary unix socket and database; 2..8
// client goroutines issue store operations through daemon.NewClient clients -
// some on a connection of their own (dialled lazily by their first, concurrent
// request), some sharing one client object after that object's first successful
// request. Invocations and responses are stamped with a logical clock; the
// recorded history is checked with porcupine against the sequential model of
// C24 (partitioned into command and directory history). Independently of the
// linearizability search: all sequence numbers returned by AddCmd are distinct,
// and the final listing contains every added command that nobody tried to
// delete exactly once, and nothing that was not added.
// Optionally the daemon is stopped and started again (same socket and file) at a
// quiescent point in the middle: the clients must carry on (retry on shutdown).

import (
	"fmt"
	"os"
	"path/filepath"
	"runtime"
	"sort"
	"strings"
	"sync"
	"sync/atomic"
	"syscall"
	"time"

	"github.com/anishathalye/porcupine"
	"pgregory.net/rapid"
	"src.elv.sh/pkg/daemon"
	"src.elv.sh/pkg/daemon/daemondefs"
	"src.elv.sh/pkg/rpc"
	"verif/vs"
)

// c26Ref chooses a sequence number from what this goroutine has seen so far.
type c26Ref struct {
	Mode string `json:"m"` // abs | mine (a number returned by an own AddCmd) | seen (last number learnt from any result)
	N    int    `json:"n,omitempty"`
	Off  int    `json:"o,omitempty"`
}

type c26Op struct {
	K     string  `json:"k"`
	Text  vs.B    `json:"text,omitempty"`
	A     *c26Ref `json:"a,omitempty"`
	B     *c26Ref `json:"b,omitempty"` // cmds: upper bound; nil = -1
	F     float64 `json:"f,omitempty"`
	Black []vs.B  `json:"black,omitempty"`
}

type c26Client struct {
	Group      int     `json:"group"`       // -1: own connection; >=0: shares the client object of that group
	CloseEarly bool    `json:"close_early"` // own connection: close as soon as the own operations are done
	Ops1       []c26Op `json:"ops1"`
	Ops2       []c26Op `json:"ops2"` // second phase (after the optional daemon restart)
}

type c26Case struct {
	Procs   int         `json:"procs"` // GOMAXPROCS
	Restart bool        `json:"restart"`
	Clients []c26Client `json:"clients"`
}

// ---- generator ----------------------------------------------------------------------

var c26Kinds = []string{"add", "add", "add", "add", "add", "del", "del", "cmd", "cmds", "cmds", "next", "prev", "nextseq", "nextseq", "adddir", "deldir", "dirs"}
var c26Texts = []string{"", "e", "echo", "echo a", "echo b", "ls", "ls -l", "\x00", "\xff\xfe", "é", "echo 世"}
var c26Prefixes = []string{"", "", "e", "echo", "echo ", "ls", "\xff", "zz"}
var c26Dirs = []string{"/", "/a", "/b", "/tmp", "/\xff"}

func c26GenRef(t *rapid.T, label string) *c26Ref {
	switch rapid.IntRange(0, 5).Draw(t, label+"-m") {
	case 0:
		return &c26Ref{Mode: "abs", N: rapid.IntRange(0, 12).Draw(t, label+"-n")}
	case 1, 2:
		return &c26Ref{Mode: "seen", Off: rapid.IntRange(-3, 1).Draw(t, label+"-o")}
	default:
		return &c26Ref{Mode: "mine", N: rapid.IntRange(0, 20).Draw(t, label+"-n"), Off: rapid.IntRange(-1, 1).Draw(t, label+"-o")}
	}
}

func c26GenOps(t *rapid.T, min, max int, dirBudget *int) []c26Op {
	n := rapid.IntRange(min, max).Draw(t, "nops")
	var ops []c26Op
	for i := 0; i < n; i++ {
		op := c26Op{K: rapid.SampledFrom(c26Kinds).Draw(t, "k")}
		if op.K == "adddir" || op.K == "deldir" {
			// The order of concurrent directory updates is only visible through
			// scores; few of them keep the linearizability search small.
			if *dirBudget <= 0 {
				op.K = "dirs"
			} else {
				*dirBudget--
			}
		}
		switch op.K {
		case "add":
			op.Text = vs.B(rapid.SampledFrom(c26Texts).Draw(t, "text"))
		case "del", "cmd":
			op.A = c26GenRef(t, "a")
		case "cmds":
			op.A = c26GenRef(t, "a")
			if rapid.Bool().Draw(t, "bounded") {
				op.B = c26GenRef(t, "b")
			}
		case "next", "prev":
			op.A = c26GenRef(t, "a")
			op.Text = vs.B(rapid.SampledFrom(c26Prefixes).Draw(t, "prefix"))
		case "adddir":
			op.Text = vs.B(rapid.SampledFrom(c26Dirs).Draw(t, "dir"))
			op.F = rapid.SampledFrom([]float64{1, 1, 0.5, 2}).Draw(t, "f")
		case "deldir":
			op.Text = vs.B(rapid.SampledFrom(c26Dirs).Draw(t, "dir"))
		case "dirs":
			if rapid.IntRange(0, 3).Draw(t, "bl") == 0 {
				op.Black = []vs.B{vs.B(rapid.SampledFrom(c26Dirs).Draw(t, "black"))}
			}
		}
		ops = append(ops, op)
	}
	return ops
}

func c26Gen(t *rapid.T) c26Case {
	c := c26Case{Procs: rapid.SampledFrom([]int{1, 2, 4, 8}).Draw(t, "procs"), Restart: rapid.IntRange(0, 2).Draw(t, "restart") == 0}
	n := rapid.IntRange(2, 8).Draw(t, "clients")
	shape := rapid.IntRange(0, 3).Draw(t, "shape") // 0: all own, 1: all share one, 2,3: mixed
	dirBudget := 6
	groups := 0
	for i := 0; i < n; i++ {
		cl := c26Client{Group: -1}
		switch shape {
		case 1:
			cl.Group = 0
		case 2, 3:
			if rapid.Bool().Draw(t, "shared") {
				cl.Group = rapid.IntRange(0, 1).Draw(t, "group")
			}
		}
		if cl.Group >= groups {
			groups = cl.Group + 1
		}
		if cl.Group < 0 {
			cl.CloseEarly = rapid.Bool().Draw(t, "close-early")
		}
		if c.Restart {
			cl.Ops1 = c26GenOps(t, 2, 8, &dirBudget)
			cl.Ops2 = c26GenOps(t, 2, 8, &dirBudget)
		} else {
			cl.Ops1 = c26GenOps(t, 5, 15, &dirBudget)
		}
		c.Clients = append(c.Clients, cl)
	}
	return c
}

// ---- execution ----------------------------------------------------------------------

type c26Rec struct {
	client   int
	in       c24In
	out      c24Out
	call     int64
	ret      int64
	firstTry string // non-empty: a transport error that was tolerated before the recorded attempt
}

type c26Server struct {
	sig  chan os.Signal
	done chan int
}

func c26StartServer(sock, db string) (*c26Server, error) {
	s := &c26Server{sig: make(chan os.Signal, 1), done: make(chan int, 1)}
	ready := make(chan struct{})
	go func() { s.done <- daemon.Serve(sock, db, daemon.ServeOpts{Ready: ready, Signals: s.sig}) }()
	// No time limit of our own: a daemon that never becomes ready is left to the
	// per-case watchdog of the framework (which re-checks a hang before reporting).
	select {
	case <-ready:
		return s, nil
	case rc := <-s.done:
		return nil, fmt.Errorf("daemon.Serve returned %d before becoming ready", rc)
	}
}

// stop makes the daemon exit and waits for it: first "wait" long for it to leave
// by itself (all clients gone), then with SIGTERM. Waiting for Serve to return
// has no time limit of its own (see above); it always returns true.
func (s *c26Server) stop(wait time.Duration) bool {
	select {
	case <-s.done:
		return true
	case <-time.After(wait):
	}
	select {
	case s.sig <- syscall.SIGTERM:
	default:
	}
	<-s.done
	return true
}

type c26Worker struct {
	id     int
	cl     daemondefs.Client
	clock  *atomic.Int64
	recs   []c26Rec
	mine   []int
	seen   int
	failed error
}

func (w *c26Worker) resolve(r *c26Ref) int {
	if r == nil {
		return -1
	}
	v := r.N
	switch r.Mode {
	case "mine":
		if len(w.mine) > 0 {
			v = w.mine[r.N%len(w.mine)] + r.Off
		}
	case "seen":
		v = w.seen + r.Off
	}
	if v < 0 {
		v = 0
	}
	return v
}

func (w *c26Worker) do(in c24In) c24Out {
	call := w.clock.Add(1)
	out := c24Exec(w.cl, in)
	ret := w.clock.Add(1)
	w.recs = append(w.recs, c26Rec{client: w.id, in: in, out: out, call: call, ret: ret})
	if out.Err == "" {
		switch in.K {
		case "add":
			w.mine = append(w.mine, out.Seq)
			w.seen = out.Seq
		case "nextseq", "next", "prev":
			w.seen = out.Seq
		case "cmds":
			if n := len(out.Cmds); n > 0 {
				w.seen = out.Cmds[n-1].Seq
			}
		}
	}
	return out
}

func (w *c26Worker) run(ops []c26Op) {
	for _, op := range ops {
		in := c24In{K: op.K, Text: string(op.Text), F: op.F, Black: vs.Bs(op.Black)}
		switch op.K {
		case "del", "cmd", "next", "prev":
			in.A = w.resolve(op.A)
		case "cmds":
			in.A, in.B = w.resolve(op.A), w.resolve(op.B)
		}
		w.do(in)
	}
}

// firstCall makes the first request of a client object (after creation or after
// a daemon restart). It must succeed. After a restart the client only retries
// when the rpc layer reports ErrShutdown; if its reader goroutine has not yet
// seen the old connection close, the request fails with a transport error
// instead (timing; not part of the property) - that is tolerated once, never an
// ErrShutdown or ErrDaemonUnreachable.
func (w *c26Worker) firstCall(afterRestart bool) error {
	out := w.do(c24In{K: "nextseq"})
	if out.Err == "" {
		return nil
	}
	// After a restart the old connection is dead; until the client's reader
	// goroutine has noticed, requests fail with transport errors (broken pipe,
	// connection reset, EOF) that the client does not retry. Daemon restarts are
	// not part of the property (one storage daemon), so such errors are
	// tolerated a few times while the client catches up.
	// How long that takes depends on when the client's reader goroutine gets to
	// run, so the bound is generous (10 s) and by elapsed time, not by count.
	start := time.Now()
	for try := 0; afterRestart && time.Since(start) < 10*time.Second && out.Err != "" && out.Err != rpc.ErrShutdown.Error() && out.Err != daemon.ErrDaemonUnreachable.Error(); try++ {
		w.recs = w.recs[:len(w.recs)-1]
		vs.Excluded("first request after daemon restart hit a transport error before the client noticed the closed connection")
		first := out.Err
		pause := time.Duration(try+1) * time.Millisecond
		if pause > 50*time.Millisecond {
			pause = 50 * time.Millisecond
		}
		time.Sleep(pause)
		out = w.do(c24In{K: "nextseq"})
		w.recs[len(w.recs)-1].firstTry = first
		if out.Err == "" {
			return nil
		}
	}
	return fmt.Errorf("first request of client %d (after restart: %v) failed: %s", w.id, afterRestart, out.Err)
}

func c26Run(c c26Case) (recs []c26Rec, err error) {
	old := runtime.GOMAXPROCS(c.Procs)
	defer runtime.GOMAXPROCS(old)
	dir, derr := c24TempDir("verif-c26-")
	if derr != nil {
		return nil, nil
	}
	defer os.RemoveAll(dir)
	sock, db := filepath.Join(dir, "sock"), filepath.Join(dir, "db")
	srv, serr := c26StartServer(sock, db)
	if serr != nil {
		return nil, serr
	}
	defer func() {
		if srv != nil && !srv.stop(2*time.Second) && err == nil {
			err = fmt.Errorf("daemon.Serve did not return within 30s after SIGTERM")
		}
	}()
	var clock atomic.Int64

	keeper := &c26Worker{id: len(c.Clients), cl: daemon.NewClient(sock), clock: &clock}
	defer func() { keeper.cl.Close() }()
	if e := keeper.firstCall(false); e != nil {
		return keeper.recs, e
	}
	// client objects
	groups := map[int]daemondefs.Client{}
	workers := make([]*c26Worker, len(c.Clients))
	var objects []*c26Worker // one worker per distinct shared client object, used for its sequential first calls
	for i, cc := range c.Clients {
		w := &c26Worker{id: i, clock: &clock}
		if cc.Group >= 0 {
			if groups[cc.Group] == nil {
				groups[cc.Group] = daemon.NewClient(sock)
				w.cl = groups[cc.Group]
				objects = append(objects, w)
			}
			w.cl = groups[cc.Group]
		} else {
			w.cl = daemon.NewClient(sock)
		}
		workers[i] = w
	}
	collect := func() []c26Rec {
		all := append([]c26Rec(nil), keeper.recs...)
		for _, w := range workers {
			all = append(all, w.recs...)
		}
		sort.Slice(all, func(i, j int) bool { return all[i].call < all[j].call })
		return all
	}
	// shared objects: first successful request before they are shared
	for _, w := range objects {
		if e := w.firstCall(false); e != nil {
			return collect(), e
		}
	}
	phase := func(second bool) {
		var wg sync.WaitGroup
		start := make(chan struct{})
		for i, w := range workers {
			wg.Add(1)
			go func(w *c26Worker, cc c26Client) {
				defer wg.Done()
				<-start
				if !second {
					w.run(cc.Ops1)
				} else {
					w.run(cc.Ops2)
				}
				last := second || !c.Restart
				if last && cc.Group < 0 && cc.CloseEarly {
					w.cl.Close()
				}
			}(w, c.Clients[i])
		}
		close(start)
		wg.Wait()
	}
	phase(false)
	if c.Restart {
		// quiescent: nobody has a request in flight
		if !srv.stop(0) {
			srv = nil
			return collect(), fmt.Errorf("daemon.Serve did not return within 30s after SIGTERM")
		}
		srv = nil
		srv, serr = c26StartServer(sock, db)
		if serr != nil {
			return collect(), fmt.Errorf("restarting the daemon: %v", serr)
		}
		// Give the clients' reader goroutines time to see the closed connections.
		time.Sleep(20 * time.Millisecond)
		if e := keeper.firstCall(true); e != nil {
			return collect(), e
		}
		seen := map[daemondefs.Client]bool{}
		for _, w := range workers {
			if seen[w.cl] {
				continue
			}
			seen[w.cl] = true
			if e := w.firstCall(true); e != nil {
				return collect(), e
			}
		}
		phase(true)
	}
	// final reads, after everything else
	keeper.do(c24In{K: "nextseq"})
	keeper.do(c24In{K: "cmds", A: 0, B: -1})
	keeper.do(c24In{K: "dirs"})
	for _, w := range workers {
		w.cl.Close()
	}
	return collect(), nil
}

// ---- oracle -------------------------------------------------------------------------

func c26Model() porcupine.Model {
	isDir := func(k string) bool { return k == "adddir" || k == "deldir" || k == "dirs" }
	return porcupine.Model{
		Partition: func(h []porcupine.Operation) [][]porcupine.Operation {
			var cmd, dir []porcupine.Operation
			for _, op := range h {
				if isDir(op.Input.(c24In).K) {
					dir = append(dir, op)
				} else {
					cmd = append(cmd, op)
				}
			}
			return [][]porcupine.Operation{cmd, dir}
		},
		Init: func() any { return c24NewModel() },
		Step: func(state, input, output any) (bool, any) {
			m, in, got := state.(*c24Model), input.(c24In), output.(c24Out)
			if !c24Mutates(in.K) {
				return c24SameOut(in, m.apply(in), got) == nil, m
			}
			if in.K == "del" && m.find(in.A) < 0 && got.Err != "" {
				return true, m // UNSPEC, see c24Step
			}
			n := m.clone()
			want := n.apply(in)
			return c24SameOut(in, want, got) == nil, n
		},
		Equal: func(a, b any) bool {
			x, y := a.(*c24Model), b.(*c24Model)
			if x.next != y.next || len(x.cmds) != len(y.cmds) || len(x.dirs) != len(y.dirs) {
				return false
			}
			for i := range x.cmds {
				if x.cmds[i] != y.cmds[i] {
					return false
				}
			}
			for k, v := range x.dirs {
				if w, ok := y.dirs[k]; !ok || w != v {
					return false
				}
			}
			return true
		},
		DescribeOperation: func(in, out any) string { return fmt.Sprintf("%v -> %v", in, out) },
	}
}

func c26Dump(recs []c26Rec) string {
	var sb strings.Builder
	for _, r := range recs {
		fmt.Fprintf(&sb, "  [%d,%d] client %d: %v -> %v\n", r.call, r.ret, r.client, r.in, r.out)
	}
	s := sb.String()
	if len(s) > 12000 {
		s = s[:12000] + "…\n"
	}
	return s
}

func c26Check(c c26Case) error {
	recs, err := c26Run(c)
	if err != nil {
		return fmt.Errorf("%v\nhistory:\n%s", err, c26Dump(recs))
	}
	if recs == nil {
		return nil
	}
	// every request succeeds or fails with the documented no-such-command error
	for _, r := range recs {
		if r.out.Err != "" && r.out.Err != "nomatch" {
			return fmt.Errorf("client %d: %v failed: %s\nhistory:\n%s", r.client, r.in, r.out.Err, c26Dump(recs))
		}
	}
	// unique sequence numbers
	added := map[int]string{}
	delTargets := map[int]bool{}
	for _, r := range recs {
		switch r.in.K {
		case "add":
			if prev, dup := added[r.out.Seq]; dup {
				return fmt.Errorf("sequence number %d was handed out twice (texts %q and %q)\nhistory:\n%s", r.out.Seq, prev, r.in.Text, c26Dump(recs))
			}
			added[r.out.Seq] = r.in.Text
		case "del":
			delTargets[r.in.A] = true
		}
	}
	// nothing lost, nothing duplicated, nothing invented
	final := recs[len(recs)-2]
	if final.in.K != "cmds" {
		panic("c26: final listing not where expected")
	}
	listed := map[int]bool{}
	last := 0
	for _, e := range final.out.Cmds {
		if e.Seq <= last {
			return fmt.Errorf("final listing not in increasing sequence order at %d\nhistory:\n%s", e.Seq, c26Dump(recs))
		}
		last = e.Seq
		text, ok := added[e.Seq]
		if !ok || text != e.Text {
			return fmt.Errorf("final listing has entry %d %q which no client added (added: %q, %v)\nhistory:\n%s", e.Seq, e.Text, text, ok, c26Dump(recs))
		}
		listed[e.Seq] = true
	}
	for seq, text := range added {
		if !listed[seq] && !delTargets[seq] {
			return fmt.Errorf("added command %d %q is lost: not in the final listing although nobody deleted it\nhistory:\n%s", seq, text, c26Dump(recs))
		}
	}
	// linearizability
	var ops []porcupine.Operation
	for _, r := range recs {
		ops = append(ops, porcupine.Operation{ClientId: r.client, Input: r.in, Output: r.out, Call: r.call, Return: r.ret})
	}
	switch porcupine.CheckOperationsTimeout(c26Model(), ops, 120*time.Second) {
	case porcupine.Illegal:
		return fmt.Errorf("history of %d operations by %d clients is not linearizable with respect to the sequential store model\nhistory:\n%s", len(recs), len(c.Clients), c26Dump(recs))
	case porcupine.Unknown:
		vs.Excluded("linearizability search gave up after 120s")
	}
	return nil
}

func c26Class(c c26Case) (string, bool) {
	own, shared := 0, 0
	for _, cl := range c.Clients {
		if cl.Group < 0 {
			own++
		} else {
			shared++
		}
	}
	label := "mixed"
	switch {
	case shared == 0:
		label = "own-connections"
	case own == 0:
		label = "all-shared"
	}
	if c.Restart {
		label += "+restart"
	}
	if c.Procs == 1 {
		label += "/1proc"
	}
	return label, true
}

func init() {
	rule := "an in-process daemon.Serve on a temporary socket and database; 2-8 client goroutines (own lazily-dialled connection, or sharing a client object after its first successful request; some close early), 5-15 operations each drawn from AddCmd/DelCmd/Cmd/CmdsWithSeq/NextCmd/PrevCmd/NextCmdSeq/AddDir/DelDir/Dirs with arguments taken from what the goroutine has seen; GOMAXPROCS 1/2/4/8; in a third of the cases the daemon is stopped and restarted at a quiescent point between two phases; the history recorded with a logical clock must be linearizable (porcupine) w.r.t. the sequential model, AddCmd numbers distinct, the final listing = added minus possibly-deleted; every case is non-trivial (>= 2 concurrent clients)"
	vs.Register(vs.Prop[c26Case]{
		Name: "C26/linearizable", Rule: rule,
		Gen: c26Gen, Check: c26Check, Class: c26Class,
		Quick: 250, Thorough: 2500,
		Timeout: 300 * time.Second,
	})
	vs.Register(vs.Prop[c26Case]{
		Name: "C26/race", Rule: "the same histories under the Go race detector (any report fails the run): " + rule,
		Gen: c26Gen, Check: c26Check, Class: c26Class,
		Quick: 50, Thorough: 400, Race: true,
		Timeout: 300 * time.Second,
	})
}
