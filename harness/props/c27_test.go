package props

// C27 Daemon activation yields one live daemon per socket.
//
// Schedule exploration over the REAL daemon.Activate / daemon.Serve code run
// in-process. Shells are goroutines calling Activate; daemon "processes" are
// goroutines started through daemon.VerifSetStartProcess that call
// daemon.Serve on the -db/-sock arguments Activate's spawn produced. The unix
// socket, the socket file and bbolt's flock on the database file are real.
// daemon.VerifSetPauseFn parks every actor at its protocol steps; the scheduler
// moves exactly one actor at a time (release one gate / start Activate in an
// idle shell / store op / client Close) and waits until everything it released
// is parked again, idle, finished, or provably blocked on real I/O.
//
// Oracle: the four sentences of the statement as invariants over the recorded
// history (see c27Eval). Timing never decides: if the hard watchdog expires
// the case is counted as excluded (inconclusive), never as a violation.

import (
	"encoding/json"
	"errors"
	"fmt"
	"io"
	"os"
	"path/filepath"
	"strings"
	"sync"
	"sync/atomic"
	"syscall"
	"time"

	"net"

	"pgregory.net/rapid"
	"src.elv.sh/pkg/daemon"
	"src.elv.sh/pkg/daemon/daemondefs"
	"verif/vs"
)

const (
	c27KeyStale = "C27:stale-socket-concurrent-activation"
	c27KeyExit  = "C27:exit-removes-foreign-socket"
	// Needs a pause point "daemon:socket-removed" between os.Remove(sockpath) and
	// listener.Close() in Serve; without it the shape cannot be scheduled.
	c27KeyUnlink = "C27:listener-close-unlinks-successor-socket"

	c27Hard       = 10 * time.Second      // hard watchdog for one settle: expiry = inconclusive
	c27BlockWait  = 30 * time.Millisecond // an actor expected to block on real I/O is left alone after this long without a state change
	c27Quiet      = 2 * time.Millisecond  // quiet period that lets autonomous daemons react
	c27QuietLong  = 6 * time.Millisecond  // after a client Close / a daemon starting to serve
	c27DrainPolls = 4                     // polls a shell gets in the drain phase before its spawn timeout is cut
	c27MaxLives   = 2                     // a shell slot may be started twice (exit, then a new shell)
	c27MaxHist    = 400
)

type c27Step struct {
	K    string `json:"k"` // go | start | op | close
	Pick int    `json:"pick"`
}

type c27Case struct {
	Init   string    `json:"init"`   // fresh | stale | live
	Shells int       `json:"shells"` // 1..3 shell slots
	Steps  []c27Step `json:"steps"`
	// Guard: leave out the shape of the open finding c27KeyStale: while the stale
	// socket is still in place only one shell may be inside Activate.
	Guard bool `json:"guard,omitempty"`
	// Guard3: leave out the shape of c27KeyUnlink: no daemon is released from
	// "daemon:before-listen" while another one sits between removing its socket
	// and closing its listener.
	Guard3 bool `json:"guard3,omitempty"`
	// Only: 0 = all four invariants decide; n = only invariant n decides.
	Only int `json:"only,omitempty"`
}

// ---- actors ---------------------------------------------------------------------

const (
	c27Idle = iota
	c27Running
	c27Parked
	c27Auto // daemon in its serve loop
	c27Done
)

type c27Actor struct {
	name    string
	daemon  bool
	state   int
	blocked bool // running, but classified as blocked on real I/O
	point   string
	gate    chan struct{}
	lastRel int

	// shell
	lives     int
	cmd       chan string
	cl        daemondefs.Client
	hasClient bool
	activated bool
	polls     int
	cut       bool // the harness cut this shell's spawn wait in the drain phase

	// daemon
	sig         chan os.Signal
	hasListener bool
	hasDB       bool
}

type c27Ev struct {
	Actor string
	Kind  string
	Sock  string // which file is at the socket path: "-", "sock(stale)", "sock(D1)", ...
	Err   string
	VErr  string
	OErr  string
	Note  string
}

type c27Run struct {
	c               c27Case
	dir, sock, db   string
	mu              sync.Mutex
	notify          chan struct{}
	seq             int
	who             map[any]*c27Actor
	shells          []*c27Actor
	daemons         []*c27Actor
	hist            []c27Ev
	sockNames       map[string]string
	free            bool // never park (abandon path)
	staleGone       bool
	guardHit        bool
	guard3Hit       bool
	relCount        int
	inconclusive    string
	deadlock        string // set by abandon: the actors are stuck for good
	spawnerOfRunDir map[string]string
}

var (
	c27Cur      atomic.Pointer[c27Run]
	c27HookOnce sync.Once
)

func c27InstallHooks() {
	c27HookOnce.Do(func() {
		daemon.VerifSetPauseFn(func(point string, who any) {
			if r := c27Cur.Load(); r != nil {
				r.pause(point, who)
			}
		})
		daemon.VerifSetStartProcess(func(name string, argv []string, attr *os.ProcAttr) error {
			r := c27Cur.Load()
			if r == nil {
				return errors.New("c27: no active run")
			}
			return r.spawnHook(argv, attr)
		})
	})
}

func (r *c27Run) bump() {
	r.seq++
	select {
	case r.notify <- struct{}{}:
	default:
	}
}

func (r *c27Run) rawSock() string {
	fi, err := os.Lstat(r.sock)
	if err != nil {
		if os.IsNotExist(err) {
			return "-"
		}
		return "err:" + err.Error()
	}
	st, ok := fi.Sys().(*syscall.Stat_t)
	if !ok {
		return "nostat"
	}
	return fmt.Sprintf("%d:%d:%d.%d", st.Dev, st.Ino, st.Ctim.Sec, st.Ctim.Nsec)
}

func (r *c27Run) nameOf(raw string) string {
	if raw == "-" {
		return "-"
	}
	if n, ok := r.sockNames[raw]; ok {
		return n
	}
	return "sock?" + raw
}

// record appends an event (caller holds r.mu).
func (r *c27Run) record(ev c27Ev) {
	if ev.Sock == "" {
		ev.Sock = r.nameOf(r.rawSock())
	}
	if len(r.hist) < c27MaxHist {
		r.hist = append(r.hist, ev)
	}
}

// pause is the callback of daemon.VerifSetPauseFn.
func (r *c27Run) pause(point string, who any) {
	r.mu.Lock()
	a := r.who[who]
	if a == nil {
		r.mu.Unlock()
		return
	}
	raw := r.rawSock()
	if point == "daemon:listened" {
		if _, named := r.sockNames[raw]; !named && raw != "-" {
			r.sockNames[raw] = "sock(" + a.name + ")"
		}
	}
	r.record(c27Ev{Actor: a.name, Kind: point, Sock: r.nameOf(raw)})
	a.point = point
	switch point {
	case "daemon:listened":
		a.hasListener = true
	case "daemon:serving":
		a.hasDB = true
	case "daemon:exited":
		a.hasListener, a.hasDB = false, false
	case "shell:before-spawn":
		r.staleGone = true
	}
	a.blocked = false
	if r.free || point == "daemon:listen-failed" || point == "daemon:exited" {
		a.state = c27Running
		r.bump()
		r.mu.Unlock()
		return
	}
	a.state = c27Parked
	g := make(chan struct{})
	a.gate = g
	r.bump()
	r.mu.Unlock()
	<-g
}

func (r *c27Run) spawnHook(argv []string, attr *os.ProcAttr) error {
	var db, sock string
	for i := 0; i+1 < len(argv); i++ {
		switch argv[i] {
		case "-db":
			db = argv[i+1]
		case "-sock":
			sock = argv[i+1]
		}
	}
	if db == "" || sock == "" {
		return fmt.Errorf("c27: spawn without -db/-sock: %v", argv)
	}
	by := "?"
	if attr != nil && len(attr.Files) > 1 && attr.Files[1] != nil {
		r.mu.Lock()
		if s, ok := r.spawnerOfRunDir[filepath.Dir(attr.Files[1].Name())]; ok {
			by = s
		}
		r.mu.Unlock()
	}
	r.startDaemon(sock, db, by)
	return nil
}

func (r *c27Run) startDaemon(sock, db, by string) *c27Actor {
	ready := make(chan struct{})
	opts := daemon.ServeOpts{Ready: ready}
	d := &c27Actor{daemon: true, state: c27Running, sig: make(chan os.Signal, 1)}
	opts.Signals = d.sig
	r.mu.Lock()
	d.name = fmt.Sprintf("D%d", len(r.daemons)+1)
	if r.c.Init == "live" {
		d.name = fmt.Sprintf("D%d", len(r.daemons))
	}
	r.daemons = append(r.daemons, d)
	r.who[any(opts.Ready)] = d
	r.record(c27Ev{Actor: d.name, Kind: "spawned", Note: "by " + by})
	r.bump()
	r.mu.Unlock()
	go func() {
		code := daemon.Serve(sock, db, opts)
		r.mu.Lock()
		d.state = c27Done
		d.blocked = false
		d.hasListener, d.hasDB = false, false
		r.record(c27Ev{Actor: d.name, Kind: "exit-status", Note: fmt.Sprint(code)})
		r.bump()
		r.mu.Unlock()
	}()
	return d
}

func c27ErrStr(err error) string {
	if err == nil {
		return ""
	}
	s := err.Error()
	if s == "" {
		s = "(empty error)"
	}
	return s
}

func (r *c27Run) shellLoop(a *c27Actor, slot int) {
	for c := range a.cmd {
		switch c {
		case "activate":
			r.mu.Lock()
			name := a.name
			runDir := filepath.Join(r.dir, "run-"+name)
			os.MkdirAll(runDir, 0o700)
			r.spawnerOfRunDir[runDir] = name
			cfg := &daemondefs.SpawnConfig{DbPath: r.db, SockPath: r.sock, RunDir: runDir}
			r.who[any(cfg)] = a
			r.record(c27Ev{Actor: name, Kind: "start"})
			r.mu.Unlock()
			cl, err := daemon.Activate(io.Discard, cfg)
			ev := c27Ev{Actor: name, Kind: "activate-return", Err: c27ErrStr(err)}
			if err == nil {
				if cl == nil {
					ev.VErr = "nil client"
					ev.OErr = "nil client"
				} else {
					_, verr := cl.Version()
					_, oerr := cl.NextCmdSeq()
					ev.VErr, ev.OErr = c27ErrStr(verr), c27ErrStr(oerr)
				}
			}
			r.mu.Lock()
			if a.cut && err != nil {
				ev.Note = "spawn wait cut short by the harness after the drain-phase polls"
			}
			a.cl = cl
			a.hasClient = cl != nil
			a.activated = err == nil && cl != nil
			r.record(ev)
			r.mu.Unlock()
		case "op":
			_, err := a.cl.AddCmd("c27 " + a.name)
			r.mu.Lock()
			r.record(c27Ev{Actor: a.name, Kind: "op", Err: c27ErrStr(err)})
			r.mu.Unlock()
		case "close":
			err := a.cl.Close()
			r.mu.Lock()
			r.record(c27Ev{Actor: a.name, Kind: "close", Note: c27ErrStr(err)})
			a.hasClient, a.activated, a.cl = false, false, nil
			r.mu.Unlock()
		}
		r.mu.Lock()
		a.state = c27Idle
		a.blocked = false
		a.point = ""
		r.bump()
		r.mu.Unlock()
	}
}

// ---- scheduler ------------------------------------------------------------------

func (r *c27Run) actors() []*c27Actor {
	return append(append([]*c27Actor(nil), r.shells...), r.daemons...)
}

// blockExpected says whether a released actor may legitimately sit in real I/O
// for an unbounded time (caller holds r.mu).
func (r *c27Run) blockExpected(a *c27Actor) bool {
	if !a.daemon {
		// An RPC to a daemon that holds a listener but is not in its serve loop.
		for _, d := range r.daemons {
			if d.hasListener && d.state != c27Auto && d.state != c27Done {
				return true
			}
		}
		return false
	}
	if a.point == "daemon:listened" {
		// Opening the database while another daemon holds bbolt's file lock.
		for _, d := range r.daemons {
			if d != a && d.hasDB {
				return true
			}
		}
	}
	return false
}

// settle waits until every released actor is parked, idle, finished or
// classified as blocked on I/O, and then for a quiet period. false = watchdog.
func (r *c27Run) settle(quiet time.Duration) bool {
	start := time.Now()
	last := start
	lastSeq := -1
	for {
		r.mu.Lock()
		seq := r.seq
		n, allExpected, anyAuto := 0, true, false
		for _, a := range r.actors() {
			if a.state == c27Auto {
				anyAuto = true
			}
			if a.state == c27Running && !a.blocked {
				n++
				if !r.blockExpected(a) {
					allExpected = false
				}
			}
		}
		now := time.Now()
		if seq != lastSeq {
			lastSeq, last = seq, now
		}
		if n > 0 && allExpected && now.Sub(last) >= c27BlockWait {
			for _, a := range r.actors() {
				if a.state == c27Running {
					a.blocked = true
				}
			}
			n = 0
			last = now
		}
		r.mu.Unlock()
		var wait time.Duration
		if n == 0 {
			// the quiet period only serves to let daemons in their serve loop react
			if !anyAuto || now.Sub(last) >= quiet {
				return true
			}
			wait = quiet - now.Sub(last)
		} else {
			if now.Sub(start) > c27Hard {
				r.inconclusive = "an actor neither parked nor finished within the hard watchdog"
				return false
			}
			wait = 5 * time.Millisecond
		}
		t := time.NewTimer(wait)
		select {
		case <-r.notify:
		case <-t.C:
		}
		t.Stop()
	}
}

type c27Move struct {
	kind string
	a    *c27Actor
}

// held says whether releasing the parked actor a is left out by Guard3
// (caller holds r.mu).
func (r *c27Run) held(a *c27Actor) bool {
	if !r.c.Guard3 || !a.daemon || a.point != "daemon:before-listen" {
		return false
	}
	for _, d := range r.daemons {
		if d != a && d.point == "daemon:socket-removed" && d.state != c27Done {
			r.guard3Hit = true
			return true
		}
	}
	return false
}

func (r *c27Run) moves(kind string) []c27Move {
	var out []c27Move
	switch kind {
	case "go":
		for _, a := range r.actors() {
			if a.state == c27Parked && !r.held(a) {
				out = append(out, c27Move{"go", a})
			}
		}
	case "start":
		guard := false
		if r.c.Guard && r.c.Init == "stale" && !r.staleGone {
			for _, s := range r.shells {
				if s.state != c27Idle {
					guard = true
				}
			}
		}
		for _, s := range r.shells {
			if s.state == c27Idle && !s.hasClient && s.lives < c27MaxLives {
				if guard {
					r.guardHit = true
					continue
				}
				out = append(out, c27Move{"start", s})
			}
		}
	case "op":
		for _, s := range r.shells {
			if s.state == c27Idle && s.hasClient && s.activated {
				out = append(out, c27Move{"op", s})
			}
		}
	case "close":
		for _, s := range r.shells {
			if s.state == c27Idle && s.hasClient {
				out = append(out, c27Move{"close", s})
			}
		}
	case "sig":
		// SIGTERM to a daemon in its serve loop (only used by fixed regression
		// schedules, never generated: it legitimately cuts off that daemon's clients)
		for _, d := range r.daemons {
			if d.state == c27Auto {
				out = append(out, c27Move{"sig", d})
			}
		}
	}
	return out
}

func (r *c27Run) release(a *c27Actor) {
	r.mu.Lock()
	if a.state != c27Parked {
		r.mu.Unlock()
		return
	}
	if a.daemon && a.point == "daemon:serving" {
		a.state = c27Auto
	} else {
		a.state = c27Running
	}
	if a.daemon && (a.point == "daemon:serving" || a.point == "daemon:before-remove-socket") {
		// actors blocked on this daemon (RPC not served yet, database lock) can move now
		for _, b := range r.actors() {
			b.blocked = false
		}
	}
	r.relCount++
	a.lastRel = r.relCount
	g := a.gate
	a.gate = nil
	r.seq++
	r.mu.Unlock()
	close(g)
}

func (r *c27Run) perform(m c27Move) bool {
	quiet := c27Quiet
	switch m.kind {
	case "go":
		if m.a.daemon && m.a.point == "daemon:serving" {
			quiet = c27QuietLong
		}
		r.release(m.a)
	case "start":
		r.mu.Lock()
		m.a.lives++
		if m.a.lives > 1 {
			m.a.name = strings.TrimSuffix(m.a.name, "r") + "r"
		}
		m.a.state = c27Running
		m.a.polls, m.a.cut = 0, false
		r.seq++
		r.mu.Unlock()
		m.a.cmd <- "activate"
	case "sig":
		r.mu.Lock()
		m.a.state = c27Running
		r.record(c27Ev{Actor: m.a.name, Kind: "signal", Note: "schedule"})
		r.seq++
		r.mu.Unlock()
		select {
		case m.a.sig <- syscall.SIGTERM:
		default:
		}
		quiet = c27QuietLong
	case "op", "close":
		r.mu.Lock()
		m.a.state = c27Running
		r.seq++
		r.mu.Unlock()
		m.a.cmd <- m.kind
		if m.kind == "close" {
			quiet = c27QuietLong
		}
	}
	return r.settle(quiet)
}

func (r *c27Run) step(st c27Step) bool {
	r.mu.Lock()
	ms := r.moves(st.K)
	if len(ms) == 0 {
		for _, k := range []string{"go", "start", "op", "close"} {
			ms = append(ms, r.moves(k)...)
		}
	}
	r.mu.Unlock()
	if len(ms) == 0 {
		return true
	}
	p := st.Pick
	if p < 0 {
		p = -p
	}
	return r.perform(ms[p%len(ms)])
}

// drain moves parked actors one at a time (least recently released first)
// until nothing is parked and nothing is running.
func (r *c27Run) drain() bool {
	for iter := 0; iter < 2000; iter++ {
		r.mu.Lock()
		var pick *c27Actor
		busy := false
		for _, a := range r.actors() {
			switch a.state {
			case c27Parked:
				if r.held(a) {
					continue
				}
				// daemons first (a shell would only block on a daemon that is not serving yet)
				if pick == nil || (a.daemon && !pick.daemon) || (a.daemon == pick.daemon && a.lastRel < pick.lastRel) {
					pick = a
				}
			case c27Running:
				busy = true
			}
		}
		if pick == nil && busy {
			for _, a := range r.actors() {
				a.blocked = false
			}
		}
		seq0 := r.seq
		cut := false
		if pick != nil && !pick.daemon && pick.point == "shell:poll" {
			pick.polls++
			cut = pick.polls > c27DrainPolls
			pick.cut = pick.cut || cut
		}
		r.mu.Unlock()
		if pick == nil {
			if !busy {
				return true
			}
			// Only blocked actors are left: they wait for real I/O (bbolt's 1 s
			// lock timeout) that needs no gate. Wait for a state change.
			if !r.waitChange(seq0) {
				return false
			}
			continue
		}
		if cut {
			// The shell has polled long enough with every other actor moving:
			// let its spawn wait expire ("daemon did not come up" is a legal error).
			daemon.VerifSetTimeouts(time.Nanosecond, time.Millisecond)
		}
		ok := r.perform(c27Move{"go", pick})
		if cut {
			daemon.VerifSetTimeouts(30*time.Second, time.Millisecond)
		}
		if !ok {
			return false
		}
	}
	r.inconclusive = "drain did not terminate"
	return false
}

func (r *c27Run) waitChange(seq int) bool {
	deadline := time.Now().Add(c27Hard)
	for time.Now().Before(deadline) {
		t := time.NewTimer(5 * time.Millisecond)
		select {
		case <-r.notify:
		case <-t.C:
		}
		t.Stop()
		r.mu.Lock()
		changed := r.seq != seq
		r.mu.Unlock()
		if changed {
			return r.settle(c27Quiet)
		}
	}
	r.inconclusive = "blocked actors made no progress within the hard watchdog"
	return false
}

// finish: drain, final store op + Close of every client, daemons exit.
func (r *c27Run) finish() bool {
	if !r.drain() {
		return false
	}
	for _, s := range r.shells {
		r.mu.Lock()
		has, act := s.hasClient, s.activated
		r.mu.Unlock()
		if !has {
			continue
		}
		if act && !r.perform(c27Move{"op", s}) {
			return false
		}
		if !r.perform(c27Move{"close", s}) || !r.drain() {
			return false
		}
	}
	// Daemons that never had a client do not exit by themselves.
	for _, d := range r.daemons {
		r.mu.Lock()
		alive := d.state != c27Done
		if alive {
			r.record(c27Ev{Actor: d.name, Kind: "signal", Note: "cleanup"})
		}
		r.mu.Unlock()
		if !alive {
			continue
		}
		select {
		case d.sig <- syscall.SIGTERM:
		default:
		}
		deadline := time.Now().Add(c27Hard)
		for {
			r.mu.Lock()
			st := d.state
			r.mu.Unlock()
			if st == c27Parked {
				if !r.drain() {
					return false
				}
				continue
			}
			if st == c27Done {
				break
			}
			if time.Now().After(deadline) {
				r.inconclusive = "daemon did not exit after the cleanup signal"
				return false
			}
			time.Sleep(200 * time.Microsecond)
		}
	}
	return true
}

// abandon is the best-effort cleanup after a watchdog expiry.
func (r *c27Run) abandon() {
	r.mu.Lock()
	r.free = true
	var gates []chan struct{}
	for _, a := range r.actors() {
		if a.state == c27Parked {
			a.state = c27Running
			gates = append(gates, a.gate)
			a.gate = nil
		}
	}
	r.mu.Unlock()
	daemon.VerifSetTimeouts(time.Nanosecond, time.Millisecond)
	for _, g := range gates {
		close(g)
	}
	deadline := time.Now().Add(4 * time.Second)
	for time.Now().Before(deadline) {
		r.mu.Lock()
		left := 0
		for _, d := range r.daemons {
			if d.state != c27Done {
				left++
				select {
				case d.sig <- syscall.SIGTERM:
				default:
				}
			}
		}
		for _, s := range r.shells {
			if s.state != c27Idle {
				left++
			} else if s.hasClient {
				left++
				s.state = c27Running
				select {
				case s.cmd <- "close":
				default:
					s.state = c27Idle
				}
			}
		}
		r.mu.Unlock()
		if left == 0 {
			break
		}
		time.Sleep(2 * time.Millisecond)
	}
	daemon.VerifSetTimeouts(30*time.Second, time.Millisecond)
	if time.Now().Before(deadline) {
		return
	}
	// Every gate is open, every daemon has its termination signal, every client
	// is being closed, and still some shell is inside Activate or some daemon
	// has not exited. Slow, or stuck for good? Stuck = all goroutines of the
	// daemon / rpc code wait on channels, locks or idle sockets, in the same
	// place, in two dumps taken 3 s apart.
	sig1, b1, _ := blockedGoroutines("src.elv.sh/pkg/daemon", "src.elv.sh/pkg/rpc")
	time.Sleep(3 * time.Second)
	sig2, b2, dump := blockedGoroutines("src.elv.sh/pkg/daemon", "src.elv.sh/pkg/rpc")
	if b1 && b2 && sig1 == sig2 {
		r.mu.Lock()
		var stuck []string
		for _, d := range r.daemons {
			if d.state != c27Done {
				stuck = append(stuck, d.name+" (daemon has not exited)")
			}
		}
		for _, s := range r.shells {
			if s.state != c27Idle {
				stuck = append(stuck, s.name+" (shell has not returned from Activate / its store call)")
			}
		}
		r.mu.Unlock()
		if len(stuck) > 0 {
			r.deadlock = fmt.Sprintf("%s: with every pause gate open, the termination signal sent to every daemon and every client closed, all goroutines of the daemon and rpc code are blocked in the same place 4 s and 7 s later\n%s", strings.Join(stuck, ", "), dump)
		}
	}
}

func c27TempDir() (string, error) {
	if fi, err := os.Stat("/dev/shm"); err == nil && fi.IsDir() {
		if d, err := os.MkdirTemp("/dev/shm", "verif-c27-"); err == nil {
			return d, nil
		}
	}
	return os.MkdirTemp("", "verif-c27-")
}

// c27Exec runs the schedule and returns the recorded history.
var c27Deadlock string // result of the last c27Exec

func c27Exec(c c27Case) (hist []c27Ev, guardHit bool, inconclusive string, err error) {
	c27Deadlock = ""
	if c.Shells < 1 || c.Shells > 3 {
		return nil, false, "", fmt.Errorf("bad case: shells=%d", c.Shells)
	}
	c27InstallHooks()
	dir, err := c27TempDir()
	if err != nil {
		return nil, false, "", err
	}
	defer os.RemoveAll(dir)
	r := &c27Run{c: c, dir: dir, sock: filepath.Join(dir, "sock"), db: filepath.Join(dir, "db"),
		notify: make(chan struct{}, 1), who: map[any]*c27Actor{}, sockNames: map[string]string{},
		spawnerOfRunDir: map[string]string{}}
	daemon.VerifSetTimeouts(30*time.Second, time.Millisecond)
	c27Cur.Store(r)
	defer c27Cur.Store(nil)

	for i := 0; i < c.Shells; i++ {
		s := &c27Actor{name: fmt.Sprintf("S%d", i+1), state: c27Idle, cmd: make(chan string, 1)}
		r.shells = append(r.shells, s)
		go r.shellLoop(s, i)
	}
	defer func() {
		for _, s := range r.shells {
			close(s.cmd)
		}
	}()

	ok := true
	switch c.Init {
	case "fresh":
	case "stale":
		l, lerr := net.ListenUnix("unix", &net.UnixAddr{Name: r.sock, Net: "unix"})
		if lerr != nil {
			return nil, false, "", lerr
		}
		l.SetUnlinkOnClose(false)
		l.Close()
		r.mu.Lock()
		r.sockNames[r.rawSock()] = "sock(stale)"
		r.record(c27Ev{Actor: "init", Kind: "stale-socket"})
		r.mu.Unlock()
	case "live":
		d := r.startDaemon(r.sock, r.db, "init")
		for ok {
			if ok = r.settle(c27Quiet); !ok {
				break
			}
			r.mu.Lock()
			st := d.state
			r.mu.Unlock()
			if st != c27Parked {
				break
			}
			r.release(d)
		}
		r.mu.Lock()
		if ok && d.state != c27Auto {
			r.inconclusive = "initial daemon did not reach its serve loop"
			ok = false
		}
		r.mu.Unlock()
	default:
		return nil, false, "", fmt.Errorf("bad case: init=%q", c.Init)
	}

	for _, st := range c.Steps {
		if !ok {
			break
		}
		ok = r.step(st)
	}
	if ok {
		ok = r.finish()
	}
	if !ok {
		r.abandon()
	}
	r.mu.Lock()
	defer r.mu.Unlock()
	hist = append([]c27Ev(nil), r.hist...)
	if !ok && r.inconclusive == "" {
		r.inconclusive = "watchdog"
	}
	c27Guard3Hit = r.guard3Hit
	c27Deadlock = r.deadlock
	return hist, r.guardHit, r.inconclusive, nil
}

// ---- oracle ---------------------------------------------------------------------

type c27Viol struct {
	Inv int
	At  int
	Msg string
}

// c27Eval checks the four sentences of the statement over a recorded history.
//
//	1 every Activate ends with an error, or with a client on which Version and a
//	  store op succeed right away;
//	2 never two daemons between a successful Listen and the end of their serve
//	  loop for the same socket path (both hold a listener for the path then);
//	3 every store op on an activated, unclosed client succeeds;
//	4 a daemon's exit removes no socket file it did not create.
func c27Eval(hist []c27Ev) (viols []c27Viol, notes map[int]string) {
	notes = map[int]string{}
	created := map[string]string{}
	pre := map[string]string{}
	var live []string
	prevSock := ""
	drop := func(name string) {
		for i, l := range live {
			if l == name {
				live = append(live[:i:i], live[i+1:]...)
				return
			}
		}
	}
	for i, e := range hist {
		removedForeign := false
		switch e.Kind {
		case "daemon:listened":
			if len(live) > 0 {
				viols = append(viols, c27Viol{2, i, fmt.Sprintf("daemon %s listened successfully on the socket path while %s still serves it (two live daemons for one socket/database)", e.Actor, strings.Join(live, ","))})
			}
			live = append(live, e.Actor)
			created[e.Actor] = e.Sock
		case "daemon:before-remove-socket":
			drop(e.Actor)
			pre[e.Actor] = e.Sock
		case "daemon:exited", "exit-status":
			if p, ok := pre[e.Actor]; ok && e.Kind == "daemon:exited" {
				if p != "-" && p != created[e.Actor] && e.Sock != p {
					viols = append(viols, c27Viol{4, i, fmt.Sprintf("daemon %s created %s, found %s at the socket path when exiting, and removed it (path now %s)", e.Actor, created[e.Actor], p, e.Sock)})
					removedForeign = true
				}
			}
			drop(e.Actor)
		case "activate-return":
			if e.Err == "" && (e.VErr != "" || e.OErr != "") {
				viols = append(viols, c27Viol{1, i, fmt.Sprintf("Activate of %s returned no error, but right after it Version() error=%q, NextCmdSeq() error=%q (not connected to a live daemon that owns the database)", e.Actor, e.VErr, e.OErr)})
			}
		case "op":
			if e.Err != "" {
				viols = append(viols, c27Viol{3, i, fmt.Sprintf("store op on the activated, unclosed client of %s failed: %q (no daemon keeps serving it)", e.Actor, e.Err)})
			}
		}
		for _, l := range live {
			if l == e.Actor || created[l] == e.Sock || prevSock != created[l] {
				continue
			}
			// The socket of a live daemon vanished during this actor's step.
			notes[i] = fmt.Sprintf("socket of live daemon %s is gone", l)
			if strings.HasPrefix(e.Actor, "D") && !removedForeign {
				viols = append(viols, c27Viol{4, i, fmt.Sprintf("daemon %s (%s) removed %s, the socket of live daemon %s, which it did not create (path now %s)", e.Actor, e.Kind, created[l], l, e.Sock)})
			}
		}
		prevSock = e.Sock
	}
	return viols, notes
}

func c27HistText(hist []c27Ev, notes map[int]string) string {
	var sb strings.Builder
	for i, e := range hist {
		fmt.Fprintf(&sb, "  %3d %-4s %-28s path=%s", i, e.Actor, e.Kind, e.Sock)
		if e.Kind == "activate-return" {
			if e.Err == "" {
				fmt.Fprintf(&sb, " ok version-err=%q op-err=%q", e.VErr, e.OErr)
			} else {
				fmt.Fprintf(&sb, " err=%q", e.Err)
			}
		} else if e.Err != "" {
			fmt.Fprintf(&sb, " err=%q", e.Err)
		}
		if e.Note != "" {
			fmt.Fprintf(&sb, " (%s)", e.Note)
		}
		if n := notes[i]; n != "" {
			fmt.Fprintf(&sb, "  <-- %s", n)
		}
		sb.WriteByte('\n')
	}
	return sb.String()
}

// ---- classes --------------------------------------------------------------------

func c27Classify(c c27Case, hist []c27Ev) (string, bool) {
	var nListened, nListenFail, nOK, nErr, nStaleRm, nSpawn, nClose int
	for _, e := range hist {
		switch e.Kind {
		case "daemon:listened":
			nListened++
		case "daemon:listen-failed":
			nListenFail++
		case "activate-return":
			if e.Err == "" {
				nOK++
			} else {
				nErr++
			}
		case "shell:before-remove-stale":
			nStaleRm++
		case "spawned":
			nSpawn++
		case "close":
			nClose++
		}
	}
	label := ""
	switch {
	case nOK+nErr == 0:
		return c.Init + "/no-activation", false
	case nListenFail > 0 && nErr > 0:
		label = "concurrent-spawn+activate-error"
	case nListenFail > 0:
		label = "concurrent-spawn-listen-fails"
	case nErr > 0:
		label = "activate-error(exit-race)"
	case nListened >= 2:
		label = "daemon-succession"
	case nStaleRm > 0:
		label = "stale-removed"
	case nOK >= 2:
		label = "shared-daemon"
	default:
		label = "single"
	}
	return c.Init + "/" + label, true
}

// ---- check ----------------------------------------------------------------------

type c27Result struct {
	key   string
	class string
	nt    bool
	err   error
}

var c27Last c27Result

// c27Guard3Hit is set by the last c27Exec (cases run one at a time).
var c27Guard3Hit bool

func c27RunCase(c c27Case) c27Result {
	raw, _ := json.Marshal(c)
	key := string(raw)
	if c27Last.key == key && c27Last.key != "" {
		res := c27Last
		c27Last = c27Result{}
		return res
	}
	res := c27Result{key: key}
	hist, guardHit, inconclusive, err := c27Exec(c)
	if err != nil {
		res.class, res.nt = c.Init+"/setup-error", false
		res.err = fmt.Errorf("C27 harness setup failed: %v", err)
		return res
	}
	res.class, res.nt = c27Classify(c, hist)
	if guardHit {
		vs.Excluded("stale socket: a second shell's start was deferred until the first one removed it (open finding " + c27KeyStale + ")")
	}
	if c27Guard3Hit {
		vs.Excluded("a daemon's Listen was deferred while another daemon was between removing its socket and closing its listener (open finding " + c27KeyUnlink + ")")
	}
	if c27Deadlock != "" && (c.Only == 0 || c.Only == 1) {
		_, notes := c27Eval(hist)
		res.err = fmt.Errorf("C27 sentence 1 violated: activation / the daemon never ends: %s\nrecorded history (actor, step, file at the socket path after it):\n%s", c27Deadlock, c27HistText(hist, notes))
		res.class = c.Init + "/deadlock"
		return res
	}
	if inconclusive != "" {
		vs.Excluded("inconclusive: " + inconclusive)
		res.class = c.Init + "/inconclusive"
		return res
	}
	viols, notes := c27Eval(hist)
	var sel []c27Viol
	for _, v := range viols {
		if c.Only == 0 || c.Only == v.Inv {
			sel = append(sel, v)
		}
	}
	if len(sel) > 0 {
		var sb strings.Builder
		fmt.Fprintf(&sb, "C27 sentence %d violated at event %d: %s [init=%s shells=%d]\n", sel[0].Inv, sel[0].At, sel[0].Msg, c.Init, c.Shells)
		for _, v := range sel[1:] {
			fmt.Fprintf(&sb, "also sentence %d at event %d: %s\n", v.Inv, v.At, v.Msg)
		}
		sb.WriteString("recorded history (actor, step, file at the socket path after it):\n")
		sb.WriteString(c27HistText(hist, notes))
		res.err = errors.New(sb.String())
	}
	return res
}

func c27Gen(t *rapid.T) c27Case {
	c := c27Case{
		Init:   rapid.SampledFrom([]string{"fresh", "fresh", "stale", "stale", "live"}).Draw(t, "init"),
		Shells: rapid.SampledFrom([]int{1, 2, 2, 2, 3, 3}).Draw(t, "shells"),
	}
	kinds := []string{"go", "go", "go", "go", "go", "go", "start", "start", "start", "op", "close", "close"}
	n := rapid.IntRange(6, 36).Draw(t, "nsteps")
	for i := 0; i < n; i++ {
		c.Steps = append(c.Steps, c27Step{K: rapid.SampledFrom(kinds).Draw(t, "k"), Pick: rapid.IntRange(0, 5).Draw(t, "pick")})
	}
	c.Guard = c.Init == "stale" && vs.KnownOpen(c27KeyStale)
	c.Guard3 = vs.KnownOpen(c27KeyUnlink)
	return c
}

// c27StaleRace is the schedule of the open findings: two shells see the same
// stale socket; S1 replaces it by daemon D1; S2 then removes D1's socket and
// spawns D2, which listens successfully; S1 exits and D1's exit removes D2's
// socket.
var c27StaleRace = []c27Step{
	{"start", 0}, // S1: detect -> connection refused
	{"start", 0}, // S2: detect -> connection refused
	{"go", 0},    // S1 -> before-remove-stale
	{"go", 0},    // S1 removes the stale socket -> before-spawn
	{"go", 0},    // S1 spawns D1 -> poll
	{"go", 2},    // D1 listens
	{"go", 2},    // D1 opens the database
	{"go", 2},    // D1 serves
	{"go", 0},    // S1 polls: connected, Activate returns
	{"go", 0},    // S2 -> before-remove-stale
	{"go", 0},    // S2 removes D1's socket -> before-spawn
	{"go", 0},    // S2 spawns D2 -> poll
	{"go", 1},    // D2 listens successfully: two live daemons
	{"close", 0}, // S1 exits; D1 leaves its loop
	{"go", 1},    // D1 removes D2's socket and exits
}

// c27UnlinkRace: two shells of a fresh start both spawn; D1 serves S1, S1 exits,
// D1 removes its socket and is held before closing its listener (this needs
// the pause point "daemon:socket-removed"); D2 listens on the free path; D1's
// listener.Close() then unlinks the path a second time: D2's socket. Without
// that pause point D1 runs through and the case holds trivially.
var c27UnlinkRace = []c27Step{
	{"start", 0}, // S1: socket missing
	{"start", 0}, // S2: socket missing
	{"go", 0},    // S1 -> before-spawn
	{"go", 0},    // S1 spawns D1 -> poll
	{"go", 1},    // S2 -> before-spawn
	{"go", 1},    // S2 spawns D2 -> poll
	{"go", 2},    // D1 listens
	{"go", 2},    // D1 opens the database
	{"go", 2},    // D1 serves
	{"go", 0},    // S1 polls: connected
	{"close", 0}, // S1 exits; D1 leaves its loop
	{"go", 1},    // D1 removes its socket (-> socket-removed, if that pause point exists; else exits)
	{"go", 2},    // D2 listens on the free path (without the pause point: pick 2 mod 2 = S2 polls)
	{"go", 1},    // D1 closes its listener: second unlink
}

// c27LateIdentityRace: like c27StaleRace, but S2 replaces D1's socket while D1
// is between Listen and opening the database; D1 later gets SIGTERM while D2
// is live. D1 must know which socket file is its own from the moment it
// listened, and must leave D2's socket alone (regression schedule for
// "removes only the socket it created"; only sentence 4 decides).
var c27LateIdentityRace = []c27Step{
	{"start", 0}, // S1: detect -> connection refused
	{"start", 0}, // S2: detect -> connection refused
	{"go", 0},    // S1 -> before-remove-stale
	{"go", 0},    // S1 removes the stale socket -> before-spawn
	{"go", 0},    // S1 spawns D1 -> poll
	{"go", 2},    // D1 listens, parked before opening the database
	{"go", 1},    // S2 -> before-remove-stale
	{"go", 1},    // S2 removes D1's socket -> before-spawn
	{"go", 1},    // S2 spawns D2 -> poll
	{"go", 3},    // D2 listens on the free path, parked before opening the database
	{"go", 2},    // D1 opens the database
	{"go", 2},    // D1 serves (nobody can reach it)
	{"sig", 0},   // SIGTERM to D1 -> before-remove-socket
	{"go", 2},    // D1's removal step: must not remove D2's socket
}

func init() {
	vs.Register(vs.Prop[c27Case]{
		Name: "C27/schedules",
		Rule: "initial state {fresh, stale socket file of a crashed daemon, live daemon} x 1-3 shell slots (each may exit and start again once) x a schedule of 3-26 moves; a move releases ONE actor parked at a protocol gate of the real Activate/Serve code (shell: detected, before-remove-stale, before-spawn, poll; daemon: before-listen, listened, serving, before-remove-socket) or makes an idle shell start Activate / do a store op / Close its client; afterwards all actors are drained one at a time, every client does a last store op and closes, daemons must exit. Oracle: the 4 sentences of the statement as invariants over the recorded event history. non-trivial = at least one Activate returned; classes name what the schedule produced (two spawns with one Listen failing, Activate error from a daemon exit race, succession of daemons, stale socket removed, shared daemon)",
		Gen:  c27Gen,
		Check: func(c c27Case) error {
			return c27RunCase(c).err
		},
		Class: func(c c27Case) (string, bool) {
			res := c27RunCase(c)
			c27Last = res
			return res.class, res.nt
		},
		Quick: 120, Thorough: 2000,
		Timeout: 90 * time.Second,
		Known: []vs.Known[c27Case]{
			{Key: c27KeyStale, Case: c27Case{Init: "stale", Shells: 2, Steps: c27StaleRace}},
			{Key: c27KeyExit, Case: c27Case{Init: "stale", Shells: 2, Steps: c27StaleRace, Only: 4}},
			{Key: c27KeyExit, Case: c27Case{Init: "stale", Shells: 2, Steps: c27LateIdentityRace, Only: 4}},
			{Key: c27KeyUnlink, Case: c27Case{Init: "fresh", Shells: 2, Steps: c27UnlinkRace}},
		},
	})
}
