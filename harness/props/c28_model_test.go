package props

// Reference model for C28, written from the documentation only:
//
//   - pkg/edit/buffer_builtins.d.elv (what every command does),
//   - website/ref/edit.md "Word types" (whitespace = Unicode White_Space,
//     alphanumerical = Unicode Letter or Number; big word / small word /
//     alphanumerical word),
//   - pkg/edit/insert_api.d.elv (simple, command and small-word abbreviations).
//
// It works on rune arrays and rune indices and uses a hand-assigned table of
// categories and display widths for the generated alphabet, so it shares no
// code (and no Unicode-table lookups) with the implementation.

import (
	"sort"
	"strings"
	"unicode"
	"unicode/utf8"
)

type c28Atom struct {
	r   rune
	cat int // 0 whitespace, 1 alphanumerical, 2 other
	w   int // display width
}

var c28Alphabet = []c28Atom{
	// alphanumerical
	{'a', 1, 1}, {'b', 1, 1}, {'c', 1, 1}, {'d', 1, 1}, {'e', 1, 1}, {'g', 1, 1}, {'l', 1, 1}, {'m', 1, 1}, {'n', 1, 1}, {'x', 1, 1},
	{'Z', 1, 1}, {'0', 1, 1}, {'9', 1, 1},
	{'\u00E9', 1, 1}, // é
	{'\u4E16', 1, 2}, // 世
	{'\uFF76', 1, 1}, // halfwidth katakana KA (Lo)
	{'\u0663', 1, 1}, // ARABIC-INDIC DIGIT THREE (Nd)
	{'\u00B2', 1, 1}, // SUPERSCRIPT TWO (No)
	{'\u2167', 1, 1}, // ROMAN NUMERAL EIGHT (Nl)
	// whitespace (White_Space property)
	{' ', 0, 1}, {'\t', 0, 0}, {'\n', 0, 0}, {'\u00A0', 0, 1}, {'\u3000', 0, 2}, {'\u2003', 0, 1}, {'\u0085', 0, 0},
	// everything else
	{'~', 2, 1}, {'/', 2, 1}, {'-', 2, 1}, {'_', 2, 1}, {'.', 2, 1}, {'|', 2, 1}, {'>', 2, 1}, {';', 2, 1}, {'$', 2, 1}, {'(', 2, 1}, {'^', 2, 1}, {'{', 2, 1},
	{'\u0301', 2, 0},     // COMBINING ACUTE ACCENT (Mn)
	{'\u200B', 2, 0},     // ZERO WIDTH SPACE (Cf, not White_Space)
	{'\U0001F600', 2, 2}, // emoji (So)
	{'\uFF01', 2, 2},     // FULLWIDTH EXCLAMATION MARK (Po)
	{'\uFFFD', 2, 1},     // REPLACEMENT CHARACTER (So)
	{'\u20AC', 2, 1},     // EURO SIGN (Sc)
}

var c28Table = func() map[rune]c28Atom {
	m := map[rune]c28Atom{}
	for _, a := range c28Alphabet {
		m[a.r] = a
	}
	return m
}()

// c28RawCat returns the three-way category of a rune: the table for the
// generated alphabet; for anything else (abbreviation expansions, arbitrary
// replayed input) the Unicode properties named in the documentation.
func c28RawCat(r rune) int {
	if a, ok := c28Table[r]; ok {
		return a.cat
	}
	switch {
	case unicode.Is(unicode.White_Space, r):
		return 0
	case unicode.In(r, unicode.L, unicode.N):
		return 1
	}
	return 2
}

// Word flavors.
const (
	c28Big   = 0 // whitespace / non-whitespace
	c28Small = 1 // whitespace / alphanumerical / other
	c28Alnum = 2 // alphanumerical / everything else counts as whitespace
)

func c28Cat(flavor int, r rune) int {
	c := c28RawCat(r)
	switch flavor {
	case c28Big:
		if c == 0 {
			return 0
		}
		return 1
	case c28Alnum:
		if c == 1 {
			return 1
		}
		return 0
	}
	return c
}

// c28IsWordStart: position i starts a word iff the rune at i is in a
// non-whitespace category and the rune before it (if any) is in a different
// category ("a word is a run of runes in the same non-whitespace category").
func c28IsWordStart(rs []rune, i, flavor int) bool {
	if i < 0 || i >= len(rs) {
		return false
	}
	c := c28Cat(flavor, rs[i])
	return c != 0 && (i == 0 || c28Cat(flavor, rs[i-1]) != c)
}

// "Moves the dot to the beginning of the last word to the left of the dot."
func c28LeftWord(rs []rune, d, flavor int) int {
	for j := d - 1; j >= 0; j-- {
		if c28IsWordStart(rs, j, flavor) {
			return j
		}
	}
	return 0
}

// "Moves the dot to the beginning of the first word to the right of the dot."
func c28RightWord(rs []rune, d, flavor int) int {
	for j := d + 1; j < len(rs); j++ {
		if c28IsWordStart(rs, j, flavor) {
			return j
		}
	}
	return len(rs)
}

func c28SOL(rs []rune, d int) int {
	for d > 0 && rs[d-1] != '\n' {
		d--
	}
	return d
}

func c28EOL(rs []rune, d int) int {
	for d < len(rs) && rs[d] != '\n' {
		d++
	}
	return d
}

func c28RuneWidth(r rune) (int, bool) {
	a, ok := c28Table[r]
	return a.w, ok
}

// c28Width returns the display width of rs, false if a rune is outside the
// alphabet (then the model does not know).
func c28Width(rs []rune) (int, bool) {
	w := 0
	for _, r := range rs {
		x, ok := c28RuneWidth(r)
		if !ok {
			return 0, false
		}
		w += x
	}
	return w, true
}

// c28Vertical returns the acceptable dot positions for move-dot-up (dir -1) /
// move-dot-down (dir +1): "Moves the dot up one line, trying to preserve the
// visual horizontal position. Does nothing if dot is already on the first
// line". The target column is the widest prefix of the other line that is not
// wider than the current column; positions that differ only by zero-width
// characters show the same column and are all accepted. ok=false: unknown
// widths.
func c28Vertical(rs []rune, d, dir int) (acceptable map[int]bool, ok bool) {
	sol, eol := c28SOL(rs, d), c28EOL(rs, d)
	var from, to int // the other line is rs[from:to]
	if dir < 0 {
		if sol == 0 {
			return map[int]bool{d: true}, true
		}
		to = sol - 1
		from = c28SOL(rs, to)
	} else {
		if eol == len(rs) {
			return map[int]bool{d: true}, true
		}
		from = eol + 1
		to = c28EOL(rs, from)
	}
	col, ok := c28Width(rs[sol:d])
	if !ok {
		return nil, false
	}
	best := 0
	widths := make([]int, 0, to-from+1)
	for p := from; p <= to; p++ {
		w, ok := c28Width(rs[from:p])
		if !ok {
			return nil, false
		}
		widths = append(widths, w)
		if w <= col && w > best {
			best = w
		}
	}
	acceptable = map[int]bool{}
	for i, w := range widths {
		if w == best {
			acceptable[from+i] = true
		}
	}
	return acceptable, true
}

type c28Word struct{ from, to int }

// c28Words lists the words (maximal runs in one non-whitespace category).
func c28Words(rs []rune, flavor int) []c28Word {
	var out []c28Word
	for i := 0; i < len(rs); i++ {
		if c28IsWordStart(rs, i, flavor) {
			j := i + 1
			for j < len(rs) && c28Cat(flavor, rs[j]) == c28Cat(flavor, rs[i]) {
				j++
			}
			out = append(out, c28Word{i, j})
			i = j - 1
		}
	}
	return out
}

func c28SwapWords(rs []rune, a, b c28Word) []rune {
	var out []rune
	out = append(out, rs[:a.from]...)
	out = append(out, rs[b.from:b.to]...)
	out = append(out, rs[a.to:b.from]...)
	out = append(out, rs[a.from:a.to]...)
	out = append(out, rs[b.to:]...)
	return out
}

// c28TransposeWord returns the documented result where the documentation is
// explicit: "Swaps the words to the left and right of the dot. If the dot is at
// the beginning of the buffer, swaps the first two words, and [if] the dot is
// at the end, it swaps the last two." known=false where the documentation does
// not say (dot inside a word, no word on one side).
func c28TransposeWord(rs []rune, d, flavor int) (want []rune, known bool) {
	ws := c28Words(rs, flavor)
	if len(ws) < 2 {
		return rs, true // nothing to swap
	}
	switch {
	case d == 0:
		return c28SwapWords(rs, ws[0], ws[1]), true
	case d == len(rs):
		return c28SwapWords(rs, ws[len(ws)-2], ws[len(ws)-1]), true
	}
	for i := 0; i+1 < len(ws); i++ {
		if ws[i].to <= d && d <= ws[i+1].from {
			return c28SwapWords(rs, ws[i], ws[i+1]), true
		}
	}
	return nil, false
}

// c28TransposeRune: "Swaps the runes to the left and right of the dot. If the
// dot is at the beginning of the buffer, swaps the first two runes, and if the
// dot is at the end, it swaps the last two."
func c28TransposeRune(rs []rune, d int) []rune {
	out := append([]rune(nil), rs...)
	if len(rs) < 2 {
		return out
	}
	i := d
	switch {
	case d == 0:
		i = 1
	case d == len(rs):
		i = len(rs) - 1
	}
	out[i-1], out[i] = out[i], out[i-1]
	return out
}

func c28SortedRunes(s string) string {
	rs := []rune(s)
	sort.Slice(rs, func(i, j int) bool { return rs[i] < rs[j] })
	return string(rs)
}

// ---- abbreviations ---------------------------------------------------------------

type c28Abbrs struct {
	Simple, Command, SmallWord map[string]string
}

var c28Configs = []c28Abbrs{
	{
		Simple:    map[string]string{"||": "| less", ">dn": "2>/dev/null", "xx": "世界", "axx": "AXX", "eé": "E", "lll": "LLL"},
		Command:   map[string]string{"l": "less", "gc": "git commit", "ll": "ls -l", "é": "echo"},
		SmallWord: map[string]string{"gcm": "git checkout master", ">dn": " 2>/dev/null", "dn": "DN", "ll": "ls -ltr", "l": "L", "cm": "C M", ">": "GT"},
	},
	{
		Simple:    map[string]string{"a": "A\nB", ";;": ""},
		Command:   map[string]string{"x": "exé", "a-b": "AB"},
		SmallWord: map[string]string{"世": "world", "--": "—", "x": "y z"},
	},
	{}, // no abbreviations at all
}

type c28Outcome struct {
	content string
	dot     int    // byte offset
	typed   string // text typed consecutively so far after this key ("" after an expansion)
	plain   bool   // no abbreviation was expanded
	why     string
}

func c28LongestSuffix(m map[string]string, s string, ok func(a string) bool) (abbr string) {
	for a := range m {
		if a != "" && strings.HasSuffix(s, a) && len(a) > len(abbr) && (ok == nil || ok(a)) {
			abbr = a
		}
	}
	return abbr
}

// c28InsertOutcomes lists every result the documentation allows for typing
// the graphic rune r into (content, dot) when the text typed consecutively
// before it is typed.
func c28InsertOutcomes(cfg c28Abbrs, content string, dot int, r rune, typed string) []c28Outcome {
	rs := string(r)
	c1 := content[:dot] + rs + content[dot:]
	d1 := dot + len(rs)
	t1 := typed + rs
	atEnd := d1 == len(c1)

	var nonCmd []c28Outcome
	if a := c28LongestSuffix(cfg.Simple, t1, nil); a != "" && strings.HasSuffix(c1[:d1], a) {
		// "An abbreviation is replaced by its expansion when it is typed in full
		// and consecutively"; the longest one wins.
		full := cfg.Simple[a]
		nonCmd = append(nonCmd, c28Outcome{c1[:d1-len(a)] + full + c1[d1:], d1 - len(a) + len(full), "", false, "simple abbreviation " + a})
	} else {
		sw := ""
		if atEnd && typed != "" {
			// typed in full and consecutively and followed by the trigger r;
			// last rune of the abbreviation and trigger in different small-word
			// categories; rune before the abbreviation (if any) in a different
			// category from its first rune; cursor at the end of the buffer.
			sw = c28LongestSuffix(cfg.SmallWord, typed, func(a string) bool {
				last, _ := utf8.DecodeLastRuneInString(a)
				if c28Cat(c28Small, last) == c28Cat(c28Small, r) {
					return false
				}
				before := c1[:len(c1)-len(rs)-len(a)]
				if !strings.HasSuffix(c1[:len(c1)-len(rs)], a) {
					return false
				}
				if before != "" {
					prev, _ := utf8.DecodeLastRuneInString(before)
					first, _ := utf8.DecodeRuneInString(a)
					if c28Cat(c28Small, prev) == c28Cat(c28Small, first) {
						return false
					}
				}
				return true
			})
		}
		if sw != "" {
			full := cfg.SmallWord[sw]
			nc := c1[:len(c1)-len(rs)-len(sw)] + full + rs
			nonCmd = append(nonCmd, c28Outcome{nc, len(nc), "", false, "small-word abbreviation " + sw})
		} else {
			nonCmd = append(nonCmd, c28Outcome{c1, d1, t1, true, "plain insert"})
		}
	}

	if r != ' ' || len(cfg.Command) == 0 {
		return nonCmd
	}
	// Command abbreviations: "replaced by its expansion when seen in the command
	// position followed by a whitespace".
	before := content[:dot]
	w := before[len(strings.TrimRightFunc(before, func(r rune) bool { return c28RawCat(r) != 0 })):] // maximal non-whitespace suffix
	var must, may []c28Outcome
	for a, exp := range cfg.Command {
		if a == "" || !strings.HasSuffix(w, a) {
			continue
		}
		o := c28Outcome{before[:len(before)-len(a)] + exp + " " + content[dot:], len(before) - len(a) + len(exp) + 1, "", false, "command abbreviation " + a}
		pre := w[:len(w)-len(a)]
		status := "may"
		if pre == "" {
			p := before[:len(before)-len(w)]
			q := strings.TrimRight(p, " \t")
			switch {
			case strings.TrimFunc(p, func(r rune) bool { return r == ' ' || r == '\t' || r == '\n' }) == "":
				status = "must" // nothing but blanks before the command
			case strings.HasSuffix(q, "|") || strings.HasSuffix(q, ";") || strings.HasSuffix(q, "("):
				status = "must"
			case q != "":
				last, _ := utf8.DecodeLastRuneInString(q)
				if c28RawCat(last) == 1 {
					status = "mustnot" // an argument of another command
				}
			}
		} else {
			last, _ := utf8.DecodeLastRuneInString(pre)
			if c28RawCat(last) == 1 {
				status = "mustnot" // only the tail of a longer bareword
			}
		}
		if status == "must" && !atEnd {
			status = "may" // the documentation does not say what happens inside the buffer
		}
		switch status {
		case "must":
			must = append(must, o)
		case "may":
			may = append(may, o)
		}
	}
	var out []c28Outcome
	if len(must) > 0 {
		out = append(out, must...)
		for _, o := range nonCmd {
			if !o.plain { // priority between abbreviation kinds is not documented
				out = append(out, o)
			}
		}
		return append(out, may...)
	}
	return append(append(out, nonCmd...), may...)
}
