package props

// C28 Editor buffer commands keep the cursor valid and edit exactly.
//
// Sub-checks (the reference model is in c28_model_test.go):
//   C28/builtins  one (buffer, dot, command) per case, for every command of
//                 edit.VerifBufferBuiltins(). Oracle: dot within the buffer and
//                 on a rune boundary, content valid UTF-8; moves equal the
//                 model (rune/line moves, declarative word motions under the
//                 documented categories, vertical moves by display column);
//                 kills delete exactly the text between the old dot and the
//                 dot of the matching move (both the model's and the real
//                 move's); transposes keep the rune multiset and equal the
//                 documented swap where the documentation is explicit.
//   C28/session   a tk.CodeArea with simple, command and small-word
//                 abbreviations and the builtins bound to keys, driven by a
//                 generated sequence of key events (graphic runes, bound
//                 commands, Backspace, Ctrl-H, Enter, unbound function keys,
//                 non-graphic runes) and bracketed-paste start/end events.
//                 Every step is checked against the model relation
//                 (state before, event) -> allowed states after.

import (
	"fmt"
	"sort"
	"strings"
	"time"
	"unicode"
	"unicode/utf8"

	"pgregory.net/rapid"
	"src.elv.sh/pkg/cli/term"
	"src.elv.sh/pkg/cli/tk"
	"src.elv.sh/pkg/edit"
	"src.elv.sh/pkg/ui"
	"verif/vs"
)

// ---- shared ------------------------------------------------------------------------

var c28MoveFlavor = map[string]struct {
	flavor int
	right  bool
}{
	"move-dot-left-word": {c28Big, false}, "move-dot-right-word": {c28Big, true},
	"move-dot-left-small-word": {c28Small, false}, "move-dot-right-small-word": {c28Small, true},
	"move-dot-left-alnum-word": {c28Alnum, false}, "move-dot-right-alnum-word": {c28Alnum, true},
}

var c28KillMove = map[string]string{
	"kill-rune-left": "move-dot-left", "kill-rune-right": "move-dot-right",
	"kill-word-left": "move-dot-left-word", "kill-word-right": "move-dot-right-word",
	"kill-small-word-left": "move-dot-left-small-word", "kill-small-word-right": "move-dot-right-small-word",
	"kill-alnum-word-left": "move-dot-left-alnum-word", "kill-alnum-word-right": "move-dot-right-alnum-word",
	"kill-line-left": "move-dot-sol", "kill-line-right": "move-dot-eol",
}

var c28TransposeFlavor = map[string]int{"transpose-word": c28Big, "transpose-small-word": c28Small, "transpose-alnum-word": c28Alnum}

// c28Commands is the documented command set (pkg/edit/buffer_builtins.d.elv),
// in a fixed order so that a case can name a command by index.
var c28Commands = []string{
	"move-dot-left", "move-dot-right", "move-dot-left-word", "move-dot-right-word",
	"move-dot-left-small-word", "move-dot-right-small-word", "move-dot-left-alnum-word", "move-dot-right-alnum-word",
	"move-dot-sol", "move-dot-eol", "move-dot-up", "move-dot-down",
	"kill-rune-left", "kill-rune-right", "kill-word-left", "kill-word-right",
	"kill-small-word-left", "kill-small-word-right", "kill-alnum-word-left", "kill-alnum-word-right",
	"kill-line-left", "kill-line-right",
	"transpose-rune", "transpose-word", "transpose-small-word", "transpose-alnum-word",
}

func c28RuneToByte(s string, ri int) int {
	i := 0
	for b := range s {
		if i == ri {
			return b
		}
		i++
	}
	return len(s)
}

func c28Valid(buf tk.CodeBuffer, what string) error {
	if buf.Dot < 0 || buf.Dot > len(buf.Content) {
		return fmt.Errorf("%s: dot %d outside the buffer %q (length %d)", what, buf.Dot, buf.Content, len(buf.Content))
	}
	if !utf8.ValidString(buf.Content) {
		return fmt.Errorf("%s: buffer %q is no longer valid UTF-8", what, buf.Content)
	}
	if buf.Dot < len(buf.Content) && !utf8.RuneStart(buf.Content[buf.Dot]) {
		return fmt.Errorf("%s: dot %d is inside a character of %q", what, buf.Dot, buf.Content)
	}
	return nil
}

// c28Apply runs a builtin, turning a panic into an error.
func c28Apply(name string, buf tk.CodeBuffer) (out tk.CodeBuffer, err error) {
	fn := edit.VerifBufferBuiltins()[name]
	if fn == nil {
		return buf, fmt.Errorf("documented command %s is not in the builtin table", name)
	}
	defer func() {
		if r := recover(); r != nil {
			err = fmt.Errorf("%s on %q dot %d panicked: %v", name, buf.Content, buf.Dot, r)
		}
	}()
	out = buf
	fn(&out)
	return out, nil
}

// c28CheckCommand decides one application of a builtin: before -> after.
func c28CheckCommand(name string, before, after tk.CodeBuffer) error {
	what := fmt.Sprintf("%s on %q with dot at byte %d gave %q with dot at byte %d", name, before.Content, before.Dot, after.Content, after.Dot)
	if err := c28Valid(after, what); err != nil {
		return err
	}
	rs := []rune(before.Content)
	d := utf8.RuneCountInString(before.Content[:before.Dot])
	n := len(rs)
	gotDot := utf8.RuneCountInString(after.Content[:after.Dot])

	// model of the pure moves, as rune index; -1 = not a single position
	move := func(m string) (int, map[int]bool, bool) {
		switch m {
		case "move-dot-left":
			if d > 0 {
				return d - 1, nil, true
			}
			return d, nil, true
		case "move-dot-right":
			if d < n {
				return d + 1, nil, true
			}
			return d, nil, true
		case "move-dot-sol":
			return c28SOL(rs, d), nil, true
		case "move-dot-eol":
			return c28EOL(rs, d), nil, true
		case "move-dot-up", "move-dot-down":
			dir := -1
			if m == "move-dot-down" {
				dir = 1
			}
			acc, ok := c28Vertical(rs, d, dir)
			return -1, acc, ok
		}
		if f, ok := c28MoveFlavor[m]; ok {
			if f.right {
				return c28RightWord(rs, d, f.flavor), nil, true
			}
			return c28LeftWord(rs, d, f.flavor), nil, true
		}
		return -1, nil, false
	}

	switch {
	case strings.HasPrefix(name, "move-dot-"):
		if after.Content != before.Content {
			return fmt.Errorf("%s: a move changed the text", what)
		}
		want, set, ok := move(name)
		if !ok {
			return nil
		}
		if set != nil {
			if !set[gotDot] {
				var keys []int
				for k := range set {
					keys = append(keys, k)
				}
				sort.Ints(keys)
				return fmt.Errorf("%s: dot at character %d, the model (adjacent line, widest column not beyond the current one) allows %v", what, gotDot, keys)
			}
			return nil
		}
		if gotDot != want {
			return fmt.Errorf("%s: dot at character %d, the documented behaviour gives %d", what, gotDot, want)
		}
		if f, isWord := c28MoveFlavor[name]; isWord && gotDot != 0 && gotDot != n && !c28IsWordStart(rs, gotDot, f.flavor) {
			return fmt.Errorf("%s: character %d is not a word start", what, gotDot)
		}
	case strings.HasPrefix(name, "kill-"):
		mv := c28KillMove[name]
		want, _, ok := move(mv)
		if !ok {
			return nil
		}
		lo, hi := d, want
		if lo > hi {
			lo, hi = hi, lo
		}
		wantContent := string(rs[:lo]) + string(rs[hi:])
		if after.Content != wantContent || gotDot != lo {
			return fmt.Errorf("%s: want %q with dot at character %d (delete exactly the text between the dot and where %s moves it: characters [%d,%d))", what, wantContent, lo, mv, lo, hi)
		}
		// the same against the real move
		moved, err := c28Apply(mv, before)
		if err != nil {
			return err
		}
		blo, bhi := before.Dot, moved.Dot
		if blo > bhi {
			blo, bhi = bhi, blo
		}
		if blo < 0 || bhi > len(before.Content) {
			return nil // the move itself is broken; reported by its own cases
		}
		if exp := before.Content[:blo] + before.Content[bhi:]; after.Content != exp || after.Dot != blo {
			return fmt.Errorf("%s: %s moves the dot to byte %d, so the kill must give %q with dot %d", what, mv, moved.Dot, exp, blo)
		}
	case name == "transpose-rune":
		want := string(c28TransposeRune(rs, d))
		if after.Content != want {
			return fmt.Errorf("%s: want %q (swap the runes around the dot; the first two at the beginning, the last two at the end)", what, want)
		}
	case strings.HasPrefix(name, "transpose-"):
		if c28SortedRunes(after.Content) != c28SortedRunes(before.Content) {
			return fmt.Errorf("%s: a transpose added or dropped characters", what)
		}
		fl, ok := c28TransposeFlavor[name]
		if !ok {
			return nil
		}
		if want, known := c28TransposeWord(rs, d, fl); known && after.Content != string(want) {
			return fmt.Errorf("%s: want %q (swap the words on both sides of the dot / the first two / the last two)", what, string(want))
		}
	}
	return nil
}

func c28GenBuffer(t *rapid.T, maxTokens int, lines bool) (string, int) {
	// A buffer is a sequence of tokens; most tokens are short runs of one
	// category so that words of several characters and runs of blanks occur.
	n := 0
	if rapid.IntRange(0, 9).Draw(t, "short") == 0 {
		n = rapid.IntRange(0, 2).Draw(t, "tokens")
	} else {
		n = rapid.IntRange(3, maxTokens).Draw(t, "tokens")
	}
	pools := [3][]c28Atom{}
	for _, a := range c28Alphabet {
		if a.r != '\n' {
			pools[a.cat] = append(pools[a.cat], a)
		}
	}
	var rs []rune
	for i := 0; i < n; i++ {
		k := rapid.IntRange(0, 19).Draw(t, "token")
		if lines && k < 14 && rapid.IntRange(0, 2).Draw(t, "nl") == 0 {
			k = 14
		}
		switch {
		case k < 14:
			cat := 1 // alphanumerical
			if k >= 7 && k < 10 {
				cat = 2
			} else if k >= 10 {
				cat = 0
			}
			m := rapid.IntRange(1, 3).Draw(t, "run")
			for j := 0; j < m; j++ {
				if cat == 0 && rapid.IntRange(0, 2).Draw(t, "sp") > 0 {
					rs = append(rs, ' ')
				} else {
					rs = append(rs, rapid.SampledFrom(pools[cat]).Draw(t, "r").r)
				}
			}
		case k < 17:
			rs = append(rs, '\n')
		default:
			rs = append(rs, rapid.SampledFrom(c28Alphabet).Draw(t, "r").r)
		}
	}
	var dot int
	switch rapid.IntRange(0, 5).Draw(t, "dotk") {
	case 0:
		dot = 0
	case 1:
		dot = len(rs)
	default:
		dot = rapid.IntRange(0, len(rs)).Draw(t, "dot")
	}
	return string(rs), dot
}

// ---- C28/builtins -------------------------------------------------------------------

type c28One struct {
	Buf string `json:"buf"`
	Dot int    `json:"dot"` // rune index
	Cmd string `json:"cmd"`
}

func c28GenOne(t *rapid.T) c28One {
	cmd := rapid.SampledFrom(c28Commands).Draw(t, "cmd")
	buf, dot := c28GenBuffer(t, 9, cmd == "move-dot-up" || cmd == "move-dot-down" || strings.Contains(cmd, "line") || strings.HasSuffix(cmd, "ol"))
	return c28One{Buf: buf, Dot: dot, Cmd: cmd}
}

func c28CheckOne(c c28One) error {
	if !utf8.ValidString(c.Buf) {
		return fmt.Errorf("bad case: buffer is not valid UTF-8")
	}
	// the table must still be the documented one
	table := edit.VerifBufferBuiltins()
	for _, name := range c28Commands {
		if table[name] == nil {
			return fmt.Errorf("documented command %s is missing from the builtin table", name)
		}
	}
	before := tk.CodeBuffer{Content: c.Buf, Dot: c28RuneToByte(c.Buf, c.Dot)}
	after, err := c28Apply(c.Cmd, before)
	if err != nil {
		return err
	}
	return c28CheckCommand(c.Cmd, before, after)
}

func c28ClassOne(c c28One) (string, bool) {
	kind := "move-rune/line"
	switch {
	case strings.HasPrefix(c.Cmd, "kill-") && strings.Contains(c.Cmd, "word"):
		kind = "kill-word"
	case strings.HasPrefix(c.Cmd, "kill-"):
		kind = "kill-rune/line"
	case strings.HasPrefix(c.Cmd, "transpose-") && strings.Contains(c.Cmd, "word"):
		kind = "transpose-word"
	case strings.HasPrefix(c.Cmd, "transpose-"):
		kind = "transpose-rune"
	case strings.Contains(c.Cmd, "word"):
		kind = "move-word"
	case c.Cmd == "move-dot-up" || c.Cmd == "move-dot-down":
		kind = "move-vertical"
	}
	rs := []rune(c.Buf)
	multibyte := len(c.Buf) != len(rs)
	nontrivial := len(rs) >= 2
	if kind == "move-vertical" {
		nontrivial = strings.Contains(c.Buf, "\n")
	}
	if strings.Contains(kind, "word") {
		nontrivial = len(c28Words(rs, c28Small)) >= 2
	}
	suffix := "/ascii"
	if multibyte {
		suffix = "/multibyte"
	}
	if !nontrivial {
		suffix += "-trivial"
	}
	return kind + suffix, nontrivial
}

// ---- C28/session --------------------------------------------------------------------

type c28Step struct {
	K   string `json:"k"`             // key cmd backspace ctrlh enter func pastestart pasteend
	R   string `json:"r,omitempty"`   // key: the rune (as a string); func: name of an unbound key
	Cmd string `json:"cmd,omitempty"` // cmd: builtin name
}

type c28Session struct {
	Buf        string    `json:"buf"`
	Dot        int       `json:"dot"` // rune index
	Config     int       `json:"config"`
	QuotePaste bool      `json:"quote_paste,omitempty"`
	Steps      []c28Step `json:"steps"`
}

// keys typed: biased to the characters of the configured abbreviations
var c28TypedKeys = []rune{'l', 'l', 'g', 'c', 'm', '|', '|', '>', 'd', 'n', ' ', ' ', ' ', ';', 'x', 'x', 'e', 'é', 'a', '世', '-', '-', '(', 'b', '\u00A0', '\u0301', '\U0001F600', '{', '^'}

// unbound keys and runes that are not graphic: the code area must leave them alone
var c28Unbound = map[string]ui.Key{
	"Left": ui.K(ui.Left), "F1": ui.K(ui.F1), "Tab": ui.K(ui.Tab), "Ctrl-A": ui.K('A', ui.Ctrl), "Alt-1": ui.K('1', ui.Alt),
	"Ctrl-Backspace": ui.K(ui.Backspace, ui.Ctrl), "U+200B": ui.K('\u200B'), "U+0001": ui.K('\x01'), "CR": ui.K('\r'), "U+0085": ui.K('\u0085'),
}

func c28UnboundNames() []string {
	var out []string
	for k := range c28Unbound {
		out = append(out, k)
	}
	sort.Strings(out)
	return out
}

func c28GenSession(t *rapid.T) c28Session {
	buf, dot := c28GenBuffer(t, 5, false)
	if rapid.IntRange(0, 2).Draw(t, "emptybuf") == 0 {
		buf, dot = "", 0
	}
	s := c28Session{Buf: buf, Dot: dot,
		Config:     rapid.SampledFrom([]int{0, 0, 0, 1, 1, 2}).Draw(t, "config"),
		QuotePaste: rapid.IntRange(0, 3).Draw(t, "quote") == 0}
	n := rapid.IntRange(1, 30).Draw(t, "steps")
	unbound := c28UnboundNames()
	// abbreviation keys of the configuration, typed as a whole now and then
	var words []string
	cfg := c28Configs[s.Config]
	for _, m := range []map[string]string{cfg.Simple, cfg.Command, cfg.SmallWord} {
		for k := range m {
			words = append(words, k)
		}
	}
	sort.Strings(words)
	var cmdWords []string
	for k := range cfg.Command {
		cmdWords = append(cmdWords, k)
	}
	sort.Strings(cmdWords)
	typeWord := func(w string) {
		for _, r := range w {
			s.Steps = append(s.Steps, c28Step{K: "key", R: string(r)})
		}
	}
	for len(s.Steps) < n {
		switch k := rapid.IntRange(0, 23).Draw(t, "kind"); {
		case k >= 20 && k < 22 && len(cmdWords) > 0:
			// a command abbreviation in (or near) command position
			s.Steps = append(s.Steps, c28Step{K: "cmd", Cmd: "move-dot-eol"})
			typeWord(rapid.SampledFrom([]string{"", "", ";", "|", "(", " ", "; ", "\u00A0", "a ", "{ ", "$", "^"}).Draw(t, "sep"))
			typeWord(rapid.SampledFrom(cmdWords).Draw(t, "cmdword"))
			typeWord(" ")
		case k >= 22:
			// a complete bracketed paste
			s.Steps = append(s.Steps, c28Step{K: "pastestart"})
			m := rapid.IntRange(0, 5).Draw(t, "pastelen")
			for j := 0; j < m; j++ {
				switch rapid.IntRange(0, 5).Draw(t, "pastek") {
				case 0:
					s.Steps = append(s.Steps, c28Step{K: "enter"}) // a newline in the pasted text
				case 1:
					s.Steps = append(s.Steps, c28Step{K: "func", R: rapid.SampledFrom(unbound).Draw(t, "unbound")})
				default:
					s.Steps = append(s.Steps, c28Step{K: "key", R: string(rapid.SampledFrom(c28Alphabet).Draw(t, "any").r)})
				}
			}
			s.Steps = append(s.Steps, c28Step{K: "pasteend"})
		case k < 8:
			s.Steps = append(s.Steps, c28Step{K: "key", R: string(rapid.SampledFrom(c28TypedKeys).Draw(t, "r"))})
		case k < 11 && len(words) > 0:
			w := rapid.SampledFrom(words).Draw(t, "word")
			for _, r := range w {
				s.Steps = append(s.Steps, c28Step{K: "key", R: string(r)})
			}
			if rapid.Bool().Draw(t, "trigger") {
				s.Steps = append(s.Steps, c28Step{K: "key", R: string(rapid.SampledFrom([]rune{' ', ';', 'a', '-'}).Draw(t, "tr"))})
			}
		case k < 12:
			s.Steps = append(s.Steps, c28Step{K: "key", R: string(rapid.SampledFrom(c28Alphabet).Draw(t, "any").r)})
		case k < 15:
			s.Steps = append(s.Steps, c28Step{K: "cmd", Cmd: rapid.SampledFrom(c28Commands).Draw(t, "cmd")})
		case k < 16:
			s.Steps = append(s.Steps, c28Step{K: rapid.SampledFrom([]string{"backspace", "ctrlh", "enter"}).Draw(t, "ed")})
		case k < 17:
			s.Steps = append(s.Steps, c28Step{K: "func", R: rapid.SampledFrom(unbound).Draw(t, "unbound")})
		case k < 18:
			s.Steps = append(s.Steps, c28Step{K: "pastestart"})
		default:
			s.Steps = append(s.Steps, c28Step{K: "pasteend"})
		}
	}
	return s
}

func c28CmdKey(i int) ui.Key { return ui.K(rune('a'+i), ui.Alt) }

// c28Info records what a session exercised (for the class histogram).
type c28Info struct {
	simple, command, smallWord, ambiguous, pasted, cmdMoved, interruptedTyping bool
}

func c28CheckSession(c c28Session) error { return c28RunSession(c, nil) }

func c28RunSession(c c28Session, info *c28Info) (err error) {
	if info == nil {
		info = &c28Info{}
	}
	if c.Config < 0 || c.Config >= len(c28Configs) || !utf8.ValidString(c.Buf) {
		return fmt.Errorf("bad case")
	}
	cfg := c28Configs[c.Config]
	table := edit.VerifBufferBuiltins()
	bindings := tk.MapBindings{}
	cmdIndex := map[string]int{}
	for i, name := range c28Commands {
		fn := table[name]
		if fn == nil {
			return fmt.Errorf("documented command %s is missing from the builtin table", name)
		}
		cmdIndex[name] = i
		bindings[term.KeyEvent(c28CmdKey(i))] = func(w tk.Widget) {
			w.(tk.CodeArea).MutateState(func(s *tk.CodeAreaState) { fn(&s.Buffer) })
		}
	}
	iter := func(m map[string]string) func(func(a, f string)) {
		return func(f func(a, f string)) {
			keys := make([]string, 0, len(m))
			for k := range m {
				keys = append(keys, k)
			}
			sort.Strings(keys)
			for _, k := range keys {
				f(k, m[k])
			}
		}
	}
	submits := 0
	w := tk.NewCodeArea(tk.CodeAreaSpec{
		Bindings:               bindings,
		SimpleAbbreviations:    iter(cfg.Simple),
		CommandAbbreviations:   iter(cfg.Command),
		SmallWordAbbreviations: iter(cfg.SmallWord),
		QuotePaste:             func() bool { return c.QuotePaste },
		OnSubmit:               func() { submits++ },
		State:                  tk.CodeAreaState{Buffer: tk.CodeBuffer{Content: c.Buf, Dot: c28RuneToByte(c.Buf, c.Dot)}},
	})

	// model state beyond the buffer itself
	typed := map[string]bool{"": true} // candidates for "typed consecutively so far"
	var lastInsert *tk.CodeBuffer       // buffer right after the last plain insert
	interrupted := false                // something other than typing happened since
	pasting := false
	var pasteBuf strings.Builder
	var trail []string

	handle := func(ev term.Event) (handled bool, perr error) {
		defer func() {
			if r := recover(); r != nil {
				perr = fmt.Errorf("panic: %v", r)
			}
		}()
		return w.Handle(ev), nil
	}

	for i, st := range c.Steps {
		before := w.CopyState().Buffer
		var ev term.Event
		var key ui.Key
		desc := st.K
		switch st.K {
		case "key":
			r, _ := utf8.DecodeRuneInString(st.R)
			key = ui.K(r)
			desc = fmt.Sprintf("key %q", st.R)
		case "cmd":
			idx, ok := cmdIndex[st.Cmd]
			if !ok {
				return fmt.Errorf("bad case: unknown command %q", st.Cmd)
			}
			key = c28CmdKey(idx)
			desc = st.Cmd
		case "backspace":
			key = ui.K(ui.Backspace)
		case "ctrlh":
			key = ui.K('H', ui.Ctrl)
		case "enter":
			key = ui.K('\n')
		case "func":
			k, ok := c28Unbound[st.R]
			if !ok {
				return fmt.Errorf("bad case: unknown key %q", st.R)
			}
			key = k
			desc = "unbound key " + st.R
		case "pastestart":
			ev = term.PasteSetting(true)
		case "pasteend":
			ev = term.PasteSetting(false)
		default:
			return fmt.Errorf("bad case: step kind %q", st.K)
		}
		if ev == nil {
			ev = term.KeyEvent(key)
		}
		trail = append(trail, desc)
		submitsBefore := submits
		_, perr := handle(ev)
		after := w.CopyState().Buffer
		where := fmt.Sprintf("step %d (%s) on %q dot %d -> %q dot %d [pasting=%v; steps so far: %s]", i, desc, before.Content, before.Dot, after.Content, after.Dot, pasting, strings.Join(trail, ", "))
		if perr != nil {
			return fmt.Errorf("%s: %v", where, perr)
		}
		if err := c28Valid(after, where); err != nil {
			return err
		}
		unchanged := func(why string) error {
			if after != before {
				return fmt.Errorf("%s: the buffer must not change (%s)", where, why)
			}
			return nil
		}

		// bracketed paste
		switch st.K {
		case "pastestart":
			if err := unchanged("start of a bracketed paste"); err != nil {
				return err
			}
			pasting = true
			typed, lastInsert, interrupted = map[string]bool{"": true}, nil, false
			continue
		case "pasteend":
			text := pasteBuf.String()
			wasPasting := pasting
			pasting = false
			pasteBuf.Reset()
			typed, lastInsert, interrupted = map[string]bool{"": true}, nil, false
			if !wasPasting && after == before {
				continue // an end marker without a start: nothing to insert
			}
			if !strings.HasPrefix(after.Content, before.Content[:before.Dot]) || !strings.HasSuffix(after.Content, before.Content[before.Dot:]) ||
				len(after.Content) < len(before.Content) || after.Dot != len(after.Content)-(len(before.Content)-before.Dot) {
				return fmt.Errorf("%s: a paste must insert at the dot and leave the dot after the inserted text", where)
			}
			ins := after.Content[before.Dot:after.Dot]
			if text != "" {
				info.pasted = true
			}
			if !c.QuotePaste {
				if ins != text {
					return fmt.Errorf("%s: pasted text %q was inserted as %q", where, text, ins)
				}
			} else if !c28QuotedLike(ins, text) {
				return fmt.Errorf("%s: pasted text %q with quoting on was inserted as %q", where, text, ins)
			}
			continue
		}
		if pasting {
			// "keys" of the pasted text are collected; function keys are dropped
			if err := unchanged("in the middle of a bracketed paste"); err != nil {
				return err
			}
			if key.Mod == 0 && key.Rune >= 0 {
				pasteBuf.WriteRune(key.Rune)
			}
			continue
		}

		switch st.K {
		case "cmd":
			if err := c28CheckCommand(st.Cmd, before, after); err != nil {
				return fmt.Errorf("%v\n%s", err, where)
			}
			if after != before {
				info.cmdMoved = true
			}
			interrupted = true
		case "enter":
			if err := unchanged("Enter submits"); err != nil {
				return err
			}
			if submits != submitsBefore+1 {
				return fmt.Errorf("%s: Enter must trigger the submit callback once, got %d", where, submits-submitsBefore)
			}
			typed, lastInsert, interrupted = map[string]bool{"": true}, nil, false
		case "backspace", "ctrlh":
			want := before
			if before.Dot > 0 {
				_, sz := utf8.DecodeLastRuneInString(before.Content[:before.Dot])
				want = tk.CodeBuffer{Content: before.Content[:before.Dot-sz] + before.Content[before.Dot:], Dot: before.Dot - sz}
			}
			if after != want {
				return fmt.Errorf("%s: want %q dot %d (remove the character left of the dot)", where, want.Content, want.Dot)
			}
			typed, lastInsert, interrupted = map[string]bool{"": true}, nil, false
		case "func":
			if err := unchanged("unbound or non-graphic key"); err != nil {
				return err
			}
			interrupted = true
		case "key":
			r := key.Rune
			if !unicode.IsGraphic(r) {
				if err := unchanged("not a graphic character"); err != nil {
					return err
				}
				interrupted = true
				continue
			}
			// which "typed so far" values are possible?
			cands := map[string]bool{}
			if !interrupted {
				for t := range typed {
					cands[t] = true
				}
			} else {
				// The documentation says any other editing functionality interrupts;
				// an interruption that left no trace in the buffer may go unnoticed.
				cands[""] = true
				if lastInsert != nil && *lastInsert == before {
					for t := range typed {
						cands[t] = true
					}
				}
			}
			var keys []string
			for t := range cands {
				keys = append(keys, t)
			}
			sort.Strings(keys)
			newTyped := map[string]bool{}
			matched, plainMatched := false, false
			var allowed []string
			for _, t := range keys {
				for _, o := range c28InsertOutcomes(cfg, before.Content, before.Dot, r, t) {
					allowed = append(allowed, fmt.Sprintf("%q dot %d (%s, typed so far %q)", o.content, o.dot, o.why, t))
					if o.content == after.Content && o.dot == after.Dot {
						switch {
						case strings.HasPrefix(o.why, "simple"):
							info.simple = true
						case strings.HasPrefix(o.why, "command"):
							info.command = true
						case strings.HasPrefix(o.why, "small"):
							info.smallWord = true
						}
						matched = true
						newTyped[o.typed] = true
						if o.plain {
							plainMatched = true
						}
					}
				}
			}
			if !matched {
				return fmt.Errorf("%s: not an allowed result; allowed: %s", where, strings.Join(allowed, " | "))
			}
			if len(allowed) > len(keys) || len(keys) > 1 {
				info.ambiguous = true // more than one documented result was possible
			}
			if interrupted && len(typed) > 0 && !typed[""] {
				info.interruptedTyping = true
			}
			typed, interrupted = newTyped, false
			if plainMatched {
				b := after
				lastInsert = &b
			} else {
				lastInsert = nil
			}
		}
	}
	return nil
}

// c28QuotedLike accepts q as a quoted form of text without re-implementing the
// quoting rules (C03's subject): a plain word may stay as it is; otherwise q
// must be a single- or double-quoted literal; a single-quoted literal must
// unquote to the text.
func c28QuotedLike(q, text string) bool {
	if q == text && text != "" {
		return true
	}
	if len(q) >= 2 && q[0] == '\'' && q[len(q)-1] == '\'' {
		return strings.ReplaceAll(q[1:len(q)-1], "''", "'") == text
	}
	return len(q) >= 2 && q[0] == '"' && q[len(q)-1] == '"'
}

func c28ClassSession(c c28Session) (string, bool) {
	var info c28Info
	c28RunSession(c, &info)
	var parts []string
	if info.simple {
		parts = append(parts, "simple")
	}
	if info.command {
		parts = append(parts, "command")
	}
	if info.smallWord {
		parts = append(parts, "smallword")
	}
	cl := "expands:" + strings.Join(parts, "+")
	if len(parts) == 0 {
		cl = "expands:none"
	}
	if info.interruptedTyping {
		cl += "/interrupted-typing"
	}
	if info.pasted {
		cl += "/pasted"
	}
	keys := 0
	for _, st := range c.Steps {
		if st.K == "key" {
			keys++
		}
	}
	return cl, len(c.Steps) >= 3 && (keys > 0 || info.pasted || info.cmdMoved)
}

func init() {
	vs.Register(vs.Prop[c28One]{
		Name: "C28/builtins",
		Rule: "buffer of 0..16 characters from an alphabet with hand-assigned categories and widths (ASCII letters/digits/punctuation, blanks incl. tab, NBSP, ideographic and em space, NEL, newlines, é 世 halfwidth kana, Arabic-Indic/superscript/roman numerals, combining accent, ZWSP, emoji, fullwidth punctuation, U+FFFD), in runs of one category to form words; dot on any rune boundary (biased to both ends); one of the 26 documented builtins; non-trivial = buffer of >= 2 characters (word commands: >= 2 small words, vertical moves: a newline)",
		Gen:  c28GenOne, Check: c28CheckOne, Class: c28ClassOne,
		Quick: 30000, Thorough: 400000,
	})
	vs.Register(vs.Prop[c28Session]{
		Name: "C28/session",
		Rule: "a tk.CodeArea (start buffer empty or <= 10 characters) with one of three abbreviation configurations (overlapping simple/command/small-word abbreviations; unicode keys; none) and optional paste quoting, driven by 1..30 steps: typed runes biased to the abbreviation characters, whole abbreviations followed by a trigger, any alphabet rune, builtins bound to keys, Backspace/Ctrl-H/Enter, unbound and non-graphic keys, paste start/end markers (also unbalanced); non-trivial = >= 3 steps with at least one typed key",
		Gen:  c28GenSession, Check: c28CheckSession, Class: c28ClassSession,
		Quick: 10000, Thorough: 100000,
		Timeout: 30 * time.Second,
	})
}
