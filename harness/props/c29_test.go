package props

// C29 History navigation visits matching commands newest-first, then back.
//
// A real store file is filled with a pre-session history (adds and deletions, so
// sequence numbers have gaps); session A starts (histutil.NewHybridStore), then
// a drawn sequence of events follows: A adds, a second session B starts, B adds,
// a third party adds directly to the database. Then both sessions open a cursor
// with a drawn prefix (optionally wrapped in NewDedupCursor) and take a drawn walk
// of Prev/Next steps, during which further third-party additions happen. After
// every step Get() is compared with a list model:
//   view(S)  = entries stored before S started (in sequence order) ++ S's own additions
//   plain    : L = entries of view(S) with the prefix; the cursor is an index
//              into L starting just past the newest entry; Prev/Next move by one
//              and stop one position past either end, where Get reports
//              ErrEndOfHistory
//   de-dup   : the same over D = L reversed with every text kept only at its most
//              recent occurrence.
// A quarter of the cases reach the database through an in-process daemon and its
// client, as the shell does.

import (
	"errors"
	"fmt"
	"os"
	"path/filepath"
	"strings"

	"pgregory.net/rapid"
	"src.elv.sh/pkg/cli/histutil"
	"src.elv.sh/pkg/daemon"
	"src.elv.sh/pkg/store"
	"src.elv.sh/pkg/store/storedefs"
	"verif/vs"
)

type c29Pre struct {
	Del  bool `json:"del,omitempty"`
	Text vs.B `json:"text,omitempty"`
	N    int  `json:"n,omitempty"` // del: index into the present entries (mod)
}

type c29Event struct {
	Who  string `json:"who"` // A | B | other | startB
	Text vs.B   `json:"text,omitempty"`
}

type c29Step struct {
	Move  string `json:"move"`            // prev | next | other (a third party adds Text meanwhile)
	Count int    `json:"count,omitempty"` // prev/next: repeated this many times (checked after each)
	Text  vs.B   `json:"text,omitempty"`
}

type c29Case struct {
	Daemon bool       `json:"daemon"`
	NoDB   bool       `json:"nodb,omitempty"` // NewHybridStore(nil): the session-only (in-memory) store
	Stored []c29Pre   `json:"stored"`
	Events []c29Event `json:"events"`
	Prefix vs.B       `json:"prefix"`
	Dedup  bool       `json:"dedup"`
	WalkA  []c29Step  `json:"walk_a"`
	WalkB  []c29Step  `json:"walk_b"`
}

var c29Texts = []string{"echo", "echo a", "echo a", "echo b", "ls", "ls -l", "e", "", "git co", "\xffbin", "echo 世", "ls"}
var c29Prefixes = []string{"", "", "e", "echo", "echo ", "ls", "l", "zz", "\xff", "echo a"}

func c29GenWalk(t *rapid.T, label string, size int) []c29Step {
	n := rapid.IntRange(1, 8).Draw(t, label+"-runs")
	var w []c29Step
	total := 0
	for i := 0; i < n && total < 60; i++ {
		var st c29Step
		switch rapid.IntRange(0, 7).Draw(t, label+"-kind") {
		case 0:
			st = c29Step{Move: "other", Text: vs.B(rapid.SampledFrom(c29Texts).Draw(t, label+"-text"))}
		case 1, 2, 3, 4:
			st = c29Step{Move: "prev"}
		default:
			st = c29Step{Move: "next"}
		}
		if st.Move != "other" {
			if rapid.Bool().Draw(t, label+"-long") {
				st.Count = rapid.IntRange(1, size+3).Draw(t, label+"-count")
			} else {
				st.Count = rapid.IntRange(1, 3).Draw(t, label+"-count")
			}
			if total+st.Count > 60 {
				st.Count = 60 - total
			}
			total += st.Count
		}
		w = append(w, st)
	}
	return w
}

func c29Gen(t *rapid.T) c29Case {
	c := c29Case{Daemon: rapid.IntRange(0, 3).Draw(t, "daemon") == 0, Dedup: rapid.Bool().Draw(t, "dedup")}
	if rapid.IntRange(0, 7).Draw(t, "nodb") == 0 {
		c.NoDB, c.Daemon = true, false
	}
	ns := rapid.IntRange(0, 25).Draw(t, "nstored")
	for i := 0; i < ns; i++ {
		if rapid.IntRange(0, 5).Draw(t, "del") == 0 {
			c.Stored = append(c.Stored, c29Pre{Del: true, N: rapid.IntRange(0, 30).Draw(t, "deln")})
		} else {
			c.Stored = append(c.Stored, c29Pre{Text: vs.B(rapid.SampledFrom(c29Texts).Draw(t, "text"))})
		}
	}
	ne := rapid.IntRange(0, 14).Draw(t, "nevents")
	for i := 0; i < ne; i++ {
		who := rapid.SampledFrom([]string{"A", "A", "A", "B", "B", "other", "other", "startB"}).Draw(t, "who")
		ev := c29Event{Who: who}
		if who != "startB" {
			ev.Text = vs.B(rapid.SampledFrom(c29Texts).Draw(t, "text"))
		}
		c.Events = append(c.Events, ev)
	}
	c.Prefix = vs.B(rapid.SampledFrom(c29Prefixes).Draw(t, "prefix"))
	c.WalkA = c29GenWalk(t, "wa", ns+ne)
	c.WalkB = c29GenWalk(t, "wb", ns+ne)
	return c
}

// ---- model --------------------------------------------------------------------------

type c29Session struct {
	store histutil.Store
	view  []storedefs.Cmd // model: the session's view
}

// c29List is the list the cursor walks: oldest first for the plain cursor
// (start index len), newest first for the de-duplicating one (start index -1).
func c29List(view []storedefs.Cmd, prefix string, dedup bool) []storedefs.Cmd {
	var l []storedefs.Cmd
	for _, c := range view {
		if strings.HasPrefix(c.Text, prefix) {
			l = append(l, c)
		}
	}
	if !dedup {
		return l
	}
	var d []storedefs.Cmd
	seen := map[string]bool{}
	for i := len(l) - 1; i >= 0; i-- {
		if !seen[l[i].Text] {
			seen[l[i].Text] = true
			d = append(d, l[i])
		}
	}
	return d
}

// c29DryDB is the database replaced by the model; only used to classify a case
// (how long the walked list is, which ends the walk reaches) without touching a file.
type c29DryDB struct{ m *c24Model }

func (d *c29DryDB) conv(o c24Out) (storedefs.Cmd, error) {
	if o.Err != "" {
		return storedefs.Cmd{}, storedefs.ErrNoMatchingCmd
	}
	return storedefs.Cmd{Text: o.Text, Seq: o.Seq}, nil
}
func (d *c29DryDB) NextCmdSeq() (int, error) { return d.m.next, nil }
func (d *c29DryDB) AddCmd(s string) (int, error) {
	return d.m.apply(c24In{K: "add", Text: s}).Seq, nil
}
func (d *c29DryDB) DelCmd(seq int) error { d.m.apply(c24In{K: "del", A: seq}); return nil }
func (d *c29DryDB) CmdsWithSeq(from, upto int) ([]storedefs.Cmd, error) {
	return d.m.apply(c24In{K: "cmds", A: from, B: upto}).Cmds, nil
}
func (d *c29DryDB) PrevCmd(upto int, p string) (storedefs.Cmd, error) {
	return d.conv(d.m.apply(c24In{K: "prev", A: upto, Text: p}))
}
func (d *c29DryDB) NextCmd(from int, p string) (storedefs.Cmd, error) {
	return d.conv(d.m.apply(c24In{K: "next", A: from, Text: p}))
}

type c29Info struct {
	listLen, hitOld, hitNew, dups int
	usedB                         bool
}

func c29Walk(name string, s *c29Session, c c29Case, walk []c29Step, db histutil.DB, info *c29Info) error {
	prefix := string(c.Prefix)
	l := c29List(s.view, prefix, c.Dedup)
	if !c.Dedup {
		info.dups += len(l) - len(c29List(s.view, prefix, true))
	}
	if len(l) > info.listLen {
		info.listLen = len(l)
	}
	cur := s.store.Cursor(prefix)
	// pos counts in "Prev direction": -1 = past the newest entry (start), len(l) = past the oldest.
	// newestFirst[i] is the entry at pos i.
	at := func(pos int) (storedefs.Cmd, bool) {
		if pos < 0 || pos >= len(l) {
			return storedefs.Cmd{}, false
		}
		if c.Dedup {
			return l[pos], true
		}
		return l[len(l)-1-pos], true
	}
	pos := -1
	if c.Dedup {
		cur = histutil.NewDedupCursor(cur)
	}
	trace := []string{}
	check := func(what string) error {
		trace = append(trace, what)
		got, err := cur.Get()
		want, ok := at(pos)
		if !ok {
			if !errors.Is(err, histutil.ErrEndOfHistory) {
				return fmt.Errorf("session %s, prefix %q, dedup=%v: after %v the cursor is past the %s end of %d matching entries, Get() must report end of history, got %v, %v", name, prefix, c.Dedup, trace, map[bool]string{true: "newest", false: "oldest"}[pos < 0], len(l), got, err)
			}
			return nil
		}
		if err != nil || got != want {
			return fmt.Errorf("session %s, prefix %q, dedup=%v: after %v Get() = %v, %v; want entry %v (position %d from the newest of %v)", name, prefix, c.Dedup, trace, got, err, want, pos, l)
		}
		return nil
	}
	if err := check("start"); err != nil {
		return err
	}
	for _, st := range walk {
		switch st.Move {
		case "other":
			if db == nil {
				continue
			}
			if _, err := db.AddCmd(string(st.Text)); err != nil {
				return fmt.Errorf("third-party AddCmd: %v", err)
			}
			if err := check("other-add"); err != nil {
				return err
			}
		case "prev":
			for i := 0; i < st.Count; i++ {
				cur.Prev()
				if pos < len(l) {
					pos++
				}
				if pos == len(l) {
					info.hitOld++
				}
				if err := check("Prev"); err != nil {
					return err
				}
			}
		case "next":
			for i := 0; i < st.Count; i++ {
				cur.Next()
				if pos > -1 {
					pos--
				}
				if pos == -1 {
					info.hitNew++
				}
				if err := check("Next"); err != nil {
					return err
				}
			}
		}
	}
	return nil
}

func c29Run(c c29Case, info *c29Info, dry bool) (err error) {
	var db histutil.DB
	dir := ""
	if !dry {
		var derr error
		dir, derr = c24TempDir("verif-c29-")
		if derr != nil {
			return nil
		}
		defer os.RemoveAll(dir)
	}
	if c.NoDB {
		db = nil
	} else if dry {
		db = &c29DryDB{m: c24NewModel()}
	} else if c.Daemon {
		sock, dbp := filepath.Join(dir, "sock"), filepath.Join(dir, "db")
		srv, serr := c26StartServer(sock, dbp)
		if serr != nil {
			return serr
		}
		cl := daemon.NewClient(sock)
		defer func() {
			cl.Close()
			if !srv.stop(2*1e9) && err == nil {
				err = fmt.Errorf("daemon.Serve did not return")
			}
		}()
		db = cl
	} else {
		st, serr := store.NewStore(filepath.Join(dir, "db"))
		if serr != nil {
			return fmt.Errorf("NewStore: %v", serr)
		}
		defer st.Close()
		db = st
	}
	m := c24NewModel() // predicts sequence numbers and the stored content
	add := func(text string) (int, error) {
		want := m.apply(c24In{K: "add", Text: text}).Seq
		return want, nil
	}
	for _, p := range c.Stored {
		if db == nil {
			break // no database: nothing was stored before the session
		}
		if p.Del {
			if len(m.cmds) == 0 {
				continue
			}
			seq := m.cmds[p.N%len(m.cmds)].Seq
			m.apply(c24In{K: "del", A: seq})
			if derr := db.(interface{ DelCmd(int) error }).DelCmd(seq); derr != nil {
				return fmt.Errorf("DelCmd(%d): %v", seq, derr)
			}
			continue
		}
		want, _ := add(string(p.Text))
		got, aerr := db.AddCmd(string(p.Text))
		if aerr != nil || got != want {
			return fmt.Errorf("filling the store: AddCmd(%q) = %d, %v; model %d", p.Text, got, aerr, want)
		}
	}
	start := func() (*c29Session, error) {
		hs, herr := histutil.NewHybridStore(db)
		if herr != nil {
			return nil, fmt.Errorf("NewHybridStore: %v", herr)
		}
		return &c29Session{store: hs, view: append([]storedefs.Cmd(nil), m.cmds...)}, nil
	}
	a, err := start()
	if err != nil {
		return err
	}
	var b *c29Session
	for _, ev := range c.Events {
		text := string(ev.Text)
		switch {
		case ev.Who == "startB":
			if b == nil {
				if b, err = start(); err != nil {
					return err
				}
				info.usedB = true
			}
		case ev.Who == "A" || (ev.Who == "B" && b != nil):
			s := a
			if ev.Who == "B" {
				s = b
			}
			if db == nil {
				// the in-memory store may keep the number it is given (documented in Store.AddCmd)
				got, aerr := s.store.AddCmd(storedefs.Cmd{Text: text, Seq: 100 + len(s.view)})
				if aerr != nil {
					return fmt.Errorf("session %s AddCmd(%q): %v", ev.Who, text, aerr)
				}
				s.view = append(s.view, storedefs.Cmd{Text: text, Seq: got})
				continue
			}
			want, _ := add(text)
			got, aerr := s.store.AddCmd(storedefs.Cmd{Text: text})
			if aerr != nil || got != want {
				return fmt.Errorf("session %s AddCmd(%q) = %d, %v; model %d", ev.Who, text, got, aerr, want)
			}
			s.view = append(s.view, storedefs.Cmd{Text: text, Seq: want})
		default: // a third party (or B before it exists)
			if db == nil {
				continue
			}
			add(text)
			if _, aerr := db.AddCmd(text); aerr != nil {
				return fmt.Errorf("third-party AddCmd: %v", aerr)
			}
		}
	}
	if err := c29Walk("A", a, c, c.WalkA, db, info); err != nil {
		return err
	}
	if b != nil {
		if err := c29Walk("B", b, c, c.WalkB, db, info); err != nil {
			return err
		}
	}
	return nil
}

func init() {
	vs.Register(vs.Prop[c29Case]{
		Name: "C29/walk",
		Rule: "a store file with 0-25 pre-session adds/deletes; session A (NewHybridStore) starts; 0-14 events (A adds, session B starts, B adds, third-party adds to the database); texts from a small pool with shared prefixes, duplicates, empty and binary; both sessions then walk a cursor (drawn prefix incl. non-matching; half the cases through NewDedupCursor) with runs of Prev/Next totalling <= 60 steps, long enough to run past both ends repeatedly, with third-party adds in between; Get() after every step is compared with the list model; a quarter of the cases go through an in-process daemon client, an eighth use NewHybridStore(nil) (session-only store); non-trivial = the walked list has >= 2 entries and the walk reaches an end of it",
		Gen:  c29Gen,
		Check: func(c c29Case) error {
			var info c29Info
			return c29Run(c, &info, false)
		},
		Class: func(c c29Case) (string, bool) {
			var info c29Info
			if c29Run(c, &info, true) != nil {
				return "failing", true
			}
			label := "plain"
			if c.Dedup {
				label = "dedup"
			}
			if c.NoDB {
				label += "-memonly"
			}
			switch {
			case info.listLen == 0:
				label += "/empty-list"
			case info.hitOld > 0 && info.hitNew > 0:
				label += "/both-ends"
			case info.hitOld > 0:
				label += "/old-end"
			default:
				label += "/inside"
			}
			if info.usedB {
				label += "+B"
			}
			return label, info.listLen >= 2 && (info.hitOld > 0 || info.hitNew > 0)
		},
		Quick: 1500, Thorough: 15000,
	})
}
