package props

// C30 Syntax highlighting never changes the text and is never stale.
//
// Oracle: the identity on the text. Whatever the highlighter returns for a
// piece of code, immediately or after a late update, the concatenation of the
// segment texts must be byte-for-byte the code that was asked for.
//
//   C30/sync  Highlighter.Get on generated, mutated and garbage code (also
//             invalid UTF-8) with no command lookup (synchronous path), with
//             the evaluator's static check (compile-error regions), and with
//             an instant command lookup.
//   C30/late  schedules: the command lookup is a harness function that blocks
//             on gates; the case says which lookups block and when each gate
//             is released while Get is called with changing code. After every
//             step the harness waits until every highlighter goroutine is
//             parked on a gate or gone, drains LateUpdates and asks again for
//             the current code: a late result computed for other code must
//             never be shown.

import (
	"encoding/json"
	"fmt"
	"runtime"
	"strings"
	"sync"
	"time"

	"pgregory.net/rapid"
	"src.elv.sh/pkg/edit/highlight"
	"src.elv.sh/pkg/eval"
	"src.elv.sh/pkg/parse"
	"src.elv.sh/pkg/ui"
	"verif/gen"
	"verif/vs"
)

// ---- a small grammar of Elvish source ----------------------------------------------------

var c30Cmds = []string{"c30a", "c30b", "c30cmd", "echo", "put", "nop", "e:c30x", "c30ns:f", "./c30run", "a/b", "+", "c30é"}
var c30Words = []string{"x", "foo", "'single q'", "'it''s'", "\"dq\\n\\x41\"", "\"a\\u00e9\"", "$c30v", "$@c30l", "$c30v[0]", "$c30m[k][1..]", "$nil", "$pid", "1", "0x1F", "1.5e3", "1/2",
	"*.go", "**", "a?c", "*[set:ab]", "**[type:dir]", "~", "~/c30d", "~root/x", "[a b]", "[&k=v &k2=$c30v]", "[]", "[&]", "{a,b}", "{a,{b,c}}x", "a$c30v'b'\"c\"", "&opt=val", "&flag",
	"(c30a x)", "?(c30b)", "{|x| put $x }", "{ c30a }", "{|a &k=v @r| c30cmd $a }", "世界", "é́", "a=b", "--long", "-s", "%", "a,b", "''", "\"\""}
var c30Redirs = []string{"> c30out", ">> 'c30 out'", "< $c30v", "2>&1", "2>&-", "<> c30f", "3> c30g", ">c30h"}

func c30GenWord(t *rapid.T) string {
	if rapid.IntRange(0, 9).Draw(t, "word?") == 0 {
		return "c30w" + gen.Word(t, "word")
	}
	return rapid.SampledFrom(c30Words).Draw(t, "word")
}

func c30GenBlock(t *rapid.T, depth int) string {
	if depth <= 0 {
		return "{ " + rapid.SampledFrom(c30Cmds).Draw(t, "cmd") + " }"
	}
	sep := rapid.SampledFrom([]string{" ", "\n", "\n  ", " "}).Draw(t, "blocksep")
	return "{" + sep + c30GenPipeline(t, depth-1) + sep + "}"
}

func c30GenForm(t *rapid.T, depth int) string {
	switch rapid.IntRange(0, 15).Draw(t, "form") {
	case 0:
		s := "if " + c30GenWord(t) + " " + c30GenBlock(t, depth)
		if rapid.Bool().Draw(t, "elif") {
			s += " elif " + c30GenWord(t) + " " + c30GenBlock(t, depth)
		}
		if rapid.Bool().Draw(t, "else") {
			s += " else " + c30GenBlock(t, depth)
		}
		return s
	case 1:
		s := "for c30i " + c30GenWord(t) + " " + c30GenBlock(t, depth)
		if rapid.Bool().Draw(t, "else") {
			s += " else " + c30GenBlock(t, depth)
		}
		return s
	case 2:
		s := "try " + c30GenBlock(t, depth)
		if rapid.Bool().Draw(t, "catch") {
			s += " " + rapid.SampledFrom([]string{"catch", "except"}).Draw(t, "kw") + " c30e " + c30GenBlock(t, depth)
		}
		if rapid.Bool().Draw(t, "else") {
			s += " else " + c30GenBlock(t, depth)
		}
		if rapid.Bool().Draw(t, "finally") {
			s += " finally " + c30GenBlock(t, depth)
		}
		return s
	case 3:
		return rapid.SampledFrom([]string{"var", "set", "tmp"}).Draw(t, "assign") + " " +
			rapid.SampledFrom([]string{"c30v", "c30v c30l", "@c30l", "c30m[k]", "'c30 q'", "c30v @c30r"}).Draw(t, "lhs") + " = " + c30GenWord(t)
	case 4:
		return "del " + rapid.SampledFrom([]string{"c30v", "c30m[k]", "c30v c30l"}).Draw(t, "lhs")
	case 5:
		return "fn c30f {|a b| " + c30GenPipeline(t, depth-1) + " }"
	case 6:
		return "while " + c30GenWord(t) + " " + c30GenBlock(t, depth)
	case 7:
		return "use " + rapid.SampledFrom([]string{"str", "./c30mod", "c30/lib"}).Draw(t, "mod")
	case 8:
		return rapid.SampledFrom([]string{"and", "or", "coalesce", "pragma unknown-command = disallow"}).Draw(t, "special") + " " + c30GenWord(t)
	}
	s := rapid.SampledFrom(c30Cmds).Draw(t, "cmd")
	n := rapid.IntRange(0, 4).Draw(t, "nargs")
	for i := 0; i < n; i++ {
		if rapid.IntRange(0, 7).Draw(t, "redir?") == 0 {
			s += " " + rapid.SampledFrom(c30Redirs).Draw(t, "redir")
		} else if rapid.IntRange(0, 11).Draw(t, "cont?") == 0 {
			s += " ^\n  " + c30GenWord(t)
		} else {
			s += rapid.SampledFrom([]string{" ", " ", "  ", "\t"}).Draw(t, "sp") + c30GenWord(t)
		}
	}
	return s
}

func c30GenPipeline(t *rapid.T, depth int) string {
	s := c30GenForm(t, depth)
	n := rapid.IntRange(0, 2).Draw(t, "npipe")
	for i := 0; i < n; i++ {
		s += rapid.SampledFrom([]string{" | ", "|", " |\n"}).Draw(t, "pipe") + c30GenForm(t, depth)
	}
	if rapid.IntRange(0, 9).Draw(t, "bg?") == 0 {
		s += " &"
	}
	return s
}

func c30GenChunk(t *rapid.T) string {
	n := rapid.IntRange(1, 4).Draw(t, "nlines")
	var sb strings.Builder
	for i := 0; i < n; i++ {
		if rapid.IntRange(0, 7).Draw(t, "comment?") == 0 {
			sb.WriteString("# c30 comment " + rapid.SampledFrom([]string{"", "'", "世界", "$x"}).Draw(t, "comment") + "\n")
		}
		sb.WriteString(c30GenPipeline(t, 2))
		sb.WriteString(rapid.SampledFrom([]string{"\n", "; ", ";", "\n\n", " # trailing\n", "\r\n", ""}).Draw(t, "sep"))
	}
	return sb.String()
}

// c30Mutate damages valid code: truncate, delete / duplicate a span, insert a
// metacharacter or an invalid byte.
func c30Mutate(t *rapid.T, s string) string {
	n := rapid.IntRange(1, 3).Draw(t, "nmut")
	for i := 0; i < n && len(s) > 0; i++ {
		at := rapid.IntRange(0, len(s)).Draw(t, "at")
		switch rapid.IntRange(0, 4).Draw(t, "mut") {
		case 0:
			s = s[:at]
		case 1:
			end := at + rapid.IntRange(0, 6).Draw(t, "span")
			if end > len(s) {
				end = len(s)
			}
			s = s[:at] + s[end:]
		case 2:
			end := at + rapid.IntRange(0, 8).Draw(t, "span")
			if end > len(s) {
				end = len(s)
			}
			s = s[:end] + s[at:end] + s[end:]
		default:
			s = s[:at] + rapid.SampledFrom(gen.Atoms).Draw(t, "atom") + s[at:]
		}
	}
	return s
}

func c30GenCode(t *rapid.T) (string, string) {
	switch rapid.IntRange(0, 9).Draw(t, "kind") {
	case 0, 1:
		return string(gen.Str(t, "garbage", 12)), "garbage"
	case 2, 3, 4, 5:
		return c30Mutate(t, c30GenChunk(t)), "mutated"
	}
	return c30GenChunk(t), "generated"
}

// ---- C30/sync ---------------------------------------------------------------------------

type c30Sync struct {
	Code vs.B   `json:"code"`
	Kind string `json:"kind"` // generated | mutated | garbage
	Mode string `json:"mode"` // plain | check | lookup
}

func c30Plain(t ui.Text) string {
	var sb strings.Builder
	for _, seg := range t {
		sb.WriteString(seg.Text)
	}
	return sb.String()
}

func c30TextErr(what, code string, got ui.Text) error {
	if p := c30Plain(got); p != code {
		i := 0
		for i < len(p) && i < len(code) && p[i] == code[i] {
			i++
		}
		return fmt.Errorf("%s: highlighted text spells %q, want the code %q (first difference at byte %d; %d segments)", what, p, code, i, len(got))
	}
	return nil
}

var c30Evaler = sync.OnceValue(func() *eval.Evaler { return eval.NewEvaler() })

func c30CheckFn(t parse.Tree) (string, []*eval.CompilationError) {
	autofixes, err := c30Evaler().CheckTree(t, nil)
	return strings.Join(autofixes, "; "), eval.UnpackCompilationErrors(err)
}

func c30CheckSync(c c30Sync) error {
	code := string(c.Code)
	var cfg highlight.Config
	switch c.Mode {
	case "check":
		cfg = highlight.Config{Check: c30CheckFn, AutofixTip: func(s string) ui.Text { return ui.T("autofix: " + s) }}
	case "lookup":
		cfg = highlight.Config{Check: c30CheckFn, HasCommand: func(name string) bool { return len(name)%2 == 0 }}
	}
	hl := highlight.NewHighlighter(cfg)
	got, _ := hl.Get(code)
	if err := c30TextErr("Get", code, got); err != nil {
		return err
	}
	// The cached answer for the same code, and the answer after code changed
	// by one byte and back.
	again, _ := hl.Get(code)
	if err := c30TextErr("second Get (cached)", code, again); err != nil {
		return err
	}
	other := code + "x"
	got2, _ := hl.Get(other)
	if err := c30TextErr("Get of the code with one byte appended", other, got2); err != nil {
		return err
	}
	back, _ := hl.Get(code)
	if err := c30TextErr("Get after going back", code, back); err != nil {
		return err
	}
	if c.Mode == "lookup" {
		// An instant lookup may still be delivered late on a busy machine.
		c30Settle(hl)
		fin, _ := hl.Get(code)
		if err := c30TextErr("Get after late updates", code, fin); err != nil {
			return err
		}
	}
	return nil
}

// c30Settle gives late results of instant lookups a moment to arrive and drains the notifications.
func c30Settle(hl *highlight.Highlighter) {
	deadline := time.Now().Add(50 * time.Millisecond)
	for {
		select {
		case <-hl.LateUpdates():
			continue
		default:
		}
		if time.Now().After(deadline) {
			return
		}
		select {
		case <-hl.LateUpdates():
		case <-time.After(200 * time.Microsecond):
			// Nothing pending in most cases: instant lookups are normally
			// delivered within Get itself.
			return
		}
	}
}

// ---- C30/late ----------------------------------------------------------------------------

type c30Step struct {
	K    string `json:"k"`              // get | release | invalidate
	Code int    `json:"code,omitempty"` // get: index into Codes
	Gate int    `json:"gate,omitempty"` // release: selector among the lookups blocked at this moment
}

type c30Late struct {
	Codes []vs.B    `json:"codes"`
	Plan  []int     `json:"plan"` // n-th lookup overall: 0/1 answer at once false/true, 2/3 block then answer false/true, 4/5 release the oldest blocked lookup, wait 4 ms, answer false/true (cyclic)
	Steps []c30Step `json:"steps"`
}

type c30Gates struct {
	mu      sync.Mutex
	plan    []int
	calls   int
	blocked []chan struct{}
	names   []string
	log     []string
}

func (g *c30Gates) hasCommand(name string) bool {
	g.mu.Lock()
	p := 0
	if len(g.plan) > 0 {
		p = g.plan[g.calls%len(g.plan)]
	}
	g.calls++
	if p < 2 {
		g.mu.Unlock()
		return p == 1
	}
	if p >= 4 {
		// release the oldest blocked lookup (usually one of earlier code) now,
		// i.e. while the Get that triggered this lookup is still in progress,
		// then answer after a short while: the late result of the older code
		// arrives during a Get of newer code
		if len(g.blocked) > 0 {
			close(g.blocked[0])
			g.log = append(g.log, "released "+g.names[0]+" during the lookup of "+name)
			g.blocked, g.names = g.blocked[1:], g.names[1:]
		}
		g.mu.Unlock()
		time.Sleep(4 * time.Millisecond)
		return p == 5
	}
	ch := make(chan struct{})
	g.blocked = append(g.blocked, ch)
	g.names = append(g.names, name)
	g.mu.Unlock()
	<-ch
	return p == 3
}

func (g *c30Gates) nblocked() int {
	g.mu.Lock()
	defer g.mu.Unlock()
	return len(g.blocked)
}

// release opens the sel-th gate (mod count); returns the command name or "".
func (g *c30Gates) release(sel int) string {
	g.mu.Lock()
	defer g.mu.Unlock()
	if len(g.blocked) == 0 {
		return ""
	}
	i := sel % len(g.blocked)
	ch, name := g.blocked[i], g.names[i]
	g.blocked = append(g.blocked[:i], g.blocked[i+1:]...)
	g.names = append(g.names[:i], g.names[i+1:]...)
	close(ch)
	return name
}

// c30Quiesce waits until every goroutine the highlighter started is parked on
// a gate (two goroutines per parked computation: the one computing and the one
// waiting to deliver its result) or has finished. It is only a means to make
// late results land at the intended point of the schedule; when it gives up
// (very busy machine) the run goes on and the oracle, which holds for every
// interleaving, is unaffected.
func c30Quiesce(g *c30Gates, base int) bool {
	deadline := time.Now().Add(2 * time.Second)
	for i := 0; ; i++ {
		if runtime.NumGoroutine() <= base+2*g.nblocked() {
			return true
		}
		if time.Now().After(deadline) {
			return false
		}
		if i < 50 {
			runtime.Gosched()
		} else {
			time.Sleep(50 * time.Microsecond)
		}
	}
}

type c30LateInfo struct {
	timedOut   int // Gets that returned before their lookups finished
	lateWhile  int // late results that arrived while other code was current
	lateSame   int // late results that arrived for the current code
	notified   int
	unsettled  bool
	maxBlocked int
}

func c30RunLate(c c30Late, info *c30LateInfo) error {
	if len(c.Codes) == 0 {
		return nil
	}
	g := &c30Gates{plan: c.Plan}
	hl := highlight.NewHighlighter(highlight.Config{HasCommand: g.hasCommand})
	base := runtime.NumGoroutine()
	cur, haveCur := "", false
	var history []string
	// pendingFor[i] = code whose computation is parked behind a gate (by gate order is not tracked; counts only)
	drain := func() int {
		n := 0
		for {
			select {
			case <-hl.LateUpdates():
				n++
			default:
				return n
			}
		}
	}
	recheck := func(when string) error {
		if !haveCur {
			return nil
		}
		got, _ := hl.Get(cur)
		if err := c30TextErr(when+": Get of the current code", cur, got); err != nil {
			return fmt.Errorf("%v\nhistory:\n  %s", err, strings.Join(history, "\n  "))
		}
		return nil
	}
	defer func() {
		// open every gate so that nothing outlives the case
		for g.release(0) != "" {
			c30Quiesce(g, base)
		}
		c30Quiesce(g, base)
		drain()
	}()
	for i, st := range c.Steps {
		switch st.K {
		case "get":
			code := string(c.Codes[st.Code%len(c.Codes)])
			before := g.nblocked()
			got, _ := hl.Get(code)
			history = append(history, fmt.Sprintf("step %d: Get(%q) -> %d segments", i, code, len(got)))
			cur, haveCur = code, true
			if err := c30TextErr(fmt.Sprintf("step %d Get", i), code, got); err != nil {
				return fmt.Errorf("%v\nhistory:\n  %s", err, strings.Join(history, "\n  "))
			}
			if !c30Quiesce(g, base) && info != nil {
				info.unsettled = true
			}
			if info != nil && g.nblocked() > before {
				info.timedOut++
			}
		case "release":
			before := g.nblocked()
			name := g.release(st.Gate)
			if name == "" {
				continue
			}
			history = append(history, fmt.Sprintf("step %d: lookup of %q released (%d were blocked)", i, name, before))
			if !c30Quiesce(g, base) && info != nil {
				info.unsettled = true
			}
			if g.nblocked() < before {
				// a computation ran to its end: its late result was offered
				n := drain()
				history = append(history, fmt.Sprintf("step %d: computation finished, %d late notification(s)", i, n))
				if info != nil {
					info.notified += n
					if haveCur && !strings.Contains(cur, name) {
						info.lateWhile++
					} else {
						info.lateSame++
					}
				}
			}
		case "invalidate":
			hl.InvalidateCache()
			history = append(history, fmt.Sprintf("step %d: InvalidateCache", i))
		}
		if info != nil && g.nblocked() > info.maxBlocked {
			info.maxBlocked = g.nblocked()
		}
		if err := recheck(fmt.Sprintf("after step %d (%s)", i, st.K)); err != nil {
			return err
		}
		if !c30Quiesce(g, base) && info != nil {
			info.unsettled = true
		}
	}
	return nil
}

var c30Memo struct {
	key string
	err error
	ok  bool
}

func c30Key(c c30Late) string {
	b, _ := json.Marshal(c)
	return string(b)
}

// c30GenLateCode makes code with 1-3 bareword commands whose names identify the code.
func c30GenLateCode(t *rapid.T, id int) string {
	n := rapid.SampledFrom([]int{1, 2, 1, 3}).Draw(t, "ncmd")
	var parts []string
	for j := 0; j < n; j++ {
		s := fmt.Sprintf("c30k%d%c", id, 'a'+j)
		for k := rapid.IntRange(0, 2).Draw(t, "nargs"); k > 0; k-- {
			s += " " + c30GenWord(t)
		}
		parts = append(parts, s)
	}
	seps := []string{" | ", "; ", "\n"}
	out := parts[0]
	for _, p := range parts[1:] {
		out += rapid.SampledFrom(seps).Draw(t, "sep") + p
	}
	return out
}

func c30GenLate(t *rapid.T) c30Late {
	var c c30Late
	ncodes := rapid.IntRange(2, 4).Draw(t, "ncodes")
	for i := 0; i < ncodes; i++ {
		switch {
		case i > 0 && rapid.IntRange(0, 2).Draw(t, "edit?") == 0:
			// an edit of the previous code that keeps the length: the last byte changes
			prev := string(c.Codes[i-1])
			c.Codes = append(c.Codes, vs.B(prev[:len(prev)-1]+rapid.SampledFrom([]string{"x", "'", "\xff", " "}).Draw(t, "last")))
		case i > 0 && rapid.IntRange(0, 3).Draw(t, "grow?") == 0:
			c.Codes = append(c.Codes, c.Codes[i-1]+vs.B(rapid.SampledFrom([]string{"x", " y", " | c30tail", "\n"}).Draw(t, "suffix")))
		default:
			c.Codes = append(c.Codes, vs.B(c30GenLateCode(t, i)))
		}
	}
	c.Plan = rapid.SliceOfN(rapid.SampledFrom([]int{2, 3, 2, 3, 2, 0, 1, 4, 5, 4}), 1, 6).Draw(t, "plan")
	nsteps := rapid.IntRange(3, 12).Draw(t, "nsteps")
	for i := 0; i < nsteps; i++ {
		switch rapid.SampledFrom([]int{1, 0, 1, 0, 1, 1, 0, 1, 2, 0}).Draw(t, "step") {
		case 0:
			c.Steps = append(c.Steps, c30Step{K: "get", Code: rapid.IntRange(0, ncodes-1).Draw(t, "code")})
		case 2:
			c.Steps = append(c.Steps, c30Step{K: "invalidate"})
		default:
			c.Steps = append(c.Steps, c30Step{K: "release", Gate: rapid.IntRange(0, 3).Draw(t, "gate")})
		}
	}
	// Every schedule starts by asking for some code.
	c.Steps = append([]c30Step{{K: "get", Code: 0}, {K: "get", Code: 1}}, c.Steps...)
	return c
}

func init() {
	vs.Register(vs.Prop[c30Sync]{
		Name: "C30/sync",
		Rule: "code = output of a small Elvish grammar (all special forms, pipelines, redirections, captures, lambdas, lists/maps/braces, wildcards, tilde, quoted strings with escapes, comments, continuations, CRLF), the same damaged by 1-3 byte-level mutations (truncate, delete, duplicate, insert metacharacter or invalid UTF-8), or hostile garbage; highlighted without lookup, with the evaluator's static check (compile-error regions and autofix tips), and with an instant command lookup; the text of Get, of the cached Get, of Get for code+1 byte and of Get after going back must each equal the code asked for; non-trivial = non-empty code",
		Gen: func(t *rapid.T) c30Sync {
			code, kind := c30GenCode(t)
			return c30Sync{Code: vs.B(code), Kind: kind, Mode: rapid.SampledFrom([]string{"plain", "check", "check", "lookup"}).Draw(t, "mode")}
		},
		Check: c30CheckSync,
		Class: func(c c30Sync) (string, bool) {
			_, err := parse.Parse(parse.Source{Name: "c30", Code: string(c.Code)}, parse.Config{})
			k := c.Kind + "/" + c.Mode
			if err != nil {
				k += "/parse-error"
			}
			return k, len(c.Code) > 0
		},
		Quick: 5000, Thorough: 60000, FuzzSecs: 45,
	})
	vs.Register(vs.Prop[c30Late]{
		Name: "C30/late",
		Rule: "2-4 pieces of code with 1-3 bareword commands each (some are same-length or one-suffix edits of the previous one); 4-10 steps of Get(code i) / release one blocked lookup / InvalidateCache; a cyclic plan says for the n-th command lookup whether it answers at once or blocks on a gate until released; after every step, once all highlighter goroutines are parked or gone, Get(current code) must spell the current code; non-trivial = at least one Get returned before its lookups finished and a late result was delivered afterwards",
		Gen:  c30GenLate,
		Check: func(c c30Late) error {
			// A schedule costs real time (Get waits 10 ms for blocked lookups);
			// the run Class just made of the same case is reused.
			if key := c30Key(c); c30Memo.ok && c30Memo.key == key {
				c30Memo.ok = false
				return c30Memo.err
			}
			return c30RunLate(c, nil)
		},
		Class: func(c c30Late) (string, bool) {
			var info c30LateInfo
			c30Memo.ok = false
			func() {
				defer func() { recover() }()
				err := c30RunLate(c, &info)
				c30Memo.key, c30Memo.err, c30Memo.ok = c30Key(c), err, true
			}()
			switch {
			case info.unsettled:
				return "unsettled(busy machine)", false
			case info.lateWhile > 0:
				return "late-result-for-other-code", true
			case info.lateSame > 0:
				return "late-result-for-current-code", true
			case info.timedOut > 0:
				return "blocked-never-released", false
			}
			return "all-synchronous", false
		},
		Quick: 250, Thorough: 3000,
		Timeout: 300 * time.Second,
	})
}
