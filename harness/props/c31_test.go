package props

// C31 Terminal input decoding is total and lossless for plain text.
//
// Sub-checks:
//   C31/streams  arbitrary byte streams biased to ESC, CSI/SS3 prefixes, mouse
//                reports, digits, separators, terminators, truncated UTF-8, fed
//                to term.VerifReadEvent through a fake byte reader that also
//                injects generated timeouts on timed reads. Oracle: no panic;
//                every call yields an event or an error; within one event only
//                the first read may be untimed (every later read carries a
//                non-negative timeout, so no sequence can block for ever); the
//                stream is consumed in a bounded number of calls (progress).
//   C31/text     printable UTF-8 (letters, marks, numbers, punctuation, symbols
//                of every encoded length, private-use and format characters and the
//                ASCII space; no control or
//                escape bytes). Oracle: exactly one unmodified KeyEvent per
//                rune, in order, nothing else, then the end-of-input error.

import (
	"errors"
	"fmt"
	"io"
	"strings"
	"time"
	"unicode"
	"unicode/utf8"

	"pgregory.net/rapid"
	"src.elv.sh/pkg/cli/term"
	"verif/vs"
)

// c31Reader is the fake terminal: it hands out the stream byte by byte,
// honours injected timeouts on timed reads and records what the decoder asks.
type c31Reader struct {
	data    []byte
	pos     int
	timeout map[int]bool // indices (counted over all timed reads) at which the read times out
	timed   int          // number of timed reads so far
	// per event
	reads     int
	violation error
}

var c31ErrEOF = io.EOF

func (r *c31Reader) ReadByteWithTimeout(timeout time.Duration) (byte, error) {
	idx := r.reads
	r.reads++
	if timeout < 0 {
		if idx > 0 && r.violation == nil {
			r.violation = fmt.Errorf("read #%d of one event (after %d bytes of the stream) is untimed: a sequence that stops here would block the reader for ever", idx+1, r.pos)
		}
		if r.pos >= len(r.data) {
			return 0, c31ErrEOF
		}
		b := r.data[r.pos]
		r.pos++
		return b, nil
	}
	k := r.timed
	r.timed++
	if r.timeout[k] || r.pos >= len(r.data) {
		return 0, term.VerifErrTimeout
	}
	b := r.data[r.pos]
	r.pos++
	return b, nil
}

type c31Result struct {
	ev  term.Event
	err error
}

// c31Drain reads events until the stream is exhausted and the reader reports
// the end of input. It returns everything that was produced.
func c31Drain(data []byte, timeouts []int) ([]c31Result, error) {
	rd := &c31Reader{data: data, timeout: map[int]bool{}}
	for _, k := range timeouts {
		rd.timeout[k] = true
	}
	var out []c31Result
	limit := 2*len(data) + len(timeouts) + 10
	for calls := 0; ; calls++ {
		if calls > limit {
			return out, fmt.Errorf("no progress: %d calls of ReadEvent did not consume a stream of %d bytes (at offset %d)", calls, len(data), rd.pos)
		}
		before := rd.pos
		rd.reads = 0
		var ev term.Event
		var err error
		var panicked any
		func() {
			defer func() { panicked = recover() }()
			ev, err = term.VerifReadEvent(rd)
		}()
		if panicked != nil {
			return out, fmt.Errorf("ReadEvent panicked at stream offset %d: %v", before, panicked)
		}
		if rd.violation != nil {
			return out, rd.violation
		}
		if ev == nil && err == nil {
			return out, fmt.Errorf("ReadEvent at stream offset %d returned neither an event nor an error", before)
		}
		if rd.pos > len(data) {
			return out, fmt.Errorf("reader consumed %d bytes of a %d byte stream", rd.pos, len(data))
		}
		out = append(out, c31Result{ev, err})
		if rd.reads == 0 {
			return out, fmt.Errorf("ReadEvent at offset %d returned without reading", before)
		}
		if before >= len(data) {
			// The stream was already exhausted: the untimed first read reported EOF.
			if err == nil {
				return out, fmt.Errorf("ReadEvent on an exhausted stream produced event %v instead of an error", ev)
			}
			return out, nil
		}
	}
}

// ---- C31/streams ------------------------------------------------------------------

type c31Stream struct {
	Bytes    vs.B  `json:"bytes"`
	Timeouts []int `json:"timeouts,omitempty"`
}

var c31Chunks = []string{
	"\x1b", "\x1b", "\x1b[", "\x1b[", "\x1bO", "\x1b\x1b[", "\x1b\x1bO", "\x1b[<", "\x1b[M", "\x1b[200~", "\x1b[201~",
	"[", "O", "<", "M", "m", "R", "~", ";", ";", "0", "1", "2", "5", "9", "27", "200", "99999999999999999999",
	// numbers around the wrap-around points of the accumulating argument parser
	"9223372036854775807", "9223372036854775808", "9999999999999999999", "18446744073709551615", "18446744073709551616", "18446744073709551617", "2147483648", "4294967295",
	"\x1b[1;9999999999999999999A", "\x1b[5;9223372036854775808~", "\x1b[27;18446744073709551615;9~", "\x1b[27;5;9223372036854775809~", "\x1b[9223372036854775808;5~", "\x1b[<9223372036854775808;3;4M",
	"A", "B", "H", "F", "Z", "P", "a", "d", "$", "^", "@", " ", "!", "\x7f", "\x00", "\x01", "\t", "\n", "\r", "\x1d", "\x1e", "\x1f",
	"\xc3", "\xc3\xa9", "\xe4", "\xe4\xb8", "\xe4\xb8\x96", "\xf0", "\xf0\x9f", "\xf0\x9f\x98", "\xf0\x9f\x98\x80",
	"\x80", "\xbf", "\xc0", "\xf8", "\xff", "\xed\xa0\x80", "\xf4\x90\x80\x80",
	"\x1b[1;5A", "\x1b[3~", "\x1b[3;5~", "\x1b[27;5;9~", "\x1b[12;34R", "\x1b[<0;3;4M", "\x1b[<35;3;4m", "\x1b[M !!", "\x1bOP", "\x1b[3^", "\x1bx", "\x1b\x7f",
}

func c31GenStream(t *rapid.T) c31Stream {
	n := rapid.IntRange(1, 12).Draw(t, "chunks")
	var sb strings.Builder
	for i := 0; i < n; i++ {
		if r := rapid.IntRange(0, 11).Draw(t, "raw?"); r == 0 {
			sb.WriteByte(rapid.Byte().Draw(t, "raw"))
		} else if r == 1 {
			// a run of digits of a length around the width of machine integers
			for k, nd := 0, rapid.SampledFrom([]int{1, 2, 3, 10, 18, 19, 19, 20, 21}).Draw(t, "ndigits"); k < nd; k++ {
				sb.WriteByte(byte('0' + rapid.IntRange(0, 9).Draw(t, "digit")))
			}
		} else {
			sb.WriteString(rapid.SampledFrom(c31Chunks).Draw(t, "chunk"))
		}
	}
	s := sb.String()
	var to []int
	switch rapid.IntRange(0, 3).Draw(t, "timeouts") {
	case 0: // no injected timeouts: the stream arrives in one piece
	case 1: // dense
		for k := 0; k <= len(s); k++ {
			if rapid.IntRange(0, 2).Draw(t, "to") == 0 {
				to = append(to, k)
			}
		}
	default:
		for k := 0; k <= len(s); k++ {
			if rapid.IntRange(0, 9).Draw(t, "to") == 0 {
				to = append(to, k)
			}
		}
	}
	return c31Stream{Bytes: vs.B(s), Timeouts: to}
}

func c31CheckStream(c c31Stream) error {
	_, err := c31Drain([]byte(c.Bytes), c.Timeouts)
	if err != nil {
		return fmt.Errorf("%v\nstream: %q timeouts at timed reads %v", err, string(c.Bytes), c.Timeouts)
	}
	return nil
}

func c31ClassStream(c c31Stream) (string, bool) {
	s := string(c.Bytes)
	kind := "no-esc"
	switch {
	case strings.Contains(s, "\x1b[M"):
		kind = "mouse"
	case strings.Contains(s, "\x1b[<"):
		kind = "sgr-mouse"
	case strings.Contains(s, "\x1b["):
		kind = "csi"
	case strings.Contains(s, "\x1bO"):
		kind = "ss3"
	case strings.Contains(s, "\x1b"):
		kind = "esc"
	}
	if !utf8.ValidString(s) {
		kind += "+badutf8"
	}
	if len(c.Timeouts) > 0 {
		kind += "/timeouts"
	} else {
		kind += "/contiguous"
	}
	return kind, strings.Contains(s, "\x1b") || !utf8.ValidString(s)
}

// ---- C31/text ---------------------------------------------------------------------

type c31Text struct {
	Text string `json:"text"`
}

var c31Printable = []rune{' ', '!', '0', 'A', '[', 'O', 'M', '~', ';', '<', 'a', 'z', '\u00A1', '\u00E9', '\u07FF', '\u0800', '\u0301', '\u4E16', '\uD7A3', '\uFFFD', '\uFF01', '\u20AC',
	'\U00010000', '\U0001F600', '\U00020000', '\U0002FA1D', '\U000E0100',
	// private-use (icon fonts) and format characters are text too
	'\uE000', '\uF8FF', '\U000F0000', '\U000FFFFD', '\U00100000', '\U0010FFFD', '\u200B', '\u200D', '\uFEFF'}

// c31InDomain: the property's "printable text without escape or control
// bytes": everything Go calls printable plus the ASCII space, private-use and
// format characters; no controls (Cc), surrogates or unassigned code points.
func c31InDomain(r rune) bool {
	return r == ' ' || unicode.IsPrint(r) || unicode.Is(unicode.Co, r) || unicode.Is(unicode.Cf, r)
}

func c31GenText(t *rapid.T) c31Text {
	n := rapid.IntRange(1, 24).Draw(t, "n")
	var sb strings.Builder
	for i := 0; i < n; i++ {
		var r rune
		switch rapid.IntRange(0, 3).Draw(t, "k") {
		case 0:
			r = rune(rapid.IntRange(0x20, 0x7e).Draw(t, "ascii"))
		case 1:
			r = rapid.SampledFrom(c31Printable).Draw(t, "special")
		default:
			r = rapid.RuneFrom(nil, unicode.L, unicode.M, unicode.N, unicode.P, unicode.S).Draw(t, "rune")
		}
		if !c31InDomain(r) {
			r = 'x'
		}
		sb.WriteRune(r)
	}
	return c31Text{Text: sb.String()}
}

func c31CheckText(c c31Text) error {
	if !utf8.ValidString(c.Text) {
		return fmt.Errorf("bad case: text is not valid UTF-8")
	}
	for _, r := range c.Text {
		if !c31InDomain(r) {
			return fmt.Errorf("bad case: %U is outside the property's domain (printable text)", r)
		}
	}
	res, err := c31Drain([]byte(c.Text), nil)
	if err != nil {
		return fmt.Errorf("%v\ntext: %q", err, c.Text)
	}
	want := []rune(c.Text)
	// the last result is the end-of-input error
	if len(res) == 0 || res[len(res)-1].err == nil || !errors.Is(res[len(res)-1].err, c31ErrEOF) {
		return fmt.Errorf("text %q: the reader did not end with the end-of-input error of the byte source: %v", c.Text, c31Show(res))
	}
	res = res[:len(res)-1]
	for i, r := range res {
		if i >= len(want) {
			return fmt.Errorf("text %q (%d characters) decoded into %d events: %v", c.Text, len(want), len(res), c31Show(res))
		}
		if r.err != nil {
			return fmt.Errorf("text %q: character %d (%U) produced error %v instead of a key event", c.Text, i, want[i], r.err)
		}
		k, ok := r.ev.(term.KeyEvent)
		if !ok {
			return fmt.Errorf("text %q: character %d (%U) produced %T %v instead of a key event", c.Text, i, want[i], r.ev, r.ev)
		}
		if k.Rune != want[i] || k.Mod != 0 {
			return fmt.Errorf("text %q: character %d (%U) decoded as key {rune %U, mod %d}, want the unmodified character", c.Text, i, want[i], k.Rune, k.Mod)
		}
	}
	if len(res) != len(want) {
		return fmt.Errorf("text %q (%d characters) decoded into %d events: %v", c.Text, len(want), len(res), c31Show(res))
	}
	return nil
}

func c31Show(res []c31Result) string {
	var sb strings.Builder
	for i, r := range res {
		if i > 0 {
			sb.WriteString(", ")
		}
		if r.err != nil {
			fmt.Fprintf(&sb, "error(%v)", r.err)
		} else {
			fmt.Fprintf(&sb, "%T%v", r.ev, r.ev)
		}
	}
	return sb.String()
}

func c31ClassText(c c31Text) (string, bool) {
	maxLen := 1
	for _, r := range c.Text {
		if l := utf8.RuneLen(r); l > maxLen {
			maxLen = l
		}
	}
	return fmt.Sprintf("max-%d-byte-runes", maxLen), maxLen > 1
}

func init() {
	vs.Register(vs.Prop[c31Stream]{
		Name: "C31/streams",
		Rule: "1..12 chunks drawn from ESC, CSI/SS3/double-ESC prefixes, mouse and SGR-mouse introducers, bracketed-paste markers, digits (incl. overflowing numbers), separators, terminators, control bytes, complete and truncated UTF-8, invalid leaders/continuations, complete known sequences, 10% arbitrary bytes; timeouts injected at none / 10% / 33% of the timed reads; non-trivial = the stream contains ESC or invalid UTF-8",
		Gen:  c31GenStream, Check: c31CheckStream, Class: c31ClassStream,
		Quick: 30000, Thorough: 400000, FuzzSecs: 45,
	})
	vs.Register(vs.Prop[c31Text]{
		Name: "C31/text",
		Rule: "1..24 printable characters: ASCII 0x20..0x7e (incl. the bytes that are special after ESC), boundary code points of every UTF-8 length, random letters/marks/numbers/punctuation/symbols, private-use and format characters; no control or escape bytes, delivered contiguously; non-trivial = contains a multi-byte character",
		Gen:  c31GenText, Check: c31CheckText, Class: c31ClassText,
		Quick: 20000, Thorough: 300000,
	})
}
