package props

// C32 The editor event loop handles events serially and never loses a redraw.
//
// The real loop (cli.VerifNewLoop) runs in its own goroutine. A case is a list
// of rounds; in a round 1..4 producer goroutines issue generated sequences of
// Input / Redraw(false) / Redraw(true) / Return / "input whose handler calls
// Return", separated by generated numbers of scheduler yields; the callbacks
// yield too. After each round the producers are joined and the harness waits
// for the loop to settle. Everything is recorded with a logical clock.
//
// The oracle consists of invariants that hold under every interleaving (so the
// verdict does not depend on the schedule the Go runtime happens to pick):
//
//   serial      no two callbacks overlap;
//   order       the handled events are a prefix of the arrival order (arrival
//               is the order of the Input calls, which the harness serialises
//               with its own lock), and while the loop is alive every event
//               sent is eventually handled;
//   redraw      while the loop is alive, every Redraw request is followed by a
//               redraw callback that starts after the request began (the
//               redraw it causes may start before the call has returned);
//   full        while the loop is alive, every Redraw(true) is followed by a
//               redraw callback carrying the full flag; unless one started
//               while the call was in progress, it is one of the first two
//               non-final redraws that start after the call returned (the
//               first of them may have read the flag before the request) -- a
//               full request is never downgraded;
//   return      Run returns the result of the first Return call (the harness
//               serialises Return calls with its own lock), after exactly one
//               final redraw, which is the last callback; no callback runs
//               after it even if more requests arrive.
//
// "Eventually" is decided without a deadline in the passing direction: the
// harness blocks on a condition variable that the callbacks signal. Only if
// nothing happens for c32Patience (10 s for something that takes microseconds)
// is the request reported as lost.
//
// C32/race is the same check built with the race detector (fewer cases).

import (
	"fmt"
	"runtime"
	"strings"
	"sync"
	"sync/atomic"
	"time"

	"pgregory.net/rapid"
	"src.elv.sh/pkg/cli"
	"verif/vs"
)

const (
	c32PatienceTicks = 100
	c32Patience      = c32PatienceTicks * 100 * time.Millisecond
)

type c32Op struct {
	K string `json:"k"`           // input inputret redraw full return yield
	N int    `json:"n,omitempty"` // yield: number of yields; input: yields inside the handler
}

type c32Round struct {
	Producers [][]c32Op `json:"producers"`
}

type c32Case struct {
	Rounds      []c32Round `json:"rounds"`
	RedrawYield int        `json:"redraw_yield,omitempty"` // yields inside the redraw callback
}

type c32Err string

func (e c32Err) Error() string { return string(e) }

type c32Redraw struct {
	start       int
	full, final bool
}

type c32Req struct {
	begin, done int // clock just before the Redraw call and just after it returned
	full        bool
}

type c32Run struct {
	lp *cli.VerifLoop

	mu    sync.Mutex
	cond  *sync.Cond
	clock int
	// all below guarded by mu
	handled     []string
	handleStart []int
	redraws     []c32Redraw
	reqs        []c32Req
	finalAt     int // clock of the final redraw's start, 0 if none
	problems    []string
	runReturned int // clock at which Run was seen to return, 0 if not yet
	runBuf      string
	runErr      error
	log         []string

	inCallback atomic.Int32

	inputMu  sync.Mutex
	arrivals []string
	yields   map[string]int // input id -> yields in handler
	returner map[string]bool

	returnMu    sync.Mutex
	firstReturn string // id of the first Return call, "" if none yet

	redrawYield int
}

func (r *c32Run) tick(format string, args ...any) int {
	// caller holds r.mu
	r.clock++
	if len(r.log) < 400 {
		r.log = append(r.log, fmt.Sprintf("%d:", r.clock)+fmt.Sprintf(format, args...))
	}
	return r.clock
}

func (r *c32Run) problem(format string, args ...any) {
	// caller holds r.mu
	if len(r.problems) < 5 {
		r.problems = append(r.problems, fmt.Sprintf(format, args...))
	}
}

func (r *c32Run) enter(what string) {
	if n := r.inCallback.Add(1); n != 1 {
		r.mu.Lock()
		r.problem("callback %s started while another callback was running (serial execution violated)", what)
		r.mu.Unlock()
	}
}

func (r *c32Run) leave() { r.inCallback.Add(-1) }

func (r *c32Run) doReturn(id string) {
	r.returnMu.Lock()
	if r.firstReturn == "" {
		r.firstReturn = id
	}
	r.lp.Return(id, c32Err(id))
	r.returnMu.Unlock()
}

func (r *c32Run) handle(ev any) {
	id, _ := ev.(string)
	r.enter("handle(" + id + ")")
	defer r.leave()
	r.mu.Lock()
	at := r.tick("handle %s", id)
	if r.finalAt != 0 {
		r.problem("event %s handled after the final redraw", id)
	}
	r.handled = append(r.handled, id)
	r.handleStart = append(r.handleStart, at)
	n, ret := r.yields[id], r.returner[id]
	r.cond.Broadcast()
	r.mu.Unlock()
	for i := 0; i < n; i++ {
		runtime.Gosched()
	}
	if ret {
		r.doReturn("ret-in-handler-" + id)
	}
}

func (r *c32Run) redraw(full, final bool) {
	r.enter("redraw")
	defer r.leave()
	r.mu.Lock()
	at := r.tick("redraw full=%v final=%v", full, final)
	if r.finalAt != 0 {
		r.problem("redraw callback (full=%v final=%v) after the final redraw", full, final)
	}
	if final {
		r.finalAt = at
	}
	r.redraws = append(r.redraws, c32Redraw{at, full, final})
	r.cond.Broadcast()
	r.mu.Unlock()
	for i := 0; i < r.redrawYield; i++ {
		runtime.Gosched()
	}
}

// waitFor blocks until pred (evaluated under mu) holds. It gives up only after
// c32PatienceTicks wake-ups of a 100 ms ticker, i.e. after this process has
// been running (not merely after wall-clock time has passed, which on a frozen
// or heavily loaded machine says nothing) for about c32Patience while the
// callbacks never made pred true.
func (r *c32Run) waitFor(pred func() bool) bool {
	stop := make(chan struct{})
	defer close(stop)
	ticks := 0 // guarded by mu
	go func() {
		tk := time.NewTicker(100 * time.Millisecond)
		defer tk.Stop()
		for {
			select {
			case <-stop:
				return
			case <-tk.C:
				runtime.Gosched()
				r.mu.Lock()
				ticks++
				r.cond.Broadcast()
				r.mu.Unlock()
			}
		}
	}()
	r.mu.Lock()
	defer r.mu.Unlock()
	for !pred() {
		if ticks >= c32PatienceTicks {
			return false
		}
		r.cond.Wait()
	}
	return true
}

func (r *c32Run) history() string {
	r.mu.Lock()
	defer r.mu.Unlock()
	return "history (logical clock): " + strings.Join(r.log, " | ")
}

func c32Check(c c32Case) (err error) {
	r := &c32Run{yields: map[string]int{}, returner: map[string]bool{}, redrawYield: c.RedrawYield}
	r.cond = sync.NewCond(&r.mu)
	r.lp = cli.VerifNewLoop(r.handle, r.redraw)

	// ids and handler behaviour are fixed before anything runs
	for ri, round := range c.Rounds {
		for pi, ops := range round.Producers {
			for oi, op := range ops {
				id := fmt.Sprintf("r%dp%di%d", ri, pi, oi)
				if op.K == "input" || op.K == "inputret" {
					r.yields[id] = op.N
					r.returner[id] = op.K == "inputret"
				}
			}
		}
	}

	runDone := make(chan struct{})
	go func() {
		buf, e := r.lp.Run()
		r.mu.Lock()
		r.runBuf, r.runErr = buf, e
		r.runReturned = r.tick("Run returned %q", buf)
		r.cond.Broadcast()
		r.mu.Unlock()
		close(runDone)
	}()
	// Whatever happens, do not leave the loop goroutine behind.
	defer func() {
		select {
		case <-runDone:
		default:
			r.lp.Return("cleanup", nil)
			select {
			case <-runDone:
			case <-time.After(c32Patience):
				if err == nil {
					err = fmt.Errorf("Run did not return after Return was called\n%s", r.history())
				}
			}
		}
	}()

	fail := func(format string, args ...any) error {
		return fmt.Errorf(format+"\n%s", append(args, r.history())...)
	}

	// Has a Return been requested so far (directly, or through an event whose
	// handler will call it)? Known from the case alone.
	returned := false

	for ri, round := range c.Rounds {
		var wg sync.WaitGroup
		for pi, ops := range round.Producers {
			wg.Add(1)
			go func(pi int, ops []c32Op) {
				defer wg.Done()
				for oi, op := range ops {
					id := fmt.Sprintf("r%dp%di%d", ri, pi, oi)
					switch op.K {
					case "burst":
						// more events than the loop's input buffer holds (128),
						// issued back to back by one producer
						for k := 0; k < op.N; k++ {
							bid := fmt.Sprintf("%s#%d", id, k)
							r.inputMu.Lock()
							r.arrivals = append(r.arrivals, bid)
							r.lp.Input(bid)
							r.inputMu.Unlock()
						}
					case "input", "inputret":
						r.inputMu.Lock()
						r.arrivals = append(r.arrivals, id)
						r.lp.Input(id)
						r.inputMu.Unlock()
					case "redraw", "full":
						r.mu.Lock()
						begin := r.tick("Redraw(%v) by %s begins", op.K == "full", id)
						r.mu.Unlock()
						r.lp.Redraw(op.K == "full")
						r.mu.Lock()
						at := r.tick("Redraw(%v) by %s done", op.K == "full", id)
						r.reqs = append(r.reqs, c32Req{begin, at, op.K == "full"})
						r.mu.Unlock()
					case "return":
						r.doReturn("ret-" + id)
					case "yield":
						for i := 0; i < op.N; i++ {
							runtime.Gosched()
						}
					}
				}
			}(pi, ops)
		}
		wg.Wait()

		// settle
		for _, ops := range round.Producers {
			for _, op := range ops {
				if op.K == "return" || op.K == "inputret" {
					returned = true
				}
			}
		}
		if returned {
			if !r.waitFor(func() bool { return r.runReturned != 0 }) {
				return fail("round %d: Return was called but Run did not return within %v", ri, c32Patience)
			}
			continue
		}
		r.inputMu.Lock()
		sent := len(r.arrivals)
		r.inputMu.Unlock()
		if !r.waitFor(func() bool { return len(r.handled) >= sent }) {
			r.mu.Lock()
			n := len(r.handled)
			r.mu.Unlock()
			return fail("round %d: %d events were sent and the loop is alive, but only %d were handled after %v", ri, sent, n, c32Patience)
		}
		r.mu.Lock()
		// A redraw may legitimately start while the request that causes it is
		// still returning, so "after the request" is counted from its beginning.
		lastReq, lastFull := 0, 0
		for _, q := range r.reqs {
			if q.begin > lastReq {
				lastReq = q.begin
			}
			if q.full && q.begin > lastFull {
				lastFull = q.begin
			}
		}
		r.mu.Unlock()
		served := func(after int, needFull bool) func() bool {
			return func() bool {
				for _, d := range r.redraws {
					if d.start > after && !d.final && (d.full || !needFull) {
						return true
					}
				}
				return false
			}
		}
		if lastReq > 0 && !r.waitFor(served(lastReq, false)) {
			return fail("round %d: a Redraw request began at clock %d and completed, the loop is alive, but no redraw started after it within %v (redraw lost)", ri, lastReq, c32Patience)
		}
		if lastFull > 0 && !r.waitFor(served(lastFull, true)) {
			return fail("round %d: Redraw(true) began at clock %d and completed, the loop is alive, but no full redraw started after it within %v (full redraw lost or downgraded)", ri, lastFull, c32Patience)
		}
	}

	if !returned {
		r.doReturn("ret-main")
	}
	if !r.waitFor(func() bool { return r.runReturned != 0 }) {
		return fail("Return was called but Run did not return within %v", c32Patience)
	}
	<-runDone

	// ---- trace invariants ----
	r.mu.Lock()
	defer r.mu.Unlock()
	hist := "history (logical clock): " + strings.Join(r.log, " | ")
	if len(r.problems) > 0 {
		return fmt.Errorf("%s\n%s", strings.Join(r.problems, "; "), hist)
	}
	// order
	r.inputMu.Lock()
	arrivals := append([]string(nil), r.arrivals...)
	r.inputMu.Unlock()
	if len(r.handled) > len(arrivals) {
		return fmt.Errorf("%d events handled but only %d sent\n%s", len(r.handled), len(arrivals), hist)
	}
	for i, id := range r.handled {
		if arrivals[i] != id {
			return fmt.Errorf("events not handled in arrival order: position %d handled %s, arrival order has %s (arrivals %v, handled %v)\n%s", i, id, arrivals[i], arrivals, r.handled, hist)
		}
	}
	// return
	finals := 0
	for _, d := range r.redraws {
		if d.final {
			finals++
		}
	}
	if finals != 1 {
		return fmt.Errorf("%d final redraws, want exactly one\n%s", finals, hist)
	}
	last := r.redraws[len(r.redraws)-1]
	if !last.final {
		return fmt.Errorf("the final redraw is not the last redraw\n%s", hist)
	}
	if n := len(r.handleStart); n > 0 && r.handleStart[n-1] > last.start {
		return fmt.Errorf("an event was handled after the final redraw\n%s", hist)
	}
	if r.runReturned < last.start {
		return fmt.Errorf("Run returned before the final redraw\n%s", hist)
	}
	r.returnMu.Lock()
	first := r.firstReturn
	r.returnMu.Unlock()
	if r.runBuf != first || r.runErr != error(c32Err(first)) {
		return fmt.Errorf("Run returned (%q, %v), want the result of the first Return call (%q, %v)\n%s", r.runBuf, r.runErr, first, c32Err(first), hist)
	}
	// full requests are not downgraded: one of the first two non-final redraws
	// that start after the request carries the flag
	for _, q := range r.reqs {
		if !q.full {
			continue
		}
		// Redraws that start while the call is in progress may or may not see
		// the flag; the second one that starts after the call returned must
		// have read the flag after it was set.
		during, after := false, []c32Redraw{}
		for _, d := range r.redraws {
			if d.final {
				continue
			}
			if d.start > q.begin && d.start < q.done && d.full {
				during = true
			}
			if d.start > q.done {
				after = append(after, d)
			}
		}
		if !during && len(after) >= 2 && !after[0].full && !after[1].full {
			return fmt.Errorf("Redraw(true) ran from clock %d to %d; no full redraw started meanwhile and the next two redraws (clock %d and %d) are both partial: the full request was downgraded\n%s", q.begin, q.done, after[0].start, after[1].start, hist)
		}
	}
	return nil
}

// ---- generator --------------------------------------------------------------------

func c32GenOps(t *rapid.T, allowReturn bool) []c32Op {
	n := rapid.IntRange(1, 8).Draw(t, "nops")
	kinds := []string{"input", "input", "input", "redraw", "redraw", "full", "full", "yield", "yield"}
	if allowReturn {
		kinds = append(kinds, "return", "inputret")
	}
	var ops []c32Op
	for i := 0; i < n; i++ {
		op := c32Op{K: rapid.SampledFrom(kinds).Draw(t, "k")}
		switch op.K {
		case "yield":
			op.N = rapid.IntRange(1, 20).Draw(t, "n")
		case "input", "inputret":
			op.N = rapid.IntRange(0, 3).Draw(t, "hy")
		}
		ops = append(ops, op)
	}
	return ops
}

func c32Gen(t *rapid.T) c32Case {
	var c c32Case
	if rapid.IntRange(0, 9).Draw(t, "?burst") == 0 {
		// one or two producers flood the loop with more events than its input
		// buffer holds while the handler is slow: arrival order must survive
		np := rapid.IntRange(1, 2).Draw(t, "burstproducers")
		var round c32Round
		for pi := 0; pi < np; pi++ {
			ops := []c32Op{{K: "input", N: 3}, {K: "burst", N: rapid.IntRange(130, 330).Draw(t, "burst")}}
			if rapid.Bool().Draw(t, "?redrawafter") {
				ops = append(ops, c32Op{K: "full"})
			}
			round.Producers = append(round.Producers, ops)
		}
		c.Rounds = []c32Round{round}
		c.RedrawYield = rapid.IntRange(0, 3).Draw(t, "redrawyield")
		return c
	}
	nr := rapid.IntRange(1, 3).Draw(t, "rounds")
	// Most cases keep the loop alive through all rounds (that is where the
	// redraw invariants bite); in the others a Return may come from anywhere.
	returnsFrom := nr
	if rapid.IntRange(0, 2).Draw(t, "withreturn") == 0 {
		returnsFrom = rapid.IntRange(0, nr-1).Draw(t, "returnround")
	}
	for ri := 0; ri < nr; ri++ {
		np := rapid.IntRange(1, 4).Draw(t, "producers")
		var round c32Round
		for pi := 0; pi < np; pi++ {
			round.Producers = append(round.Producers, c32GenOps(t, ri >= returnsFrom))
		}
		c.Rounds = append(c.Rounds, round)
	}
	c.RedrawYield = rapid.IntRange(0, 3).Draw(t, "redrawyield")
	return c
}

func c32Class(c c32Case) (string, bool) {
	maxP, hasRet, hasFull, hasPartial, inputs := 0, false, false, false, 0
	for _, rd := range c.Rounds {
		if len(rd.Producers) > maxP {
			maxP = len(rd.Producers)
		}
		for _, ops := range rd.Producers {
			for _, op := range ops {
				switch op.K {
				case "return", "inputret":
					hasRet = true
				case "full":
					hasFull = true
				case "redraw":
					hasPartial = true
				case "input":
					inputs++
				}
			}
		}
	}
	cl := fmt.Sprintf("%d-producers", maxP)
	if maxP >= 2 {
		cl = "2-4-producers"
	}
	if hasRet {
		cl += "/return-in-flight"
	} else {
		cl += "/alive"
	}
	if hasFull && hasPartial {
		cl += "/full+partial"
	}
	return cl, maxP >= 2 || (hasFull && hasPartial) || inputs >= 2
}

func init() {
	rule := "1..3 rounds of 1..4 concurrent producers, each issuing 1..8 of Input (handler yields 0..3 times), Redraw(false), Redraw(true), scheduler yields (1..20), and in one case out of three, from a generated round on, Return and inputs whose handler calls Return; producers are joined and the loop is left to settle after every round; non-trivial = two or more producers, or both full and partial redraw requests, or two or more inputs"
	vs.Register(vs.Prop[c32Case]{
		Name: "C32/loop", Rule: rule,
		Gen: c32Gen, Check: c32Check, Class: c32Class,
		Quick: 1000, Thorough: 12000,
		Timeout: 120 * time.Second,
	})
	vs.Register(vs.Prop[c32Case]{
		Name: "C32/race", Rule: rule + "; built with the race detector",
		Gen: c32Gen, Check: c32Check, Class: c32Class,
		Quick: 200, Thorough: 2500, Race: true,
		Timeout: 120 * time.Second,
	})
}
